/- The union gadget invariant for the REPAIRED source shape (copy_or_downsample rebuilds the counters, reset() returns to
lg_max_k): every history, including precision reduction (helper lemmas for Props/C04_Repaired.lean). -/
import DSProofs.Lemmas.HllUnionInv
namespace DS.Hll

variable {ν : Type} [HNum ν]

/-! ### A. rebuilding right after the down-sampling merge -/

/-- `check_rebuild_kxq_cur_min` on an array whose flag is pending: whatever the stale counters were, afterwards the array
reports empty only if every register is zero -/
theorem checkRebuild_fresh {p : Params} {g : St ν} {M : Nat → Prop} (hm : g.mode = .hll) (h8 : g.tt = .h8)
    (hsz : g.regs.size = 2^g.lgK) (hregs : ∀ slot, slot < 2^g.lgK → IsMaxAt p g.lgK M slot (g.regs.getD slot 0))
    (hrb : g.rebuild = true) :
    GH p (checkRebuild g) M ∧ (checkRebuild g).lgK = g.lgK := by
  have hf := checkRebuild_fields g
  have hcnt := checkRebuild_counts g ⟨hm, hrb⟩
  have sp := rebuild_fold_spec (ν := ν) g.regs.toList 64 0 (HNum.ofNat (2^g.lgK)) (HNum.ofNat 0) [] (by simp) (by simp)
  simp only [List.nil_append] at sp
  obtain ⟨s1, s2⟩ := sp
  refine ⟨⟨hf.2.2.1.trans hm, hf.2.2.2.1.trans h8, by rw [hf.1, hf.2.1]; exact hsz,
    by rw [hf.1, hf.2.1]; exact hregs, ?_, ?_⟩, hf.2.1⟩
  · rw [hcnt.2, s2, hf.2.1, ← hsz, ← Array.length_toList]
    exact List.length_filter_le _ _
  · intro he
    rw [isEmpty_hll (hf.2.2.1.trans hm), hcnt.1, hcnt.2, hf.2.1] at he
    obtain ⟨e1, e2⟩ := he
    rw [s2, e1] at e2
    rw [hf.1, hf.2.1]
    intro slot hs
    have hlen : (g.regs.toList.filter (· = 0)).length = g.regs.toList.length := by
      rw [e2, Array.length_toList, hsz]
    have hall := List.filter_eq_self.1 (List.Sublist.eq_of_length List.filter_sublist hlen)
    have hs' : slot < g.regs.size := by rw [hsz]; exact hs
    rw [getD_eq_getElem hs']
    have := hall (g.regs[slot]) (by simp)
    simpa using this

/-- the repaired `copy_or_downsample` to a smaller lg_k: the folded content with valid counters -/
theorem downsampleF_GH {p : Params} (hfl : p.unionDownsampleRebuilds = true) {src : St ν} {S : Nat → Prop} {tgt : Nat}
    (hlt : tgt < src.lgK) (hsz : src.regs.size = 2^src.lgK)
    (hregs : ∀ i, i < 2^src.lgK → IsMaxAt p src.lgK S i (src.regs.getD i 0)) :
    GH p (copyOrDownsampleF p src tgt) S ∧ (copyOrDownsampleF p src tgt).lgK = tgt := by
  let t0 : St ν := mergeHll (newHll tgt .h8 false) src
  have hc := mergeRegs_content p (M := fun _ => False) (N := S) (dst := (newHll tgt .h8 false : St ν).regs)
    (Nat.le_of_lt hlt) (by simp [newHll]) hsz (by
      intro j hj
      refine ⟨fun c hc => absurd hc (by simp), Or.inl ?_⟩
      simp [newHll, Array.getD_eq_getD_getElem?, hj]) hregs
  have hs0 := (mergeRegs_spec (newHll tgt .h8 false : St ν).regs tgt src.regs (by simp [newHll])).1
  have fr := checkRebuild_fresh (p := p) (g := t0) (M := S) rfl rfl hs0
    (fun slot hs => IsMaxAt.congr (by simp) (hc slot hs)) rfl
  have e : copyOrDownsampleF p src tgt = { checkRebuild t0 with hip := src.hip, ooo := src.ooo } := by
    unfold copyOrDownsampleF
    rw [if_pos hfl, if_neg (by omega)]
  rw [e]
  exact ⟨⟨fr.1.mode, fr.1.tt8, fr.1.size, fr.1.regs, fr.1.num_le, fr.1.empty_sound⟩, fr.2⟩

theorem copyOrDownsampleF_le {p : Params} (hfl : p.unionDownsampleRebuilds = true) (src : St ν) {tgt : Nat}
    (hle : src.lgK ≤ tgt) : copyOrDownsampleF p src tgt = copyAs p src .h8 := by
  unfold copyOrDownsampleF; rw [if_pos hfl, if_pos hle]

/-- copy (lg_k ≤ target) or down-sample (lg_k > target) an HLL-mode input: a good gadget of lg_k = min -/
theorem copyOrDownsampleF_GH {p : Params} (hfl : p.unionDownsampleRebuilds = true) {src : St ν} {S : Nat → Prop} (tgt : Nat)
    (hm : src.mode = .hll) (h : HInv p src S) (hk : src.lgK ≤ p.keyBits) :
    GH p (copyOrDownsampleF p src tgt) S ∧ (copyOrDownsampleF p src tgt).lgK = min src.lgK tgt := by
  by_cases hle : src.lgK ≤ tgt
  · rw [copyOrDownsampleF_le hfl src hle, Nat.min_eq_left hle]
    exact copyAs_h8_GH hm h hk
  · have := downsampleF_GH hfl (src := src) (S := S) (tgt := tgt) (by omega) h.size h.regs
    rw [Nat.min_eq_right (by omega)]; exact this

/-- a gadget that holds a genuine coupon does not report empty -/
theorem GH.not_empty {p : Params} {g : St ν} {M : Nat → Prop} (h : GH p g M) {c : Nat} (hc : M c) (hv : 0 < cValue p c) :
    isEmpty g = false := by
  cases he : isEmpty g with
  | false => rfl
  | true =>
    have hsl := cSlot_lt p g.lgK c
    have := (h.regs _ hsl).1 c hc rfl
    rw [h.empty_sound he _ hsl] at this
    omega

/-- merging an HLL-mode source of at least the gadget's precision into an HLL-mode gadget (`mergeHll` + ooo / hip) -/
theorem GH.mergeHll {p : Params} {g src : St ν} {M S : Nat → Prop} (h : GH p g M) (hle : g.lgK ≤ src.lgK)
    (hsz : src.regs.size = 2^src.lgK) (hregs : ∀ i, i < 2^src.lgK → IsMaxAt p src.lgK S i (src.regs.getD i 0))
    (hne : isEmpty g = false) :
    GH p ({ DS.Hll.mergeHll g src with ooo := true, hip := HNum.ofNat 0 } : St ν) (fun c => M c ∨ S c) := by
  have hmc := mergeRegs_content p hle h.size hsz h.regs hregs
  have hs := (mergeRegs_spec g.regs g.lgK src.regs h.size).1
  refine ⟨h.mode, h.tt8, hs, hmc, h.num_le, ?_⟩
  intro he
  have e1 : isEmpty ({ DS.Hll.mergeHll g src with ooo := true, hip := HNum.ofNat 0 } : St ν) = isEmpty g := by
    unfold isEmpty DS.Hll.mergeHll; rfl
  rw [e1, hne] at he
  exact absurd he (by simp)

/-! ### B. the gadget invariant with a possibly reduced lg_k `L` -/

/-- `cs` = every coupon offered since the last reset, `L` = min(lg_max_k, lg_k of the non-empty HLL-mode inputs since then) -/
structure GInvR (p : Params) (lgMaxK : Nat) (g : St ν) (cs : List Nat) (L : Nat) : Prop where
  lgk : g.lgK = L
  le : L ≤ lgMaxK
  tt8 : g.tt = .h8
  pos : ∀ c, c ∈ cs → c ≠ 0 → 0 < cValue p c
  nonhll : g.mode ≠ .hll → L = lgMaxK ∧ ∃ cs', RInv p lgMaxK g cs' ∧ ∀ c, c ≠ 0 → (c ∈ cs' ↔ c ∈ cs)
  hll : g.mode = .hll → GH p g (fun c => c ∈ cs ∧ c ≠ 0) ∧ ∃ c, c ∈ cs ∧ c ≠ 0

theorem GInvR.new (p : Params) (lgMaxK : Nat) : GInvR p lgMaxK (newSketch p lgMaxK .h8 false : St ν) [] lgMaxK := by
  refine ⟨rfl, Nat.le_refl _, rfl, by simp, fun _ => ⟨rfl, [], RInv.init p lgMaxK .h8, by simp⟩, fun hm => ?_⟩
  simp [newSketch, newList] at hm

/-- an HLL-mode gadget never reports empty; a LIST / SET gadget that does holds nothing -/
theorem GInvR.hll_not_empty {p : Params} {lgMaxK L : Nat} {g : St ν} {cs : List Nat} (h : GInvR p lgMaxK g cs L)
    (hm : g.mode = .hll) : isEmpty g = false := by
  obtain ⟨gh, c, hc, h0⟩ := h.hll hm
  exact gh.not_empty ⟨hc, h0⟩ (h.pos c hc h0)

theorem GInvR.empty_content {p : Params} {lgMaxK L : Nat} {g : St ν} {cs : List Nat} (h : GInvR p lgMaxK g cs L)
    (he : isEmpty g = true) : g.mode ≠ .hll ∧ ∀ c, c ∈ cs → c = 0 := by
  have hm : g.mode ≠ .hll := by
    intro hm; rw [h.hll_not_empty hm] at he; exact absurd he (by simp)
  refine ⟨hm, fun c hc => ?_⟩
  apply Classical.byContradiction
  intro h0
  obtain ⟨_, cs', hr, hmem⟩ := h.nonhll hm
  exact h0 ((hr.isEmpty_iff hm).1 he c ((hmem c h0).2 hc))

theorem GInvR.of_RInv {p : Params} {lgMaxK : Nat} {g : St ν} {cs0 cs : List Nat} (hr : RInv p lgMaxK g cs0) (h8 : g.tt = .h8)
    (hmem : ∀ c, c ≠ 0 → (c ∈ cs0 ↔ c ∈ cs)) (hpos : ∀ c, c ∈ cs → c ≠ 0 → 0 < cValue p c)
    (hne : g.mode = .hll → ∃ c, c ∈ cs ∧ c ≠ 0) : GInvR p lgMaxK g cs lgMaxK := by
  refine ⟨hr.lgK_eq, Nat.le_refl _, h8, hpos, fun _ => ⟨rfl, cs0, hr, hmem⟩, fun hm => ⟨?_, hne hm⟩⟩
  refine ((hr.hll hm).toGH hm h8).congr ?_
  intro c
  constructor
  · rintro ⟨h1, h2⟩; exact ⟨(hmem c h2).1 h1, h2⟩
  · rintro ⟨h1, h2⟩; exact ⟨(hmem c h2).2 h1, h2⟩

theorem GInvR.congr {p : Params} {lgMaxK L : Nat} {g : St ν} {cs cs' : List Nat} (h : GInvR p lgMaxK g cs L)
    (hmem : ∀ c, c ≠ 0 → (c ∈ cs ↔ c ∈ cs')) (hpos : ∀ c, c ∈ cs' → c ≠ 0 → 0 < cValue p c) : GInvR p lgMaxK g cs' L := by
  refine ⟨h.lgk, h.le, h.tt8, hpos, fun hm => ?_, fun hm => ?_⟩
  · obtain ⟨hl, cs0, hr, hm0⟩ := h.nonhll hm
    exact ⟨hl, cs0, hr, fun c hc => (hm0 c hc).trans (hmem c hc)⟩
  · obtain ⟨gh, c, hc, h0⟩ := h.hll hm
    refine ⟨gh.congr ?_, c, (hmem c h0).1 hc, h0⟩
    intro x
    constructor
    · rintro ⟨h1, h2⟩; exact ⟨(hmem x h2).1 h1, h2⟩
    · rintro ⟨h1, h2⟩; exact ⟨(hmem x h2).2 h1, h2⟩

/-- a raw item's coupon -/
theorem GInvR.coupon {p : Params} (hp : p.listFitsSet) {lgMaxK L : Nat} {g : St ν} {cs : List Nat} (h : GInvR p lgMaxK g cs L)
    (c : Nat) (hc : c ≠ 0 → 0 < cValue p c) : GInvR p lgMaxK (couponUpdate p g c) (cs ++ [c]) L := by
  have hpos : ∀ x, x ∈ cs ++ [c] → x ≠ 0 → 0 < cValue p x := by
    intro x hx h0
    rcases List.mem_append.1 hx with hx | hx
    · exact h.pos x hx h0
    · simp only [List.mem_singleton] at hx; subst hx; exact hc h0
  by_cases hc0 : c = 0
  · have e : couponUpdate p g c = g := by unfold couponUpdate; rw [if_pos hc0]
    rw [e]
    refine h.congr ?_ hpos
    intro x hx
    simp only [List.mem_append, List.mem_singleton]
    constructor
    · intro h1; exact Or.inl h1
    · rintro (h1 | h1)
      · exact h1
      · subst h1; exact absurd hc0 hx
  · by_cases hm : g.mode = .hll
    · obtain ⟨gh, w, hw, hw0⟩ := h.hll hm
      have e : couponUpdate p g c = hllUpdate p g c := by unfold couponUpdate; rw [if_neg hc0, hm]
      rw [e]
      have st := gh.hllUpdate c
      refine ⟨st.2.1.trans h.lgk, h.le, st.1.tt8, hpos, fun hm' => absurd st.1.mode hm',
        fun _ => ⟨st.1.congr ?_, w, List.mem_append_left _ hw, hw0⟩⟩
      intro x
      simp only [List.mem_append, List.mem_singleton]
      constructor
      · rintro (⟨h1, h2⟩ | h1)
        · exact ⟨Or.inl h1, h2⟩
        · subst h1; exact ⟨Or.inr rfl, hc0⟩
      · rintro ⟨h1 | h1, h2⟩
        · exact Or.inl ⟨h1, h2⟩
        · exact Or.inr h1
    · obtain ⟨hl, cs0, hr, hmem⟩ := h.nonhll hm
      have st := hr.step hp c
      have r := GInvR.of_RInv st ((couponUpdate_tt p g c).trans h.tt8) (cs := cs ++ [c]) (by
        intro x hx
        simp only [List.mem_append, List.mem_singleton]
        rw [hmem x hx]) hpos (fun _ => ⟨c, by simp, hc0⟩)
      rw [hl]; exact r

theorem GInvR.run {p : Params} (hp : p.listFitsSet) {lgMaxK L : Nat} : ∀ (l : List Nat) {g : St ν} {cs : List Nat},
    GInvR p lgMaxK g cs L → (∀ c, c ∈ l → c ≠ 0 → 0 < cValue p c) → GInvR p lgMaxK (DS.Hll.run p g l) (cs ++ l) L
  | [], g, cs, h, _ => by simpa [DS.Hll.run] using h
  | a :: l, g, cs, h, hl => by
    have st := h.coupon hp a (hl a List.mem_cons_self)
    have ih := GInvR.run hp l st (fun c hc => hl c (List.mem_cons_of_mem _ hc))
    simpa [DS.Hll.run, List.append_assoc] using ih

/-! ### C. update with a sketch -/

/-- lg_k after a non-empty sketch input -/
def lgkAfter (L : Nat) (src : St ν) : Nat := if src.mode = .hll then min L src.lgK else L

theorem GInvR.unionImplF {p : Params} (hp : p.listFitsSet) (hfl : p.unionDownsampleRebuilds = true) {lgMaxK L : Nat}
    (hkb : lgMaxK ≤ p.keyBits) {u : Un ν} {cs : List Nat} (hu : u.lgMaxK = lgMaxK) (h : GInvR p lgMaxK u.gadget cs L)
    (src : St ν) (scs : List Nat)
    (hsl : src.mode ≠ .hll → RInv p src.lgK src scs)
    (hsh : src.mode = .hll → HInv p src (fun c => c ∈ scs ∧ c ≠ 0))
    (hsk : src.lgK ≤ p.keyBits)
    (hpos : ∀ c, c ∈ scs → c ≠ 0 → 0 < cValue p c)
    (hne : ∃ c, c ∈ scs ∧ c ≠ 0) :
    GInvR p lgMaxK (DS.Hll.unionImplF p u src).gadget (cs ++ scs) (lgkAfter L src) ∧ (DS.Hll.unionImplF p u src).lgMaxK = lgMaxK := by
  have hposall : ∀ c, c ∈ cs ++ scs → c ≠ 0 → 0 < cValue p c := by
    intro c hc h0
    rcases List.mem_append.1 hc with hc | hc
    · exact h.pos c hc h0
    · exact hpos c hc h0
  obtain ⟨w, hw, hw0⟩ := hne
  have hwall : ∃ c, c ∈ cs ++ scs ∧ c ≠ 0 := ⟨w, List.mem_append_right _ hw, hw0⟩
  unfold DS.Hll.unionImplF lgkAfter
  simp only
  by_cases hm : src.mode ≠ .hll
  · rw [if_pos hm, if_neg (fun e => hm e)]
    have hr := hsl hm
    by_cases hcnd : isEmpty u.gadget = true ∧ src.lgK = u.gadget.lgK
    · rw [if_pos hcnd]
      refine ⟨?_, hu⟩
      simp only
      rw [copyAs_nonhll p src .h8 hm]
      obtain ⟨hgm, hz⟩ := h.empty_content hcnd.1
      obtain ⟨hl, _⟩ := h.nonhll hgm
      have hk : src.lgK = lgMaxK := by rw [hcnd.2, h.lgk, hl]
      have hr' : RInv p lgMaxK ({ src with tt := .h8 } : St ν) scs := by
        have h1 := hr.with_tt hm .h8
        exact ⟨hk, h1.sf, by rw [← hk]; exact h1.ph, h1.items_perm, h1.hll⟩
      rw [hl]
      refine GInvR.of_RInv hr' rfl ?_ hposall (fun _ => hwall)
      intro c hc
      simp only [List.mem_append]
      constructor
      · intro h1; exact Or.inr h1
      · rintro (h1 | h1)
        · exact absurd (hz c h1) hc
        · exact h1
    · rw [if_neg hcnd]
      refine ⟨?_, hu⟩
      simp only
      have hrun : src.items.foldl (couponUpdate p) u.gadget = DS.Hll.run p u.gadget src.items := rfl
      rw [hrun]
      have hi := GInvR.run hp src.items h (by
        intro c hc h0
        exact hpos c ((hr.mem_items hm c).1 hc).1 h0)
      refine hi.congr ?_ hposall
      intro c hc
      simp only [List.mem_append]
      rw [hr.mem_items hm c]
      constructor
      · rintro (h1 | h1)
        · exact Or.inl h1
        · exact Or.inr h1.1
      · rintro (h1 | h1)
        · exact Or.inl h1
        · exact Or.inr ⟨h1, hc⟩
  · rw [if_neg hm]
    have hm' : src.mode = .hll := by
      cases hx : src.mode with
      | hll => rfl
      | list => exact absurd (by rw [hx]; simp) hm
      | set => exact absurd (by rw [hx]; simp) hm
    rw [if_pos hm']
    have hH := hsh hm'
    have hmemS : ∀ c, ((c ∈ cs ∧ c ≠ 0) ∨ (c ∈ scs ∧ c ≠ 0)) ↔ (c ∈ cs ++ scs ∧ c ≠ 0) := by
      intro c
      simp only [List.mem_append]
      constructor
      · rintro (⟨h1, h2⟩ | ⟨h1, h2⟩)
        · exact ⟨Or.inl h1, h2⟩
        · exact ⟨Or.inr h1, h2⟩
      · rintro ⟨h1 | h1, h2⟩
        · exact Or.inl ⟨h1, h2⟩
        · exact Or.inr ⟨h1, h2⟩
    by_cases he : isEmpty u.gadget = true
    · -- the empty (LIST) gadget is replaced by a copy / down-sampled copy of the input
      have : (!isEmpty u.gadget) = false := by rw [he]; rfl
      rw [this]
      simp only [Bool.false_eq_true, if_false]
      refine ⟨?_, hu⟩
      obtain ⟨hgm, hz⟩ := h.empty_content he
      obtain ⟨hl, _⟩ := h.nonhll hgm
      have hcg := copyOrDownsampleF_GH hfl (S := fun c => c ∈ scs ∧ c ≠ 0) u.lgMaxK hm' hH hsk
      rw [hu] at hcg
      rw [hu, hl]
      refine ⟨by rw [hcg.2, Nat.min_comm], Nat.min_le_left _ _, hcg.1.tt8, hposall, fun hmm => absurd hcg.1.mode hmm,
        fun _ => ⟨hcg.1.congr ?_, hwall⟩⟩
      intro c
      simp only [List.mem_append]
      constructor
      · rintro ⟨h1, h2⟩; exact ⟨Or.inr h1, h2⟩
      · rintro ⟨h1 | h1, h2⟩
        · exact absurd (hz c h1) h2
        · exact ⟨h1, h2⟩
    · have hnee : isEmpty u.gadget = false := by
        cases hx : isEmpty u.gadget with
        | true => exact absurd hx he
        | false => rfl
      rw [hnee]
      simp only [Bool.not_false, if_true]
      by_cases hgm : u.gadget.mode ≠ .hll
      · -- LIST / SET gadget: copy or down-sample the input to lg_max_k, then merge the gadget's coupons into it
        rw [if_pos hgm]
        refine ⟨?_, hu⟩
        simp only
        obtain ⟨hl, cs0, hr0, hmem0⟩ := h.nonhll hgm
        have hcg := copyOrDownsampleF_GH hfl (S := fun c => c ∈ scs ∧ c ≠ 0) u.lgMaxK hm' hH hsk
        rw [hu] at hcg
        rw [hu, hl]
        have hf := GH.foldl u.gadget.items hcg.1
        unfold mergeList
        refine ⟨by rw [hf.2.1, hcg.2, Nat.min_comm], Nat.min_le_left _ _, hf.1.tt8, hposall, fun hmm => absurd hf.1.mode hmm,
          fun _ => ⟨hf.1.congr ?_, hwall⟩⟩
        intro c
        simp only [List.mem_append]
        rw [hr0.mem_items hgm c]
        constructor
        · rintro (⟨h1, h2⟩ | ⟨h1, h2⟩)
          · exact ⟨Or.inr h1, h2⟩
          · exact ⟨Or.inl ((hmem0 c h2).1 h1), h2⟩
        · rintro ⟨h1 | h1, h2⟩
          · exact Or.inr ⟨(hmem0 c h2).2 h1, h2⟩
          · exact Or.inl ⟨h1, h2⟩
      · -- HLL gadget: down-sample the gadget first if the input is coarser, then register-wise maximum (folded)
        rw [if_neg hgm]
        have hgm' : u.gadget.mode = .hll := by
          cases hx : u.gadget.mode with
          | hll => rfl
          | list => exact absurd (by rw [hx]; simp) hgm
          | set => exact absurd (by rw [hx]; simp) hgm
        obtain ⟨gh, v, hv, hv0⟩ := h.hll hgm'
        refine ⟨?_, hu⟩
        simp only
        by_cases hlt : src.lgK < u.gadget.lgK
        · rw [if_pos hlt]
          have hd := downsampleF_GH hfl (src := u.gadget) (S := fun c => c ∈ cs ∧ c ≠ 0) (tgt := src.lgK) hlt gh.size gh.regs
          have hdne := hd.1.not_empty (c := v) ⟨hv, hv0⟩ (h.pos v hv hv0)
          have hmg := hd.1.mergeHll (src := src) (S := fun c => c ∈ scs ∧ c ≠ 0) (by rw [hd.2]; exact Nat.le_refl _) hH.size hH.regs hdne
          have hLs : min L src.lgK = src.lgK := by rw [← h.lgk]; exact Nat.min_eq_right (Nat.le_of_lt hlt)
          refine ⟨by rw [hLs]; exact hd.2, by rw [hLs]; exact Nat.le_trans (Nat.le_of_lt (by rw [← h.lgk]; exact hlt)) h.le,
            hmg.tt8, hposall, fun hmm => absurd hmg.mode hmm, fun _ => ⟨hmg.congr hmemS, hwall⟩⟩
        · rw [if_neg hlt]
          have hmg := gh.mergeHll (src := src) (S := fun c => c ∈ scs ∧ c ≠ 0) (by omega) hH.size hH.regs hnee
          have hLs : min L src.lgK = L := by rw [← h.lgk]; exact Nat.min_eq_left (by omega)
          refine ⟨by rw [hLs]; exact h.lgk, by rw [hLs]; exact h.le, hmg.tt8, hposall, fun hmm => absurd hmg.mode hmm,
            fun _ => ⟨hmg.congr hmemS, hwall⟩⟩

/-- lg_k bookkeeping of an update: only a non-empty HLL-mode input can reduce it -/
def lgkUpd (L : Nat) (src : St ν) : Nat := if src.mode = .hll ∧ isEmpty src = false then min L src.lgK else L

theorem GInvR.unionUpdateF {p : Params} (hp : p.listFitsSet) (hfl : p.unionDownsampleRebuilds = true) {lgMaxK L : Nat}
    (hkb : lgMaxK ≤ p.keyBits) {u : Un ν} {cs : List Nat} (hu : u.lgMaxK = lgMaxK) (h : GInvR p lgMaxK u.gadget cs L)
    (src : St ν) (scs : List Nat)
    (hsl : src.mode ≠ .hll → RInv p src.lgK src scs)
    (hsh : src.mode = .hll → HInv p src (fun c => c ∈ scs ∧ c ≠ 0))
    (hsk : src.lgK ≤ p.keyBits)
    (hpos : ∀ c, c ∈ scs → c ≠ 0 → 0 < cValue p c)
    (hemp : isEmpty src = true ↔ ∀ c, c ∈ scs → c = 0) :
    GInvR p lgMaxK (DS.Hll.unionUpdateF p u src).gadget (cs ++ scs) (lgkUpd L src) ∧ (DS.Hll.unionUpdateF p u src).lgMaxK = lgMaxK := by
  unfold DS.Hll.unionUpdateF lgkUpd
  by_cases he : isEmpty src = true
  · rw [if_pos he, if_neg (by rw [he]; simp)]
    refine ⟨h.congr ?_ ?_, hu⟩
    · intro c hc
      simp only [List.mem_append]
      constructor
      · intro h1; exact Or.inl h1
      · rintro (h1 | h1)
        · exact h1
        · exact absurd (hemp.1 he c h1) hc
    · intro c hc h0
      rcases List.mem_append.1 hc with hc | hc
      · exact h.pos c hc h0
      · exact hpos c hc h0
  · rw [if_neg he]
    have hef : isEmpty src = false := by
      cases hx : isEmpty src with
      | true => exact absurd hx he
      | false => rfl
    have hne : ∃ c, c ∈ scs ∧ c ≠ 0 := by
      apply Classical.byContradiction
      intro hn
      apply he
      rw [hemp]
      intro c hc
      apply Classical.byContradiction
      intro h0; exact hn ⟨c, hc, h0⟩
    have r := h.unionImplF hp hfl hkb hu src scs hsl hsh hsk hpos hne
    have e : (if src.mode = .hll ∧ isEmpty src = false then min L src.lgK else L) = lgkAfter L src := by
      unfold lgkAfter
      by_cases hm : src.mode = .hll
      · rw [if_pos ⟨hm, hef⟩, if_pos hm]
      · rw [if_neg (fun x => hm x.1), if_neg hm]
    rw [e]; exact r

theorem GInvR.unionUpdateRvF {p : Params} (hp : p.listFitsSet) (hfl : p.unionDownsampleRebuilds = true) {lgMaxK L : Nat}
    (hkb : lgMaxK ≤ p.keyBits) {u : Un ν} {cs : List Nat} (hu : u.lgMaxK = lgMaxK) (h : GInvR p lgMaxK u.gadget cs L)
    (src : St ν) (scs : List Nat)
    (hsl : src.mode ≠ .hll → RInv p src.lgK src scs)
    (hsh : src.mode = .hll → HInv p src (fun c => c ∈ scs ∧ c ≠ 0))
    (hsk : src.lgK ≤ p.keyBits)
    (hpos : ∀ c, c ∈ scs → c ≠ 0 → 0 < cValue p c)
    (hemp : isEmpty src = true ↔ ∀ c, c ∈ scs → c = 0) :
    GInvR p lgMaxK (DS.Hll.unionUpdateRvF p u src).gadget (cs ++ scs) (lgkUpd L src) ∧ (DS.Hll.unionUpdateRvF p u src).lgMaxK = lgMaxK := by
  have hlv := h.unionUpdateF hp hfl hkb hu src scs hsl hsh hsk hpos hemp
  unfold DS.Hll.unionUpdateRvF
  unfold DS.Hll.unionUpdateF at hlv
  by_cases he : isEmpty src = true
  · rw [if_pos he] at hlv ⊢; exact hlv
  · rw [if_neg he] at hlv ⊢
    by_cases had : isEmpty u.gadget = true ∧ src.tt = .h8 ∧ src.lgK ≤ u.lgMaxK ∧ (src.mode = .hll ∨ src.lgK = u.lgMaxK)
    · rw [if_pos had]
      obtain ⟨hge, h8, hle, hdis⟩ := had
      obtain ⟨hgm, hz⟩ := h.empty_content hge
      obtain ⟨hl, cs0, hr0, hmem0⟩ := h.nonhll hgm
      have hef : isEmpty src = false := by
        cases hx : isEmpty src with
        | true => exact absurd hx he
        | false => rfl
      -- the adopted sketch becomes the gadget; merging the old (empty LIST / SET) gadget back changes nothing
      have hitems : u.gadget.items = [] := by
        have := (hr0.isEmpty_iff hgm).1 hge
        rw [List.eq_nil_iff_forall_not_mem]
        intro c hc
        have hc' := (hr0.mem_items hgm c).1 hc
        exact hc'.2 (this c hc'.1)
      have hres : DS.Hll.unionImplF p { u with gadget := src } u.gadget = { u with gadget := src } := by
        unfold DS.Hll.unionImplF
        simp only
        rw [if_pos hgm, if_neg (by rw [hef]; simp), hitems]
        rfl
      rw [hres]
      refine ⟨?_, hu⟩
      simp only
      have hwne : ∃ c, c ∈ cs ++ scs ∧ c ≠ 0 := by
        apply Classical.byContradiction
        intro hn
        apply he
        rw [hemp]
        intro c hc
        apply Classical.byContradiction
        intro h0; exact hn ⟨c, List.mem_append_right _ hc, h0⟩
      have hposall : ∀ c, c ∈ cs ++ scs → c ≠ 0 → 0 < cValue p c := by
        intro c hc h0
        rcases List.mem_append.1 hc with hc | hc
        · exact h.pos c hc h0
        · exact hpos c hc h0
      have hmemS : ∀ c, c ≠ 0 → (c ∈ scs ↔ c ∈ cs ++ scs) := by
        intro c hc
        simp only [List.mem_append]
        constructor
        · intro h1; exact Or.inr h1
        · rintro (h1 | h1)
          · exact absurd (hz c h1) hc
          · exact h1
      unfold lgkUpd
      by_cases hm : src.mode = .hll
      · rw [if_pos ⟨hm, hef⟩, hl]
        have gh := (hsh hm).toGH hm h8
        rw [hu] at hle
        refine ⟨by rw [Nat.min_eq_right hle], Nat.min_le_left _ _, h8, hposall, fun hmm => absurd hm hmm,
          fun _ => ⟨gh.congr ?_, hwne⟩⟩
        intro c
        constructor
        · rintro ⟨h1, h2⟩; exact ⟨(hmemS c h2).1 h1, h2⟩
        · rintro ⟨h1, h2⟩; exact ⟨(hmemS c h2).2 h1, h2⟩
      · rw [if_neg (fun x => hm x.1), hl]
        have hk : src.lgK = lgMaxK := by
          rcases hdis with hd | hd
          · exact absurd hd hm
          · exact hd.trans hu
        have hr := hsl hm
        rw [hk] at hr
        exact GInvR.of_RInv hr h8 hmemS hposall (fun hmm => absurd hmm hm)
    · rw [if_neg had]; exact hlv

theorem GInvR.touch {p : Params} {lgMaxK L : Nat} {g : St ν} {cs : List Nat} (h : GInvR p lgMaxK g cs L) :
    GInvR p lgMaxK (checkRebuild g) cs L := by
  by_cases hm : g.mode = .hll
  · obtain ⟨gh, hw⟩ := h.hll hm
    have st := checkRebuild_GH gh
    exact ⟨st.2.1.trans h.lgk, h.le, st.1.tt8, h.pos, fun hmm => absurd st.1.mode hmm, fun _ => ⟨st.1, hw⟩⟩
  · have : checkRebuild g = g := by
      unfold checkRebuild; rw [if_neg (fun hc => hm hc.1)]
    rw [this]; exact h

/-! ### D. whole histories on the repaired shape -/

/-- genuine inputs: lg_k within the coupon key width, every nonzero coupon has a positive value (as `HllUtil::coupon` gives) -/
def WFops (p : Params) (ops : List UOp) : Prop :=
  ∀ op, op ∈ ops → match op with
    | .merge d _ => d.lgK ≤ p.keyBits ∧ ∀ c, c ∈ d.cs → c ≠ 0 → 0 < cValue p c
    | .coupon c => c ≠ 0 → 0 < cValue p c
    | _ => True

/-- min(lg_max_k, lg_k of every non-empty HLL-mode input since the last reset), for the numeric instance ν -/
def lgkStepG (ν : Type) [HNum ν] (p : Params) (lgMaxK : Nat) (acc : Nat) : UOp → Nat
  | .merge d _ => lgkUpd acc (d.build p : St ν)
  | .reset => lgMaxK
  | _ => acc

def expectedLgKG (ν : Type) [HNum ν] (p : Params) (lgMaxK : Nat) (ops : List UOp) : Nat :=
  ops.foldl (lgkStepG ν p lgMaxK) lgMaxK

theorem uStepF_lgMaxK (p : Params) (u : Un ν) (op : UOp) : (uStepF p u op).lgMaxK = u.lgMaxK := by
  cases op with
  | coupon c => rfl
  | touch => rfl
  | reset =>
    show (unionResetF p u).lgMaxK = _
    unfold unionResetF; split <;> rfl
  | merge d rv =>
    have hI : ∀ (u : Un ν) (s : St ν), (unionImplF p u s).lgMaxK = u.lgMaxK := by
      intro u s; unfold unionImplF; simp only
      split
      · split <;> rfl
      · split
        · split <;> rfl
        · rfl
    cases rv with
    | false =>
      show (unionUpdateF p u (d.build p)).lgMaxK = _
      unfold unionUpdateF; split
      · rfl
      · exact hI _ _
    | true =>
      show (unionUpdateRvF p u (d.build p)).lgMaxK = _
      unfold unionUpdateRvF; split
      · rfl
      · split
        · exact hI _ _
        · exact hI _ _

theorem uRunF_lgMaxK (p : Params) : ∀ (ops : List UOp) (u : Un ν), (uRunF p u ops).lgMaxK = u.lgMaxK
  | [], _ => rfl
  | op :: ops, u => by
    have := uRunF_lgMaxK p ops (uStepF p u op)
    simp only [uRunF, List.foldl_cons] at this ⊢
    rw [this, uStepF_lgMaxK]

theorem union_inv_repaired_aux (p : Params) (hp : p.listFitsSet) (hf1 : p.unionDownsampleRebuilds = true)
    (hf2 : p.unionResetToMaxK = true) (lgMaxK : Nat) (hkb : lgMaxK ≤ p.keyBits) :
    ∀ (ops : List UOp) (u : Un ν) (cs : List Nat) (L : Nat), u.lgMaxK = lgMaxK → GInvR p lgMaxK u.gadget cs L → WFops p ops →
      GInvR p lgMaxK (uRunF p u ops).gadget (ops.foldl offeredStep cs) (ops.foldl (lgkStepG ν p lgMaxK) L)
  | [], _, _, _, _, hg, _ => hg
  | op :: ops, u, cs, L, hu, hg, hok => by
    have hop := hok op List.mem_cons_self
    have hrest : WFops p ops := fun o ho => hok o (List.mem_cons_of_mem _ ho)
    have step : GInvR p lgMaxK (uStepF p u op).gadget (offeredStep cs op) (lgkStepG ν p lgMaxK L op) := by
      cases op with
      | coupon c => exact hg.coupon hp c hop
      | touch => exact hg.touch
      | reset =>
        show GInvR p lgMaxK (unionResetF p u).gadget [] lgMaxK
        unfold unionResetF
        rw [if_pos hf2, hu]
        exact GInvR.new p lgMaxK
      | merge d rv =>
        obtain ⟨hdk, hdv⟩ := hop
        have hemp := isEmpty_run_iff (ν := ν) p hp d.lgK d.tt d.sf d.cs hdv
        show GInvR p lgMaxK (uStepF p u (.merge d rv)).gadget (cs ++ d.cs) (lgkUpd L (d.build p : St ν))
        cases hsf : d.sf with
        | false =>
          have hR := RInv.run hp d.cs (RInv.init (ν := ν) p d.lgK d.tt)
          simp only [List.nil_append] at hR
          have hb : (d.build p : St ν) = run p (newSketch p d.lgK d.tt d.sf) d.cs := rfl
          rw [hsf] at hb
          have hb' : (d.build p : St ν) = run p (newList p d.lgK d.tt) d.cs := hb
          rw [hsf] at hemp
          change (isEmpty (run p (newList p d.lgK d.tt) d.cs : St ν) = true ↔ _) at hemp
          cases rv with
          | false =>
            rw [show uStepF p u (.merge d false) = unionUpdateF p u (d.build p) from rfl, hb']
            exact (hg.unionUpdateF hp hf1 hkb hu _ d.cs (fun _ => by rw [hR.lgK_eq]; exact hR) (fun hm => hR.hll hm)
              (by rw [hR.lgK_eq]; exact hdk) hdv hemp).1
          | true =>
            rw [show uStepF p u (.merge d true) = unionUpdateRvF p u (d.build p) from rfl, hb']
            exact (hg.unionUpdateRvF hp hf1 hkb hu _ d.cs (fun _ => by rw [hR.lgK_eq]; exact hR) (fun hm => hR.hll hm)
              (by rw [hR.lgK_eq]; exact hdk) hdv hemp).1
        | true =>
          have hS := run_startFull p d.cs (s := (newHll d.lgK d.tt true : St ν)) (cs := []) rfl
            (by have := HInv.newHll (ν := ν) p d.lgK d.tt true
                exact ⟨this.size, fun slot hs => IsMaxAt.congr (by simp) (this.regs slot hs), this.cm_le, this.cnt4, this.cnt68⟩)
          simp only [List.nil_append] at hS
          have hb : (d.build p : St ν) = run p (newSketch p d.lgK d.tt d.sf) d.cs := rfl
          rw [hsf] at hb
          have hb' : (d.build p : St ν) = run p (newHll d.lgK d.tt true) d.cs := hb
          rw [hsf] at hemp
          change (isEmpty (run p (newHll d.lgK d.tt true) d.cs : St ν) = true ↔ _) at hemp
          cases rv with
          | false =>
            rw [show uStepF p u (.merge d false) = unionUpdateF p u (d.build p) from rfl, hb']
            exact (hg.unionUpdateF hp hf1 hkb hu _ d.cs (fun hm => absurd hS.1 hm) (fun _ => hS.2.2.2)
              (by rw [hS.2.1]; exact hdk) hdv hemp).1
          | true =>
            rw [show uStepF p u (.merge d true) = unionUpdateRvF p u (d.build p) from rfl, hb']
            exact (hg.unionUpdateRvF hp hf1 hkb hu _ d.cs (fun hm => absurd hS.1 hm) (fun _ => hS.2.2.2)
              (by rw [hS.2.1]; exact hdk) hdv hemp).1
    have ih := union_inv_repaired_aux p hp hf1 hf2 lgMaxK hkb ops (uStepF p u op) (offeredStep cs op) (lgkStepG ν p lgMaxK L op)
      ((uStepF_lgMaxK p u op).trans hu) step hrest
    simpa [uRunF] using ih

/-- lg_k of a built input -/
theorem build_lgK (p : Params) (hp : p.listFitsSet) (d : SkDesc) : (d.build p : St ν).lgK = d.lgK := by
  cases hsf : d.sf with
  | false =>
    have hR := RInv.run hp d.cs (RInv.init (ν := ν) p d.lgK d.tt)
    have hb : (d.build p : St ν) = run p (newSketch p d.lgK d.tt d.sf) d.cs := rfl
    rw [hsf] at hb
    rw [hb]; exact hR.lgK_eq
  | true =>
    have hS := run_startFull p d.cs (s := (newHll d.lgK d.tt true : St ν)) (cs := []) rfl
      (by have := HInv.newHll (ν := ν) p d.lgK d.tt true
          exact ⟨this.size, fun slot hs => IsMaxAt.congr (by simp) (this.regs slot hs), this.cm_le, this.cnt4, this.cnt68⟩)
    have hb : (d.build p : St ν) = run p (newSketch p d.lgK d.tt d.sf) d.cs := rfl
    rw [hsf] at hb
    rw [hb]; exact hS.2.1

/-- the lg_k contribution of one operation (a non-empty HLL-mode input) -/
def lgkContrib (ν : Type) [HNum ν] (p : Params) : UOp → Option Nat
  | .merge d _ => if (d.build p : St ν).mode = .hll ∧ isEmpty (d.build p : St ν) = false then some (d.build p : St ν).lgK else none
  | _ => none

theorem foldl_lgk_le_iff (p : Params) (lgMaxK : Nat) : ∀ (ops : List UOp) (L y : Nat), (∀ o, o ∈ ops → o ≠ .reset) →
    (ops.foldl (lgkStepG ν p lgMaxK) L ≤ y ↔ (L ≤ y ∨ ∃ o k, o ∈ ops ∧ lgkContrib ν p o = some k ∧ k ≤ y))
  | [], L, y, _ => by simp
  | o :: ops, L, y, hnr => by
    simp only [List.foldl_cons]
    rw [foldl_lgk_le_iff p lgMaxK ops _ y (fun x hx => hnr x (List.mem_cons_of_mem _ hx))]
    have ho := hnr o List.mem_cons_self
    have e : lgkStepG ν p lgMaxK L o ≤ y ↔ (L ≤ y ∨ ∃ k, lgkContrib ν p o = some k ∧ k ≤ y) := by
      cases o with
      | merge d rv =>
        simp only [lgkStepG, lgkUpd, lgkContrib]
        by_cases hc : (d.build p : St ν).mode = .hll ∧ isEmpty (d.build p : St ν) = false
        · rw [if_pos hc, if_pos hc]
          simp only [Option.some.injEq, exists_eq_left']
          omega
        · rw [if_neg hc, if_neg hc]; simp
      | coupon c => simp [lgkStepG, lgkContrib]
      | touch => simp [lgkStepG, lgkContrib]
      | reset => exact absurd rfl ho
    rw [e]
    simp only [List.mem_cons]
    constructor
    · rintro ((h1 | ⟨k, h1, h2⟩) | ⟨x, k, hx, h1, h2⟩)
      · exact Or.inl h1
      · exact Or.inr ⟨o, k, Or.inl rfl, h1, h2⟩
      · exact Or.inr ⟨x, k, Or.inr hx, h1, h2⟩
    · rintro (h1 | ⟨x, k, rfl | hx, h1, h2⟩)
      · exact Or.inl (Or.inl h1)
      · exact Or.inl (Or.inr ⟨k, h1, h2⟩)
      · exact Or.inr ⟨x, k, hx, h1, h2⟩

end DS.Hll

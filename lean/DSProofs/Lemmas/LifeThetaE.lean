/- C19 helper lemmas, theta table part 5: `insert`, `update`, `trim`, `reset`. -/
import DSProofs.Lemmas.LifeThetaD
namespace DS.Life.Theta
open DS.Life

/-- the invariant only depends on the keys and on which slots are live -/
theorem TableAt.of_views {P : Params} {h h' : Heap} {b lg num : Nat} (ht : TableAt P h b lg num)
    (hc : HasCells h' b (2 ^ lg)) (hlt : b < h'.next)
    (hw : ∀ j, wordAt h' b j = wordAt h b j)
    (hs : ∀ j, j < 2 ^ lg → stAt h' b j = stAt h b j ∨ ((∃ v, stAt h b j = .live v) ∧ ∃ v', stAt h' b j = .live v')) :
    TableAt P h' b lg num := by
  refine ⟨⟨hc, hlt, ?_⟩, ?_, ?_⟩
  · intro i hi
    rcases hs i hi with e | ⟨⟨v, hv⟩, v', hv'⟩
    · exact (ht.slots.ok i hi).of_views (hw i) e
    · rcases ht.slots.ok i hi with ⟨_, hr⟩ | ⟨hnz, _⟩
      · rw [hv] at hr; cases hr
      · exact Or.inr ⟨by rw [hw i]; exact hnz, v', hv'⟩
  · intro p hp hne
    rw [hw p] at hne ⊢
    obtain ⟨j, ej, hj⟩ := ht.path p hp hne
    exact ⟨j, ej, fun j' hj' => by rw [hw]; exact hj j' hj'⟩
  · rw [ht.count]
    apply cnt_congr
    intro i _
    simp [nz, hw i]

/-- what every mutator of a table owning block `b` promises: the (possibly new) block `nb` satisfies the invariant
    and the block ids changed accordingly -/
def MutPost (P : Params) (n0 b : Nat) (ids : List Nat) (t' : Table) (h' : Heap) : Prop :=
  ∃ nb, t'.entries = some nb ∧ TableAt P h' nb t'.lgCur t'.num ∧
    ((nb = b ∧ h'.ids = ids) ∨ (n0 ≤ nb ∧ nb ≠ b ∧ h'.ids = (nb :: ids).filter (fun x => x != b)))

/-- `insert(it, entry)` into the empty slot returned by `find` -/
theorem insert_spec (P : Params) (hP : P.OK) (n0 : Nat) (S : Nat → Bool) (t : Table) (b : Nat) (hb : t.entries = some b)
    (hSb : S b = true) (hSn : ∀ x, n0 ≤ x → S x = true) (ids : List Nat) (idx key v : Nat) (hk : key ≠ 0)
    (hi : idx < 2 ^ t.lgCur) :
    TripleS n0 S (fun h => TableAt P h b t.lgCur t.num ∧ h.ids = ids ∧ wordAt h b idx = 0 ∧ PathTo P h b t.lgCur key idx)
      (insert P t idx key v) (fun t' h' => MutPost P n0 b ids t' h') := by
  obtain ⟨ent, lgCur, lgNom, rf, num, theta, theta0, isEmpty⟩ := t
  simp only at hb hi ⊢
  subst hb
  intro h hn ⟨ht, hid, h0, hpath⟩
  unfold insert
  simp only
  apply step_deref
  have hraw : stAt h b idx = .raw := by
    rcases ht.slots.ok idx hi with ⟨_, hr⟩ | ⟨hnz, _⟩
    · exact hr
    · exact absurd h0 hnz
  apply vstep_constructEntry key v ht.slots.cells hi hraw hSb
  intro h1 sb1 hw1 hs1
  have ht1 : TableAt P h1 b lgCur (num + 1) := TableAt.insert ht sb1 (fun j x => x.2) hi h0 hk hpath hw1 hs1
  have hid1 : h1.ids = ids := by rw [sb1.ids]; exact hid
  have hn1 : n0 ≤ h1.next := by rw [sb1.next]; exact hn
  by_cases hcap : num + 1 > capacity P lgCur lgNom
  · rw [if_pos hcap]
    by_cases hlg : lgCur ≤ lgNom
    · rw [if_pos hlg]
      have := resize_spec P n0 S ⟨some b, lgCur, lgNom, rf, num + 1, theta, theta0, isEmpty⟩ b rfl hSb hSn ids h1 hn1 ⟨ht1, hid1⟩
      refine SafeF.mono this ?_
      intro t' h' ⟨nb, hnb, hne, et, htab, hids⟩
      subst et
      exact ⟨nb, rfl, htab, Or.inr ⟨hnb, hne, hids⟩⟩
    · rw [if_neg hlg]
      have hnom : 2 ^ lgNom < num + 1 := by
        have := capacity_ge_nominal hP (lgCur := lgCur) (lgNom := lgNom) (by omega)
        omega
      have := rebuild_spec P n0 S ⟨some b, lgCur, lgNom, rf, num + 1, theta, theta0, isEmpty⟩ b rfl hSb hSn ids hnom h1 hn1 ⟨ht1, hid1⟩
      refine SafeF.mono this ?_
      intro t' h' ⟨nb, theta, hnb, hne, et, htab, hids⟩
      subst et
      exact ⟨nb, rfl, htab, Or.inr ⟨hnb, hne, hids⟩⟩
  · rw [if_neg hcap]
    apply SafeF.pure
    exact ⟨b, rfl, ht1, Or.inl ⟨rfl, hid1⟩⟩

/-- `update(key, value)` after hashing -/
theorem update_spec (P : Params) (hP : P.OK) (n0 : Nat) (S : Nat → Bool) (t : Table) (b : Nat) (hb : t.entries = some b)
    (hSb : S b = true) (hSn : ∀ x, n0 ≤ x → S x = true) (ids : List Nat) (hash v : Nat) (comb : Nat → Nat → Nat) :
    TripleS n0 S (fun h => TableAt P h b t.lgCur t.num ∧ h.ids = ids)
      (update P t hash v comb) (fun t' h' => MutPost P n0 b ids t' h') := by
  obtain ⟨ent, lgCur, lgNom, rf, num, theta, theta0, isEmpty⟩ := t
  simp only at hb ⊢
  subst hb
  intro h hn ⟨ht, hid⟩
  unfold update
  simp only
  by_cases hscreen : hash ≥ theta ∨ hash = 0
  · rw [if_pos hscreen]
    apply SafeF.pure
    exact ⟨b, rfl, ht, Or.inl ⟨rfl, hid⟩⟩
  · rw [if_neg hscreen]
    have hk : hash ≠ 0 := fun e => hscreen (Or.inr e)
    apply step_deref
    have hf := find_spec P n0 S b lgCur hash hk h ht.slots.cells ht.path
    rw [bind_eq]
    cases hfr : find P b lgCur hash h with
    | error e =>
      rw [hfr] at hf
      cases e <;> simp_all [SafeX, SafeF]
    | ok res =>
      obtain ⟨r, h1⟩ := res
      rw [hfr] at hf
      obtain ⟨⟨rfl, hlt, hcase⟩, _⟩ := hf
      simp only
      rcases hcase with ⟨hfound, hw⟩ | ⟨hnf, h0, _, hpath⟩
      · rw [hfound]
        simp only [if_true]
        -- policy update of the existing summary: a read and an assignment in place
        have hlive : ∃ v0, stAt h1 b r.1 = .live v0 := by
          rcases ht.slots.ok r.1 hlt with ⟨hz, _⟩ | ⟨_, hl⟩
          · rw [hw] at hz; exact absurd hz hk
          · exact hl
        obtain ⟨v0, hv0⟩ := hlive
        apply vstep_read ht.slots.cells hlt hv0
        apply vstep_assign _ ht.slots.cells hlt (by rw [hv0]; simp) hSb
        intro h2 sb2 hw2 hs2
        apply SafeF.pure
        refine ⟨b, rfl, ?_, Or.inl ⟨rfl, by rw [sb2.ids]; exact hid⟩⟩
        apply ht.of_views (sb2.cells _ _ ht.slots.cells) (by rw [sb2.next]; exact ht.slots.lt)
        · intro j
          by_cases hj : j = r.1
          · subst hj; exact hw2
          · exact sb2.word b j (fun x => hj x.2)
        · intro j _
          by_cases hj : j = r.1
          · subst hj; exact Or.inr ⟨⟨v0, hv0⟩, _, hs2⟩
          · exact Or.inl (sb2.st b j (fun x => hj x.2))
      · rw [hnf]
        simp only [Bool.false_eq_true, if_false]
        exact insert_spec P hP n0 S ⟨some b, lgCur, lgNom, rf, num, theta, theta0, false⟩ b rfl hSb hSn ids r.1 hash v hk hlt h1 hn ⟨ht, hid, h0, hpath⟩

/-- `trim()` -/
theorem trim_spec (P : Params) (n0 : Nat) (S : Nat → Bool) (t : Table) (b : Nat) (hb : t.entries = some b)
    (hSb : S b = true) (hSn : ∀ x, n0 ≤ x → S x = true) (ids : List Nat) :
    TripleS n0 S (fun h => TableAt P h b t.lgCur t.num ∧ h.ids = ids)
      (trim P t) (fun t' h' => MutPost P n0 b ids t' h') := by
  obtain ⟨ent, lgCur, lgNom, rf, num, theta, theta0, isEmpty⟩ := t
  simp only at hb ⊢
  subst hb
  intro h hn ⟨ht, hid⟩
  unfold trim
  simp only
  by_cases hnum : num > 2 ^ lgNom
  · rw [if_pos hnum]
    have := rebuild_spec P n0 S ⟨some b, lgCur, lgNom, rf, num, theta, theta0, isEmpty⟩ b rfl hSb hSn ids hnum h hn ⟨ht, hid⟩
    refine SafeF.mono this ?_
    intro t' h' ⟨nb, theta, hnb, hne, et, htab, hids⟩
    subst et
    exact ⟨nb, rfl, htab, Or.inr ⟨hnb, hne, hids⟩⟩
  · rw [if_neg hnum]
    apply SafeF.pure
    exact ⟨b, rfl, ht, Or.inl ⟨rfl, hid⟩⟩

/-- `reset()` -/
theorem reset_spec (P : Params) (n0 : Nat) (S : Nat → Bool) (t : Table) (b : Nat) (hb : t.entries = some b)
    (hSb : S b = true) (hSn : ∀ x, n0 ≤ x → S x = true) (ids : List Nat) :
    TripleS n0 S (fun h => TableAt P h b t.lgCur t.num ∧ h.ids = ids)
      (reset P t) (fun t' h' => MutPost P n0 b ids t' h') := by
  obtain ⟨ent, lgCur, lgNom, rf, num, theta, theta0, isEmpty⟩ := t
  simp only at hb ⊢
  subst hb
  intro h hn ⟨ht, hid⟩
  unfold reset
  simp only
  apply step_deref
  have loop := TripleS.loopUp (n0 := n0) (S := S)
    (fun k h' => HasCells h' b (2 ^ lgCur) ∧ b < h'.next ∧ (∀ j, j < k → wordAt h' b j = 0 ∧ stAt h' b j = .raw) ∧
      (∀ j, k ≤ j → j < 2 ^ lgCur → SlotOK h' b j) ∧ h'.ids = ids)
    (fun i => do
      let k ← readWord b i
      if k ≠ 0 then
        destroy b i
        writeWord b i 0) (2 ^ lgCur) 0 ?_
  · apply SafeF.bind_triple loop hn ⟨ht.slots.cells, ht.slots.lt, fun j hj => by omega, fun j _ hj => ht.slots.ok j hj, hid⟩
    intro _ h1 ⟨hc1, hlt1, hd1, _, hid1⟩ hle1
    simp only [Nat.zero_add] at hd1
    by_cases hst : startingSubMultiple (lgNom + 1) P.minLgK rf ≠ lgCur
    · rw [if_pos hst]
      apply vstep_dealloc hc1 (fun i hi => (hd1 i hi).2) hSb
      intro h2 hv2 hcells2 hid2 hnx2
      have hSnb : S h2.next = true := hSn _ (by omega)
      apply vstep_alloc _ _ hSnb
      intro h3 hc3 hr3 hv3 hcells3 hid3 hnx3
      apply vstep_zeroKeys (n0 := n0) (by omega) hc3 hr3 hSnb
      intro h4 sb4 hz4
      apply SafeF.pure
      have hne : h2.next ≠ b := by omega
      refine ⟨h2.next, rfl, TableAt.empty P (sb4.cells _ _ hc3) (by rw [sb4.next, hnx3]; omega) hz4,
        Or.inr ⟨by omega, hne, ?_⟩⟩
      rw [sb4.ids, hid3, hid2, hid1]
      simp only [List.filter_cons]
      have : (h2.next != b) = true := by simp [hne]
      rw [if_pos this]
    · rw [if_neg hst]
      apply SafeF.pure
      refine ⟨b, rfl, TableAt.empty P hc1 hlt1 (fun i hi => ⟨(hd1 i hi).2, (hd1 i hi).1⟩), Or.inl ⟨rfl, hid1⟩⟩
  · intro i _ hi h' _ ⟨hc', hlt', hd', hok', hid'⟩
    have hi' : i < 2 ^ lgCur := by omega
    apply vstep_readWord hc' hi'
    have hso := hok' i (Nat.le_refl _) hi'
    by_cases hk : wordAt h' b i ≠ 0
    · rw [if_pos hk]
      rcases hso with ⟨hz, _⟩ | ⟨_, v, hv⟩
      · exact absurd hz hk
      · apply vstep_destroy hc' hi' (by rw [hv]; simp) hSb
        intro h1 sb1 _ hs1
        apply SafeF.last
        apply vstep_writeWord 0 (sb1.cells _ _ hc') hi' hSb
        intro h2 sb2 hw2 hs2
        apply SafeF.pure
        have sb12 := sb1.trans sb2 (fun _ _ x => x) (fun _ _ x => x)
        refine ⟨sb12.cells _ _ hc', by rw [sb12.next]; exact hlt', ?_, ?_, by rw [sb12.ids]; exact hid'⟩
        · intro j hj
          by_cases hji : j = i
          · subst hji; exact ⟨hw2, by rw [hs2, hs1]⟩
          · rw [sb12.word b j (fun x => hji x.2), sb12.st b j (fun x => hji x.2)]; exact hd' j (by omega)
        · intro j h1' h2'
          exact (hok' j (by omega) h2').of_views (sb12.word b j (fun x => by omega)) (sb12.st b j (fun x => by omega))
    · rw [if_neg hk]
      apply SafeF.pure
      have hk0 : wordAt h' b i = 0 := by omega
      refine ⟨hc', hlt', ?_, fun j h1' h2' => hok' j (by omega) h2', hid'⟩
      intro j hj
      by_cases hji : j = i
      · subst hji
        rcases hso with ⟨_, hr⟩ | ⟨hnz, _⟩
        · exact ⟨hk0, hr⟩
        · exact absurd hk0 hnz
      · exact hd' j (by omega)

end DS.Life.Theta

/-
Round trips of the HLL image kinds, in both directions, for the strict reader (`lenient = false`) and for the reader
that tolerates a missing information-free tail (`lenient = true`), plus prefix safety of every decoder.
`encode*G c lenient` is a proof device: the image without its reserved tail when `lenient` and the tail is padding.
-/
import DSProofs.Lemmas.WireHll

namespace DS.Wire.Hll
open DS.Wire DS.Wire.Reader

/-! ### list -/

def encodeListG (c : Consts) (lenient : Bool) (s : ListImg) : Bytes :=
  encodeHdr c c.listPreInts s.h ++ (if lenient && listPad c s.h then [] else wU32s s.coupons)

theorem encodeListG_false (c : Consts) (s : ListImg) : encodeListG c false s = encodeList c s := by
  simp [encodeListG, encodeList]

theorem list_body_run (c : Consts) (len : Bool) (s : ListImg) (hw : s.WF c) (tail : Bytes) :
    decodeListBody c len s.h ((if len && listPad c s.h then [] else wU32s s.coupons) ++ tail) = some (s, tail) := by
  obtain ⟨_, hm, ht, hl, hb, hcnt, hemp, hdrop⟩ := hw
  unfold decodeListBody
  rw [bind_some (guard_run (by simp [hm]) _), bind_some (guard_run (by simp [ht]) _)]
  by_cases hp : (len && listPad c s.h) = true
  · simp only [hp, if_true, List.nil_append, Reader.pure]
    have hpad : listPad c s.h = true := by simp only [Bool.and_eq_true] at hp; exact hp.2
    have he : s.h.emptyFlag c = true := by
      simp only [listPad, Bool.and_eq_true] at hpad; exact hpad.2
    have hb6 : s.h.b6 = 0 := by rw [he] at hemp; simpa using hemp.symm
    have hc : s.coupons = List.replicate (listLen c s.h) 0 := by
      have := hdrop; rw [hb6] at this; simpa [hl] using this
    cases s with
    | mk h cs => simp only at hc ⊢; rw [hc]
  · have hp' : (len && listPad c s.h) = false := by simpa using hp
    simp only [hp', Bool.false_eq_true, if_false]
    rw [bind_some (repeatN_u32_run s.coupons _ tail hl hb)]
    rfl

theorem list_body_inv (c : Consts) (h : Hdr) (b : Bytes) (s : ListImg) (r : Bytes)
    (hd : decodeListBody c false h b = some (s, r)) : s.h = h ∧ b = wU32s s.coupons ++ r := by
  unfold decodeListBody at hd
  obtain ⟨_, r1, g1, hd⟩ := bind_inv hd
  obtain ⟨_, r2, g2, hd⟩ := bind_inv hd
  obtain ⟨_, e1⟩ := guard_inv g1
  obtain ⟨_, e2⟩ := guard_inv g2
  simp only [Bool.false_and, Bool.false_eq_true, if_false] at hd
  obtain ⟨cs, r3, hrep, hd⟩ := bind_inv hd
  obtain ⟨hs, hr⟩ := pure_inv hd
  obtain ⟨hb, _, _⟩ := repeatN_u32_inv _ _ _ _ hrep
  subst hs; subst hr; subst e1; subst e2
  exact ⟨rfl, hb⟩

theorem PS_listBody (c : Consts) (len : Bool) (h : Hdr) : PS (decodeListBody c len h) := by
  unfold decodeListBody
  refine PS_bind _ _ (PS_guard _) fun _ => PS_bind _ _ (PS_guard _) fun _ => ?_
  split
  · exact PS_pure _
  · exact PS_bind _ _ (PS_repeatN _ (PS_leNat 4) _) fun _ => PS_pure _

/-! ### set -/

theorem set_body_run (c : Consts) (s : SetImg) (hw : s.Valid c) (tail : Bytes) :
    decodeSetBody c s.h ((w32 s.count ++ wU32s s.slots) ++ tail) = some (s, tail) := by
  obtain ⟨_, hm, ht, hk, hc, hl, hb⟩ := hw
  unfold decodeSetBody
  rw [bind_some (guard_run (by simp [hm]) _), bind_some (guard_run (by simp [ht]) _),
      bind_some (guard_run (by simp [hk]) _)]
  simp only [List.append_assoc]
  rw [bind_some (u32_w32 s.count hc _), bind_some (repeatN_u32_run s.slots _ tail hl hb)]
  rfl

theorem set_body_inv (c : Consts) (h : Hdr) (b : Bytes) (s : SetImg) (r : Bytes)
    (hd : decodeSetBody c h b = some (s, r)) : s.h = h ∧ b = (w32 s.count ++ wU32s s.slots) ++ r := by
  unfold decodeSetBody at hd
  obtain ⟨_, r1, g1, hd⟩ := bind_inv hd
  obtain ⟨_, r2, g2, hd⟩ := bind_inv hd
  obtain ⟨_, r3, g3, hd⟩ := bind_inv hd
  obtain ⟨_, e1⟩ := guard_inv g1
  obtain ⟨_, e2⟩ := guard_inv g2
  obtain ⟨_, e3⟩ := guard_inv g3
  obtain ⟨cnt, r4, hcnt, hd⟩ := bind_inv hd
  obtain ⟨sl, r5, hrep, hd⟩ := bind_inv hd
  obtain ⟨hs, hr⟩ := pure_inv hd
  obtain ⟨hb1, _⟩ := leNat_inv 4 _ _ _ hcnt
  obtain ⟨hb2, _, _⟩ := repeatN_u32_inv _ _ _ _ hrep
  subst hs; subst hr; subst e1; subst e2; subst e3
  refine ⟨rfl, ?_⟩
  simp only [w32, List.append_assoc]
  rw [← hb2]; exact hb1

theorem PS_setBody (c : Consts) (h : Hdr) : PS (decodeSetBody c h) := by
  unfold decodeSetBody
  exact PS_bind _ _ (PS_guard _) fun _ => PS_bind _ _ (PS_guard _) fun _ => PS_bind _ _ (PS_guard _) fun _ =>
    PS_bind _ _ (PS_leNat 4) fun _ => PS_bind _ _ (PS_repeatN _ (PS_leNat 4) _) fun _ => PS_pure _

/-! ### hll -/

def hllTailG (c : Consts) (lenient : Bool) (s : HllImg) : Bytes :=
  w64 s.hip ++ (w64 s.kxq0 ++ (w64 s.kxq1 ++ (w32 s.numAtCurMin ++ (w32 s.auxCount ++
    (s.regs ++ (if lenient && hllPad c s.h s.auxCount then [] else wU32s s.aux))))))

theorem hll_body_run (c : Consts) (len : Bool) (s : HllImg) (hw : s.WF c) (tail : Bytes) :
    decodeHllBody c len s.h (hllTailG c len s ++ tail) = some (s, tail) := by
  obtain ⟨_, hm, ht, h1, h2, h3, h4, h5, hor, hrl, hal, hab, hac, _, _, _⟩ := hw
  unfold decodeHllBody hllTailG
  simp only [List.append_assoc]
  rw [bind_some (guard_run (by simp [hm]) _), bind_some (guard_run (by simp [ht]) _)]
  rw [bind_some (u64_w64 s.hip h1 _), bind_some (u64_w64 s.kxq0 h2 _), bind_some (u64_w64 s.kxq1 h3 _),
      bind_some (u32_w32 s.numAtCurMin h4 _), bind_some (u32_w32 s.auxCount h5 _)]
  rw [bind_some (guard_run (by rcases hor with h | h <;> simp [h]) _)]
  rw [bind_some (bytesN_run s.regs _ _ hrl)]
  by_cases hp : (len && hllPad c s.h s.auxCount) = true
  · simp only [hp, if_true, List.nil_append, Reader.pure]
    have hpad : hllPad c s.h s.auxCount = true := by simp only [Bool.and_eq_true] at hp; exact hp.2
    have h0 : s.auxCount = 0 := by
      simp only [hllPad, Bool.and_eq_true, beq_iff_eq] at hpad; exact hpad.2
    have hz : s.aux = List.replicate (auxLen c s.h s.auxCount) 0 := by
      have := filter_ne_zero_nil_replicate s.aux (by rw [← HllImg.auxNonzero, ← hac, h0])
      rw [hal] at this; exact this
    cases s with
    | mk h hip kxq0 kxq1 nacm ac regs aux => simp only at hz ⊢; rw [hz]
  · have hp' : (len && hllPad c s.h s.auxCount) = false := by simpa using hp
    simp only [hp', Bool.false_eq_true, if_false]
    rw [bind_some (repeatN_u32_run s.aux _ tail hal hab)]
    rfl

theorem hll_body_inv (c : Consts) (h : Hdr) (b : Bytes) (s : HllImg) (r : Bytes)
    (hd : decodeHllBody c false h b = some (s, r)) : s.h = h ∧ b = hllTailG c false s ++ r := by
  unfold decodeHllBody at hd
  obtain ⟨_, r1, g1, hd⟩ := bind_inv hd
  obtain ⟨_, r2, g2, hd⟩ := bind_inv hd
  obtain ⟨_, e1⟩ := guard_inv g1
  obtain ⟨_, e2⟩ := guard_inv g2
  obtain ⟨hip, r3, x1, hd⟩ := bind_inv hd
  obtain ⟨kxq0, r4, x2, hd⟩ := bind_inv hd
  obtain ⟨kxq1, r5, x3, hd⟩ := bind_inv hd
  obtain ⟨nacm, r6, x4, hd⟩ := bind_inv hd
  obtain ⟨ac, r7, x5, hd⟩ := bind_inv hd
  obtain ⟨_, r8, g3, hd⟩ := bind_inv hd
  obtain ⟨_, e3⟩ := guard_inv g3
  obtain ⟨regs, r9, x6, hd⟩ := bind_inv hd
  simp only [Bool.false_and, Bool.false_eq_true, if_false] at hd
  obtain ⟨aux, r10, x7, hd⟩ := bind_inv hd
  obtain ⟨hs, hr⟩ := pure_inv hd
  obtain ⟨y1, _⟩ := leNat_inv 8 _ _ _ x1
  obtain ⟨y2, _⟩ := leNat_inv 8 _ _ _ x2
  obtain ⟨y3, _⟩ := leNat_inv 8 _ _ _ x3
  obtain ⟨y4, _⟩ := leNat_inv 4 _ _ _ x4
  obtain ⟨y5, _⟩ := leNat_inv 4 _ _ _ x5
  obtain ⟨y6, _⟩ := bytesN_inv _ _ _ _ x6
  obtain ⟨y7, _, _⟩ := repeatN_u32_inv _ _ _ _ x7
  subst hs; subst hr; subst e1; subst e2; subst e3
  refine ⟨rfl, ?_⟩
  simp only [hllTailG, w64, w32, List.append_assoc, Bool.false_and, Bool.false_eq_true, if_false]
  rw [← y7, ← y6, ← y5, ← y4, ← y3, ← y2]; exact y1

theorem PS_hllBody (c : Consts) (len : Bool) (h : Hdr) : PS (decodeHllBody c len h) := by
  unfold decodeHllBody
  refine PS_bind _ _ (PS_guard _) fun _ => PS_bind _ _ (PS_guard _) fun _ => PS_bind _ _ (PS_leNat 8) fun _ =>
    PS_bind _ _ (PS_leNat 8) fun _ => PS_bind _ _ (PS_leNat 8) fun _ => PS_bind _ _ (PS_leNat 4) fun _ =>
    PS_bind _ _ (PS_leNat 4) fun _ => PS_bind _ _ (PS_guard _) fun _ => PS_bind _ _ (PS_bytesN _) fun _ => ?_
  split
  · exact PS_pure _
  · exact PS_bind _ _ (PS_repeatN _ (PS_leNat 4) _) fun _ => PS_pure _

/-! ### dispatcher -/

theorem PS_hdrRest (c : Consts) : PS (decodeHdrRest c) := by
  unfold decodeHdrRest
  exact PS_bind _ _ (PS_leNat 1) fun _ => PS_bind _ _ (PS_guard _) fun _ => PS_bind _ _ (PS_leNat 1) fun _ =>
    PS_bind _ _ (PS_guard _) fun _ => PS_bind _ _ (PS_leNat 1) fun _ => PS_bind _ _ (PS_leNat 1) fun _ =>
    PS_bind _ _ (PS_leNat 1) fun _ => PS_bind _ _ (PS_leNat 1) fun _ => PS_bind _ _ (PS_leNat 1) fun _ => PS_pure _

theorem PS_decodeG (c : Consts) (len : Bool) : PS (decodeG c len) := by
  unfold decodeG
  refine PS_bind _ _ (PS_leNat 1) fun pre => PS_bind _ _ (PS_hdrRest c) fun h => ?_
  split
  · exact PS_bind _ _ (PS_hllBody c len h) fun _ => PS_pure _
  · split
    · exact PS_bind _ _ (PS_setBody c h) fun _ => PS_pure _
    · split
      · exact PS_bind _ _ (PS_listBody c len h) fun _ => PS_pure _
      · exact PS_fail

/-- the image without its reserved tail when `lenient` -/
def encodeG (c : Consts) (lenient : Bool) : Img → Bytes
  | .list s => encodeListG c lenient s
  | .set s => encodeSet c s
  | .hll s => encodeHdr c c.hllPreInts s.h ++ hllTailG c lenient s

theorem encodeG_false (c : Consts) (s : Img) : encodeG c false s = encode c s := by
  cases s <;> simp [encodeG, encode, encodeListG, encodeList, encodeHll, hllTailG]

/-- set images round-trip under `Valid` alone (covers images of older writers whose lg_arr byte is absent) -/
theorem set_decode_encode_valid (c : Consts) (hc : c.ok = true) (len : Bool) (s : SetImg) (hv : s.Valid c) (tail : Bytes) :
    decodeG c len (encodeSet c s ++ tail) = some (Img.set s, tail) := by
  have hc' := hc
  simp only [Consts.ok, Bool.and_eq_true, decide_eq_true_eq, bne_iff_ne, ne_eq] at hc'
  obtain ⟨⟨⟨⟨⟨⟨⟨_, _⟩, pl⟩, ps⟩, ph⟩, nhs⟩, nhl⟩, nsl⟩ := hc'
  have hr : s.h.inRange := hv.1
  simp only [encodeSet, List.append_assoc]
  unfold decodeG
  rw [hdr_run c hc c.setPreInts ps s.h hr]
  have e1 : (c.setPreInts == c.hllPreInts) = false := by simp; exact fun h => nhs h.symm
  simp only [e1, Bool.false_eq_true, if_false, beq_self_eq_true, if_true]
  rw [← List.append_assoc, bind_some (set_body_run c s hv tail)]; rfl

theorem decodeG_encodeG (c : Consts) (hc : c.ok = true) (len : Bool) (s : Img) (hw : s.WF c) (tail : Bytes) :
    decodeG c len (encodeG c len s ++ tail) = some (s, tail) := by
  have hc' := hc
  simp only [Consts.ok, Bool.and_eq_true, decide_eq_true_eq, bne_iff_ne, ne_eq] at hc'
  obtain ⟨⟨⟨⟨⟨⟨⟨_, _⟩, pl⟩, ps⟩, ph⟩, nhs⟩, nhl⟩, nsl⟩ := hc'
  cases s with
  | list s =>
    have hr : s.h.inRange := hw.1
    simp only [encodeG, encodeListG, List.append_assoc]
    unfold decodeG
    rw [hdr_run c hc c.listPreInts pl s.h hr]
    have e1 : (c.listPreInts == c.hllPreInts) = false := by simp; exact fun h => nhl h.symm
    have e2 : (c.listPreInts == c.setPreInts) = false := by simp; exact fun h => nsl h.symm
    simp only [e1, e2, Bool.false_eq_true, if_false, beq_self_eq_true, if_true]
    rw [bind_some (list_body_run c len s hw tail)]; rfl
  | set s =>
    simp only [encodeG]
    exact set_decode_encode_valid c hc len s hw.1 tail
  | hll s =>
    have hr : s.h.inRange := hw.1
    simp only [encodeG, List.append_assoc]
    unfold decodeG
    rw [hdr_run c hc c.hllPreInts ph s.h hr]
    simp only [beq_self_eq_true, if_true]
    rw [bind_some (hll_body_run c len s hw tail)]; rfl

/-- converse for the strict reader: whatever it accepts is exactly the encoding of the image it returns -/
theorem decode_inv (c : Consts) (b : Bytes) (s : Img) (r : Bytes) (hd : decode c b = some (s, r)) : b = encode c s ++ r := by
  unfold decode decodeG at hd
  obtain ⟨pre, r1, hp, hd⟩ := bind_inv hd
  obtain ⟨h, r2, hh, hd⟩ := bind_inv hd
  obtain ⟨bp, _⟩ := leNat_inv 1 _ _ _ hp
  obtain ⟨bh, _⟩ := hdr_inv c _ _ _ hh
  split at hd
  · rename_i hpre
    obtain ⟨s', r3, hb, hd⟩ := bind_inv hd
    obtain ⟨hs, hr⟩ := pure_inv hd
    obtain ⟨e1, e2⟩ := hll_body_inv c h _ _ _ hb
    subst hs; subst hr
    have : pre = c.hllPreInts := by simpa using hpre
    subst this; subst e1
    subst e2; subst bh; subst bp
    simp [encode, encodeHll, encodeHdr, hllTailG, w8, List.append_assoc]
  · split at hd
    · rename_i _ hpre
      obtain ⟨s', r3, hb, hd⟩ := bind_inv hd
      obtain ⟨hs, hr⟩ := pure_inv hd
      obtain ⟨e1, e2⟩ := set_body_inv c h _ _ _ hb
      subst hs; subst hr
      have : pre = c.setPreInts := by simpa using hpre
      subst this; subst e1
      subst e2; subst bh; subst bp
      simp [encode, encodeSet, encodeHdr, w8, List.append_assoc]
    · split at hd
      · rename_i _ _ hpre
        obtain ⟨s', r3, hb, hd⟩ := bind_inv hd
        obtain ⟨hs, hr⟩ := pure_inv hd
        obtain ⟨e1, e2⟩ := list_body_inv c h _ _ _ hb
        subst hs; subst hr
        have : pre = c.listPreInts := by simpa using hpre
        subst this; subst e1
        subst e2; subst bh; subst bp
        simp [encode, encodeList, encodeHdr, w8, List.append_assoc]
      · simp [Reader.fail] at hd

end DS.Wire.Hll

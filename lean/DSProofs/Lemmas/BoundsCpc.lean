/- C06 helper lemmas: CPC confidence half-width `eps`, the four confidence functions, ICON estimate ≥ coupon count. -/
import DSProofs.Lemmas.BoundsHll
namespace DS.Bounds
set_option linter.unusedSectionVars false
set_option linter.unusedVariables false
set_option linter.unusedSimpArgs false
open DS.Bounds.Gen

variable {K : Type} [Field K] [LinearOrder K] [IsStrictOrderedRing K] (F : MathFns K)

theorem kappaOk_iff (k : Nat) : kappaOk k = true ↔ 1 ≤ k ∧ k ≤ 3 := by
  unfold kappaOk; simp

/-- the data a confidence table row provides (κ·x_κ increasing, 3·x₃ below 10⁴·√k) -/
theorem confRow_facts {t : List Nat} {r : Nat} (h : confRowOk t r = true) :
    0 < t.getD (3 * r) 0 ∧ t.getD (3 * r) 0 < 2 * t.getD (3 * r + 1) 0 ∧ 2 * t.getD (3 * r + 1) 0 < 3 * t.getD (3 * r + 2) 0 ∧
    (3 * t.getD (3 * r + 2) 0) ^ 2 < 10 ^ 8 * 2 ^ (r + 4) := by
  unfold confRowOk at h
  simp only [Bool.and_eq_true, decide_eq_true_eq] at h
  obtain ⟨⟨⟨a, b⟩, c⟩, d⟩ := h
  exact ⟨a, b, c, d⟩

theorem div_q_facts (q y y' : K) (hq : 0 < q) (hy : 0 ≤ y) (hyy : y ≤ y') (hsq : y' * y' < q * q) :
    0 ≤ y / q ∧ y / q < 1 ∧ y' / q < 1 ∧ y / q ≤ y' / q := by
  have hy' : 0 ≤ y' := le_trans hy hyy
  have h1 : y' < q := lt_of_mul_self_lt hy' (le_of_lt hq) hsq
  refine ⟨div_nonneg hy (le_of_lt hq), ?_, ?_, div_le_div_of_nonneg_right hyy (le_of_lt hq)⟩
  · rw [div_lt_one hq]; linarith
  · rw [div_lt_one hq]; exact h1

/-- which (table, constant) pairs the four confidence functions use -/
def ConfPair (tbl : List Nat) (dflt : Lit) : Prop :=
  (tbl = cpcT.iconHighSide ∧ dflt = cpcT.iconErrorConstant) ∨ (tbl = cpcT.iconLowSide ∧ dflt = cpcT.iconErrorConstant) ∨
  (tbl = cpcT.hipHighSide ∧ dflt = cpcT.hipErrorConstant) ∨ (tbl = cpcT.hipLowSide ∧ dflt = cpcT.hipErrorConstant)

theorem confPair_row {tbl : List Nat} {dflt : Lit} (hp : ConfPair tbl dflt) (r : Nat) (hr : r < 11) : confRowOk tbl r = true := by
  have h := Gen.cpc_confidence_tables.2 r hr
  simp only [Bool.and_eq_true] at h
  obtain ⟨⟨⟨a, b⟩, c⟩, d⟩ := h
  rcases hp with ⟨rfl, _⟩ | ⟨rfl, _⟩ | ⟨rfl, _⟩ | ⟨rfl, _⟩
  · exact b
  · exact a
  · exact d
  · exact c

theorem confPair_const {tbl : List Nat} {dflt : Lit} (hp : ConfPair tbl dflt) :
    (0 : K) < litK dflt ∧ (3 * (litK dflt : K)) * (3 * litK dflt) < ((2 ^ 15 : Nat) : K) := by
  have h := Gen.cpc_confidence_tables.1
  simp only [Bool.and_eq_true, decide_eq_true_eq] at h
  obtain ⟨⟨⟨⟨_, p1⟩, p2⟩, p3⟩, p4⟩ := h
  have aux : ∀ t : Lit, qpos t = true → 9 * Gen.num t ^ 2 < 2 ^ 15 * Gen.den t ^ 2 →
      (0 : K) < litK t ∧ (3 * (litK t : K)) * (3 * litK t) < ((2 ^ 15 : Nat) : K) := by
    intro t hp hq
    have dpos : (0 : K) < ((t.2.2 : Nat) : K) := by
      unfold qpos at hp; simp only [Bool.and_eq_true] at hp; exact denPos_cast hp.1
    refine ⟨litK_pos_of_qpos hp, ?_⟩
    unfold litK
    unfold Gen.num Gen.den at hq
    have hq' : (9 * (t.2.1 : K) ^ 2 < 2 ^ 15 * ((t.2.2 : Nat) : K) ^ 2) := by exact_mod_cast hq
    have : 3 * ((t.2.1 : K) / ((t.2.2 : Nat) : K)) * (3 * ((t.2.1 : K) / ((t.2.2 : Nat) : K))) =
        9 * (t.2.1 : K) ^ 2 / (((t.2.2 : Nat) : K) ^ 2) := by
      field_simp; ring
    rw [this, div_lt_iff₀ (by positivity)]
    push_cast
    linarith
  rcases hp with ⟨_, rfl⟩ | ⟨_, rfl⟩ | ⟨_, rfl⟩ | ⟨_, rfl⟩
  · exact aux _ p1 p3
  · exact aux _ p1 p3
  · exact aux _ p2 p4
  · exact aux _ p2 p4

/-- the relative half-width: 0 ≤ eps < 1 and eps increases with κ -/
theorem cpcEps_facts (hF : F.OK) {tbl : List Nat} {dflt : Lit} (hp : ConfPair tbl dflt) (lgK : Nat) (hlg : 4 ≤ lgK)
    (k : Nat) (hk1 : 1 ≤ k) (hk3 : k ≤ 3) :
    0 ≤ @cpcEps K (fieldNum F) tbl dflt lgK k ∧ @cpcEps K (fieldNum F) tbl dflt lgK k < 1 ∧
    (k < 3 → @cpcEps K (fieldNum F) tbl dflt lgK k ≤ @cpcEps K (fieldNum F) tbl dflt lgK (k + 1)) := by
  obtain ⟨hq, hqq⟩ := sqrt_pow2 F hF lgK
  unfold cpcEps
  simp only [nat_eq, lit_eq, sqrt_eq]
  by_cases hb : lgK ≤ 14
  · simp only [hb, if_true]
    obtain ⟨ta, tb, tc, td⟩ := confRow_facts (confPair_row hp (lgK - 4) (by omega))
    have e4 : lgK - 4 + 4 = lgK := by omega
    rw [e4] at td
    have hc10 : (litK c10000 : K) = 10000 := by simp [litK, c10000]
    rw [hc10]
    -- everything in terms of Y_κ = κ·t_κ
    set q := F.sqrt ((2 ^ lgK : Nat) : K) with hqdef
    have key : ∀ (j : Nat) (t : Nat), (j : K) * ((t : K) / 10000 / q) = ((j * t : Nat) : K) / 10000 / q := by
      intro j t; push_cast; field_simp
    have bound : ∀ y : Nat, y ≤ 3 * tbl.getD (3 * (lgK - 4) + 2) 0 → ((y : K) / 10000) * ((y : K) / 10000) < q * q := by
      intro y hy
      rw [hqq]
      have h1 : y ^ 2 < 10 ^ 8 * 2 ^ lgK := lt_of_le_of_lt (Nat.pow_le_pow_left hy 2) td
      have h2 : ((y : K)) ^ 2 < 10 ^ 8 * ((2 ^ lgK : Nat) : K) := by exact_mod_cast h1
      have : (y : K) / 10000 * ((y : K) / 10000) = (y : K) ^ 2 / 10 ^ 8 := by ring
      rw [this, div_lt_iff₀ (by positivity)]
      linarith
    have hk : k = 1 ∨ k = 2 ∨ k = 3 := by omega
    have dq : ∀ y y' : Nat, y ≤ y' → y' ≤ 3 * tbl.getD (3 * (lgK - 4) + 2) 0 →
        0 ≤ ((y : K)) / 10000 / q ∧ ((y : K)) / 10000 / q < 1 ∧ ((y : K)) / 10000 / q ≤ ((y' : K)) / 10000 / q := by
      intro y y' h1 h2
      have := div_q_facts q ((y : K) / 10000) ((y' : K) / 10000) hq (by positivity)
        (div_le_div_of_nonneg_right (by exact_mod_cast h1) (by norm_num)) (bound y' h2)
      exact ⟨this.1, this.2.1, this.2.2.2⟩
    rcases hk with rfl | rfl | rfl
    · simp only [Nat.sub_self, Nat.add_zero, Nat.add_one_sub_one]
      rw [key, key]
      obtain ⟨g1, g2, g3⟩ := dq (1 * tbl.getD (3 * (lgK - 4)) 0) (2 * tbl.getD (3 * (lgK - 4) + 1) 0) (by omega) (by omega)
      exact ⟨g1, g2, fun _ => g3⟩
    · simp only [Nat.add_one_sub_one]
      rw [key, key]
      obtain ⟨g1, g2, g3⟩ := dq (2 * tbl.getD (3 * (lgK - 4) + 1) 0) (3 * tbl.getD (3 * (lgK - 4) + 2) 0) (by omega) (by omega)
      exact ⟨g1, g2, fun _ => g3⟩
    · simp only [Nat.add_one_sub_one]
      rw [key]
      obtain ⟨g1, g2, _⟩ := dq (3 * tbl.getD (3 * (lgK - 4) + 2) 0) (3 * tbl.getD (3 * (lgK - 4) + 2) 0) (by omega) (by omega)
      exact ⟨g1, g2, fun h => by omega⟩
  · simp only [hb, if_false]
    obtain ⟨c0', c3'⟩ := confPair_const (K := K) hp
    obtain ⟨g1, g2, g3⟩ := ratio_facts F hF lgK 15 (by omega) _ c0' c3' k hk3
    rw [← mul_div_assoc, ← mul_div_assoc]
    exact ⟨g1, g2, fun _ => g3⟩

/-! ### the clamp forms used by the four functions -/

theorem lbClamp_le (e c eps : K) (h0 : 0 ≤ e) (hc : c ≤ e) (he : 0 ≤ eps) :
    (if e / (1 + eps) < c then c else e / (1 + eps)) ≤ e := by
  split
  · exact hc
  · rw [div_le_iff₀ (by linarith)]; nlinarith

theorem lbClamp_anti (e c eps eps' : K) (h0 : 0 ≤ e) (he : 0 ≤ eps) (hee : eps ≤ eps') :
    (if e / (1 + eps') < c then c else e / (1 + eps')) ≤ (if e / (1 + eps) < c then c else e / (1 + eps)) := by
  have hd : e / (1 + eps') ≤ e / (1 + eps) := div_le_div_of_nonneg_left h0 (by linarith) (by linarith)
  split <;> split
  · exact le_refl _
  · rename_i h1 h2; exact le_of_lt (lt_of_lt_of_le h1 (not_lt.mp h2)) |> fun h => by linarith
  · rename_i h1 h2; linarith
  · exact hd

theorem ubForm_ge (hF : F.OK) (e eps : K) (h0 : 0 ≤ e) (he : 0 ≤ eps) (h1 : eps < 1) : e ≤ F.ceil (e / (1 - eps)) := by
  apply le_trans _ (hF.le_ceil _)
  rw [le_div_iff₀ (by linarith)]; nlinarith

theorem ubForm_mono (hF : F.OK) (e eps eps' : K) (h0 : 0 ≤ e) (hee : eps ≤ eps') (h1 : eps' < 1) :
    F.ceil (e / (1 - eps)) ≤ F.ceil (e / (1 - eps')) := by
  apply hF.ceil_mono
  exact div_le_div_of_nonneg_left h0 (by linarith) (by linarith)

/-! ### ICON estimate -/

theorem le_ite_clamp {p : Prop} [Decidable p] (x c : K) (h : p → c ≤ x) : c ≤ (if p then x else c) := by
  by_cases hp : p
  · rw [if_pos hp]; exact h hp
  · rw [if_neg hp]


/-- compute_icon_estimate never returns less than the coupon count outside the exponential branch (the clamp
    `if (result >= double_c) return result; else return double_c`), and is exact for 0 and 1 coupons -/
theorem iconEstimate_ge (T : CpcTables) (lgK c : Nat) (e : K) (h : @iconEstimate K (fieldNum F) T lgK c = some e)
    (hpoly : c < 2 ∨ ¬ ((c : K) > (if lgK < 14 then litK c5_7 else litK c5_6) * ((2 ^ lgK : Nat) : K))) :
    (c : K) ≤ e ∧ (c < 2 → e = c) := by
  unfold iconEstimate at h
  simp only [nat_eq, lit_eq] at h
  split at h
  · simp at h
  by_cases hc : c < 2
  · simp only [hc, if_true, Option.some.injEq] at h
    have : c = 0 ∨ c = 1 := by omega
    rcases this with rfl | rfl
    · simp only [if_true, litK_c0] at h; subst h; simp
    · simp only [one_ne_zero, if_false, litK_c1] at h; subst h; simp
  · simp only [hc, if_false] at h
    have hp : ¬ ((c : K) > (if lgK < 14 then litK c5_7 else litK c5_6) * ((2 ^ lgK : Nat) : K)) := by
      rcases hpoly with h' | h'
      · exact absurd h' hc
      · exact h'
    simp only [hp, if_false, Option.some.injEq] at h
    refine ⟨?_, fun h' => absurd h' hc⟩
    rw [← h]
    exact le_ite_clamp _ _ (fun hge => hge)

/-- the exponential branch too, given `r ≤ γ·2^r` for r ≥ 5 (true of the real power function: `realFns_expOK`) -/
theorem iconEstimate_ge_all (hexp : F.ExpOK) (T : CpcTables) (lgK c : Nat) (e : K) (h : @iconEstimate K (fieldNum F) T lgK c = some e) :
    (c : K) ≤ e ∧ (c < 2 → e = c) := by
  by_cases hpoly : c < 2 ∨ ¬ ((c : K) > (if lgK < 14 then litK c5_7 else litK c5_6) * ((2 ^ lgK : Nat) : K))
  · exact iconEstimate_ge F T lgK c e h hpoly
  · have hc : ¬ c < 2 := fun h' => hpoly (Or.inl h')
    have hx : (c : K) > (if lgK < 14 then litK c5_7 else litK c5_6) * ((2 ^ lgK : Nat) : K) := by
      by_contra h'; exact hpoly (Or.inr h')
    unfold iconEstimate at h
    simp only [nat_eq, lit_eq] at h
    split at h
    · simp at h
    simp only [hc, if_false, hx, if_true, Option.some.injEq] at h
    refine ⟨?_, fun h' => absurd h' hc⟩
    rw [← h]
    unfold iconExponentialApproximation
    simp only [lit_eq, litK_c2, pow_eq]
    have hk : (0 : K) < ((2 ^ lgK : Nat) : K) := by exact_mod_cast Nat.pos_of_ne_zero (by positivity)
    have hthr : (5 : K) ≤ (if lgK < 14 then litK c5_7 else litK c5_6) := by
      split <;> simp [litK, c5_7, c5_6] <;> norm_num
    have hr : (5 : K) ≤ (c : K) / ((2 ^ lgK : Nat) : K) := by
      rw [le_div_iff₀ hk]; nlinarith
    have := hexp _ hr
    have h2 : (c : K) = (c : K) / ((2 ^ lgK : Nat) : K) * ((2 ^ lgK : Nat) : K) := by field_simp
    calc (c : K) = (c : K) / ((2 ^ lgK : Nat) : K) * ((2 ^ lgK : Nat) : K) := h2
      _ ≤ (litK cIconExp * F.pow 2 ((c : K) / ((2 ^ lgK : Nat) : K))) * ((2 ^ lgK : Nat) : K) :=
          mul_le_mul_of_nonneg_right this (le_of_lt hk)
      _ = litK cIconExp * ((2 ^ lgK : Nat) : K) * F.pow 2 ((c : K) / ((2 ^ lgK : Nat) : K)) := by ring

/-! ### the four confidence functions behind cpc_sketch::get_lower_bound / get_upper_bound -/

theorem pairHipHigh : ConfPair cpcT.hipHighSide cpcT.hipErrorConstant := Or.inr (Or.inr (Or.inl ⟨rfl, rfl⟩))
theorem pairHipLow : ConfPair cpcT.hipLowSide cpcT.hipErrorConstant := Or.inr (Or.inr (Or.inr ⟨rfl, rfl⟩))
theorem pairIconHigh : ConfPair cpcT.iconHighSide cpcT.iconErrorConstant := Or.inl ⟨rfl, rfl⟩
theorem pairIconLow : ConfPair cpcT.iconLowSide cpcT.iconErrorConstant := Or.inr (Or.inl ⟨rfl, rfl⟩)

/-- which table / constant the lower- and upper-bound functions use, as a function of `was_merged` -/
def lbTbl (m : Bool) : List Nat := if m then cpcT.iconHighSide else cpcT.hipHighSide
def lbDflt (m : Bool) : Lit := if m then cpcT.iconErrorConstant else cpcT.hipErrorConstant
def ubTbl (m : Bool) : List Nat := if m then cpcT.iconLowSide else cpcT.hipLowSide
def ubDflt (m : Bool) : Lit := if m then cpcT.iconErrorConstant else cpcT.hipErrorConstant
theorem lbPair (m : Bool) : ConfPair (lbTbl m) (lbDflt m) := by cases m; exact pairHipHigh; exact pairIconHigh
theorem ubPair (m : Bool) : ConfPair (ubTbl m) (ubDflt m) := by cases m; exact pairHipLow; exact pairIconLow

/-- common shape of the lower-bound functions: given the estimate `e` they return clamp(e/(1+eps), coupons) -/
theorem cpc_lb_shape (s : CpcState K) (k : Nat) (e lb : K) (he : @cpcEstimate K (fieldNum F) cpcT s = some e)
    (hl : @cpcLowerBound K (fieldNum F) cpcT s k = some lb) :
    (1 ≤ k ∧ k ≤ 3) ∧ ((s.numCoupons = 0 ∧ lb = 0) ∨ (s.numCoupons ≠ 0 ∧ 4 ≤ s.lgK ∧
      lb = (if e / (1 + @cpcEps K (fieldNum F) (lbTbl s.merged) (lbDflt s.merged) s.lgK k) < (s.numCoupons : K) then (s.numCoupons : K)
            else e / (1 + @cpcEps K (fieldNum F) (lbTbl s.merged) (lbDflt s.merged) s.lgK k)))) := by
  unfold cpcLowerBound at hl
  unfold cpcEstimate at he
  by_cases hk : kappaOk k = true
  · refine ⟨(kappaOk_iff k).mp hk, ?_⟩
    simp only [hk, Bool.not_true, Bool.false_eq_true, if_false] at hl
    by_cases hc : s.numCoupons = 0
    · left
      cases hm : s.merged <;> simp only [hm, Bool.not_false, Bool.not_true, if_true, Bool.false_eq_true, if_false] at hl
      · unfold hipConfidenceLb at hl; simp only [hc, if_true, Option.some.injEq, lit_eq, litK_c0] at hl; exact ⟨hc, hl.symm⟩
      · unfold iconConfidenceLb at hl; simp only [hc, if_true, Option.some.injEq, lit_eq, litK_c0] at hl; exact ⟨hc, hl.symm⟩
    · right
      cases hm : s.merged <;> simp only [hm, Bool.not_false, Bool.not_true, if_true, Bool.false_eq_true, if_false] at hl he
      · unfold hipConfidenceLb at hl
        simp only [hc, if_false, hk, Bool.not_true, Bool.false_eq_true, lit_eq, litK_c1, nat_eq] at hl
        split at hl
        · simp at hl
        · rename_i h4
          simp only [Option.some.injEq] at hl he
          subst he
          exact ⟨hc, by omega, by simp only [lbTbl, lbDflt, Bool.false_eq_true, if_false]; exact hl.symm⟩
      · unfold iconConfidenceLb at hl
        simp only [hc, if_false, hk, Bool.not_true, Bool.false_eq_true, lit_eq, litK_c1, nat_eq, he, Option.map_some] at hl
        split at hl
        · simp at hl
        · rename_i h4
          simp only [Option.some.injEq] at hl
          exact ⟨hc, by omega, by simp only [lbTbl, lbDflt, if_true]; exact hl.symm⟩
  · simp [hk] at hl

theorem cpc_ub_shape (s : CpcState K) (k : Nat) (e ub : K) (he : @cpcEstimate K (fieldNum F) cpcT s = some e)
    (hu : @cpcUpperBound K (fieldNum F) cpcT s k = some ub) :
    (1 ≤ k ∧ k ≤ 3) ∧ ((s.numCoupons = 0 ∧ ub = 0) ∨ (s.numCoupons ≠ 0 ∧ 4 ≤ s.lgK ∧
      ub = F.ceil (e / (1 - @cpcEps K (fieldNum F) (ubTbl s.merged) (ubDflt s.merged) s.lgK k)))) := by
  unfold cpcUpperBound at hu
  unfold cpcEstimate at he
  by_cases hk : kappaOk k = true
  · refine ⟨(kappaOk_iff k).mp hk, ?_⟩
    simp only [hk, Bool.not_true, Bool.false_eq_true, if_false] at hu
    by_cases hc : s.numCoupons = 0
    · left
      cases hm : s.merged <;> simp only [hm, Bool.not_false, Bool.not_true, if_true, Bool.false_eq_true, if_false] at hu
      · unfold hipConfidenceUb at hu; simp only [hc, if_true, Option.some.injEq, lit_eq, litK_c0] at hu; exact ⟨hc, hu.symm⟩
      · unfold iconConfidenceUb at hu; simp only [hc, if_true, Option.some.injEq, lit_eq, litK_c0] at hu; exact ⟨hc, hu.symm⟩
    · right
      cases hm : s.merged <;> simp only [hm, Bool.not_false, Bool.not_true, if_true, Bool.false_eq_true, if_false] at hu he
      · unfold hipConfidenceUb at hu
        simp only [hc, if_false, hk, Bool.not_true, Bool.false_eq_true, lit_eq, litK_c1, ceil_eq] at hu
        split at hu
        · simp at hu
        · rename_i h4
          simp only [Option.some.injEq] at hu he
          subst he
          exact ⟨hc, by omega, by simp only [ubTbl, ubDflt, Bool.false_eq_true, if_false]; exact hu.symm⟩
      · unfold iconConfidenceUb at hu
        simp only [hc, if_false, hk, Bool.not_true, Bool.false_eq_true, lit_eq, litK_c1, ceil_eq, he, Option.map_some] at hu
        split at hu
        · simp at hu
        · rename_i h4
          simp only [Option.some.injEq] at hu
          exact ⟨hc, by omega, by simp only [ubTbl, ubDflt, if_true]; exact hu.symm⟩
  · simp [hk] at hu

end DS.Bounds

/- Repaired model: the invariant holds after every history (of filters below 2^32 bits); consequences for query. -/
import DSProofs.Lemmas.BloomFixed18
namespace DS.Bloom

variable {ι : Type} [DecidableEq ι] (P : Params) (hf : ι → Nat → Option (Nat × Nat))

/-- the capacity of every filter created by the history is below 2^32 bits (the 32-bit `num_longs << 6` of the readers
does not wrap; MAX_FILTER_SIZE_BITS of the code is larger than that) -/
def Op.small : Op ι → Prop
  | .new _ nb _ _ => nb % 2 ^ 64 ≤ 2 ^ 32 - 64
  | .init _ _ nb _ _ => nb % 2 ^ 64 ≤ 2 ^ 32 - 64
  | _ => True

theorem good_step (hP : P.Wire) (w : World) (p : PGhost ι) (hg : Good P hf w p) (op : Op ι) (hs : Op.small op) :
    Good P hf (step P Fix.fixed hf w op).1 (pstep hf p w (step P Fix.fixed hf w op).1 (step P Fix.fixed hf w op).2 op) := by
  cases op with
  | new v nb nh seed => exact good_new P hf w p hg v nb nh seed hs
  | blk m len val => exact good_blk P hf w p hg m len val
  | init v m nb nh seed =>
    exact good_init P hf hP w p hg v m _ _ _ hs (Nat.mod_lt _ (by decide)) (Nat.mod_lt _ (by decide))
  | upd v x => exact good_upd P hf hP w p hg v x
  | qau v x => exact good_qau P hf hP w p hg v x
  | bits v => exact good_bits P hf w p hg v
  | reset v => exact good_reset P hf hP w p hg v
  | setop op v u => exact good_setop P hf hP w p hg op v u
  | copy v v' => exact good_copy P hf w p hg v v'
  | ser v m => exact good_ser P hf hP w p hg v m
  | wrap k m v => exact good_wrap P hf hP w p hg k m v

theorem good_prun (hP : P.Wire) (s : PWorld ι) (hg : Good P hf s.w s.p) (ops : List (Op ι)) (hs : ∀ op, op ∈ ops → Op.small op) :
    Good P hf (prun P Fix.fixed hf s ops).w (prun P Fix.fixed hf s ops).p := by
  induction ops generalizing s with
  | nil => exact hg
  | cons op t ih =>
    simp only [prun, List.foldl_cons]
    exact ih _ (good_step P hf hP s.w s.p hg op (hs op List.mem_cons_self)) (fun o ho => hs o (List.mem_cons_of_mem _ ho))

omit [DecidableEq ι] in
/-- on a promised in-sync writable view, `query_and_update` answers what `query` answers -/
theorem qau_eq_query_of_viewOK (fx : Fix) (w : World) (v : Nat) (f : Filter) (hv : w.filters v = some f) (s : SInfo ι) (i : VInfo ι)
    (hok : ViewOK P hf (keyVal w (keyOf v f)) s f i) (hw : FWF f) (hp : i.promised = true) (hin : insync s f i = true)
    (hro : f.readOnly = false) (h : Option (Nat × Nat)) :
    (opQau P fx w v h).2 = .bool (query P w f h) := by
  cases h with
  | none => simp [opQau, hv, query]
  | some h =>
    rw [opQau_answer P fx w v f hv hro h]
    by_cases he : f.isEmpty = true
    · -- the filter believes it is empty: then its bits are clear, so the bit-level answer is false too
      have hd : f.dirty = false := by
        simp only [Filter.isEmpty, Bool.and_eq_true, Bool.not_eq_true'] at he; exact he.1
      have hn : f.nbs = 0 := by
        simp only [Filter.isEmpty, Bool.and_eq_true, beq_iff_eq] at he; exact he.2
      have hex := hok.ex hp hin hd
      rw [hn, ← val_eq_keyVal w v f hv] at hex
      have hclr := popCount_eq_zero _ _ _ hex.symm _ (idx_lt h.1 h.2 f.capBits 1 hw.capPos)
      have hfalse : allSet (w.val f) (f.off P) (indices h.1 h.2 f.capBits f.numHashes) = false := by
        cases hall : allSet (w.val f) (f.off P) (indices h.1 h.2 f.capBits f.numHashes) with
        | false => rfl
        | true =>
          have := (allSet_iff _ _ _).mp hall _ (idx1_mem_indices h.1 h.2 f.capBits f.numHashes (hok.k1 hp).1)
          rw [hclr] at this; cases this
      simp [query, he, hfalse]
    · have he' : f.isEmpty = false := by simpa using he
      simp [query, he']

end DS.Bloom

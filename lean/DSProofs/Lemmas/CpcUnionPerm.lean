/- Union histories: the invariant along a list of inputs; results depend on the coupon set only (free to change). -/
import DSProofs.Lemmas.CpcUnionUpdate
namespace DS.Cpc

theorem lgKAfter_le (l : Nat) (s : Sketch) : lgKAfter l s ≤ l := by unfold lgKAfter; split <;> omega

theorem foldl_lgKAfter_le (l : Nat) (ss : List Sketch) : ss.foldl lgKAfter l ≤ l := by
  induction ss generalizing l with
  | nil => exact Nat.le_refl _
  | cons s t ih => exact Nat.le_trans (ih _) (lgKAfter_le l s)

/-- `unionLgK` is the minimum of the initial lg_k and the lg_k of the non-empty inputs -/
theorem foldl_lgKAfter_spec (l : Nat) (ss : List Sketch) :
    (∀ s ∈ ss, s.numCoupons ≠ 0 → ss.foldl lgKAfter l ≤ s.lgK) ∧
    (ss.foldl lgKAfter l = l ∨ ∃ s ∈ ss, s.numCoupons ≠ 0 ∧ ss.foldl lgKAfter l = s.lgK) := by
  induction ss generalizing l with
  | nil => simp
  | cons a t ih =>
    obtain ⟨ih1, ih2⟩ := ih (lgKAfter l a)
    simp only [List.foldl_cons]
    constructor
    · intro s hs hne
      rcases List.mem_cons.1 hs with rfl | hs
      · refine Nat.le_trans (foldl_lgKAfter_le _ t) ?_
        unfold lgKAfter; rw [if_neg hne]; omega
      · exact ih1 s hs hne
    · rcases ih2 with h | ⟨s, hs, hne, he⟩
      · by_cases h0 : a.numCoupons = 0
        · left; rw [h]; simp [lgKAfter, h0]
        · by_cases hle : l ≤ a.lgK
          · left; rw [h]; unfold lgKAfter; rw [if_neg h0]; omega
          · right; refine ⟨a, List.mem_cons_self, h0, ?_⟩
            rw [h]; unfold lgKAfter; rw [if_neg h0]; omega
      · right; exact ⟨s, List.mem_cons_of_mem _ hs, hne, he⟩

theorem uinv_foldl (T : HipTables) (inputs : List (Sketch × List Nat))
    (hin : ∀ p ∈ inputs, Inv p.1 p.2 ∧ ∀ x ∈ p.2, x < 64 * 2^p.1.lgK) (u : Union) (ys : List Nat) (h : UInv u ys) :
    let L := (inputs.map Prod.fst).foldl lgKAfter u.lgK
    let u' := (inputs.map Prod.fst).foldl (unionUpdate T) u
    u'.lgK = L ∧ UInv u' (ys.map (foldRc L) ++ inputs.flatMap (fun p => p.2.map (foldRc L))) := by
  induction inputs generalizing u ys with
  | nil =>
    simp only [List.map_nil, List.foldl_nil, List.flatMap_nil, List.append_nil, true_and]
    rw [map_foldRc_of_lt _ _ h.valid]; exact h
  | cons p t ih =>
    have hp := hin p List.mem_cons_self
    have ht : ∀ q ∈ t, Inv q.1 q.2 ∧ ∀ x ∈ q.2, x < 64 * 2^q.1.lgK := fun q hq => hin q (List.mem_cons_of_mem _ hq)
    have h1 := uinv_unionUpdate T u ys p.1 p.2 h hp.1 hp.2
    have hl1 := unionUpdate_lgK T u p.1
    have := ih ht (unionUpdate T u p.1) _ h1
    simp only [List.map_cons, List.foldl_cons, List.flatMap_cons]
    rw [hl1] at this
    refine ⟨this.1, ?_⟩
    have hle : (t.map Prod.fst).foldl lgKAfter (lgKAfter u.lgK p.1) ≤ lgKAfter u.lgK p.1 := foldl_lgKAfter_le _ _
    have key := this.2
    rw [List.map_append, List.map_map, List.map_map] at key
    have e : ∀ l : List Nat, l.map (foldRc ((t.map Prod.fst).foldl lgKAfter (lgKAfter u.lgK p.1)) ∘ foldRc (lgKAfter u.lgK p.1))
        = l.map (foldRc ((t.map Prod.fst).foldl lgKAfter (lgKAfter u.lgK p.1))) := by
      intro l
      apply List.map_congr_left
      intro x _
      exact foldRc_foldRc _ _ x hle
    rw [e, e, List.append_assoc] at key
    exact key

/-- strictly increasing lists with the same members are equal -/
theorem sorted_ext (l₁ l₂ : List Nat) (h₁ : l₁.Pairwise (· < ·)) (h₂ : l₂.Pairwise (· < ·)) (h : ∀ a, a ∈ l₁ ↔ a ∈ l₂) : l₁ = l₂ := by
  have hp : l₁.Perm l₂ := (List.perm_ext_iff_of_nodup (nodup_of_sorted h₁) (nodup_of_sorted h₂)).2 h
  have h₁' : l₁.Pairwise (fun a b => decide (a ≤ b) = true) := h₁.imp (fun hab => by simpa using Nat.le_of_lt hab)
  have h₂' : l₂.Pairwise (fun a b => decide (a ≤ b) = true) := h₂.imp (fun hab => by simpa using Nat.le_of_lt hab)
  exact List.Perm.eq_of_pairwise (le := fun a b => decide (a ≤ b))
    (by intro a b _ _ hab hba; simp at hab hba; omega) h₁' h₂' hp

/-- matrices with the same bits are equal -/
theorem mbits_ext (k : Nat) (m m' : List Nat) (ys ys' : List Nat) (h : MBits k m ys) (h' : MBits k m' ys')
    (he : ∀ a, a ∈ ys ↔ a ∈ ys') : m = m' := by
  apply List.ext_getElem
  · rw [h.len, h'.len]
  · intro i h1 h2
    have hi : i < k := by rw [← h.len]; exact h1
    have e1 : m.getD i 0 = m[i] := by simp [List.getD_eq_getElem?_getD, List.getElem?_eq_getElem h1]
    have e2 : m'.getD i 0 = m'[i] := by simp [List.getD_eq_getElem?_getD, List.getElem?_eq_getElem h2]
    rw [← e1, ← e2]
    apply Nat.eq_of_testBit_eq
    intro c
    by_cases hc : c < 64
    · rw [Bool.eq_iff_iff, h.bits i c hi hc, h'.bits i c hi hc, he]
    · rw [h.high i c hi (by omega), h'.high i c hi (by omega)]

/-- everything observable of a sketch except the HIP registers -/
def sameContent (r r' : Sketch) : Prop :=
  r.lgK = r'.lgK ∧ r.numCoupons = r'.numCoupons ∧ r.table = r'.table ∧ r.window = r'.window ∧
  r.offset = r'.offset ∧ r.fic = r'.fic ∧ r.merged = r'.merged

/-- two unions holding the same coupon set give the same result -/
theorem getResult_congr (u u' : Union) (ys ys' : List Nat) (h : UInv u ys) (h' : UInv u' ys') (hl : u.lgK = u'.lgK)
    (he : ∀ a, a ∈ ys ↔ a ∈ ys') : sameContent (getResult u) (getResult u') := by
  have hcnt : (distinct ys).length = (distinct ys').length := distinct_length_congr _ _ he
  have hk := Nat.two_pow_pos u.lgK
  unfold getResult
  cases hacc : u.acc with
  | some a =>
    obtain ⟨hal, hinv, hw⟩ := h.accCase a hacc
    have hsp := hinv.sparseC hw
    cases hacc' : u'.acc with
    | some a' =>
      obtain ⟨hal', hinv', hw'⟩ := h'.accCase a' hacc'
      simp only
      have hc : a.numCoupons = a'.numCoupons := by rw [hinv.count, hinv'.count, hcnt]
      by_cases h0 : a.numCoupons = 0
      · have h0' : a'.numCoupons = 0 := by rw [← hc]; exact h0
        simp only [h0, h0', if_true]
        rw [hl]; exact ⟨rfl, rfl, rfl, rfl, rfl, rfl, rfl⟩
      · have h0' : ¬ a'.numCoupons = 0 := by rw [← hc]; exact h0
        simp only [h0, h0', if_false]
        refine ⟨by rw [hal, hal', hl], hc, ?_, by rw [hw, hw'], ?_, ?_, rfl⟩
        · apply sorted_ext _ _ hinv.rep.sorted hinv'.rep.sorted
          intro x
          rw [sparse_table_mem a ys hinv (by rw [hal]; exact h.valid) hw,
            sparse_table_mem a' ys' hinv' (by rw [hal']; exact h'.valid) hw', he]
        · show a.offset = a'.offset
          rw [hinv.rep.sparse hw, hinv'.rep.sparse hw']
        · show a.fic = a'.fic
          have := hinv.ficLe; have := hinv'.ficLe
          have := hinv.rep.sparse hw; have := hinv'.rep.sparse hw'
          omega
    | none =>
      -- impossible: a sparse accumulator and a dense matrix cannot hold the same number of coupons
      have hm := h'.matCase hacc'
      have := hm.dense
      rw [← hl, ← hcnt, ← hinv.count, ← hal] at this
      omega
  | none =>
    have hm := h.matCase hacc
    cases hacc' : u'.acc with
    | some a' =>
      obtain ⟨hal', hinv', hw'⟩ := h'.accCase a' hacc'
      have hsp := hinv'.sparseC hw'
      have := hm.dense
      rw [hl, hcnt, ← hinv'.count, ← hal'] at this
      omega
    | none =>
      have hm' := h'.matCase hacc'
      simp only
      have : u.matrix = u'.matrix :=
        mbits_ext (2^u.lgK) _ _ ys ys' ⟨hm.len, hm.bits, hm.high⟩
          (by rw [hl]; exact ⟨hm'.len, hm'.bits, hm'.high⟩) he
      rw [this, hl]
      exact ⟨rfl, rfl, rfl, rfl, rfl, rfl, rfl⟩

end DS.Cpc

/- C19 helper lemmas shared by the class proofs: word / state views of cells, footprints, ownership bookkeeping. -/
import DSProofs.Lemmas.LifeHeap
import DSProofs.Lemmas.LifeCount
namespace DS.Life

/-! ### word / state views of a cell (defaults outside the block) -/
def wordAt (h : Heap) (b i : Nat) : Nat := match h.cell? b i with | some c => c.word | none => 0
def stAt (h : Heap) (b i : Nat) : Slot := match h.cell? b i with | some c => c.st | none => .raw

theorem wordAt_of {h : Heap} {b i : Nat} {c : Cell} (hc : h.cell? b i = some c) : wordAt h b i = c.word := by
  simp [wordAt, hc]
theorem stAt_of {h : Heap} {b i : Nat} {c : Cell} (hc : h.cell? b i = some c) : stAt h b i = c.st := by
  simp [stAt, hc]

/-- block `b` has exactly `n` cells -/
def HasCells (h : Heap) (b n : Nat) : Prop := h.count? b = some n

theorem HasCells.cell {h : Heap} {b n i : Nat} (hc : HasCells h b n) (hi : i < n) : ∃ c, h.cell? b i = some c := by
  have := (cell?_lt_count h b i n hc).2 hi
  exact Option.isSome_iff_exists.mp this

theorem HasCells.cell_st {h : Heap} {b n i : Nat} (hc : HasCells h b n) (hi : i < n) :
    ∃ c, h.cell? b i = some c ∧ c.word = wordAt h b i ∧ c.st = stAt h b i := by
  obtain ⟨c, e⟩ := hc.cell hi
  exact ⟨c, e, (wordAt_of e).symm, (stAt_of e).symm⟩

theorem HasCells.none {h : Heap} {b n i : Nat} (hc : HasCells h b n) (hi : ¬ i < n) : h.cell? b i = none := by
  have := (cell?_lt_count h b i n hc)
  cases e : h.cell? b i with
  | none => rfl
  | some c => exact absurd (this.1 (by simp [e])) hi

/-! views after the pure updates -/
theorem wordAt_setCell (h : Heap) (b i : Nat) (c : Cell) (b' j : Nat) :
    wordAt (h.setCell b i c) b' j = if b' = b ∧ j = i ∧ (h.cell? b i).isSome then c.word else wordAt h b' j := by
  unfold wordAt
  rw [cell?_setCell]
  by_cases hc : b' = b ∧ j = i ∧ (h.cell? b i).isSome <;> simp [hc]

theorem stAt_setCell (h : Heap) (b i : Nat) (c : Cell) (b' j : Nat) :
    stAt (h.setCell b i c) b' j = if b' = b ∧ j = i ∧ (h.cell? b i).isSome then c.st else stAt h b' j := by
  unfold stAt
  rw [cell?_setCell]
  by_cases hc : b' = b ∧ j = i ∧ (h.cell? b i).isSome <;> simp [hc]

@[simp] theorem wordAt_addLog (h : Heap) (e : Ev) (b i : Nat) : wordAt (h.addLog e) b i = wordAt h b i := rfl
@[simp] theorem stAt_addLog (h : Heap) (e : Ev) (b i : Nat) : stAt (h.addLog e) b i = stAt h b i := rfl

theorem HasCells_setCell {h : Heap} {b' n : Nat} (b i : Nat) (c : Cell) (hc : HasCells h b' n) :
    HasCells (h.setCell b i c) b' n := by
  simpa [HasCells] using hc

theorem HasCells_addLog {h : Heap} {b n : Nat} (e : Ev) (hc : HasCells h b n) : HasCells (h.addLog e) b n := hc


/-- footprint of a method run on an object owning `own`, started when `next = n0`: its own blocks and every
    block allocated from then on -/
def foot (own : List Nat) (n0 : Nat) : Nat → Bool := fun b => own.contains b || decide (n0 ≤ b)

theorem foot_own {own : List Nat} {n0 b : Nat} (hb : b ∈ own) : foot own n0 b = true := by
  simp [foot, hb]

theorem foot_new {own : List Nat} {n0 b : Nat} (hb : n0 ≤ b) : foot own n0 b = true := by
  simp [foot, hb]

/-- views of a freshly allocated block -/
theorem afterAlloc_views (h : Heap) (k : Kind) (n : Nat) :
    HasCells (h.afterAlloc k n) h.next n ∧ (∀ i, i < n → stAt (h.afterAlloc k n) h.next i = .raw) := by
  refine ⟨by simp [HasCells, count?_afterAlloc], ?_⟩
  intro i hi
  simp [stAt, cell?_afterAlloc, hi]

theorem wordAt_afterAlloc_ne {h : Heap} {k : Kind} {n b i : Nat} (hb : b ≠ h.next) :
    wordAt (h.afterAlloc k n) b i = wordAt h b i := by
  simp [wordAt, cell?_afterAlloc, hb]

theorem stAt_afterAlloc_ne {h : Heap} {k : Kind} {n b i : Nat} (hb : b ≠ h.next) :
    stAt (h.afterAlloc k n) b i = stAt h b i := by
  simp [stAt, cell?_afterAlloc, hb]

theorem HasCells_afterAlloc_ne {h : Heap} {k : Kind} {n b m : Nat} (hb : b ≠ h.next) (hc : HasCells h b m) :
    HasCells (h.afterAlloc k n) b m := by
  simpa [HasCells, count?_afterAlloc, hb] using hc


/-- views after a block was freed -/
theorem wordAt_afterFree_ne {h : Heap} {b : Nat} {k : Kind} {n b' i : Nat} (hb : b' ≠ b) :
    wordAt (h.afterFree b k n) b' i = wordAt h b' i := by
  simp [wordAt, cell?_afterFree, hb]

theorem stAt_afterFree_ne {h : Heap} {b : Nat} {k : Kind} {n b' i : Nat} (hb : b' ≠ b) :
    stAt (h.afterFree b k n) b' i = stAt h b' i := by
  simp [stAt, cell?_afterFree, hb]

theorem HasCells_afterFree_ne {h : Heap} {b : Nat} {k : Kind} {n b' m : Nat} (hb : b' ≠ b) (hc : HasCells h b' m) :
    HasCells (h.afterFree b k n) b' m := by
  simpa [HasCells, count?_afterFree, hb] using hc

/-- ownership bookkeeping of a method: the blocks of the heap afterwards are those that were there and did not
    belong to the object(s) worked on, plus the blocks the resulting object(s) own; what is owned afterwards was
    owned before or is new -/
structure Owns (h' : Heap) (ids0 own0 own' : List Nat) (n0 : Nat) : Prop where
  ids : ∀ b, b ∈ h'.ids ↔ ((b ∈ ids0 ∧ b ∉ own0) ∨ b ∈ own')
  fresh : ∀ b, b ∈ own' → b ∈ own0 ∨ n0 ≤ b

end DS.Life

/- The candidate-set loop of the VarOpt update (`grow_candidate_set` + `downsample_candidate_set`) on the Rat
   instance: the mid-update invariant `Mid` and what holds when the loop exits. -/
import DSModel.VarOpt.Sketch
import DSProofs.Lemmas.VarOptHeap
namespace DS.VarOpt
open DS

/-- total weight of a list of entries -/
def sumW : List E → Rat
  | [] => 0
  | e :: t => e.wt + sumW t

theorem sumW_append (a b : List E) : sumW (a ++ b) = sumW a + sumW b := by
  induction a with
  | nil => simp [sumW]
  | cons e t ih => simp [sumW, ih]; ring

theorem sumW_perm {a b : List E} (h : a.Perm b) : sumW a = sumW b := by
  induction h with
  | nil => rfl
  | cons x _ ih => simp [sumW, ih]
  | swap x y l => simp [sumW]; ring
  | trans _ _ ih1 ih2 => exact ih1.trans ih2

theorem sumW_pos {l : List E} (hne : l ≠ []) (hpos : ∀ e ∈ l, 0 < e.wt) : 0 < sumW l := by
  induction l with
  | nil => exact absurd rfl hne
  | cons e t ih =>
    simp only [sumW]
    have he := hpos e (by simp)
    by_cases ht : t = []
    · subst ht; simpa [sumW] using he
    · have := ih ht (fun x hx => hpos x (by simp [hx]))
      linarith

theorem sumW_nonneg {l : List E} (hpos : ∀ e ∈ l, 0 < e.wt) : 0 ≤ sumW l := by
  by_cases h : l = []
  · subst h; simp [sumW]
  · exact le_of_lt (sumW_pos h hpos)

/-- number of marked entries -/
def countMarks (l : List E) : Nat := (l.filter (·.mark)).length

theorem countMarks_perm {a b : List E} (h : a.Perm b) : countMarks a = countMarks b :=
  (h.filter _).length_eq

theorem countMarks_cons (e : E) (t : List E) : countMarks (e :: t) = (if e.mark then 1 else 0) + countMarks t := by
  unfold countMarks
  by_cases h : e.mark <;> simp [List.filter, h]; omega

/-- the counter `num_marks_in_h_` agrees with the marks stored in H; a non-gadget stores no marks -/
def MarksOK (g : Bool) (nm : Nat) (H : List E) : Prop :=
  nm = countMarks H ∧ (g = false → ∀ e ∈ H, e.mark = false)

theorem wtAt_zero_cons (e : E) (t : List E) : wtAt (e :: t) 0 = e.wt := by simp [wtAt]

/-- State in the middle of an update: H heap, M the explicit-weight candidates, R the reservoir (absorbed
    inputs `L`, total weight `sumW L`), `wt`/`nc` weight and number of candidates; `W0/r0` the tau before. -/
structure Mid (H M L : List E) (R : List Int) (k : Nat) (wt : Rat) (nc : Nat) (W0 : Rat) (r0 : Nat)
    (ins : List E) : Prop where
  heap : IsHeap H
  perm : ins.Perm (H ++ (M ++ L))
  nc_eq : nc = M.length + R.length
  nc2 : 2 ≤ nc
  cnt : H.length + nc = k + 1
  wt_eq : wt = sumW M + sumW L
  rItems : ∀ x ∈ R, ∃ e ∈ L, e.item = x
  rLen : R.length ≤ L.length
  mLight : ∀ m ∈ M, m.wt * ((nc : Rat) - 1) < wt
  mLeH : ∀ m ∈ M, ∀ e ∈ H, m.wt ≤ e.wt
  r0pos : 0 < r0
  lLight : ∀ e ∈ L, e.wt * (r0 : Rat) ≤ W0
  hHeavy : ∀ e ∈ H, W0 ≤ e.wt * (r0 : Rat)
  tauMono : W0 * ((nc : Rat) - 1) ≤ wt * (r0 : Rat)
  pos : ∀ e ∈ ins, 0 < e.wt

theorem growLoop_spec (g : Bool) {L : List E} {R : List Int} {k : Nat} {W0 : Rat} {r0 : Nat} {ins : List E}
    (fuel : Nat) : ∀ (H M : List E) (nm : Nat) (wt : Rat) (nc : Nat), H.length ≤ fuel →
    Mid H M L R k wt nc W0 r0 ins → MarksOK g nm H →
    ∃ H' M' nm' wt' nc', growLoop g fuel H M nm wt nc = (H', M', nm', wt', nc') ∧
      Mid H' M' L R k wt' nc' W0 r0 ins ∧ MarksOK g nm' H' ∧
      (∀ e ∈ H', wt' ≤ e.wt * ((nc' : Rat) - 1)) := by
  induction fuel with
  | zero =>
    intro H M nm wt nc hlen hmid hmk
    have : H = [] := List.eq_nil_of_length_eq_zero (by omega)
    subst this
    exact ⟨[], M, nm, wt, nc, by simp [growLoop], hmid, hmk, by simp⟩
  | succ f ih =>
    intro H M nm wt nc hlen hmid hmk
    cases H with
    | nil => exact ⟨[], M, nm, wt, nc, by simp [growLoop], hmid, hmk, by simp⟩
    | cons root t =>
      have hnc : (2 : Rat) ≤ (nc : Rat) := by exact_mod_cast hmid.nc2
      have hroot_min : ∀ e ∈ root :: t, root.wt ≤ e.wt := by
        intro e he
        have := heap_root_min hmid.heap he
        rwa [wtAt_zero_cons] at this
      by_cases hc : root.wt * (nc : Rat) < wt + root.wt
      · -- the root is light enough: it joins the candidates
        have hpp := heapPopRest_perm (root :: t) root t rfl
        have hstep : growLoop g (f + 1) (root :: t) M nm wt nc =
            growLoop g f (heapPopRest (root :: t)) (root :: M) (if g && root.mark then nm - 1 else nm) (wt + root.wt) (nc + 1) := by
          simp [growLoop, hc]
        rw [hstep]
        apply ih
        · rw [heapPopRest_length]; simp only [List.length_cons] at hlen ⊢; omega
        · have hsub : ∀ e ∈ heapPopRest (root :: t), e ∈ root :: t := fun e he => hpp.subset (List.mem_cons_of_mem _ he)
          have hnc2 := hmid.nc2
          refine { heap := heapPopRest_heap _ hmid.heap, perm := ?_, nc_eq := ?_, nc2 := by omega, cnt := ?_, wt_eq := ?_,
                   rItems := hmid.rItems, rLen := hmid.rLen, mLight := ?_, mLeH := ?_, r0pos := hmid.r0pos,
                   lLight := hmid.lLight, hHeavy := fun e he => hmid.hHeavy e (hsub e he), tauMono := ?_, pos := hmid.pos }
          · refine hmid.perm.trans ?_
            have h1 : (root :: t ++ (M ++ L)).Perm ((root :: heapPopRest (root :: t)) ++ (M ++ L)) :=
              List.Perm.append_right _ hpp.symm
            refine h1.trans ?_
            simp only [List.cons_append]
            exact List.perm_middle.symm
          · have := hmid.nc_eq; simp; omega
          · have := hmid.cnt; rw [heapPopRest_length]; simp at this ⊢; omega
          · rw [hmid.wt_eq]; simp [sumW]; ring
          · intro m hm
            push_cast
            rcases List.mem_cons.mp hm with rfl | hm'
            · linarith
            · have h1 : m.wt ≤ root.wt := hmid.mLeH m hm' root (by simp)
              have h2 : m.wt * (nc : Rat) ≤ root.wt * (nc : Rat) := mul_le_mul_of_nonneg_right h1 (by linarith)
              linarith
          · intro m hm e he
            rcases List.mem_cons.mp hm with rfl | hm'
            · exact hroot_min e (hsub e he)
            · exact hmid.mLeH m hm' e (hsub e he)
          · push_cast
            have h1 := hmid.tauMono
            have h2 := hmid.hHeavy root (by simp)
            linarith
        · -- marks counter
          obtain ⟨hcnt, hng⟩ := hmk
          have hcm : countMarks (root :: t) = (if root.mark then 1 else 0) + countMarks (heapPopRest (root :: t)) := by
            rw [← countMarks_cons]; exact (countMarks_perm hpp).symm
          constructor
          · cases g with
            | false =>
              have hrm : root.mark = false := hng rfl root (by simp)
              simp [hrm] at hcm ⊢
              omega
            | true =>
              by_cases hrm : root.mark <;> simp [hrm] at hcm ⊢ <;> omega
          · intro hg e he
            exact hng hg e (hpp.subset (List.mem_cons_of_mem _ he))
      · -- the loop stops here
        refine ⟨root :: t, M, nm, wt, nc, by simp [growLoop, hc], hmid, hmk, ?_⟩
        intro e he
        have h1 := hroot_min e he
        have h2 : wt ≤ root.wt * ((nc : Rat) - 1) := by
          have := not_lt.mp hc
          linarith
        have h3 : root.wt * ((nc : Rat) - 1) ≤ e.wt * ((nc : Rat) - 1) := mul_le_mul_of_nonneg_right h1 (by linarith)
        linarith

end DS.VarOpt

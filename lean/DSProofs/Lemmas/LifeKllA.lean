/- C19, KLL sketch part 1: ownership, invariants (`Inv`, `Usable`), locality, capacity arithmetic, and small
   range lemmas (destroy a range, copy a range, move-construct a range). -/
import DSProofs.Lemmas.LifeKllAux
namespace DS.Life.Kll
open DS.Life

/-! ### definitions -/

def owned (s : Sketch) : List Nat := s.self :: (s.items.toList ++ s.view.toList)

/-- side conditions on the tunables: compaction always removes at least one item (`m ≥ 2`), and the initial
    capacity is `k` (`m ≤ MIN_K`) -/
def Params.OK (P : Params) : Prop := 2 ≤ P.defaultM ∧ P.defaultM ≤ P.minK

/-- pure bookkeeping of `levels_`, `num_levels_`, `items_size_` -/
structure LevelsOK (k m numLevels : Nat) (levels : List Nat) (itemsSize : Nat) : Prop where
  nl : 1 ≤ numLevels
  len : levels.length = numLevels + 1
  mono : ∀ i, i < numLevels → levels.getD i 0 ≤ levels.getD (i + 1) 0
  top : levels.getD numLevels 0 = itemsSize
  cap : itemsSize = computeTotalCapacity k m numLevels

/-- the items block: `size` cells, raw below `l0`, holding objects from `l0` on -/
structure ItemsAt (h : Heap) (b l0 size : Nat) : Prop where
  cells : HasCells h b size
  raw : ∀ i, i < l0 → stAt h b i = .raw
  nonraw : ∀ i, l0 ≤ i → i < size → stAt h b i ≠ .raw

/-- enough to destroy the object or to assign to it (also holds of a moved-from sketch) -/
structure Inv (P : Params) (h : Heap) (s : Sketch) : Prop where
  m_eq : s.m = P.defaultM
  self_cells : HasCells h s.self 2
  self_lt : s.self < h.next
  view_ok : ∀ v, s.view = some v → HasCells h v 1 ∧ stAt h v 0 = .raw ∧ v < h.next ∧ v ≠ s.self
  items_ok : ∀ b, s.items = some b →
    LevelsOK s.k s.m s.numLevels s.levels s.itemsSize ∧ ItemsAt h b (s.levels.getD 0 0) s.itemsSize ∧
    b < h.next ∧ b ≠ s.self ∧ s.view ≠ some b

/-- safe to use: the items block exists, every retained item and engaged min/max is live -/
structure Usable (P : Params) (h : Heap) (s : Sketch) : Prop where
  toInv : Inv P h s
  items : ∃ b, s.items = some b ∧ ∀ i, s.levels.getD 0 0 ≤ i → i < s.itemsSize → ∃ v, stAt h b i = .live v
  mm0 : s.n = 0 → stAt h s.self 0 = .raw ∧ stAt h s.self 1 = .raw
  mm1 : s.n ≠ 0 → (∃ v, stAt h s.self 0 = .live v) ∧ (∃ v, stAt h s.self 1 = .live v)
  ret : s.n ≠ 0 → s.levels.getD 0 0 < s.itemsSize
  wt : sumSampleWeights s.numLevels s.levels = s.n
  pw : s.numLevels = 1 ∨ 2 ^ (s.numLevels - 1) ≤ s.n

theorem Usable.inv {P : Params} {h : Heap} {s : Sketch} (u : Usable P h s) : Inv P h s := u.toInv

/-! ### locality -/

theorem ItemsAt.transfer {h h' : Heap} {b l0 size : Nat} (so : SameOn h h' b) (i : ItemsAt h b l0 size) :
    ItemsAt h' b l0 size :=
  ⟨so.cells _ i.cells, fun j hj => by rw [so.st]; exact i.raw j hj, fun j h1 h2 => by rw [so.st]; exact i.nonraw j h1 h2⟩

theorem mem_owned {s : Sketch} {b : Nat} : b ∈ owned s ↔ b = s.self ∨ s.items = some b ∨ s.view = some b := by
  unfold owned
  cases s.items <;> cases s.view <;> simp [eq_comm]

theorem Inv.transfer {P : Params} {h h' : Heap} {s : Sketch} (so : ∀ b, b ∈ owned s → SameOn h h' b)
    (hn : h.next ≤ h'.next) (i : Inv P h s) : Inv P h' s := by
  refine ⟨i.m_eq, (so _ (mem_owned.2 (Or.inl rfl))).cells _ i.self_cells, by have := i.self_lt; omega, ?_, ?_⟩
  · intro v hv
    obtain ⟨a, b, c, d⟩ := i.view_ok v hv
    have sv := so v (mem_owned.2 (Or.inr (Or.inr hv)))
    exact ⟨sv.cells _ a, by rw [sv.st]; exact b, by omega, d⟩
  · intro b hb
    obtain ⟨a, c, d, e, f⟩ := i.items_ok b hb
    exact ⟨a, c.transfer (so b (mem_owned.2 (Or.inr (Or.inl hb)))), by omega, e, f⟩

theorem Usable.transfer {P : Params} {h h' : Heap} {s : Sketch} (so : ∀ b, b ∈ owned s → SameOn h h' b)
    (hn : h.next ≤ h'.next) (u : Usable P h s) : Usable P h' s := by
  have ss := so _ (mem_owned.2 (Or.inl rfl))
  refine ⟨u.toInv.transfer so hn, ?_, ?_, ?_, u.ret, u.wt, u.pw⟩
  · obtain ⟨b, hb, hl⟩ := u.items
    refine ⟨b, hb, fun j h1 h2 => ?_⟩
    rw [(so b (mem_owned.2 (Or.inr (Or.inl hb)))).st]
    exact hl j h1 h2
  · intro h0; rw [ss.st, ss.st]; exact u.mm0 h0
  · intro h0; rw [ss.st, ss.st]; exact u.mm1 h0

theorem Inv.local {P : Params} {h h' : Heap} {s : Sketch} (e : ∀ b, b ∈ owned s → h'.find? b = h.find? b)
    (hn : h.next ≤ h'.next) (i : Inv P h s) : Inv P h' s :=
  i.transfer (fun b hb => SameOn.of_find? (e b hb)) hn

theorem Usable.local {P : Params} {h h' : Heap} {s : Sketch} (e : ∀ b, b ∈ owned s → h'.find? b = h.find? b)
    (hn : h.next ≤ h'.next) (u : Usable P h s) : Usable P h' s :=
  u.transfer (fun b hb => SameOn.of_find? (e b hb)) hn

theorem Inv.owned_ids {P : Params} {h : Heap} {s : Sketch} (i : Inv P h s) :
    ∀ b, b ∈ owned s → b ∈ h.ids ∧ b < h.next := by
  intro b hb
  rcases mem_owned.1 hb with rfl | hb | hb
  · exact ⟨mem_ids_of_HasCells i.self_cells, i.self_lt⟩
  · obtain ⟨_, c, d, _, _⟩ := i.items_ok b hb
    exact ⟨mem_ids_of_HasCells c.cells, d⟩
  · obtain ⟨a, _, c, _⟩ := i.view_ok b hb
    exact ⟨mem_ids_of_HasCells a, c⟩

/-! ### monotone levels -/

theorem LevelsOK.le_of_le {k m nl : Nat} {ls : List Nat} {sz : Nat} (l : LevelsOK k m nl ls sz) :
    ∀ j i, i ≤ j → j ≤ nl → ls.getD i 0 ≤ ls.getD j 0 := by
  intro j
  induction j with
  | zero => intro i hi _; have : i = 0 := by omega
            subst this; exact Nat.le_refl _
  | succ j ih =>
    intro i hi hj
    by_cases e : i = j + 1
    · subst e; exact Nat.le_refl _
    · exact Nat.le_trans (ih i (by omega) (by omega)) (l.mono j (by omega))

theorem LevelsOK.le_top {k m nl : Nat} {ls : List Nat} {sz : Nat} (l : LevelsOK k m nl ls sz) (i : Nat) (hi : i ≤ nl) :
    ls.getD i 0 ≤ sz := by
  rw [← l.top]; exact l.le_of_le nl i hi (Nat.le_refl _)

/-! ### capacities -/

theorem foldl_add_init (l : List Nat) (a : Nat) : l.foldl (· + ·) a = a + l.foldl (· + ·) 0 := by
  induction l generalizing a with
  | nil => simp
  | cons x xs ih =>
    simp only [List.foldl_cons]
    rw [ih (a + x), ih (0 + x)]
    omega

theorem computeTotalCapacity_succ (k m n : Nat) :
    computeTotalCapacity k m (n + 1) = computeTotalCapacity k m n + levelCapacity k (n + 1) 0 m := by
  unfold computeTotalCapacity
  rw [List.range_succ_eq_map, List.map_cons, List.foldl_cons, foldl_add_init, List.map_map]
  have : (fun h => levelCapacity k (n + 1) h m) ∘ Nat.succ = fun h => levelCapacity k n h m := by
    funext h
    simp only [Function.comp, levelCapacity]
    have : n + 1 - h.succ - 1 = n - h - 1 := by omega
    rw [this]
  rw [this]
  omega

theorem computeTotalCapacity_one (k m : Nat) (hm : m ≤ k) : computeTotalCapacity k m 1 = k := by
  simp [computeTotalCapacity, levelCapacity, intCapAux, intCapAuxAux, List.range_succ]
  omega

theorem levelCapacity_ge (k n h m : Nat) : m ≤ levelCapacity k n h m := by
  unfold levelCapacity; exact Nat.le_max_left _ _


/-! ### alloc / dealloc in `SameOn` form -/

theorem vstep_alloc' {β} {S} {h : Heap} (k : Kind) (n : Nat) {f : Nat → M β} {Q : β → Heap → Prop}
    (hS : S h.next = true)
    (s : ∀ h', HasCells h' h.next n → (∀ i, i < n → stAt h' h.next i = .raw) →
          (∀ b, b ≠ h.next → SameOn h h' b) → h'.ids = h.next :: h.ids → h'.next = h.next + 1 →
          SafeF S h' (f h.next h') Q) :
    SafeF S h ((alloc k n >>= f) h) Q := by
  apply vstep_alloc k n hS
  intro h' hc hr hv hcs hid hnx
  exact s h' hc hr (fun b hb => ⟨fun j => (hv b j hb).2, fun m x => hcs b m hb x⟩) hid hnx

theorem vstep_dealloc' {β} {S} {h : Heap} {b n : Nat} {f : Unit → M β} {Q : β → Heap → Prop}
    (hc : HasCells h b n) (hr : ∀ i, i < n → stAt h b i = .raw) (hS : S b = true)
    (s : ∀ h', (∀ b', b' ≠ b → SameOn h h' b') → h'.ids = h.ids.filter (fun x => x != b) → h'.next = h.next →
          SafeF S h' (f () h') Q) :
    SafeF S h ((dealloc b n >>= f) h) Q := by
  apply vstep_dealloc hc hr hS
  intro h' hv hcs hid hnx
  exact s h' (fun b' hb => ⟨fun j => (hv b' j hb).2, fun m x => hcs b' m hb x⟩) hid hnx

/-! ### loops over a range of one block -/

/-- destroy every object of `[start, start + cnt)` -/
theorem vstep_destroyRange {β} {S} {h : Heap} {b n start cnt : Nat} {f : Unit → M β} {Q : β → Heap → Prop}
    (hc : HasCells h b n) (hle : start + cnt ≤ n) (hnr : ∀ j, start ≤ j → j < start + cnt → stAt h b j ≠ .raw)
    (hS : S b = true)
    (s : ∀ h', SameBut h h' (fun b' j => b' = b ∧ start ≤ j ∧ j < start + cnt) →
          (∀ j, start ≤ j → j < start + cnt → stAt h' b j = .raw) → SafeF S h' (f () h') Q) :
    SafeF S h ((loopUp (fun i => destroy b i) cnt start >>= f) h) Q := by
  have loop := TripleS.loopUp (n0 := 0) (S := S)
    (fun k h' => SameBut h h' (fun b' j => b' = b ∧ start ≤ j ∧ j < k) ∧ ∀ j, start ≤ j → j < k → stAt h' b j = .raw)
    (fun i => destroy b i) cnt start ?_
  · apply SafeF.bind_triple loop (Nat.zero_le _) ⟨SameBut.refl _ _, fun j h1 h2 => by omega⟩
    intro _ h1 ⟨sb, hr⟩ _
    exact s h1 sb hr
  · intro i hi1 hi2 h' _ ⟨sb, hr⟩
    apply SafeF.last
    have hst : stAt h' b i = stAt h b i := sb.st b i (fun x => by omega)
    apply vstep_destroy (sb.cells _ _ hc) (by omega) (by rw [hst]; exact hnr i hi1 hi2) hS
    intro h2 sb2 _ hs2
    apply SafeF.pure
    refine ⟨sb.trans sb2 (fun _ _ x => ⟨x.1, x.2.1, by omega⟩) (fun _ _ x => ⟨x.1, by omega, by omega⟩), ?_⟩
    intro j h1 h2
    by_cases hji : j = i
    · subst hji; exact hs2
    · rw [sb2.st b j (fun x => hji x.2)]; exact hr j h1 (by omega)

/-- read every object of `[start, start + cnt)` -/
theorem vstep_readRange {β} {S} {h : Heap} {b n start cnt : Nat} {f : Unit → M β} {Q : β → Heap → Prop}
    (hc : HasCells h b n) (hle : start + cnt ≤ n) (hl : ∀ j, start ≤ j → j < start + cnt → ∃ v, stAt h b j = .live v)
    (s : SafeF S h (f () h) Q) :
    SafeF S h ((loopUp (fun i => do let _ ← read b i; Pure.pure ()) cnt start >>= f) h) Q := by
  have loop := TripleS.loopUp (n0 := 0) (S := S) (fun _ h' => h' = h)
    (fun i => do let _ ← read b i; Pure.pure ()) cnt start ?_
  · apply SafeF.bind_triple loop (Nat.zero_le _) rfl
    intro _ h1 e _
    subst e; exact s
  · intro i hi1 hi2 h' _ e
    subst e
    obtain ⟨v, hv⟩ := hl i hi1 hi2
    apply vstep_read hc (by omega) hv
    apply SafeF.pure
    rfl

/-- copy-construct `db[i]` from `sb[g i]` for `i ∈ [start, start + cnt)` -/
theorem vstep_copyRange {β} {S} {h : Heap} {sb sn db dn start cnt : Nat} (g : Nat → Nat) {f : Unit → M β}
    {Q : β → Heap → Prop}
    (hcs : HasCells h sb sn) (hcd : HasCells h db dn) (hne : sb ≠ db) (hle : start + cnt ≤ dn)
    (hsrc : ∀ j, start ≤ j → j < start + cnt → g j < sn ∧ ∃ v, stAt h sb (g j) = .live v)
    (hraw : ∀ j, start ≤ j → j < start + cnt → stAt h db j = .raw) (hS : S db = true)
    (s : ∀ h', SameBut h h' (fun b' j => b' = db ∧ start ≤ j ∧ j < start + cnt) →
          (∀ j, start ≤ j → j < start + cnt → ∃ v, stAt h' db j = .live v) → SafeF S h' (f () h') Q) :
    SafeF S h ((loopUp (fun i => copyConstruct sb (g i) db i) cnt start >>= f) h) Q := by
  have loop := TripleS.loopUp (n0 := 0) (S := S)
    (fun k h' => SameBut h h' (fun b' j => b' = db ∧ start ≤ j ∧ j < k) ∧
      ∀ j, start ≤ j → j < k → ∃ v, stAt h' db j = .live v)
    (fun i => copyConstruct sb (g i) db i) cnt start ?_
  · apply SafeF.bind_triple loop (Nat.zero_le _) ⟨SameBut.refl _ _, fun j h1 h2 => by omega⟩
    intro _ h1 ⟨sb1, hr⟩ _
    exact s h1 sb1 hr
  · intro i hi1 hi2 h' _ ⟨sb1, hr⟩
    apply SafeF.last
    obtain ⟨hg, v, hv⟩ := hsrc i hi1 hi2
    have hsv : stAt h' sb (g i) = .live v := by rw [sb1.st sb (g i) (fun x => hne x.1)]; exact hv
    have hrw : stAt h' db i = .raw := by rw [sb1.st db i (fun x => by omega)]; exact hraw i hi1 hi2
    apply vstep_copyConstruct (sb1.cells _ _ hcs) hg hsv (sb1.cells _ _ hcd) (by omega) hrw hS
    intro h2 sb2 hs2
    apply SafeF.pure
    refine ⟨sb1.trans sb2 (fun _ _ x => ⟨x.1, x.2.1, by omega⟩) (fun _ _ x => ⟨x.1, by omega, by omega⟩), ?_⟩
    intro j h1 h2
    by_cases hji : j = i
    · subst hji; exact ⟨v, hs2⟩
    · rw [sb2.st db j (fun x => hji x.2)]; exact hr j h1 (by omega)

/-- `move_construct(src, first, last, dst, dst_first, destroy = true)` -/
theorem vstep_moveConstructRange {β} {S} {h : Heap} {sb sn db dn first last dstFirst : Nat} {f : Unit → M β}
    {Q : β → Heap → Prop}
    (hcs : HasCells h sb sn) (hcd : HasCells h db dn) (hne : sb ≠ db) (hfl : first ≤ last) (hls : last ≤ sn)
    (hld : dstFirst + (last - first) ≤ dn)
    (hsrc : ∀ j, first ≤ j → j < last → ∃ v, stAt h sb j = .live v)
    (hraw : ∀ j, dstFirst ≤ j → j < dstFirst + (last - first) → stAt h db j = .raw)
    (hSs : S sb = true) (hSd : S db = true)
    (s : ∀ h', SameBut h h' (fun b' j => (b' = sb ∧ first ≤ j ∧ j < last) ∨
                                        (b' = db ∧ dstFirst ≤ j ∧ j < dstFirst + (last - first))) →
          (∀ j, first ≤ j → j < last → stAt h' sb j = .raw) →
          (∀ j, dstFirst ≤ j → j < dstFirst + (last - first) → ∃ v, stAt h' db j = .live v) →
          SafeF S h' (f () h') Q) :
    SafeF S h ((moveConstructRange sb first last db dstFirst >>= f) h) Q := by
  unfold moveConstructRange
  have hne' : db ≠ sb := fun e => hne e.symm
  have loop := TripleS.loopUp (n0 := 0) (S := S)
    (fun k h' => SameBut h h' (fun b' j => (b' = sb ∧ first ≤ j ∧ j < k) ∨
                                        (b' = db ∧ dstFirst ≤ j ∧ j < dstFirst + (k - first))) ∧
      (∀ j, first ≤ j → j < k → stAt h' sb j = .raw) ∧
      (∀ j, dstFirst ≤ j → j < dstFirst + (k - first) → ∃ v, stAt h' db j = .live v))
    (fun i => do moveConstruct sb i db (dstFirst + (i - first)); destroy sb i) (last - first) first ?_
  · apply SafeF.bind_triple loop (Nat.zero_le _)
      ⟨SameBut.refl _ _, fun j h1 h2 => by omega, fun j h1 h2 => by omega⟩
    intro _ h1 ⟨sb1, hr, hl⟩ _
    have e : first + (last - first) = last := by omega
    rw [e] at sb1 hr hl
    exact s h1 sb1 hr hl
  · intro i hi1 hi2 h' _ ⟨sb1, hr, hl⟩
    obtain ⟨v, hv⟩ := hsrc i hi1 (by omega)
    have hsv : stAt h' sb i = .live v := by
      rw [sb1.st sb i (fun x => by rcases x with x | x; omega; exact hne x.1)]; exact hv
    have hrw : stAt h' db (dstFirst + (i - first)) = .raw := by
      rw [sb1.st db _ (fun x => by rcases x with x | x; exact hne' x.1; omega)]
      exact hraw _ (by omega) (by omega)
    apply vstep_moveConstruct (sb1.cells _ _ hcs) (by omega) hsv (sb1.cells _ _ hcd) (by omega) hrw hSs hSd
    intro h2 sb2 hd2 hs2
    apply SafeF.last
    apply vstep_destroy (sb2.cells _ _ (sb1.cells _ _ hcs)) (by omega) (by rw [hs2]; simp) hSs
    intro h3 sb3 _ hs3
    apply SafeF.pure
    have sb23 : SameBut h' h3 (fun b' j => (b' = sb ∧ j = i) ∨ (b' = db ∧ j = dstFirst + (i - first))) :=
      sb2.trans sb3 (fun _ _ x => x) (fun _ _ x => Or.inl x)
    refine ⟨sb1.trans sb23 ?_ ?_, ?_, ?_⟩
    · intro p q x
      rcases x with x | x
      · exact Or.inl ⟨x.1, x.2.1, by omega⟩
      · exact Or.inr ⟨x.1, x.2.1, by omega⟩
    · intro p q x
      rcases x with x | x
      · exact Or.inl ⟨x.1, by omega, by omega⟩
      · exact Or.inr ⟨x.1, by omega, by omega⟩
    · intro j h1 h2
      by_cases hji : j = i
      · subst hji; exact hs3
      · rw [sb23.st sb j (fun x => by rcases x with x | x; exact hji x.2; exact hne x.1)]
        exact hr j h1 (by omega)
    · intro j h1 h2
      by_cases hji : j = dstFirst + (i - first)
      · subst hji
        exact ⟨v, by rw [sb3.st db _ (fun x => hne' x.1)]; exact hd2⟩
      · rw [sb23.st db j (fun x => by rcases x with x | x; exact hne' x.1; exact hji x.2)]
        exact hl j h1 (by omega)

/-! ### sorted view -/

theorem vstep_resetSortedView {β} {S} {h : Heap} {s : Sketch} {f : Sketch → M β} {Q : β → Heap → Prop}
    (hv : ∀ v, s.view = some v → HasCells h v 1 ∧ stAt h v 0 = .raw ∧ S v = true)
    (k : ∀ h', (∀ b, s.view ≠ some b → SameOn h h' b) → h'.ids = h.ids.filter (fun x => s.view != some x) →
          h'.next = h.next → SafeF S h' (f { s with view := none } h') Q) :
    SafeF S h ((resetSortedView s >>= f) h) Q := by
  obtain ⟨self, kk, m, minK, nl, srt, n, ls, items, sz, view⟩ := s
  unfold resetSortedView
  cases view with
  | none =>
    simp only
    apply k h (fun b _ => SameOn.refl _ _) ?_ rfl
    exact (List.filter_eq_self.2 (fun a _ => by simp)).symm
  | some v =>
    simp only [M.bind_assoc]
    obtain ⟨hc, hr, hS⟩ := hv v rfl
    apply vstep_dealloc' hc (fun i hi => by have : i = 0 := by omega
                                            subst this; exact hr) hS
    intro h' so hid hnx
    apply k h' (fun b hb => so b (fun e => hb (by simp [e]))) ?_ hnx
    rw [hid]
    apply List.filter_congr
    intro x _
    by_cases hx : x = v
    · subst hx; simp
    · have : ¬ (v = x) := fun e => hx e.symm
      have a : (x != v) = true := by simp [hx]
      have b : ((some v : Option Nat) != some x) = true := by simp [this]
      rw [a, b]

end DS.Life.Kll

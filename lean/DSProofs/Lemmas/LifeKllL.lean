/- C19, KLL sketch part 12: `merge` cut into tails; the level-zero loop. -/
import DSProofs.Lemmas.LifeKllK
namespace DS.Life.Kll
open DS.Life

/-- the end of `merge`: `n_`, `min_k_`, the weight check, `reset_sorted_view` -/
def mergeFinish (o : Sketch) (finalN : Nat) (x : Sketch × List Bool) : M (Sketch × List Bool) :=
  match x with
  | (s, coins) =>
    let s := { s with n := finalN, minK := if o.numLevels > 1 then min s.minK o.minK else s.minK }
    if sumSampleWeights s.numLevels s.levels ≠ s.n then throwExc "Total weight does not match N" else do
    let s ← resetSortedView s
    pure (s, coins)

/-- one iteration of the level-zero loop of `merge` -/
def mergeStep (byMove : Bool) (oi : Nat) (i : Nat) (acc : Sketch × List Bool) : M (Sketch × List Bool) := do
  let (s', index, coins') ← internalUpdate acc.1 acc.2
  let items ← deref s'.items
  fwdConstruct byMove oi i items index
  pure (s', coins')

/-- `merge` after the min/max update -/
def mergeTail (s o : Sketch) (byMove : Bool) (coins : List Bool) : M (Sketch × List Bool) := do
  let finalN := s.n + o.n
  let ol0 ← lv o.levels 0
  let ol1 ← lv o.levels 1
  let oi ← deref o.items
  let (s, coins) ← foldUp (mergeStep byMove oi) (ol1 - ol0) ol0 (s, coins)
  if o.numLevels ≥ 2 then do
    let x ← mergeHigherLevels s o false finalN coins
    mergeFinish o finalN x
  else do
    let x ← pure (s, coins)
    mergeFinish o finalN x

/-- `merge` after the minimum was updated -/
def mergeMax (s o : Sketch) (byMove : Bool) (coins : List Bool) : M (Sketch × List Bool) := do
  let mx ← read s.self 1
  let omx ← read o.self 1
  if mx < omx then do
    let _ ← (if byMove then moveAssignSlot o.self 1 s.self 1 else copyAssignSlot o.self 1 s.self 1)
    mergeTail s o byMove coins
  else mergeTail s o byMove coins

theorem merge_eq (s o : Sketch) (byMove : Bool) (coins : List Bool) : merge s o byMove coins =
    (if o.n = 0 then pure (s, coins) else
     if s.m ≠ o.m then throwExc "incompatible M" else
     if s.n = 0 then do
       fwdConstruct byMove o.self 0 s.self 0
       let _ ← fwdConstruct byMove o.self 1 s.self 1
       mergeTail s o byMove coins
     else do
       let omn ← read o.self 0
       let mn ← read s.self 0
       if omn < mn then do
         let _ ← (if byMove then moveAssignSlot o.self 0 s.self 0 else copyAssignSlot o.self 0 s.self 0)
         mergeMax s o byMove coins
       else mergeMax s o byMove coins) := rfl


/-! ### the weight check gives "retained > 0" -/

theorem foldl_zero (l : List Nat) (hz : ∀ x, x ∈ l → x = 0) : l.foldl (· + ·) 0 = 0 := by
  induction l with
  | nil => rfl
  | cons x xs ih =>
    simp only [List.foldl_cons]
    rw [hz x (by simp)]
    exact ih (fun y hy => hz y (by simp [hy]))

theorem ret_of_weight {k m nl : Nat} {ls : List Nat} {sz : Nat} (lok : LevelsOK k m nl ls sz)
    (hw : sumSampleWeights nl ls ≠ 0) : ls.getD 0 0 < sz := by
  apply Classical.byContradiction
  intro hge
  apply hw
  unfold sumSampleWeights
  apply foldl_zero
  intro x hx
  simp only [List.mem_map, List.mem_range] at hx
  obtain ⟨l, hl, rfl⟩ := hx
  have h1 := lok.le_of_le l 0 (Nat.zero_le _) (by omega)
  have h2 := lok.le_top (l + 1) (by omega)
  have : ls.getD (l + 1) 0 - ls.getD l 0 = 0 := by omega
  rw [this]; simp

/-! ### the ids part of `Realloc` (what accumulates over a merge, where blocks of the other operand change too) -/
structure ReallocIds (h h' : Heap) (b b' : Nat) : Prop where
  next : h.next ≤ h'.next
  fresh : b' = b ∨ (h.next ≤ b' ∧ b' < h'.next)
  old : ∀ x, x < h.next → x ≠ b → (x ∈ h'.ids ↔ x ∈ h.ids)
  new : ∀ x, h.next ≤ x → (x ∈ h'.ids ↔ x = b')
  self : b ∈ h'.ids ↔ b' = b

theorem Realloc.toIds {h h' : Heap} {b b' : Nat} (r : Realloc h h' b b') : ReallocIds h h' b b' :=
  ⟨r.next, r.fresh, r.old, r.new, r.self⟩

theorem ReallocIds.of_eq {h h' : Heap} {b : Nat} (hid : h'.ids = h.ids) (hnx : h'.next = h.next)
    (hwf : ∀ x, x ∈ h.ids → x < h.next) (hb : b ∈ h.ids) : ReallocIds h h' b b := by
  refine ⟨by omega, Or.inl rfl, fun x _ _ => by rw [hid], fun x hx => ?_, by rw [hid]; simp [hb]⟩
  rw [hid]
  constructor
  · intro hm; have := hwf x hm; omega
  · intro e; subst e; exact hb

theorem ReallocIds.wf {h h' : Heap} {b b' : Nat} (r : ReallocIds h h' b b') (hblt : b < h.next) :
    ∀ x, x ∈ h'.ids → x < h'.next := by
  intro x hx
  by_cases hxn : x < h.next
  · have := r.next; omega
  · have e := (r.new x (by omega)).1 hx
    subst e
    rcases r.fresh with e | e
    · omega
    · exact e.2

theorem ReallocIds.trans {h h' h'' : Heap} {b b' b'' : Nat} (r1 : ReallocIds h h' b b') (r2 : ReallocIds h' h'' b' b'')
    (hblt : b < h.next) : ReallocIds h h'' b b'' := by
  have hn1 := r1.next
  have hn2 := r2.next
  have hb'lt : b' < h'.next := by
    rcases r1.fresh with e | e
    · omega
    · exact e.2
  refine ⟨by omega, ?_, ?_, ?_, ?_⟩
  · rcases r2.fresh with e | e
    · rcases r1.fresh with e1 | e1
      · left; omega
      · right; omega
    · right; omega
  · intro x hx hxb
    have hxb' : x ≠ b' := by
      rcases r1.fresh with e | e <;> omega
    rw [r2.old x (by omega) hxb', r1.old x hx hxb]
  · intro x hx
    by_cases hx' : x < h'.next
    · by_cases e : x = b'
      · subst e
        rw [r2.self]
        constructor
        · intro e'; exact e'.symm
        · intro e'; exact e'.symm
      · rw [r2.old x hx' e, r1.new x hx]
        constructor
        · intro e'; exact absurd e' e
        · intro e'
          subst e'
          rcases r2.fresh with e2 | e2
          · exact absurd e2 e
          · omega
    · rw [r2.new x (by omega)]
  · by_cases e : b' = b
    · subst e; exact r2.self
    · have hbn : h.next ≤ b' := by rcases r1.fresh with e1 | e1; exact absurd e1 e; exact e1.1
      rw [r2.old b (by omega) (fun e' => e e'.symm)]
      constructor
      · intro hm; exact absurd (r1.self.1 hm) e
      · intro e'
        subst e'
        rcases r2.fresh with e2 | e2
        · omega
        · omega

/-! ### ids after a reallocation of the items block followed by `reset_sorted_view` -/

theorem ids_after {h1 h2 h4 : Heap} {ids0 : List Nat} {n0 b b1 : Nat} {view : Option Nat} (hid1 : h1.ids = ids0)
    (hnx1 : h1.next = n0) (hwf : ∀ x, x ∈ ids0 → x < n0) (re : ReallocIds h1 h2 b b1) (hbi : b ∈ ids0) (hblt : b < n0)
    (hv : ∀ w, view = some w → w < n0 ∧ w ≠ b) (hid4 : h4.ids = h2.ids.filter (fun x => view != some x)) :
    ∀ x, x ∈ h4.ids ↔ (x ∈ ids0 ∧ ¬ ((x = b ∧ b1 ≠ b) ∨ view = some x)) ∨ (x = b1 ∧ b1 ≠ b) := by
  intro x
  have hb1b : b1 = b ∨ n0 ≤ b1 := by
    rcases re.fresh with e | e
    · exact Or.inl e
    · right; omega
  rw [hid4]
  simp only [List.mem_filter, bne_iff_ne, ne_eq]
  by_cases hxb : x = b
  · subst hxb
    rw [re.self]
    constructor
    · rintro ⟨e, hv'⟩; exact Or.inl ⟨hbi, fun d => by rcases d with d | d; exact d.2 e; exact hv' d⟩
    · rintro (⟨_, d⟩ | ⟨e, d⟩)
      · exact ⟨Classical.byContradiction (fun e => d (Or.inl ⟨rfl, e⟩)), fun e => d (Or.inr e)⟩
      · exact absurd e.symm d
  · by_cases hxn : x < n0
    · rw [re.old x (by omega) hxb, hid1]
      constructor
      · rintro ⟨e, hv'⟩; exact Or.inl ⟨e, fun d => by rcases d with d | d; exact hxb d.1; exact hv' d⟩
      · rintro (⟨e, d⟩ | ⟨e, d⟩)
        · exact ⟨e, fun e' => d (Or.inr e')⟩
        · rcases hb1b with e' | e'
          · exact absurd e' d
          · omega
    · rw [re.new x (by omega)]
      constructor
      · rintro ⟨e, _⟩
        refine Or.inr ⟨e, fun e' => ?_⟩
        omega
      · rintro (⟨e, _⟩ | ⟨e, _⟩)
        · have := hwf x e; omega
        · exact ⟨e, fun e' => by have := (hv x e').1; omega⟩


/-- the fixed facts of a merge: the two operands in the initial heap -/
structure MCtx (P : Params) (n0 : Nat) (ids0 : List Nat) (s o : Sketch) (b : Nat) (h : Heap) : Prop where
  us : Usable P h s
  uo : Usable P h o
  dj : ∀ x, x ∈ owned s → x ∉ owned o
  hid : h.ids = ids0
  hnx : h.next = n0
  hwf : ∀ x, x ∈ ids0 → x < n0
  hb : s.items = some b

/-- the target side during a merge (`hA` = the heap the reallocation bookkeeping starts from) -/
structure SSide (S : Nat → Bool) (hA h' : Heap) (s sa : Sketch) (b ba : Nat) : Prop where
  io : ItemsOK h' sa ba
  sm : SameMeta s sa
  re : ReallocIds hA h' b ba
  selfc : HasCells h' s.self 2
  mm : (∃ w, stAt h' s.self 0 = .live w) ∧ (∃ w, stAt h' s.self 1 = .live w)
  view : ∀ v, s.view = some v → HasCells h' v 1 ∧ stAt h' v 0 = .raw
  foot : S ba = true

theorem MCtx.static {P : Params} {n0 : Nat} {ids0 : List Nat} {s o : Sketch} {b : Nat} {h : Heap}
    (c : MCtx P n0 ids0 s o b h) :
    s.self < n0 ∧ b < n0 ∧ b ≠ s.self ∧ b ∈ ids0 ∧ (∀ w, s.view = some w → w < n0 ∧ w ≠ b ∧ w ≠ s.self) ∧
    (∀ x, x ∈ owned o → x < n0 ∧ x ≠ s.self ∧ x ≠ b ∧ s.view ≠ some x) := by
  have inv := c.us.toInv
  obtain ⟨_, _, hblt, hbself, hbview⟩ := inv.items_ok b c.hb
  have hnx := c.hnx
  have hbo : b ∈ owned s := mem_owned.2 (Or.inr (Or.inl c.hb))
  refine ⟨by have := inv.self_lt; omega, by omega, hbself, c.hid ▸ (inv.owned_ids b hbo).1, fun w hw => ?_, fun x hx => ?_⟩
  · obtain ⟨_, _, c', d⟩ := inv.view_ok w hw
    exact ⟨by omega, fun e => hbview (e ▸ hw), d⟩
  · refine ⟨by have := (c.uo.toInv.owned_ids x hx).2; omega, fun e => ?_, fun e => ?_, fun e => ?_⟩
    · exact c.dj _ (mem_owned.2 (Or.inl rfl)) (e ▸ hx)
    · exact c.dj _ hbo (e ▸ hx)
    · exact c.dj _ (mem_owned.2 (Or.inr (Or.inr e))) hx

theorem mergeFinish_spec (P : Params) (n0 : Nat) (ids0 : List Nat) (s o : Sketch) (b : Nat) (h hA h' : Heap)
    (sa : Sketch) (ba : Nat) (c : List Bool) (byMove : Bool) (finalN : Nat) (ctx : MCtx P n0 ids0 s o b h)
    (hAid : hA.ids = ids0) (hAnx : hA.next = n0) (ss : SSide (foot (owned s ++ owned o) n0) hA h' s sa b ba)
    (io' : Inv P h' o) (uo' : byMove = false → Usable P h' o) (hfn : finalN ≠ 0)
    (hpw : sumSampleWeights sa.numLevels sa.levels = finalN → (sa.numLevels = 1 ∨ 2 ^ (sa.numLevels - 1) ≤ finalN)) :
    SafeF (foot (owned s ++ owned o) n0) h' (mergeFinish o finalN (sa, c) h')
      (fun r h'' => Usable P h'' r.1 ∧ Inv P h'' o ∧ (byMove = false → Usable P h'' o) ∧
        (∀ x, x ∈ owned r.1 → x ∉ owned o) ∧ Owns h'' ids0 (owned s ++ owned o) (owned r.1 ++ owned o) n0) := by
  obtain ⟨hself_lt, hblt, hbself, hbi, hviewf, hof⟩ := ctx.static
  obtain ⟨⟨hba, lok, il⟩, sm, re, selfc, mm, view, _⟩ := ss
  have inv := ctx.us.toInv
  have hbab : ba = b ∨ n0 ≤ ba := by
    rcases re.fresh with e | e
    · exact Or.inl e
    · right; omega
  have hbaself : ba ≠ s.self := by rcases hbab with e | e; rw [e]; exact hbself; omega
  have hbaview : ∀ w, s.view = some w → w ≠ ba := fun w hw => by
    rcases hbab with e | e
    · rw [e]; exact (hviewf w hw).2.1
    · have := (hviewf w hw).1; omega
  have hbao : ba ∉ owned o := fun hx => by
    rcases hbab with e | e
    · exact (hof _ hx).2.2.1 e
    · have := (hof _ hx).1; omega
  unfold mergeFinish
  simp only
  by_cases hw : sumSampleWeights sa.numLevels sa.levels ≠ finalN
  · rw [if_pos hw]; exact SafeF.exc _
  rw [if_neg hw]
  have hret : sa.levels.getD 0 0 < sa.itemsSize := ret_of_weight lok (by omega)
  apply vstep_resetSortedView
    (s := { sa with n := finalN, minK := if o.numLevels > 1 then min sa.minK o.minK else sa.minK })
  · intro w hw'
    simp only at hw'
    rw [sm.view] at hw'
    exact ⟨(view w hw').1, (view w hw').2, foot_own (by simp [mem_owned, hw'])⟩
  intro h4 so4 hid4 hnx4
  simp only at so4 hid4
  apply SafeF.pure
  simp only
  have hnv : ∀ x, (∀ w, s.view = some w → w ≠ x) → sa.view ≠ some x := fun x hx e => by
    rw [sm.view] at e; exact hx x e rfl
  have self4 : SameOn h' h4 s.self := so4 _ (hnv _ (fun w hw' => (hviewf w hw').2.2))
  have ba4 : SameOn h' h4 ba := so4 _ (hnv _ (fun w hw' => hbaview w hw'))
  have o4 : ∀ x, x ∈ owned o → SameOn h' h4 x := fun x hx => so4 x (by rw [sm.view]; exact (hof x hx).2.2.2)
  have hn4 : n0 ≤ h4.next := by rw [hnx4]; have := re.next; omega
  have hbalt : ba < h4.next := by
    rw [hnx4]
    rcases re.fresh with e | e
    · have := re.next; omega
    · exact e.2
  refine ⟨?_, io'.transfer o4 (by omega), fun e => (uo' e).transfer o4 (by omega), ?_, ?_⟩
  · apply Usable.build (b := ba)
      (s := { sa with n := finalN, minK := if o.numLevels > 1 then min sa.minK o.minK else sa.minK, view := none })
    · simp only; rw [sm.m]; exact inv.m_eq
    · simp only; rw [sm.self]; exact self4.cells _ selfc
    · simp only; rw [sm.self]; omega
    · intro w hw'; cases hw'
    · exact hba
    · exact lok
    · exact il.transfer ba4
    · exact hbalt
    · simp only; rw [sm.self]; exact hbaself
    · simp
    · intro e; exact absurd e hfn
    · intro _; simp only; rw [sm.self, self4.st, self4.st]; exact mm
    · intro _; exact hret
    · simp only; omega
    · exact hpw (by omega)
  · intro x hx hxo
    simp only [mem_owned, reduceCtorEq, or_false] at hx
    rw [sm.self, hba] at hx
    simp only [Option.some.injEq] at hx
    rcases hx with e | e
    · exact (hof x hxo).2.1 e
    · exact hbao (e ▸ hxo)
  · have hids := ids_after hAid hAnx ctx.hwf re hbi hblt (fun w hw' => ⟨(hviewf w hw').1, (hviewf w hw').2.1⟩)
      (by rw [hid4, sm.view])
    refine Owns.of_delta (fun x => (x = b ∧ ba ≠ b) ∨ s.view = some x) (fun x => x = ba ∧ ba ≠ b) hids
      (fun x hx => ?_) (fun x d => ?_) (fun x a => ?_) (fun x => ?_)
    · rw [List.mem_append] at hx
      rcases hx with hx | hx
      · exact ctx.hid ▸ (inv.owned_ids x hx).1
      · exact ctx.hid ▸ (ctx.uo.toInv.owned_ids x hx).1
    · rw [List.mem_append]
      rcases d with d | d
      · left; rw [d.1]; exact mem_owned.2 (Or.inr (Or.inl ctx.hb))
      · left; exact mem_owned.2 (Or.inr (Or.inr d))
    · rcases hbab with e | e
      · exact absurd e a.2
      · rw [a.1]; exact e
    · simp only [List.mem_append]
      have hown1 : x ∈ owned { sa with n := finalN, minK := if o.numLevels > 1 then min sa.minK o.minK else sa.minK, view := none } ↔
          x = s.self ∨ x = ba := by
        simp only [mem_owned, reduceCtorEq, or_false]
        rw [sm.self, hba]
        simp only [Option.some.injEq]
        constructor
        · rintro (e | e); exact Or.inl e; exact Or.inr e.symm
        · rintro (e | e); exact Or.inl e; exact Or.inr e.symm
      rw [hown1]
      constructor
      · rintro ((e | e) | hxo)
        · refine Or.inl ⟨Or.inl (mem_owned.2 (Or.inl e)), fun d => ?_⟩
          rcases d with d | d
          · rw [e] at d; exact hbself d.1.symm
          · rw [e] at d; exact (hviewf _ d).2.2 rfl
        · by_cases hbb : ba = b
          · refine Or.inl ⟨Or.inl (mem_owned.2 (Or.inr (Or.inl (by rw [e, hbb]; exact ctx.hb)))), fun d => ?_⟩
            rcases d with d | d
            · exact d.2 hbb
            · rw [e] at d; exact hbaview _ d rfl
          · exact Or.inr ⟨e, hbb⟩
        · refine Or.inl ⟨Or.inr hxo, fun d => ?_⟩
          rcases d with d | d
          · exact (hof x hxo).2.2.1 d.1
          · exact (hof x hxo).2.2.2 d
      · rintro (⟨hx, d⟩ | ⟨e, _⟩)
        · rcases hx with hx | hx
          · rcases mem_owned.1 hx with e | e | e
            · exact Or.inl (Or.inl e)
            · rw [ctx.hb] at e
              simp only [Option.some.injEq] at e
              subst e
              left; right
              exact (Classical.byContradiction (fun hne => d (Or.inl ⟨rfl, fun e' => hne e'.symm⟩)))
            · exact absurd e (fun e' => d (Or.inr e'))
          · exact Or.inr hx
        · exact Or.inl (Or.inr e)

end DS.Life.Kll

/- C19, KLL sketch part 12: `merge` cut into tails; the level-zero loop. -/
import DSProofs.Lemmas.LifeKllK
namespace DS.Life.Kll
open DS.Life

/-- the end of `merge`: `n_`, `min_k_`, the weight check, `reset_sorted_view` -/
def mergeFinish (o : Sketch) (finalN : Nat) (x : Sketch × List Bool) : M (Sketch × List Bool) :=
  match x with
  | (s, coins) =>
    let s := { s with n := finalN, minK := if o.numLevels > 1 then min s.minK o.minK else s.minK }
    if sumSampleWeights s.numLevels s.levels ≠ s.n then throwExc "Total weight does not match N" else do
    let s ← resetSortedView s
    pure (s, coins)

/-- one iteration of the level-zero loop of `merge` -/
def mergeStep (byMove : Bool) (oi : Nat) (i : Nat) (acc : Sketch × List Bool) : M (Sketch × List Bool) := do
  let (s', index, coins') ← internalUpdate acc.1 acc.2
  let items ← deref s'.items
  fwdConstruct byMove oi i items index
  pure (s', coins')

/-- `merge` after the min/max update -/
def mergeTail (s o : Sketch) (byMove : Bool) (coins : List Bool) : M (Sketch × List Bool) := do
  let finalN := s.n + o.n
  let ol0 ← lv o.levels 0
  let ol1 ← lv o.levels 1
  let oi ← deref o.items
  let (s, coins) ← foldUp (mergeStep byMove oi) (ol1 - ol0) ol0 (s, coins)
  if o.numLevels ≥ 2 then do
    let x ← mergeHigherLevels s o false finalN coins
    mergeFinish o finalN x
  else do
    let x ← pure (s, coins)
    mergeFinish o finalN x

/-- `merge` after the minimum was updated -/
def mergeMax (s o : Sketch) (byMove : Bool) (coins : List Bool) : M (Sketch × List Bool) := do
  let mx ← read s.self 1
  let omx ← read o.self 1
  if mx < omx then do
    let _ ← (if byMove then moveAssignSlot o.self 1 s.self 1 else copyAssignSlot o.self 1 s.self 1)
    mergeTail s o byMove coins
  else mergeTail s o byMove coins

theorem merge_eq (s o : Sketch) (byMove : Bool) (coins : List Bool) : merge s o byMove coins =
    (if o.n = 0 then pure (s, coins) else
     if s.m ≠ o.m then throwExc "incompatible M" else
     if s.n = 0 then do
       fwdConstruct byMove o.self 0 s.self 0
       let _ ← fwdConstruct byMove o.self 1 s.self 1
       mergeTail s o byMove coins
     else do
       let omn ← read o.self 0
       let mn ← read s.self 0
       if omn < mn then do
         let _ ← (if byMove then moveAssignSlot o.self 0 s.self 0 else copyAssignSlot o.self 0 s.self 0)
         mergeMax s o byMove coins
       else mergeMax s o byMove coins) := rfl

end DS.Life.Kll

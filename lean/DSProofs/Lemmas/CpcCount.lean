/- Counting the set bits of the coupon matrix (for `validate()` and `count_bits_set_in_matrix`). Free to change. -/
import DSProofs.Lemmas.CpcUpdate
namespace DS.Cpc

theorem popcountN_eq (n x : Nat) : popcountN n x = (List.range n).countP (fun c => x.testBit c) := by
  induction n generalizing x with
  | zero => simp [popcountN]
  | succ n ih =>
    rw [popcountN, ih, List.range_succ_eq_map, List.countP_cons, List.countP_map]
    have : ((fun c => x.testBit c) ∘ Nat.succ) = (fun c => (x / 2).testBit c) := by
      funext c; simp [Nat.testBit_succ]
    rw [this, Nat.testBit_zero]
    have h2 : x % 2 = 0 ∨ x % 2 = 1 := by omega
    rcases h2 with h2 | h2 <;> simp [h2] <;> omega

/-- cells of a k×w matrix enumerated row by row = the codes below w·k -/
theorem countP_cells_w (p : Nat → Bool) (w k : Nat) :
    (List.range (w * k)).countP p = ((List.range k).map (fun r => (List.range w).countP (fun c => p (r * w + c)))).sum := by
  induction k with
  | zero => simp
  | succ k ih =>
    rw [show w * (k + 1) = w * k + w from Nat.mul_succ w k, List.range_add, List.countP_append, ih,
      List.range_succ (n := k), List.map_append, List.sum_append, List.countP_map]
    simp only [List.map_cons, List.map_nil, List.sum_cons, List.sum_nil, Nat.add_zero]
    congr 1
    have : (p ∘ fun x => w * k + x) = (fun c => p (k * w + c)) := by
      funext c; simp [Nat.mul_comm]
    rw [this]

theorem countP_cells (p : Nat → Bool) (k : Nat) :
    (List.range (64 * k)).countP p = ((List.range k).map (fun r => (List.range 64).countP (fun c => p (r * 64 + c)))).sum :=
  countP_cells_w p 64 k

/-- two duplicate-free lists with the same members have the same length -/
theorem length_eq_of_nodup_mem {l₁ l₂ : List Nat} (h₁ : l₁.Nodup) (h₂ : l₂.Nodup) (h : ∀ a, a ∈ l₁ ↔ a ∈ l₂) :
    l₁.length = l₂.length :=
  ((List.perm_ext_iff_of_nodup h₁ h₂).2 h).length_eq

/-- the number of codes below `n` that occur in `xs` is the number of distinct elements of `xs` -/
theorem countP_mem_eq_distinct (xs : List Nat) (n : Nat) (h : ∀ x ∈ xs, x < n) :
    (List.range n).countP (fun rc => decide (rc ∈ xs)) = (distinct xs).length := by
  rw [List.countP_eq_length_filter]
  apply length_eq_of_nodup_mem
  · exact (List.nodup_range).sublist List.filter_sublist
  · exact nodup_distinct xs
  · intro a
    rw [List.mem_filter, List.mem_range, mem_distinct]
    constructor
    · intro ha; simpa using ha.2
    · intro ha; exact ⟨h a ha, by simpa using ha⟩

/-- `validate()`: the bits of the rebuilt matrix are counted by `num_coupons` -/
theorem validate_of_inv (s : Sketch) (xs : List Nat) (h : Inv s xs) (hx : ∀ x ∈ xs, x < 64 * 2^s.lgK) :
    ((buildBitMatrix s).map popcount64).sum = s.numCoupons := by
  have e1 := countP_mem_eq_distinct xs (64 * 2^s.lgK) hx
  have e2 := countP_cells (fun rc => decide (rc ∈ xs)) (2^s.lgK)
  rw [h.count, ← e1, e2]
  unfold buildBitMatrix
  rw [List.map_map]
  apply congrArg List.sum
  apply List.map_congr_left
  intro r hr
  rw [List.mem_range] at hr
  show popcountN 64 (rowPattern s r) = _
  rw [popcountN_eq]
  apply List.countP_congr
  intro c hc
  rw [List.mem_range] at hc
  rw [testBit_rowPattern s h.rep r c hc]
  have := h.bits r c hr hc
  cases hb : s.bit r c
  · simp [hb] at this ⊢; exact this
  · simp [hb] at this ⊢; exact this

end DS.Cpc

/-
Histories over a store of classic quantiles sketches: every leaf of the choice tree of a history satisfies the
invariant and is related to the coin-independent companions (`truthHist`, `knHist`); the tree is uniform with
arities `arHist`; and the weight of every object summed over all leaves is `∏ arities * (true count)`.
-/
import DSProofs.Lemmas.QuantilesRel
namespace DS.Quantiles

open Tree

variable {α : Type}

/-! ### association lists -/

theorem lookup_filter_ne {β : Type} (m : List (Nat × β)) (i j : Nat) (h : j ≠ i) :
    List.lookup j (m.filter (fun p => p.1 != i)) = List.lookup j m := by
  induction m with
  | nil => rfl
  | cons a t ih =>
    obtain ⟨a1, a2⟩ := a
    by_cases ha : a1 = i
    · subst ha
      have hne : (j == a1) = false := by simpa using h
      simp [List.filter, List.lookup, hne, ih]
    · have : (a1 != i) = true := by simpa using ha
      simp only [List.filter, this, List.lookup]
      rw [ih]

theorem aget_aput {β : Type} (m : List (Nat × β)) (i j : Nat) (b : β) :
    aget (aput m i b) j = if j = i then some b else aget m j := by
  unfold aget aput
  by_cases h : j = i
  · subst h; simp [List.lookup]
  · have hne : (j == i) = false := by simpa using h
    simp only [List.lookup, hne, h, if_false]
    exact lookup_filter_ne m i j h

theorem get?_put (st : Store α) (i j : Nat) (s : Sketch α) :
    (st.put i s).get? j = if j = i then some s else st.get? j := aget_aput st i j s

/-! ### store invariant -/

def ObjOK (c : Cmp α) (S : List α → Prop) (R : Sketch α → List α → Prop) :
    Option (Sketch α) → Option (List α) → Option (Nat × Nat) → Prop
  | some s, some items, some kn => Inv c S s ∧ R s items ∧ s.k = kn.1 ∧ s.n = kn.2
  | none, none, none => True
  | _, _, _ => False

def StoreOK (c : Cmp α) (S : List α → Prop) (R : Sketch α → List α → Prop)
    (st : Store α) (tr : List (Nat × List α)) (kn : List (Nat × (Nat × Nat))) : Prop :=
  ∀ id, ObjOK c S R (st.get? id) (aget tr id) (aget kn id)

theorem ObjOK.of_none {c : Cmp α} {S : List α → Prop} {R : Sketch α → List α → Prop}
    {t : Option (List α)} {k : Option (Nat × Nat)} (h : ObjOK c S R none t k) : t = none ∧ k = none := by
  cases t <;> cases k <;> simp [ObjOK] at h ⊢

theorem ObjOK.of_some {c : Cmp α} {S : List α → Prop} {R : Sketch α → List α → Prop} {s : Sketch α}
    {t : Option (List α)} {k : Option (Nat × Nat)} (h : ObjOK c S R (some s) t k) :
    ∃ items kk nn, t = some items ∧ k = some (kk, nn) ∧ Inv c S s ∧ R s items ∧ s.k = kk ∧ s.n = nn := by
  cases t <;> cases k <;> simp only [ObjOK] at h
  rename_i items kn
  exact ⟨items, kn.1, kn.2, rfl, rfl, h⟩

theorem StoreOK.put {c : Cmp α} {S : List α → Prop} {R : Sketch α → List α → Prop} {st : Store α}
    {tr : List (Nat × List α)} {kn : List (Nat × (Nat × Nat))} (h : StoreOK c S R st tr kn)
    (i : Nat) {s : Sketch α} {items : List α} {k n : Nat} (hi : Inv c S s) (hr : R s items) (hk : s.k = k) (hn : s.n = n) :
    StoreOK c S R (st.put i s) (aput tr i items) (aput kn i (k, n)) := by
  intro j
  rw [get?_put, aget_aput, aget_aput]
  by_cases hj : j = i
  · simp only [hj, if_true]; exact ⟨hi, hr, hk, hn⟩
  · simp only [hj, if_false]; exact h j

/-- weight of the retained items of object `id` satisfying `p` (0 if there is no such object) -/
def Wst (p : α → Bool) (id : Nat) (st : Store α) : Nat :=
  match st.get? id with
  | some s => wSketch p s
  | none => 0

/-- number of accepted items of object `id` satisfying `p` -/
def Ttr (p : α → Bool) (id : Nat) (tr : List (Nat × List α)) : Nat :=
  match aget tr id with
  | some l => l.countP p
  | none => 0

theorem Wst_put (p : α → Bool) (st : Store α) (i j : Nat) (s : Sketch α) :
    Wst p j (st.put i s) = if j = i then wSketch p s else Wst p j st := by
  unfold Wst
  rw [get?_put]
  by_cases h : j = i <;> simp [h]

theorem Ttr_aput (p : α → Bool) (tr : List (Nat × List α)) (i j : Nat) (l : List α) :
    Ttr p j (aput tr i l) = if j = i then l.countP p else Ttr p j tr := by
  unfold Ttr
  rw [aget_aput]
  by_cases h : j = i <;> simp [h]

theorem Spec.add {β : Type} {P : β → Prop} {ar : List Nat} {W1 W2 : β → Nat} {X1 X2 : Nat} {t : Tree β}
    (h1 : Spec P ar W1 X1 t) (h2 : Spec P ar W2 X2 t) : Spec P ar (fun b => W1 b + W2 b) (X1 + X2) t :=
  ⟨h1.all, h1.uni, by rw [Tree.sum_add, h1.sum, h2.sum, Nat.mul_add]⟩

theorem Spec.const {β : Type} {P : β → Prop} {ar : List Nat} {W : β → Nat} {X : Nat} {t : Tree β}
    (h : Spec P ar W X t) (a : Nat) : Spec P ar (fun _ => a) a t :=
  ⟨h.all, h.uni, by rw [Tree.sum_const, h.uni.leafCount]; rfl⟩

theorem Spec.congr_all {β : Type} {P : β → Prop} {ar : List Nat} {W W' : β → Nat} {X : Nat} {t : Tree β}
    (h : Spec P ar W X t) (hw : ∀ b, P b → W b = W' b) : Spec P ar W' X t :=
  ⟨h.all, h.uni, by rw [← Tree.sum_congr_all h.all hw]; exact h.sum⟩

theorem StoreOK.put_same {c : Cmp α} {S : List α → Prop} {R : Sketch α → List α → Prop} {st : Store α}
    {tr : List (Nat × List α)} {kn : List (Nat × (Nat × Nat))} (h : StoreOK c S R st tr kn)
    {i : Nat} {s : Sketch α} (hi : st.get? i = some s) : StoreOK c S R (st.put i s) tr kn := by
  intro j
  rw [get?_put]
  by_cases hj : j = i
  · simp only [hj, if_true]; rw [← hi]; exact h i
  · simp only [hj, if_false]; exact h j

theorem Wst_put_same (p : α → Bool) {st : Store α} {i : Nat} {s : Sketch α} (hi : st.get? i = some s) (j : Nat) :
    Wst p j (st.put i s) = Wst p j st := by
  rw [Wst_put]
  by_cases hj : j = i
  · simp only [hj, if_true]; unfold Wst; rw [hi]
  · simp [hj]

/-- the expected weight of object `id` after `op`, from per-object weights `w` and an existence test `ex` before it -/
def stepVg (c : Cmp α) (lim : Limits) (p : α → Bool) (w : Nat → Nat) (ex : Nat → Bool) : Op α → Nat → Nat
  | .new i k, id => if checkK lim.minK lim.maxK k = true ∧ id = i then 0 else w id
  | .upd i x, id => w id + (if id = i ∧ ex i = true ∧ c.nan x = false ∧ p x = true then 1 else 0)
  | .merge d s, id => if id = d ∧ d ≠ s ∧ ex d = true ∧ ex s = true then w d + w s else w id
  | .copy s d, id => if id = d ∧ ex s = true then w s else w id
  | .sortq _, id => w id

theorem new_inv (c : Cmp α) {S : List α → Prop} (hnil : S []) {k : Nat} (hk : ∃ e, k = 2 ^ e) :
    Inv c S (Sketch.new k : Sketch α) :=
  ⟨hk, by simp [Sketch.new], by simp [Sketch.new], by simp [Sketch.new, bitLen_zero], by simp [Sketch.new, LevelsShape],
    by simp [Sketch.new], fun _ => by simpa [Sketch.new] using hnil⟩

section
variable (c : Cmp α) (lim : Limits) (hlim : 0 < lim.minK) (p : α → Bool) {S : List α → Prop} (hS : SortOK c.lt S)
  {R : Sketch α → List α → Prop} (hR : RelOK c S R)
include hlim hS hR

theorem step_spec (st : Store α) (tr : List (Nat × List α)) (kn : List (Nat × (Nat × Nat))) (op : Op α) (id : Nat)
    (hst : StoreOK c S R st tr kn) :
    Spec (fun st' => StoreOK c S R st' (stepTruth c lim tr op) (stepKN c lim kn op).1) (stepKN c lim kn op).2 (Wst p id)
      (stepVg c lim p (fun j => Wst p j st) (fun j => (aget tr j).isSome) op id) (stepOp c lim st op) := by
  cases op with
  | new i k =>
    simp only [stepOp, stepTruth, stepKN, stepVg]
    by_cases hk : checkK lim.minK lim.maxK k = true
    · simp only [hk, if_true, true_and]
      refine Spec.done (hst.put i (new_inv c hS.nil (checkK_pow2 hlim hk)) (hR.new k) rfl rfl) ?_
      rw [Wst_put]
      by_cases hid : id = i <;> simp [hid, wSketch, Sketch.new, wLevels]
    · simp only [hk, Bool.false_eq_true, if_false, false_and]
      exact Spec.done hst rfl
  | upd i x =>
    simp only [stepOp, stepTruth, stepKN, stepVg]
    have hi := hst i
    cases hg : st.get? i with
    | none =>
      rw [hg] at hi
      obtain ⟨ht, hk⟩ := hi.of_none
      simp only [ht, hk, Option.isSome_none, Bool.false_eq_true, false_and, and_false, if_false, Nat.add_zero]
      exact Spec.done hst rfl
    | some s =>
      rw [hg] at hi
      obtain ⟨items, kk, nn, ht, hk, hinv, hr, hsk, hsn⟩ := hi.of_some
      simp only [ht, hk]
      by_cases hx : c.nan x = true
      · have hu : s.update c x = Tree.done s := by simp [Sketch.update, hx]
        simp only [hx, if_true, hu, Tree.map, Tree.bind]
        refine Spec.done (hst.put_same hg) ?_
        rw [Wst_put_same p hg]; simp
      · have hx' : c.nan x = false := by simpa using hx
        simp only [hx', Bool.false_eq_true, if_false, Option.isSome_some, true_and]
        have hu := update_spec c p hS s x hinv hx'
        by_cases hid : id = i
        · subst hid
          refine (Spec.map hu ?_).congr (by rw [hsk, hsn]) ?_
          · intro s' hs'
            refine ⟨hst.put id hs'.1 (hR.upd s items x s' hinv hr hx' hs') (by rw [hs'.2.1, hsk]) (by rw [hs'.2.2.1, hsn]), ?_⟩
            rw [Wst_put]; simp
          · simp only [Wst, hg, true_and]
        · refine ((Spec.map (hu.const (Wst p id st)) ?_)).congr (by rw [hsk, hsn]) (by simp [hid])
          intro s' hs'
          refine ⟨hst.put i hs'.1 (hR.upd s items x s' hinv hr hx' hs') (by rw [hs'.2.1, hsk]) (by rw [hs'.2.2.1, hsn]), ?_⟩
          rw [Wst_put]; simp [hid]
  | merge d s =>
    simp only [stepOp, stepTruth, stepKN, stepVg]
    by_cases hds : d = s
    · simp only [hds, if_true, ne_eq, not_true_eq_false, false_and, and_false, if_false]
      exact Spec.done hst rfl
    · simp only [hds, if_false, ne_eq, not_false_eq_true, true_and]
      have hd := hst d
      have hs := hst s
      cases hgd : st.get? d with
      | none =>
        rw [hgd] at hd
        obtain ⟨htd, hkd⟩ := hd.of_none
        simp only [htd, hkd, Option.isSome_none, Bool.false_eq_true, false_and, and_false, if_false]
        exact Spec.done hst rfl
      | some a =>
        rw [hgd] at hd
        obtain ⟨ia, ak, an, htd, hkd, ainv, ar, ask, asn⟩ := hd.of_some
        cases hgs : st.get? s with
        | none =>
          rw [hgs] at hs
          obtain ⟨hts, hks⟩ := hs.of_none
          simp only [htd, hkd, hts, hks, Option.isSome_none, Bool.false_eq_true, and_false, if_false]
          exact Spec.done hst rfl
        | some b =>
          rw [hgs] at hs
          obtain ⟨ib, bk, bn, hts, hks, binv, br, bsk, bsn⟩ := hs.of_some
          simp only [htd, hkd, hts, hks, Option.isSome_some, and_true]
          have hm := merge_spec c p hS hR a b ia ib ainv binv ar br
          by_cases hid : id = d
          · subst hid
            simp only [if_true]
            refine (Spec.map hm ?_).congr (by rw [ask, asn, bsk, bsn]) (by simp only [Wst, hgd, hgs])
            intro r hr
            refine ⟨hst.put id hr.1 hr.2.2.2 (by rw [hr.2.1, ask, asn, bsk, bsn]) (by rw [hr.2.2.1, asn, bsn]), ?_⟩
            rw [Wst_put]; simp
          · simp only [hid, if_false]
            refine (Spec.map (hm.const (Wst p id st)) ?_).congr (by rw [ask, asn, bsk, bsn]) rfl
            intro r hr
            refine ⟨hst.put d hr.1 hr.2.2.2 (by rw [hr.2.1, ask, asn, bsk, bsn]) (by rw [hr.2.2.1, asn, bsn]), ?_⟩
            rw [Wst_put]; simp [hid]
  | copy s d =>
    simp only [stepOp, stepTruth, stepKN, stepVg]
    have hs := hst s
    cases hgs : st.get? s with
    | none =>
      rw [hgs] at hs
      obtain ⟨hts, hks⟩ := hs.of_none
      simp only [hts, hks, Option.isSome_none, Bool.false_eq_true, and_false, if_false]
      exact Spec.done hst rfl
    | some a =>
      rw [hgs] at hs
      obtain ⟨ia, ak, an, hts, hks, ainv, ar, ask, asn⟩ := hs.of_some
      simp only [hts, hks, Option.isSome_some, and_true]
      refine Spec.done (hst.put d ainv ar ask asn) ?_
      rw [Wst_put]
      by_cases hid : id = d
      · simp [hid, Wst, hgs]
      · simp [hid]
  | sortq i =>
    simp only [stepOp, stepTruth, stepKN, stepVg]
    have hi := hst i
    cases hg : st.get? i with
    | none => exact Spec.done hst rfl
    | some a =>
      rw [hg] at hi
      obtain ⟨items, kk, nn, ht, hk, hinv, hr, hsk, hsn⟩ := hi.of_some
      obtain ⟨f1, f2, _⟩ := sortBB_fields c a
      have hput := hst.put i (sortBB_inv hS hinv) (hR.sortbb a items hr) (by rw [f1, hsk]) (by rw [f2, hsn])
      refine Spec.done ?_ ?_
      · intro j
        have := hput j
        rw [aget_aput, aget_aput] at this
        by_cases hj : j = i
        · subst hj; simpa [ht, hk] using this
        · simpa [hj] using this
      · rw [Wst_put, wSketch_sortBB]
        by_cases hid : id = i
        · simp [hid, Wst, hg]
        · simp [hid]

omit hlim hS hR in
theorem truth_step (tr : List (Nat × List α)) (op : Op α) (id : Nat) :
    Ttr p id (stepTruth c lim tr op) =
      stepVg c lim p (fun j => Ttr p j tr) (fun j => (aget tr j).isSome) op id := by
  cases op with
  | new i k =>
    simp only [stepTruth, stepVg]
    by_cases hk : checkK lim.minK lim.maxK k = true
    · simp only [hk, if_true, true_and, Ttr_aput]
      by_cases hid : id = i <;> simp [hid]
    · simp [hk]
  | upd i x =>
    simp only [stepTruth, stepVg]
    split
    · rename_i l ht
      by_cases hx : c.nan x = true
      · simp [hx]
      · have hx' : c.nan x = false := by simpa using hx
        simp only [hx', Bool.false_eq_true, if_false, Ttr_aput, ht, Option.isSome_some, true_and]
        by_cases hid : id = i
        · subst hid
          simp only [if_true, true_and, Ttr, ht, List.countP_append, List.countP_cons, List.countP_nil]
          simp
        · simp [hid]
    · rename_i ht
      simp [ht]
  | merge d s =>
    simp only [stepTruth, stepVg]
    by_cases hds : d = s
    · simp [hds]
    · simp only [hds, if_false, ne_eq, not_false_eq_true, true_and]
      split
      · rename_i a b htd hts
        simp only [htd, hts, Option.isSome_some, and_true, Ttr_aput]
        by_cases hid : id = d
        · subst hid; simp [Ttr, htd, hts, List.countP_append]
        · simp [hid]
      · rename_i hno
        have : ¬ ((aget tr d).isSome = true ∧ (aget tr s).isSome = true) := by
          intro ⟨h1, h2⟩
          obtain ⟨a, ha⟩ := Option.isSome_iff_exists.mp h1
          obtain ⟨b, hb⟩ := Option.isSome_iff_exists.mp h2
          exact hno a b ha hb
        by_cases hid : id = d
        · subst hid
          simp only [true_and]
          rw [if_neg this]
        · simp [hid]
  | copy s d =>
    simp only [stepTruth, stepVg]
    split
    · rename_i a hts
      simp only [hts, Option.isSome_some, and_true, Ttr_aput]
      by_cases hid : id = d
      · simp [hid, Ttr, hts]
      · simp [hid]
    · rename_i hts
      simp [hts]
  | sortq i => simp [stepTruth, stepVg]

omit hlim hS hR in
/-- `stepVg` is an affine combination of the per-object weights, so it commutes with sums over a uniform tree -/
theorem stepVg_lin {P : Store α → Prop} {ar : List Nat} {t : Tree (Store α)} (T : Nat → Nat) (ex : Nat → Bool)
    (h : ∀ j, Spec P ar (fun st => Wst p j st) (T j) t) (op : Op α) (id : Nat) :
    Spec P ar (fun st => stepVg c lim p (fun j => Wst p j st) ex op id) (stepVg c lim p T ex op id) t := by
  cases op with
  | new i k =>
    simp only [stepVg]
    by_cases hc : checkK lim.minK lim.maxK k = true ∧ id = i
    · simp only [hc, and_self, if_true]; exact (h id).const 0
    · simp only [hc, if_false]; exact h id
  | upd i x =>
    simp only [stepVg]
    have := (h id).add_const (if id = i ∧ ex i = true ∧ c.nan x = false ∧ p x = true then 1 else 0)
    refine (this.congr_all (fun b _ => Nat.add_comm _ _)).congr rfl (Nat.add_comm _ _)
  | merge d s =>
    simp only [stepVg]
    by_cases hc : id = d ∧ d ≠ s ∧ ex d = true ∧ ex s = true
    · simp only [hc, ne_eq, not_false_eq_true, and_self, if_true]
      exact Spec.add (h d) (h s)
    · simp only [hc, if_false]; exact h id
  | copy s d =>
    simp only [stepVg]
    by_cases hc : id = d ∧ ex s = true
    · simp only [hc, and_self, if_true]; exact h s
    · simp only [hc, if_false]; exact h id
  | sortq i => simp only [stepVg]; exact h id

/-- accumulator step of `knHist` -/
def knStep (c : Cmp α) (lim : Limits) (acc : List (Nat × (Nat × Nat)) × List Nat) (op : Op α) :
    List (Nat × (Nat × Nat)) × List Nat :=
  ((stepKN c lim acc.1 op).1, acc.2 ++ (stepKN c lim acc.1 op).2)

theorem runFrom_spec (ops : List (Op α)) : ∀ (t : Tree (Store α)) (tr : List (Nat × List α))
    (acc : List (Nat × (Nat × Nat)) × List Nat),
    (∀ id, Spec (fun st => StoreOK c S R st tr acc.1) acc.2 (Wst p id) (Ttr p id tr) t) →
    ∀ id, Spec (fun st => StoreOK c S R st (ops.foldl (stepTruth c lim) tr) (ops.foldl (knStep c lim) acc).1)
      (ops.foldl (knStep c lim) acc).2 (Wst p id) (Ttr p id (ops.foldl (stepTruth c lim) tr)) (runFrom c lim t ops) := by
  induction ops with
  | nil => intro t tr acc h id; exact h id
  | cons op ops ih =>
    intro t tr acc h id
    simp only [runFrom, List.foldl_cons]
    refine ih (t.bind (fun st => stepOp c lim st op)) (stepTruth c lim tr op) (knStep c lim acc op) ?_ id
    intro j
    have hl := stepVg_lin c lim p (fun j => Ttr p j tr) (fun j => (aget tr j).isSome) h op j
    rw [truth_step]
    exact Spec.bind hl (fun st hst => step_spec c lim hlim p hS hR st tr acc.1 op j hst)

omit hlim hS hR in
theorem knHist_eq (ops : List (Op α)) : knHist c lim ops = ops.foldl (knStep c lim) ([], []) := rfl

/-- **the history theorem**: invariant + relation to the truth at every leaf, uniform arities, exact weight sums -/
theorem hist_spec (ops : List (Op α)) (id : Nat) :
    Spec (fun st => StoreOK c S R st (truthHist c lim ops) (knHist c lim ops).1) (arHist c lim ops) (Wst p id)
      (Ttr p id (truthHist c lim ops)) (runHist c lim ops) := by
  have := runFrom_spec c lim hlim p hS hR ops (Tree.done []) [] ([], []) ?_ id
  · exact this
  · intro j
    refine Spec.done ?_ rfl
    intro i
    simp [Store.get?, aget, ObjOK]

end

end DS.Quantiles

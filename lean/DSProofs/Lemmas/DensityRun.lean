/- Helper lemmas for C20: update / merge / whole histories. Core tactics only. -/
import DSModel.Density.Hist
import DSProofs.Lemmas.Density
namespace DS.Density

variable {α ρ : Type}

/-- what holds of every state reachable through the public API (`top`: only claimed for the repaired shape of `compact()`) -/
structure RInv (c : Cfg) (s : Sketch α) : Prop where
  inv : Inv s
  kpos : 1 ≤ s.k
  bound : s.numRetained ≤ s.k * s.levels.length
  nge : s.numRetained ≤ s.n
  top : c.popsEmptyTop = true → topNonempty s.levels = true

theorem init_rinv (c : Cfg) (k d : Nat) (hk : 1 ≤ k) : RInv c (init k d : Sketch α) :=
  ⟨⟨by simp [init, sumLen], by simp [init]⟩, hk, by simp [init], by simp [init], fun _ => rfl⟩

theorem sumLen_pushLevel0 (p : Point α) (ls : List (Level α)) : sumLen (pushLevel0 p ls) = sumLen ls + 1 := by
  cases ls with
  | nil => simp [pushLevel0, sumLen]
  | cons l r => simp only [pushLevel0, sumLen, List.length_append, List.length_singleton]; omega

theorem length_pushLevel0 (p : Point α) (ls : List (Level α)) (h : ls ≠ []) : (pushLevel0 p ls).length = ls.length := by
  cases ls with
  | nil => exact absurd rfl h
  | cons l r => simp [pushLevel0]

theorem pushLevel0_ne (p : Point α) (ls : List (Level α)) : pushLevel0 p ls ≠ [] := by
  cases ls <;> simp [pushLevel0]

theorem sumLen_mergeLevels (a b : List (Level α)) : sumLen (mergeLevels a b) = sumLen a + sumLen b := by
  induction a generalizing b with
  | nil => cases b <;> simp [mergeLevels, sumLen]
  | cons x xs ih =>
    cases b with
    | nil => simp [mergeLevels, sumLen]
    | cons y ys => simp only [mergeLevels, sumLen, List.length_append, ih]; omega

theorem length_mergeLevels_ge (a b : List (Level α)) : a.length ≤ (mergeLevels a b).length := by
  induction a generalizing b with
  | nil => simp
  | cons x xs ih =>
    cases b with
    | nil => simp [mergeLevels]
    | cons y ys => simp only [mergeLevels, List.length_cons]; have := ih ys; omega

theorem length_mergeLevels_ge' (a b : List (Level α)) : b.length ≤ (mergeLevels a b).length := by
  induction a generalizing b with
  | nil => cases b <;> simp [mergeLevels]
  | cons x xs ih =>
    cases b with
    | nil => simp
    | cons y ys => simp only [mergeLevels, List.length_cons]; have := ih ys; omega

theorem mergeLevels_ne (a b : List (Level α)) (h : a ≠ []) : mergeLevels a b ≠ [] := by
  cases a with
  | nil => exact absurd rfl h
  | cons x xs => cases b <;> simp [mergeLevels]

theorem topNonempty_pushLevel0 (p : Point α) (ls : List (Level α)) (h : topNonempty ls = true) :
    topNonempty (pushLevel0 p ls) = true := by
  cases ls with
  | nil => rfl
  | cons l r => simpa [pushLevel0, topNonempty] using h

theorem lastNonempty_mergeLevels (a b : List (Level α)) (ha : lastNonempty a = true) (hb : lastNonempty b = true) :
    lastNonempty (mergeLevels a b) = true := by
  induction a generalizing b with
  | nil => cases b <;> simpa [mergeLevels] using hb
  | cons x xs ih =>
    cases b with
    | nil => simpa [mergeLevels] using ha
    | cons y ys =>
      simp only [mergeLevels]
      cases xs with
      | nil =>
        cases ys with
        | nil =>
          have : x.isEmpty = false := by simpa [lastNonempty] using ha
          have hx : x ≠ [] := by intro h0; rw [h0] at this; simp at this
          simp [mergeLevels, lastNonempty, hx]
        | cons z zs =>
          simp only [mergeLevels]
          rw [lastNonempty_cons _ (by simp)]
          simpa [lastNonempty] using hb
      | cons w ws =>
        have hne : mergeLevels (w :: ws) ys ≠ [] := mergeLevels_ne _ _ (by simp)
        rw [lastNonempty_cons _ hne]
        apply ih ys (by simpa [lastNonempty] using ha)
        cases ys with
        | nil => rfl
        | cons z zs => simpa [lastNonempty] using hb

theorem topNonempty_mergeLevels (a b : List (Level α)) (ha : topNonempty a = true) (hb : topNonempty b = true) :
    topNonempty (mergeLevels a b) = true := by
  cases a with
  | nil => cases b <;> simpa [mergeLevels] using hb
  | cons x xs =>
    cases b with
    | nil => simpa [mergeLevels] using ha
    | cons y ys =>
      simp only [mergeLevels, topNonempty] at ha hb ⊢
      exact lastNonempty_mergeLevels xs ys ha hb

/-! ### compactLoop facts in one place -/

theorem compactLoop_inv (c : Cfg) (P : Picker ρ α) (r : ρ) {s : Sketch α} (hi : Inv s) : Inv (compactLoop c P r s).1 :=
  drain_inv c P _ r hi
theorem compactLoop_k (c : Cfg) (P : Picker ρ α) (r : ρ) (s : Sketch α) : (compactLoop c P r s).1.k = s.k := drain_fst_k c P _ r s
theorem compactLoop_dim (c : Cfg) (P : Picker ρ α) (r : ρ) (s : Sketch α) : (compactLoop c P r s).1.dim = s.dim :=
  drain_fst_dim c P _ r s
theorem compactLoop_n (c : Cfg) (P : Picker ρ α) (r : ρ) (s : Sketch α) : (compactLoop c P r s).1.n = s.n := drain_fst_n c P _ r s
theorem compactLoop_numRetained_le (c : Cfg) (P : Picker ρ α) (r : ρ) (s : Sketch α) :
    (compactLoop c P r s).1.numRetained ≤ s.numRetained := drain_numRetained_le c P _ r s
/-- pinned shape only -/
theorem compactLoop_length_ge (c : Cfg) (hp : c.popsEmptyTop = false) (P : Picker ρ α) (r : ρ) (s : Sketch α) :
    s.levels.length ≤ (compactLoop c P r s).1.levels.length := drain_length_ge c hp P _ r s

/-- after the loop: `num_retained_ < k_ * levels_.size()` -/
theorem compactLoop_lt (c : Cfg) (P : Picker ρ α) (r : ρ) {s : Sketch α} (hi : Inv s) (hk : 1 ≤ s.k) :
    (compactLoop c P r s).1.numRetained < (compactLoop c P r s).1.k * (compactLoop c P r s).1.levels.length := by
  have := compactLoop_exits c P r hi hk
  simp only [loopCond, decide_eq_false_iff_not, Nat.not_le] at this
  exact this

theorem compactLoop_rinv (c : Cfg) (P : Picker ρ α) (r : ρ) {s : Sketch α} (hi : Inv s) (hk : 1 ≤ s.k) (hn : s.numRetained ≤ s.n)
    (ht : c.popsEmptyTop = true → topNonempty s.levels = true) : RInv c (compactLoop c P r s).1 :=
  ⟨compactLoop_inv c P r hi, by rw [compactLoop_k]; exact hk, Nat.le_of_lt (compactLoop_lt c P r hi hk),
   by rw [compactLoop_n]; exact Nat.le_trans (compactLoop_numRetained_le c P r s) hn,
   fun hp => drain_topNonempty c hp P _ r s (ht hp)⟩

/-! ### update -/

theorem update_refused (c : Cfg) (P : Picker ρ α) (r : ρ) (s : Sketch α) (p : Point α) (h : p.length ≠ s.dim) :
    update c P r s p = (s, r) := by simp [update, h]

theorem update_accepted (c : Cfg) (P : Picker ρ α) (r : ρ) (s : Sketch α) (p : Point α) (h : p.length = s.dim) :
    update c P r s p =
      ({ (compactLoop c P r s).1 with levels := pushLevel0 p (compactLoop c P r s).1.levels,
                                       numRetained := (compactLoop c P r s).1.numRetained + 1,
                                       n := (compactLoop c P r s).1.n + 1 }, (compactLoop c P r s).2) := by
  simp [update, h]

theorem update_rinv (c : Cfg) (P : Picker ρ α) (r : ρ) {s : Sketch α} (hs : RInv c s) (p : Point α) :
    RInv c (update c P r s p).1 := by
  by_cases h : p.length = s.dim
  · rw [update_accepted c P r s p h]
    have hc := compactLoop_rinv c P r hs.inv hs.kpos hs.nge hs.top
    have hlt := compactLoop_lt c P r hs.inv hs.kpos
    refine ⟨⟨?_, ?_⟩, hc.kpos, ?_, ?_, ?_⟩
    · simp only [sumLen_pushLevel0]; have := hc.inv.cnt; omega
    · exact pushLevel0_ne _ _
    · simp only [length_pushLevel0 _ _ hc.inv.ne]; omega
    · simp only; have := hc.nge; omega
    · intro hp; exact topNonempty_pushLevel0 _ _ (hc.top hp)
  · rw [update_refused c P r s p h]; exact hs

theorem update_dim (c : Cfg) (P : Picker ρ α) (r : ρ) (s : Sketch α) (p : Point α) : (update c P r s p).1.dim = s.dim := by
  by_cases h : p.length = s.dim
  · rw [update_accepted c P r s p h]; exact compactLoop_dim c P r s
  · rw [update_refused c P r s p h]

theorem update_n (c : Cfg) (P : Picker ρ α) (r : ρ) (s : Sketch α) (p : Point α) (h : p.length = s.dim) :
    (update c P r s p).1.n = s.n + 1 := by
  rw [update_accepted c P r s p h]; simp only; rw [compactLoop_n]

/-! ### merge -/

/-- the state handed to the loop by an accepted merge -/
def merged (s o : Sketch α) : Sketch α :=
  { s with levels := mergeLevels s.levels o.levels, numRetained := s.numRetained + o.numRetained, n := s.n + o.n }

theorem merge_skipped (c : Cfg) (P : Picker ρ α) (r : ρ) (s o : Sketch α) (h : mergeSkips c o = true) :
    merge c P r s o = (s, r) := by
  simp [merge, h]
theorem merge_refused (c : Cfg) (P : Picker ρ α) (r : ρ) (s o : Sketch α) (h : o.dim ≠ s.dim) : merge c P r s o = (s, r) := by
  simp [merge, h]
theorem merge_accepted (c : Cfg) (P : Picker ρ α) (r : ρ) (s o : Sketch α) (h0 : mergeSkips c o = false) (hd : o.dim = s.dim) :
    merge c P r s o = compactLoop c P r (merged s o) := by
  simp [merge, h0, hd, merged]

theorem merged_inv {s o : Sketch α} (hs : Inv s) (ho : Inv o) : Inv (merged s o) :=
  ⟨by simp only [merged, sumLen_mergeLevels]; rw [hs.cnt, ho.cnt], mergeLevels_ne _ _ hs.ne⟩

theorem merged_top (c : Cfg) {s o : Sketch α} (hs : RInv c s) (ho : RInv c o) :
    c.popsEmptyTop = true → topNonempty (merged s o).levels = true :=
  fun hp => topNonempty_mergeLevels _ _ (hs.top hp) (ho.top hp)

theorem merge_rinv (c : Cfg) (P : Picker ρ α) (r : ρ) {s o : Sketch α} (hs : RInv c s) (ho : RInv c o) :
    RInv c (merge c P r s o).1 := by
  by_cases h0 : mergeSkips c o = true
  · rw [merge_skipped c P r s o h0]; exact hs
  · by_cases hd : o.dim = s.dim
    · rw [merge_accepted c P r s o (by simpa using h0) hd]
      apply compactLoop_rinv c P r (merged_inv hs.inv ho.inv) hs.kpos
      · simp only [merged]; have := hs.nge; have := ho.nge; omega
      · exact merged_top c hs ho
    · rw [merge_refused c P r s o hd]; exact hs

theorem merge_dim (c : Cfg) (P : Picker ρ α) (r : ρ) (s o : Sketch α) : (merge c P r s o).1.dim = s.dim := by
  by_cases h0 : mergeSkips c o = true
  · rw [merge_skipped c P r s o h0]
  · by_cases hd : o.dim = s.dim
    · rw [merge_accepted c P r s o (by simpa using h0) hd, compactLoop_dim]; rfl
    · rw [merge_refused c P r s o hd]

/-! ### whole histories -/

theorem run_dim (c : Cfg) (P : Picker ρ α) (hist : Hist α) (r : ρ) : (run c P hist r).1.dim = hist.dim := by
  induction hist generalizing r with
  | new k d => rfl
  | upd h p ih => simp only [run, Hist.dim]; rw [update_dim]; exact ih r
  | merge h o ih _ => simp only [run, Hist.dim]; rw [merge_dim]; exact ih r

theorem run_rinv (c : Cfg) (P : Picker ρ α) (minK : Nat) (hm : 1 ≤ minK) (hist : Hist α) (hv : hist.valid minK) (r : ρ) :
    RInv c (run c P hist r).1 := by
  induction hist generalizing r with
  | new k d => exact init_rinv c k d (Nat.le_trans hm hv)
  | upd h p ih => simp only [run]; exact update_rinv c P _ (ih hv r) p
  | merge h o ih1 ih2 => simp only [run]; exact merge_rinv c P _ (ih1 hv.1 r) (ih2 hv.2 _)

/-! ### iterator -/

theorem iterFrom_length (h : Nat) (ls : List (Level α)) : (iterFrom h ls).length = sumLen ls := by
  induction ls generalizing h with
  | nil => rfl
  | cons l r ih => simp [iterFrom, sumLen, ih]

theorem iterFrom_mem (h : Nat) (ls : List (Level α)) (x : Point α × Nat) :
    x ∈ iterFrom h ls ↔ ∃ i lvl, ls[i]? = some lvl ∧ x.1 ∈ lvl ∧ x.2 = 2 ^ (h + i) := by
  induction ls generalizing h with
  | nil => simp [iterFrom]
  | cons l r ih =>
    simp only [iterFrom, List.mem_append, List.mem_map, ih]
    constructor
    · rintro (⟨p, hp, rfl⟩ | ⟨i, lvl, hi, hm, hw⟩)
      · exact ⟨0, l, by simp, hp, by simp⟩
      · exact ⟨i + 1, lvl, by simpa using hi, hm, by rw [hw]; congr 1; omega⟩
    · rintro ⟨i, lvl, hi, hm, hw⟩
      cases i with
      | zero =>
        left
        simp only [List.getElem?_cons_zero, Option.some.injEq] at hi
        subst hi
        exact ⟨x.1, hm, by cases x; simp_all⟩
      | succ i =>
        right
        exact ⟨i, lvl, by simpa using hi, hm, by rw [hw]; congr 1; omega⟩

end DS.Density

/-
t-digest (C17), exact arithmetic: get_CDF / get_PMF.
 * `get_rank` gives the same answer before and after a compress (`rank_compress`), so the ranks that get_CDF
   collects while threading the compress side effect are the ranks of the split points on the original digest;
 * get_CDF = those ranks followed by 1;  get_PMF = successive differences, summing to exactly 1.
-/
import DSProofs.Lemmas.TDigestQuant
namespace DS.TDigest
open Num Conv

/-! ### number of centroids after a compress: 1 iff one value -/

section generic
variable {α δ : Type} [Num α] [Num δ] [Conv α δ]

theorem length_insertC (x : Centroid α) (l : List (Centroid α)) : (insertC x l).length = l.length + 1 := by
  induction l with
  | nil => rfl
  | cons y ys ih => simp only [insertC]; split <;> simp [ih]

theorem length_stableSort (l : List (Centroid α)) : (stableSort l).length = l.length := by
  induction l with
  | nil => rfl
  | cons x xs ih => simp [stableSort, length_insertC] at *; exact ih

theorem length_mergeSeq (s : St α) (tmp : List (Centroid α)) : (mergeSeq s tmp).length = tmp.length + s.cs.length := by
  unfold mergeSeq; split <;> simp [length_stableSort]

theorem cluster_length_two (safe : Bool) (sc : Scale δ) (kc cwD : δ) (cur x : Centroid α) (xs : List (Centroid α)) (wsf : δ) :
    2 ≤ (cluster safe sc kc cwD true cur wsf (x :: xs)).length := by
  simp only [cluster, Bool.not_true, Bool.false_and, Bool.false_eq_true, if_false, List.length_cons]
  have := cluster_ne_nil safe sc kc cwD xs false x (wsf +. Num.ofNat cur.weight)
  have : 0 < (cluster safe sc kc cwD false x (wsf +. Num.ofNat cur.weight) xs).length := List.length_pos_iff.2 this
  omega

theorem mergeOut_length (sc : Scale δ) (tun : Tun) (s : St α) (weight : Nat) (x : Centroid α) (xs : List (Centroid α)) :
    (xs = [] → (mergeOut sc tun s weight x xs).length = 1) ∧ (xs ≠ [] → 2 ≤ (mergeOut sc tun s weight x xs).length) := by
  unfold mergeOut
  constructor
  · intro h; subst h; split <;> simp [cluster]
  · intro h
    obtain ⟨y, ys, rfl⟩ := List.exists_cons_of_ne_nil h
    have := cluster_length_two tun.caddSafe sc (Num.ofNat (tun.comprMul * s.k) : δ) (Num.ofNat (s.cw + weight)) x y ys (Num.ofNat 0)
    split <;> simp only [List.length_reverse] <;> exact this

/-- after a real compress the digest has one centroid iff it held one value -/
theorem compress_length (sc : Scale δ) (tun : Tun) (s : St α) (hb : s.buf ≠ []) :
    ((compress sc tun s).cs.length + (compress sc tun s).buf.length = 1) ↔ (s.cs.length + s.buf.length = 1) := by
  unfold compress
  obtain ⟨v, t, hvt⟩ := List.exists_cons_of_ne_nil hb
  rw [hvt]
  simp only []
  rw [← hvt]
  cases hseq : mergeSeq s (s.buf.map single) with
  | nil => rw [mergeSeq_eq_nil] at hseq; simp at hseq; exact absurd hseq.1 hb
  | cons x xs =>
    rw [mergeCore_of_seq sc tun s _ _ hseq]
    have hlen := length_mergeSeq s (s.buf.map single)
    rw [hseq] at hlen
    simp at hlen
    obtain ⟨h1, h2⟩ := mergeOut_length sc tun s s.buf.length x xs
    simp only [List.length_nil, Nat.add_zero]
    by_cases hxs : xs = []
    · subst hxs
      rw [h1 rfl]; simp at hlen; omega
    · have := h2 hxs
      have : 0 < xs.length := List.length_pos_iff.2 hxs
      omega

end generic

/-! ### the rank function does not change under compress -/

theorem compress_idem (sc : Scale Rat) (tun : Tun) (s : St Rat) (hb : s.buf = []) : compress sc tun s = s := by
  unfold compress; rw [hb]

theorem rank_compress (sc : Scale Rat) (hsc : ScaleOK sc) (tun : Tun) (s : St Rat) (hs : Inv s) (x : Rat) :
    (getRank sc tun (compress sc tun s) x).1 = (getRank sc tun s x).1 := by
  rcases compress_cases sc tun s with ⟨_, he⟩ | ⟨hb, _⟩
  · rw [he]
  · have hne : s.isEmpty = false := (isEmpty_false_iff s).2 (Or.inr hb)
    obtain ⟨_, hbuf', hemp, hmm'⟩ := compress_inv sc hsc tun s hs
    obtain ⟨hmin, hmax⟩ := hmm' hne
    have hne' : (compress sc tun s).isEmpty = false := by rw [hemp]; exact hne
    have hlen := compress_length sc tun s hb
    have hidem := compress_idem sc tun (compress sc tun s) hbuf'
    rcases getRank_cases sc tun s hne x with ⟨h1, e1⟩ | ⟨h1, h2, e1⟩ | ⟨h1, h2, h3, e1⟩ | ⟨h1, h2, h3, e1⟩ <;>
    rcases getRank_cases sc tun (compress sc tun s) hne' x with ⟨g1, e2⟩ | ⟨g1, g2, e2⟩ | ⟨g1, g2, g3, e2⟩ | ⟨g1, g2, g3, e2⟩ <;>
    rw [e1, e2] <;> rw [hmin] at g1 <;> (try rw [hmax] at g2) <;>
    first
      | rfl
      | (exfalso; linarith)
      | (exfalso; exact g3 (hlen.2 h3))
      | (exfalso; exact h3 (hlen.1 g3))
      | (rw [hidem])

/-! ### get_CDF / get_PMF -/

/-- the rank of `x` on `s` as a value (`none` = throws) -/
def rankOf (sc : Scale Rat) (tun : Tun) (s : St Rat) (x : Rat) : Option Rat := (getRank sc tun s x).1

theorem getRank_snd_inv (sc : Scale Rat) (hsc : ScaleOK sc) (tun : Tun) (s : St Rat) (hs : Inv s) (x : Rat) :
    Inv (getRank sc tun s x).2 ∧ ∀ y, rankOf sc tun (getRank sc tun s x).2 y = rankOf sc tun s y := by
  rcases getRank_state sc tun s x with h | h <;> rw [h]
  · exact ⟨hs, fun _ => rfl⟩
  · exact ⟨(compress_inv sc hsc tun s hs).1, fun y => rank_compress sc hsc tun s hs y⟩

/-- the ranks collected by get_CDF are the ranks of the split points on the digest it was called on -/
theorem ranksOf_spec (sc : Scale Rat) (hsc : ScaleOK sc) (tun : Tun) (pts : List Rat) :
    ∀ (s : St Rat), Inv s → ∀ rs s', ranksOf sc tun s pts = (some rs, s') →
      rs = pts.filterMap (rankOf sc tun s) ∧ rs.length = pts.length := by
  induction pts with
  | nil => intro s _ rs s' h; simp [ranksOf] at h; simp [h.1]
  | cons x xs ih =>
    intro s hs rs s' h
    unfold ranksOf at h
    cases hg : getRank sc tun s x with
    | mk r s1 =>
      rw [hg] at h
      cases r with
      | none => simp at h
      | some r =>
        simp only [] at h
        cases hr : ranksOf sc tun s1 xs with
        | mk rs1 s2 =>
          rw [hr] at h
          cases rs1 with
          | none => simp at h
          | some rs1 =>
            simp at h
            obtain ⟨rfl, rfl⟩ := h
            have hs1 := getRank_snd_inv sc hsc tun s hs x
            rw [hg] at hs1
            obtain ⟨e1, e2⟩ := ih s1 hs1.1 rs1 s2 hr
            have hx : rankOf sc tun s x = some r := by unfold rankOf; rw [hg]
            constructor
            · simp only [List.filterMap_cons, hx]
              congr 1
              rw [e1]
              apply List.filterMap_congr
              intro y _
              exact hs1.2 y
            · simp [e2]

theorem getCDF_spec (sc : Scale Rat) (hsc : ScaleOK sc) (tun : Tun) (s : St Rat) (hs : Inv s) (pts : List Rat)
    (c : List Rat) (s' : St Rat) (h : getCDF sc tun s pts = (some c, s')) :
    c = pts.filterMap (rankOf sc tun s) ++ [1] ∧ c.length = pts.length + 1 := by
  unfold getCDF at h
  split at h
  · cases hr : ranksOf sc tun s pts with
    | mk rs s1 =>
      rw [hr] at h
      cases rs with
      | none => simp at h
      | some rs =>
        simp at h
        obtain ⟨e1, e2⟩ := ranksOf_spec sc hsc tun pts s hs rs s1 hr
        rw [← h.1, e1]
        refine ⟨rfl, ?_⟩
        rw [← e1]; simp [e2]
  · simp at h

theorem diffs_sum (prev : Rat) (l : List Rat) : (diffs prev l).sum = (l.getLast?.getD prev) - prev := by
  induction l generalizing prev with
  | nil => simp [diffs]
  | cons c cs ih =>
    simp only [diffs, List.sum_cons, ih, rat_sub]
    cases cs with
    | nil => simp
    | cons d ds =>
      rw [List.getLast?_cons_cons]
      obtain ⟨e, he⟩ : ∃ e, (d :: ds).getLast? = some e := by
        cases hh : (d :: ds).getLast? with
        | none => simp at hh
        | some e => exact ⟨e, rfl⟩
      rw [he]; simp

/-- PMF sums to the last CDF entry -/
theorem pmfOfCdf_sum (c : List Rat) : (pmfOfCdf c).sum = c.getLast?.getD 0 := by
  cases c with
  | nil => simp [pmfOfCdf]
  | cons a t =>
    simp only [pmfOfCdf, List.sum_cons, diffs_sum]
    cases t with
    | nil => simp
    | cons d ds =>
      rw [List.getLast?_cons_cons]
      obtain ⟨e, he⟩ : ∃ e, (d :: ds).getLast? = some e := by
        cases hh : (d :: ds).getLast? with
        | none => simp at hh
        | some e => exact ⟨e, rfl⟩
      rw [he]; simp

theorem getPMF_sum (sc : Scale Rat) (hsc : ScaleOK sc) (tun : Tun) (s : St Rat) (hs : Inv s) (pts : List Rat)
    (p : List Rat) (s' : St Rat) (h : getPMF sc tun s pts = (some p, s')) :
    p.sum = 1 ∧ ∃ c, (getCDF sc tun s pts).1 = some c ∧ p = pmfOfCdf c := by
  unfold getPMF at h
  cases hc : getCDF sc tun s pts with
  | mk c s1 =>
    rw [hc] at h
    cases c with
    | none => simp at h
    | some c =>
      simp at h
      obtain ⟨e1, _⟩ := getCDF_spec sc hsc tun s hs pts c s1 hc
      refine ⟨?_, c, rfl, h.1.symm⟩
      rw [← h.1, pmfOfCdf_sum, e1]
      simp

end DS.TDigest

/-
t-digest (C17), exact arithmetic: `get_quantile` on a state satisfying the invariant — never throws for a rank in
[0,1] on a non-empty digest, returns a value in [min, max], min at rank 0, max at rank 1 — for BOTH argument
orders of the `weighted_average` call (`Tun.quantW1W2`).  Consequences recorded here: the branches for a first /
last centroid of weight > 1 and the code after the loop (whose first argument is a weight, not a mean) are
never reached from a state produced by updates and merges.
-/
import DSProofs.Lemmas.TDigestRankState
namespace DS.TDigest
open Num Conv

theorem wavg_within (x1 w1 x2 w2 lo hi : Rat) (h1 : 0 ≤ w1) (h2 : 0 < w2)
    (a1 : lo ≤ x1) (a2 : x1 ≤ hi) (b1 : lo ≤ x2) (b2 : x2 ≤ hi) :
    lo ≤ wavg x1 w1 x2 w2 ∧ wavg x1 w1 x2 w2 ≤ hi := by
  unfold wavg
  simp only [rat_add, rat_mul, rat_div]
  have hs : 0 < w1 + w2 := by linarith
  constructor
  · rw [le_div_iff₀ hs]; nlinarith
  · rw [div_le_iff₀ hs]; nlinarith

theorem wavg_within' (x1 w1 x2 w2 lo hi : Rat) (h1 : 0 < w1) (h2 : 0 ≤ w2)
    (a1 : lo ≤ x1) (a2 : x1 ≤ hi) (b1 : lo ≤ x2) (b2 : x2 ≤ hi) :
    lo ≤ wavg x1 w1 x2 w2 ∧ wavg x1 w1 x2 w2 ≤ hi := by
  unfold wavg
  simp only [rat_add, rat_mul, rat_div]
  have hs : 0 < w1 + w2 := by linarith
  constructor
  · rw [le_div_iff₀ hs]; nlinarith
  · rw [div_le_iff₀ hs]; nlinarith

/-- the interpolation loop finds its segment and returns a value inside the range of the means -/
theorem quantLoop_within (tun : Tun) (cw : Nat) (mx weight lo hi : Rat) (l : List C) :
    ∀ (a : C) (n : Nat), l ≠ [] →
      cw = n + sumWeights (a :: l) →
      (∀ e, (a :: l).getLast? = some e → e.weight = 1) →
      (n : Rat) + (a.weight : Rat) / 2 ≤ weight → weight ≤ (cw : Rat) - 1 →
      (∀ c ∈ a :: l, lo ≤ c.mean ∧ c.mean ≤ hi) →
      ∃ q, quantLoop tun (cw : Rat) mx weight ((n : Rat) + (a.weight : Rat) / 2) (a :: l) = some q ∧ lo ≤ q ∧ q ≤ hi := by
  induction l with
  | nil => intro a n h; exact absurd rfl h
  | cons b rest ih =>
    intro a n _ hcw hlast hlow hupp hmeans
    have ha := hmeans a (List.mem_cons_self ..)
    have hb := hmeans b (List.mem_cons_of_mem _ (List.mem_cons_self ..))
    unfold quantLoop
    simp +zetaHave only [rat_add, rat_div, rat_ofNat, rat_sub, rat_lt, rat_le, rat_half, rat_up, rat_down,
      Nat.cast_ofNat, Nat.cast_zero]
    by_cases hfound : weight < (n : Rat) + (a.weight : Rat) / 2 + ((a.weight + b.weight : Nat) : Rat) / 2
    · rw [if_pos hfound]
      have hfound' := hfound
      push_cast at hfound'
      by_cases hA : a.weight = 1 ∧ weight - ((n : Rat) + (a.weight : Rat) / 2) < 1 / 2
      · rw [if_pos hA]; exact ⟨a.mean, rfl, ha.1, ha.2⟩
      · rw [if_neg hA]
        by_cases hB : b.weight = 1 ∧
            (n : Rat) + (a.weight : Rat) / 2 + ((a.weight + b.weight : Nat) : Rat) / 2 - weight ≤ 1 / 2
        · rw [if_pos hB]; exact ⟨b.mean, rfl, hb.1, hb.2⟩
        · rw [if_neg hB]
          -- both interpolation weights are ≥ 0 and the second is > 0
          have hw1 : 0 ≤ weight - ((n : Rat) + (a.weight : Rat) / 2) - (if a.weight = 1 then (1 : Rat) / 2 else 0) := by
            by_cases h1 : a.weight = 1
            · have : ¬ weight - ((n : Rat) + (a.weight : Rat) / 2) < 1 / 2 := fun h => hA ⟨h1, h⟩
              simp only [h1, if_true] at this ⊢
              linarith
            · simp only [h1, if_false]; linarith
          have hw2 : 0 < (n : Rat) + (a.weight : Rat) / 2 + ((a.weight + b.weight : Nat) : Rat) / 2 - weight
              - (if b.weight = 1 then (1 : Rat) / 2 else 0) := by
            by_cases h1 : b.weight = 1
            · have : ¬ (n : Rat) + (a.weight : Rat) / 2 + ((a.weight + b.weight : Nat) : Rat) / 2 - weight ≤ 1 / 2 :=
                fun h => hB ⟨h1, h⟩
              simp only [h1, if_true] at this ⊢
              linarith
            · simp only [h1, if_false]; push_cast; linarith
          cases tun.quantW1W2
          · simp only [Bool.false_eq_true, if_false]
            exact ⟨_, rfl, wavg_within' _ _ _ _ lo hi hw2 hw1 ha.1 ha.2 hb.1 hb.2⟩
          · simp only [if_true]
            exact ⟨_, rfl, wavg_within _ _ _ _ lo hi hw1 hw2 ha.1 ha.2 hb.1 hb.2⟩
    · rw [if_neg hfound]
      have hge := not_lt.1 hfound
      by_cases hrest : rest = []
      · -- `b` is the last centroid and has weight 1: the target weight would have to exceed cw - 1
        subst hrest
        have hb1 : b.weight = 1 := hlast b (by simp)
        exfalso
        have : (cw : Rat) = (n : Rat) + (a.weight : Rat) + 1 := by
          rw [hcw]; simp [hb1]; ring
        rw [hb1] at hge
        push_cast at hge
        linarith
      · have hwsf : (n : Rat) + (a.weight : Rat) / 2 + ((a.weight + b.weight : Nat) : Rat) / 2
            = ((n + a.weight : Nat) : Rat) + (b.weight : Rat) / 2 := by push_cast; ring
        rw [hwsf]
        apply ih b (n + a.weight) hrest
        · rw [hcw]; simp; omega
        · intro e he
          apply hlast e
          rw [List.getLast?_cons_cons]; exact he
        · rw [← hwsf]; exact hge
        · exact hupp
        · intro c hc; exact hmeans c (List.mem_cons_of_mem _ hc)

/-- `get_quantile` after the compress: total on [0,1], inside [min,max], exact at 0 and 1 -/
theorem quantC_within (tun : Tun) {s : St Rat} (h : Compressed s) (r : Rat) (h0 : 0 ≤ r) (h1 : r ≤ 1) :
    ∃ q, quantC tun s r = some q ∧ s.min ≤ q ∧ q ≤ s.max ∧ (r = 0 → q = s.min) ∧ (r = 1 → q = s.max) := by
  obtain ⟨f, hf, hfm, hfw⟩ := h.head
  obtain ⟨l, hl, hlm, hlw⟩ := h.last
  have hmm : s.min ≤ s.max := by rw [← hfm]; exact h.inv.csHi f (List.mem_of_head? hf)
  unfold quantC
  cases hcs : s.cs with
  | nil => exact absurd hcs h.ne
  | cons a t =>
    rw [hcs] at hf hl
    simp at hf
    subst hf
    cases t with
    | nil =>
      simp at hl
      subst hl
      simp only []
      exact ⟨a.mean, rfl, by rw [hfm], by rw [hlm], fun _ => hfm, fun _ => hlm⟩
    | cons c2 rest =>
      simp +zetaHave only [rat_mul, rat_ofNat, rat_lt, rat_sub, rat_div, rat_le, Nat.cast_ofNat, Nat.cast_one,
        Bool.and_eq_true]
      have hcw : s.cw = 0 + sumWeights (a :: c2 :: rest) := by rw [h.inv.cw, hcs]; simp
      have hc2 : 1 ≤ c2.weight := h.inv.pos c2 (by rw [hcs]; simp)
      have hcw2 : (2 : Rat) ≤ (s.cw : Rat) := by
        have : 2 ≤ s.cw := by rw [hcw]; simp; omega
        exact_mod_cast this
      by_cases hw1 : r * (s.cw : Rat) < 1
      · rw [if_pos hw1]
        refine ⟨s.min, rfl, le_refl _, hmm, fun _ => rfl, fun hr => ?_⟩
        subst hr; exfalso; linarith
      · rw [if_neg hw1]
        by_cases hw2 : (s.cw : Rat) - 1 < r * (s.cw : Rat)
        · rw [if_pos hw2]
          refine ⟨s.max, rfl, hmm, le_refl _, fun hr => ?_, fun _ => rfl⟩
          subst hr; exfalso; linarith
        · rw [if_neg hw2]
          have hnf : ¬ ((1 : Rat) < (a.weight : Rat) ∧ r * (s.cw : Rat) < (a.weight : Rat) / 2) := by
            rw [hfw]; push_cast; intro h; linarith [h.1]
          rw [if_neg hnf]
          have hlastq : (c2 :: rest).getLast? = some l := by
            rw [List.getLast?_cons_cons] at hl; exact hl
          rw [hlastq]
          simp only []
          have hnl : ¬ ((1 : Rat) < (l.weight : Rat) ∧ (s.cw : Rat) - r * (s.cw : Rat) ≤ (l.weight : Rat) / 2) := by
            rw [hlw]; push_cast; intro h; linarith [h.1]
          rw [if_neg hnl]
          have hw1' := not_lt.1 hw1
          have hw2' := not_lt.1 hw2
          have := quantLoop_within tun s.cw s.max (r * (s.cw : Rat)) s.min s.max (c2 :: rest) a 0 (by simp) hcw
            (by intro e he; rw [hl] at he; simp at he; subst he; exact hlw)
            (by rw [hfw]; push_cast; linarith) (by linarith)
            (by intro c hc; exact ⟨h.inv.csLo c (by rw [hcs]; exact hc), h.inv.csHi c (by rw [hcs]; exact hc)⟩)
          obtain ⟨q, hq, q1, q2⟩ := this
          have hz : ((0 : Nat) : Rat) + (a.weight : Rat) / 2 = (a.weight : Rat) / 2 := by push_cast; ring
          rw [hz] at hq
          refine ⟨q, hq, q1, q2, fun hr => ?_, fun hr => ?_⟩
          · subst hr; exfalso; linarith
          · subst hr; exfalso; linarith

theorem getQuantile_state {α δ : Type} [Num α] [Num δ] [Conv α δ] (sc : Scale δ) (tun : Tun) (s : St α) (r : δ) :
    (getQuantile sc tun s r).2 = s ∨ (getQuantile sc tun s r).2 = compress sc tun s := by
  unfold getQuantile
  split_ifs <;> simp

theorem getQuantile_eq (sc : Scale Rat) (tun : Tun) (s : St Rat) (hne : s.isEmpty = false) (r : Rat)
    (h0 : 0 ≤ r) (h1 : r ≤ 1) :
    getQuantile sc tun s r = (quantC tun (compress sc tun s) r, compress sc tun s) := by
  unfold getQuantile
  rw [if_neg (by simp [hne]), if_neg (by simp [not_lt.2 h0, not_lt.2 h1])]

/-- never throws for a rank in [0,1] on a non-empty digest; in [min,max]; q(0) = min, q(1) = max -/
theorem getQuantile_within (sc : Scale Rat) (hsc : ScaleOK sc) (tun : Tun) (s : St Rat) (hs : Inv s)
    (hne : s.isEmpty = false) (r : Rat) (h0 : 0 ≤ r) (h1 : r ≤ 1) :
    ∃ q, (getQuantile sc tun s r).1 = some q ∧ s.min ≤ q ∧ q ≤ s.max ∧ (r = 0 → q = s.min) ∧ (r = 1 → q = s.max) := by
  rw [getQuantile_eq sc tun s hne r h0 h1]
  have hc := compress_compressed sc hsc tun s hs hne
  obtain ⟨_, _, _, hmm'⟩ := compress_inv sc hsc tun s hs
  obtain ⟨hmin, hmax⟩ := hmm' hne
  obtain ⟨q, hq, q1, q2, q3, q4⟩ := quantC_within tun hc r h0 h1
  rw [hmin] at q1 q3; rw [hmax] at q2 q4
  exact ⟨q, hq, q1, q2, q3, q4⟩

end DS.TDigest

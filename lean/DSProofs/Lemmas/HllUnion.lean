/- Helper lemmas for the union model (Props/C04.lean). -/
import DSModel.Hll.Union
import DSProofs.Lemmas.HllConvert
namespace DS.Hll

variable {ν : Type} [HNum ν]

/-- `r` is `d` raised to the maximum of the source registers folding onto slot `j` -/
def IsFoldMax (src : Array Nat) (lgK j d r : Nat) : Prop :=
  d ≤ r ∧ (∀ i, i < src.size → i % 2^lgK = j → src.getD i 0 ≤ r) ∧
  (r = d ∨ ∃ i, i < src.size ∧ i % 2^lgK = j ∧ src.getD i 0 = r)

/-- the loop of `Hll8Array::mergeHll` restricted to the first `n` source slots -/
def mergePrefix (dst : Array Nat) (lgK : Nat) (src : Array Nat) (n : Nat) : Array Nat :=
  (List.range n).foldl (fun d i =>
    let j := i % 2^lgK
    d.setIfInBounds j (max (d.getD j 0) (src.getD i 0))) dst

theorem mergePrefix_succ (dst : Array Nat) (lgK : Nat) (src : Array Nat) (n : Nat) :
    mergePrefix dst lgK src (n + 1) =
      (mergePrefix dst lgK src n).setIfInBounds (n % 2^lgK)
        (max ((mergePrefix dst lgK src n).getD (n % 2^lgK) 0) (src.getD n 0)) := by
  simp [mergePrefix, List.range_succ, List.foldl_append]

theorem mergePrefix_spec (dst : Array Nat) (lgK : Nat) (src : Array Nat) (hsz : dst.size = 2^lgK) : ∀ n, n ≤ src.size →
    (mergePrefix dst lgK src n).size = 2^lgK ∧
    ∀ j, j < 2^lgK →
      dst.getD j 0 ≤ (mergePrefix dst lgK src n).getD j 0 ∧
      (∀ i, i < n → i % 2^lgK = j → src.getD i 0 ≤ (mergePrefix dst lgK src n).getD j 0) ∧
      ((mergePrefix dst lgK src n).getD j 0 = dst.getD j 0 ∨
        ∃ i, i < n ∧ i % 2^lgK = j ∧ src.getD i 0 = (mergePrefix dst lgK src n).getD j 0)
  | 0, _ => by
    refine ⟨by simpa [mergePrefix] using hsz, fun j _ => ⟨by simp [mergePrefix], ?_, Or.inl (by simp [mergePrefix])⟩⟩
    intro i hi; omega
  | n + 1, hn => by
    have ih := mergePrefix_spec dst lgK src hsz n (by omega)
    rw [mergePrefix_succ]
    generalize mergePrefix dst lgK src n = m at ih ⊢
    obtain ⟨hms, ih⟩ := ih
    have hjn : n % 2^lgK < 2^lgK := Nat.mod_lt _ (Nat.two_pow_pos _)
    refine ⟨by simp [hms], fun j hj => ?_⟩
    obtain ⟨h1, h2, h3⟩ := ih j hj
    by_cases he : n % 2^lgK = j
    · subst he
      rw [getD_setIfInBounds_self (by rw [hms]; exact hjn)]
      refine ⟨by omega, ?_, ?_⟩
      · intro i hi hij
        rcases Nat.lt_succ_iff_lt_or_eq.1 hi with hlt | heq
        · have := h2 i hlt hij; omega
        · subst heq; omega
      · rcases Nat.le_total (m.getD (n % 2^lgK) 0) (src.getD n 0) with hle | hle
        · rw [Nat.max_eq_right hle]
          exact Or.inr ⟨n, by omega, rfl, rfl⟩
        · rw [Nat.max_eq_left hle]
          rcases h3 with h3 | ⟨i, hi, hij, hv⟩
          · exact Or.inl h3
          · exact Or.inr ⟨i, by omega, hij, hv⟩
    · rw [getD_setIfInBounds_ne he]
      refine ⟨h1, ?_, ?_⟩
      · intro i hi hij
        rcases Nat.lt_succ_iff_lt_or_eq.1 hi with hlt | heq
        · exact h2 i hlt hij
        · subst heq; exact absurd hij he
      · rcases h3 with h3 | ⟨i, hi, hij, hv⟩
        · exact Or.inl h3
        · exact Or.inr ⟨i, by omega, hij, hv⟩

/-- `Hll8Array::mergeHll` (same-k and down-sampling path): every destination register becomes the maximum of itself
and of all source registers whose slot folds onto it (`slot & mask`) -/
theorem mergeRegs_spec (dst : Array Nat) (lgK : Nat) (src : Array Nat) (hsz : dst.size = 2^lgK) :
    (mergeRegs dst lgK src).size = 2^lgK ∧
    ∀ j, j < 2^lgK → IsFoldMax src lgK j (dst.getD j 0) ((mergeRegs dst lgK src).getD j 0) := by
  have h := mergePrefix_spec dst lgK src hsz src.size (Nat.le_refl _)
  exact ⟨h.1, fun j hj => ⟨(h.2 j hj).1, (h.2 j hj).2.1, (h.2 j hj).2.2⟩⟩

/-- content of a merge: if the destination registers are the per-slot maxima of the coupons `M` at precision `lgK` and the
source registers are the per-slot maxima of `N` at a precision `lgS ≥ lgK`, the merged registers are the per-slot maxima of
`M ∪ N` at `lgK` (folding a slot = reducing it mod 2^lgK, `slot_fold`) -/
theorem mergeRegs_content (p : Params) {dst src : Array Nat} {lgK lgS : Nat} {M N : Nat → Prop}
    (hle : lgK ≤ lgS) (hd : dst.size = 2^lgK) (hs : src.size = 2^lgS)
    (hM : ∀ j, j < 2^lgK → IsMaxAt p lgK M j (dst.getD j 0))
    (hN : ∀ i, i < 2^lgS → IsMaxAt p lgS N i (src.getD i 0)) :
    ∀ j, j < 2^lgK → IsMaxAt p lgK (fun c => M c ∨ N c) j ((mergeRegs dst lgK src).getD j 0) := by
  intro j hj
  obtain ⟨h1, h2, h3⟩ := (mergeRegs_spec dst lgK src hd).2 j hj
  refine ⟨?_, ?_⟩
  · rintro c (hc | hc) hsl
    · exact Nat.le_trans ((hM j hj).1 c hc hsl) h1
    · have hi := cSlot_lt p lgS c
      have := (hN _ hi).1 c hc rfl
      refine Nat.le_trans this (h2 _ (by rw [hs]; exact hi) ?_)
      rw [← slot_fold p hle c]; exact hsl
  · rcases h3 with h3 | ⟨i, hi, hij, hv⟩
    · rw [h3]
      rcases (hM j hj).2 with h0 | ⟨c, hc, hsl, hv⟩
      · exact Or.inl h0
      · exact Or.inr ⟨c, Or.inl hc, hsl, hv⟩
    · rw [← hv]
      rcases (hN i (by rw [← hs]; exact hi)).2 with h0 | ⟨c, hc, hsl, hcv⟩
      · exact Or.inl h0
      · refine Or.inr ⟨c, Or.inr hc, ?_, hcv⟩
        rw [slot_fold p hle c, hsl, hij]

end DS.Hll

/- C19: the world-level spec and contracts assembled from the class proofs that exist. -/
import DSProofs.Lemmas.LifeSpec
import DSProofs.Lemmas.LifeThetaG
import DSProofs.Lemmas.LifeFi
import DSProofs.Lemmas.LifeKll
namespace DS.Life

theorem TripleS.of_false_pre {α} {n0 S} {P : Heap → Prop} {m : M α} {Q : α → Heap → Prop} (hf : ∀ h, P h → False) :
    TripleS n0 S P m Q := fun h _ hp => (hf h hp).elim

/-- nothing changed: the same blocks are owned (possibly listed in another order) -/
theorem Owns.same {h : Heap} {ids0 own own' : List Nat} {n0 : Nat} (hid : h.ids = ids0) (hsub : ∀ b, b ∈ own → b ∈ ids0)
    (heq : ∀ b, b ∈ own' ↔ b ∈ own) : Owns h ids0 own own' n0 := by
  refine ⟨fun b => ?_, fun b hb => Or.inl ((heq b).mp hb)⟩
  rw [hid, heq b]
  constructor
  · intro hb
    by_cases ho : b ∈ own
    · exact Or.inr ho
    · exact Or.inl ⟨hb, ho⟩
  · rintro (⟨hb, _⟩ | ho)
    · exact hb
    · exact hsub b ho

def thetaClass (P : Theta.Params) : ClassSpec Theta.Table where
  owned := Theta.owned
  Inv := Theta.Inv P
  Usable := Theta.Usable P
  usable_inv := Theta.Usable.inv
  inv_local := Theta.Inv.local
  usable_local := Theta.Usable.local
  owned_ids := Theta.Inv.owned_ids

theorem startingSubMultiple_pos {lgTgt lgMin rf : Nat} (h : 1 ≤ lgMin) : 0 < Theta.startingSubMultiple lgTgt lgMin rf := by
  unfold Theta.startingSubMultiple
  split
  · omega
  · split <;> omega

def fiClass (P : Fi.Params) : ClassSpec Fi.Sketch where
  owned := fun s => Fi.owned s.map
  Inv := fun h s => Fi.Inv P h s.map
  Usable := fun h s => Fi.Usable P h s.map
  usable_inv := Fi.Usable.inv
  inv_local := Fi.Inv.local
  usable_local := Fi.Usable.local
  owned_ids := Fi.Inv.owned_ids

def kllClass (P : Kll.Params) : ClassSpec Kll.Sketch where
  owned := Kll.owned
  Inv := Kll.Inv P
  Usable := Kll.Usable P
  usable_inv := Kll.Usable.inv
  inv_local := Kll.Inv.local
  usable_local := Kll.Usable.local
  owned_ids := Kll.Inv.owned_ids

/-- side conditions on the tunables (decidable; discharged for the generated values in Props/C19.lean) and on the
    iterator stride of the FI map (odd, as `… | 1` in the C++ makes it) -/
def Cfg.OK (C : Cfg) : Prop := C.theta.OK ∧ C.fi.OK ∧ (∀ lg, C.fi.strideOf lg % 2 = 1) ∧ C.kll.OK

/-- the classes whose contracts are proved -/
def coverage : Coverage := ⟨True, True, True⟩

def spec (C : Cfg) : ObjSpec := combine (thetaClass C.theta) (kllClass C.kll) (fiClass C.fi)

theorem idsLt_of {h : Heap} {ids0 : List Nat} {n0 : Nat} (e : h.ids = ids0) (en : h.next = n0)
    (lt : ∀ x, x ∈ ids0 → x < n0) : Fi.IdsLt h := by
  intro b hb
  rw [e] at hb
  rw [en]
  exact lt b hb

/-- FI merge with the disjointness of the result from the untouched operand -/
theorem Fi.merge_contract_disj (P : Fi.Params) (hP : P.OK) (hodd : ∀ lg, P.strideOf lg % 2 = 1) (n0 : Nat) (ids0 : List Nat)
    (s o : Fi.Sketch) (byMove : Bool) :
    TripleS n0 (foot (Fi.owned s.map ++ Fi.owned o.map) n0)
      (fun h => Fi.Usable P h s.map ∧ Fi.Usable P h o.map ∧ (∀ b, b ∈ Fi.owned s.map → b ∉ Fi.owned o.map) ∧ h.ids = ids0 ∧
        h.next = n0 ∧ (∀ x, x ∈ ids0 → x < n0))
      (Fi.Sketch.merge P s o byMove)
      (fun s' h' => Fi.Usable P h' s'.map ∧ Fi.Inv P h' o.map ∧ (byMove = false → Fi.Usable P h' o.map) ∧
        (∀ b, b ∈ Fi.owned s'.map → b ∉ Fi.owned o.map) ∧
        Owns h' ids0 (Fi.owned s.map ++ Fi.owned o.map) (Fi.owned s'.map ++ Fi.owned o.map) n0) := by
  intro h hn ⟨hus, huo, hdis, hid, hnx, hlt⟩
  have hidslt := idsLt_of hid hnx hlt
  have hdisj : ∀ {s' : Fi.Sketch} {h' : Heap} {X : List Nat}, Fi.Grown h h' (Fi.owned s.map) (Fi.owned s'.map) X →
      ∀ b, b ∈ Fi.owned s'.map → b ∉ Fi.owned o.map := by
    intro s' h' X g b hb hbo
    rcases g.fresh b hb with e | e
    · exact hdis b e hbo
    · have := (Fi.Inv.owned_ids huo.inv b hbo).2
      omega
  cases byMove with
  | false =>
    refine SafeF.mono (Fi.merge_copy_spec P hP n0 _ (fun b hb => foot_new hb) s o
      (fun b hb => foot_own (by simp [hb])) h h hn ⟨rfl, hus, huo, hdis, hidslt⟩) ?_
    intro s' h' ⟨hus', huo', g⟩
    exact ⟨hus', huo'.inv, fun _ => huo', hdisj g, hid ▸ Fi.merge_owns hn g huo.inv hdis⟩
  | true =>
    refine SafeF.mono (Fi.merge_move_spec P hP hodd n0 _ (fun b hb => foot_new hb) s o
      (fun b hb => foot_own hb) h h hn ⟨rfl, hus, huo, hdis, hidslt⟩) ?_
    intro s' h' ⟨hus', hio', g⟩
    exact ⟨hus', hio', (fun e => by cases e), hdisj g, hid ▸ Fi.merge_owns hn g huo.inv hdis⟩

theorem contracts (C : Cfg) (hC : C.OK) : Contracts C (spec C) coverage where
  dtor := by
    intro o n0 ids0
    cases o with
    | table t =>
      exact (Theta.dtor_contract C.theta n0 t ids0).conseq (fun h ⟨i, e, _⟩ => ⟨i, e⟩) (fun _ _ x => x)
    | kll s =>
      exact (Kll.dtor_contract C.kll n0 s ids0).conseq (fun h ⟨i, e, _⟩ => ⟨i, e⟩) (fun _ _ x => x)
    | fi s =>
      exact (Fi.dtor_contract (P := C.fi) (n0 := n0) (ids0 := ids0) (m := s.map)).conseq (fun h ⟨i, e, _⟩ => ⟨i, e⟩) (fun _ _ x => x)
  copy := by
    intro o n0 ids0
    cases o with
    | table t =>
      refine TripleS.map Obj.table ((Theta.copyCtor_contract C.theta n0 t ids0).conseq (fun h ⟨u, e, _⟩ => ⟨u, e⟩) ?_)
      intro t' h' ⟨u, _, ow⟩
      exact ⟨u, ow⟩
    | kll s =>
      exact TripleS.map Obj.kll ((Kll.copyCtor_contract C.kll n0 s ids0).conseq (fun h ⟨u, e, n, _, lt⟩ => ⟨u, e, n, lt⟩) (fun _ _ x => x))
    | fi s =>
      refine TripleS.map (fun m => Obj.fi { s with map := m })
        ((Fi.copyCtor_contract (P := C.fi) (n0 := n0) (ids0 := ids0) (m := s.map)).conseq (fun h ⟨u, e, _⟩ => ⟨u, e⟩) ?_)
      intro m' h' ⟨u, _, ow⟩
      exact ⟨u, ow⟩
  move := by
    intro o n0 ids0
    cases o with
    | table t =>
      apply TripleS.pure'
      intro h ⟨u, e, _⟩
      obtain ⟨u1, i2, o1, o2⟩ := Theta.moveCtor_spec' C.theta h t u
      refine ⟨u1, i2, ?_, Owns.same e (fun b hb => e ▸ (Theta.Inv.owned_ids u.inv b hb).1) ?_⟩
      · intro b _ hb2
        have : Theta.owned (Theta.moveCtor t).2 = [] := o2
        simp [spec, combine, thetaClass, this] at hb2
      · intro b
        simp [spec, combine, thetaClass, o1, o2]
    | kll s =>
      exact TripleS.map (fun r : Kll.Sketch × Kll.Sketch => (Obj.kll r.1, Obj.kll r.2))
        ((Kll.moveCtor_contract C.kll n0 s ids0).conseq (fun h ⟨u, e, n, _⟩ => ⟨u, e, n⟩) (fun _ _ x => x))
    | fi s =>
      apply TripleS.pure'
      intro h ⟨u, e, _⟩
      obtain ⟨u1, i2, o1, o2⟩ := Fi.moveCtor_spec (P := C.fi) (h := h) (m := s.map) u
      refine ⟨u1, i2, ?_, Owns.same e (fun b hb => e ▸ (Fi.Inv.owned_ids (Fi.Usable.inv u) b hb).1) ?_⟩
      · intro b _ hb2
        have : Fi.owned (Fi.moveCtor s.map).2 = [] := o2
        simp [spec, combine, fiClass, this] at hb2
      · intro b
        simp [spec, combine, fiClass, o1, o2]
  cassign := by
    intro t o hc n0 ids0
    cases t with
    | table t =>
      cases o with
      | table o =>
        refine TripleS.map Obj.table ((Theta.copyAssign_contract C.theta n0 t o ids0).conseq ?_ (fun _ _ x => x))
        intro h ⟨i, u, _, e, _, lt, _, _⟩
        exact ⟨i, u, e, lt⟩
      | kll s => simp [Obj.cls] at hc
      | fi s => simp [Obj.cls] at hc
    | kll t =>
      cases o with
      | kll o =>
        refine TripleS.map Obj.kll ((Kll.copyAssign_contract C.kll n0 t o ids0).conseq ?_ (fun _ _ x => x))
        intro h ⟨i, u, rel, rest⟩
        refine ⟨i, u, ?_, rest⟩
        rcases rel with r | r
        · left; cases r; rfl
        · right; exact r
      | table s => simp [Obj.cls] at hc
      | fi s => simp [Obj.cls] at hc
    | fi t =>
      cases o with
      | fi o =>
        refine TripleS.map (fun m => Obj.fi { o with map := m })
          ((Fi.copyAssign_contract (P := C.fi) (n0 := n0) (ids0 := ids0) (t := t.map) (o := o.map)).conseq ?_ (fun _ _ x => x))
        intro h ⟨i, u, rel, e, _, _, lto, _⟩
        refine ⟨i, u, ?_, e, lto⟩
        rcases rel with r | r
        · left; cases r; rfl
        · right; exact r
      | table s => simp [Obj.cls] at hc
      | kll s => simp [Obj.cls] at hc
  massign := by
    intro t o hc n0 ids0
    cases t with
    | table t =>
      cases o with
      | table o =>
        apply TripleS.pure'
        intro h ⟨i, u, dj, e, _⟩
        refine ⟨u, i, fun b hb1 hb2 => dj b hb2 hb1, Owns.same e ?_ ?_⟩
        · intro b hb
          simp only [List.mem_append] at hb
          rcases hb with hb | hb
          · exact e ▸ (Theta.Inv.owned_ids i b hb).1
          · exact e ▸ (Theta.Inv.owned_ids u.inv b hb).1
        · intro b
          simp [spec, combine, thetaClass, Theta.moveAssign, or_comm]
      | kll s => simp [Obj.cls] at hc
      | fi s => simp [Obj.cls] at hc
    | kll t =>
      cases o with
      | kll o =>
        exact TripleS.map (fun r : Kll.Sketch × Kll.Sketch => (Obj.kll r.1, Obj.kll r.2))
          ((Kll.moveAssign_contract C.kll C.kll.moveAssignResetsSource n0 t o ids0).conseq (fun h ⟨i, u, dj, e, n, _⟩ => ⟨i, u, dj, e, n⟩) (fun _ _ x => x))
      | table s => simp [Obj.cls] at hc
      | fi s => simp [Obj.cls] at hc
    | fi t =>
      cases o with
      | fi o =>
        apply TripleS.pure'
        intro h ⟨i, u, dj, e, _⟩
        refine ⟨u, i, fun b hb1 hb2 => dj b hb2 hb1, Owns.same e ?_ ?_⟩
        · intro b hb
          simp only [List.mem_append] at hb
          rcases hb with hb | hb
          · exact e ▸ (Fi.Inv.owned_ids i b hb).1
          · exact e ▸ (Fi.Inv.owned_ids (Fi.Usable.inv u) b hb).1
        · intro b
          simp [spec, combine, fiClass, Fi.moveAssign, or_comm]
      | table s => simp [Obj.cls] at hc
      | kll s => simp [Obj.cls] at hc
  selfmove := by
    intro o n0 ids0
    cases o with
    | table t =>
      apply TripleS.pure'
      intro h ⟨u, e, _⟩
      exact ⟨u, Owns.same e (fun b hb => e ▸ (Theta.Inv.owned_ids u.inv b hb).1) (fun b => Iff.rfl)⟩
    | kll s =>
      exact TripleS.map Obj.kll ((Kll.selfMoveAssign_contract C.kll n0 s ids0).conseq (fun h ⟨u, e, n, _⟩ => ⟨u, e, n⟩) (fun _ _ x => x))
    | fi s =>
      apply TripleS.pure'
      intro h ⟨u, e, _⟩
      exact ⟨u, Owns.same e (fun b hb => e ▸ (Fi.Inv.owned_ids (Fi.Usable.inv u) b hb).1) (fun b => Iff.rfl)⟩
  newTable := by
    intro _ lgK rf theta0 _ n0 ids0
    exact (Theta.ctor_contract C.theta n0 _ lgK rf theta0 ids0 (startingSubMultiple_pos hC.1.2.2)).conseq
      (fun h ⟨e, n, _⟩ => ⟨e, n⟩) (fun _ _ x => x)
  tblUpdate := by
    intro t a b n0 ids0
    exact (Theta.update_contract C.theta hC.1 n0 t a b C.comb ids0).conseq (fun h ⟨u, e, _⟩ => ⟨u, e⟩) (fun _ _ x => x)
  tblSer := by
    intro t n0 ids0
    exact (Theta.serialize_contract C.theta n0 t ids0).conseq (fun h ⟨u, e, _, lt, _⟩ => ⟨u, e, lt⟩) (fun _ _ x => x.2)
  tblTrim := by
    intro t n0 ids0
    exact (Theta.trim_contract C.theta n0 t ids0).conseq (fun h ⟨u, e, _⟩ => ⟨u, e⟩) (fun _ _ x => x)
  tblReset := by
    intro t n0 ids0
    exact (Theta.reset_contract C.theta n0 t ids0).conseq (fun h ⟨u, e, _⟩ => ⟨u, e⟩) (fun _ _ x => x)
  newKll := by
    intro _ k n0 ids0
    exact (Kll.ctor_contract C.kll hC.2.2.2 n0 k ids0).conseq (fun h ⟨e, n, _⟩ => ⟨e, n⟩) (fun _ _ x => x)
  kllUpdate := by
    intro s a coins n0 ids0
    exact Kll.update_contract C.kll hC.2.2.2 n0 s a coins ids0
  kllMerge := by
    intro a b byMove coins n0 ids0
    unfold Kll.mergeChecked
    by_cases hov : b.numLevels ≥ 2 ∧ a.n + b.n ≥ 2 ^ 64
    · rw [if_pos hov]
      exact TripleS.fail_exc _
    · rw [if_neg hov]
      exact Kll.merge_contract C.kll hC.2.2.2 n0 a b byMove coins ids0 (fun h2 => by omega)
  kllQuery := by
    intro s n0 ids0
    exact (Kll.query_contract C.kll n0 s ids0).conseq (fun h ⟨u, e, n, _⟩ => ⟨u, e, n⟩) (fun _ _ x => x)
  kllSer := by
    intro s n0 ids0
    exact (Kll.serialize_contract C.kll n0 s ids0).conseq (fun h ⟨u, e, _⟩ => ⟨u, e⟩) (fun _ h' x => by rw [x]; exact fun _ => Iff.rfl)
  kllRound := by
    intro s n0 ids0
    exact (Kll.roundTrip_contract C.kll hC.2.2.2 n0 s ids0).conseq (fun h ⟨u, e, n, _, lt⟩ => ⟨u, e, n, lt⟩) (fun _ _ x => x)
  newFi := by
    intro _ lgMax lgStart n0 ids0
    exact (Fi.ctor_contract (P := C.fi) (n0 := n0) (ids0 := ids0) (lgMax := lgMax) (lgStart := lgStart)).conseq
      (fun h ⟨e, _⟩ => e) (fun _ _ x => x)
  fiUpdate := by
    intro s a b n0 ids0
    exact (Fi.update_contract_wf (P := C.fi) hC.2.1 (n0 := n0) (ids0 := ids0) (s := s) (a := a) (w := b)).conseq
      (fun h ⟨u, e, n, lt⟩ => ⟨u, e, idsLt_of e n lt⟩) (fun _ _ x => x)
  fiMerge := by
    intro a b byMove n0 ids0
    exact (Fi.merge_contract_disj C.fi hC.2.1 hC.2.2.1 n0 ids0 a b byMove).conseq
      (fun h ⟨ua, ub, dj, e, n, _, _, lt⟩ => ⟨ua, ub, dj, e, n, lt⟩) (fun _ _ x => x)
  fiQuery := by
    intro s arg n0 ids0
    exact (Fi.get_contract (P := C.fi) (n0 := n0) (ids0 := ids0) (m := s.map) (kv := arg)).conseq
      (fun h ⟨u, e, _⟩ => ⟨u, e⟩) (fun _ h' x => by rw [x.2]; exact fun _ => Iff.rfl)
  fiSer := by
    intro s n0 ids0
    exact (Fi.serialize_contract_wf (P := C.fi) (n0 := n0) (ids0 := ids0) (s := s)).conseq
      (fun h ⟨u, e, n, lt, _⟩ => ⟨u, e, idsLt_of e n lt⟩) (fun _ _ x => x.2)
  fiRound := by
    intro s n0 ids0
    exact (Fi.roundTrip_contract_wf (P := C.fi) hC.2.1 (n0 := n0) (ids0 := ids0) (s := s)).conseq
      (fun h ⟨u, e, n, lt, _⟩ => ⟨u, e, idsLt_of e n lt⟩) (fun _ _ x => ⟨x.1, x.2.2⟩)

end DS.Life

/- C19: the world-level spec and contracts assembled from the class proofs that exist. -/
import DSProofs.Lemmas.LifeSpec
import DSProofs.Lemmas.LifeThetaG
namespace DS.Life

theorem TripleS.of_false_pre {α} {n0 S} {P : Heap → Prop} {m : M α} {Q : α → Heap → Prop} (hf : ∀ h, P h → False) :
    TripleS n0 S P m Q := fun h _ hp => (hf h hp).elim

/-- nothing changed: the same blocks are owned (possibly listed in another order) -/
theorem Owns.same {h : Heap} {ids0 own own' : List Nat} {n0 : Nat} (hid : h.ids = ids0) (hsub : ∀ b, b ∈ own → b ∈ ids0)
    (heq : ∀ b, b ∈ own' ↔ b ∈ own) : Owns h ids0 own own' n0 := by
  refine ⟨fun b => ?_, fun b hb => Or.inl ((heq b).mp hb)⟩
  rw [hid, heq b]
  constructor
  · intro hb
    by_cases ho : b ∈ own
    · exact Or.inr ho
    · exact Or.inl ⟨hb, ho⟩
  · rintro (⟨hb, _⟩ | ho)
    · exact hb
    · exact hsub b ho

def thetaClass (P : Theta.Params) : ClassSpec Theta.Table where
  owned := Theta.owned
  Inv := Theta.Inv P
  Usable := Theta.Usable P
  usable_inv := Theta.Usable.inv
  inv_local := Theta.Inv.local
  usable_local := Theta.Usable.local
  owned_ids := Theta.Inv.owned_ids

theorem startingSubMultiple_pos {lgTgt lgMin rf : Nat} (h : 1 ≤ lgMin) : 0 < Theta.startingSubMultiple lgTgt lgMin rf := by
  unfold Theta.startingSubMultiple
  split
  · omega
  · split <;> omega

/-- side conditions on the tunables (decidable; discharged for the generated values in Props/C19.lean) -/
def Cfg.OK (C : Cfg) : Prop := C.theta.OK

/-- the classes whose contracts are proved -/
def coverage : Coverage := ⟨True, False, False⟩

def spec (C : Cfg) : ObjSpec := combine (thetaClass C.theta) (ClassSpec.empty _) (ClassSpec.empty _)

theorem contracts (C : Cfg) (hC : C.OK) : Contracts C (spec C) coverage where
  dtor := by
    intro o n0 ids0
    cases o with
    | table t =>
      exact (Theta.dtor_contract C.theta n0 t ids0).conseq (fun h ⟨i, e, _⟩ => ⟨i, e⟩) (fun _ _ x => x)
    | kll s => exact TripleS.of_false_pre (fun h hp => hp.1)
    | fi s => exact TripleS.of_false_pre (fun h hp => hp.1)
  copy := by
    intro o n0 ids0
    cases o with
    | table t =>
      refine TripleS.map Obj.table ((Theta.copyCtor_contract C.theta n0 t ids0).conseq (fun h ⟨u, e, _⟩ => ⟨u, e⟩) ?_)
      intro t' h' ⟨u, _, ow⟩
      exact ⟨u, ow⟩
    | kll s => exact TripleS.of_false_pre (fun h hp => hp.1)
    | fi s => exact TripleS.of_false_pre (fun h hp => hp.1)
  move := by
    intro o n0 ids0
    cases o with
    | table t =>
      apply TripleS.pure'
      intro h ⟨u, e, _⟩
      obtain ⟨u1, i2, o1, o2⟩ := Theta.moveCtor_spec' C.theta h t u
      refine ⟨u1, i2, ?_, Owns.same e (fun b hb => e ▸ (Theta.Inv.owned_ids u.inv b hb).1) ?_⟩
      · intro b _ hb2
        have : Theta.owned (Theta.moveCtor t).2 = [] := o2
        simp [spec, combine, thetaClass, this] at hb2
      · intro b
        simp [spec, combine, thetaClass, o1, o2]
    | kll s => exact TripleS.of_false_pre (fun h hp => hp.1)
    | fi s => exact TripleS.of_false_pre (fun h hp => hp.1)
  cassign := by
    intro t o hc n0 ids0
    cases t with
    | table t =>
      cases o with
      | table o =>
        refine TripleS.map Obj.table ((Theta.copyAssign_contract C.theta n0 t o ids0).conseq ?_ (fun _ _ x => x))
        intro h ⟨i, u, _, e, _, lt, _⟩
        exact ⟨i, u, e, lt⟩
      | kll s => simp [Obj.cls] at hc
      | fi s => simp [Obj.cls] at hc
    | kll s => exact TripleS.of_false_pre (fun h hp => hp.1)
    | fi s => exact TripleS.of_false_pre (fun h hp => hp.1)
  massign := by
    intro t o hc n0 ids0
    cases t with
    | table t =>
      cases o with
      | table o =>
        apply TripleS.pure'
        intro h ⟨i, u, dj, e, _⟩
        refine ⟨u, i, fun b hb1 hb2 => dj b hb2 hb1, Owns.same e ?_ ?_⟩
        · intro b hb
          simp only [List.mem_append] at hb
          rcases hb with hb | hb
          · exact e ▸ (Theta.Inv.owned_ids i b hb).1
          · exact e ▸ (Theta.Inv.owned_ids u.inv b hb).1
        · intro b
          simp [spec, combine, thetaClass, Theta.moveAssign, or_comm]
      | kll s => simp [Obj.cls] at hc
      | fi s => simp [Obj.cls] at hc
    | kll s => exact TripleS.of_false_pre (fun h hp => hp.1)
    | fi s => exact TripleS.of_false_pre (fun h hp => hp.1)
  selfmove := by
    intro o n0 ids0
    cases o with
    | table t =>
      apply TripleS.pure'
      intro h ⟨u, e, _⟩
      exact ⟨u, Owns.same e (fun b hb => e ▸ (Theta.Inv.owned_ids u.inv b hb).1) (fun b => Iff.rfl)⟩
    | kll s => exact TripleS.of_false_pre (fun h hp => hp.1)
    | fi s => exact TripleS.of_false_pre (fun h hp => hp.1)
  newTable := by
    intro _ lgK rf theta0 _ n0 ids0
    exact Theta.ctor_contract C.theta n0 _ lgK rf theta0 ids0 (startingSubMultiple_pos hC.2.2)
  tblUpdate := by
    intro t a b n0 ids0
    exact (Theta.update_contract C.theta hC n0 t a b C.comb ids0).conseq (fun h ⟨u, e, _⟩ => ⟨u, e⟩) (fun _ _ x => x)
  tblSer := by
    intro t n0 ids0
    exact (Theta.serialize_contract C.theta n0 t ids0).conseq (fun h ⟨u, e, _, lt, _⟩ => ⟨u, e, lt⟩) (fun _ _ x => x.2)
  tblTrim := by
    intro t n0 ids0
    exact (Theta.trim_contract C.theta n0 t ids0).conseq (fun h ⟨u, e, _⟩ => ⟨u, e⟩) (fun _ _ x => x)
  tblReset := by
    intro t n0 ids0
    exact (Theta.reset_contract C.theta n0 t ids0).conseq (fun h ⟨u, e, _⟩ => ⟨u, e⟩) (fun _ _ x => x)
  newKll := fun h => h.elim
  kllUpdate := fun s a coins n0 ids0 => TripleS.of_false_pre (fun h hp => hp.1)
  kllMerge := fun a b byMove coins n0 ids0 => TripleS.of_false_pre (fun h hp => hp.1)
  kllQuery := fun s n0 ids0 => TripleS.of_false_pre (fun h hp => hp.1)
  kllSer := fun s n0 ids0 => TripleS.of_false_pre (fun h hp => hp.1)
  kllRound := fun s n0 ids0 => TripleS.of_false_pre (fun h hp => hp.1)
  newFi := fun h => h.elim
  fiUpdate := fun s a b n0 ids0 => TripleS.of_false_pre (fun h hp => hp.1)
  fiMerge := fun a b byMove n0 ids0 => TripleS.of_false_pre (fun h hp => hp.1)
  fiQuery := fun s arg n0 ids0 => TripleS.of_false_pre (fun h hp => hp.1)
  fiSer := fun s n0 ids0 => TripleS.of_false_pre (fun h hp => hp.1)
  fiRound := fun s n0 ids0 => TripleS.of_false_pre (fun h hp => hp.1)

end DS.Life

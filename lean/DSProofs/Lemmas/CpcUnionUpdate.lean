/- `reduce_k`, `internal_update`, `get_result` preserve / read out the union invariant (free to change). -/
import DSProofs.Lemmas.CpcUnionStep
namespace DS.Cpc

theorem valid_map_foldRc (L : Nat) (l : List Nat) : ∀ y ∈ l.map (foldRc L), y < 64 * 2^L := by
  intro y hy
  obtain ⟨x, _, rfl⟩ := List.mem_map.1 hy
  exact foldRc_lt _ _

/-! ### reduce_k -/

theorem reduceK_lgK (T : HipTables) (u : Union) (L : Nat) : (reduceK T u L).lgK = L := by
  unfold reduceK
  split
  · rfl
  · split
    · rfl
    · exact settle_lgK _ _

theorem uinv_reduceK (T : HipTables) (u : Union) (ys : List Nat) (L : Nat) (h : UInv u ys) (hL : L ≤ u.lgK) :
    UInv (reduceK T u L) (ys.map (foldRc L)) := by
  unfold reduceK
  split
  · rename_i hacc
    have hm := h.matCase hacc
    refine ⟨valid_map_foldRc L ys, by intro a ha; simp at ha, ?_⟩
    intro _
    have hb := mbits_orRows L (List.replicate (2^L) 0) [] ys (fun i => u.matrix.toArray.getD i 0) (2^u.lgK)
      (mbits_zero _) h.valid
      (by intro i c hi hc; rw [getD_toArray]; exact hm.bits i c hi hc)
      (by intro i c hi hc; rw [getD_toArray]; exact hm.high i c hi hc)
    simp only [List.nil_append] at hb
    exact ⟨hb.len, hb.bits, hb.high, fold_beyond_sparse u.lgK L hL ys h.valid hm.dense⟩
  · rename_i a hacc
    obtain ⟨hl, hinv, hw⟩ := h.accCase a hacc
    split
    · rename_i h0
      have hys : ys = [] := distinct_eq_nil ys (by rw [← hinv.count]; exact h0)
      subst hys
      refine ⟨by simp, ?_, by intro e; simp at e⟩
      intro b hb
      simp only [Option.some.injEq] at hb
      subst hb
      exact ⟨rfl, inv_fresh L, rfl⟩
    · have hwk := inv_walkTable T (fresh L) [] a.table (inv_fresh L)
      simp only [List.nil_append] at hwk
      have hcongr : Inv (walkTable T (fresh L) a.table) (ys.map (foldRc L)) := by
        apply inv_congr _ _ _ hwk
        intro b
        exact mem_map_congr (foldRc L) _ _ (sparse_table_mem a ys hinv (by rw [hl]; exact h.valid) hw) b
      exact uinv_settle L _ _ hcongr (walkTable_lgK T (fresh L) a.table) (valid_map_foldRc L ys)

/-! ### internal_update -/

theorem unionUpdate_eq (T : HipTables) (u : Union) (s : Sketch) :
    unionUpdate T u s =
      if determineFlavor s.lgK s.numCoupons = .empty then u
      else updateBody T (if s.lgK < u.lgK then reduceK T u s.lgK else u) s := rfl

theorem updateBody_lgK (T : HipTables) (u : Union) (s : Sketch) : (updateBody T u s).lgK = u.lgK := by
  unfold updateBody
  simp only
  split
  · split
    · split
      · rfl
      · exact settle_lgK _ _
    · rfl
  · split <;> rfl

theorem uinv_updateBody (T : HipTables) (u : Union) (ys : List Nat) (s : Sketch) (xs : List Nat)
    (h : UInv u ys) (hs : Inv s xs) (hv : ∀ x ∈ xs, x < 64 * 2^s.lgK) (hL : u.lgK ≤ s.lgK)
    (hne : s.numCoupons ≠ 0) :
    UInv (updateBody T u s) (ys ++ xs.map (foldRc u.lgK)) := by
  have hvalid : ∀ y ∈ ys ++ xs.map (foldRc u.lgK), y < 64 * 2^u.lgK := by
    intro y hy
    rcases List.mem_append.1 hy with hy | hy
    · exact h.valid y hy
    · exact valid_map_foldRc _ _ y hy
  have hkpos := Nat.two_pow_pos s.lgK
  unfold updateBody
  simp only
  split
  · rename_i a hacc
    obtain ⟨hl, hinv, hw⟩ := h.accCase a hacc
    split
    · rename_i hsp
      have hsp' := (flavor_sparse_iff _ _).1 hsp
      have hsw : s.window = [] := by
        apply Classical.byContradiction
        intro hw'; have := hs.winC hw'; omega
      split
      · rename_i hrepl
        -- the empty accumulator is replaced by (a copy of) the sketch
        have hys : ys = [] := distinct_eq_nil ys (by rw [← hinv.count]; exact hrepl.1)
        subst hys
        refine ⟨hvalid, ?_, by intro e; simp at e⟩
        intro b hb
        simp only [Option.some.injEq] at hb
        subst hb
        refine ⟨hrepl.2.symm, ?_, hsw⟩
        rw [List.nil_append, hrepl.2, map_foldRc_of_lt _ _ hv]
        exact hs
      · have hwk := inv_walkTable T a ys s.table hinv
        have hcongr : Inv (walkTable T a s.table) (ys ++ xs.map (foldRc u.lgK)) := by
          apply inv_congr _ _ _ hwk
          intro b
          rw [List.mem_append, List.mem_append, hl]
          exact or_congr Iff.rfl (mem_map_congr (foldRc u.lgK) _ _ (sparse_table_mem s xs hs hv hsw) b)
        exact uinv_settle u.lgK _ _ hcongr (by rw [walkTable_lgK, hl]) hvalid
    · rename_i hnsp
      have hns : 3 * 2^s.lgK ≤ 32 * s.numCoupons := by
        have := mt (flavor_sparse_iff s.lgK s.numCoupons).2 hnsp
        apply Classical.byContradiction
        intro hc; exact this ⟨hne, by omega⟩
      refine ⟨hvalid, by intro b hb; simp at hb, ?_⟩
      intro _
      have hm := mbits_buildBitMatrix a ys hinv
      rw [hl] at hm
      have hb := mbits_addDense u.lgK _ ys s xs hm hs hv hns
      exact ⟨hb.len, hb.bits, hb.high, dense_append u.lgK ys s xs hs hv hL hns⟩
  · rename_i hacc
    have hm := h.matCase hacc
    have hmb : MBits (2^u.lgK) u.matrix ys := ⟨hm.len, hm.bits, hm.high⟩
    split
    · rename_i hsp
      have hsp' := (flavor_sparse_iff _ _).1 hsp
      have hsw : s.window = [] := by
        apply Classical.byContradiction
        intro hw'; have := hs.winC hw'; omega
      refine ⟨hvalid, by intro b hb; simp [hacc] at hb, ?_⟩
      intro _
      have hb := mbits_orTable u.lgK u.matrix ys s.table hmb
      have hb' : MBits (2^u.lgK) (orTableIntoMatrix (2^u.lgK) u.matrix s.table) (ys ++ xs.map (foldRc u.lgK)) := by
        apply mbits_congr _ _ _ _ hb
        intro b
        rw [List.mem_append, List.mem_append]
        exact or_congr Iff.rfl (mem_map_congr (foldRc u.lgK) _ _ (sparse_table_mem s xs hs hv hsw) b)
      refine ⟨hb'.len, hb'.bits, hb'.high, ?_⟩
      show 3 * 2^u.lgK ≤ _
      have := distinct_length_mono ys (ys ++ xs.map (foldRc u.lgK)) (fun a ha => List.mem_append_left _ ha)
      have := hm.dense
      omega
    · rename_i hnsp
      have hns : 3 * 2^s.lgK ≤ 32 * s.numCoupons := by
        have := mt (flavor_sparse_iff s.lgK s.numCoupons).2 hnsp
        apply Classical.byContradiction
        intro hc; exact this ⟨hne, by omega⟩
      refine ⟨hvalid, by intro b hb; simp [hacc] at hb, ?_⟩
      intro _
      have hb := mbits_addDense u.lgK _ ys s xs hmb hs hv hns
      exact ⟨hb.len, hb.bits, hb.high, dense_append u.lgK ys s xs hs hv hL hns⟩

theorem unionUpdate_lgK (T : HipTables) (u : Union) (s : Sketch) : (unionUpdate T u s).lgK = lgKAfter u.lgK s := by
  rw [unionUpdate_eq]
  unfold lgKAfter
  split
  · rename_i he; rw [(flavor_empty_iff _ _).1 he]; simp
  · rename_i he
    have : s.numCoupons ≠ 0 := fun e => he ((flavor_empty_iff _ _).2 e)
    rw [updateBody_lgK, if_neg this]
    split
    · rw [reduceK_lgK]; omega
    · omega

/-- **one union update**: the union then holds the old coupons and the source's coupons, all folded to the new lg_k -/
theorem uinv_unionUpdate (T : HipTables) (u : Union) (ys : List Nat) (s : Sketch) (xs : List Nat)
    (h : UInv u ys) (hs : Inv s xs) (hv : ∀ x ∈ xs, x < 64 * 2^s.lgK) :
    UInv (unionUpdate T u s) (ys.map (foldRc (lgKAfter u.lgK s)) ++ xs.map (foldRc (lgKAfter u.lgK s))) := by
  rw [unionUpdate_eq]
  unfold lgKAfter
  split
  · rename_i he
    have h0 := (flavor_empty_iff _ _).1 he
    have hxs : xs = [] := distinct_eq_nil xs (by rw [← hs.count]; exact h0)
    subst hxs
    simp only [h0, if_true, List.map_nil, List.append_nil]
    rw [map_foldRc_of_lt _ _ h.valid]; exact h
  · rename_i he
    have hne : s.numCoupons ≠ 0 := fun e => he ((flavor_empty_iff _ _).2 e)
    rw [if_neg hne]
    split
    · rename_i hlt
      have hmin : min u.lgK s.lgK = s.lgK := by omega
      rw [hmin]
      have hr := uinv_reduceK T u ys s.lgK h (by omega)
      have := uinv_updateBody T (reduceK T u s.lgK) _ s xs hr hs hv (by rw [reduceK_lgK]; omega) hne
      rwa [reduceK_lgK] at this
    · rename_i hge
      have hmin : min u.lgK s.lgK = u.lgK := by omega
      rw [hmin, map_foldRc_of_lt _ _ h.valid]
      exact uinv_updateBody T u ys s xs h hs hv (by omega) hne

/-! ### get_result -/

/-- **get_result** returns a valid sketch of exactly the union's coupons (offset ≤ 56, see Props/C05.lean header) -/
theorem inv_getResult (u : Union) (ys : List Nat) (h : UInv u ys)
    (h56 : determineCorrectOffset u.lgK (distinct ys).length ≤ 56) :
    Inv (getResult u) ys ∧ (getResult u).lgK = u.lgK := by
  unfold getResult
  split
  · rename_i a hacc
    obtain ⟨hl, hinv, hw⟩ := h.accCase a hacc
    split
    · rename_i h0
      have hys : ys = [] := distinct_eq_nil ys (by rw [← hinv.count]; exact h0)
      subst hys
      exact ⟨inv_fresh _, rfl⟩
    · exact ⟨⟨⟨hinv.rep.1, hinv.rep.2, hinv.rep.3, hinv.rep.4, hinv.rep.5, hinv.rep.6, hinv.rep.7⟩,
        hinv.bits, hinv.count, hinv.ficLe, hinv.ficFull, hinv.sparseC, hinv.winC, hinv.offHi, hinv.offLo⟩, hl⟩
  · rename_i hacc
    exact ⟨inv_resultFromMatrix u.lgK u.matrix ys (h.matCase hacc) h.valid h56, rfl⟩

end DS.Cpc

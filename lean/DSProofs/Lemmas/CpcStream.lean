/- Bit streams: `bitsOf` / `valOf` / `peek`, symbol codes, unary codes, word packing (free to change). -/
import DSModel.Cpc.Compress
namespace DS.Cpc

@[simp] theorem length_bitsOf (v n : Nat) : (bitsOf v n).length = n := by simp [bitsOf]

theorem bitsOf_succ (v n : Nat) : bitsOf v (n + 1) = decide (v % 2 = 1) :: bitsOf (v / 2) n := by
  unfold bitsOf
  rw [List.range_succ_eq_map, List.map_cons, List.map_map]
  congr 1
  · exact Nat.testBit_zero v
  · apply List.map_congr_left; intro i _; simp [Nat.testBit_succ]

theorem valOf_bitsOf (v n : Nat) : valOf (bitsOf v n) = v % 2^n := by
  induction n generalizing v with
  | zero => simp [bitsOf, valOf, Nat.mod_one]
  | succ n ih =>
    rw [bitsOf_succ, valOf, ih, Nat.pow_succ]
    have h2 : v % 2 = 0 ∨ v % 2 = 1 := by omega
    have hd := Nat.div_add_mod v 2
    have hm : v % (2^n * 2) = 2 * (v / 2 % 2^n) + v % 2 := by
      rw [Nat.mul_comm (2^n) 2, Nat.mod_mul]; omega
    rcases h2 with h | h <;> simp [h] <;> omega

theorem valOf_append (a b : Bits) : valOf (a ++ b) = valOf a + 2^a.length * valOf b := by
  induction a with
  | nil => simp [valOf]
  | cons x t ih =>
    simp only [List.cons_append, valOf, ih, List.length_cons, Nat.pow_succ]
    rw [Nat.mul_add, ← Nat.mul_assoc, Nat.mul_comm 2 (2^t.length)]
    omega

theorem valOf_lt (a : Bits) : valOf a < 2^a.length := by
  induction a with
  | nil => simp [valOf]
  | cons x t ih =>
    simp only [valOf, List.length_cons, Nat.pow_succ]
    split <;> omega

/-- peeking `n ≥ len` bits of a stream that starts with the `len`-bit codeword `v` -/
theorem peek_bitsOf_append_mod (v len n : Nat) (rest : Bits) (h : len ≤ n) :
    peek n (bitsOf v len ++ rest) % 2^len = v % 2^len := by
  unfold peek
  rw [List.take_append, length_bitsOf, List.take_of_length_le (by simp; exact h), valOf_append, length_bitsOf, valOf_bitsOf]
  rw [Nat.add_mul_mod_self_left, Nat.mod_mod]

/-- peeking exactly the `len` bits of a codeword -/
theorem peek_bitsOf_append (v len : Nat) (rest : Bits) : peek len (bitsOf v len ++ rest) = v % 2^len := by
  unfold peek
  rw [List.take_append, length_bitsOf, List.take_of_length_le (by simp), Nat.sub_self, List.take_zero, List.append_nil,
    valOf_bitsOf]

theorem drop_bitsOf_append (v len : Nat) (rest : Bits) : (bitsOf v len ++ rest).drop len = rest := by
  rw [List.drop_append, length_bitsOf, Nat.sub_self, List.drop_zero, List.drop_of_length_le (by simp), List.nil_append]

/-! ### unary -/

theorem readUnary_unaryBits (n : Nat) (rest : Bits) : readUnary (unaryBits n ++ rest) = (n, rest) := by
  induction n with
  | zero => simp [unaryBits, readUnary]
  | succ n ih =>
    have : unaryBits (n + 1) ++ rest = false :: (unaryBits n ++ rest) := by
      simp [unaryBits, List.replicate_succ]
    rw [this, readUnary, ih]

/-! ### words -/

theorem testBit_valOf (l : Bits) (i : Nat) : (valOf l).testBit i = l.getD i false := by
  induction l generalizing i with
  | nil => simp [valOf]
  | cons b t ih =>
    cases i with
    | zero =>
      rw [Nat.testBit_zero]; simp only [valOf, List.getD_cons_zero]
      cases b <;> simp <;> omega
    | succ i =>
      rw [Nat.testBit_succ, List.getD_cons_succ, ← ih]
      congr 1
      simp only [valOf]; split <;> omega

/-- writing the value of at most `n` bits back as `n` bits appends zeros -/
theorem bitsOf_valOf (l : Bits) (n : Nat) (h : l.length ≤ n) : bitsOf (valOf l) n = l ++ List.replicate (n - l.length) false := by
  apply List.ext_getElem
  · simp; omega
  · intro i h1 h2
    simp only [bitsOf, List.getElem_map, List.getElem_range, testBit_valOf]
    rw [List.getD_eq_getElem?_getD]
    by_cases hi : i < l.length
    · rw [List.getElem_append_left hi, List.getElem?_eq_getElem hi]; rfl
    · rw [List.getElem_append_right (by omega), List.getElem_replicate, List.getElem?_eq_none (by omega)]; rfl

theorem unpackWords_packWords (bs : Bits) : ∃ z, unpackWords (packWords bs) = bs ++ List.replicate z false := by
  induction hn : bs.length using Nat.strongRecOn generalizing bs with
  | _ n ih =>
    by_cases hb : bs = []
    · subst hb; exact ⟨0, by rw [packWords]; simp [unpackWords]⟩
    · rw [packWords, dif_neg hb]
      have hlen : (bs.drop 32).length < n := by
        cases bs with
        | nil => exact absurd rfl hb
        | cons a t => simp only [List.length_drop, List.length_cons] at hn ⊢; omega
      obtain ⟨z, hz⟩ := ih _ hlen (bs.drop 32) rfl
      simp only [unpackWords, List.flatMap_cons] at hz ⊢
      rw [hz, bitsOf_valOf _ 32 (by simp; omega)]
      by_cases h32 : 32 ≤ bs.length
      · refine ⟨z, ?_⟩
        rw [List.length_take, Nat.min_eq_left h32, Nat.sub_self, List.replicate_zero, List.append_nil,
          ← List.append_assoc, List.take_append_drop]
      · have hd : bs.drop 32 = [] := List.drop_of_length_le (by omega)
        have ht : bs.take 32 = bs := List.take_of_length_le (by omega)
        refine ⟨32 - bs.length + z, ?_⟩
        rw [hd, ht, List.nil_append, List.append_assoc, List.replicate_append_replicate]

end DS.Cpc

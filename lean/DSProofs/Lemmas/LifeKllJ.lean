/- C19, KLL sketch part 10: `compress_while_updating`, `internal_update`. -/
import DSProofs.Lemmas.LifeKllI
namespace DS.Life.Kll
open DS.Life

theorem SafeF.bind' {α β} {S} {h : Heap} {m : M α} {f : α → M β} {Q1 : α → Heap → Prop} {Q : β → Heap → Prop}
    (s1 : SafeF S h (m h) Q1) (k : ∀ a h1, Q1 a h1 → h.next ≤ h1.next → SafeF S h1 (f a h1) Q) :
    SafeF S h ((m >>= f) h) Q := by
  rw [bind_eq]
  cases hm : m h with
  | error e =>
    rw [hm] at s1
    cases e <;> simp_all [SafeX, SafeF]
  | ok r =>
    obtain ⟨a, h'⟩ := r
    rw [hm] at s1
    obtain ⟨hq, hfr⟩ := s1
    exact (k a h' hq hfr.2.1).rebase hfr

/-- the items block `b` of a sketch was kept (`b' = b`) or replaced by a block allocated meanwhile; nothing else
    happened to the set of blocks, and the other old blocks look the same -/
structure Realloc (h h' : Heap) (b b' : Nat) : Prop where
  next : h.next ≤ h'.next
  fresh : b' = b ∨ (h.next ≤ b' ∧ b' < h'.next)
  old : ∀ x, x < h.next → x ≠ b → (x ∈ h'.ids ↔ x ∈ h.ids)
  new : ∀ x, h.next ≤ x → (x ∈ h'.ids ↔ x = b')
  self : b ∈ h'.ids ↔ b' = b
  others : ∀ x, x < h.next → x ≠ b → SameOn h h' x

theorem Realloc.of_sameBut {h h' : Heap} {b : Nat} (sb : SameBut h h' (fun b' _ => b' = b))
    (hwf : ∀ x, x ∈ h.ids → x < h.next) (hb : b ∈ h.ids) : Realloc h h' b b := by
  refine ⟨by rw [sb.next]; exact Nat.le_refl _, Or.inl rfl, fun x _ _ => by rw [sb.ids], fun x hx => ?_,
    by rw [sb.ids]; simp [hb], fun x _ hx => sb.sameOn (fun j e => hx e)⟩
  rw [sb.ids]
  constructor
  · intro hm; have := hwf x hm; omega
  · intro e; subst e; exact hb

theorem Realloc.wf {h h' : Heap} {b b' : Nat} (r : Realloc h h' b b') (_hwf : ∀ x, x ∈ h.ids → x < h.next)
    (hblt : b < h.next) : ∀ x, x ∈ h'.ids → x < h'.next := by
  intro x hx
  by_cases hxn : x < h.next
  · have := r.next; omega
  · have e := (r.new x (by omega)).1 hx
    subst e
    rcases r.fresh with e | e
    · omega
    · exact e.2

theorem Realloc.trans {h h' h'' : Heap} {b b' b'' : Nat} (r1 : Realloc h h' b b') (r2 : Realloc h' h'' b' b'')
    (hblt : b < h.next) : Realloc h h'' b b'' := by
  have hn1 := r1.next
  have hn2 := r2.next
  have hb'lt : b' < h'.next := by
    rcases r1.fresh with e | e
    · omega
    · exact e.2
  refine ⟨by omega, ?_, ?_, ?_, ?_, ?_⟩
  · rcases r2.fresh with e | e
    · rcases r1.fresh with e1 | e1
      · left; omega
      · right; omega
    · right; omega
  · intro x hx hxb
    have hxb' : x ≠ b' := by
      rcases r1.fresh with e | e <;> omega
    rw [r2.old x (by omega) hxb', r1.old x hx hxb]
  · intro x hx
    by_cases hx' : x < h'.next
    · by_cases e : x = b'
      · subst e
        rw [r2.self]
        constructor
        · intro e'; exact e'.symm
        · intro e'; exact e'.symm
      · rw [r2.old x hx' e, r1.new x hx]
        constructor
        · intro e'; exact absurd e' e
        · intro e'
          subst e'
          rcases r2.fresh with e2 | e2
          · exact absurd e2 e
          · omega
    · rw [r2.new x (by omega)]
  · by_cases e : b' = b
    · subst e; exact r2.self
    · have hbn : h.next ≤ b' := by rcases r1.fresh with e1 | e1; exact absurd e1 e; exact e1.1
      rw [r2.old b (by omega) (fun e' => e e'.symm)]
      constructor
      · intro hm; exact absurd (r1.self.1 hm) e
      · intro e'
        subst e'
        rcases r2.fresh with e2 | e2
        · omega
        · omega
  · intro x hx hxb
    have hxb' : x ≠ b' := by
      rcases r1.fresh with e | e <;> omega
    exact (r1.others x hx hxb).trans (r2.others x (by omega) hxb')


/-- what a mutation of the items part keeps -/
structure SameMeta (s s' : Sketch) : Prop where
  self : s'.self = s.self
  k : s'.k = s.k
  m : s'.m = s.m
  view : s'.view = s.view

theorem SameMeta.refl (s : Sketch) : SameMeta s s := ⟨rfl, rfl, rfl, rfl⟩
theorem SameMeta.trans {s1 s2 s3 : Sketch} (a : SameMeta s1 s2) (b : SameMeta s2 s3) : SameMeta s1 s3 :=
  ⟨b.self.trans a.self, b.k.trans a.k, b.m.trans a.m, b.view.trans a.view⟩

/-- the items part of a usable sketch -/
structure ItemsOK (h : Heap) (s : Sketch) (b : Nat) : Prop where
  hb : s.items = some b
  lok : LevelsOK s.k s.m s.numLevels s.levels s.itemsSize
  il : ItemsLive h b (s.levels.getD 0 0) s.itemsSize

/-- total weight recorded in the levels -/
def W (s : Sketch) : Nat := sumSampleWeights s.numLevels s.levels

/-- the number of levels is unchanged, or grew by one because the (heavy) top level was compacted -/
def LevelGrowth (s s' : Sketch) : Prop :=
  s'.numLevels = s.numLevels ∨ (s'.numLevels = s.numLevels + 1 ∧ 2 ^ s.numLevels ≤ W s)

theorem compress_spec {S : Nat → Bool} (s : Sketch) {b : Nat} (coins : List Bool) (h : Heap) (hSb : S b = true)
    (hSn : ∀ x, h.next ≤ x → S x = true) (io : ItemsOK h s b) (hm2 : 2 ≤ s.m) (hblt : b < h.next)
    (hwf : ∀ x, x ∈ h.ids → x < h.next) :
    SafeF S h (compressWhileUpdating s coins h)
      (fun r h' => ∃ b', ItemsOK h' r.1 b' ∧ 1 ≤ r.1.levels.getD 0 0 ∧ Realloc h h' b b' ∧ SameMeta s r.1 ∧
        r.1.n = s.n ∧ S b' = true ∧ W r.1 = W s ∧ LevelGrowth s r.1) := by
  obtain ⟨hb, lok, il⟩ := io
  have hbid : b ∈ h.ids := mem_ids_of_HasCells il.cells
  rw [compressWhileUpdating_eq]
  apply SafeF.bind' (findLevel_spec s h (by have := lok.len; omega) (s.numLevels + 1) 0)
  intro level h1 ⟨e1, hlv, hcap⟩ _
  subst e1
  have hpop : 2 ≤ s.levels.getD (level + 1) 0 - s.levels.getD level 0 := by
    have := levelCapacity_ge s.k s.numLevels level s.m; omega
  by_cases htop : level = s.numLevels - 1
  · rw [if_pos htop]
    apply SafeF.bind' (addEmptyTopLevel_spec s h1 hSb (hSn _ (Nat.le_refl _)) hb hblt lok il)
    intro s1 h2 ⟨L', es1, lok1, hgL, il1, oth1, hid1, hnx1, hw1⟩ _
    have r := compactAt_spec (S := S) (b := h1.next) s1 level coins (hSn _ (Nat.le_refl _)) h2 (by rw [es1])
      (by rw [es1]; exact lok1) (by rw [es1]; exact il1)
      (by rw [es1]; simp only; have := lok.nl; omega)
      (by rw [es1]; simp only; rw [hgL _ (by omega), hgL _ (by omega)]; omega)
    refine r.mono ?_
    intro r' h3 ⟨ls3, er, lok3, h13, sb3, il3, hw3⟩
    subst er
    have hgrow : 2 ^ s.numLevels ≤ W s := by
      have hnl := lok.nl
      have e : s.numLevels = (s.numLevels - 1) + 1 := by omega
      have h1' := wsum_top_le (pop s.levels) (s.numLevels - 1)
      rw [← e] at h1'
      have hp : 2 ≤ pop s.levels (s.numLevels - 1) := by
        simp only [pop]; rw [← htop]; exact hpop
      have h2' : 2 ^ (s.numLevels - 1) * 2 ≤ 2 ^ (s.numLevels - 1) * pop s.levels (s.numLevels - 1) :=
        Nat.mul_le_mul_left _ hp
      have h3' : 2 ^ s.numLevels = 2 ^ (s.numLevels - 1) * 2 := by
        conv => lhs; rw [e]
        rw [Nat.pow_succ]
      unfold W
      rw [sumSampleWeights_eq]
      omega
    refine ⟨h1.next, ⟨by rw [es1], lok3, il3⟩, h13, ?_, ⟨by rw [es1], by rw [es1], by rw [es1], by rw [es1]⟩,
      by rw [es1], hSn _ (Nat.le_refl _), ?_, Or.inr ⟨by rw [es1], hgrow⟩⟩
    rotate_left
    · unfold W
      simp only
      rw [hw3, es1]
      exact hw1
    refine ⟨by rw [sb3.next, hnx1]; omega, Or.inr ⟨Nat.le_refl _, by rw [sb3.next, hnx1]; omega⟩, fun x hx hxb => ?_,
      fun x hx => ?_, ?_, fun x hx hxb => ?_⟩
    · rw [sb3.ids, hid1]
      simp only [List.mem_filter, List.mem_cons, bne_iff_ne, ne_eq]
      constructor
      · rintro ⟨e | e, _⟩
        · omega
        · exact e
      · intro e; exact ⟨Or.inr e, hxb⟩
    · rw [sb3.ids, hid1]
      simp only [List.mem_filter, List.mem_cons, bne_iff_ne, ne_eq]
      constructor
      · rintro ⟨e | e, _⟩
        · exact e
        · have := hwf x e; omega
      · intro e; exact ⟨Or.inl e, by omega⟩
    · rw [sb3.ids, hid1]
      simp only [List.mem_filter, List.mem_cons, bne_iff_ne, ne_eq]
      constructor
      · rintro ⟨_, e⟩; exact absurd trivial e
      · intro e; omega
    · exact (oth1 x hxb (by omega)).trans (sb3.sameOn (fun j e => by omega))
  · rw [if_neg htop, pure_bind_apply]
    have r := compactAt_spec (S := S) s level coins hSb h1 hb lok il (by omega) hpop
    refine r.mono ?_
    intro r' h3 ⟨ls3, er, lok3, h13, sb3, il3, hw3⟩
    subst er
    exact ⟨b, ⟨hb, lok3, il3⟩, h13, Realloc.of_sameBut sb3 hwf hbid, ⟨rfl, rfl, rfl, rfl⟩, rfl, hSb, hw3, Or.inl rfl⟩

/-- `internal_update`: afterwards slot `index = levels_[0]` is raw and everything above it is live -/
theorem internalUpdate_spec {S : Nat → Bool} (s : Sketch) {b : Nat} (coins : List Bool) (h : Heap) (hSb : S b = true)
    (hSn : ∀ x, h.next ≤ x → S x = true) (io : ItemsOK h s b) (hm2 : 2 ≤ s.m) (hblt : b < h.next)
    (hwf : ∀ x, x ∈ h.ids → x < h.next) :
    SafeF S h (internalUpdate s coins h)
      (fun r h' => ∃ b', r.1.items = some b' ∧ LevelsOK r.1.k r.1.m r.1.numLevels r.1.levels r.1.itemsSize ∧
        r.1.levels.getD 0 0 = r.2.1 ∧ ItemsLive h' b' (r.2.1 + 1) r.1.itemsSize ∧ r.2.1 < r.1.itemsSize ∧
        Realloc h h' b b' ∧ SameMeta s r.1 ∧ r.1.n = s.n + 1 ∧ S b' = true ∧ W r.1 = W s + 1 ∧ LevelGrowth s r.1) := by
  -- the part after the optional compaction
  have fin : ∀ (s1 : Sketch) (c1 : List Bool) (h1 : Heap) (b1 : Nat), ItemsOK h1 s1 b1 →
      (s.levels.getD 0 0 ≠ 0 ∨ 1 ≤ s1.levels.getD 0 0) → (s.levels.getD 0 0 ≠ 0 → s1 = s) →
      Realloc h h1 b b1 → SameMeta s s1 → s1.n = s.n → S b1 = true → W s1 = W s → LevelGrowth s s1 →
      SafeF S h1 ((do
          let l0 ← lv s1.levels 0
          if l0 = 0 then fail (.pre "--levels_[0] underflow") else
          let levels ← setLv s1.levels 0 (l0 - 1)
          Pure.pure ({ s1 with levels, n := s1.n + 1, lvl0Sorted := false }, l0 - 1, c1)) h1)
        (fun r h' => ∃ b', r.1.items = some b' ∧ LevelsOK r.1.k r.1.m r.1.numLevels r.1.levels r.1.itemsSize ∧
          r.1.levels.getD 0 0 = r.2.1 ∧ ItemsLive h' b' (r.2.1 + 1) r.1.itemsSize ∧ r.2.1 < r.1.itemsSize ∧
          Realloc h h' b b' ∧ SameMeta s r.1 ∧ r.1.n = s.n + 1 ∧ S b' = true ∧ W r.1 = W s + 1 ∧ LevelGrowth s r.1) := by
    intro s1 c1 h1 b1 io1 hpos hsame re sm hn hS1 hw1 hg1
    obtain ⟨hb1, lok1, il1⟩ := io1
    have hlen := lok1.len
    apply step_lv (by omega)
    have hne : s1.levels.getD 0 0 ≠ 0 := by
      rcases hpos with e | e
      · rw [hsame e]; exact e
      · omega
    rw [if_neg hne]
    apply step_setLv _ (by omega)
    apply SafeF.pure
    have h0t : s1.levels.getD 0 0 ≤ s1.itemsSize := lok1.le_top 0 (Nat.zero_le _)
    have e0 : (s1.levels.set 0 (s1.levels.getD 0 0 - 1)).getD 0 0 = s1.levels.getD 0 0 - 1 :=
      getD_set_eq _ _ _ (by omega)
    refine ⟨b1, hb1, ⟨lok1.nl, by simp only [List.length_set]; exact hlen, fun i hi => ?_, ?_, lok1.cap⟩, e0, ?_,
      by simp only; omega, re, ⟨sm.self, sm.k, sm.m, sm.view⟩, by simp only; omega, hS1, ?_, hg1⟩
    · simp only
      rw [getD_set_ne _ _ _ _ (by omega : i + 1 ≠ 0)]
      by_cases e : i = 0
      · subst e; rw [e0]; have := lok1.mono 0 hi; omega
      · rw [getD_set_ne _ _ _ _ e]; exact lok1.mono i hi
    · simp only
      rw [getD_set_ne _ _ _ _ (by have := lok1.nl; omega)]; exact lok1.top
    · simp only
      have e1 : s1.levels.getD 0 0 - 1 + 1 = s1.levels.getD 0 0 := by omega
      rw [e1]; exact il1
    · rw [← hw1]
      unfold W
      simp only
      rw [sumSampleWeights_eq, sumSampleWeights_eq]
      apply wsum_bump0 (by have := lok1.nl; omega)
      · simp only [pop]
        rw [e0, getD_set_ne _ _ _ _ (by omega : 0 + 1 ≠ 0)]
        have := lok1.mono 0 (by have := lok1.nl; omega)
        omega
      · intro l hl
        simp only [pop]
        rw [getD_set_ne _ _ _ _ (by omega : l + 1 ≠ 0), getD_set_ne _ _ _ _ hl]
  unfold internalUpdate
  have hlen := io.lok.len
  apply step_lv (by omega)
  by_cases hz : s.levels.getD 0 0 = 0
  · rw [if_pos hz]
    apply SafeF.bind' (compress_spec s coins h hSb hSn io hm2 hblt hwf)
    intro r h1 ⟨b1, io1, h1p, re, sm, hn, hS1, hw1, hg1⟩ _
    obtain ⟨s1, c1⟩ := r
    exact fin s1 c1 h1 b1 io1 (Or.inr h1p) (fun e => absurd hz e) re sm hn hS1 hw1 hg1
  · rw [if_neg hz, pure_bind_apply]
    exact fin s coins h b io (Or.inl hz) (fun _ => rfl)
      (Realloc.of_sameBut (SameBut.refl _ _) hwf (mem_ids_of_HasCells io.il.cells)) (SameMeta.refl s) rfl hSb rfl (Or.inl rfl)

end DS.Life.Kll

/- Preservation of the cover invariant (part 2: update, query_and_update, get_bits_used, reset). -/
import DSProofs.Lemmas.BloomInv
namespace DS.Bloom

variable {ι : Type} [DecidableEq ι] (P : Params) (fx : Fix) (hf : ι → Nat → Option (Nat × Nat))

omit [DecidableEq ι] in
/-- core of update/query_and_update: the acting filter's content becomes `setBits …`, `x` is recorded -/
theorem cover_insert (hP : P.Layout) (w : World) (g : Ghost ι) (hi : Inv P hf w g) (v : Nat) (f : Filter) (hv : w.filters v = some f)
    (x : ι) (h : Nat × Nat) (hh : hf x f.seed = some h) (nbs : Nat) (d : Bool) (hdr : Option Nat) (l : List ι)
    (hl : ∀ y, y ∈ l → y = x ∨ y ∈ g.under (keyOf v f) f.cfg) :
    Inv P hf (commit P w v f (setBits (w.val f) (f.off P) (indices h.1 h.2 f.capBits f.numHashes)) nbs d hdr)
      (g.set (keyOf v f) f.cfg l) := by
  have hcap : 0 < f.capBits := (hi.2 v f hv).1
  refine ⟨cover_set hi.1 _ _ _ (fun key hk => keyVal_commit_ne P w v f _ _ _ _ hv key hk) ?_, capPos_commit hi.2 v f hv _ _ _ _⟩
  -- old items under this configuration are covered by the old content
  have hold : Covers hf (w.val f) (f.off P) f.cfg (g.under (keyOf v f) f.cfg) := by
    intro y hy h' hh'
    rcases (mem_under g _ _ y).mp hy with ⟨hC, hyS⟩
    have := hi.1 (keyOf v f) y hyS h' (by rw [hC]; exact hh')
    rw [hC] at this
    rw [val_eq_keyVal w v f hv, off_eq_keyOff P v f]; exact this
  have hnew := Covers.cons_setBits (x := x) (h := h) hold hcap hh
  have hsub : Covers hf (setBits (w.val f) (f.off P) (indices h.1 h.2 f.capBits f.numHashes)) (f.off P) f.cfg l :=
    hnew.sub (fun y hy => by
      rcases hl y hy with rfl | hy'
      · exact List.mem_cons_self
      · exact List.mem_cons_of_mem _ hy')
  apply hsub.mono hcap
  intro j _ hb
  rw [← off_eq_keyOff P v f] at *
  have := keyVal_commit_bit P hP w v f (setBits (w.val f) (f.off P) (indices h.1 h.2 f.capBits f.numHashes)) nbs d hdr j
  rw [← off_eq_keyOff P v f] at this
  rw [this]; exact hb

omit [DecidableEq ι] in
theorem ins_list_ok (g : Ghost ι) (k : Key) (c : Cfg) (x : ι) (b : Bool) :
    ∀ y, y ∈ (if b then x :: g.under k c else []) → y = x ∨ y ∈ g.under k c := by
  intro y hy
  cases b with
  | false => simp at hy
  | true => simpa using hy

theorem inv_upd (hP : P.Layout) (w : World) (g : Ghost ι) (hi : Inv P hf w g) (v : Nat) (x : ι) :
    Inv P hf (step P fx hf w (.upd v x)).1 (gstep P hf g w (step P fx hf w (.upd v x)).1 (step P fx hf w (.upd v x)).2 (.upd v x)) := by
  simp only [step, opUpdate, hashFor, gstep]
  cases hv : w.filters v with
  | none => exact hi
  | some f =>
    simp only []
    cases hh : hf x f.seed with
    | none => simp; exact hi
    | some h =>
      by_cases hro : f.readOnly = true
      · simp [hro]; exact hi
      · have hro' : f.readOnly = false := by simpa using hro
        simp only [hro', Bool.false_eq_true, if_false, Option.isNone_some, Bool.or_self]
        exact cover_insert P hf hP w g hi v f hv x h hh _ _ _ _ (ins_list_ok g _ _ x _)

theorem inv_qau (hP : P.Layout) (w : World) (g : Ghost ι) (hi : Inv P hf w g) (v : Nat) (x : ι) :
    Inv P hf (step P fx hf w (.qau v x)).1 (gstep P hf g w (step P fx hf w (.qau v x)).1 (step P fx hf w (.qau v x)).2 (.qau v x)) := by
  simp only [step, opQau, hashFor, gstep]
  cases hv : w.filters v with
  | none => exact hi
  | some f =>
    simp only []
    cases hh : hf x f.seed with
    | none => simp; exact hi
    | some h =>
      by_cases hro : f.readOnly = true
      · simp [hro]; exact hi
      · have hro' : f.readOnly = false := by simpa using hro
        simp only [hro', Bool.false_eq_true, if_false, Option.isNone_some, Bool.or_self]
        have hcont := qauLoop_content (f.off P) (indices h.1 h.2 f.capBits f.numHashes) (w.val f) f.nbs true
        generalize hq : qauLoop (f.off P) (indices h.1 h.2 f.capBits f.numHashes) (w.val f, f.nbs, true) = q at hcont
        obtain ⟨qx, qn, qa⟩ := q
        simp only at hcont
        subst hcont
        by_cases hk : (f.numHashes == 0) = true
        · simp only [hk, if_true]
          -- world unchanged; the recorded item has no index bits at all
          have hk0 : f.cfg.k = 0 := by simpa [Filter.cfg] using hk
          refine ⟨?_, hi.2⟩
          intro key
          by_cases e : key = keyOf v f
          · subst e; simp only [Ghost.set_S_same, Ghost.set_C_same]; exact covers_of_k0 hf _ _ _ _ hk0
          · rw [Ghost.set_S_ne _ _ _ e, Ghost.set_C_ne _ _ _ e]; exact hi.1 key
        · simp only [hk, Bool.false_eq_true, if_false]
          by_cases hd : (fx.qauKeepsDirty && f.dirty) = true
          · simp only [hd, if_true]
            exact cover_insert P hf hP w g hi v f hv x h hh _ _ _ _ (ins_list_ok g _ _ x _)
          · simp only [hd, Bool.false_eq_true, if_false]
            exact cover_insert P hf hP w g hi v f hv x h hh _ _ _ _ (ins_list_ok g _ _ x _)

theorem inv_bits (w : World) (g : Ghost ι) (hi : Inv P hf w g) (v : Nat) :
    Inv P hf (opBitsUsed P w v).1 (gstep P hf g w (opBitsUsed P w v).1 (opBitsUsed P w v).2 (.bits v)) := by
  simp only [opBitsUsed, gstep]
  cases hv : w.filters v with
  | none => exact hi
  | some f =>
    by_cases hd : f.dirty = true
    · simp only [hd, if_true]
      refine ⟨cover_frame hi.1 ?_, capPos_setFilter hi.2 _ _ (hi.2 v f hv)⟩
      intro key
      cases key with
      | mem m => rfl
      | own v' =>
        by_cases e : v' = v
        · subst e; simp [keyVal, World.setFilter, hv]
        · exact keyVal_setFilter_own_ne _ _ _ _ e
    · simp [hd]; exact hi

theorem inv_reset (w : World) (g : Ghost ι) (hi : Inv P hf w g) (v : Nat) :
    Inv P hf (opReset P w v).1 (gstep P hf g w (opReset P w v).1 (opReset P w v).2 (.reset v)) := by
  cases hv : w.filters v with
  | none => simp only [opReset, gstep, hv]; exact hi
  | some f =>
    by_cases hro : f.readOnly = true
    · simp [opReset, gstep, hv, hro]; exact hi
    · have hro' : f.readOnly = false := by simpa using hro
      simp only [opReset, gstep, hv, hro', Bool.false_eq_true, if_false, if_true]
      exact ⟨cover_set hi.1 _ _ _ (fun key hk => keyVal_commit_ne P w v f _ _ _ _ hv key hk) (Covers.nil _ _ _ _),
             capPos_commit hi.2 v f hv _ _ _ _⟩

end DS.Bloom

/- Whole-history invariant of the union gadget when no precision reduction is ever needed (helper lemmas for Props/C04.lean). -/
import DSProofs.Lemmas.HllUnion
import DSProofs.Lemmas.HllArrays
namespace DS.Hll

variable {ν : Type} [HNum ν]

/-! ### A. the HLL-mode gadget: registers + "reports empty only if all registers are zero" -/

/-- invariant of a gadget in HLL mode; its kxq / curMin / numAtCurMin may be stale (deferred rebuild), but never so stale that
a non-empty gadget reports `isEmpty` (that is exactly what breaks after a down-sampling, D1) -/
structure GH (p : Params) (g : St ν) (M : Nat → Prop) : Prop where
  mode : g.mode = .hll
  tt8 : g.tt = .h8
  size : g.regs.size = 2^g.lgK
  regs : ∀ slot, slot < 2^g.lgK → IsMaxAt p g.lgK M slot (g.regs.getD slot 0)
  num_le : g.numAtCurMin ≤ 2^g.lgK
  empty_sound : isEmpty g = true → ∀ slot, slot < 2^g.lgK → g.regs.getD slot 0 = 0

theorem isEmpty_hll {g : St ν} (hm : g.mode = .hll) : isEmpty g = true ↔ (g.curMin = 0 ∧ g.numAtCurMin = 2^g.lgK) := by
  unfold isEmpty; rw [hm]; simp

theorem bumpPair_h8 (regs : Array Nat) (cm n old : Nat) :
    bumpPair .h8 regs cm n old = (cm, if old = 0 then n - 1 else n) := by
  unfold bumpPair
  by_cases h : old = 0 <;> simp [h]

theorem maxUpdate_spec (p : Params) {lgK : Nat} {regs : Array Nat} {M : Nat → Prop} (hsz : regs.size = 2^lgK)
    (h : ∀ slot, slot < 2^lgK → IsMaxAt p lgK M slot (regs.getD slot 0)) (c : Nat) :
    (maxUpdate p lgK regs c).size = 2^lgK ∧
    ∀ slot, slot < 2^lgK → IsMaxAt p lgK (fun x => M x ∨ x = c) slot ((maxUpdate p lgK regs c).getD slot 0) := by
  have hslot := cSlot_lt p lgK c
  have hs : cSlot p lgK c < regs.size := by rw [hsz]; exact hslot
  unfold maxUpdate
  by_cases hlt : regs.getD (cSlot p lgK c) 0 < cValue p c
  · rw [if_pos hlt]
    refine ⟨by simp [hsz], fun slot hsl => ?_⟩
    have hm := h slot hsl
    by_cases he : slot = cSlot p lgK c
    · subst he
      rw [getD_setIfInBounds_self hs]
      refine ⟨?_, Or.inr ⟨c, Or.inr rfl, rfl, rfl⟩⟩
      rintro x (hx | rfl) hxs
      · have := hm.1 x hx hxs; omega
      · omega
    · rw [getD_setIfInBounds_ne (Ne.symm he)]
      refine ⟨?_, ?_⟩
      · rintro x (hx | rfl) hxs
        · exact hm.1 x hx hxs
        · exact absurd hxs.symm he
      · rcases hm.2 with h0 | ⟨x, hx, hxs, hxv⟩
        · exact Or.inl h0
        · exact Or.inr ⟨x, Or.inl hx, hxs, hxv⟩
  · rw [if_neg hlt]
    refine ⟨hsz, fun slot hsl => ?_⟩
    have hm := h slot hsl
    refine ⟨?_, ?_⟩
    · rintro x (hx | rfl) hxs
      · exact hm.1 x hx hxs
      · rw [← hxs]; omega
    · rcases hm.2 with h0 | ⟨x, hx, hxs, hxv⟩
      · exact Or.inl h0
      · exact Or.inr ⟨x, Or.inl hx, hxs, hxv⟩

/-- a coupon offered to an HLL-mode gadget -/
theorem GH.hllUpdate {p : Params} {g : St ν} {M : Nat → Prop} (h : GH p g M) (c : Nat) :
    GH p (hllUpdate p g c) (fun x => M x ∨ x = c) ∧ (hllUpdate p g c).lgK = g.lgK ∧ (hllUpdate p g c).startFull = g.startFull := by
  have hf := hllUpdate_fields p g c
  have hslot := cSlot_lt p g.lgK c
  have hs : cSlot p g.lgK c < g.regs.size := by rw [h.size]; exact hslot
  have hmu := maxUpdate_spec p h.size h.regs c
  have hregs : (DS.Hll.hllUpdate p g c).regs = maxUpdate p g.lgK g.regs c := by
    unfold DS.Hll.hllUpdate maxUpdate
    rw [if_neg (by rw [h.tt8]; simp)]
    by_cases hlt : g.regs.getD (cSlot p g.lgK c) 0 < cValue p c
    · rw [if_pos hlt, if_pos hlt]; rfl
    · rw [if_neg hlt, if_neg hlt]
  refine ⟨⟨hf.2.2.1.trans h.mode, hf.2.1.trans h.tt8, by rw [hregs, hf.1]; exact hmu.1,
    by rw [hregs, hf.1]; exact hmu.2, ?_, ?_⟩, hf.1, hf.2.2.2.2.2⟩
  · -- num_le
    unfold DS.Hll.hllUpdate
    rw [if_neg (by rw [h.tt8]; simp)]
    by_cases hlt : g.regs.getD (cSlot p g.lgK c) 0 < cValue p c
    · rw [if_pos hlt, raiseReg_numAtCurMin, raiseReg_lgK, h.tt8, bumpPair_h8]
      have := h.num_le
      by_cases ho : g.regs.getD (cSlot p g.lgK c) 0 = 0
      · rw [if_pos ho]; omega
      · rw [if_neg ho]; omega
    · rw [if_neg hlt]; exact h.num_le
  · -- empty_sound
    intro he
    have hm' : (DS.Hll.hllUpdate p g c).mode = .hll := hf.2.2.1.trans h.mode
    rw [isEmpty_hll hm'] at he
    revert he
    unfold DS.Hll.hllUpdate
    rw [if_neg (by rw [h.tt8]; simp)]
    by_cases hlt : g.regs.getD (cSlot p g.lgK c) 0 < cValue p c
    · rw [if_pos hlt, raiseReg_curMin, raiseReg_numAtCurMin, raiseReg_lgK, raiseReg_regs, h.tt8, bumpPair_h8]
      by_cases ho : g.regs.getD (cSlot p g.lgK c) 0 = 0
      · rw [if_pos ho]
        intro he
        have := h.num_le
        have hp : 0 < 2^g.lgK := Nat.two_pow_pos _
        omega
      · rw [if_neg ho]
        intro he
        have := h.empty_sound ((isEmpty_hll h.mode).2 he) _ hslot
        exact absurd this ho
    · rw [if_neg hlt]
      intro he
      exact h.empty_sound ((isEmpty_hll h.mode).2 he)

theorem GH.congr {p : Params} {g : St ν} {M N : Nat → Prop} (h : GH p g M) (hmn : ∀ c, M c ↔ N c) : GH p g N :=
  ⟨h.mode, h.tt8, h.size, fun slot hs => IsMaxAt.congr hmn (h.regs slot hs), h.num_le, h.empty_sound⟩

theorem GH.foldl {p : Params} : ∀ (l : List Nat) {g : St ν} {M : Nat → Prop}, GH p g M →
    GH p (l.foldl (DS.Hll.hllUpdate p) g) (fun x => M x ∨ x ∈ l) ∧ (l.foldl (DS.Hll.hllUpdate p) g).lgK = g.lgK ∧
    (l.foldl (DS.Hll.hllUpdate p) g).startFull = g.startFull
  | [], g, M, h => ⟨h.congr (by simp), rfl, rfl⟩
  | a :: l, g, M, h => by
    have st := h.hllUpdate a
    have ih := GH.foldl l st.1
    simp only [List.foldl_cons]
    refine ⟨ih.1.congr ?_, ih.2.1.trans st.2.1, ih.2.2.trans st.2.2⟩
    intro c
    simp only [List.mem_cons]
    constructor
    · rintro ((h1 | h1) | h1)
      · exact Or.inl h1
      · exact Or.inr (Or.inl h1)
      · exact Or.inr (Or.inr h1)
    · rintro (h1 | h1 | h1)
      · exact Or.inl (Or.inl h1)
      · exact Or.inl (Or.inr h1)
      · exact Or.inr h1

/-! ### B. copying an HLL-mode input as HLL_8 -/

theorem count_zero_eq_size_iff {a : Array Nat} : a.count 0 = a.size → ∀ i, i < a.size → a.getD i 0 = 0 := by
  intro hc i hi
  rw [Array.count_eq_size] at hc
  rw [getD_eq_getElem hi]
  exact (hc _ (Array.getElem_mem hi)).symm

/-- the converting constructor to HLL_8: curMin stays 0, numAtCurMin := number of zero registers -/
theorem convertTo_h8_counts (p : Params) (s : St ν) (hsz : s.regs.size = 2^s.lgK) :
    (convertTo p s .h8).curMin = 0 ∧ (convertTo p s .h8).numAtCurMin = s.regs.count 0 := by
  let t0 : St ν := { (newHll s.lgK .h8 s.startFull : St ν) with ooo := s.ooo }
  have h0 : HInv p t0 (fun _ => False) := by
    have := HInv.newHll (ν := ν) p s.lgK .h8 s.startFull
    exact ⟨this.size, this.regs, this.cm_le, this.cnt4, this.cnt68⟩
  let l := (List.range s.regs.size).map (fun i => cPair p i (s.regs.getD i 0))
  have hi := h0.foldl l
  have hf := foldl_hllUpdate_fields p l t0
  have h68 := hi.cnt68 (by rw [hf.2.1]; simp [t0, newHll])
  have e1 : (convertTo p s .h8).curMin = (l.foldl (hllUpdate p) t0).curMin := by
    unfold convertTo
    simp only
    rw [replayRegs_eq]
  have e2 : (convertTo p s .h8).numAtCurMin = 2^s.lgK - nonZeroCount s.regs := rfl
  refine ⟨e1.trans h68.1, ?_⟩
  rw [e2]
  unfold nonZeroCount
  rw [hsz]
  have : s.regs.count 0 ≤ s.regs.size := Array.count_le_size
  rw [hsz] at this
  omega

/-- `copyAs(HLL_8)` of a well-formed HLL-mode sketch (direct copy or converting constructor) is a good gadget -/
theorem copyAs_h8_GH {p : Params} {s : St ν} {M : Nat → Prop} (hm : s.mode = .hll) (h : HInv p s M) (hk : s.lgK ≤ p.keyBits) :
    GH p (copyAs p s .h8) M ∧ (copyAs p s .h8).lgK = s.lgK := by
  have hpre := copyAs_preserves p s .h8 (fun _ => h.size) hk
  obtain ⟨pm, pk, ptt, pregs, _⟩ := hpre
  have hcnt : (copyAs p s .h8).curMin = 0 ∧ (copyAs p s .h8).numAtCurMin = s.regs.count 0 := by
    unfold copyAs
    rw [hm]
    simp only
    by_cases hc : TType.h8 = s.tt ∧ s.rebuild = false
    · rw [if_pos hc]
      exact h.cnt68 (by rw [← hc.1]; simp)
    · rw [if_neg hc]
      exact convertTo_h8_counts p s h.size
  refine ⟨⟨pm.trans hm, ptt, by rw [pregs, pk]; exact h.size, by rw [pregs, pk]; exact h.regs, ?_, ?_⟩, pk⟩
  · rw [hcnt.2, pk]
    have : s.regs.count 0 ≤ s.regs.size := Array.count_le_size
    rw [h.size] at this; exact this
  · intro he
    rw [isEmpty_hll (pm.trans hm), hcnt.2, pk] at he
    rw [pregs, pk]
    intro slot hs
    exact count_zero_eq_size_iff (by rw [he.2, h.size]) slot (by rw [h.size]; exact hs)

/-! ### C. check_rebuild_kxq_cur_min -/

theorem rebuild_fold_spec : ∀ (l : List Nat) (cm n : Nat) (k0 k1 : ν) (pre : List Nat),
    (∀ x, x ∈ pre → cm ≤ x) → n = (pre.filter (· = cm)).length →
    let r := l.foldl rebuildStep (cm, n, k0, k1)
    (∀ x, x ∈ pre ++ l → r.1 ≤ x) ∧ r.2.1 = ((pre ++ l).filter (· = r.1)).length
  | [], cm, n, k0, k1, pre, h1, h2 => by simpa using ⟨h1, h2⟩
  | v :: l, cm, n, k0, k1, pre, h1, h2 => by
    intro r
    have key : ∃ cm' n' k0' k1', rebuildStep (cm, n, k0, k1) v = (cm', n', k0', k1') ∧
        (∀ x, x ∈ pre ++ [v] → cm' ≤ x) ∧ n' = ((pre ++ [v]).filter (· = cm')).length := by
      unfold rebuildStep
      simp only
      by_cases hgt : v > cm
      · rw [if_pos hgt]
        refine ⟨cm, n, _, _, rfl, ?_, ?_⟩
        · intro x hx
          rcases List.mem_append.1 hx with hx | hx
          · exact h1 x hx
          · simp only [List.mem_singleton] at hx; omega
        · rw [List.filter_append, List.length_append, ← h2]
          simp [show ¬ v = cm by omega]
      · rw [if_neg hgt]
        by_cases hlt : v < cm
        · rw [if_pos hlt]
          refine ⟨v, 1, _, _, rfl, ?_, ?_⟩
          · intro x hx
            rcases List.mem_append.1 hx with hx | hx
            · have := h1 x hx; omega
            · simp only [List.mem_singleton] at hx; omega
          · rw [List.filter_append, List.length_append]
            have : pre.filter (· = v) = [] := by
              rw [List.filter_eq_nil_iff]
              intro x hx; have := h1 x hx; simp; omega
            rw [this]; simp
        · rw [if_neg hlt]
          have hv : v = cm := by omega
          refine ⟨cm, n + 1, _, _, rfl, ?_, ?_⟩
          · intro x hx
            rcases List.mem_append.1 hx with hx | hx
            · exact h1 x hx
            · simp only [List.mem_singleton] at hx; omega
          · rw [List.filter_append, List.length_append, ← h2]
            simp [hv]
    obtain ⟨cm', n', k0', k1', hstep, g1, g2⟩ := key
    have ih := rebuild_fold_spec l cm' n' k0' k1' (pre ++ [v]) g1 g2
    have hr : r = l.foldl rebuildStep (cm', n', k0', k1') := by simp [r, hstep]
    rw [hr]
    simpa [List.append_assoc] using ih

theorem checkRebuild_fields (g : St ν) : (checkRebuild g).regs = g.regs ∧ (checkRebuild g).lgK = g.lgK ∧
    (checkRebuild g).mode = g.mode ∧ (checkRebuild g).tt = g.tt ∧ (checkRebuild g).startFull = g.startFull := by
  unfold checkRebuild
  by_cases hc : g.mode = .hll ∧ g.rebuild = true
  · rw [if_pos hc]; exact ⟨rfl, rfl, rfl, rfl, rfl⟩
  · rw [if_neg hc]; exact ⟨rfl, rfl, rfl, rfl, rfl⟩

theorem checkRebuild_counts (g : St ν) (hc : g.mode = .hll ∧ g.rebuild = true) :
    (checkRebuild g).curMin = (g.regs.toList.foldl rebuildStep (64, 0, (HNum.ofNat (2^g.lgK) : ν), HNum.ofNat 0)).1 ∧
    (checkRebuild g).numAtCurMin = (g.regs.toList.foldl rebuildStep (64, 0, (HNum.ofNat (2^g.lgK) : ν), HNum.ofNat 0)).2.1 := by
  unfold checkRebuild
  rw [if_pos hc]
  exact ⟨rfl, rfl⟩

theorem checkRebuild_GH {p : Params} {g : St ν} {M : Nat → Prop} (h : GH p g M) :
    GH p (checkRebuild g) M ∧ (checkRebuild g).lgK = g.lgK ∧ (checkRebuild g).startFull = g.startFull := by
  have hf := checkRebuild_fields g
  by_cases hc : g.mode = .hll ∧ g.rebuild = true
  · have hcnt := checkRebuild_counts g hc
    have sp := rebuild_fold_spec (ν := ν) g.regs.toList 64 0 (HNum.ofNat (2^g.lgK)) (HNum.ofNat 0) [] (by simp) (by simp)
    simp only [List.nil_append] at sp
    obtain ⟨s1, s2⟩ := sp
    refine ⟨⟨hf.2.2.1.trans h.mode, hf.2.2.2.1.trans h.tt8, by rw [hf.1, hf.2.1]; exact h.size,
      by rw [hf.1, hf.2.1]; exact h.regs, ?_, ?_⟩, hf.2.1, hf.2.2.2.2⟩
    · rw [hcnt.2, s2, hf.2.1, ← h.size, ← Array.length_toList]
      exact List.length_filter_le _ _
    · intro he
      rw [isEmpty_hll (hf.2.2.1.trans h.mode), hcnt.1, hcnt.2, hf.2.1] at he
      obtain ⟨e1, e2⟩ := he
      rw [s2, e1] at e2
      rw [hf.1, hf.2.1]
      intro slot hs
      have hlen : (g.regs.toList.filter (· = 0)).length = g.regs.toList.length := by
        rw [e2, Array.length_toList, h.size]
      have hall := List.filter_eq_self.1 (List.Sublist.eq_of_length List.filter_sublist hlen)
      have hs' : slot < g.regs.size := by rw [h.size]; exact hs
      rw [getD_eq_getElem hs']
      have := hall (g.regs[slot]) (by simp)
      simpa using this
  · have : checkRebuild g = g := by unfold checkRebuild; rw [if_neg hc]
    rw [this]; exact ⟨h, rfl, rfl⟩

/-! ### D. field preservation, HLL-mode runs -/

theorem HInv.toGH {p : Params} {s : St ν} {M : Nat → Prop} (h : HInv p s M) (hm : s.mode = .hll) (h8 : s.tt = .h8) : GH p s M := by
  have h68 := h.cnt68 (by rw [h8]; simp)
  refine ⟨hm, h8, h.size, h.regs, ?_, ?_⟩
  · rw [h68.2, ← h.size]; exact Array.count_le_size
  · intro he
    rw [isEmpty_hll hm, h68.2] at he
    intro slot hs
    exact count_zero_eq_size_iff (by rw [he.2, h.size]) slot (by rw [h.size]; exact hs)

theorem setAdd_tt (p : Params) (s : St ν) (c : Nat) : (setAdd p s c).1.tt = s.tt := by
  unfold setAdd
  by_cases h1 : s.tbl.contains c = true
  · rw [if_pos h1]
  · rw [if_neg h1]
    simp only
    split
    · split <;> rfl
    · rfl

theorem foldl_setAdd_tt (p : Params) : ∀ (l : List Nat) (t : St ν), (l.foldl (fun t c => (setAdd p t c).1) t).tt = t.tt
  | [], _ => rfl
  | a :: l, t => by
    simp only [List.foldl_cons]
    rw [foldl_setAdd_tt p l, setAdd_tt]

theorem couponUpdate_tt (p : Params) (s : St ν) (c : Nat) : (couponUpdate p s c).tt = s.tt := by
  unfold couponUpdate
  by_cases hc : c = 0
  · rw [if_pos hc]
  · rw [if_neg hc]
    cases hm : s.mode with
    | hll => simp only; exact (hllUpdate_fields p s c).2.1
    | list =>
      simp only
      unfold listUpdate
      by_cases h1 : s.tbl.contains c = true
      · rw [if_pos h1]
      · rw [if_neg h1]
        simp only
        split
        · split
          · exact (promoteToHll_inv p _).2.2.2.1
          · unfold promoteListToSet
            simp only
            rw [foldl_setAdd_tt]
        · rfl
    | set =>
      simp only
      unfold setUpdate
      simp only
      split
      · rw [(promoteToHll_inv p _).2.2.2.1, setAdd_tt]
      · exact setAdd_tt p s c

theorem run_tt (p : Params) : ∀ (l : List Nat) (s : St ν), (run p s l).tt = s.tt
  | [], _ => rfl
  | a :: l, s => by
    simp only [run, List.foldl_cons]
    have := run_tt p l (couponUpdate p s a)
    simp only [run] at this
    rw [this, couponUpdate_tt]

theorem run_hll (p : Params) : ∀ (l : List Nat) (s : St ν), s.mode = .hll → (∀ c, c ∈ l → c ≠ 0) →
    run p s l = l.foldl (hllUpdate p) s
  | [], _, _, _ => rfl
  | a :: l, s, hm, hz => by
    simp only [run, List.foldl_cons]
    have e : couponUpdate p s a = hllUpdate p s a := by
      unfold couponUpdate
      rw [if_neg (hz a List.mem_cons_self), hm]
    rw [e]
    have := run_hll p l (hllUpdate p s a) ((hllUpdate_fields p s a).2.2.1.trans hm) (fun c hc => hz c (List.mem_cons_of_mem _ hc))
    simpa [run] using this

theorem RInv.with_tt {p : Params} {k : Nat} {s : St ν} {cs : List Nat} (h : RInv p k s cs) (hm : s.mode ≠ .hll) (t : TType) :
    RInv p k ({ s with tt := t } : St ν) cs :=
  ⟨h.lgK_eq, h.sf, h.ph, h.items_perm, fun hm' => absurd hm' hm⟩

theorem RInv.mem_items {p : Params} {k : Nat} {s : St ν} {cs : List Nat} (h : RInv p k s cs) (hm : s.mode ≠ .hll) (c : Nat) :
    c ∈ s.items ↔ (c ∈ cs ∧ c ≠ 0) := by
  rw [(h.items_perm hm).mem_iff, mem_distinct]

theorem RInv.isEmpty_iff {p : Params} {k : Nat} {s : St ν} {cs : List Nat} (h : RInv p k s cs) (hm : s.mode ≠ .hll) :
    isEmpty s = true ↔ ∀ c, c ∈ cs → c = 0 := by
  have hie : isEmpty s = true ↔ s.items.length = 0 := by
    unfold isEmpty
    cases hmm : s.mode with
    | hll => exact absurd hmm hm
    | list => simp
    | set => simp
  rw [hie]
  constructor
  · intro hl c hc
    apply Classical.byContradiction
    intro h0
    have := (h.mem_items hm c).2 ⟨hc, h0⟩
    rw [List.length_eq_zero_iff] at hl
    rw [hl] at this; simp at this
  · intro hall
    rw [List.length_eq_zero_iff, List.eq_nil_iff_forall_not_mem]
    intro c hc
    have := (h.mem_items hm c).1 hc
    exact this.2 (hall c this.1)

/-! ### E. the gadget invariant -/

/-- `cs` = every coupon offered to the union since the last reset -/
structure GInv (p : Params) (lgMaxK : Nat) (g : St ν) (cs : List Nat) : Prop where
  lgk : g.lgK = lgMaxK
  tt8 : g.tt = .h8
  pos : ∀ c, c ∈ cs → c ≠ 0 → 0 < cValue p c
  nonhll : g.mode ≠ .hll → ∃ cs', RInv p lgMaxK g cs' ∧ ∀ c, c ≠ 0 → (c ∈ cs' ↔ c ∈ cs)
  hll : g.mode = .hll → GH p g (fun c => c ∈ cs ∧ c ≠ 0)

theorem GInv.new (p : Params) (lgMaxK : Nat) : GInv p lgMaxK (newSketch p lgMaxK .h8 false : St ν) [] := by
  refine ⟨rfl, rfl, by simp, fun _ => ⟨[], RInv.init p lgMaxK .h8, by simp⟩, fun hm => ?_⟩
  simp [newSketch, newList] at hm

/-- a gadget that reports empty holds nothing -/
theorem GInv.empty_content {p : Params} {lgMaxK : Nat} {g : St ν} {cs : List Nat} (h : GInv p lgMaxK g cs)
    (he : isEmpty g = true) : ∀ c, c ∈ cs → c = 0 := by
  intro c hc
  apply Classical.byContradiction
  intro h0
  by_cases hm : g.mode = .hll
  · have gh := h.hll hm
    have hsl := cSlot_lt p g.lgK c
    have := (gh.regs _ hsl).1 c ⟨hc, h0⟩ rfl
    rw [gh.empty_sound he _ hsl] at this
    have := h.pos c hc h0
    omega
  · obtain ⟨cs', hr, hmem⟩ := h.nonhll hm
    have := (hr.isEmpty_iff hm).1 he c ((hmem c h0).2 hc)
    exact h0 this

/-- from the invariant of a sketch that came out of `run`: the invariant a gadget needs -/
theorem GInv.of_RInv {p : Params} {lgMaxK : Nat} {g : St ν} {cs0 cs : List Nat} (hr : RInv p lgMaxK g cs0) (h8 : g.tt = .h8)
    (hmem : ∀ c, c ≠ 0 → (c ∈ cs0 ↔ c ∈ cs)) (hpos : ∀ c, c ∈ cs → c ≠ 0 → 0 < cValue p c) : GInv p lgMaxK g cs := by
  refine ⟨hr.lgK_eq, h8, hpos, fun _ => ⟨cs0, hr, hmem⟩, fun hm => ?_⟩
  refine ((hr.hll hm).toGH hm h8).congr ?_
  intro c
  constructor
  · rintro ⟨h1, h2⟩; exact ⟨(hmem c h2).1 h1, h2⟩
  · rintro ⟨h1, h2⟩; exact ⟨(hmem c h2).2 h1, h2⟩

/-- a raw item's coupon -/
theorem GInv.coupon {p : Params} (hp : p.listFitsSet) {lgMaxK : Nat} {g : St ν} {cs : List Nat} (h : GInv p lgMaxK g cs)
    (c : Nat) (hc : c ≠ 0 → 0 < cValue p c) : GInv p lgMaxK (couponUpdate p g c) (cs ++ [c]) := by
  have hpos : ∀ x, x ∈ cs ++ [c] → x ≠ 0 → 0 < cValue p x := by
    intro x hx h0
    rcases List.mem_append.1 hx with hx | hx
    · exact h.pos x hx h0
    · simp only [List.mem_singleton] at hx; subst hx; exact hc h0
  by_cases hm : g.mode = .hll
  · have gh := h.hll hm
    by_cases hc0 : c = 0
    · have e : couponUpdate p g c = g := by unfold couponUpdate; rw [if_pos hc0]
      rw [e]
      refine ⟨h.lgk, h.tt8, hpos, fun hm' => absurd hm hm', fun _ => gh.congr ?_⟩
      intro x; subst hc0
      simp only [List.mem_append, List.mem_singleton]
      constructor
      · rintro ⟨h1, h2⟩; exact ⟨Or.inl h1, h2⟩
      · rintro ⟨h1 | h1, h2⟩
        · exact ⟨h1, h2⟩
        · exact absurd h1 h2
    · have e : couponUpdate p g c = hllUpdate p g c := by unfold couponUpdate; rw [if_neg hc0, hm]
      rw [e]
      have st := gh.hllUpdate c
      refine ⟨st.2.1.trans h.lgk, st.1.tt8, hpos, fun hm' => absurd st.1.mode hm', fun _ => st.1.congr ?_⟩
      intro x
      simp only [List.mem_append, List.mem_singleton]
      constructor
      · rintro (⟨h1, h2⟩ | h1)
        · exact ⟨Or.inl h1, h2⟩
        · subst h1; exact ⟨Or.inr rfl, hc0⟩
      · rintro ⟨h1 | h1, h2⟩
        · exact Or.inl ⟨h1, h2⟩
        · exact Or.inr h1
  · obtain ⟨cs0, hr, hmem⟩ := h.nonhll hm
    have st := hr.step hp c
    refine GInv.of_RInv st ((couponUpdate_tt p g c).trans h.tt8) ?_ hpos
    intro x hx
    simp only [List.mem_append, List.mem_singleton]
    rw [hmem x hx]

theorem GInv.run {p : Params} (hp : p.listFitsSet) {lgMaxK : Nat} : ∀ (l : List Nat) {g : St ν} {cs : List Nat},
    GInv p lgMaxK g cs → (∀ c, c ∈ l → c ≠ 0 → 0 < cValue p c) → GInv p lgMaxK (DS.Hll.run p g l) (cs ++ l)
  | [], g, cs, h, _ => by simpa [DS.Hll.run] using h
  | a :: l, g, cs, h, hl => by
    have st := h.coupon hp a (hl a List.mem_cons_self)
    have ih := GInv.run hp l st (fun c hc => hl c (List.mem_cons_of_mem _ hc))
    simpa [DS.Hll.run, List.append_assoc] using ih

/-- weaken / strengthen the recorded stream by coupons that are EMPTY or already present -/
theorem GInv.congr {p : Params} {lgMaxK : Nat} {g : St ν} {cs cs' : List Nat} (h : GInv p lgMaxK g cs)
    (hmem : ∀ c, c ≠ 0 → (c ∈ cs ↔ c ∈ cs')) (hpos : ∀ c, c ∈ cs' → c ≠ 0 → 0 < cValue p c) : GInv p lgMaxK g cs' := by
  refine ⟨h.lgk, h.tt8, hpos, fun hm => ?_, fun hm => (h.hll hm).congr ?_⟩
  · obtain ⟨cs0, hr, hm0⟩ := h.nonhll hm
    exact ⟨cs0, hr, fun c hc => (hm0 c hc).trans (hmem c hc)⟩
  · intro c
    constructor
    · rintro ⟨h1, h2⟩; exact ⟨(hmem c h2).1 h1, h2⟩
    · rintro ⟨h1, h2⟩; exact ⟨(hmem c h2).2 h1, h2⟩

/-! ### F. update with a sketch, estimate call, reset -/

theorem copyAs_nonhll (p : Params) (s : St ν) (t : TType) (hm : s.mode ≠ .hll) : copyAs p s t = { s with tt := t } := by
  unfold copyAs
  cases hmm : s.mode with
  | hll => exact absurd hmm hm
  | list => rfl
  | set => rfl

/-- what `union_impl` needs to know about an HLL-mode source: its registers are the per-slot maxima of its coupons and its
HLL_8 copy is a good gadget -/
structure SrcH (p : Params) (lgMaxK : Nat) (src : St ν) (S : Nat → Prop) : Prop where
  lgk : src.lgK = lgMaxK
  size : src.regs.size = 2^src.lgK
  regs : ∀ i, i < 2^src.lgK → IsMaxAt p src.lgK S i (src.regs.getD i 0)
  copy : GH p (copyAs p src .h8) S
  copy_lgk : (copyAs p src .h8).lgK = src.lgK

theorem SrcH.of_HInv {p : Params} {lgMaxK : Nat} {src : St ν} {S : Nat → Prop} (hm : src.mode = .hll) (h : HInv p src S)
    (hl : src.lgK = lgMaxK) (hkb : lgMaxK ≤ p.keyBits) : SrcH p lgMaxK src S :=
  have c := copyAs_h8_GH hm h (by rw [hl]; exact hkb)
  ⟨hl, h.size, h.regs, c.1, c.2⟩

/-- a gadget (HLL_8, possibly with a pending rebuild) as the source of `union_impl` (rvalue adoption swaps the two) -/
theorem SrcH.of_GH {p : Params} {lgMaxK : Nat} {g : St ν} {S : Nat → Prop} (h : GH p g S) (hl : g.lgK = lgMaxK)
    (hkb : lgMaxK ≤ p.keyBits) : SrcH p lgMaxK g S := by
  have hpre := copyAs_preserves p g .h8 (fun _ => h.size) (by rw [hl]; exact hkb)
  obtain ⟨pm, pk, ptt, pregs, _⟩ := hpre
  refine ⟨hl, h.size, h.regs, ?_, pk⟩
  by_cases hc : TType.h8 = g.tt ∧ g.rebuild = false
  · have e : copyAs p g .h8 = g := by unfold copyAs; rw [h.mode]; simp only; rw [if_pos hc]
    rw [e]; exact h
  · have e : copyAs p g .h8 = convertTo p g .h8 := by unfold copyAs; rw [h.mode]; simp only; rw [if_neg hc]
    have hcnt := convertTo_h8_counts p g h.size
    rw [← e] at hcnt
    refine ⟨pm.trans h.mode, ptt, by rw [pregs, pk]; exact h.size, by rw [pregs, pk]; exact h.regs, ?_, ?_⟩
    · rw [hcnt.2, pk, ← h.size]; exact Array.count_le_size
    · intro he
      rw [isEmpty_hll (pm.trans h.mode), hcnt.2, pk] at he
      rw [pregs, pk]
      intro slot hs
      exact count_zero_eq_size_iff (by rw [he.2, h.size]) slot (by rw [h.size]; exact hs)

theorem GInv.unionImpl {p : Params} (hp : p.listFitsSet) {lgMaxK : Nat} (hkb : lgMaxK ≤ p.keyBits) {u : Un ν} {cs : List Nat}
    (hu : u.lgMaxK = lgMaxK) (h : GInv p lgMaxK u.gadget cs) (src : St ν) (scs : List Nat)
    (hsl : src.mode ≠ .hll → RInv p src.lgK src scs)
    (hsh : src.mode = .hll → SrcH p lgMaxK src (fun c => c ∈ scs ∧ c ≠ 0))
    (hpos : ∀ c, c ∈ scs → c ≠ 0 → 0 < cValue p c) :
    GInv p lgMaxK (DS.Hll.unionImpl p u src).gadget (cs ++ scs) ∧ (DS.Hll.unionImpl p u src).lgMaxK = lgMaxK := by
  have hposall : ∀ c, c ∈ cs ++ scs → c ≠ 0 → 0 < cValue p c := by
    intro c hc h0
    rcases List.mem_append.1 hc with hc | hc
    · exact h.pos c hc h0
    · exact hpos c hc h0
  unfold DS.Hll.unionImpl
  simp only
  by_cases hm : src.mode ≠ .hll
  · rw [if_pos hm]
    have hr := hsl hm
    by_cases hcnd : isEmpty u.gadget = true ∧ src.lgK = u.gadget.lgK
    · -- the empty gadget is replaced by a copy of the LIST / SET input
      rw [if_pos hcnd]
      refine ⟨?_, hu⟩
      simp only
      rw [copyAs_nonhll p src .h8 hm]
      have hk : src.lgK = lgMaxK := hcnd.2.trans h.lgk
      have hr' : RInv p lgMaxK ({ src with tt := .h8 } : St ν) scs := by
        have h1 := hr.with_tt hm .h8
        exact ⟨hk, h1.sf, by rw [← hk]; exact h1.ph, h1.items_perm, h1.hll⟩
      refine GInv.of_RInv hr' rfl ?_ hposall
      intro c hc
      have hz := h.empty_content hcnd.1
      simp only [List.mem_append]
      constructor
      · intro h1; exact Or.inr h1
      · rintro (h1 | h1)
        · exact absurd (hz c h1) hc
        · exact h1
    · rw [if_neg hcnd]
      refine ⟨?_, hu⟩
      simp only
      have hrun : src.items.foldl (couponUpdate p) u.gadget = DS.Hll.run p u.gadget src.items := rfl
      rw [hrun]
      have hi := GInv.run hp src.items h (by
        intro c hc h0
        exact hpos c ((hr.mem_items hm c).1 hc).1 h0)
      refine hi.congr ?_ hposall
      intro c hc
      simp only [List.mem_append]
      rw [hr.mem_items hm c]
      constructor
      · rintro (h1 | h1)
        · exact Or.inl h1
        · exact Or.inr h1.1
      · rintro (h1 | h1)
        · exact Or.inl h1
        · exact Or.inr ⟨h1, hc⟩
  · rw [if_neg hm]
    have hm' : src.mode = .hll := by
      cases hx : src.mode with
      | hll => rfl
      | list => exact absurd (by rw [hx]; simp) hm
      | set => exact absurd (by rw [hx]; simp) hm
    have hH := hsh hm'
    have hlk := hH.lgk
    have hcopy : copyOrDownsample p src u.lgMaxK = copyAs p src .h8 := by
      unfold copyOrDownsample; rw [if_pos (by rw [hu, hlk]; exact Nat.le_refl _)]
    have hcg : GH p (copyAs p src .h8) (fun c => c ∈ scs ∧ c ≠ 0) ∧ (copyAs p src .h8).lgK = src.lgK := ⟨hH.copy, hH.copy_lgk⟩
    by_cases he : isEmpty u.gadget = true
    · -- the empty gadget is replaced by a copy of the HLL input
      have : (!isEmpty u.gadget) = false := by rw [he]; rfl
      rw [this]
      simp only [Bool.false_eq_true, if_false]
      refine ⟨?_, hu⟩
      rw [hcopy]
      have hz := h.empty_content he
      refine ⟨hcg.2.trans hlk, hcg.1.tt8, hposall, fun hmm => absurd hcg.1.mode hmm, fun _ => hcg.1.congr ?_⟩
      intro c
      simp only [List.mem_append]
      constructor
      · rintro ⟨h1, h2⟩; exact ⟨Or.inr h1, h2⟩
      · rintro ⟨h1 | h1, h2⟩
        · exact absurd (hz c h1) h2
        · exact ⟨h1, h2⟩
    · have hne : isEmpty u.gadget = false := by
        cases hx : isEmpty u.gadget with
        | true => exact absurd hx he
        | false => rfl
      rw [hne]
      simp only [Bool.not_false, if_true]
      by_cases hgm : u.gadget.mode ≠ .hll
      · -- LIST / SET gadget: the input is copied and the gadget's coupons are merged into the copy
        rw [if_pos hgm]
        refine ⟨?_, hu⟩
        simp only
        rw [hcopy]
        obtain ⟨cs0, hr0, hmem0⟩ := h.nonhll hgm
        have hf := GH.foldl u.gadget.items hcg.1
        unfold mergeList
        refine ⟨hf.2.1.trans (hcg.2.trans hlk), hf.1.tt8, hposall, fun hmm => absurd hf.1.mode hmm, fun _ => hf.1.congr ?_⟩
        intro c
        simp only [List.mem_append]
        rw [hr0.mem_items hgm c]
        constructor
        · rintro (⟨h1, h2⟩ | ⟨h1, h2⟩)
          · exact ⟨Or.inr h1, h2⟩
          · exact ⟨Or.inl ((hmem0 c h2).1 h1), h2⟩
        · rintro ⟨h1 | h1, h2⟩
          · exact Or.inr ⟨(hmem0 c h2).2 h1, h2⟩
          · exact Or.inl ⟨h1, h2⟩
      · -- HLL gadget of the same lg_k: register-wise maximum
        rw [if_neg hgm]
        have hgm' : u.gadget.mode = .hll := by
          cases hx : u.gadget.mode with
          | hll => rfl
          | list => exact absurd (by rw [hx]; simp) hgm
          | set => exact absurd (by rw [hx]; simp) hgm
        have gh := h.hll hgm'
        have hnolt : ¬ src.lgK < u.gadget.lgK := by rw [hlk, h.lgk]; exact Nat.lt_irrefl _
        refine ⟨?_, hu⟩
        simp only
        rw [if_neg hnolt]
        have hmc := mergeRegs_content p (M := fun c => c ∈ cs ∧ c ≠ 0) (N := fun c => c ∈ scs ∧ c ≠ 0)
          (dst := u.gadget.regs) (src := src.regs) (lgK := u.gadget.lgK) (lgS := src.lgK)
          (by rw [hlk, h.lgk]; exact Nat.le_refl _) gh.size hH.size gh.regs hH.regs
        have hsz := (mergeRegs_spec u.gadget.regs u.gadget.lgK src.regs gh.size).1
        refine ⟨h.lgk, gh.tt8, hposall, fun hmm => absurd hgm' hmm, fun _ => ⟨hgm', gh.tt8, hsz, ?_, gh.num_le, ?_⟩⟩
        · intro slot hs
          refine IsMaxAt.congr ?_ (hmc slot hs)
          intro c
          simp only [List.mem_append]
          constructor
          · rintro (⟨h1, h2⟩ | ⟨h1, h2⟩)
            · exact ⟨Or.inl h1, h2⟩
            · exact ⟨Or.inr h1, h2⟩
          · rintro ⟨h1 | h1, h2⟩
            · exact Or.inl ⟨h1, h2⟩
            · exact Or.inr ⟨h1, h2⟩
        · intro he'
          have e1 : isEmpty ({ mergeHll u.gadget src with ooo := true, hip := HNum.ofNat 0 } : St ν) = isEmpty u.gadget := by
            unfold isEmpty mergeHll; rfl
          rw [e1, hne] at he'
          exact absurd he' (by simp)

theorem GInv.unionUpdate {p : Params} (hp : p.listFitsSet) {lgMaxK : Nat} (hkb : lgMaxK ≤ p.keyBits) {u : Un ν} {cs : List Nat}
    (hu : u.lgMaxK = lgMaxK) (h : GInv p lgMaxK u.gadget cs) (src : St ν) (scs : List Nat)
    (hsl : src.mode ≠ .hll → RInv p src.lgK src scs)
    (hsh : src.mode = .hll → SrcH p lgMaxK src (fun c => c ∈ scs ∧ c ≠ 0))
    (hpos : ∀ c, c ∈ scs → c ≠ 0 → 0 < cValue p c)
    (hemp : isEmpty src = true → ∀ c, c ∈ scs → c = 0) :
    GInv p lgMaxK (DS.Hll.unionUpdate p u src).gadget (cs ++ scs) ∧ (DS.Hll.unionUpdate p u src).lgMaxK = lgMaxK := by
  unfold DS.Hll.unionUpdate
  by_cases he : isEmpty src = true
  · rw [if_pos he]
    refine ⟨h.congr ?_ ?_, hu⟩
    · intro c hc
      simp only [List.mem_append]
      constructor
      · intro h1; exact Or.inl h1
      · rintro (h1 | h1)
        · exact h1
        · exact absurd (hemp he c h1) hc
    · intro c hc h0
      rcases List.mem_append.1 hc with hc | hc
      · exact h.pos c hc h0
      · exact hpos c hc h0
  · rw [if_neg he]
    exact h.unionImpl hp hkb hu src scs hsl hsh hpos

/-- `update(hll_sketch&&)`: the adoption shortcut swaps gadget and argument and then merges the old gadget back -/
theorem GInv.unionUpdateRv {p : Params} (hp : p.listFitsSet) {lgMaxK : Nat} (hkb : lgMaxK ≤ p.keyBits) {u : Un ν} {cs : List Nat}
    (hu : u.lgMaxK = lgMaxK) (h : GInv p lgMaxK u.gadget cs) (src : St ν) (scs : List Nat)
    (hsl : src.mode ≠ .hll → RInv p src.lgK src scs)
    (hsh : src.mode = .hll → SrcH p lgMaxK src (fun c => c ∈ scs ∧ c ≠ 0) ∧ HInv p src (fun c => c ∈ scs ∧ c ≠ 0))
    (hpos : ∀ c, c ∈ scs → c ≠ 0 → 0 < cValue p c)
    (hemp : isEmpty src = true → ∀ c, c ∈ scs → c = 0) :
    GInv p lgMaxK (DS.Hll.unionUpdateRv p u src).gadget (cs ++ scs) ∧ (DS.Hll.unionUpdateRv p u src).lgMaxK = lgMaxK := by
  unfold DS.Hll.unionUpdateRv
  by_cases he : isEmpty src = true
  · rw [if_pos he]
    refine ⟨h.congr ?_ ?_, hu⟩
    · intro c hc
      simp only [List.mem_append]
      constructor
      · intro h1; exact Or.inl h1
      · rintro (h1 | h1)
        · exact h1
        · exact absurd (hemp he c h1) hc
    · intro c hc h0
      rcases List.mem_append.1 hc with hc | hc
      · exact h.pos c hc h0
      · exact hpos c hc h0
  · rw [if_neg he]
    by_cases had : isEmpty u.gadget = true ∧ src.tt = .h8 ∧ src.lgK ≤ u.lgMaxK ∧ (src.mode = .hll ∨ src.lgK = u.lgMaxK)
    · rw [if_pos had]
      obtain ⟨hge, h8, _, hdis⟩ := had
      -- the adopted sketch is a good gadget for its own coupons
      have hsk : src.lgK = lgMaxK := by
        by_cases hm : src.mode = .hll
        · exact (hsh hm).1.lgk
        · rcases hdis with hd | hd
          · exact absurd hd hm
          · exact hd.trans hu
      have hgs : GInv p lgMaxK src scs := by
        refine ⟨hsk, h8, hpos, fun hm => ⟨scs, ?_, fun _ _ => Iff.rfl⟩, fun hm => (hsh hm).2.toGH hm h8⟩
        have := hsl hm
        rw [hsk] at this; exact this
      have hz := h.empty_content hge
      have hposall : ∀ c, c ∈ cs ++ scs → c ≠ 0 → 0 < cValue p c := by
        intro c hc h0
        rcases List.mem_append.1 hc with hc | hc
        · exact h.pos c hc h0
        · exact hpos c hc h0
      by_cases hgm : u.gadget.mode = .hll
      · have r := GInv.unionImpl hp hkb (u := { u with gadget := src }) hu hgs u.gadget cs
          (fun hm => absurd hgm hm) (fun _ => SrcH.of_GH (h.hll hgm) h.lgk hkb) h.pos
        refine ⟨r.1.congr ?_ hposall, r.2⟩
        intro c _; simp only [List.mem_append]; exact Or.comm
      · obtain ⟨cs0, hr0, hmem0⟩ := h.nonhll hgm
        have r := GInv.unionImpl hp hkb (u := { u with gadget := src }) hu hgs u.gadget cs0
          (fun _ => by rw [h.lgk]; exact hr0) (fun hm => absurd hm hgm)
          (fun c hc h0 => h.pos c ((hmem0 c h0).1 hc) h0)
        refine ⟨r.1.congr ?_ hposall, r.2⟩
        intro c hc
        simp only [List.mem_append]
        rw [hmem0 c hc]; exact Or.comm
    · rw [if_neg had]
      exact h.unionImpl hp hkb hu src scs hsl (fun hm => (hsh hm).1) hpos

theorem GInv.touch {p : Params} {lgMaxK : Nat} {g : St ν} {cs : List Nat} (h : GInv p lgMaxK g cs) :
    GInv p lgMaxK (checkRebuild g) cs := by
  by_cases hm : g.mode = .hll
  · have st := checkRebuild_GH (h.hll hm)
    exact ⟨st.2.1.trans h.lgk, st.1.tt8, h.pos, fun hmm => absurd st.1.mode hmm, fun _ => st.1⟩
  · have : checkRebuild g = g := by
      unfold checkRebuild; rw [if_neg (fun hc => hm hc.1)]
    rw [this]; exact h

theorem GInv.reset {p : Params} {lgMaxK : Nat} {g : St ν} {cs : List Nat} (h : GInv p lgMaxK g cs) :
    GInv p lgMaxK (DS.Hll.reset p g) [] := by
  unfold DS.Hll.reset
  by_cases hsf : g.startFull = true
  · rw [if_pos hsf, h.lgk, h.tt8]
    have hn := HInv.newHll (ν := ν) p lgMaxK .h8 true
    refine ⟨rfl, rfl, by simp, fun hmm => absurd rfl hmm, fun hmm => ((hn.toGH rfl rfl).congr (by simp))⟩
  · rw [if_neg hsf, h.lgk, h.tt8]
    refine ⟨rfl, rfl, by simp, fun _ => ⟨[], RInv.init p lgMaxK .h8, by simp⟩, fun hmm => ?_⟩
    simp [newList] at hmm

/-! ### G. whole histories -/

/-- the histories for which the full statements ARE proved: lvalue or rvalue updates whose HLL-mode inputs have exactly lg_k = lg_max_k
(LIST / SET inputs of any lg_k), raw items, estimate calls and resets in any interleaving; coupons are genuine (a nonzero
coupon has a positive value, as every `HllUtil::coupon` has). What is missing for the full statements is exactly the two
defects: inputs that force a precision reduction (D1, and D14 after a reset). -/
def NoReduction (ν : Type) [HNum ν] (p : Params) (lgMaxK : Nat) (ops : List UOp) : Prop :=
  ∀ op, op ∈ ops → match op with
    | .merge d _ => d.lgK ≤ p.keyBits ∧ ((d.build p : St ν).mode = .hll → d.lgK = lgMaxK) ∧
        ∀ c, c ∈ d.cs → c ≠ 0 → 0 < cValue p c
    | .coupon c => c ≠ 0 → 0 < cValue p c
    | _ => True

theorem union_gadget_inv_aux (p : Params) (hp : p.listFitsSet) (lgMaxK : Nat) (hkb : lgMaxK ≤ p.keyBits) :
    ∀ (ops : List UOp) (u : Un ν) (cs : List Nat), u.lgMaxK = lgMaxK → GInv p lgMaxK u.gadget cs → NoReduction ν p lgMaxK ops →
      GInv p lgMaxK (uRun p u ops).gadget (ops.foldl offeredStep cs) ∧ (uRun p u ops).lgMaxK = lgMaxK
  | [], u, cs, hu, hg, _ => ⟨hg, hu⟩
  | op :: ops, u, cs, hu, hg, hok => by
    have hop := hok op List.mem_cons_self
    have hrest : NoReduction ν p lgMaxK ops := fun o ho => hok o (List.mem_cons_of_mem _ ho)
    have step : GInv p lgMaxK (uStep p u op).gadget (offeredStep cs op) ∧ (uStep p u op).lgMaxK = lgMaxK := by
      cases op with
      | coupon c =>
        exact ⟨hg.coupon hp c hop, hu⟩
      | touch => exact ⟨hg.touch, hu⟩
      | reset => exact ⟨hg.reset, hu⟩
      | merge d rv =>
        obtain ⟨hdk, hdl, hdv⟩ := hop
        show GInv p lgMaxK (uStep p u (.merge d rv)).gadget (cs ++ d.cs) ∧ (uStep p u (.merge d rv)).lgMaxK = lgMaxK
        have hemp : isEmpty (d.build p : St ν) = true → ∀ c, c ∈ d.cs → c = 0 :=
          (isEmpty_run_iff (ν := ν) p hp d.lgK d.tt d.sf d.cs hdv).1
        cases hsf : d.sf with
        | false =>
          have hR := RInv.run hp d.cs (RInv.init (ν := ν) p d.lgK d.tt)
          simp only [List.nil_append] at hR
          have hb : (d.build p : St ν) = run p (newList p d.lgK d.tt) d.cs := by
            unfold SkDesc.build newSketch; rw [hsf]; rfl
          rw [hb] at hemp hdl
          cases rv with
          | false =>
            show GInv p lgMaxK (unionUpdate p u (d.build p)).gadget (cs ++ d.cs) ∧ (unionUpdate p u (d.build p)).lgMaxK = lgMaxK
            rw [hb]
            exact hg.unionUpdate hp hkb hu _ d.cs (fun _ => by rw [hR.lgK_eq]; exact hR)
              (fun hm => SrcH.of_HInv hm (hR.hll hm) (hR.lgK_eq.trans (hdl hm)) hkb) hdv hemp
          | true =>
            show GInv p lgMaxK (unionUpdateRv p u (d.build p)).gadget (cs ++ d.cs) ∧ (unionUpdateRv p u (d.build p)).lgMaxK = lgMaxK
            rw [hb]
            exact hg.unionUpdateRv hp hkb hu _ d.cs (fun _ => by rw [hR.lgK_eq]; exact hR)
              (fun hm => ⟨SrcH.of_HInv hm (hR.hll hm) (hR.lgK_eq.trans (hdl hm)) hkb, hR.hll hm⟩) hdv hemp
        | true =>
          have hS := run_startFull p d.cs (s := (newHll d.lgK d.tt true : St ν)) (cs := []) rfl
            (by have := HInv.newHll (ν := ν) p d.lgK d.tt true
                exact ⟨this.size, fun slot hs => IsMaxAt.congr (by simp) (this.regs slot hs), this.cm_le, this.cnt4, this.cnt68⟩)
          simp only [List.nil_append] at hS
          have hb : (d.build p : St ν) = run p (newHll d.lgK d.tt true) d.cs := by
            unfold SkDesc.build newSketch; rw [hsf]; rfl
          rw [hb] at hemp hdl
          cases rv with
          | false =>
            show GInv p lgMaxK (unionUpdate p u (d.build p)).gadget (cs ++ d.cs) ∧ (unionUpdate p u (d.build p)).lgMaxK = lgMaxK
            rw [hb]
            exact hg.unionUpdate hp hkb hu _ d.cs (fun hm => absurd hS.1 hm)
              (fun hm => SrcH.of_HInv hm hS.2.2.2 (hS.2.1.trans (hdl hm)) hkb) hdv hemp
          | true =>
            show GInv p lgMaxK (unionUpdateRv p u (d.build p)).gadget (cs ++ d.cs) ∧ (unionUpdateRv p u (d.build p)).lgMaxK = lgMaxK
            rw [hb]
            exact hg.unionUpdateRv hp hkb hu _ d.cs (fun hm => absurd hS.1 hm)
              (fun hm => ⟨SrcH.of_HInv hm hS.2.2.2 (hS.2.1.trans (hdl hm)) hkb, hS.2.2.2⟩) hdv hemp
    have ih := union_gadget_inv_aux p hp lgMaxK hkb ops (uStep p u op) (offeredStep cs op) step.2 step.1 hrest
    simpa [uRun] using ih

/-- coupons offered by a history without resets -/
theorem mem_offered_aux : ∀ (ops : List UOp) (acc : List Nat) (c : Nat),
    (∀ o, o ∈ ops → o ≠ .reset) →
    (c ∈ ops.foldl offeredStep acc ↔ (c ∈ acc ∨ ∃ o, o ∈ ops ∧ c ∈ offeredStep [] o))
  | [], acc, c, _ => by simp
  | o :: ops, acc, c, hnr => by
    simp only [List.foldl_cons]
    rw [mem_offered_aux ops (offeredStep acc o) c (fun x hx => hnr x (List.mem_cons_of_mem _ hx))]
    have ho := hnr o List.mem_cons_self
    have e : c ∈ offeredStep acc o ↔ (c ∈ acc ∨ c ∈ offeredStep [] o) := by
      cases o with
      | merge d rv => simp [offeredStep]
      | coupon x => simp [offeredStep]
      | touch => simp [offeredStep]
      | reset => exact absurd rfl ho
    rw [e]
    simp only [List.mem_cons]
    constructor
    · rintro ((h1 | h1) | ⟨x, hx, h1⟩)
      · exact Or.inl h1
      · exact Or.inr ⟨o, Or.inl rfl, h1⟩
      · exact Or.inr ⟨x, Or.inr hx, h1⟩
    · rintro (h1 | ⟨x, rfl | hx, h1⟩)
      · exact Or.inl (Or.inl h1)
      · exact Or.inl (Or.inr h1)
      · exact Or.inr ⟨x, hx, h1⟩

end DS.Hll

/- C19 helper lemmas for the KLL sketch: generic view-level steps for the derived primitives (copy/move
   construct, move/copy assign), the optional<T> members, `sortRange`, and checked `levels_` access. -/
import DSModel.Life.Kll
import DSProofs.Lemmas.LifeSort
import DSProofs.Lemmas.LifeThetaG
namespace DS.Life

/-! ### a block looks the same in two heaps (state view and size) -/
structure SameOn (h h' : Heap) (b : Nat) : Prop where
  st : ∀ j, stAt h' b j = stAt h b j
  cells : ∀ m, HasCells h b m → HasCells h' b m

theorem SameOn.refl (h : Heap) (b : Nat) : SameOn h h b := ⟨fun _ => rfl, fun _ x => x⟩

theorem SameOn.trans {h1 h2 h3 : Heap} {b : Nat} (a : SameOn h1 h2 b) (c : SameOn h2 h3 b) : SameOn h1 h3 b :=
  ⟨fun j => (c.st j).trans (a.st j), fun m x => c.cells m (a.cells m x)⟩

theorem SameBut.sameOn {h h' : Heap} {X : Nat → Nat → Prop} (sb : SameBut h h' X) {b : Nat} (hx : ∀ j, ¬ X b j) :
    SameOn h h' b := ⟨fun j => sb.st b j (hx j), fun m x => sb.cells b m x⟩

theorem SameOn.of_find? {h h' : Heap} {b : Nat} (e : h'.find? b = h.find? b) : SameOn h h' b :=
  ⟨fun j => stAt_congr e j, fun _ x => HasCells_congr e x⟩

/-! ### derived primitives -/

theorem vstep_copyConstruct {β} {S} {h : Heap} {sb si sn db di dn v : Nat} {f : Unit → M β} {Q : β → Heap → Prop}
    (hcs : HasCells h sb sn) (hsi : si < sn) (hl : stAt h sb si = .live v)
    (hcd : HasCells h db dn) (hdi : di < dn) (hr : stAt h db di = .raw) (hS : S db = true)
    (s : ∀ h', SameBut h h' (fun b' j => b' = db ∧ j = di) → stAt h' db di = .live v → SafeF S h' (f () h') Q) :
    SafeF S h ((copyConstruct sb si db di >>= f) h) Q := by
  unfold copyConstruct
  simp only [M.bind_assoc]
  apply vstep_read hcs hsi hl
  apply vstep_construct v hcd hdi hr hS
  intro h1 sb1 _ hst1
  exact s h1 sb1 hst1

theorem vstep_moveConstruct {β} {S} {h : Heap} {sb si sn db di dn v : Nat} {f : Unit → M β} {Q : β → Heap → Prop}
    (hcs : HasCells h sb sn) (hsi : si < sn) (hl : stAt h sb si = .live v)
    (hcd : HasCells h db dn) (hdi : di < dn) (hr : stAt h db di = .raw) (hSs : S sb = true) (hSd : S db = true)
    (s : ∀ h', SameBut h h' (fun b' j => (b' = sb ∧ j = si) ∨ (b' = db ∧ j = di)) →
          stAt h' db di = .live v → stAt h' sb si = .moved → SafeF S h' (f () h') Q) :
    SafeF S h ((moveConstruct sb si db di >>= f) h) Q := by
  have hne : ¬ (db = sb ∧ di = si) := by
    rintro ⟨rfl, rfl⟩
    rw [hl] at hr; cases hr
  unfold moveConstruct
  simp only [M.bind_assoc]
  apply vstep_moveFrom hcs hsi hl hSs
  intro h1 sb1 _ hst1
  have hr1 : stAt h1 db di = .raw := by rw [sb1.st db di (fun x => hne x)]; exact hr
  apply vstep_construct v (sb1.cells _ _ hcd) hdi hr1 hSd
  intro h2 sb2 _ hst2
  have hne' : ¬ (sb = db ∧ si = di) := fun x => hne ⟨x.1.symm, x.2.symm⟩
  apply s h2 (sb1.trans sb2 (fun _ _ x => Or.inl x) (fun _ _ x => Or.inr x)) hst2
  rw [sb2.st sb si hne', hst1]

theorem vstep_moveAssignSlot {β} {S} {h : Heap} {sb si sn db di dn v : Nat} {f : Unit → M β} {Q : β → Heap → Prop}
    (hcs : HasCells h sb sn) (hsi : si < sn) (hl : stAt h sb si = .live v)
    (hcd : HasCells h db dn) (hdi : di < dn) (hr : stAt h db di ≠ .raw) (hne : ¬ (db = sb ∧ di = si))
    (hSs : S sb = true) (hSd : S db = true)
    (s : ∀ h', SameBut h h' (fun b' j => (b' = sb ∧ j = si) ∨ (b' = db ∧ j = di)) →
          stAt h' db di = .live v → stAt h' sb si = .moved → SafeF S h' (f () h') Q) :
    SafeF S h ((moveAssignSlot sb si db di >>= f) h) Q := by
  unfold moveAssignSlot
  simp only [M.bind_assoc]
  apply vstep_moveFrom hcs hsi hl hSs
  intro h1 sb1 _ hst1
  have hr1 : stAt h1 db di ≠ .raw := by rw [sb1.st db di (fun x => hne x)]; exact hr
  apply vstep_assign v (sb1.cells _ _ hcd) hdi hr1 hSd
  intro h2 sb2 _ hst2
  have hne' : ¬ (sb = db ∧ si = di) := fun x => hne ⟨x.1.symm, x.2.symm⟩
  apply s h2 (sb1.trans sb2 (fun _ _ x => Or.inl x) (fun _ _ x => Or.inr x)) hst2
  rw [sb2.st sb si hne', hst1]

theorem vstep_copyAssignSlot {β} {S} {h : Heap} {sb si sn db di dn v : Nat} {f : Unit → M β} {Q : β → Heap → Prop}
    (hcs : HasCells h sb sn) (hsi : si < sn) (hl : stAt h sb si = .live v)
    (hcd : HasCells h db dn) (hdi : di < dn) (hr : stAt h db di ≠ .raw) (hSd : S db = true)
    (s : ∀ h', SameBut h h' (fun b' j => b' = db ∧ j = di) → stAt h' db di = .live v → SafeF S h' (f () h') Q) :
    SafeF S h ((copyAssignSlot sb si db di >>= f) h) Q := by
  unfold copyAssignSlot
  simp only [M.bind_assoc]
  apply vstep_read hcs hsi hl
  apply vstep_assign v hcd hdi hr hSd
  intro h1 sb1 _ hst1
  exact s h1 sb1 hst1

/-! ### `moveFromAny`, `constructSt` -/

theorem vstep_moveFromAny {β} {S} {h : Heap} {b i n : Nat} {f : Slot → M β} {Q : β → Heap → Prop}
    (hc : HasCells h b n) (hi : i < n) (hr : stAt h b i ≠ .raw) (hS : S b = true)
    (s : ∀ h', SameBut h h' (fun b' j => b' = b ∧ j = i) → stAt h' b i = .moved → SafeF S h' (f (stAt h b i) h') Q) :
    SafeF S h ((moveFromAny b i >>= f) h) Q := by
  obtain ⟨c, e, _, est⟩ := hc.cell_st hi
  have hrun : moveFromAny b i h = .ok (stAt h b i, h.setCell b i { c with st := .moved }) := by
    unfold moveFromAny
    simp only [e]
    rw [← est] at hr ⊢
    obtain ⟨st, w⟩ := c
    cases st <;> simp_all
  apply SafeF.bind_ok hrun (Frame_setCell S h b i _ hS)
  apply s _ (SameBut_setCell _ _ _ _)
  rw [stAt_setCell]; simp [e]

theorem vstep_constructSt {β} {S} {h : Heap} {b i n : Nat} (st : Slot) {f : Unit → M β} {Q : β → Heap → Prop}
    (hc : HasCells h b n) (hi : i < n) (hr : stAt h b i = .raw) (hst : st ≠ .raw) (hS : S b = true)
    (s : ∀ h', SameBut h h' (fun b' j => b' = b ∧ j = i) → stAt h' b i = st → SafeF S h' (f () h') Q) :
    SafeF S h ((constructSt b i st >>= f) h) Q := by
  obtain ⟨c, e, _, est⟩ := hc.cell_st hi
  have hrun : constructSt b i st h =
      .ok ((), (h.setCell b i { c with st := st }).addLog (.ctor b ((h.kind? b).getD .item))) := by
    unfold constructSt
    simp only [e]
    rw [← est] at hr
    simp [hr, hst]
  apply SafeF.bind_ok hrun ((Frame_setCell S h b i _ hS).trans (Frame_addLog S _ _))
  apply s _ ((SameBut_setCell _ _ _ _).trans (SameBut_addLog _ _ _) (fun _ _ x => x) (fun _ _ x => x))
  rw [stAt_addLog, stAt_setCell]; simp [e]

end DS.Life

namespace DS.Life.Kll
open DS.Life

/-! ### optional<T> members -/

def isEng (s : Slot) : Bool := match s with | .raw => false | _ => true

theorem isEng_false {s : Slot} : isEng s = false ↔ s = .raw := by cases s <;> simp [isEng]
theorem isEng_true {s : Slot} : isEng s = true ↔ s ≠ .raw := by cases s <;> simp [isEng]

theorem vstep_engaged {β} {S} {h : Heap} {b i n : Nat} {f : Bool → M β} {Q : β → Heap → Prop}
    (hc : HasCells h b n) (hi : i < n) (s : SafeF S h (f (isEng (stAt h b i)) h) Q) :
    SafeF S h ((engaged b i >>= f) h) Q := by
  obtain ⟨c, e, _, est⟩ := hc.cell_st hi
  have hrun : engaged b i h = .ok (isEng (stAt h b i), h) := by
    unfold engaged
    simp only [e]
    rw [← est]
    rfl
  exact SafeF.bind_ok hrun (Frame.refl _ _) s


theorem vstep_optCopyCtor {β} {S} {h : Heap} {sb si sn db di dn : Nat} {f : Unit → M β} {Q : β → Heap → Prop}
    (hcs : HasCells h sb sn) (hsi : si < sn) (hsrc : stAt h sb si = .raw ∨ ∃ v, stAt h sb si = .live v)
    (hcd : HasCells h db dn) (hdi : di < dn) (hr : stAt h db di = .raw) (hS : S db = true)
    (s : ∀ h', SameBut h h' (fun b' j => b' = db ∧ j = di) → stAt h' db di = stAt h sb si → SafeF S h' (f () h') Q) :
    SafeF S h ((optCopyCtor sb si db di >>= f) h) Q := by
  unfold optCopyCtor
  simp only [M.bind_assoc]
  apply vstep_engaged hcs hsi
  rcases hsrc with hraw | ⟨v, hv⟩
  · have : isEng (stAt h sb si) = false := isEng_false.2 hraw
    rw [this]
    simp only [Bool.false_eq_true, if_false]
    exact s h (SameBut.refl _ _) (by rw [hr, hraw])
  · have : isEng (stAt h sb si) = true := isEng_true.2 (by rw [hv]; simp)
    rw [this]
    simp only [if_true]
    apply vstep_copyConstruct hcs hsi hv hcd hdi hr hS
    intro h1 sb1 hst
    exact s h1 sb1 (by rw [hst, hv])

theorem vstep_optMoveCtor {β} {S} {h : Heap} {sb si sn db di dn : Nat} {f : Unit → M β} {Q : β → Heap → Prop}
    (hcs : HasCells h sb sn) (hsi : si < sn) (hsrc : stAt h sb si = .raw ∨ ∃ v, stAt h sb si = .live v)
    (hcd : HasCells h db dn) (hdi : di < dn) (hr : stAt h db di = .raw) (hSs : S sb = true) (hSd : S db = true)
    (s : ∀ h', SameBut h h' (fun b' j => (b' = sb ∧ j = si) ∨ (b' = db ∧ j = di)) →
          stAt h' db di = stAt h sb si → (stAt h' sb si = .raw ↔ stAt h sb si = .raw) → SafeF S h' (f () h') Q) :
    SafeF S h ((optMoveCtor sb si db di >>= f) h) Q := by
  unfold optMoveCtor
  simp only [M.bind_assoc]
  apply vstep_engaged hcs hsi
  rcases hsrc with hraw | ⟨v, hv⟩
  · have : isEng (stAt h sb si) = false := isEng_false.2 hraw
    rw [this]
    simp only [Bool.false_eq_true, if_false]
    exact s h (SameBut.refl _ _) (by rw [hr, hraw]) Iff.rfl
  · have : isEng (stAt h sb si) = true := isEng_true.2 (by rw [hv]; simp)
    rw [this]
    simp only [if_true]
    apply vstep_moveConstruct hcs hsi hv hcd hdi hr hSs hSd
    intro h1 sb1 hst hsm
    exact s h1 sb1 (by rw [hst, hv]) (by rw [hsm, hv]; simp)

theorem vstep_optReset {β} {S} {h : Heap} {b i n : Nat} {f : Unit → M β} {Q : β → Heap → Prop}
    (hc : HasCells h b n) (hi : i < n) (hS : S b = true)
    (s : ∀ h', SameBut h h' (fun b' j => b' = b ∧ j = i) → stAt h' b i = .raw → SafeF S h' (f () h') Q) :
    SafeF S h ((optReset b i >>= f) h) Q := by
  unfold optReset
  simp only [M.bind_assoc]
  apply vstep_engaged hc hi
  by_cases hraw : stAt h b i = .raw
  · have : isEng (stAt h b i) = false := isEng_false.2 hraw
    rw [this]
    simp only [Bool.false_eq_true, if_false]
    exact s h (SameBut.refl _ _) hraw
  · have : isEng (stAt h b i) = true := isEng_true.2 hraw
    rw [this]
    simp only [if_true]
    apply vstep_destroy hc hi hraw hS
    intro h1 sb1 _ hst
    exact s h1 sb1 hst

/-- the raw state exchange inside `optSwap` (both engaged), as a named program -/
def swapSt (ab ai bb bi : Nat) : M Unit := fun h =>
  match h.cell? ab ai, h.cell? bb bi with
  | some ca, some cb => .ok ((), (h.setCell ab ai { ca with st := cb.st }).setCell bb bi { cb with st := ca.st })
  | _, _ => .error (.pre "optional: object storage is gone")

theorem optSwap_eq (ab ai bb bi : Nat) : optSwap ab ai bb bi = (do
    let ea ← engaged ab ai
    let eb ← engaged bb bi
    if ea ∧ eb then swapSt ab ai bb bi
    else if ea then do
      let st ← moveFromAny ab ai
      constructSt bb bi st
      destroy ab ai
    else if eb then do
      let st ← moveFromAny bb bi
      constructSt ab ai st
      destroy bb bi
    else pure ()) := rfl

/-- `std::swap` of two optionals living in different blocks: the states are exchanged -/
theorem vstep_optSwap {β} {S} {h : Heap} {ab ai na bb bi nb : Nat} {f : Unit → M β} {Q : β → Heap → Prop}
    (hca : HasCells h ab na) (hai : ai < na) (hcb : HasCells h bb nb) (hbi : bi < nb) (hne : ab ≠ bb)
    (hSa : S ab = true) (hSb : S bb = true)
    (s : ∀ h', SameBut h h' (fun b' j => (b' = ab ∧ j = ai) ∨ (b' = bb ∧ j = bi)) →
          stAt h' ab ai = stAt h bb bi → stAt h' bb bi = stAt h ab ai → SafeF S h' (f () h') Q) :
    SafeF S h ((optSwap ab ai bb bi >>= f) h) Q := by
  rw [optSwap_eq]
  simp only [M.bind_assoc]
  apply vstep_engaged hca hai
  apply vstep_engaged hcb hbi
  have hne' : ¬ (bb = ab) := fun e => hne e.symm
  by_cases hea : stAt h ab ai = .raw <;> by_cases heb : stAt h bb bi = .raw
  · rw [isEng_false.2 hea, isEng_false.2 heb]
    rw [if_neg (by simp), if_neg (by simp), if_neg (by simp)]
    exact s h (SameBut.refl _ _) (by rw [hea, heb]) (by rw [hea, heb])
  · rw [isEng_false.2 hea, isEng_true.2 heb]
    rw [if_neg (by simp), if_neg (by simp), if_pos rfl]
    simp only [M.bind_assoc]
    apply vstep_moveFromAny hcb hbi heb hSb
    intro h1 sb1 hm1
    have hea1 : stAt h1 ab ai = .raw := by rw [sb1.st ab ai (fun x => hne x.1)]; exact hea
    apply vstep_constructSt _ (sb1.cells _ _ hca) hai hea1 heb hSa
    intro h2 sb2 hst2
    have hm2 : stAt h2 bb bi ≠ .raw := by rw [sb2.st bb bi (fun x => hne' x.1), hm1]; simp
    apply vstep_destroy (sb2.cells _ _ (sb1.cells _ _ hcb)) hbi hm2 hSb
    intro h3 sb3 _ hst3
    apply s h3 ((sb1.trans sb2 (fun _ _ x => Or.inr x) (fun _ _ x => Or.inl x)).trans sb3 (fun _ _ x => x) (fun _ _ x => Or.inr x))
    · rw [sb3.st ab ai (fun x => hne x.1), hst2]
    · rw [hst3, hea]
  · rw [isEng_true.2 hea, isEng_false.2 heb]
    rw [if_neg (by simp), if_pos rfl]
    simp only [M.bind_assoc]
    apply vstep_moveFromAny hca hai hea hSa
    intro h1 sb1 hm1
    have heb1 : stAt h1 bb bi = .raw := by rw [sb1.st bb bi (fun x => hne' x.1)]; exact heb
    apply vstep_constructSt _ (sb1.cells _ _ hcb) hbi heb1 hea hSb
    intro h2 sb2 hst2
    have hm2 : stAt h2 ab ai ≠ .raw := by rw [sb2.st ab ai (fun x => hne x.1), hm1]; simp
    apply vstep_destroy (sb2.cells _ _ (sb1.cells _ _ hca)) hai hm2 hSa
    intro h3 sb3 _ hst3
    apply s h3 ((sb1.trans sb2 (fun _ _ x => Or.inl x) (fun _ _ x => Or.inr x)).trans sb3 (fun _ _ x => x) (fun _ _ x => Or.inl x))
    · rw [hst3, heb]
    · rw [sb3.st bb bi (fun x => hne' x.1), hst2]
  · rw [isEng_true.2 hea, isEng_true.2 heb]
    rw [if_pos ⟨rfl, rfl⟩]
    obtain ⟨ca, eca, _, esta⟩ := hca.cell_st hai
    obtain ⟨cb, ecb, _, estb⟩ := hcb.cell_st hbi
    have hrun : swapSt ab ai bb bi h =
        .ok ((), (h.setCell ab ai { ca with st := cb.st }).setCell bb bi { cb with st := ca.st }) := by
      simp only [swapSt, eca, ecb]
    apply SafeF.bind_ok hrun ((Frame_setCell S h ab ai _ hSa).trans (Frame_setCell S _ bb bi _ hSb))
    have hcb1 : (h.setCell ab ai { ca with st := cb.st }).cell? bb bi = some cb := by
      rw [cell?_setCell]; simp [hne', ecb]
    apply s _ ((SameBut_setCell h ab ai _).trans (SameBut_setCell _ bb bi _) (fun _ _ x => Or.inl x) (fun _ _ x => Or.inr x))
    · rw [stAt_setCell]
      simp only [hne, false_and, if_false]
      rw [stAt_setCell]; simp [eca, estb]
    · rw [stAt_setCell]; simp [hcb1, esta]


/-! ### `std::sort` over a live range -/
theorem vstep_sortRange {β} {S : Nat → Bool} {h : Heap} {b n lo cnt : Nat} {f : Unit → M β} {Q : β → Heap → Prop}
    (hc : HasCells h b n) (hle : lo + cnt ≤ n) (hl : ∀ j, lo ≤ j → j < lo + cnt → ∃ v, stAt h b j = .live v)
    (hS : S b = true)
    (s : ∀ h', SameBut h h' (fun b' j => b' = b ∧ lo ≤ j ∧ j < lo + cnt) →
          (∀ j, lo ≤ j → j < lo + cnt → ∃ v, stAt h' b j = .live v) → SafeF S h' (f () h') Q) :
    SafeF S h ((sortRange b lo cnt >>= f) h) Q := by
  obtain ⟨B, hf, hlen⟩ := find?_of_count? hc
  have hcell : ∀ j, h.cell? b j = B.cells[j]? := cell?_of_find? hf
  have hall : ((B.cells.drop lo).take cnt).all (fun c => match c.st with | .live _ => true | _ => false) = true := by
    rw [List.all_eq_true]
    intro c hcm
    rw [List.mem_take_iff_getElem] at hcm
    obtain ⟨j, hj, rfl⟩ := hcm
    simp only [List.length_drop] at hj
    have hjl : lo + j < B.cells.length := by omega
    obtain ⟨v, hv⟩ := hl (lo + j) (by omega) (by omega)
    have : stAt h b (lo + j) = B.cells[lo + j].st := by
      simp [stAt, hcell (lo + j), List.getElem?_eq_getElem hjl]
    simp only [List.getElem_drop]
    rw [← this, hv]
  obtain ⟨seg', hperm, hrun⟩ : ∃ seg', seg'.Perm ((B.cells.drop lo).take cnt) ∧
      sortRange b lo cnt h = .ok ((), h.setCells b (B.cells.take lo ++ seg' ++ B.cells.drop (lo + cnt))) := by
    unfold sortRange
    simp only [hf]
    rw [if_pos ⟨by omega, hall⟩]
    exact ⟨_, List.mergeSort_perm _ _, rfl⟩
  apply SafeF.bind_ok hrun (Frame_setCells S h b _ hS)
  have hle0 : lo + cnt ≤ B.cells.length := by omega
  generalize hcs : B.cells.take lo ++ seg' ++ B.cells.drop (lo + cnt) = cs
  have hcell' : ∀ j, (h.setCells b cs).cell? b j = cs[j]? := by
    intro j; rw [cell?_setCells hf]; simp
  have hlen' : cs.length = n := by
    rw [← hcs, permSeg_length _ _ _ _ hle0 hperm]; exact hlen
  have hout : ∀ j, ¬ (lo ≤ j ∧ j < lo + cnt) → (h.setCells b cs).cell? b j = h.cell? b j := by
    intro j hj
    rw [hcell', hcell, ← hcs]
    exact permSeg_outside B.cells seg' lo cnt hle0 hperm j (by omega)
  apply s
  · refine ⟨?_, ?_, ?_, by simp, by simp⟩
    · intro b' j hx
      by_cases hb : b' = b
      · subst hb
        simp only [wordAt, hout j (fun x => hx ⟨rfl, x⟩)]
      · simp [wordAt, cell?_setCells hf, hb]
    · intro b' j hx
      by_cases hb : b' = b
      · subst hb
        simp only [stAt, hout j (fun x => hx ⟨rfl, x⟩)]
      · simp [stAt, cell?_setCells hf, hb]
    · intro b' m hcm
      by_cases hb : b' = b
      · subst hb
        have : m = n := by
          have := hcm; simp only [HasCells] at this hc; rw [hc] at this; cases this; rfl
        subst this
        simp [HasCells, count?_setCells hf, hlen']
      · simpa [HasCells, count?_setCells hf, hb] using hcm
  · intro j h1 h2
    obtain ⟨x, hx, k, hk1, hk2, hkx⟩ := permSeg_inside B.cells seg' lo cnt hle0 hperm j h1 h2
    rw [hcs] at hx
    have hst : stAt (h.setCells b cs) b j = stAt h b k := by
      simp [stAt, hcell', hx, hcell k, hkx]
    rw [hst]
    exact hl k hk1 hk2

/-! ### checked access to `levels_` -/

theorem lv_ok {ls : List Nat} {i : Nat} (hi : i < ls.length) : lv ls i = (Pure.pure (ls.getD i 0) : M Nat) := by
  unfold lv
  rw [List.getD_eq_getElem?_getD, List.getElem?_eq_getElem hi]
  rfl

theorem setLv_ok {ls : List Nat} {i : Nat} (x : Nat) (hi : i < ls.length) :
    setLv ls i x = (Pure.pure (ls.set i x) : M (List Nat)) := by
  unfold setLv
  rw [if_pos hi]

theorem pure_bind_apply {α β} (a : α) (f : α → M β) (h : Heap) : ((Pure.pure a : M α) >>= f) h = f a h := rfl

theorem step_lv {β} {S} {h : Heap} {ls : List Nat} {i : Nat} {f : Nat → M β} {Q : β → Heap → Prop}
    (hi : i < ls.length) (s : SafeF S h (f (ls.getD i 0) h) Q) : SafeF S h ((lv ls i >>= f) h) Q := by
  rw [lv_ok hi, pure_bind_apply]; exact s

theorem step_setLv {β} {S} {h : Heap} {ls : List Nat} {i : Nat} (x : Nat) {f : List Nat → M β} {Q : β → Heap → Prop}
    (hi : i < ls.length) (s : SafeF S h (f (ls.set i x) h) Q) : SafeF S h ((setLv ls i x >>= f) h) Q := by
  rw [setLv_ok x hi, pure_bind_apply]; exact s

theorem getD_set (ls : List Nat) (i x j : Nat) :
    (ls.set i x).getD j 0 = if j = i ∧ i < ls.length then x else ls.getD j 0 := by
  simp only [List.getD_eq_getElem?_getD, List.getElem?_set]
  by_cases hji : i = j
  · subst hji
    by_cases hl : i < ls.length
    · simp [hl]
    · simp [hl]
  · have : ¬ (j = i) := fun e => hji e.symm
    simp [hji, this]

theorem getD_set_eq (ls : List Nat) (i x : Nat) (hi : i < ls.length) : (ls.set i x).getD i 0 = x := by
  rw [getD_set]; simp [hi]

theorem getD_set_ne (ls : List Nat) (i x j : Nat) (hne : j ≠ i) : (ls.set i x).getD j 0 = ls.getD j 0 := by
  rw [getD_set]; simp [hne]

theorem growLevels_length (ls : List Nat) (n : Nat) : ls.length ≤ (growLevels ls n).length ∧ n ≤ (growLevels ls n).length := by
  unfold growLevels
  split
  · simp; omega
  · omega

theorem growLevels_length_eq (ls : List Nat) (n : Nat) (h : ls.length ≤ n) : (growLevels ls n).length = n := by
  unfold growLevels
  split
  · simp; omega
  · omega

theorem growLevels_getD (ls : List Nat) (n i : Nat) (hi : i < ls.length) : (growLevels ls n).getD i 0 = ls.getD i 0 := by
  unfold growLevels
  split
  · simp only [List.getD_eq_getElem?_getD]
    rw [List.getElem?_append_left hi]
  · rfl

/-- `for (i = start; i < start + cnt; ++i) levels[i] += d` -/
theorem shiftLevels_ok (d : Nat) : ∀ (cnt start : Nat) (ls : List Nat), start + cnt ≤ ls.length →
    ∃ ls', foldUp (fun i (ls : List Nat) => do let x ← lv ls i; setLv ls i (x + d)) cnt start ls = (Pure.pure ls' : M (List Nat)) ∧
      ls'.length = ls.length ∧
      ∀ j, ls'.getD j 0 = if start ≤ j ∧ j < start + cnt then ls.getD j 0 + d else ls.getD j 0 := by
  intro cnt
  induction cnt with
  | zero =>
    intro start ls _
    refine ⟨ls, rfl, rfl, fun j => ?_⟩
    rw [if_neg (by omega)]
  | succ c ih =>
    intro start ls hle
    have hs : start < ls.length := by omega
    obtain ⟨ls', e, hl, hg⟩ := ih (start + 1) (ls.set start (ls.getD start 0 + d)) (by simp; omega)
    refine ⟨ls', ?_, by simpa using hl, fun j => ?_⟩
    · rw [foldUp_succ, lv_ok hs]
      show (setLv ls start (ls.getD start 0 + d) >>= fun a' => foldUp _ c (start + 1) a') = _
      rw [setLv_ok _ hs]
      exact e
    · rw [hg j, getD_set]
      by_cases hj : j = start
      · subst hj
        rw [if_neg (by omega), if_pos ⟨rfl, hs⟩, if_pos ⟨Nat.le_refl _, by omega⟩]
      · by_cases hr : start + 1 ≤ j ∧ j < start + 1 + c
        · rw [if_pos hr, if_neg (fun x => hj x.1), if_pos ⟨by omega, by omega⟩]
        · rw [if_neg hr, if_neg (fun x => hj x.1), if_neg (by omega)]

end DS.Life.Kll

/- C19, KLL sketch part 3: copy constructor, move constructor, assignments. -/
import DSProofs.Lemmas.LifeKllB
namespace DS.Life.Kll
open DS.Life

/-- source state of an optional member of a usable sketch: disengaged or live -/
theorem Usable.mm_src {P : Params} {h : Heap} {s : Sketch} (u : Usable P h s) :
    (stAt h s.self 0 = .raw ∨ ∃ v, stAt h s.self 0 = .live v) ∧ (stAt h s.self 1 = .raw ∨ ∃ v, stAt h s.self 1 = .live v) := by
  by_cases hn : s.n = 0
  · exact ⟨Or.inl (u.mm0 hn).1, Or.inl (u.mm0 hn).2⟩
  · exact ⟨Or.inr (u.mm1 hn).1, Or.inr (u.mm1 hn).2⟩

/-- min/max of a sketch whose optionals have the states of a usable sketch with the same `n` -/
theorem mm_of_eq {P : Params} {h h' : Heap} {s : Sketch} (u : Usable P h s) {b : Nat}
    (e0 : stAt h' b 0 = stAt h s.self 0) (e1 : stAt h' b 1 = stAt h s.self 1) :
    (s.n = 0 → stAt h' b 0 = .raw ∧ stAt h' b 1 = .raw) ∧
    (s.n ≠ 0 → (∃ v, stAt h' b 0 = .live v) ∧ (∃ v, stAt h' b 1 = .live v)) := by
  rw [e0, e1]; exact ⟨u.mm0, u.mm1⟩

/-- copy constructor -/
theorem copyCtor_spec (P : Params) (n0 : Nat) (S : Nat → Bool) (o : Sketch) (hSn : ∀ x, n0 ≤ x → S x = true)
    (h0 : Heap) :
    TripleS n0 S (fun h => h = h0 ∧ Usable P h o) (copyCtor o)
      (fun s' h' => s' = { o with self := h0.next, items := some (h0.next + 1), view := none } ∧ Usable P h' s' ∧
        (∀ b, b < h0.next → SameOn h0 h' b) ∧ h'.ids = (h0.next + 1) :: h0.next :: h0.ids ∧ h'.next = h0.next + 2) := by
  intro h hn ⟨e0, u⟩
  subst e0
  have inv := u.toInv
  obtain ⟨ob, hob, hlive⟩ := u.items
  obtain ⟨lok, iat, hoblt, hobself, hobview⟩ := inv.items_ok ob hob
  obtain ⟨src0, src1⟩ := u.mm_src
  obtain ⟨self, k, m, minK, nl, srt, n, ls, items, sz, view⟩ := o
  simp only at hob lok iat hobself hobview src0 src1 hlive
  subst hob
  have hselflt : self < h.next := inv.self_lt
  have hselfc : HasCells h self 2 := inv.self_cells
  unfold copyCtor
  simp only
  apply vstep_alloc' _ _ (hSn _ hn)
  intro h1 hc1 hr1 so1 hid1 hnx1
  have ne1 : self ≠ h.next := by omega
  have ss1 := so1 self ne1
  apply vstep_optCopyCtor (ss1.cells _ hselfc) (by omega : 0 < 2) (by rw [ss1.st]; exact src0) hc1 (by omega : 0 < 2)
    (hr1 0 (by omega)) (hSn _ hn)
  intro h2 sb2 hst2
  have ss2 : SameOn h1 h2 self := sb2.sameOn (fun j x => ne1 x.1)
  apply vstep_optCopyCtor (ss2.cells _ (ss1.cells _ hselfc)) (by omega : 1 < 2) (by rw [ss2.st, ss1.st]; exact src1)
    (sb2.cells _ _ hc1) (by omega : 1 < 2) (by rw [sb2.st _ _ (fun x => by omega)]; exact hr1 1 (by omega)) (hSn _ hn)
  intro h3 sb3 hst3
  have hnx3 : h3.next = h.next + 1 := by rw [sb3.next, sb2.next, hnx1]
  apply vstep_alloc' _ _ (hSn _ (by omega))
  intro h4 hc4 hr4 so4 hid4 hnx4
  rw [hnx3] at hc4 hr4 so4 hid4 hnx4 ⊢
  have hl0 : ls.getD 0 0 ≤ sz := lok.le_top 0 (Nat.zero_le _)
  apply step_lv (by have := lok.len; omega)
  apply step_lv (by have := lok.len; omega)
  rw [lok.top]
  apply step_deref
  have old14 : ∀ b, b < h.next → SameOn h h4 b := fun b hb =>
    (((so1 b (by omega)).trans (sb2.sameOn (fun j x => by omega))).trans (sb3.sameOn (fun j x => by omega))).trans
      (so4 b (by omega))
  have sob := old14 ob hoblt
  apply vstep_copyRange (fun i => i) (sob.cells _ iat.cells) hc4 (by omega) (by omega)
    (fun j h1' h2' => ⟨by omega, by rw [sob.st]; exact hlive j h1' (by omega)⟩)
    (fun j h1' h2' => hr4 j (by omega)) (hSn _ (by omega))
  intro h5 sb5 hl5
  apply SafeF.pure
  have old : ∀ b, b < h.next → SameOn h h5 b := fun b hb => (old14 b hb).trans (sb5.sameOn (fun j x => by omega))
  have new5 : SameOn h3 h5 h.next := (so4 _ (by omega)).trans (sb5.sameOn (fun j x => by omega))
  have e0 : stAt h5 h.next 0 = stAt h self 0 := by
    rw [new5.st, sb3.st _ _ (fun x => by omega), hst2, ss1.st]
  have e1 : stAt h5 h.next 1 = stAt h self 1 := by
    rw [new5.st, hst3, ss2.st, ss1.st]
  have hmm := mm_of_eq u e0 e1
  refine ⟨rfl, ⟨⟨inv.m_eq, new5.cells _ (sb3.cells _ _ (sb2.cells _ _ hc1)), by rw [sb5.next, hnx4]; simp only; omega,
    (fun v hv => by cases hv), ?_⟩, ⟨h.next + 1, rfl, ?_⟩, hmm.1, hmm.2, u.ret, u.wt, u.pw⟩, old,
    by rw [sb5.ids, hid4, sb3.ids, sb2.ids, hid1], by rw [sb5.next, hnx4]⟩
  · intro b hb
    simp only [Option.some.injEq] at hb
    subst hb
    refine ⟨lok, ⟨sb5.cells _ _ hc4, fun i hi => ?_, fun i h1' h2' => ?_⟩, by rw [sb5.next, hnx4]; omega,
      by simp only; omega, by simp⟩
    · rw [sb5.st _ _ (fun x => by simp only at hi; omega)]; exact hr4 i (by simp only at hi; omega)
    · obtain ⟨v, hv⟩ := hl5 i h1' (by simp only at h2'; omega)
      rw [hv]; simp
  · intro i h1' h2'
    exact hl5 i h1' (by simp only at h2'; omega)


/-- the same sketch data living in another object storage `self'` with another view pointer -/
theorem Inv.rehome {P : Params} {h h' : Heap} {s : Sketch} (i : Inv P h s) (self' : Nat) (vw : Option Nat)
    (hself : HasCells h' self' 2) (hlt : self' < h'.next)
    (hitems : ∀ b, s.items = some b → SameOn h h' b ∧ b ≠ self' ∧ vw ≠ some b) (hn : h.next ≤ h'.next)
    (hv : ∀ v, vw = some v → HasCells h' v 1 ∧ stAt h' v 0 = .raw ∧ v < h'.next ∧ v ≠ self') :
    Inv P h' { s with self := self', view := vw } := by
  refine ⟨i.m_eq, hself, hlt, hv, ?_⟩
  intro b hb
  obtain ⟨a, c, d, _, _⟩ := i.items_ok b hb
  obtain ⟨so, x, y⟩ := hitems b hb
  exact ⟨a, c.transfer so, by omega, x, y⟩

theorem Usable.rehome {P : Params} {h h' : Heap} {s : Sketch} (u : Usable P h s) (self' : Nat) (vw : Option Nat)
    (hself : HasCells h' self' 2) (hlt : self' < h'.next)
    (e0 : stAt h' self' 0 = stAt h s.self 0) (e1 : stAt h' self' 1 = stAt h s.self 1)
    (hitems : ∀ b, s.items = some b → SameOn h h' b ∧ b ≠ self' ∧ vw ≠ some b) (hn : h.next ≤ h'.next)
    (hv : ∀ v, vw = some v → HasCells h' v 1 ∧ stAt h' v 0 = .raw ∧ v < h'.next ∧ v ≠ self') :
    Usable P h' { s with self := self', view := vw } := by
  have hmm := mm_of_eq u e0 e1
  refine ⟨u.toInv.rehome self' vw hself hlt hitems hn hv, ?_, hmm.1, hmm.2, u.ret, u.wt, u.pw⟩
  obtain ⟨b, hb, hl⟩ := u.items
  refine ⟨b, hb, fun j h1 h2 => ?_⟩
  rw [(hitems b hb).1.st]; exact hl j h1 h2

theorem copyCtor_contract (P : Params) (n0 : Nat) (o : Sketch) (ids0 : List Nat) :
    TripleS n0 (foot [] n0)
      (fun h => Usable P h o ∧ h.ids = ids0 ∧ h.next = n0 ∧ (∀ b, b ∈ owned o → b < n0)) (copyCtor o)
      (fun s' h' => Usable P h' s' ∧ Owns h' ids0 [] (owned s') n0) := by
  intro h hn ⟨u, hid, hnx, _⟩
  have := copyCtor_spec P n0 (foot [] n0) o (fun x hx => foot_new hx) h h hn ⟨rfl, u⟩
  refine SafeF.mono this ?_
  intro s' h' ⟨es, us, _, hid', _⟩
  refine ⟨us, fun x => ?_, fun x hx => ?_⟩
  · rw [hid', es, mem_owned, hid, hnx]
    simp only [List.mem_cons, Option.some.injEq, reduceCtorEq, or_false, List.not_mem_nil, not_false_eq_true, and_true]
    constructor
    · rintro (e | e | e)
      · exact Or.inr (Or.inr e.symm)
      · exact Or.inr (Or.inl e)
      · exact Or.inl e
    · rintro (e | e | e)
      · exact Or.inr (Or.inr e)
      · exact Or.inr (Or.inl e)
      · exact Or.inl e.symm
  · rw [es, mem_owned] at hx
    simp only [Option.some.injEq, reduceCtorEq, or_false] at hx
    right
    rcases hx with e | e <;> omega

/-- move constructor -/
theorem moveCtor_contract (P : Params) (n0 : Nat) (o : Sketch) (ids0 : List Nat) :
    TripleS n0 (foot (owned o) n0) (fun h => Usable P h o ∧ h.ids = ids0 ∧ h.next = n0) (moveCtor o)
      (fun r h' => Usable P h' r.1 ∧ Inv P h' r.2 ∧ (∀ b, b ∈ owned r.1 → b ∉ owned r.2) ∧
         Owns h' ids0 (owned o) (owned r.1 ++ owned r.2) n0) := by
  intro h hn ⟨u, hid, hnx⟩
  have inv := u.toInv
  obtain ⟨src0, src1⟩ := u.mm_src
  have hSself : foot (owned o) n0 o.self = true := foot_own (mem_owned.2 (Or.inl rfl))
  have hSn : foot (owned o) n0 h.next = true := foot_new hn
  have hselflt := inv.self_lt
  unfold moveCtor
  apply vstep_alloc' _ _ hSn
  intro h1 hc1 hr1 so1 hid1 hnx1
  have ne1 : o.self ≠ h.next := by omega
  have ss1 := so1 o.self ne1
  apply vstep_optMoveCtor (ss1.cells _ inv.self_cells) (by omega : 0 < 2) (by rw [ss1.st]; exact src0) hc1 (by omega : 0 < 2)
    (hr1 0 (by omega)) hSself hSn
  intro h2 sb2 hst2 _
  apply vstep_optMoveCtor (sb2.cells _ _ (ss1.cells _ inv.self_cells)) (by omega : 1 < 2)
    (by rw [sb2.st _ _ (fun x => by omega), ss1.st]; exact src1)
    (sb2.cells _ _ hc1) (by omega : 1 < 2) (by rw [sb2.st _ _ (fun x => by omega)]; exact hr1 1 (by omega)) hSself hSn
  intro h3 sb3 hst3 _
  apply SafeF.pure
  have hnx3 : h3.next = h.next + 1 := by rw [sb3.next, sb2.next, hnx1]
  have oth : ∀ b, b ≠ o.self → b ≠ h.next → SameOn h h3 b := fun b h1' h2' =>
    ((so1 b h2').trans (sb2.sameOn (fun j x => by omega))).trans (sb3.sameOn (fun j x => by omega))
  have hc3 : HasCells h3 h.next 2 := sb3.cells _ _ (sb2.cells _ _ hc1)
  have e0 : stAt h3 h.next 0 = stAt h o.self 0 := by
    rw [sb3.st _ _ (fun x => by omega), hst2, ss1.st]
  have e1 : stAt h3 h.next 1 = stAt h o.self 1 := by
    rw [hst3, sb2.st _ _ (fun x => by omega), ss1.st]
  have hib : ∀ b, o.items = some b → b ≠ o.self ∧ b < h.next ∧ o.view ≠ some b := fun b hb => by
    obtain ⟨_, _, c, d, e⟩ := inv.items_ok b hb; exact ⟨d, c, e⟩
  have hvb : ∀ v, o.view = some v → v ≠ o.self ∧ v < h.next := fun v hv => by
    obtain ⟨_, _, c, d⟩ := inv.view_ok v hv; exact ⟨d, c⟩
  have u1 : Usable P h3 { o with self := h.next, view := none } :=
    u.rehome h.next none hc3 (by omega) e0 e1
      (fun b hb => ⟨oth b (hib b hb).1 (by have := (hib b hb).2.1; omega), by have := (hib b hb).2.1; omega, by simp⟩)
      (by omega) (fun v hv => by cases hv)
  have i2 : Inv P h3 { o with levels := [], items := none } := by
    refine ⟨inv.m_eq, sb3.cells _ _ (sb2.cells _ _ (ss1.cells _ inv.self_cells)), by simp only; omega, ?_,
      fun b hb => by cases hb⟩
    intro v hv
    obtain ⟨a, b, c, d⟩ := inv.view_ok v hv
    have sv := oth v d (by omega)
    exact ⟨sv.cells _ a, by rw [sv.st]; exact b, by omega, d⟩
  refine ⟨u1, i2, ?_, fun x => ?_, fun x hx => ?_⟩
  · intro b hb hb2
    rw [mem_owned] at hb hb2
    simp only [reduceCtorEq, or_false, false_or] at hb hb2
    rcases hb with rfl | hb
    · rcases hb2 with e | e
      · omega
      · have := (hvb _ e).2; omega
    · rcases hb2 with rfl | e
      · exact (hib _ hb).1 rfl
      · exact (hib _ hb).2.2 e
  · rw [sb3.ids, sb2.ids, hid1, hid]
    simp only [List.mem_cons, List.mem_append, mem_owned, reduceCtorEq, or_false, false_or]
    have hoi := fun y hy => (inv.owned_ids y hy).1
    rw [hid] at hoi
    constructor
    · rintro (e | e)
      · exact Or.inr (Or.inl (Or.inl e))
      · by_cases hxo : x ∈ owned o
        · rcases mem_owned.1 hxo with e' | e' | e'
          · exact Or.inr (Or.inr (Or.inl e'))
          · exact Or.inr (Or.inl (Or.inr e'))
          · exact Or.inr (Or.inr (Or.inr e'))
        · exact Or.inl ⟨e, fun e' => hxo (mem_owned.2 e')⟩
    · rintro (⟨e, _⟩ | (e | e) | (e | e))
      · exact Or.inr e
      · exact Or.inl e
      · exact Or.inr (hoi x (mem_owned.2 (Or.inr (Or.inl e))))
      · exact Or.inr (hoi x (mem_owned.2 (Or.inl e)))
      · exact Or.inr (hoi x (mem_owned.2 (Or.inr (Or.inr e))))
  · simp only [List.mem_append, mem_owned, reduceCtorEq, or_false, false_or] at hx
    rcases hx with (e | e) | (e | e)
    · right; omega
    · exact Or.inl (mem_owned.2 (Or.inr (Or.inl e)))
    · exact Or.inl (mem_owned.2 (Or.inl e))
    · exact Or.inl (mem_owned.2 (Or.inr (Or.inr e)))

end DS.Life.Kll

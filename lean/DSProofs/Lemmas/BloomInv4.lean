/- Preservation of the cover invariant (part 4: copy, serialize, deserialize / wrap / writable_wrap) and the history theorem. -/
import DSProofs.Lemmas.BloomInv3
namespace DS.Bloom

variable {ι : Type}

theorem parseImage_empty {P : Params} {b : Block} {nb nh seed : Nat} (h : parseImage P b = .emptyImg nb nh seed) :
    (getField b.val 24 8 &&& P.emptyMask != 0) = true := by
  simp only [parseImage] at h
  repeat' split at h
  all_goals cases h
  all_goals assumption

theorem parseImage_full {P : Params} {b : Block} {cap nh seed nbs nl : Nat} (h : parseImage P b = .full cap nh seed nbs nl) :
    (getField b.val 24 8 &&& P.emptyMask != 0) = false ∧ cap = capOf P nl ∧ cap ≠ 0 ∧ nh = getField b.val 32 16 ∧
      seed = getField b.val 64 64 ∧ nl = getField b.val 128 32 ∧ nbs = getField b.val 192 64 ∧ 32 ≤ b.len := by
  simp only [parseImage] at h
  repeat' split at h
  all_goals cases h
  refine ⟨?_, rfl, ?_, rfl, rfl, rfl, rfl, ?_⟩
  · simp_all
  · simp_all
  · omega

theorem capOf_mod64 (P : Params) (nl : Nat) : capOf P nl % 64 = 0 := by
  unfold capOf; split <;> omega

theorem capOf_le_nbytes (P : Params) (nl : Nat) : capOf P nl ≤ 8 * nbytesOf P nl := by
  unfold capOf nbytesOf; split <;> omega

theorem image_bit (P : Params) (w : World) (f : Filter) (hne : f.isEmpty = false) (j : Nat) (hj : j < f.capBits) :
    (image P w f).val.testBit (256 + j) = (w.val f).testBit (f.off P + j) := by
  simp only [image, hne, Bool.false_eq_true, if_false]
  rw [testBit_setField_in _ _ _ _ _ hj]
  simp [World.bitsOf, testBit_getField, hj]

@[simp] theorem setFilter_filters_same (w : World) (v : Nat) (f : Filter) : (w.setFilter v f).filters v = some f := by
  simp [World.setFilter]

variable [DecidableEq ι] (P : Params) (fx : Fix) (hf : ι → Nat → Option (Nat × Nat))

theorem inv_copy (w : World) (g : Ghost ι) (hi : Inv P hf w g) (v v' : Nat) :
    Inv P hf (opCopy w v v').1 (gstep P hf g w (opCopy w v v').1 (opCopy w v v').2 (.copy v v')) := by
  cases hv : w.filters v with
  | none => simp only [opCopy, gstep, hv]; exact hi
  | some f =>
    simp only [opCopy, gstep, hv]
    have hcp : CapPos (w.setFilter v' f) := capPos_setFilter hi.2 _ _ (hi.2 v f hv)
    cases hr : f.ref with
    | mem m =>
      simp only []
      exact ⟨cover_set hi.1 _ _ _ (fun key hk => keyVal_setFilter_ne_own _ _ _ _ hk) (Covers.nil _ _ _ _), hcp⟩
    | owned b =>
      simp only []
      refine ⟨cover_set hi.1 _ _ _ (fun key hk => keyVal_setFilter_ne_own _ _ _ _ hk) ?_, hcp⟩
      rw [keyVal_setFilter_own, hr]
      have := covers_under_of_inv P hf w g hi v f hv f.cfg
      simp only [World.val, Filter.off, keyOf, hr] at this
      exact this

theorem inv_ser (hP : P.Layout) (w : World) (g : Ghost ι) (hi : Inv P hf w g) (v m : Nat) :
    Inv P hf (opSer P w v m).1 (gstep P hf g w (opSer P w v m).1 (opSer P w v m).2 (.ser v m)) := by
  cases hv : w.filters v with
  | none => simp only [opSer, gstep, hv]; exact hi
  | some f =>
    cases hm : w.blocks m with
    | some b => simp only [opSer, gstep, hv, hm]; exact hi
    | none =>
      simp only [opSer, gstep, hv, hm]
      refine ⟨cover_set hi.1 _ _ _ (fun key hk => keyVal_setBlock_ne_mem _ _ _ _ hk) ?_, capPos_setBlock hi.2 _ _⟩
      rw [keyVal_setBlock_mem]
      by_cases he : f.isEmpty = true
      · simp only [he, if_true]; exact Covers.nil _ _ _ _
      · have he' : f.isEmpty = false := by simpa using he
        simp only [he', Bool.false_eq_true, if_false]
        have hcap : 0 < f.capBits := (hi.2 v f hv).1
        apply ((covers_under_of_inv P hf w g hi v f hv f.cfg).sub (seenBy_sub g w v f)).mono hcap
        intro j hj hb
        have : keyOff P (.mem m) = 256 := by simp [keyOff, hP.2]
        rw [this, image_bit P w f he' j hj]; exact hb

theorem inv_wrap (hP : P.Layout) (w : World) (g : Ghost ι) (hi : Inv P hf w g) (k : WrapKind) (m v : Nat) :
    Inv P hf (opWrap P w k m v).1 (gstep P hf g w (opWrap P w k m v).1 (opWrap P w k m v).2 (.wrap k m v)) := by
  cases hm : w.blocks m with
  | none =>
    simp only [opWrap, gstep, hm]
    cases w.filters v <;> exact hi
  | some b =>
    have hbv : w.blockVal m = b.val := by simp [World.blockVal, hm]
    cases hp : parseImage P b with
    | refuse => simp only [opWrap, gstep, hm, hp]; cases w.filters v <;> exact hi
    | outside => simp only [opWrap, gstep, hm, hp]; cases w.filters v <;> exact hi
    | emptyImg nb nh seed =>
      by_cases hk : (k == .wwrap) = true
      · simp only [opWrap, gstep, hm, hp, hk, if_true]; cases w.filters v <;> exact hi
      · by_cases hb : badSize P nb nh = true
        · simp only [opWrap, gstep, hm, hp, hk, hb, if_true, Bool.false_eq_true, if_false]; cases w.filters v <;> exact hi
        · simp only [opWrap, gstep, hm, hp, hk, hb, Bool.false_eq_true, if_false]
          simp only [setFilter_filters_same, mkOwned, hbv, parseImage_empty hp, if_true]
          refine ⟨cover_set hi.1 _ _ _ (fun key hk => keyVal_setFilter_ne_own _ _ _ _ hk) (Covers.nil _ _ _ _), ?_⟩
          apply capPos_setFilter hi.2
          have : nb ≠ 0 := by
            intro e; simp [badSize, e] at hb
          exact roundUp64_pos _ this
    | full cap nh seed nbs nl =>
      obtain ⟨hflag, hcapeq, hcap0, -, -, -, -, hlen⟩ := parseImage_full hp
      have hcap : 0 < cap := Nat.pos_of_ne_zero hcap0
      have hcap2 : 0 < cap ∧ cap % 64 = 0 := ⟨hcap, by rw [hcapeq]; exact capOf_mod64 P nl⟩
      by_cases hst : (P.strict && decide (b.len - 32 < nbytesOf P nl)) = true
      · simp only [opWrap, gstep, hm, hp, hst, if_true]; cases w.filters v <;> exact hi
      have hst' : (P.strict && decide (b.len - 32 < nbytesOf P nl)) = false := by simpa using hst
      cases k with
      | deser =>
        by_cases hl : b.len - 32 < nbytesOf P nl
        · simp only [opWrap, gstep, hm, hp, hst', Bool.false_eq_true, if_false]; simp only [hl, if_true]; cases w.filters v <;> exact hi
        · simp only [opWrap, gstep, hm, hp, hst', Bool.false_eq_true, if_false]; simp only [hl, if_false]
          simp only [setFilter_filters_same, deserFilter, hbv, hflag, Bool.false_eq_true, if_false]
          refine ⟨cover_set hi.1 _ _ _ (fun key hk => keyVal_setFilter_ne_own _ _ _ _ hk) ?_, capPos_setFilter hi.2 _ _ hcap2⟩
          rw [keyVal_setFilter_own]
          simp only [Filter.cfg]
          -- items recorded for the block under this configuration are covered by the copied bits
          have hB : Covers hf (w.blockVal m) (8 * P.bitsOff) ⟨cap, nh, seed⟩ (g.under (.mem m) ⟨cap, nh, seed⟩) := by
            intro y hy h' hh'
            rcases (mem_under g _ _ y).mp hy with ⟨hC, hyS⟩
            have := hi.1 (.mem m) y hyS h' (by rw [hC]; exact hh')
            rw [hC] at this
            exact this
          apply hB.mono hcap
          intro j hj hb
          simp only [keyOff, Nat.zero_add]
          rw [testBit_getField]
          have h8 : cap ≤ 8 * nbytesOf P nl := by rw [hcapeq]; exact capOf_le_nbytes P nl
          have hj' : j < cap := hj
          have : j < 8 * nbytesOf P nl := by omega
          rw [hbv, hP.2] at hb
          simp [this, hb]
      | wrap =>
        by_cases hl : b.len < 32 + cap / 8
        · simp only [opWrap, gstep, hm, hp, hst', Bool.false_eq_true, if_false]; simp only [hl, if_true]; cases w.filters v <;> exact hi
        · simp only [opWrap, gstep, hm, hp, hst', Bool.false_eq_true, if_false]; simp only [hl, if_false]
          simp only [setFilter_filters_same, wrapFilter]
          exact ⟨cover_set hi.1 _ _ _ (fun key hk => keyVal_setFilter_ne_own _ _ _ _ hk) (Covers.nil _ _ _ _), capPos_setFilter hi.2 _ _ hcap2⟩
      | wwrap =>
        by_cases hl : b.len < 32 + cap / 8
        · simp only [opWrap, gstep, hm, hp, hst', Bool.false_eq_true, if_false]; simp only [hl, if_true]; cases w.filters v <;> exact hi
        · simp only [opWrap, gstep, hm, hp, hst', Bool.false_eq_true, if_false]; simp only [hl, if_false]
          simp only [setFilter_filters_same, wrapFilter]
          exact ⟨cover_set hi.1 _ _ _ (fun key hk => keyVal_setFilter_ne_own _ _ _ _ hk) (Covers.nil _ _ _ _), capPos_setFilter hi.2 _ _ hcap2⟩

end DS.Bloom

/- REQ's direct `get_rank` and the sorted view's rank are both the weight below the query point. (Helper lemmas.) -/
import DSProofs.Lemmas.ReqIter
import DSProofs.Lemmas.SortedView
namespace DS.Req

variable {ρ : Type}
open DS.SortedView

/-- weight of the entries of a raw (non-cumulative) view whose item satisfies `q` -/
def wBelow (q : Int → Bool) : List (Int × Nat) → Nat
  | [] => 0
  | (y, w) :: t => (if q y then w else 0) + wBelow q t

abbrev SortedV (l : List (Int × Nat)) : Prop := l.Pairwise (fun a b => a.1 ≤ b.1)

theorem wBelow_append (q : Int → Bool) (a b : List (Int × Nat)) : wBelow q (a ++ b) = wBelow q a + wBelow q b := by
  induction a with
  | nil => simp [wBelow]
  | cons x t ih => obtain ⟨y, w⟩ := x; simp only [List.cons_append, wBelow, ih]; omega

theorem wBelow_map (q : Int → Bool) (l : List Int) (w : Nat) : wBelow q (l.map (fun x => (x, w))) = cntP q l * w := by
  induction l with
  | nil => simp [wBelow]
  | cons a t ih =>
    simp only [List.map_cons, wBelow, ih, cntP_cons]
    by_cases h : q a <;> simp [h, Nat.add_mul]

theorem sortedV_map (l : List Int) (w : Nat) (h : Sorted l) : SortedV (l.map (fun x => (x, w))) := by
  simp only [SortedV, List.pairwise_map]; exact h

theorem mem_merge (x : Int × Nat) (a b : List (Int × Nat)) : x ∈ SortedView.merge ltInt a b ↔ x ∈ a ∨ x ∈ b := by
  rw [(SortedView.merge_perm ltInt a b).mem_iff, List.mem_append]

theorem wBelow_merge (q : Int → Bool) (a b : List (Int × Nat)) :
    wBelow q (SortedView.merge ltInt a b) = wBelow q a + wBelow q b := by
  refine SortedView.merge_induction ltInt (motive := fun a b m => wBelow q m = wBelow q a + wBelow q b) ?_ ?_ ?_ ?_ a b
  · intro r; simp [wBelow]
  · intro a l; simp [wBelow]
  · intro a l b r hlt ih; obtain ⟨y, w⟩ := b; simp only [wBelow] at ih ⊢; omega
  · intro a l b r hlt ih; obtain ⟨y, w⟩ := a; simp only [wBelow] at ih ⊢; omega

theorem sortedV_merge (a b : List (Int × Nat)) (ha : SortedV a) (hb : SortedV b) : SortedV (SortedView.merge ltInt a b) := by
  refine SortedView.merge_induction ltInt (motive := fun a b m => SortedV a → SortedV b → SortedV m) ?_ ?_ ?_ ?_ a b ha hb
  · intro r _ hb; exact hb
  · intro a l ha _; exact ha
  · intro a l b r hlt ih ha hb
    simp only [ltInt, decide_eq_true_eq] at hlt
    simp only [SortedV, List.pairwise_cons] at ha hb ⊢
    refine ⟨?_, ih (by simp only [SortedV, List.pairwise_cons]; exact ha) hb.2⟩
    intro z hz
    rcases (mem_merge z (a :: l) r).1 hz with h | h
    · rcases List.mem_cons.1 h with rfl | h
      · omega
      · have := ha.1 z h; omega
    · exact hb.1 z h
  · intro a l b r hlt ih ha hb
    simp only [ltInt, decide_eq_true_eq] at hlt
    simp only [SortedV, List.pairwise_cons] at ha hb ⊢
    refine ⟨?_, ih ha.2 (by simp only [SortedV, List.pairwise_cons]; exact hb)⟩
    intro z hz
    rcases (mem_merge z l (b :: r)).1 hz with h | h
    · exact ha.1 z h
    · rcases List.mem_cons.1 h with rfl | h
      · omega
      · have := hb.1 z h; omega

theorem add_spec (q : Int → Bool) (v : List (Int × Nat)) (l : List Int) (w : Nat) (hv : SortedV v) (hl : Sorted l) :
    SortedV (SortedView.add ltInt v l w) ∧ wBelow q (SortedView.add ltInt v l w) = wBelow q v + cntP q l * w := by
  simp only [SortedView.add]
  split
  · rename_i he
    have : v = [] := List.isEmpty_iff.1 he
    subst this
    exact ⟨sortedV_map l w hl, by simp [wBelow, wBelow_map]⟩
  · exact ⟨sortedV_merge _ _ hv (sortedV_map l w hl), by rw [wBelow_merge, wBelow_map]⟩

theorem viewFold_spec (q : Int → Bool) (cs : List (Compactor ρ)) : ∀ (v : List (Int × Nat)), SortedV v → (∀ c ∈ cs, Sorted c.items) →
    SortedV (cs.foldl (fun v c => SortedView.add ltInt v c.items (2 ^ c.lgWeight)) v) ∧
    wBelow q (cs.foldl (fun v c => SortedView.add ltInt v c.items (2 ^ c.lgWeight)) v) = wBelow q v + weightP q cs := by
  induction cs with
  | nil => intro v hv _; exact ⟨hv, by simp⟩
  | cons c t ih =>
    intro v hv hs
    have a := add_spec q v c.items (2 ^ c.lgWeight) hv (hs c (by simp))
    have b := ih _ a.1 (fun c' hc' => hs c' (List.mem_cons_of_mem _ hc'))
    simp only [List.foldl_cons]
    exact ⟨b.1, by rw [b.2, a.2, weightP_cons]; omega⟩

theorem viewRaw_spec (q : Int → Bool) (cs : List (Compactor ρ)) (hs : ∀ c ∈ cs, Sorted c.items) :
    SortedV (viewRaw cs) ∧ wBelow q (viewRaw cs) = weightP q cs := by
  have := viewFold_spec q cs [] (by simp [SortedV]) hs
  exact ⟨this.1, by rw [viewRaw, this.2]; simp [wBelow]⟩

/-! ### rank on the cumulative view -/

theorem total_eq (raw : List (Int × Nat)) : SortedView.total raw = wBelow (fun _ => true) raw := by
  have : ∀ a, raw.foldl (fun a e => a + e.2) a = a + wBelow (fun _ => true) raw := by
    induction raw with
    | nil => intro a; simp [wBelow]
    | cons x t ih => intro a; obtain ⟨y, w⟩ := x; simp only [List.foldl_cons, ih, wBelow]; simp; omega
  simpa [SortedView.total] using this 0

theorem wBelow_zero_of_sorted (x : Int) (inc : Bool) (y : Int) (t : List (Int × Nat))
    (hy : (if inc then ltInt x y else !(ltInt y x)) = true) (hs : ∀ z ∈ t, y ≤ z.1) :
    wBelow (fun z => if inc then decide (z ≤ x) else decide (z < x)) t = 0 := by
  induction t with
  | nil => rfl
  | cons a t ih =>
    obtain ⟨z, w⟩ := a
    have hz := hs (z, w) (by simp)
    simp only [wBelow, ih (fun z hz => hs z (List.mem_cons_of_mem _ hz))]
    cases inc <;> simp [ltInt] at hy ⊢ <;> omega

theorem rankGo_spec (x : Int) (inc : Bool) (raw : List (Int × Nat)) : ∀ (a : Nat), SortedV raw →
    SortedView.rankGo ltInt x inc (SortedView.cumulate a raw) a
      = a + wBelow (fun z => if inc then decide (z ≤ x) else decide (z < x)) raw := by
  induction raw with
  | nil => intro a _; simp [SortedView.cumulate, SortedView.rankGo, wBelow]
  | cons e t ih =>
    intro a hs
    obtain ⟨y, w⟩ := e
    simp only [SortedV, List.pairwise_cons] at hs
    simp only [SortedView.cumulate, SortedView.rankGo, wBelow]
    cases inc
    · simp only [Bool.false_eq_true, if_false]
      by_cases hyx : y < x
      · have hc : (!ltInt y x) = false := by simp [ltInt, hyx]
        rw [hc]; simp only [Bool.false_eq_true, if_false]
        rw [ih (a + w) hs.2]
        simp [hyx]; omega
      · have hc : (!ltInt y x) = true := by simp [ltInt, hyx]
        have h0 := wBelow_zero_of_sorted x false y t (by simpa using hc) hs.1
        simp only [Bool.false_eq_true, if_false] at h0
        rw [hc]; simp [hyx, h0]
    · simp only [if_true]
      by_cases hxy : x < y
      · have hc : ltInt x y = true := by simp [ltInt, hxy]
        have h0 := wBelow_zero_of_sorted x true y t (by simpa using hc) hs.1
        simp only [if_true] at h0
        have : ¬ (y ≤ x) := by omega
        rw [hc]; simp [this, h0]
      · have hc : ltInt x y = false := by simp [ltInt, hxy]
        rw [hc]; simp only [Bool.false_eq_true, if_false]
        rw [ih (a + w) hs.2]
        have : y ≤ x := by omega
        simp [this]; omega

theorem view_rankNum (x : Int) (inc : Bool) (raw : List (Int × Nat)) (hs : SortedV raw) :
    SortedView.rankNum ltInt (SortedView.build raw) x inc = wBelow (fun z => if inc then decide (z ≤ x) else decide (z < x)) raw := by
  have := rankGo_spec x inc raw 0 hs
  simpa [SortedView.rankNum, SortedView.build] using this

/-! ### both ranks of a sketch -/

theorem allSorted_of_CsInv {T : Tun} {hra : Bool} : ∀ (h : Nat) (cs : List (Compactor ρ)), 1 ≤ h → CsInv T hra h cs → ∀ c ∈ cs, Sorted c.items := by
  intro h cs
  induction cs generalizing h with
  | nil => intro _ _ c hc; simp at hc
  | cons c t ih =>
    intro h1 hinv c' hc'
    rcases List.mem_cons.1 hc' with rfl | hc'
    · exact hinv.1.srt (Or.inl (by omega))
    · exact ih (h + 1) (by omega) hinv.2 c' hc'

theorem direct_rankNum {T : Tun} {hra : Bool} (x : Int) (inc : Bool) : ∀ (h : Nat) (cs : List (Compactor ρ)), CsInv T hra h cs →
    (cs.map (fun c => c.computeWeight x inc)).sum = weightP (fun z => if inc then decide (z ≤ x) else decide (z < x)) cs := by
  intro h cs
  induction cs generalizing h with
  | nil => intro _; rfl
  | cons c t ih =>
    intro hinv
    simp only [List.map_cons, List.sum_cons, weightP_cons]
    rw [ih (h + 1) hinv.2]
    simp only [Compactor.computeWeight]
    rw [boundPos_eq_cnt _ _ _ (sort_sorted hinv.1), sort_cntP]

/-- REQ's direct `get_rank` numerator = the sorted view's rank numerator = weight below; the view's total is `n` -/
theorem rank_agree {T : Tun} (s : Sketch ρ) (h : SInv T s) (x : Int) (inc : Bool) :
    s.rankNum x inc = s.weightBelow x inc ∧
    SortedView.rankNum ltInt s.sortedView x inc = s.weightBelow x inc ∧
    s.sortedView.total = s.n := by
  have hv := afterView_SInv s h
  have hsorted : ∀ c ∈ s.afterView.compactors, Sorted c.items := by
    show ∀ c ∈ sortLevel0 s.compactors, Sorted c.items
    cases hcs : s.compactors with
    | nil => intro c hc; simp [sortLevel0] at hc
    | cons c0 t =>
      have hinv := h.cs; rw [hcs] at hinv
      intro c hc
      simp only [sortLevel0] at hc
      rcases List.mem_cons.1 hc with rfl | hc
      · exact sort_sorted hinv.1
      · exact allSorted_of_CsInv 1 t (by omega) hinv.2 c hc
  have hw : ∀ q, weightP q s.afterView.compactors = weightP q s.compactors := (sortLevel0_spec s.compactors h.cs).2.2.2.2.2.2.2
  refine ⟨direct_rankNum x inc 0 s.compactors h.cs, ?_, ?_⟩
  · have vs := viewRaw_spec (fun z => if inc then decide (z ≤ x) else decide (z < x)) s.afterView.compactors hsorted
    rw [Sketch.sortedView, view_rankNum x inc _ vs.1, vs.2, hw]; rfl
  · have vs := viewRaw_spec (fun _ => true) s.afterView.compactors hsorted
    show SortedView.total (viewRaw s.afterView.compactors) = s.n
    rw [total_eq, vs.2, hw]; exact h.tw.symm

end DS.Req

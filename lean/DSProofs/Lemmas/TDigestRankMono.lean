/-
t-digest (C17), exact arithmetic: range and monotonicity of the centre part of `get_rank` on a sorted list,
then of `get_rank` on every state satisfying the invariant.
-/
import DSProofs.Lemmas.TDigestRank
namespace DS.TDigest
open Num Conv

/-- `v` = (rank of `x`) × (total weight), described through the split of the sorted list at `x` -/
def RankVal (cs : List C) (x v : Rat) : Prop :=
  ∃ lt eq gt, Split cs x lt eq gt ∧
    ((∃ e0 t, eq = e0 :: t ∧ v = (P (lt ++ [e0]) + P (lt ++ eq)) / 2) ∨
     (eq = [] ∧ ∃ i lo r0 t, lt = i ++ [lo] ∧ gt = r0 :: t ∧
        v = P lt + (P (lt ++ [r0]) - P lt) * ((x - lo.mean) / (r0.mean - lo.mean))))

theorem head_le_of_sorted {c : C} {cs : List C} (hs : Sorted (c :: cs)) : ∀ d ∈ c :: cs, c.mean ≤ d.mean := by
  intro d hd
  unfold Sorted at hs
  rw [List.pairwise_cons] at hs
  rcases List.mem_cons.1 hd with rfl | hd
  · exact le_refl _
  · exact hs.1 d hd

theorem le_last_of_sorted {cs : List C} {l : C} (hs : Sorted cs) (hl : cs.getLast? = some l) : ∀ d ∈ cs, d.mean ≤ l.mean := by
  intro d hd
  obtain ⟨i, rfl⟩ := List.getLast?_eq_some_iff.1 hl
  unfold Sorted at hs
  rw [List.pairwise_append] at hs
  rcases List.mem_append.1 hd with h | h
  · exact hs.2.2 d h l (by simp)
  · simp at h; subst h; exact le_refl _

/-- `rankMid` never throws for a value inside `[first mean, last mean]` of a sorted list, and its value is a `RankVal` -/
theorem rankMid_val {cs : List C} (hs : Sorted cs) {f l : C} (hf : cs.head? = some f) (hl : cs.getLast? = some l)
    (x : Rat) (h1 : f.mean ≤ x) (h2 : x ≤ l.mean) (cwD : Rat) :
    ∃ v, rankMid cs cwD x = some (v / cwD) ∧ RankVal cs x v := by
  obtain ⟨lt, eq, gt, hsp⟩ := split_exists hs x
  rcases List.eq_nil_or_concat eq with heq | ⟨i, e1, heq⟩
  · -- strictly between two means
    subst heq
    have hltne : lt ≠ [] := by
      intro h
      subst h
      have hcs : cs = gt := by rw [hsp.eqn]; rfl
      rw [hcs] at hf
      have := hsp.hgt f (List.mem_of_head? hf)
      linarith
    have hgtne : gt ≠ [] := by
      intro h
      subst h
      have hcs : cs = lt := by rw [hsp.eqn]; simp
      rw [hcs] at hl
      have := hsp.hlt l (List.mem_of_getLast? hl)
      linarith
    obtain ⟨i, lo, hlt⟩ : ∃ i lo, lt = i ++ [lo] := by
      rcases List.eq_nil_or_concat lt with h | ⟨i, lo, h⟩
      · exact absurd h hltne
      · exact ⟨i, lo, by rw [h, List.concat_eq_append]⟩
    obtain ⟨r0, t, hgt⟩ := List.exists_cons_of_ne_nil hgtne
    refine ⟨_, ?_, lt, [], gt, hsp, Or.inr ⟨rfl, i, lo, r0, t, hlt, hgt, rfl⟩⟩
    exact rankMid_between hsp cwD hlt hgt
  · rw [List.concat_eq_append] at heq
    obtain ⟨e0, t, h0⟩ : ∃ e0 t, eq = e0 :: t := List.exists_cons_of_ne_nil (by rw [heq]; simp)
    refine ⟨_, ?_, lt, eq, gt, hsp, Or.inl ⟨e0, t, h0, rfl⟩⟩
    exact rankMid_eq hsp cwD h0 heq

theorem P_prefix_le {cs l m : List C} (h : cs = l ++ m) : P l ≤ (sumWeights cs : Rat) := by
  have h1 := P_le_sum l
  have h2 : (sumWeights l : Rat) ≤ (sumWeights cs : Rat) := by
    rw [h]; simp
  linarith

/-- 0 ≤ v ≤ total weight -/
theorem RankVal.range {cs : List C} {x v : Rat} (h : RankVal cs x v) : 0 ≤ v ∧ v ≤ (sumWeights cs : Rat) := by
  obtain ⟨lt, eq, gt, hsp, h | h⟩ := h
  · obtain ⟨e0, t, h0, rfl⟩ := h
    have a1 := P_nonneg (lt ++ [e0])
    have a2 := P_nonneg (lt ++ eq)
    have b1 : P (lt ++ [e0]) ≤ (sumWeights cs : Rat) :=
      P_prefix_le (m := t ++ gt) (by rw [hsp.eqn, h0]; simp)
    have b2 : P (lt ++ eq) ≤ (sumWeights cs : Rat) := P_prefix_le (m := gt) hsp.eqn
    constructor <;> linarith
  · obtain ⟨rfl, i, lo, r0, t, hlt, hgt, rfl⟩ := h
    have hlo := hsp.hlt lo (by rw [hlt]; simp)
    have hr0 := hsp.hgt r0 (by rw [hgt]; exact List.mem_cons_self ..)
    have hd : 0 < r0.mean - lo.mean := by linarith
    have t0 : 0 ≤ (x - lo.mean) / (r0.mean - lo.mean) := div_nonneg (by linarith) hd.le
    have t1 : (x - lo.mean) / (r0.mean - lo.mean) ≤ 1 := by rw [div_le_one hd]; linarith
    have a1 := P_nonneg lt
    have hm := P_mono lt [r0] (by rw [hlt]; simp)
    have b2 : P (lt ++ [r0]) ≤ (sumWeights cs : Rat) :=
      P_prefix_le (m := t) (by rw [hsp.eqn, hgt]; simp)
    constructor <;> nlinarith

/-- lower and upper bounds by centre positions -/
theorem RankVal.lower {cs : List C} {x v : Rat} (h : RankVal cs x v) {lt eq gt : List C} (hsp : Split cs x lt eq gt)
    (hne : lt ≠ []) : P lt ≤ v := by
  obtain ⟨lt', eq', gt', hsp', h⟩ := h
  have e1 : lt' = lt := by rw [← hsp'.takeLt, hsp.takeLt]
  subst e1
  rcases h with ⟨e0, t, h0, rfl⟩ | ⟨rfl, i, lo, r0, t, hlt, hgt, rfl⟩
  · have a := P_mono lt' [e0] hne
    have b := P_mono (lt' ++ [e0]) t (by simp)
    rw [List.append_assoc, List.singleton_append, ← h0] at b
    linarith
  · have hlo := hsp'.hlt lo (by rw [hlt]; simp)
    have hr0 := hsp'.hgt r0 (by rw [hgt]; exact List.mem_cons_self ..)
    have hd : 0 < r0.mean - lo.mean := by linarith
    have t0 : 0 ≤ (x - lo.mean) / (r0.mean - lo.mean) := div_nonneg (by linarith) hd.le
    have hm := P_mono lt' [r0] hne
    nlinarith

theorem rankVal_mono {cs : List C} {x y vx vy : Rat} (hx : RankVal cs x vx) (hy : RankVal cs y vy) (hxy : x < y) :
    vx ≤ vy := by
  obtain ⟨lt, eq, gt, hsp, hxc⟩ := hx
  obtain ⟨lt', eq', gt', hsp', hyc⟩ := id hy
  obtain ⟨m, hm⟩ := hsp.mono hsp' hxy
  rcases hxc with ⟨e0, t, h0, rfl⟩ | ⟨rfl, i, lo, r0, t, hlt, hgt, rfl⟩
  · -- x is a mean: vx ≤ P (lt ++ eq) ≤ P lt' ≤ vy
    have a := P_mono (lt ++ [e0]) t (by simp)
    rw [List.append_assoc, List.singleton_append, ← h0] at a
    have b := P_mono (lt ++ eq) m (by rw [h0]; simp)
    rw [← hm] at b
    have c := hy.lower hsp' (by rw [hm, h0]; simp)
    linarith
  · -- x strictly between lo and r0
    have hlo := hsp.hlt lo (by rw [hlt]; simp)
    have hr0 := hsp.hgt r0 (by rw [hgt]; exact List.mem_cons_self ..)
    have hd : 0 < r0.mean - lo.mean := by linarith
    have t1 : (x - lo.mean) / (r0.mean - lo.mean) ≤ 1 := by rw [div_le_one hd]; linarith
    have hltne : lt ≠ [] := by rw [hlt]; simp
    have hPm := P_mono lt [r0] hltne
    have hup : P lt + (P (lt ++ [r0]) - P lt) * ((x - lo.mean) / (r0.mean - lo.mean)) ≤ P (lt ++ [r0]) := by nlinarith
    simp only [List.append_nil] at hm
    -- cs = lt ++ r0 :: t = lt ++ m ++ eq' ++ gt'
    have hcs : r0 :: t = m ++ (eq' ++ gt') := by
      have e1 := hsp.eqn
      have e2 := hsp'.eqn
      rw [hm] at e2
      rw [e1, hgt] at e2
      simp only [List.append_nil, List.append_assoc] at e2
      exact List.append_cancel_left e2
    cases m with
    | cons a m' =>
      -- r0 is below y as well: P (lt ++ [r0]) ≤ P lt' ≤ vy
      have ha : a = r0 := by simp at hcs; exact hcs.1.symm
      subst ha
      have b := P_mono (lt ++ [a]) m' (by simp)
      have e : lt ++ [a] ++ m' = lt' := by rw [hm]; simp
      rw [e] at b
      have c := hy.lower hsp' (by rw [hm]; simp [hltne])
      linarith
    | nil =>
      simp only [List.append_nil] at hm
      subst hm
      simp only [List.nil_append] at hcs
      rcases hyc with ⟨e0, t', h0, rfl⟩ | ⟨rfl, i', lo', r0', t', hlt', hgt', rfl⟩
      · -- y equals the mean of r0
        have he : e0 = r0 := by rw [h0] at hcs; simp at hcs; exact hcs.1.symm
        subst he
        have b := P_mono (lt' ++ [e0]) t' (by simp)
        rw [List.append_assoc, List.singleton_append, ← h0] at b
        linarith
      · -- same segment
        have he : r0' = r0 := by rw [hgt'] at hcs; simp at hcs; exact hcs.1.symm
        subst he
        have hl2 : lo' = lo := by
          have := hlt.symm.trans hlt'
          have := List.append_inj' this rfl
          simpa using this.2.symm
        subst hl2
        have hmono : (x - lo'.mean) / (r0'.mean - lo'.mean) ≤ (y - lo'.mean) / (r0'.mean - lo'.mean) :=
          div_le_div_of_nonneg_right (by linarith) hd.le
        nlinarith

end DS.TDigest

/- Bridge from the coin-tree invariants to "every reachable sketch": used by Props/C07_Kll.lean. -/
import DSProofs.Lemmas.KllTruth2
import DSProofs.Lemmas.KllIter
import DSModel.Kll.Gen
namespace DS.Kll
open DS DS.SortedView

variable {α : Type}

/-- the state reached by a history from the empty state under a given coin sequence -/
def reach (P : Params) (c : Cmp α) (ops : List (Op α)) (coins : Coins) : List (Sketch α) :=
  ((runT P c ops []).run coins).1

theorem reach_inv {P : Params} (ok : ParamsOk P) {c : Cmp α} (sw : StrictWeak c.lt) (ops : List (Op α)) (coins : Coins) :
    (∀ s ∈ reach P c ops coins, InvS P c.lt s) ∧ Coupled c (reach P c ops coins) (truth P c ops []) :=
  CT.All.run (runT_coupled ok sw ops (st := []) (tr := []) (by simp) ⟨rfl, by simp⟩) coins

theorem reach_get {P : Params} (ok : ParamsOk P) {c : Cmp α} (sw : StrictWeak c.lt) (ops : List (Op α)) (coins : Coins)
    {i : Nat} {s : Sketch α} (h : (reach P c ops coins)[i]? = some s) :
    InvS P c.lt s ∧ ∃ inp, (truth P c ops [])[i]? = some inp ∧ InvT c s inp := by
  obtain ⟨hi, hc⟩ := reach_inv ok sw ops coins
  refine ⟨hi s (List.mem_of_getElem? h), ?_⟩
  have hlt : i < (truth P c ops []).length := by rw [← hc.1]; exact (List.getElem?_eq_some_iff.mp h).1
  exact ⟨_, List.getElem?_eq_getElem hlt, hc.2 i s _ h (List.getElem?_eq_getElem hlt)⟩

theorem weightSum_ge_getD : ∀ (h : Nat) (L : List (List α)) (i : Nat), 2 ^ (h + i) * (L.getD i []).length ≤ weightSum h L
  | _, [], i => by simp
  | h, l :: t, 0 => by simp only [List.getD_cons_zero, Nat.add_zero, weightSum]; omega
  | h, l :: t, i + 1 => by
    have := weightSum_ge_getD (h + 1) t i
    rw [show h + 1 + i = h + (i + 1) by omega] at this
    simp only [List.getD_cons_succ, weightSum]; omega

/-- top level non-empty ⇒ 2^(numLevels-1) ≤ n ⇒ numLevels ≤ ub_on_num_levels(n) -/
theorem numLevels_le_ub {P : Params} {lt : α → α → Bool} {s : Sketch α} (h : InvS P lt s) :
    s.numLevels ≤ ubOnNumLevels s.n := by
  unfold ubOnNumLevels Sketch.numLevels
  rcases h.top with h1 | h1
  · omega
  · have hw := weightSum_ge_getD 0 s.levels (s.levels.length - 1)
    rw [h.weight] at hw
    have hpos : 0 < (s.levels.getD (s.levels.length - 1) []).length := List.length_pos_iff.mpr h1
    have hle : 2 ^ (s.levels.length - 1) ≤ s.n := by
      simp only [Nat.zero_add] at hw
      calc 2 ^ (s.levels.length - 1) = 2 ^ (s.levels.length - 1) * 1 := by omega
        _ ≤ 2 ^ (s.levels.length - 1) * (s.levels.getD (s.levels.length - 1) []).length := Nat.mul_le_mul_left _ hpos
        _ ≤ s.n := hw
    have hn : s.n ≠ 0 := by
      have : 0 < 2 ^ (s.levels.length - 1) := Nat.pow_pos (by omega)
      omega
    have := (Nat.le_log2 hn).mpr hle
    omega

theorem gen_params_ok : ParamsOk genParams := ⟨by decide, by decide, by decide⟩

def intCmp : Cmp Int := { lt := fun a b => decide (a < b), isNaN := fun _ => false }

theorem intCmp_sw : StrictWeak intCmp.lt :=
  ⟨by intro a b h; simp only [intCmp, decide_eq_true_eq, decide_eq_false_iff_not] at h ⊢; omega,
   by intro a b c h1 h2; simp only [intCmp, decide_eq_false_iff_not] at h1 h2 ⊢; omega⟩

end DS.Kll

/- `update` re-establishes the VarOpt invariant on every path (warm-up, transition, light, heavy r = 1, heavy
   general), never throws from a state satisfying it, conserves weight and never lowers tau.  Rat instance. -/
import DSProofs.Lemmas.VarOptInv
namespace DS.VarOpt
open DS

/-- the mark counter after popping `root` out of H -/
def popCount (g : Bool) (nm : Nat) (root : E) : Nat := if g && root.mark then nm - 1 else nm

theorem marksOK_pop {g : Bool} {nm : Nat} {root : E} {t : List E} (h : MarksOK g nm (root :: t)) :
    MarksOK g (popCount g nm root) (heapPopRest (root :: t)) := by
  unfold popCount
  obtain ⟨hcnt, hng⟩ := h
  have hpp := heapPopRest_perm (root :: t) root t rfl
  have hcm : countMarks (root :: t) = (if root.mark then 1 else 0) + countMarks (heapPopRest (root :: t)) := by
    rw [← countMarks_cons]; exact (countMarks_perm hpp).symm
  constructor
  · cases g with
    | false =>
      have hrm : root.mark = false := hng rfl root (by simp)
      simp [hrm] at hcm ⊢
      omega
    | true =>
      by_cases hrm : root.mark <;> simp [hrm] at hcm ⊢ <;> omega
  · intro hg e he
    exact hng hg e (hpp.subset (List.mem_cons_of_mem _ he))

theorem popMinToM_cons (s : Sk Rat) (root : E) (t : List E) (h : s.H = root :: t) :
    popMinToM s = { s with H := heapPopRest s.H, M := root :: s.M,
                           numMarksInH := popCount s.gadget s.numMarksInH root } := by
  simp [popMinToM, popCount, h]

theorem exists_cons_of_length_pos {α : Type} {l : List α} (h : 0 < l.length) : ∃ a t, l = a :: t := by
  cases l with
  | nil => simp at h
  | cons a t => exact ⟨a, t, rfl⟩

/-- `transition_from_warmup` from a full warm-up state (k+1 items in H, all inputs) -/
theorem transition_spec (s : Sk Rat) (ins : List E) (ds : Draws Rat)
    (hk : 1 ≤ s.k) (hM : s.M = []) (_hR : s.R = []) (hst : s.mStale = false)
    (hlen : s.H.length = s.k + 1) (hperm : ins.Perm s.H) (hpos : ∀ e ∈ ins, 0 < e.wt)
    (hmk : MarksOK s.gadget s.numMarksInH s.H) :
    ∃ s' ds' L', transitionFromWarmup s ds = (s', ds') ∧ Inv0 s' ins L' ∧ s'.R ≠ [] ∧
      s'.k = s.k ∧ s'.gadget = s.gadget ∧ s'.rf = s.rf ∧ s'.n = s.n := by
  -- heapify
  have hp1 := convertToHeap_perm s.H
  have hh1 := convertToHeap_heap s.H
  have hl1 : (convertToHeap s.H).length = s.k + 1 := by rw [hp1.length_eq, hlen]
  obtain ⟨e1, t1, hH1⟩ := exists_cons_of_length_pos (l := convertToHeap s.H) (by omega)
  have hmk1 : MarksOK s.gadget s.numMarksInH (e1 :: t1) := by
    rw [← hH1]
    exact ⟨by rw [hmk.1]; exact (countMarks_perm hp1).symm, fun hg e he => hmk.2 hg e (hp1.subset he)⟩
  -- first pop
  have hpp1 := heapPopRest_perm (e1 :: t1) e1 t1 rfl
  have hh2 : IsHeap (heapPopRest (e1 :: t1)) := heapPopRest_heap _ (hH1 ▸ hh1)
  have hl2 : (heapPopRest (e1 :: t1)).length = s.k := by rw [heapPopRest_length, ← hH1, hl1]; simp
  obtain ⟨e2, t2, hH2⟩ := exists_cons_of_length_pos (l := heapPopRest (e1 :: t1)) (by omega)
  have hmk2 := marksOK_pop hmk1
  rw [hH2] at hmk2
  -- second pop
  have hpp2 := heapPopRest_perm (e2 :: t2) e2 t2 rfl
  have hh3 : IsHeap (heapPopRest (e2 :: t2)) := heapPopRest_heap _ (hH2 ▸ hh2)
  have hl3 : (heapPopRest (e2 :: t2)).length = s.k - 1 := by rw [heapPopRest_length, ← hH2, hl2]
  have hmk3 := marksOK_pop hmk2
  -- minimality
  have hmin1 : ∀ e ∈ e1 :: t1, e1.wt ≤ e.wt := by
    intro e he
    have := heap_root_min (hH1 ▸ hh1) he
    rwa [wtAt_zero_cons] at this
  have hmin2 : ∀ e ∈ e2 :: t2, e2.wt ≤ e.wt := by
    intro e he
    have := heap_root_min (hH2 ▸ hh2) he
    rwa [wtAt_zero_cons] at this
  have hsub3 : ∀ e ∈ heapPopRest (e2 :: t2), e ∈ e2 :: t2 := fun e he => hpp2.subset (List.mem_cons_of_mem _ he)
  have hsub2 : ∀ e ∈ e2 :: t2, e ∈ e1 :: t1 := fun e he => hpp1.subset (List.mem_cons_of_mem _ (hH2 ▸ he))
  have hperm3 : ins.Perm (e1 :: e2 :: heapPopRest (e2 :: t2)) := by
    refine hperm.trans (hp1.symm.trans ?_)
    rw [hH1]
    refine hpp1.symm.trans (List.Perm.cons _ ?_)
    rw [hH2]
    exact hpp2.symm
  have he1pos : 0 < e1.wt := hpos e1 (hperm3.symm.subset (by simp))
  have he2pos : 0 < e2.wt := hpos e2 (hperm3.symm.subset (by simp))
  -- unfold the code
  have hs1 : popMinToM (popMinToM { s with H := convertToHeap s.H }) =
      { s with H := heapPopRest (e2 :: t2), M := [e2, e1],
               numMarksInH := popCount s.gadget (popCount s.gadget s.numMarksInH e1) e2 } := by
    rw [popMinToM_cons { s with H := convertToHeap s.H } e1 t1 hH1]
    simp only [hH1]
    rw [popMinToM_cons _ e2 t2 hH2]
    simp only [hH2, hM]
  unfold transitionFromWarmup
  simp only [hs1]
  have hmid : Mid (heapPopRest (e2 :: t2)) [e2] [e1] [e1.item] s.k (e2.wt + e1.wt) 2 e1.wt 1 ins := by
    refine { heap := hh3, perm := ?_, nc_eq := by simp, nc2 := le_refl _, cnt := ?_, wt_eq := by simp [sumW],
             rItems := by simp, rLen := by simp, mLight := ?_, mLeH := ?_, r0pos := Nat.one_pos,
             lLight := by simp, hHeavy := ?_, tauMono := ?_, pos := hpos }
    · refine hperm3.trans ?_
      have : (e1 :: e2 :: heapPopRest (e2 :: t2)).Perm (heapPopRest (e2 :: t2) ++ [e2, e1]) := by
        refine List.Perm.trans ?_ List.perm_append_comm
        simp only [List.cons_append, List.nil_append]
        exact List.Perm.swap _ _ _
      simpa using this
    · show (heapPopRest (e2 :: t2)).length + 2 = s.k + 1
      omega
    · intro m hm
      simp at hm
      subst hm
      push_cast; linarith
    · intro m hm e he
      simp at hm
      subst hm
      exact hmin2 e (hsub3 e he)
    · intro e he
      have := hmin1 e (hsub2 e (hsub3 e he))
      simpa using this
    · push_cast; linarith
  obtain ⟨s', ds', L', hg, hinv, hne, _, hk', hg', hrf', hn'⟩ :=
    growCandidateSet_spec
      { s with H := heapPopRest (e2 :: t2), M := [e2], R := [e1.item], totalWtR := e1.wt,
               numMarksInH := popCount s.gadget (popCount s.gadget s.numMarksInH e1) e2 }
      [e1] ins (e2.wt + e1.wt) 2 e1.wt 1 ds hmid hmk3 hk hst
  exact ⟨s', ds', L', hg, hinv, hne, hk', hg', hrf', hn'⟩

/-- the entry stored for `update(item, w, mark)` -/
def mkEntry (s : Sk Rat) (item : Int) (w : Rat) (mark : Bool) : E := { item := item, wt := w, mark := storedMark s mark }

theorem countMarks_append_single (l : List E) (e : E) : countMarks (l ++ [e]) = countMarks l + (if e.mark then 1 else 0) := by
  unfold countMarks
  by_cases h : e.mark <;> simp [List.filter_append, h]

theorem length_pos_of_ne_nil {α : Type} {l : List α} (h : l ≠ []) : 0 < l.length := List.length_pos_of_ne_nil h

/-- every H weight is at least tau (division form) -/
theorem EstInv.tau_le {s : Sk Rat} {L : List E} (h : EstInv s L) (hr : s.R ≠ []) {e : E} (he : e ∈ s.H) :
    s.totalWtR / (s.R.length : Rat) ≤ e.wt := by
  have hr0 : (0 : Rat) < (s.R.length : Rat) := by exact_mod_cast length_pos_of_ne_nil hr
  rw [div_le_iff₀ hr0]
  exact h.hHeavy e he

theorem updateDispatch_spec (T : Tunables) (s : Sk Rat) (ins L : List E) (hinv : Inv0 s ins L)
    (item : Int) (w : Rat) (mark : Bool) (ds : Draws Rat)
    (hw : 0 < w) (hmg : mark = true → s.gadget = true) :
    ∃ s' ds' L', updateDispatch T s item w mark ds = some (s', ds') ∧ Inv0 s' (mkEntry s item w mark :: ins) L' ∧
      s'.k = s.k ∧ s'.gadget = s.gadget ∧ s'.rf = s.rf ∧ s'.n = s.n ∧
      (s.R ≠ [] → s'.R ≠ [] ∧ s.totalWtR * (s'.R.length : Rat) ≤ s'.totalWtR * (s.R.length : Rat)) := by
  have hpos' : ∀ e ∈ mkEntry s item w mark :: ins, 0 < e.wt := by
    intro e he
    rcases List.mem_cons.mp he with rfl | h
    · exact hw
    · exact hinv.pos e h
  have hm0 : s.m = 0 := by simp [Sk.m, hinv.mnil, hinv.fresh]
  unfold updateDispatch
  by_cases hR : s.R = []
  · -- warm-up
    obtain ⟨hL, hhk, hW0⟩ := hinv.warm hR
    subst hL
    have hrl : s.R.length = 0 := by rw [hR]; rfl
    simp only [hrl, beq_self_eq_true, if_true]
    unfold updateWarmup
    have hc : (decide (s.R.length > 0) || s.m != 0 || decide (s.H.length > s.k)) = false := by
      simp [hrl, hm0]; omega
    simp only [hc, Bool.false_eq_true, if_false]
    have hpermH : ins.Perm s.H := by simpa using hinv.perm
    have hmk' : MarksOK s.gadget (s.numMarksInH + (if mark then 1 else 0)) (s.H ++ [mkEntry s item w mark]) := by
      constructor
      · rw [countMarks_append_single, hinv.marks.1]
        congr 1
        cases hm : mark with
        | false => simp [mkEntry, storedMark]
        | true => simp [mkEntry, storedMark, hmg hm]
      · intro hg e he
        rcases List.mem_append.mp he with h | h
        · exact hinv.marks.2 hg e h
        · simp at h; subst h; simp [mkEntry, storedMark, hg]
    have hperm' : (mkEntry s item w mark :: ins).Perm (s.H ++ [mkEntry s item w mark]) :=
      (List.Perm.cons _ hpermH).trans (List.perm_append_comm (l₁ := [mkEntry s item w mark]))
    by_cases htr : s.H.length + 1 > s.k
    · -- the (k+1)-th item: transition to estimation mode
      have hlen : (s.H ++ [mkEntry s item w mark]).length = s.k + 1 := by simp; omega
      simp only [List.length_append, List.length_cons, List.length_nil, htr, decide_true, if_true]
      obtain ⟨s', ds', L', ht, hinv', hne, hk', hg', hrf', hnn⟩ := transition_spec
        { s with H := s.H ++ [mkEntry s item w mark],
                 numMarksInH := s.numMarksInH + (if mark then 1 else 0),
                 alloc := if s.H.length ≥ s.alloc then grownAlloc s.k s.rf s.alloc else s.alloc }
        (mkEntry s item w mark :: ins) ds hinv.kpos hinv.mnil hR hinv.fresh hlen hperm' hpos' hmk'
      refine ⟨s', ds', L', ?_, hinv', hk', hg', hrf', hnn, fun h => absurd hR h⟩
      simp only [mkEntry] at ht ⊢
      rw [ht]
    · simp only [List.length_append, List.length_cons, List.length_nil, htr, decide_false, Bool.false_eq_true, if_false]
      refine ⟨_, ds, [], rfl, ?_, rfl, rfl, rfl, rfl, fun h => absurd hR h⟩
      refine { kpos := hinv.kpos, mnil := hinv.mnil, fresh := hinv.fresh,
               perm := ?_, pos := hpos', marks := hmk', warm := ?_, est := fun h => absurd hR h }
      · show (mkEntry s item w mark :: ins).Perm ((s.H ++ [mkEntry s item w mark]) ++ [])
        rw [List.append_nil]; exact hperm'
      · intro _
        refine ⟨rfl, ?_, hW0⟩
        show (s.H ++ [mkEntry s item w mark]).length ≤ s.k
        simp only [List.length_append, List.length_cons, List.length_nil]; omega
  · -- estimation mode
    have hest := hinv.est hR
    have hrpos : 0 < s.R.length := length_pos_of_ne_nil hR
    have hr0 : (0 : Rat) < (s.R.length : Rat) := by exact_mod_cast hrpos
    have hrl : (s.R.length == 0) = false := by simp; omega
    simp only [hrl, Bool.false_eq_true, if_false]
    have hLne : L ≠ [] := by
      intro h; have := hest.rLen; rw [h] at this; simp at this
    have hLsub : ∀ e ∈ L, e ∈ ins := fun e he => hinv.perm.symm.subset (List.mem_append_right _ he)
    have hWpos : 0 < s.totalWtR := by
      rw [hest.wtR]; exact sumW_pos hLne (fun e he => hinv.pos e (hLsub e he))
    -- the validity check cannot fire
    have hchk : (s.H.length != 0 && Num.lt (wtAt s.H 0)
        (if T.validModeSlack then Num.mul (Num.div s.totalWtR (Num.ofNat s.R.length))
            (Num.sub (Num.one : Rat) (Num.ofFrac T.slackNum T.slackDen))
         else Num.div s.totalWtR (Num.ofNat s.R.length))) = false := by
      cases hH : s.H with
      | nil => simp
      | cons r t =>
        have h1 := hest.tau_le hR (e := r) (by rw [hH]; simp)
        have htau0 : 0 ≤ s.totalWtR / (s.R.length : Rat) := le_of_lt (div_pos hWpos hr0)
        have hS : (0 : Rat) ≤ (T.slackNum : Rat) / (T.slackDen : Rat) := by positivity
        have h2 : s.totalWtR / (s.R.length : Rat) * (1 - (T.slackNum : Rat) / (T.slackDen : Rat)) ≤ r.wt := by nlinarith
        by_cases hsl : T.validModeSlack = true
        · simp [hsl, wtAt_zero_cons, Num.ofFrac, not_lt.mpr h2]
        · simp [hsl, wtAt_zero_cons, not_lt.mpr h1]
    simp only [hchk, Bool.false_eq_true, if_false]
    -- root of H is its minimum
    have hrootmin : ∀ e ∈ s.H, wtAt s.H 0 ≤ e.wt := fun e he => heap_root_min hest.heap he
    by_cases hlight : ((s.H.length == 0 || Num.le w (wtAt s.H 0)) &&
        Num.lt w (Num.div (Num.add w s.totalWtR) (Num.ofNat s.R.length))) = true
    · -- light item
      simp only [hlight, if_true]
      simp only [Bool.and_eq_true, Bool.or_eq_true, Num.le_rat, Num.lt_rat, decide_eq_true_eq, Num.div_rat,
        Num.add_rat, Num.ofNat_rat, beq_iff_eq] at hlight
      obtain ⟨hc1, hc2⟩ := hlight
      rw [lt_div_iff₀ hr0] at hc2
      unfold updateLight
      have hcc : (s.R.length == 0 || s.R.length + s.H.length != s.k) = false := by
        have h2 : (s.R.length + s.H.length != s.k) = false := by have := hest.cnt; simp; omega
        simp [hrl, h2]
      simp only [hcc, Bool.false_eq_true, if_false]
      rw [if_neg (by rw [hinv.fresh]; simp)]
      have hmid : Mid s.H [mkEntry s item w mark] L s.R s.k (s.totalWtR + w) (s.R.length + 1) s.totalWtR s.R.length
          (mkEntry s item w mark :: ins) := by
        refine { heap := hest.heap, perm := ?_, nc_eq := by simp only [List.length_singleton]; omega, nc2 := by omega,
                 cnt := by have := hest.cnt; omega,
                 wt_eq := by simp [sumW, mkEntry, hest.wtR]; ring, rItems := hest.rItems, rLen := le_of_lt hest.rLen,
                 mLight := ?_, mLeH := ?_, r0pos := hrpos, lLight := hest.lLight, hHeavy := hest.hHeavy,
                 tauMono := ?_, pos := hpos' }
        · have := List.Perm.cons (mkEntry s item w mark) hinv.perm
          refine this.trans ?_
          simp only [List.singleton_append]
          exact List.perm_middle.symm
        · intro m hm
          simp at hm; subst hm
          push_cast
          simp only [mkEntry]
          linarith
        · intro m hm e he
          simp at hm; subst hm
          simp only [mkEntry]
          rcases hc1 with h | h
          · have : s.H = [] := List.eq_nil_of_length_eq_zero h
            rw [this] at he; simp at he
          · exact le_trans h (hrootmin e he)
        · push_cast
          have : s.totalWtR * (s.R.length : Rat) ≤ (s.totalWtR + w) * (s.R.length : Rat) :=
            mul_le_mul_of_nonneg_right (by linarith) (le_of_lt hr0)
          linarith
      obtain ⟨s', ds', L', hg, hinv', hne, htau, hk', hg', hrf', hnn⟩ := growCandidateSet_spec
        { s with M := [mkEntry s item w mark] } L (mkEntry s item w mark :: ins) (s.totalWtR + w) (s.R.length + 1)
        s.totalWtR s.R.length ds hmid hinv.marks hinv.kpos hinv.fresh
      refine ⟨s', ds', L', ?_, hinv', hk', hg', hrf', hnn, fun _ => ⟨hne, htau⟩⟩
      simp only [mkEntry, Num.add_rat] at hg ⊢
      rw [hg]
    · -- heavy item
      simp only [hlight, Bool.false_eq_true, if_false]
      -- the new item is at least as heavy as the old tau
      have hheavy : s.totalWtR ≤ w * (s.R.length : Rat) := by
        simp only [Bool.and_eq_true, Bool.or_eq_true, Num.le_rat, Num.lt_rat, decide_eq_true_eq, Num.div_rat,
          Num.add_rat, Num.ofNat_rat, beq_iff_eq, not_and_or, not_or, not_le, not_lt] at hlight
        rcases hlight with ⟨hne, hgt⟩ | hge
        · have hHne : s.H ≠ [] := fun h => hne (by rw [h]; rfl)
          obtain ⟨r, t, hH⟩ := exists_cons_of_length_pos (length_pos_of_ne_nil hHne)
          have h1 := hest.hHeavy r (by rw [hH]; simp)
          rw [hH, wtAt_zero_cons] at hgt
          have : r.wt * (s.R.length : Rat) ≤ w * (s.R.length : Rat) := mul_le_mul_of_nonneg_right (le_of_lt hgt) (le_of_lt hr0)
          linarith
        · rw [div_le_iff₀ hr0] at hge
          linarith
      -- push into H
      have hpush_perm := heapPush_perm s.H (mkEntry s item w mark)
      have hpush_heap := heapPush_heap s.H (mkEntry s item w mark) hest.heap
      have hpush_len := heapPush_length s.H (mkEntry s item w mark)
      have hpush_heavy : ∀ e ∈ heapPush s.H (mkEntry s item w mark), s.totalWtR ≤ e.wt * (s.R.length : Rat) := by
        intro e he
        rcases List.mem_cons.mp (hpush_perm.subset he) with rfl | h
        · exact hheavy
        · exact hest.hHeavy e h
      have hpush_marks : MarksOK s.gadget (if s.gadget && mark then s.numMarksInH + 1 else s.numMarksInH)
          (heapPush s.H (mkEntry s item w mark)) := by
        constructor
        · rw [countMarks_perm hpush_perm, countMarks_cons, hinv.marks.1]
          cases hg : s.gadget <;> cases hm : mark <;> simp [mkEntry, storedMark, hg] <;> omega
        · intro hg e he
          rcases List.mem_cons.mp (hpush_perm.subset he) with rfl | h
          · simp [mkEntry, storedMark, hg]
          · exact hinv.marks.2 hg e h
      have hperm_push : (mkEntry s item w mark :: ins).Perm (heapPush s.H (mkEntry s item w mark) ++ L) := by
        refine (List.Perm.cons _ hinv.perm).trans ?_
        rw [← List.cons_append]
        exact List.Perm.append_right _ hpush_perm.symm
      have hpushH : pushH s item w mark =
          { s with H := heapPush s.H (mkEntry s item w mark),
                   numMarksInH := if s.gadget && mark then s.numMarksInH + 1 else s.numMarksInH } := rfl
      by_cases hr1 : s.R.length = 1
      · -- r = 1: push, pop the lightest back into M
        simp only [hr1, beq_self_eq_true, if_true]
        unfold updateHeavyREq1
        have hcc : (s.R.length != 1 || s.m != 0 || s.R.length + s.H.length != s.k) = false := by
          have := hest.cnt; simp [hr1, hm0]; omega
        simp only [hcc, Bool.false_eq_true, if_false]
        obtain ⟨r1, t1, hH1⟩ := exists_cons_of_length_pos (l := heapPush s.H (mkEntry s item w mark)) (by omega)
        have hpop : popMinToM (pushH s item w mark) =
            { s with H := heapPopRest (r1 :: t1), M := [r1],
                     numMarksInH := popCount s.gadget (if s.gadget && mark then s.numMarksInH + 1 else s.numMarksInH) r1 } := by
          rw [hpushH, popMinToM_cons _ r1 t1 hH1]
          simp only [hH1, hinv.mnil]
        rw [hpop]
        simp only []
        have hpp := heapPopRest_perm (r1 :: t1) r1 t1 rfl
        have hsub : ∀ e ∈ heapPopRest (r1 :: t1), e ∈ heapPush s.H (mkEntry s item w mark) := by
          intro e he; rw [hH1]; exact hpp.subset (List.mem_cons_of_mem _ he)
        have hmin1 : ∀ e ∈ r1 :: t1, r1.wt ≤ e.wt := by
          intro e he
          have := heap_root_min (hH1 ▸ hpush_heap) he
          rwa [wtAt_zero_cons] at this
        have hr1c : (s.R.length : Rat) = 1 := by rw [hr1]; simp
        have hr1pos : 0 < r1.wt := hpos' r1 (hperm_push.symm.subset (List.mem_append_left _ (by rw [hH1]; simp)))
        have hmid : Mid (heapPopRest (r1 :: t1)) [r1] L s.R s.k (r1.wt + s.totalWtR) 2 s.totalWtR s.R.length
            (mkEntry s item w mark :: ins) := by
          refine { heap := heapPopRest_heap _ (hH1 ▸ hpush_heap), perm := ?_, nc_eq := by simp [hr1], nc2 := le_refl _,
                   cnt := ?_, wt_eq := by simp [sumW, hest.wtR], rItems := hest.rItems, rLen := le_of_lt hest.rLen,
                   mLight := ?_, mLeH := ?_, r0pos := hrpos, lLight := hest.lLight,
                   hHeavy := fun e he => hpush_heavy e (hsub e he), tauMono := ?_, pos := hpos' }
          · refine hperm_push.trans ?_
            rw [hH1]
            refine (List.Perm.append_right _ hpp.symm).trans ?_
            simp only [List.cons_append, List.nil_append]
            exact List.perm_middle.symm
          · rw [heapPopRest_length, ← hH1, hpush_len]
            have := hest.cnt; omega
          · intro m hm
            simp at hm; subst hm
            push_cast; linarith
          · intro m hm e he
            simp at hm; subst hm
            exact hmin1 e (hpp.subset (List.mem_cons_of_mem _ he))
          · push_cast; rw [hr1c]; linarith
        obtain ⟨s', ds', L', hg, hinv', hne, htau, hk', hg', hrf', hnn⟩ := growCandidateSet_spec
          { s with H := heapPopRest (r1 :: t1), M := [r1],
                   numMarksInH := popCount s.gadget (if s.gadget && mark then s.numMarksInH + 1 else s.numMarksInH) r1 }
          L (mkEntry s item w mark :: ins) (r1.wt + s.totalWtR) 2 s.totalWtR s.R.length ds hmid
          (marksOK_pop (hH1 ▸ hpush_marks)) hinv.kpos hinv.fresh
        rw [hr1] at htau
        refine ⟨s', ds', L', ?_, hinv', hk', hg', hrf', hnn, fun _ => ⟨hne, htau⟩⟩
        simp only [Num.add_rat] at hg ⊢
        rw [hg]
      · -- r >= 2: push, candidates are R only
        have hr2 : 2 ≤ s.R.length := by omega
        have hr1' : (s.R.length == 1) = false := by simp [hr1]
        simp only [hr1', Bool.false_eq_true, if_false]
        unfold updateHeavyGeneral
        have hcc : (decide (s.R.length < 2) || s.m != 0 || s.R.length + s.H.length != s.k) = false := by
          have := hest.cnt; simp [hm0]; omega
        simp only [hcc, Bool.false_eq_true, if_false]
        have hmid : Mid (heapPush s.H (mkEntry s item w mark)) [] L s.R s.k s.totalWtR s.R.length s.totalWtR s.R.length
            (mkEntry s item w mark :: ins) := by
          refine { heap := hpush_heap, perm := by simpa using hperm_push, nc_eq := by simp, nc2 := hr2,
                   cnt := by rw [hpush_len]; have := hest.cnt; omega, wt_eq := by simp [sumW, hest.wtR],
                   rItems := hest.rItems, rLen := le_of_lt hest.rLen,
                   mLight := by simp, mLeH := by simp, r0pos := hrpos, lLight := hest.lLight,
                   hHeavy := hpush_heavy, tauMono := ?_, pos := hpos' }
          nlinarith
        have hpushH' : pushH s item w mark =
            { s with H := heapPush s.H (mkEntry s item w mark), M := [],
                     numMarksInH := if s.gadget && mark then s.numMarksInH + 1 else s.numMarksInH } := by
          rw [hpushH]; have := hinv.mnil; cases s; simp_all
        rw [hpushH']
        obtain ⟨s', ds', L', hg, hinv', hne, htau, hk', hg', hrf', hnn⟩ := growCandidateSet_spec
          { s with H := heapPush s.H (mkEntry s item w mark), M := [],
                   numMarksInH := if s.gadget && mark then s.numMarksInH + 1 else s.numMarksInH }
          L (mkEntry s item w mark :: ins) s.totalWtR s.R.length s.totalWtR s.R.length ds hmid
          hpush_marks hinv.kpos hinv.fresh
        exact ⟨s', ds', L', by rw [hg], hinv', hk', hg', hrf', hnn, fun _ => ⟨hne, htau⟩⟩

/-- `update` from a state satisfying the counter-free invariant (used for union gadget copies whose `n_` is the
    union's counter) -/
theorem update0_spec (T : Tunables) (s : Sk Rat) (ins L : List E) (hinv : Inv0 s ins L) (item : Int) (w : Rat) (mark : Bool) (ds : Draws Rat)
    (hw : 0 < w) (hmg : mark = true → s.gadget = true) :
    ∃ s' ds' L', update T s item w mark ds = some (s', ds') ∧ Inv0 s' (mkEntry s item w mark :: ins) L' ∧
      s'.k = s.k ∧ s'.gadget = s.gadget ∧ s'.rf = s.rf ∧ s'.n = s.n + 1 ∧
      (s.R ≠ [] → s'.R ≠ [] ∧ s.totalWtR * (s'.R.length : Rat) ≤ s'.totalWtR * (s.R.length : Rat)) := by
  have hvalid : validWeight w = true := by simp [validWeight, not_lt.mpr (le_of_lt hw)]
  have hne0 : Num.eq w (Num.zero : Rat) = false := by simp [ne_of_gt hw]
  unfold update
  simp only [hvalid, hne0, Bool.not_true, Bool.false_eq_true, if_false]
  exact updateDispatch_spec T { s with n := s.n + 1 } ins L (hinv.setN _) item w mark ds hw hmg

theorem update_spec (T : Tunables) (s : Sk Rat) (ins L : List E) (hinv : Inv s ins L) (item : Int) (w : Rat) (mark : Bool) (ds : Draws Rat)
    (hw : 0 < w) (hmg : mark = true → s.gadget = true) :
    ∃ s' ds' L', update T s item w mark ds = some (s', ds') ∧ Inv s' (mkEntry s item w mark :: ins) L' ∧
      s'.k = s.k ∧ s'.gadget = s.gadget ∧ s'.rf = s.rf ∧
      (s.R ≠ [] → s'.R ≠ [] ∧ s.totalWtR * (s'.R.length : Rat) ≤ s'.totalWtR * (s.R.length : Rat)) := by
  obtain ⟨s', ds', L', h1, h2, h3, h4, h5, h6, h7⟩ := update0_spec T s ins L hinv.toInv0 item w mark ds hw hmg
  exact ⟨s', ds', L', h1, { toInv0 := h2, n_eq := by rw [h6, hinv.n_eq]; simp }, h3, h4, h5, h7⟩

end DS.VarOpt

/- Preservation of the cover invariant (part 3: union / intersect / invert), and the bit-level description of the set operations. -/
import DSProofs.Lemmas.BloomInv2
namespace DS.Bloom

variable {ι : Type}

/-- bit `j` of the result of a set operation, in terms of the operands' bits BEFORE the call -/
theorem setop_bit (P : Params) (w : World) (f g' : Filter) (op : SetOp) (j : Nat) (hj : j < f.capBits)
    (hc : op = .invert ∨ g'.capBits = f.capBits) :
    (setField (w.val f) (f.off P) f.capBits (combine op f.capBits (w.bitsOf P f) (w.bitsOf P g'))).testBit (f.off P + j)
      = combineBit op ((w.val f).testBit (f.off P + j)) ((w.val g').testBit (g'.off P + j)) := by
  rw [testBit_setField_in _ _ _ _ _ hj]
  cases op with
  | union =>
    rcases hc with h | h
    · cases h
    · simp [combine, combineBit, World.bitsOf, testBit_getField, hj, h]
  | inter =>
    rcases hc with h | h
    · cases h
    · simp [combine, combineBit, World.bitsOf, testBit_getField, hj, h]
  | invert =>
    simp [combine, combineBit, World.bitsOf, testBit_getField, hj, Nat.testBit_two_pow_sub_one]

theorem Covers.inter [DecidableEq ι] {hf : ι → Nat → Option (Nat × Nat)} {X Y Z ox oy oz : Nat} {c : Cfg} {l l' : List ι}
    (hx : Covers hf X ox c l) (hy : Covers hf Y oy c l') (hcap : 0 < c.cap)
    (hm : ∀ j, j < c.cap → X.testBit (ox + j) = true → Y.testBit (oy + j) = true → Z.testBit (oz + j) = true) :
    Covers hf Z oz c (l.filter (fun x => decide (x ∈ l'))) := by
  intro x hx' h hh
  rw [List.mem_filter] at hx'
  have h1 := (allSet_iff _ _ _).mp (hx x hx'.1 h hh)
  have h2 := (allSet_iff _ _ _).mp (hy x (by simpa using hx'.2) h hh)
  rw [allSet_iff]
  intro j hj
  exact hm j (mem_indices_lt _ _ _ _ _ hcap hj) (h1 j hj) (h2 j hj)

theorem compatible_cap {f g' : Filter} (h : compatible f g' = true) : g'.capBits = f.capBits := by
  simp [compatible] at h
  exact h.2.symm

variable [DecidableEq ι] (P : Params) (fx : Fix) (hf : ι → Nat → Option (Nat × Nat))

omit [DecidableEq ι] in
theorem covers_under_of_inv (w : World) (g : Ghost ι) (hi : Inv P hf w g) (v : Nat) (f : Filter) (hv : w.filters v = some f) (c : Cfg) :
    Covers hf (w.val f) (f.off P) c (g.under (keyOf v f) c) := by
  intro y hy h' hh'
  rcases (mem_under g _ _ y).mp hy with ⟨hC, hyS⟩
  have := hi.1 (keyOf v f) y hyS h' (by rw [hC]; exact hh')
  rw [hC] at this
  rw [val_eq_keyVal w v f hv, off_eq_keyOff P v f]; exact this

omit [DecidableEq ι] in
theorem seenBy_sub (g : Ghost ι) (w : World) (v : Nat) (f : Filter) : ∀ y, y ∈ g.seenBy w v f → y ∈ g.under (keyOf v f) f.cfg := by
  intro y hy
  unfold Ghost.seenBy at hy
  by_cases h : agrees w f = true
  · simpa [h] using hy
  · simp [h] at hy

theorem inv_setop (hP : P.Layout) (w : World) (g : Ghost ι) (hi : Inv P hf w g) (op : SetOp) (v u : Nat) :
    Inv P hf (opSet P fx w op v u).1 (gstep P hf g w (opSet P fx w op v u).1 (opSet P fx w op v u).2 (.setop op v u)) := by
  cases hv : w.filters v with
  | none => simp only [opSet, gstep, hv]; exact hi
  | some f =>
    cases hu : w.filters u with
    | none => simp only [opSet, gstep, hv, hu]; exact hi
    | some g' =>
      by_cases h1 : (fx.roSetopsRefused && f.readOnly) = true
      · simp only [opSet, gstep, hv, hu, h1, if_true]; exact hi
      · by_cases h2 : (op != .invert && !compatible f g') = true
        · simp only [opSet, gstep, hv, hu, h1, h2, if_true, Bool.false_eq_true, if_false]; exact hi
        · simp only [opSet, gstep, hv, hu, h1, h2, Bool.false_eq_true, if_false]
          have hcap : 0 < f.capBits := (hi.2 v f hv).1
          have hcc : op = .invert ∨ g'.capBits = f.capBits := by
            cases op with
            | invert => exact Or.inl rfl
            | union => right; apply compatible_cap; simpa using h2
            | inter => right; apply compatible_cap; simpa using h2
          refine ⟨cover_set hi.1 _ _ _ (fun key hk => keyVal_commit_ne P w v f _ _ _ _ hv key hk) ?_, capPos_commit hi.2 v f hv _ _ _ _⟩
          -- bits of the new content on the capacity window
          have hbit : ∀ j, j < f.capBits →
              (keyVal (commit P w v f (setField (w.val f) (f.off P) f.capBits (combine op f.capBits (w.bitsOf P f) (w.bitsOf P g')))
                  (popCount (setField (w.val f) (f.off P) f.capBits (combine op f.capBits (w.bitsOf P f) (w.bitsOf P g'))) (f.off P) f.capBits)
                  false (some (popCount (setField (w.val f) (f.off P) f.capBits (combine op f.capBits (w.bitsOf P f) (w.bitsOf P g'))) (f.off P) f.capBits)))
                (keyOf v f)).testBit (keyOff P (keyOf v f) + j)
              = combineBit op ((w.val f).testBit (f.off P + j)) ((w.val g').testBit (g'.off P + j)) := by
            intro j hj
            rw [keyVal_commit_bit P hP, ← off_eq_keyOff P v f]
            exact setop_bit P w f g' op j hj hcc
          have hA := covers_under_of_inv P hf w g hi v f hv f.cfg
          have hB := covers_under_of_inv P hf w g hi u g' hu f.cfg
          by_cases hag : agrees w f = true
          · simp only [hag, if_true]
            cases op with
            | union =>
              apply Covers.append
              · apply (hA.sub (seenBy_sub g w v f)).mono hcap
                intro j hj hb
                rw [hbit j hj]; simp [combineBit, hb]
              · apply hB.mono hcap
                intro j hj hb
                rw [hbit j hj]; simp [combineBit, hb]
            | inter =>
              apply Covers.inter (hA.sub (seenBy_sub g w v f)) hB hcap
              intro j hj ha hb
              rw [hbit j hj]; simp [combineBit, ha, hb]
            | invert => exact Covers.nil _ _ _ _
          · simp only [hag, Bool.false_eq_true, if_false]; exact Covers.nil _ _ _ _

end DS.Bloom

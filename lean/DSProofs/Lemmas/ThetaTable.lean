/- L2: the open-addressing table refines the key-sorted association list.  Part 1: probing. -/
import DSModel.Theta.Table
import DSProofs.Lemmas.ThetaInter
import Mathlib.Data.Nat.ModEq
import Mathlib.Data.Fintype.Card
import Mathlib.Data.Fintype.Fin
import Mathlib.Data.Fintype.EquivFin
import Mathlib.Data.Nat.Prime.Basic
namespace DS.Theta.L2
open DS.Theta

variable {σ : Type}

/-- j-th position of the probe sequence that starts at `idx` -/
def pos (size stride idx j : Nat) : Nat := (idx + j * stride) % size

theorem pos_zero (size stride idx : Nat) (h : idx < size) : pos size stride idx 0 = idx := by
  simp [pos, Nat.mod_eq_of_lt h]

theorem pos_succ (size stride idx j : Nat) : pos size stride idx (j + 1) = pos size stride ((idx + stride) % size) j := by
  unfold pos
  rw [Nat.add_mod ((idx + stride) % size), Nat.mod_mod, ← Nat.add_mod]
  congr 1
  rw [Nat.succ_mul]; omega

/-- the probe loop stops at the first position that is empty or holds the key -/
theorem probe_hit (slots : Slots σ) (size stride key : Nat) : ∀ (j fuel idx : Nat), j < fuel → idx < size →
    (∀ j', j' < j → ∃ k' v', slots[pos size stride idx j']? = some (some (k', v')) ∧ k' ≠ key) →
    (∀ (b : Bool),
      ((b = false ∧ slots[pos size stride idx j]? = some none) ∨
       (b = true ∧ ∃ v, slots[pos size stride idx j]? = some (some (key, v)))) →
      probe slots size stride key fuel idx = some (pos size stride idx j, b)) := by
  intro j
  induction j with
  | zero =>
    intro fuel idx hf hidx _ b hb
    cases fuel with
    | zero => omega
    | succ fuel =>
      rw [pos_zero size stride idx hidx] at hb ⊢
      simp only [probe]
      rcases hb with ⟨rfl, hb⟩ | ⟨rfl, v, hb⟩
      · simp [hb]
      · simp [hb]
  | succ j ih =>
    intro fuel idx hf hidx hpre b hb
    cases fuel with
    | zero => omega
    | succ fuel =>
      obtain ⟨k', v', h0, hne⟩ := hpre 0 (by omega)
      rw [pos_zero size stride idx hidx] at h0
      simp only [probe, h0, hne, if_false]
      have hsz : 0 < size := by omega
      rw [pos_succ] at hb ⊢
      apply ih fuel ((idx + stride) % size) (by omega) (Nat.mod_lt _ hsz)
      · intro j' hj'
        have := hpre (j' + 1) (by omega)
        rw [pos_succ] at this
        exact this
      · exact hb

/-! ### odd strides visit every slot -/

theorem pos_injective (lg stride idx : Nat) (hodd : stride % 2 = 1) (j1 j2 : Nat) (h1 : j1 < 2^lg) (h2 : j2 < 2^lg)
    (he : pos (2^lg) stride idx j1 = pos (2^lg) stride idx j2) : j1 = j2 := by
  have hcop : Nat.Coprime (2^lg) stride := by
    apply Nat.Coprime.pow_left
    rw [Nat.coprime_two_left]
    exact Nat.odd_iff.2 hodd
  have key : ∀ a b, a ≤ b → a < 2^lg → b < 2^lg → pos (2^lg) stride idx a = pos (2^lg) stride idx b → a = b := by
    intro a b hab ha hb heq
    have hmod : (idx + a * stride) ≡ (idx + b * stride) [MOD 2^lg] := heq
    have hmod2 : a * stride ≡ b * stride [MOD 2^lg] := Nat.ModEq.add_left_cancel' idx hmod
    have hle : a * stride ≤ b * stride := Nat.mul_le_mul_right _ hab
    have hdvd : 2^lg ∣ b * stride - a * stride := (Nat.modEq_iff_dvd' hle).1 hmod2
    rw [← Nat.sub_mul] at hdvd
    have hd2 : 2^lg ∣ b - a := hcop.dvd_of_dvd_mul_right hdvd
    have : b - a = 0 := Nat.eq_zero_of_dvd_of_lt hd2 (by omega)
    omega
  rcases Nat.le_total j1 j2 with h | h
  · exact key j1 j2 h h1 h2 he
  · exact (key j2 j1 h h2 h1 he.symm).symm

theorem pos_surjective (lg stride idx : Nat) (hodd : stride % 2 = 1) (e : Nat) (he : e < 2^lg) :
    ∃ j, j < 2^lg ∧ pos (2^lg) stride idx j = e := by
  have hpos : 0 < 2^lg := Nat.two_pow_pos lg
  let f : Fin (2^lg) → Fin (2^lg) := fun j => ⟨pos (2^lg) stride idx j.1, Nat.mod_lt _ hpos⟩
  have hinj : Function.Injective f := by
    intro a b hab
    have := congrArg Fin.val hab
    exact Fin.ext (pos_injective lg stride idx hodd a.1 b.1 a.2 b.2 this)
  have hsurj : Function.Surjective f := Finite.injective_iff_surjective.1 hinj
  obtain ⟨j, hj⟩ := hsurj ⟨e, he⟩
  exact ⟨j.1, j.2, congrArg Fin.val hj⟩

theorem strideOf_odd (bits key lg : Nat) : strideOf bits key lg % 2 = 1 := by
  unfold strideOf; omega

end DS.Theta.L2

/-! ### Part 2: representation invariant, find and place -/
namespace DS.Theta.L2
open DS.Theta
variable {σ : Type}

/-- j-th probe position of key `k` in a table of `2^lg` slots -/
def kpos (bits lg k j : Nat) : Nat := pos (2^lg) (strideOf bits k lg) (k % 2^lg) j

theorem kpos_lt (bits lg k j : Nat) : kpos bits lg k j < 2^lg := Nat.mod_lt _ (Nat.two_pow_pos lg)

structure PInv (bits lg : Nat) (slots : Slots σ) : Prop where
  len : slots.length = 2^lg
  path : ∀ (i k : Nat) (v : σ), slots[i]? = some (some (k, v)) → ∃ j, j < 2^lg ∧ kpos bits lg k j = i ∧
           ∀ j', j' < j → ∃ k' v', slots[kpos bits lg k j']? = some (some (k', v')) ∧ k' ≠ k
  distinct : ∀ (i i' k : Nat) (v v' : σ), slots[i]? = some (some (k, v)) → slots[i']? = some (some (k, v')) → i = i'

theorem pinv_empty (bits lg : Nat) : PInv bits lg (emptySlots lg : Slots σ) := by
  refine ⟨by simp [emptySlots], ?_, ?_⟩
  · intro i k v h
    simp only [emptySlots, List.getElem?_replicate] at h
    split at h <;> simp at h
  · intro i i' k v v' h
    simp only [emptySlots, List.getElem?_replicate] at h
    split at h <;> simp at h

theorem find_present (bits lg : Nat) (slots : Slots σ) (h : PInv bits lg slots) (i k : Nat) (v : σ)
    (hs : slots[i]? = some (some (k, v))) : find bits lg slots k = some (i, true) := by
  obtain ⟨j, hj, hji, hpre⟩ := h.path i k v hs
  have := probe_hit slots (2^lg) (strideOf bits k lg) k j (2^lg) (k % 2^lg) hj (Nat.mod_lt _ (Nat.two_pow_pos lg)) hpre true
    (Or.inr ⟨rfl, v, by show slots[kpos bits lg k j]? = _; rw [hji]; exact hs⟩)
  unfold find
  rw [this]
  show some (kpos bits lg k j, true) = _
  rw [hji]

theorem exists_min (P : Nat → Prop) (n : Nat) (h : P n) : ∃ m, P m ∧ ∀ m', m' < m → ¬ P m' := by
  induction n using Nat.strong_induction_on with
  | _ n ih =>
    by_cases hall : ∀ m', m' < n → ¬ P m'
    · exact ⟨n, h, hall⟩
    · have : ∃ m', m' < n ∧ P m' := by
        apply Classical.byContradiction
        intro hc
        apply hall
        intro m' hm' hp
        exact hc ⟨m', hm', hp⟩
      obtain ⟨m', hm', hp⟩ := this
      exact ih m' hm' hp

theorem find_absent (bits lg : Nat) (slots : Slots σ) (h : PInv bits lg slots) (k : Nat)
    (habs : ∀ (i : Nat) (v : σ), slots[i]? ≠ some (some (k, v))) (hemp : ∃ e, e < 2^lg ∧ slots[e]? = some none) :
    ∃ j, j < 2^lg ∧ slots[kpos bits lg k j]? = some none ∧
      (∀ j', j' < j → ∃ k' v', slots[kpos bits lg k j']? = some (some (k', v')) ∧ k' ≠ k) ∧
      find bits lg slots k = some (kpos bits lg k j, false) := by
  obtain ⟨e, he, hes⟩ := hemp
  obtain ⟨j0, hj0, hj0e⟩ := pos_surjective lg (strideOf bits k lg) (k % 2^lg) (strideOf_odd bits k lg) e he
  have hP : (fun j => j < 2^lg ∧ slots[kpos bits lg k j]? = some none) j0 := ⟨hj0, by show slots[kpos bits lg k j0]? = _; unfold kpos; rw [hj0e]; exact hes⟩
  obtain ⟨j, ⟨hj, hjs⟩, hmin⟩ := exists_min (fun j => j < 2^lg ∧ slots[kpos bits lg k j]? = some none) j0 hP
  have hpre : ∀ j', j' < j → ∃ k' v', slots[kpos bits lg k j']? = some (some (k', v')) ∧ k' ≠ k := by
    intro j' hj'
    have hlt : kpos bits lg k j' < slots.length := by rw [h.len]; exact kpos_lt bits lg k j'
    have hget : slots[kpos bits lg k j']? = some slots[kpos bits lg k j'] := List.getElem?_eq_getElem hlt
    cases hx : slots[kpos bits lg k j'] with
    | none =>
      exfalso
      exact hmin j' hj' ⟨by omega, by rw [hget, hx]⟩
    | some kv =>
      obtain ⟨k', v'⟩ := kv
      refine ⟨k', v', by rw [hget, hx], ?_⟩
      rintro rfl
      exact habs _ v' (by rw [hget, hx])
  refine ⟨j, hj, hjs, hpre, ?_⟩
  unfold find
  exact probe_hit slots (2^lg) (strideOf bits k lg) k j (2^lg) (k % 2^lg) hj (Nat.mod_lt _ (Nat.two_pow_pos lg)) hpre false
    (Or.inl ⟨rfl, hjs⟩)

theorem mem_entries (slots : Slots σ) (x : Nat × σ) : x ∈ entries slots ↔ ∃ i : Nat, slots[i]? = some (some x) := by
  unfold entries
  rw [List.mem_filterMap]
  constructor
  · rintro ⟨a, ha, hax⟩
    simp only [id] at hax
    subst hax
    obtain ⟨i, hi⟩ := List.mem_iff_getElem?.1 ha
    exact ⟨i, hi⟩
  · rintro ⟨i, hi⟩
    exact ⟨some x, List.mem_iff_getElem?.2 ⟨i, hi⟩, rfl⟩

/-- placing a new key at the first empty slot of its probe path keeps the representation invariant and adds
exactly that entry -/
theorem place_new (bits lg : Nat) (slots : Slots σ) (h : PInv bits lg slots) (k : Nat) (v : σ)
    (habs : ∀ (i : Nat) (v' : σ), slots[i]? ≠ some (some (k, v'))) (hemp : ∃ e, e < 2^lg ∧ slots[e]? = some none) :
    ∃ idx, find bits lg slots k = some (idx, false) ∧ slots[idx]? = some none ∧
      PInv bits lg (slots.set idx (some (k, v))) ∧
      (∀ x, x ∈ entries (slots.set idx (some (k, v))) ↔ (x = (k, v) ∨ x ∈ entries slots)) := by
  obtain ⟨j, hj, hjs, hpre, hfind⟩ := find_absent bits lg slots h k habs hemp
  refine ⟨kpos bits lg k j, hfind, hjs, ?_, ?_⟩
  · have hidx : kpos bits lg k j < slots.length := by rw [h.len]; exact kpos_lt bits lg k j
    -- a non-empty slot is never the freshly filled one
    have hne : ∀ i k2 v2, slots[i]? = some (some (k2, v2)) → i ≠ kpos bits lg k j := by
      intro i k2 v2 hi hc
      rw [hc, hjs] at hi; cases hi
    have hset_other : ∀ i, i ≠ kpos bits lg k j → (slots.set (kpos bits lg k j) (some (k, v)))[i]? = slots[i]? := by
      intro i hi
      rw [List.getElem?_set_ne (Ne.symm hi)]
    have hset_self : (slots.set (kpos bits lg k j) (some (k, v)))[kpos bits lg k j]? = some (some (k, v)) := by
      rw [List.getElem?_set_self hidx]
    refine ⟨by simp [h.len], ?_, ?_⟩
    · intro i k2 v2 hi
      by_cases hii : i = kpos bits lg k j
      · subst hii
        rw [hset_self] at hi
        simp only [Option.some.injEq, Prod.mk.injEq] at hi
        obtain ⟨rfl, rfl⟩ := hi
        refine ⟨j, hj, rfl, ?_⟩
        intro j' hj'
        obtain ⟨k', v', h1, h2⟩ := hpre j' hj'
        exact ⟨k', v', by rw [hset_other _ (hne _ k' v' h1)]; exact h1, h2⟩
      · rw [hset_other i hii] at hi
        obtain ⟨j2, hj2, hj2i, hpre2⟩ := h.path i k2 v2 hi
        refine ⟨j2, hj2, hj2i, ?_⟩
        intro j' hj'
        obtain ⟨k', v', h1, h2⟩ := hpre2 j' hj'
        exact ⟨k', v', by rw [hset_other _ (hne _ k' v' h1)]; exact h1, h2⟩
    · intro i i' k2 v2 v2' hi hi'
      by_cases hii : i = kpos bits lg k j <;> by_cases hii' : i' = kpos bits lg k j
      · rw [hii, hii']
      · subst hii
        rw [hset_self] at hi
        simp only [Option.some.injEq, Prod.mk.injEq] at hi
        rw [hset_other i' hii'] at hi'
        exact absurd hi' (by rw [← hi.1]; exact habs i' v2')
      · subst hii'
        rw [hset_self] at hi'
        simp only [Option.some.injEq, Prod.mk.injEq] at hi'
        rw [hset_other i hii] at hi
        exact absurd hi (by rw [← hi'.1]; exact habs i v2)
      · rw [hset_other i hii] at hi
        rw [hset_other i' hii'] at hi'
        exact h.distinct i i' k2 v2 v2' hi hi'
  · intro x
    have hidx : kpos bits lg k j < slots.length := by rw [h.len]; exact kpos_lt bits lg k j
    rw [mem_entries, mem_entries]
    constructor
    · rintro ⟨i, hi⟩
      by_cases hii : i = kpos bits lg k j
      · subst hii
        rw [List.getElem?_set_self hidx] at hi
        simp only [Option.some.injEq] at hi
        exact Or.inl hi.symm
      · rw [List.getElem?_set_ne (Ne.symm hii)] at hi
        exact Or.inr ⟨i, hi⟩
    · rintro (rfl | ⟨i, hi⟩)
      · exact ⟨kpos bits lg k j, by rw [List.getElem?_set_self hidx]⟩
      · have hii : i ≠ kpos bits lg k j := by
          intro hc; rw [hc, hjs] at hi; cases hi
        exact ⟨i, by rw [List.getElem?_set_ne (Ne.symm hii)]; exact hi⟩

end DS.Theta.L2

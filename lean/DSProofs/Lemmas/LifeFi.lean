/- C19 / FI: the contracts of `reverse_purge_hash_map` / `frequent_items_sketch` over the heap calculus. -/
import DSProofs.Lemmas.LifeFiH
namespace DS.Life.Fi
open DS.Life

theorem foot_ge {own : List Nat} {n0 : Nat} : ∀ b, n0 ≤ b → foot own n0 b = true := fun _ hb => foot_new hb

/-- `frequent_items_sketch(lg_max_map_size, lg_start_map_size)` -/
theorem ctor_contract {P : Params} {n0 : Nat} {ids0 : List Nat} {lgMax lgStart : Nat} :
    TripleS n0 (foot [] n0) (fun h => h.ids = ids0) (Sketch.ctor P lgMax lgStart)
      (fun s h' => Usable P h' s.map ∧ Owns h' ids0 [] (owned s.map) n0) := by
  intro h hn hid
  unfold Sketch.ctor
  apply SafeF.bind_triple (ctor_spec P n0 _ foot_ge _ _ (Nat.le_max_right _ _) h) hn rfl
  intro m h1 ⟨hu, hm, hids, hnx, _⟩ _
  by_cases hl : lgStart > lgMax
  · rw [if_pos hl]
    have hS : ∀ b, b ∈ owned m → foot [] n0 b = true := by
      intro b hb
      rw [hm] at hb
      simp only [owned_some, List.mem_cons, List.not_mem_nil, or_false] at hb
      exact foot_new (by omega)
    apply SafeF.bind_triple (dtor_spec P n0 _ m hS h1) (by omega) ⟨rfl, hu.inv⟩
    intro _ _ _ _
    exact SafeF.exc _
  · rw [if_neg hl]
    apply SafeF.pure
    refine ⟨hu, ?_, ?_⟩
    · intro b
      rw [hids, hid, hm]
      simp only [owned_some, List.mem_cons, List.not_mem_nil, or_false, not_false_eq_true, and_true]
      constructor
      · rintro (e | e | e | e)
        · exact Or.inr (Or.inr (Or.inr e))
        · exact Or.inr (Or.inr (Or.inl e))
        · exact Or.inr (Or.inl e)
        · exact Or.inl e
      · rintro (e | e | e | e)
        · exact Or.inr (Or.inr (Or.inr e))
        · exact Or.inr (Or.inr (Or.inl e))
        · exact Or.inr (Or.inl e)
        · exact Or.inl e
    · intro b hb
      rw [hm] at hb
      simp only [owned_some, List.mem_cons, List.not_mem_nil, or_false] at hb
      right; omega

/-- destructor -/
theorem dtor_contract {P : Params} {n0 : Nat} {ids0 : List Nat} {m : Map} :
    TripleS n0 (foot (owned m) n0) (fun h => Inv P h m ∧ h.ids = ids0) (dtor m)
      (fun _ h' => Owns h' ids0 (owned m) [] n0) := by
  intro h hn ⟨hi, hid⟩
  refine SafeF.mono (dtor_spec P n0 _ m (fun b hb => foot_own hb) h h hn ⟨rfl, hi⟩) ?_
  intro _ h' ⟨hids, _, _⟩
  refine ⟨fun b => ?_, fun b hb => by cases hb⟩
  rw [hids b, hid]
  simp

/-- copy constructor -/
theorem copyCtor_contract {P : Params} {n0 : Nat} {ids0 : List Nat} {m : Map} :
    TripleS n0 (foot [] n0) (fun h => Usable P h m ∧ h.ids = ids0) (copyCtor m)
      (fun m' h' => Usable P h' m' ∧ Usable P h' m ∧ Owns h' ids0 [] (owned m') n0) := by
  intro h hn ⟨hu, hid⟩
  refine SafeF.mono (copyCtor_spec P n0 _ foot_ge m h h hn ⟨rfl, hu⟩) ?_
  intro m' h' ⟨hu', hm, hids, hnx, hold⟩
  refine ⟨hu', Usable.local (fun b hb => hold b (hu.inv.owned_ids b hb).2) (by omega) hu, ?_, ?_⟩
  · intro b
    rw [hids, hid, hm]
    simp only [owned, Option.toList, List.cons_append, List.nil_append, List.mem_cons, List.not_mem_nil, or_false,
      not_false_eq_true, and_true]
    constructor
    · rintro (e | e | e | e)
      · exact Or.inr (Or.inr (Or.inr e))
      · exact Or.inr (Or.inr (Or.inl e))
      · exact Or.inr (Or.inl e)
      · exact Or.inl e
    · rintro (e | e | e | e)
      · exact Or.inr (Or.inr (Or.inr e))
      · exact Or.inr (Or.inr (Or.inl e))
      · exact Or.inr (Or.inl e)
      · exact Or.inl e
  · intro b hb
    rw [hm] at hb
    simp only [owned, Option.toList, List.cons_append, List.nil_append, List.mem_cons, List.not_mem_nil, or_false] at hb
    right; omega

/-- copy assignment (also `a = a`) -/
theorem copyAssign_contract {P : Params} {n0 : Nat} {ids0 : List Nat} {t o : Map} :
    TripleS n0 (foot (owned t) n0)
      (fun h => Inv P h t ∧ Usable P h o ∧ (t = o ∨ ∀ b, b ∈ owned t → b ∉ owned o) ∧ h.ids = ids0 ∧
        (∀ b, b ∈ owned o → b < n0))
      (copyAssign t o) (fun t' h' => Usable P h' t' ∧ Owns h' ids0 (owned t) (owned t') n0) := by
  intro h hn ⟨hit, huo, _, hid, _⟩
  unfold copyAssign
  apply SafeF.bind_triple (copyCtor_spec P n0 _ foot_ge o h) hn ⟨rfl, huo⟩
  intro c h1 ⟨huc, hc, hids1, hnx1, hold⟩ _
  have hit1 : Inv P h1 t := Inv.local (fun b hb => hold b (hit.owned_ids b hb).2) (by omega) hit
  apply SafeF.bind_triple (dtor_spec P n0 _ t (fun b hb => foot_own hb) h1) (by omega) ⟨rfl, hit1⟩
  intro _ h2 ⟨hids2, hnx2, hout⟩ _
  apply SafeF.pure
  have hoc : owned c = [h.next, h.next + 1, h.next + 2] := by rw [hc]; rfl
  have hdis : ∀ b, b ∈ owned c → b ∉ owned t := by
    intro b hb ht
    have := (hit.owned_ids b ht).2
    rw [hoc] at hb
    simp only [List.mem_cons, List.not_mem_nil, or_false] at hb
    omega
  refine ⟨Usable.local (fun b hb => hout b (hdis b hb)) (by omega) huc, ?_, ?_⟩
  · intro b
    rw [hids2 b, hids1, hid]
    constructor
    · rintro ⟨hb, hnt⟩
      simp only [List.mem_cons] at hb
      rcases hb with e | e | e | e
      · exact Or.inr (by rw [hoc, e]; simp)
      · exact Or.inr (by rw [hoc, e]; simp)
      · exact Or.inr (by rw [hoc, e]; simp)
      · exact Or.inl ⟨e, hnt⟩
    · rintro (⟨e, hnt⟩ | e)
      · exact ⟨by simp [e], hnt⟩
      · refine ⟨?_, hdis b e⟩
        rw [hoc] at e
        simp only [List.mem_cons, List.not_mem_nil, or_false] at e
        simp only [List.mem_cons]
        rcases e with e | e | e
        · exact Or.inr (Or.inr (Or.inl e))
        · exact Or.inr (Or.inl e)
        · exact Or.inl e
  · intro b hb
    rw [hoc] at hb
    simp only [List.mem_cons, List.not_mem_nil, or_false] at hb
    right; omega

/-- `get_estimate` → `map.get(key)` -/
theorem get_contract {P : Params} {n0 : Nat} {ids0 : List Nat} {m : Map} {kv : Nat} :
    TripleS n0 (foot [] n0) (fun h => Usable P h m ∧ h.ids = ids0) (get P m kv)
      (fun _ h' => Usable P h' m ∧ h'.ids = ids0) := by
  intro h hn ⟨hu, hid⟩
  refine SafeF.mono (get_spec P n0 _ m kv h h hn ⟨rfl, hu⟩) ?_
  intro _ h' e
  subst e
  exact ⟨hu, hid⟩

theorem idsLt_of_fresh {n0 : Nat} {ids0 : List Nat} {h : Heap} (hfresh : ∀ b, b ∈ ids0 → b < n0) (hn : n0 ≤ h.next)
    (hid : h.ids = ids0) : IdsLt h := fun b hb => Nat.lt_of_lt_of_le (hfresh b (hid ▸ hb)) hn

/-- `update(item, weight)`; general form: every block id of the start heap is below its `next` (`IdsLt h`, the
    second half of `Heap.WF`) -/
theorem update_contract_wf {P : Params} (hP : P.OK) {n0 : Nat} {ids0 : List Nat} {s : Sketch} {a w : Nat} :
    TripleS n0 (foot (owned s.map) n0) (fun h => Usable P h s.map ∧ h.ids = ids0 ∧ IdsLt h)
      (Sketch.update P s (.ext a) w)
      (fun s' h' => Usable P h' s'.map ∧ Owns h' ids0 (owned s.map) (owned s'.map) n0) := by
  intro h hn ⟨hu, hid, hlt⟩
  refine SafeF.mono (update_spec P hP n0 _ s (.ext a) w foot_ge (fun b hb => foot_own (by simpa [srcBlk] using hb)) h h hn
    ⟨rfl, hu, trivial, hlt, fun b hb => by cases hb⟩) ?_
  intro s' h' ⟨hu', g, _⟩
  exact ⟨hu', hid ▸ g.owns hn⟩

/-- `update(item, weight)` (extra hypothesis `hfresh`: the ids of the start heap are below the allocation mark, needed
    because `purge` allocates and frees a temporary) -/
theorem update_contract {P : Params} (hP : P.OK) {n0 : Nat} {ids0 : List Nat} {s : Sketch} {a w : Nat}
    (hfresh : ∀ b, b ∈ ids0 → b < n0) :
    TripleS n0 (foot (owned s.map) n0) (fun h => Usable P h s.map ∧ h.ids = ids0)
      (Sketch.update P s (.ext a) w)
      (fun s' h' => Usable P h' s'.map ∧ Owns h' ids0 (owned s.map) (owned s'.map) n0) :=
  fun h hn ⟨hu, hid⟩ => update_contract_wf hP h hn ⟨hu, hid, idsLt_of_fresh hfresh hn hid⟩

/-- `serialize`; general form with `IdsLt` in the precondition -/
theorem serialize_contract_wf {P : Params} {n0 : Nat} {ids0 : List Nat} {s : Sketch} :
    TripleS n0 (foot [] n0) (fun h => Usable P h s.map ∧ h.ids = ids0 ∧ IdsLt h) (Sketch.serialize P s)
      (fun _ h' => Usable P h' s.map ∧ (∀ b, b ∈ h'.ids ↔ b ∈ ids0)) := by
  intro h hn ⟨hu, hid, hlt⟩
  refine SafeF.mono (serialize_spec P n0 _ foot_ge s h h hn ⟨rfl, hu, hlt⟩) ?_
  intro _ h' ⟨hids, hnx, hold⟩
  exact ⟨Usable.local (fun b hb => hold b (hu.inv.owned_ids b hb).2) hnx hu, fun b => by rw [hids b, hid]⟩

/-- `serialize` (extra hypothesis `hfresh`, needed because the temporaries are allocated and freed) -/
theorem serialize_contract {P : Params} {n0 : Nat} {ids0 : List Nat} {s : Sketch} (hfresh : ∀ b, b ∈ ids0 → b < n0) :
    TripleS n0 (foot [] n0) (fun h => Usable P h s.map ∧ h.ids = ids0 ∧ (∀ b, b ∈ owned s.map → b < n0))
      (Sketch.serialize P s) (fun _ h' => Usable P h' s.map ∧ (∀ b, b ∈ h'.ids ↔ b ∈ ids0)) :=
  fun h hn ⟨hu, hid, _⟩ => serialize_contract_wf h hn ⟨hu, hid, idsLt_of_fresh hfresh hn hid⟩

/-- `deserialize(serialize(s))`; general form with `IdsLt` in the precondition -/
theorem roundTrip_contract_wf {P : Params} (hP : P.OK) {n0 : Nat} {ids0 : List Nat} {s : Sketch} :
    TripleS n0 (foot [] n0) (fun h => Usable P h s.map ∧ h.ids = ids0 ∧ IdsLt h) (Sketch.roundTrip P s)
      (fun d h' => Usable P h' d.map ∧ Usable P h' s.map ∧ Owns h' ids0 [] (owned d.map) n0) := by
  intro h hn ⟨hu, hid, hlt⟩
  refine SafeF.mono (roundTrip_spec P hP n0 _ foot_ge s h h hn ⟨rfl, hu, hlt⟩) ?_
  intro d h' ⟨hud, hids, hfr, hold⟩
  have hnx : h.next ≤ h'.next := by
    obtain ⟨k, _, _, _, _, _, ho, T, _⟩ := Usable.ptrs hud
    have hk : k ∈ owned d.map := by rw [ho]; simp
    have := hfr k hk
    have := T.ltk
    omega
  refine ⟨hud, Usable.local (fun b hb => hold b (hu.inv.owned_ids b hb).2) hnx hu, ?_, ?_⟩
  · intro b
    rw [hids b, hid]
    simp
  · intro b hb
    right
    exact Nat.le_trans hn (hfr b hb)

/-- `deserialize(serialize(s))` (extra hypothesis `hfresh`) -/
theorem roundTrip_contract {P : Params} (hP : P.OK) {n0 : Nat} {ids0 : List Nat} {s : Sketch}
    (hfresh : ∀ b, b ∈ ids0 → b < n0) :
    TripleS n0 (foot [] n0) (fun h => Usable P h s.map ∧ h.ids = ids0 ∧ (∀ b, b ∈ owned s.map → b < n0))
      (Sketch.roundTrip P s)
      (fun d h' => Usable P h' d.map ∧ Usable P h' s.map ∧ Owns h' ids0 [] (owned d.map) n0) :=
  fun h hn ⟨hu, hid, _⟩ => roundTrip_contract_wf hP h hn ⟨hu, hid, idsLt_of_fresh hfresh hn hid⟩

/-- from the growth bookkeeping of the target to the `Owns` of target + source -/
theorem merge_owns {h h' : Heap} {P : Params} {s s' o : Map} {n0 : Nat} {X : List Nat} (hn : n0 ≤ h.next)
    (g : Grown h h' (owned s) (owned s') X) (hio : Inv P h o) (hdis : ∀ b, b ∈ owned s → b ∉ owned o) :
    Owns h' h.ids (owned s ++ owned o) (owned s' ++ owned o) n0 := by
  refine ⟨fun b => ?_, fun b hb => ?_⟩
  · rw [g.ids b]
    simp only [List.mem_append, not_or]
    constructor
    · rintro (⟨hb, hns⟩ | hb)
      · by_cases hbo : b ∈ owned o
        · exact Or.inr (Or.inr hbo)
        · exact Or.inl ⟨hb, hns, hbo⟩
      · exact Or.inr (Or.inl hb)
    · rintro (⟨hb, hns, _⟩ | hb | hb)
      · exact Or.inl ⟨hb, hns⟩
      · exact Or.inr hb
      · exact Or.inl ⟨(hio.owned_ids b hb).1, fun hm => hdis b hm hb⟩
  · simp only [List.mem_append] at hb ⊢
    rcases hb with hb | hb
    · rcases g.fresh b hb with e | e
      · exact Or.inl (Or.inl e)
      · exact Or.inr (Nat.le_trans hn e)
    · exact Or.inl (Or.inr hb)

/-- `merge(const frequent_items_sketch&)`: the by-reference half of `merge_contract`; general form with `IdsLt` -/
theorem merge_contract_partial_wf {P : Params} (hP : P.OK) {n0 : Nat} {ids0 : List Nat} {s o : Sketch} {byMove : Bool}
    (hbm : byMove = false) :
    TripleS n0 (foot (owned s.map ++ owned o.map) n0)
      (fun h => Usable P h s.map ∧ Usable P h o.map ∧ (∀ b, b ∈ owned s.map → b ∉ owned o.map) ∧ h.ids = ids0 ∧ IdsLt h)
      (Sketch.merge P s o byMove)
      (fun s' h' => Usable P h' s'.map ∧ Inv P h' o.map ∧ (byMove = false → Usable P h' o.map) ∧
        Owns h' ids0 (owned s.map ++ owned o.map) (owned s'.map ++ owned o.map) n0) := by
  subst hbm
  intro h hn ⟨hus, huo, hdis, hid, hlt⟩
  refine SafeF.mono (merge_copy_spec P hP n0 _ foot_ge s o (fun b hb => foot_own (by simp [hb])) h h hn
    ⟨rfl, hus, huo, hdis, hlt⟩) ?_
  intro s' h' ⟨hus', huo', g⟩
  exact ⟨hus', huo'.inv, fun _ => huo', hid ▸ merge_owns hn g huo.inv hdis⟩

/-- `merge(const frequent_items_sketch&)` (extra hypothesis `hfresh`) -/
theorem merge_contract_partial {P : Params} (hP : P.OK) {n0 : Nat} {ids0 : List Nat} {s o : Sketch} {byMove : Bool}
    (hbm : byMove = false) (hfresh : ∀ b, b ∈ ids0 → b < n0) :
    TripleS n0 (foot (owned s.map ++ owned o.map) n0)
      (fun h => Usable P h s.map ∧ Usable P h o.map ∧ (∀ b, b ∈ owned s.map → b ∉ owned o.map) ∧ h.ids = ids0)
      (Sketch.merge P s o byMove)
      (fun s' h' => Usable P h' s'.map ∧ Inv P h' o.map ∧ (byMove = false → Usable P h' o.map) ∧
        Owns h' ids0 (owned s.map ++ owned o.map) (owned s'.map ++ owned o.map) n0) :=
  fun h hn ⟨hus, huo, hdis, hid⟩ =>
    merge_contract_partial_wf hP hbm h hn ⟨hus, huo, hdis, hid, idsLt_of_fresh hfresh hn hid⟩

/-- `merge(const&)` / `merge(&&)`; general form with `IdsLt` in the precondition.  The by-move half needs the
    iterator stride to be odd (`(… ) | 1` in the C++), otherwise the range-for could visit a slot twice and move from a
    moved-from key -/
theorem merge_contract_wf {P : Params} (hP : P.OK) {n0 : Nat} {ids0 : List Nat} {s o : Sketch} {byMove : Bool}
    (hodd : byMove = true → ∀ lg, P.strideOf lg % 2 = 1) :
    TripleS n0 (foot (owned s.map ++ owned o.map) n0)
      (fun h => Usable P h s.map ∧ Usable P h o.map ∧ (∀ b, b ∈ owned s.map → b ∉ owned o.map) ∧ h.ids = ids0 ∧ IdsLt h)
      (Sketch.merge P s o byMove)
      (fun s' h' => Usable P h' s'.map ∧ Inv P h' o.map ∧ (byMove = false → Usable P h' o.map) ∧
        Owns h' ids0 (owned s.map ++ owned o.map) (owned s'.map ++ owned o.map) n0) := by
  cases byMove with
  | false => exact merge_contract_partial_wf hP rfl
  | true =>
    intro h hn ⟨hus, huo, hdis, hid, hlt⟩
    refine SafeF.mono (merge_move_spec P hP (hodd rfl) n0 _ foot_ge s o (fun b hb => foot_own hb) h h hn
      ⟨rfl, hus, huo, hdis, hlt⟩) ?_
    intro s' h' ⟨hus', hio', g⟩
    exact ⟨hus', hio', fun e => (by cases e), hid ▸ merge_owns hn g huo.inv hdis⟩

/-- `merge(const&)` / `merge(&&)` (extra hypotheses `hfresh` and, for the by-move half, an odd iterator stride) -/
theorem merge_contract {P : Params} (hP : P.OK) {n0 : Nat} {ids0 : List Nat} {s o : Sketch} {byMove : Bool}
    (hfresh : ∀ b, b ∈ ids0 → b < n0) (hodd : byMove = true → ∀ lg, P.strideOf lg % 2 = 1) :
    TripleS n0 (foot (owned s.map ++ owned o.map) n0)
      (fun h => Usable P h s.map ∧ Usable P h o.map ∧ (∀ b, b ∈ owned s.map → b ∉ owned o.map) ∧ h.ids = ids0)
      (Sketch.merge P s o byMove)
      (fun s' h' => Usable P h' s'.map ∧ Inv P h' o.map ∧ (byMove = false → Usable P h' o.map) ∧
        Owns h' ids0 (owned s.map ++ owned o.map) (owned s'.map ++ owned o.map) n0) :=
  fun h hn ⟨hus, huo, hdis, hid⟩ =>
    merge_contract_wf hP hodd h hn ⟨hus, huo, hdis, hid, idsLt_of_fresh hfresh hn hid⟩

/-- the stride of the driver (`… ||| 1`) is odd -/
theorem or_one_odd (x : Nat) : (x ||| 1) % 2 = 1 := by
  have h := Nat.testBit_or x 1 0
  have h1 : Nat.testBit 1 0 = true := by decide
  rw [h1, Bool.or_true] at h
  rw [Nat.testBit_zero] at h
  simp only [decide_eq_true_eq] at h
  exact h

/-- the concrete tunables of the C++ (any hash, any stride) satisfy the side conditions -/
theorem params_ok (hashOf strideOf : Nat → Nat) :
    Params.OK { loadNum := 3, loadDen := 4, driftLimit := 1024, maxSample := 1024, lgMinMap := 3, hashOf, strideOf } := by
  refine ⟨?_, ?_, ?_⟩ <;> simp only <;> omega

end DS.Life.Fi

/- C19, KLL sketch part 2: constructor, destructor. -/
import DSProofs.Lemmas.LifeKllW
namespace DS.Life.Kll
open DS.Life

theorem LevelsOK.init {k m : Nat} (hm : m ≤ k) : LevelsOK k m 1 [k, k] k := by
  refine ⟨Nat.le_refl _, by simp, ?_, by simp, (computeTotalCapacity_one k m hm).symm⟩
  intro i hi
  have : i = 0 := by omega
  subst this; simp

theorem ctor_contract (P : Params) (hP : P.OK) (n0 k : Nat) (ids0 : List Nat) :
    TripleS n0 (foot [] n0) (fun h => h.ids = ids0 ∧ h.next = n0) (ctor P k)
      (fun s h' => Usable P h' s ∧ Owns h' ids0 [] (owned s) n0) := by
  intro h hn ⟨hid, hnx⟩
  unfold ctor
  by_cases hk : k < P.minK ∨ k > P.maxK
  · rw [if_pos hk]; exact SafeF.exc _
  · rw [if_neg hk]
    apply vstep_alloc' _ _ (foot_new (by omega))
    intro h1 hc1 hr1 so1 hid1 hnx1
    apply vstep_alloc' _ _ (foot_new (by omega))
    intro h2 hc2 hr2 so2 hid2 hnx2
    apply SafeF.pure
    have hne : h.next ≠ h1.next := by omega
    have ss := so2 h.next hne
    have hmk : P.defaultM ≤ k := by have := hP.2; omega
    refine ⟨⟨⟨rfl, ss.cells _ hc1, by simp only; omega, ?_, ?_⟩, ⟨h1.next, rfl, ?_⟩, ?_, ?_, ?_,
      by simp [sumSampleWeights, List.range_succ], Or.inl rfl⟩, ?_, ?_⟩
    · intro v hv; cases hv
    · intro b hb
      simp only [Option.some.injEq] at hb
      subst hb
      refine ⟨LevelsOK.init hmk, ⟨hc2, fun i hi => hr2 i (by simpa using hi), fun i h1' h2' => ?_⟩, by omega,
        fun e => hne e.symm, by simp⟩
      simp at h1' h2'; omega
    · intro i h1' h2'
      simp at h1' h2'; omega
    · intro _
      simp only
      rw [ss.st, ss.st]
      exact ⟨hr1 0 (by omega), hr1 1 (by omega)⟩
    · intro hn0; exact absurd rfl hn0
    · intro hn0; exact absurd rfl hn0
    · intro x
      simp only [owned, Option.toList_some, Option.toList_none, hid2, hid1, hid, List.mem_cons, List.mem_append,
        List.not_mem_nil, or_false, not_false_eq_true, and_true]
      constructor
      · rintro (e | e | e)
        · exact Or.inr (Or.inr e)
        · exact Or.inr (Or.inl e)
        · exact Or.inl e
      · rintro (e | e | e)
        · exact Or.inr (Or.inr e)
        · exact Or.inr (Or.inl e)
        · exact Or.inl e
    · intro x hx
      simp only [owned, Option.toList_some, Option.toList_none, List.mem_cons, List.mem_append,
        List.not_mem_nil, or_false] at hx
      right
      rcases hx with e | e <;> omega


/-- the tail of the destructor: `sorted_view_`, `max_item_`, `min_item_` die, the object's storage goes -/
theorem dtor_rest {S : Nat → Bool} {h : Heap} (s : Sketch) {Q : Unit → Heap → Prop}
    (hself : HasCells h s.self 2)
    (hview : ∀ v, s.view = some v → HasCells h v 1 ∧ stAt h v 0 = .raw ∧ v ≠ s.self ∧ S v = true)
    (hS : S s.self = true)
    (k : ∀ h', (∀ b, b ≠ s.self → s.view ≠ some b → SameOn h h' b) →
          (∀ x, x ∈ h'.ids ↔ x ∈ h.ids ∧ x ≠ s.self ∧ s.view ≠ some x) → h'.next = h.next → Q () h') :
    SafeF S h ((do let _ ← resetSortedView s; optReset s.self 1; optReset s.self 0; dealloc s.self 2) h) Q := by
  apply vstep_resetSortedView (fun v hv => ⟨(hview v hv).1, (hview v hv).2.1, (hview v hv).2.2.2⟩)
  intro h1 so1 hid1 hnx1
  have hsv : s.view ≠ some s.self := fun e => (hview _ e).2.2.1 rfl
  have ss1 := so1 s.self hsv
  apply vstep_optReset (ss1.cells _ hself) (by omega : 1 < 2) hS
  intro h2 sb2 hr2
  apply vstep_optReset (sb2.cells _ _ (ss1.cells _ hself)) (by omega : 0 < 2) hS
  intro h3 sb3 hr3
  apply SafeF.last
  apply vstep_dealloc' (sb3.cells _ _ (sb2.cells _ _ (ss1.cells _ hself))) ?_ hS
  · intro h4 so4 hid4 hnx4
    apply SafeF.pure
    apply k h4
    · intro b hb hbv
      exact (((so1 b hbv).trans (sb2.sameOn (fun j x => hb x.1))).trans (sb3.sameOn (fun j x => hb x.1))).trans (so4 b hb)
    · intro x
      rw [hid4, sb3.ids, sb2.ids, hid1]
      simp only [List.mem_filter, bne_iff_ne, ne_eq]
      constructor
      · rintro ⟨⟨a, b⟩, c⟩; exact ⟨a, c, b⟩
      · rintro ⟨a, c, b⟩; exact ⟨⟨a, b⟩, c⟩
    · rw [hnx4, sb3.next, sb2.next, hnx1]
  · intro i hi
    have : i = 0 ∨ i = 1 := by omega
    rcases this with rfl | rfl
    · exact hr3
    · rw [sb3.st s.self 1 (fun x => by omega)]; exact hr2

/-- destructor -/
theorem dtor_spec (P : Params) (n0 : Nat) (S : Nat → Bool) (s : Sketch) (hS : ∀ b, b ∈ owned s → S b = true)
    (h0 : Heap) :
    TripleS n0 S (fun h => h = h0 ∧ Inv P h s) (dtor s)
      (fun _ h' => (∀ b, b ∉ owned s → SameOn h0 h' b) ∧ (∀ x, x ∈ h'.ids ↔ (x ∈ h0.ids ∧ x ∉ owned s)) ∧
        h'.next = h0.next) := by
  intro h hn ⟨e0, inv⟩
  subst e0
  have hSself : S s.self = true := hS _ (mem_owned.2 (Or.inl rfl))
  have hview : ∀ v, s.view = some v → HasCells h v 1 ∧ stAt h v 0 = .raw ∧ v ≠ s.self ∧ S v = true := by
    intro v hv
    obtain ⟨a, b, _, d⟩ := inv.view_ok v hv
    exact ⟨a, b, d, hS _ (mem_owned.2 (Or.inr (Or.inr hv)))⟩
  unfold dtor
  cases hit : s.items with
  | none =>
    simp only
    apply dtor_rest s inv.self_cells hview hSself
    intro h' so hid hnx
    refine ⟨fun b hb => so b (fun e => hb (mem_owned.2 (Or.inl e))) (fun e => hb (mem_owned.2 (Or.inr (Or.inr e)))),
      fun x => ?_, hnx⟩
    rw [hid x, mem_owned, hit]
    simp only [reduceCtorEq, false_or, not_or, ne_eq]
  | some b =>
    simp only
    obtain ⟨lok, iat, hblt, hbself, hbview⟩ := inv.items_ok b hit
    have hSb : S b = true := hS _ (mem_owned.2 (Or.inr (Or.inl hit)))
    have hl0 : s.levels.getD 0 0 ≤ s.itemsSize := lok.le_top 0 (Nat.zero_le _)
    apply step_lv (by have := lok.len; omega)
    apply step_lv (by have := lok.len; omega)
    rw [lok.top]
    apply vstep_destroyRange iat.cells (by omega) (fun j h1 h2 => iat.nonraw j h1 (by omega)) hSb
    intro h1 sb1 hr1
    apply vstep_dealloc' (sb1.cells _ _ iat.cells) ?_ hSb
    · intro h2 so2 hid2 hnx2
      have ssel : SameOn h h2 s.self := (sb1.sameOn (fun j x => hbself x.1.symm)).trans (so2 _ (fun e => hbself e.symm))
      apply dtor_rest s (ssel.cells _ inv.self_cells) ?_ hSself
      · intro h' so hid hnx
        refine ⟨fun x hx => ?_, fun x => ?_, by rw [hnx, hnx2, sb1.next]⟩
        · have hxb : x ≠ b := fun e => hx (mem_owned.2 (Or.inr (Or.inl (e ▸ hit))))
          exact ((sb1.sameOn (fun j y => hxb y.1)).trans (so2 x hxb)).trans
            (so x (fun e => hx (mem_owned.2 (Or.inl e))) (fun e => hx (mem_owned.2 (Or.inr (Or.inr e)))))
        · rw [hid x, hid2, sb1.ids, mem_owned, hit]
          simp only [List.mem_filter, bne_iff_ne, ne_eq, Option.some.injEq, not_or]
          constructor
          · rintro ⟨⟨a, b'⟩, c, d⟩; exact ⟨a, c, fun e => b' e.symm, d⟩
          · rintro ⟨a, c, b', d⟩; exact ⟨⟨a, fun e => b' e.symm⟩, c, d⟩
      · intro v hv
        obtain ⟨a, b', c, d⟩ := hview v hv
        have hvb : v ≠ b := fun e => hbview (e ▸ hv)
        have sv : SameOn h h2 v := (sb1.sameOn (fun j x => hvb x.1)).trans (so2 _ hvb)
        exact ⟨sv.cells _ a, by rw [sv.st]; exact b', c, d⟩
    · intro i hi
      by_cases hil : i < s.levels.getD 0 0
      · rw [sb1.st b i (fun x => by omega)]; exact iat.raw i hil
      · exact hr1 i (by omega) (by omega)

theorem dtor_contract (P : Params) (n0 : Nat) (s : Sketch) (ids0 : List Nat) :
    TripleS n0 (foot (owned s) n0) (fun h => Inv P h s ∧ h.ids = ids0) (dtor s)
      (fun _ h' => Owns h' ids0 (owned s) [] n0) := by
  intro h hn ⟨inv, hid⟩
  have := dtor_spec P n0 (foot (owned s) n0) s (fun b hb => foot_own hb) h h hn ⟨rfl, inv⟩
  refine SafeF.mono this ?_
  intro _ h' ⟨_, hids, _⟩
  refine ⟨fun x => ?_, fun x hx => by simp at hx⟩
  rw [hids x, hid]
  simp

end DS.Life.Kll

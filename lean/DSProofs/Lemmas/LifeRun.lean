/- C19 helper lemmas: every world-level step keeps the world invariant and is never a precondition failure,
   given the class contracts. -/
import DSProofs.Lemmas.LifeStep
namespace DS.Life

/-- which classes may be constructed in a history (classes whose contracts are proved) -/
structure Coverage where
  theta : Prop
  kll : Prop
  fi : Prop

def Allowed (cov : Coverage) : Op → Prop
  | .newTable .. => cov.theta
  | .newKll .. => cov.kll
  | .newFi .. => cov.fi
  | _ => True

def Obj.cls : Obj → Nat
  | .table _ => 0
  | .kll _ => 1
  | .fi _ => 2

structure Contracts (C : Cfg) (sp : ObjSpec) (cov : Coverage) : Prop where
  dtor : ∀ o, DtorC sp o o.dtor
  copy : ∀ o, FromC sp o o.copyCtor id
  move : ∀ o, MoveC sp o o.moveCtor
  cassign : ∀ t o, t.cls = o.cls → CAssignC sp t o (t.copyAssign o)
  massign : ∀ t o, t.cls = o.cls → MAssignC sp t o (t.moveAssign C.kll.moveAssignResetsSource o)
  selfmove : ∀ o, MutC sp o o.selfMoveAssign id
  newTable : cov.theta → ∀ lgK rf theta0, C.theta.minLgK ≤ lgK →
    NewC sp (Theta.ctor (Theta.startingSubMultiple (lgK + 1) C.theta.minLgK rf) lgK rf theta0) Obj.table
  tblUpdate : ∀ t a b, MutC sp (.table t) (Theta.update C.theta t a b C.comb) Obj.table
  tblSer : ∀ t, ReadC sp (.table t) (Theta.serializeCompact t)
  tblTrim : ∀ t, MutC sp (.table t) (Theta.trim C.theta t) Obj.table
  tblReset : ∀ t, MutC sp (.table t) (Theta.reset C.theta t) Obj.table
  newKll : cov.kll → ∀ k, NewC sp (Kll.ctor C.kll k) Obj.kll
  kllUpdate : ∀ s a coins, MutC sp (.kll s) (Kll.update s a coins) (fun r => .kll r.1)
  kllMerge : ∀ a b byMove coins, MergeC sp (.kll a) (.kll b) byMove (Kll.mergeChecked a b byMove coins) (fun r => .kll r.1)
  kllQuery : ∀ s, MutC sp (.kll s) (Kll.query s) Obj.kll
  kllSer : ∀ s, ReadC sp (.kll s) (Kll.serialize s)
  kllRound : ∀ s, FromC sp (.kll s) (Kll.roundTrip C.kll s) Obj.kll
  newFi : cov.fi → ∀ lgMax lgStart, NewC sp (Fi.Sketch.ctor C.fi lgMax lgStart) Obj.fi
  fiUpdate : ∀ s a b, MutC sp (.fi s) (Fi.Sketch.update C.fi s (.ext a) b) Obj.fi
  fiMerge : ∀ a b byMove, MergeC sp (.fi a) (.fi b) byMove (Fi.Sketch.merge C.fi a b byMove) Obj.fi
  fiQuery : ∀ s arg, ReadC sp (.fi s) (Fi.get C.fi s.map arg)
  fiSer : ∀ s, ReadC sp (.fi s) (Fi.Sketch.serialize C.fi s)
  fiRound : ∀ s, FromC sp (.fi s) (Fi.Sketch.roundTrip C.fi s) Obj.fi

variable {C : Cfg} {sp : ObjSpec} {cov : Coverage}

theorem getUsable_ok {w : World} {id : Nat} {e : Entry} (h : getUsable w id = .ok e) :
    e ∈ w.objs ∧ e.id = id ∧ e.usable = true := by
  unfold getUsable at h
  cases hl : w.lookup id with
  | none => simp [hl] at h
  | some e' =>
    simp only [hl] at h
    by_cases hu : e'.usable = true
    · simp only [hu, if_true] at h
      cases h
      obtain ⟨hm, hid⟩ := WorldInv.lookup_mem hl
      exact ⟨hm, hid, hu⟩
    · simp [hu] at h

theorem getAny_ok {w : World} {id : Nat} {e : Entry} (h : getAny w id = .ok e) : e ∈ w.objs ∧ e.id = id := by
  unfold getAny at h
  cases hl : w.lookup id with
  | none => simp [hl] at h
  | some e' =>
    simp only [hl] at h
    cases h
    exact WorldInv.lookup_mem hl

theorem fresh_ok {w : World} {id : Nat} (h : fresh w id = .ok ()) : ∀ e, e ∈ w.objs → e.id ≠ id := by
  unfold fresh at h
  cases hl : w.lookup id with
  | none => exact WorldInv.lookup_none hl
  | some e' => simp [hl] at h

/-- case analysis helpers for the `Except` binds of `step` -/
theorem StepOK.of_getUsable {β} {w : World} {id : Nat} {f : Entry → Except Err β} {R : β → Prop}
    (k : ∀ e, e ∈ w.objs → e.id = id → e.usable = true → StepOK (f e) R) : StepOK (getUsable w id >>= f) R := by
  cases hg : getUsable w id with
  | error e =>
    unfold getUsable at hg
    cases hl : w.lookup id with
    | none => simp [hl] at hg; subst hg; trivial
    | some e' =>
      simp only [hl] at hg
      by_cases hu : e'.usable = true
      · simp [hu] at hg
      · simp [hu] at hg; subst hg; trivial
  | ok e =>
    obtain ⟨a, b, c⟩ := getUsable_ok hg
    exact k e a b c

theorem StepOK.of_getAny {β} {w : World} {id : Nat} {f : Entry → Except Err β} {R : β → Prop}
    (k : ∀ e, e ∈ w.objs → e.id = id → StepOK (f e) R) : StepOK (getAny w id >>= f) R := by
  cases hg : getAny w id with
  | error e =>
    unfold getAny at hg
    cases hl : w.lookup id with
    | none => simp [hl] at hg; subst hg; trivial
    | some e' => simp [hl] at hg
  | ok e =>
    obtain ⟨a, b⟩ := getAny_ok hg
    exact k e a b

theorem StepOK.of_fresh {β} {w : World} {id : Nat} {f : Unit → Except Err β} {R : β → Prop}
    (k : (∀ e, e ∈ w.objs → e.id ≠ id) → StepOK (f ()) R) : StepOK (fresh w id >>= f) R := by
  cases hg : fresh w id with
  | error e =>
    unfold fresh at hg
    cases hl : w.lookup id with
    | none => simp [hl] at hg
    | some e' => simp [hl] at hg; subst hg; trivial
  | ok u => exact k (fresh_ok hg)


theorem step_safe (ct : Contracts C sp cov) {w : World} (hw : WorldInv sp w) (op : Op) (ha : Allowed cov op) :
    StepOK (step C w op) (fun w' => WorldInv sp w') := by
  cases op with
  | newTable id lgK rf theta0 =>
    simp only [step]
    apply StepOK.of_fresh; intro hf
    by_cases hr : lgK < C.theta.minLgK ∨ lgK > C.thetaMaxLgK ∨ rf > 3
    · rw [if_pos hr]; trivial
    · rw [if_neg hr]
      refine StepOK.bind (glue_new hw (ct.newTable ha lgK rf theta0 (by omega)) id hf) ?_
      intro ⟨t, h⟩ hp; exact hp
  | newKll id k =>
    simp only [step]
    apply StepOK.of_fresh; intro hf
    refine StepOK.bind (glue_new hw (ct.newKll ha k) id hf) ?_
    intro ⟨t, h⟩ hp; exact hp
  | newFi id lgMax lgStart =>
    simp only [step]
    apply StepOK.of_fresh; intro hf
    refine StepOK.bind (glue_new hw (ct.newFi ha lgMax lgStart) id hf) ?_
    intro ⟨t, h⟩ hp; exact hp
  | update id a b coins =>
    simp only [step]
    apply StepOK.of_getUsable; intro e he hid hu
    cases ho : e.obj with
    | table t =>
      simp only
      refine StepOK.bind (glue_mut hw he hu (ho ▸ ct.tblUpdate t a b)) ?_
      intro ⟨t', h⟩ hp; exact hp
    | kll s =>
      simp only
      refine StepOK.bind (glue_mut hw he hu (ho ▸ ct.kllUpdate s a coins)) ?_
      intro ⟨r, h⟩ hp; exact hp
    | fi s =>
      simp only
      refine StepOK.bind (glue_mut hw he hu (ho ▸ ct.fiUpdate s a b)) ?_
      intro ⟨s', h⟩ hp; exact hp
  | copy src dst =>
    simp only [step]
    apply StepOK.of_getUsable; intro e he hid hu
    apply StepOK.of_fresh; intro hf
    refine StepOK.bind (glue_from hw he hu (ct.copy e.obj) dst hf) ?_
    intro ⟨o, h⟩ hp; exact hp
  | move src dst =>
    simp only [step]
    apply StepOK.of_getUsable; intro e he hid hu
    apply StepOK.of_fresh; intro hf
    refine StepOK.bind (glue_move hw he hu (ct.move e.obj) dst hf) ?_
    intro ⟨r, h⟩ hp; exact hp
  | copyAssign dst src =>
    simp only [step]
    apply StepOK.of_getAny; intro d hd hdid
    apply StepOK.of_getUsable; intro s hs hsid hu
    by_cases hc : d.obj.cls = s.obj.cls
    · refine StepOK.bind (glue_cassign hw hd hs hu (ct.cassign d.obj s.obj hc)) ?_
      intro ⟨o, h⟩ hp; exact hp
    · -- assignment between different classes is rejected as an ill-formed history
      have : runM w (d.obj.copyAssign s.obj) = .error (.bad "assignment between different classes") := by
        unfold runM
        cases hd' : d.obj <;> cases hs' : s.obj <;> simp_all [Obj.cls, Obj.copyAssign, fail]
      rw [this]; trivial
  | moveAssign dst src =>
    simp only [step]
    apply StepOK.of_getAny; intro d hd hdid
    apply StepOK.of_getUsable; intro s hs hsid hu
    by_cases hds : dst = src
    · rw [if_pos hds]
      have hdu : d.usable = true := by
        have : d = s := hw.unique hd hs (by rw [hdid, hsid, hds])
        rw [this]; exact hu
      refine StepOK.bind (glue_mut hw hd hdu (ct.selfmove d.obj)) ?_
      intro ⟨o, h⟩ hp; exact hp
    · rw [if_neg hds]
      have hne : d.id ≠ s.id := by rw [hdid, hsid]; exact hds
      by_cases hc : d.obj.cls = s.obj.cls
      · refine StepOK.bind (glue_massign hw hd hs hu hne (ct.massign d.obj s.obj hc)) ?_
        intro ⟨r, h⟩ hp; exact hp
      · have : runM w (d.obj.moveAssign C.kll.moveAssignResetsSource s.obj) = .error (.bad "assignment between different classes") := by
          unfold runM
          cases hd' : d.obj <;> cases hs' : s.obj <;> simp_all [Obj.cls, Obj.moveAssign, fail]
        rw [this]; trivial
  | merge dst src byMove coins =>
    simp only [step]
    apply StepOK.of_getUsable; intro d hd hdid hud
    apply StepOK.of_getUsable; intro s hs hsid hus
    by_cases hds : dst = src
    · rw [if_pos hds]; trivial
    · rw [if_neg hds]
      have hne : d.id ≠ s.id := by rw [hdid, hsid]; exact hds
      cases hd' : d.obj with
      | table t => cases hs' : s.obj <;> trivial
      | kll a =>
        cases hs' : s.obj with
        | table _ => trivial
        | fi _ => trivial
        | kll b =>
          simp only
          refine StepOK.bind (glue_merge hw hd hs hud hus hne byMove (hd' ▸ hs' ▸ ct.kllMerge a b byMove coins)) ?_
          intro ⟨r, h⟩ hp
          rw [hs'] at hp
          exact hp
      | fi a =>
        cases hs' : s.obj with
        | table _ => trivial
        | kll _ => trivial
        | fi b =>
          simp only
          refine StepOK.bind (glue_merge hw hd hs hud hus hne byMove (hd' ▸ hs' ▸ ct.fiMerge a b byMove)) ?_
          intro ⟨r, h⟩ hp
          rw [hs'] at hp
          exact hp
  | query id arg =>
    simp only [step]
    apply StepOK.of_getUsable; intro e he hid hu
    cases ho : e.obj with
    | table t => simp only; exact hw
    | kll s =>
      simp only
      refine StepOK.bind (glue_mut hw he hu (ho ▸ ct.kllQuery s)) ?_
      intro ⟨s', h⟩ hp; exact hp
    | fi s =>
      simp only
      refine StepOK.bind (glue_read hw he hu (ho ▸ ct.fiQuery s arg)) ?_
      intro ⟨r, h⟩ hp; exact hp
  | serialize id =>
    simp only [step]
    apply StepOK.of_getUsable; intro e he hid hu
    cases ho : e.obj with
    | table t =>
      simp only
      refine StepOK.bind (glue_read hw he hu (ho ▸ ct.tblSer t)) ?_
      intro ⟨r, h⟩ hp; exact hp
    | kll s =>
      simp only
      refine StepOK.bind (glue_read hw he hu (ho ▸ ct.kllSer s)) ?_
      intro ⟨r, h⟩ hp; exact hp
    | fi s =>
      simp only
      refine StepOK.bind (glue_read hw he hu (ho ▸ ct.fiSer s)) ?_
      intro ⟨r, h⟩ hp; exact hp
  | roundTrip src dst =>
    simp only [step]
    apply StepOK.of_getUsable; intro e he hid hu
    apply StepOK.of_fresh; intro hf
    cases ho : e.obj with
    | table t => trivial
    | kll s =>
      simp only
      refine StepOK.bind (glue_from hw he hu (ho ▸ ct.kllRound s) dst hf) ?_
      intro ⟨r, h⟩ hp; exact hp
    | fi s =>
      simp only
      refine StepOK.bind (glue_from hw he hu (ho ▸ ct.fiRound s) dst hf) ?_
      intro ⟨r, h⟩ hp; exact hp
  | trim id =>
    simp only [step]
    apply StepOK.of_getUsable; intro e he hid hu
    cases ho : e.obj with
    | table t =>
      simp only
      refine StepOK.bind (glue_mut hw he hu (ho ▸ ct.tblTrim t)) ?_
      intro ⟨r, h⟩ hp; exact hp
    | kll s => trivial
    | fi s => trivial
  | reset id =>
    simp only [step]
    apply StepOK.of_getUsable; intro e he hid hu
    cases ho : e.obj with
    | table t =>
      simp only
      refine StepOK.bind (glue_mut hw he hu (ho ▸ ct.tblReset t)) ?_
      intro ⟨r, h⟩ hp; exact hp
    | kll s => trivial
    | fi s => trivial
  | destroy id =>
    simp only [step]
    apply StepOK.of_getAny; intro e he hid
    refine StepOK.bind (glue_dtor hw he (ct.dtor e.obj)) ?_
    intro ⟨r, h⟩ hp
    rw [← hid]; exact hp

/-- a whole history: never a precondition failure, and the world invariant at the end -/
theorem run_safe (ct : Contracts C sp cov) : ∀ (ops : List Op) {w : World}, WorldInv sp w → (∀ op, op ∈ ops → Allowed cov op) →
    StepOK (run C w ops) (fun w' => WorldInv sp w')
  | [], w, hw, _ => hw
  | op :: ops, w, hw, ha => by
    unfold run
    exact StepOK.bind (step_safe ct hw op (ha op (by simp))) (fun w' hw' => run_safe ct ops hw' (fun o ho => ha o (by simp [ho])))

end DS.Life

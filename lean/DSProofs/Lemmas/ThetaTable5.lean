/- L2 part 6: whole histories on the concrete table. -/
import DSProofs.Lemmas.ThetaTable4
namespace DS.Theta.L2
open DS.Theta
variable {σ : Type}

/-- one operation on the concrete table -/
def stepT (bits : Nat) (c : Cfg) (t : TSt σ) : Op σ → Option (TSt σ)
  | .upd h f => offerT bits c t h f
  | .trim => trimT bits c t
  | .reset => some (initT c)

def runT (bits : Nat) (c : Cfg) : TSt σ → List (Op σ) → Option (TSt σ)
  | t, [] => some t
  | t, op :: r => match stepT bits c t op with
    | some t' => runT bits c t' r
    | none => none

/-- sanity of the sizing parameters (discharged by `decide` for concrete configurations): every table size in use
leaves room below its capacity, a resize strictly helps, and a rebuild fits -/
structure CfgOkT (c : Cfg) : Prop where
  start_le : c.lgStart ≤ c.lgNom + 1
  room : ∀ lg, lg ≤ c.lgNom + 1 → c.lgStart ≤ lg → capacity c lg + 1 < 2^lg
  grow : ∀ lg, lg ≤ c.lgNom → c.lgStart ≤ lg →
    capacity c lg + 1 ≤ capacity c (min (lg + c.lgRf) (c.lgNom + 1)) ∧ lg ≤ min (lg + c.lgRf) (c.lgNom + 1)
  fit : 2^c.lgNom ≤ capacity c (c.lgNom + 1)

/-- run-time invariant of the concrete table -/
structure TInvT (bits : Nat) (c : Cfg) (t : TSt σ) : Prop where
  pinv : PInv bits t.lg t.slots
  lg_ge : c.lgStart ≤ t.lg
  lg_le : t.lg ≤ c.lgNom + 1
  cnt : (entries t.slots).length ≤ capacity c t.lg

theorem tinvT_init (bits : Nat) (c : Cfg) (ok : CfgOkT c) : TInvT bits c (initT c : TSt σ) :=
  ⟨pinv_empty bits c.lgStart, Nat.le_refl _, ok.start_le, by simp [initT, entries_empty]⟩

theorem abs_init (c : Cfg) : abs (initT c : TSt σ) = init c := by
  simp [abs, initT, init, entries_empty, sortKV]

theorem length_abs (t : TSt σ) : (abs t).ents.length = (entries t.slots).length := by
  rw [abs_ents]; exact length_sortKV _

theorem step_refines (bits : Nat) (c : Cfg) (ok : CfgOkT c) (t : TSt σ) (op : Op σ) (h : TInvT bits c t) :
    ∃ t', stepT bits c t op = some t' ∧ abs t' = step c (abs t) op ∧ TInvT bits c t' := by
  have hroom := ok.room t.lg h.lg_le h.lg_ge
  cases op with
  | upd hash f =>
    obtain ⟨t', ht', habs', hP'⟩ := offerT_refines bits c t hash f h.pinv (by have := h.cnt; omega)
    refine ⟨t', ht', habs', ?_⟩
    -- sizes after the step, read off the abstract step
    have hlen' : (entries t'.slots).length = (abs t').ents.length := (length_abs t').symm
    have hlg' : t'.lg = (abs t').lgCur := rfl
    rw [habs'] at hlen' hlg'
    have hl0 : (abs t).ents.length = (entries t.slots).length := length_abs t
    have hg0 : (abs t).lgCur = t.lg := rfl
    have s0 := absE_spec bits t.lg t.slots h.pinv
    -- analyse the abstract step
    have key : (offer c (abs t) hash f).lgCur ≥ c.lgStart ∧ (offer c (abs t) hash f).lgCur ≤ c.lgNom + 1 ∧
        (offer c (abs t) hash f).ents.length ≤ capacity c (offer c (abs t) hash f).lgCur := by
      unfold offer
      simp only
      split
      · exact ⟨by rw [hg0]; exact h.lg_ge, by rw [hg0]; exact h.lg_le, by rw [hl0, hg0]; exact h.cnt⟩
      · split
        · rename_i v hv
          have hin : hash ∈ keys (abs t).ents := (lookup_some_iff hash _).1 ⟨v, hv⟩
          refine ⟨by show c.lgStart ≤ (abs t).lgCur; rw [hg0]; exact h.lg_ge, by show (abs t).lgCur ≤ _; rw [hg0]; exact h.lg_le, ?_⟩
          show (upsert hash f (abs t).ents).length ≤ capacity c (abs t).lgCur
          rw [length_upsert_old hash f _ hin s0.1, hl0, hg0]; exact h.cnt
        · rename_i hv
          have hnin : hash ∉ keys (abs t).ents := (lookup_none_iff hash _).1 hv
          have hlen1 : (upsert hash f (abs t).ents).length = (entries t.slots).length + 1 := by
            rw [length_upsert_new hash f _ hnin, hl0]
          unfold afterInsert
          simp only [hlen1, hg0]
          split
          · split
            · rename_i hgt hle
              have g := ok.grow t.lg hle h.lg_ge
              refine ⟨?_, ?_, ?_⟩
              · show c.lgStart ≤ min (t.lg + c.lgRf) (c.lgNom + 1); have := h.lg_ge; omega
              · show min (t.lg + c.lgRf) (c.lgNom + 1) ≤ c.lgNom + 1; omega
              · show (upsert hash f (abs t).ents).length ≤ capacity c (min (t.lg + c.lgRf) (c.lgNom + 1))
                rw [hlen1]; have := h.cnt; omega
            · rename_i hgt hle
              -- rebuild at lg = lgNom + 1
              have hlgeq : t.lg = c.lgNom + 1 := by have := h.lg_le; omega
              have hr : (rebuild c ({ theta := (abs t).theta, ents := upsert hash f (abs t).ents, isEmpty := false, lgCur := t.lg } : St σ)).lgCur = t.lg := by
                unfold rebuild; split <;> rfl
              refine ⟨by rw [hr]; exact h.lg_ge, by rw [hr]; exact h.lg_le, ?_⟩
              rw [hr]
              unfold rebuild
              split
              · simp only [List.length_take]
                have := ok.fit; rw [hlgeq]; omega
              · rename_i hnone
                have : (upsert hash f (abs t).ents).length ≤ 2^c.lgNom := by
                  have := List.getElem?_eq_none_iff.1 hnone
                  simpa using this
                simp only
                have := ok.fit; rw [hlgeq]; omega
          · rename_i hle
            refine ⟨h.lg_ge, h.lg_le, ?_⟩
            show (upsert hash f (abs t).ents).length ≤ capacity c t.lg
            rw [hlen1]; omega
    exact ⟨hP', by rw [hlg']; exact key.1, by rw [hlg']; exact key.2.1, by rw [hlen', hlg']; exact key.2.2⟩
  | trim =>
    by_cases hgt : (entries t.slots).length > 2^c.lgNom
    · have hk : c.lgNom < t.lg := by
        apply Classical.byContradiction
        intro hc
        have : t.lg ≤ c.lgNom := by omega
        have h2 : (2:Nat)^t.lg ≤ 2^c.lgNom := Nat.pow_le_pow_right (by omega) this
        have := h.cnt; omega
      obtain ⟨t', ht', habs', hP'⟩ := trimT_refines bits c t h.pinv hk
      refine ⟨t', ht', habs', ?_⟩
      have hlgeq : t.lg = c.lgNom + 1 := by have := h.lg_le; omega
      have hlen' : (entries t'.slots).length = (abs t').ents.length := (length_abs t').symm
      have hlg' : t'.lg = (abs t').lgCur := rfl
      rw [habs'] at hlen' hlg'
      have htr : (trim c (abs t)).lgCur = t.lg ∧ (trim c (abs t)).ents.length ≤ 2^c.lgNom := by
        unfold trim
        rw [length_abs t]
        simp only [hgt, if_true]
        unfold rebuild
        split
        · exact ⟨rfl, by simp only [List.length_take]; omega⟩
        · rename_i hnone
          have := List.getElem?_eq_none_iff.1 hnone
          simp only [keys_length] at this
          rw [length_abs t] at this
          omega
      refine ⟨hP', by rw [hlg', htr.1]; exact h.lg_ge, by rw [hlg', htr.1]; exact h.lg_le, ?_⟩
      rw [hlen', hlg', htr.1, hlgeq]
      have := ok.fit; omega
    · refine ⟨t, ?_, ?_, h⟩
      · simp [stepT, trimT, hgt]
      · simp only [step, trim, length_abs t, hgt, if_false]
  | reset =>
    exact ⟨initT c, rfl, by rw [abs_init]; rfl, tinvT_init bits c ok⟩

theorem run_refines (bits : Nat) (c : Cfg) (ok : CfgOkT c) (ops : List (Op σ)) : ∀ (t : TSt σ), TInvT bits c t →
    ∃ t', runT bits c t ops = some t' ∧ abs t' = ops.foldl (step c) (abs t) ∧ TInvT bits c t' := by
  induction ops with
  | nil => intro t h; exact ⟨t, rfl, rfl, h⟩
  | cons op rest ih =>
    intro t h
    obtain ⟨t1, ht1, habs1, h1⟩ := step_refines bits c ok t op h
    obtain ⟨t2, ht2, habs2, h2⟩ := ih t1 h1
    refine ⟨t2, ?_, ?_, h2⟩
    · simp only [runT, ht1]; exact ht2
    · simp only [List.foldl_cons]; rw [← habs1]; exact habs2

end DS.Theta.L2

/- Bloom filter image: round trip, size, prefix safety, consumption (helper lemmas for Props/C09_Bloom, C11_Bloom). -/
import DSProofs.Lemmas.WireMisc
import DSModel.Wire.Bloom
namespace DS.Wire.Bloom
open DS.Wire

theorem land_self_ne (m : Nat) (h : m ≠ 0) : ((m &&& m) != 0) = true := by
  simp [h]

theorem zero_land_ne (m : Nat) : ((0 &&& m) != 0) = false := by
  simp

theorem decode_encode_lem (c : Consts) (hc : c.Valid) (s : Img) (hs : WF s) (tail : Bytes) :
    decode c (encode c s ++ tail) = some (s, tail) := by
  obtain ⟨h1, h2, h3, h4, h5, h6, h7⟩ := hc
  obtain ⟨g1, g2, g3, g4⟩ := hs
  obtain ⟨nh, seed, nl, body⟩ := s
  cases body with
  | none =>
    simp only [encode, decode, Option.isNone_none, if_true, List.append_assoc, encodeBody, List.nil_append]
    rw [bind_u8 _ h1, bind_u8 _ h3, bind_u8 _ h4, bind_u8 _ h5,
      bind_guard_true _ (by simp), bind_guard_true _ (by simp),
      bind_guard_true _ (by simp [h6]),
      bind_u16 _ g1, bind_skip_zeros, bind_u64 _ g2, bind_u32 _ g3, bind_skip_zeros]
    simp [decodeBody, h6, Reader.pure]
  | some p =>
    obtain ⟨nbs, bits⟩ := p
    simp only at g4
    simp only [encode, decode, Option.isNone_some, Bool.false_eq_true, if_false, List.append_assoc, encodeBody]
    rw [bind_u8 _ h2, bind_u8 _ h3, bind_u8 _ h4, bind_u8 _ (by omega),
      bind_guard_true _ (by simp), bind_guard_true _ (by simp),
      bind_guard_true _ (by simp),
      bind_u16 _ g1, bind_skip_zeros, bind_u64 _ g2, bind_u32 _ g3, bind_skip_zeros]
    simp only [decodeBody, zero_land_ne, Bool.false_eq_true, if_false]
    rw [bind_u64 _ g4.1, bind_bytesN bits _ g4.2]
    rfl

theorem size_eq_lem (c : Consts) (s : Img) (hs : WF s) : (encode c s).length = serializedSize s := by
  obtain ⟨_, _, _, g4⟩ := hs
  obtain ⟨nh, seed, nl, body⟩ := s
  cases body with
  | none => simp [encode, serializedSize, encodeBody, w8, w16, w32, w64, length_wLe, length_wZeros]
  | some p =>
    obtain ⟨nbs, bits⟩ := p
    simp only at g4
    simp only [encode, serializedSize, encodeBody, w8, w16, w32, w64, length_wLe, length_wZeros, g4.2, List.length_append]
    omega

theorem decodeBody_PS (nh seed nl : Nat) (e : Bool) : PS (decodeBody nh seed nl e) := by
  unfold decodeBody
  exact PS_ite _ _ _ (PS_pure _)
    (PS_bind _ _ (PS_leNat 8) fun _ => PS_bind _ _ (PS_bytesN _) fun _ => PS_pure _)

theorem decode_PS_lem (c : Consts) : PS (decode c) :=
  PS_bind _ _ (PS_leNat 1) fun _ => PS_bind _ _ (PS_leNat 1) fun _ => PS_bind _ _ (PS_leNat 1) fun _ =>
  PS_bind _ _ (PS_leNat 1) fun _ => PS_bind _ _ (PS_guard _) fun _ => PS_bind _ _ (PS_guard _) fun _ =>
  PS_bind _ _ (PS_guard _) fun _ => PS_bind _ _ (PS_leNat 2) fun _ => PS_bind _ _ (PS_skip 2) fun _ =>
  PS_bind _ _ (PS_leNat 8) fun _ => PS_bind _ _ (PS_leNat 4) fun _ => PS_bind _ _ (PS_skip 4) fun _ =>
  decodeBody_PS _ _ _ _

/-- a successful decode consumed exactly `serializedSize` bytes of the input and every decoded field is in range -/
theorem decode_consumes_lem (c : Consts) (b r : Bytes) (s : Img) (h : decode c b = some (s, r)) :
    b.length = serializedSize s + r.length ∧ WF s := by
  simp only [decode] at h
  obtain ⟨pre, r1, e1, k1⟩ := bind_eq_some h
  obtain ⟨ver, r2, e2, k2⟩ := bind_eq_some k1
  obtain ⟨fam, r3, e3, k3⟩ := bind_eq_some k2
  obtain ⟨flags, r4, e4, k4⟩ := bind_eq_some k3
  obtain ⟨_, r5, e5, k5⟩ := bind_eq_some k4
  obtain ⟨_, r6, e6, k6⟩ := bind_eq_some k5
  obtain ⟨_, r7, e7, k7⟩ := bind_eq_some k6
  obtain ⟨nh, r8, e8, k8⟩ := bind_eq_some k7
  obtain ⟨_, r9, e9, k9⟩ := bind_eq_some k8
  obtain ⟨seed, r10, e10, k10⟩ := bind_eq_some k9
  obtain ⟨nl, r11, e11, k11⟩ := bind_eq_some k10
  obtain ⟨_, r12, e12, k12⟩ := bind_eq_some k11
  have l1 := (leNat_inv 1 e1).1
  have l2 := (leNat_inv 1 e2).1
  have l3 := (leNat_inv 1 e3).1
  have l4 := (leNat_inv 1 e4).1
  have l5 := (guard_eq_some e5).2
  have l6 := (guard_eq_some e6).2
  have l7 := (guard_eq_some e7).2
  have ⟨l8, b8⟩ := leNat_inv 2 e8
  have l9 := skip_inv e9
  have ⟨l10, b10⟩ := leNat_inv 8 e10
  have ⟨l11, b11⟩ := leNat_inv 4 e11
  have l12 := skip_inv e12
  rw [l5] at l6; rw [l6] at l7; rw [l7] at l8
  unfold decodeBody at k12
  split at k12
  · obtain ⟨hs, hr⟩ := pure_eq_some k12
    subst hs; subst hr
    refine ⟨by simp only [serializedSize]; omega, ?_⟩
    exact ⟨by omega, by omega, by omega, trivial⟩
  · obtain ⟨nbs, r13, e13, k13⟩ := bind_eq_some k12
    obtain ⟨bits, r14, e14, k14⟩ := bind_eq_some k13
    obtain ⟨hs, hr⟩ := pure_eq_some k14
    have ⟨l13, b13⟩ := leNat_inv 8 e13
    obtain ⟨l14, l15⟩ := bytesN_inv _ e14
    subst hs; subst hr
    have : r13.length = 8 * nl + r.length := by rw [l14]; simp [l15]
    refine ⟨by simp only [serializedSize]; omega, ?_⟩
    exact ⟨by omega, by omega, by omega, by omega, l15⟩

end DS.Wire.Bloom

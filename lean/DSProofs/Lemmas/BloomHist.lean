/- The cover invariant holds after every history. -/
import DSProofs.Lemmas.BloomInv4
namespace DS.Bloom

variable {ι : Type} [DecidableEq ι] (P : Params) (fx : Fix) (hf : ι → Nat → Option (Nat × Nat))

theorem inv_step (hP : P.Layout) (w : World) (g : Ghost ι) (hi : Inv P hf w g) (op : Op ι) :
    Inv P hf (step P fx hf w op).1 (gstep P hf g w (step P fx hf w op).1 (step P fx hf w op).2 op) := by
  cases op with
  | new v nb nh seed => exact inv_new P hf w g hi v _ _ _
  | blk m len val => exact inv_blk P hf w g hi m len val
  | init v m nb nh seed => exact inv_init P hf w g hi v m _ _ _
  | upd v x => exact inv_upd P fx hf hP w g hi v x
  | qau v x => exact inv_qau P fx hf hP w g hi v x
  | bits v => exact inv_bits P hf w g hi v
  | reset v => exact inv_reset P hf w g hi v
  | setop op v u => exact inv_setop P fx hf hP w g hi op v u
  | copy v v' => exact inv_copy P hf w g hi v v'
  | ser v m => exact inv_ser P hf hP w g hi v m
  | wrap k m v => exact inv_wrap P hf hP w g hi k m v

omit [DecidableEq ι] in
theorem inv_empty : Inv P hf World.empty (Ghost.empty : Ghost ι) := by
  refine ⟨fun key => Covers.nil _ _ _ _, ?_⟩
  intro v f h; simp [World.empty] at h

theorem inv_grun (hP : P.Layout) (s : GWorld ι) (hi : Inv P hf s.w s.g) (ops : List (Op ι)) :
    Inv P hf (grun P fx hf s ops).w (grun P fx hf s ops).g := by
  induction ops generalizing s with
  | nil => exact hi
  | cons op t ih =>
    simp only [grun, List.foldl_cons]
    exact ih _ (inv_step P fx hf hP s.w s.g hi op)

end DS.Bloom

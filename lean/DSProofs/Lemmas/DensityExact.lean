/- Helper lemmas for C20: exact counting of n, exact mode, and the estimate over `Rat`. -/
import DSProofs.Lemmas.DensityRun
import Mathlib.Algebra.Order.Field.Rat
import Mathlib.Tactic.Ring
namespace DS.Density

variable {α ρ : Type}

/-! ### n -/

theorem run_n (c : Cfg) (P : Picker ρ α) (minK : Nat) (hist : Hist α) (hv : hist.valid minK) (r : ρ)
    (hne : hist.noEmptiedOperand c P r) : (run c P hist r).1.n = hist.inputs.length := by
  induction hist generalizing r with
  | new k d => rfl
  | upd h p ih =>
    simp only [run, Hist.inputs]
    by_cases hp : p.length = h.dim
    · rw [update_n _ _ _ _ _ (by rw [run_dim]; exact hp), ih hv r hne]; simp [hp]
    · rw [update_refused _ _ _ _ _ (by rw [run_dim]; exact hp), ih hv r hne]; simp [hp]
  | merge h o ih1 ih2 =>
    obtain ⟨h1, h2, h3⟩ := hne
    have e1 := ih1 hv.1 r h1
    have e2 := ih2 hv.2 _ h2
    simp only [run, Hist.inputs]
    by_cases h0 : mergeSkips c (run c P o (run c P h r).2).1 = true
    · rw [merge_skipped _ _ _ _ _ h0, e1]
      have : o.inputs.length = 0 := by rw [← e2]; exact h3 h0
      split <;> simp [this]
    · by_cases hd : o.dim = h.dim
      · rw [merge_accepted _ _ _ _ _ (by simpa using h0) (by rw [run_dim, run_dim]; exact hd), compactLoop_n]
        simp only [merged, hd, if_true, List.length_append]; omega
      · rw [merge_refused _ _ _ _ _ (by rw [run_dim, run_dim]; exact hd), e1]; simp [hd]

/-- with the early return on `n_ == 0` no history loses an operand -/
theorem noEmptiedOperand_of_skipOnN (c : Cfg) (hc : c.mergeSkipOnN = true) (P : Picker ρ α) (hist : Hist α) (r : ρ) :
    hist.noEmptiedOperand c P r := by
  induction hist generalizing r with
  | new k d => trivial
  | upd h p ih => exact ih r
  | merge h o ih1 ih2 =>
    refine ⟨ih1 r, ih2 _, ?_⟩
    intro hs
    simpa [mergeSkips, hc] using hs

/-! ### exact mode: one level = the inputs, in order -/

theorem sumLen_singleton (l : Level α) : sumLen [l] = l.length := by simp [sumLen]

/-- a skipped operand that is still in exact mode has no inputs (under either early-return test) -/
theorem skipped_exact_nil (c : Cfg) {o : Sketch α} {pts : List (Point α)} (hi : Inv o) (hl : o.levels = [pts])
    (hn : o.n = pts.length) (hs : mergeSkips c o = true) : pts = [] := by
  unfold mergeSkips at hs
  split at hs
  · have : o.n = 0 := by simpa using hs
    exact List.eq_nil_of_length_eq_zero (by omega)
  · have h0 : o.numRetained = 0 := by simpa using hs
    have := hi.cnt
    rw [h0, hl, sumLen_singleton] at this
    exact List.eq_nil_of_length_eq_zero this.symm

/-- BOTH shapes of `compact()`: a sketch with one level that has not lost a point (`num_retained_ = n_`), all of whose merged
operands were in that state too, holds exactly its inputs, in order. -/
theorem run_exact (c : Cfg) (P : Picker ρ α) (minK : Nat) (hm : 1 ≤ minK) (hist : Hist α) (hv : hist.valid minK) (r : ρ)
    (hop : hist.operandsExact c P r) (h1 : (run c P hist r).1.levels.length = 1)
    (hn : (run c P hist r).1.numRetained = (run c P hist r).1.n) :
    (run c P hist r).1.levels = [hist.inputs] ∧ (run c P hist r).1.n = hist.inputs.length := by
  induction hist generalizing r with
  | new k d => exact ⟨rfl, rfl⟩
  | upd h p ih =>
    have hs := run_rinv c P minK hm h hv r
    simp only [run, Hist.inputs] at h1 hn ⊢
    by_cases hp : p.length = h.dim
    · have hp' : p.length = (run c P h r).1.dim := by rw [run_dim]; exact hp
      rw [update_accepted _ _ _ _ _ hp'] at h1 hn ⊢
      simp only at h1 hn ⊢
      rw [length_pushLevel0 _ _ (compactLoop_inv c P _ hs.inv).ne] at h1
      have g1 := compactLoop_numRetained_le c P (run c P h r).2 (run c P h r).1
      have g2 := compactLoop_n c P (run c P h r).2 (run c P h r).1
      have g3 := hs.nge
      have hnc := drain_noop c P _ _ hs.inv hs.kpos hs.top (by unfold compactLoop at g1 g2 hn; omega) h1
      have hnc' : compactLoop c P (run c P h r).2 (run c P h r).1 = ((run c P h r).1, (run c P h r).2) := hnc
      rw [hnc'] at h1 hn ⊢
      obtain ⟨e1, e2⟩ := ih hv r hop h1 (by simp only at hn; omega)
      simp only [hp, if_true]
      rw [e1, e2]
      simp [pushLevel0]
    · have hp' : p.length ≠ (run c P h r).1.dim := by rw [run_dim]; exact hp
      rw [update_refused _ _ _ _ _ hp'] at h1 hn ⊢
      simp only [hp, if_false]
      exact ih hv r hop h1 hn
  | merge h o ih1 ih2 =>
    obtain ⟨o1, o2, o3, o4⟩ := hop
    have hs := run_rinv c P minK hm h hv.1 r
    have hso := run_rinv c P minK hm o hv.2 (run c P h r).2
    obtain ⟨b1, b2⟩ := ih2 hv.2 _ o2 o3 o4
    simp only [run, Hist.inputs] at h1 hn ⊢
    by_cases h0 : mergeSkips c (run c P o (run c P h r).2).1 = true
    · rw [merge_skipped _ _ _ _ _ h0] at h1 hn ⊢
      obtain ⟨a1, a2⟩ := ih1 hv.1 r o1 h1 hn
      have : o.inputs = [] := skipped_exact_nil c hso.inv b1 b2 h0
      rw [this]
      split <;> simp [a1, a2]
    · by_cases hd : o.dim = h.dim
      · have hd' : (run c P o (run c P h r).2).1.dim = (run c P h r).1.dim := by rw [run_dim, run_dim]; exact hd
        rw [merge_accepted _ _ _ _ _ (by simpa using h0) hd'] at h1 hn ⊢
        have hmi := merged_inv hs.inv hso.inv
        have g1 := compactLoop_numRetained_le c P (run c P o (run c P h r).2).2 (merged (run c P h r).1 (run c P o (run c P h r).2).1)
        have g2 := compactLoop_n c P (run c P o (run c P h r).2).2 (merged (run c P h r).1 (run c P o (run c P h r).2).1)
        have g3 := hs.nge
        have g4 := hso.nge
        have gm : (merged (run c P h r).1 (run c P o (run c P h r).2).1).numRetained
            = (merged (run c P h r).1 (run c P o (run c P h r).2).1).n → (run c P h r).1.numRetained = (run c P h r).1.n := by
          simp only [merged]; omega
        have gle : (merged (run c P h r).1 (run c P o (run c P h r).2).1).numRetained
            ≤ (merged (run c P h r).1 (run c P o (run c P h r).2).1).n := by simp only [merged]; omega
        have hkeep : (compactLoop c P (run c P o (run c P h r).2).2 (merged (run c P h r).1 (run c P o (run c P h r).2).1)).1.numRetained
            = (merged (run c P h r).1 (run c P o (run c P h r).2).1).numRetained := by omega
        have hnc : compactLoop c P (run c P o (run c P h r).2).2 (merged (run c P h r).1 (run c P o (run c P h r).2).1) = _ :=
          drain_noop c P _ _ hmi hs.kpos (merged_top c hs hso) hkeep h1
        rw [hnc] at h1 hn ⊢
        have hL : (run c P h r).1.levels.length = 1 := by
          have := length_mergeLevels_ge (run c P h r).1.levels (run c P o (run c P h r).2).1.levels
          have hne : (run c P h r).1.levels.length ≠ 0 := by simpa using hs.inv.ne
          simp only [merged] at h1
          omega
        obtain ⟨a1, a2⟩ := ih1 hv.1 r o1 hL (gm hn)
        simp [merged, hd, a1, b1, a2, b2, mergeLevels]
      · have hd' : (run c P o (run c P h r).2).1.dim ≠ (run c P h r).1.dim := by rw [run_dim, run_dim]; exact hd
        rw [merge_refused _ _ _ _ _ hd'] at h1 hn ⊢
        simp only [hd, if_false]
        exact ih1 hv.1 r o1 h1 hn

/-- pinned shape of `compact()`: one level already implies that no point was lost (a compaction always leaves ≥ 2 levels and
levels are never removed) -/
theorem run_one_level_pinned (c : Cfg) (hp : c.popsEmptyTop = false) (P : Picker ρ α) (minK : Nat) (hm : 1 ≤ minK) (hist : Hist α)
    (hv : hist.valid minK) (r : ρ) (h1 : (run c P hist r).1.levels.length = 1) :
    (run c P hist r).1.numRetained = (run c P hist r).1.n := by
  induction hist generalizing r with
  | new k d => rfl
  | upd h p ih =>
    have hs := run_rinv c P minK hm h hv r
    simp only [run] at h1 ⊢
    by_cases hpd : p.length = (run c P h r).1.dim
    · rw [update_accepted _ _ _ _ _ hpd] at h1 ⊢
      simp only at h1 ⊢
      rw [length_pushLevel0 _ _ (compactLoop_inv c P _ hs.inv).ne] at h1
      have hnc : compactLoop c P (run c P h r).2 (run c P h r).1 = ((run c P h r).1, (run c P h r).2) :=
        drain_one_level c hp P _ _ hs.inv hs.kpos h1
      rw [hnc] at h1 ⊢
      have := ih hv r h1
      simp only; omega
    · rw [update_refused _ _ _ _ _ hpd] at h1 ⊢
      exact ih hv r h1
  | merge h o ih1 ih2 =>
    have hs := run_rinv c P minK hm h hv.1 r
    have hso := run_rinv c P minK hm o hv.2 (run c P h r).2
    simp only [run] at h1 ⊢
    by_cases h0 : mergeSkips c (run c P o (run c P h r).2).1 = true
    · rw [merge_skipped _ _ _ _ _ h0] at h1 ⊢
      exact ih1 hv.1 r h1
    · by_cases hd : (run c P o (run c P h r).2).1.dim = (run c P h r).1.dim
      · rw [merge_accepted _ _ _ _ _ (by simpa using h0) hd] at h1 ⊢
        have hnc : compactLoop c P (run c P o (run c P h r).2).2 (merged (run c P h r).1 (run c P o (run c P h r).2).1) = _ :=
          drain_one_level c hp P _ _ (merged_inv hs.inv hso.inv) hs.kpos h1
        rw [hnc] at h1 ⊢
        have l1 := length_mergeLevels_ge (run c P h r).1.levels (run c P o (run c P h r).2).1.levels
        have l2 := length_mergeLevels_ge' (run c P h r).1.levels (run c P o (run c P h r).2).1.levels
        have n1 : (run c P h r).1.levels.length ≠ 0 := by simpa using hs.inv.ne
        have n2 : (run c P o (run c P h r).2).1.levels.length ≠ 0 := by simpa using hso.inv.ne
        simp only [merged] at h1 ⊢
        have := ih1 hv.1 r (by omega)
        have := ih2 hv.2 (run c P h r).2 (by omega)
        omega
      · rw [merge_refused _ _ _ _ _ hd] at h1 ⊢
        exact ih1 hv.1 r h1

/-! ### the estimate in exact arithmetic -/

/-- Σ_p K(p, q) over a list of points -/
def kernelSum (K : Point Rat → Point Rat → Rat) (q : Point Rat) (pts : List (Point Rat)) : Rat :=
  (pts.map (fun p => K p q)).sum

theorem estWeight_rat (c : Cfg) (h : Nat) : (estWeight c h : Rat) =
    if c.weight64 then ((2 ^ h : Nat) : Rat) else if h < 31 then ((2 ^ h : Nat) : Rat) else -((2 ^ 31 : Nat) : Rat) := rfl

theorem estLevel_rat (c : Cfg) (K : Point Rat → Point Rat → Rat) (q : Point Rat) (n h : Nat) (acc : Rat) (lvl : Level Rat) :
    estLevel c K q n h acc lvl = acc + (estWeight c h : Rat) * kernelSum K q lvl / (n : Rat) := by
  induction lvl generalizing acc with
  | nil => simp [estLevel, kernelSum]
  | cons p l ih =>
    have : estLevel c K q n h acc (p :: l) =
        estLevel c K q n h (acc + (estWeight c h : Rat) * K p q / (n : Rat)) l := rfl
    rw [this, ih]
    simp only [kernelSum, List.map_cons, List.sum_cons]
    ring

theorem kernelSum_nonneg (K : Point Rat → Point Rat → Rat) (hK : ∀ p q, 0 ≤ K p q) (q : Point Rat) (pts : List (Point Rat)) :
    0 ≤ kernelSum K q pts := by
  induction pts with
  | nil => simp [kernelSum]
  | cons p l ih =>
    simp only [kernelSum, List.map_cons, List.sum_cons]
    exact add_nonneg (hK p q) ih

/-- the weight is 2^h ≥ 0 when computed in 64 bits, or below level 31 -/
theorem estWeight_nonneg (c : Cfg) (h : Nat) (hh : c.weight64 = true ∨ h < 31) : 0 ≤ (estWeight c h : Rat) := by
  rw [estWeight_rat]
  split
  · exact Nat.cast_nonneg _
  · rename_i hw
    have hh' : h < 31 := by
      rcases hh with hh | hh
      · exact absurd hh hw
      · exact hh
    rw [if_pos hh']; exact Nat.cast_nonneg _

/-- non-negative as long as the weight is computed in 64 bits or every height is below 31 -/
theorem estFrom_nonneg (c : Cfg) (K : Point Rat → Point Rat → Rat) (hK : ∀ p q, 0 ≤ K p q) (q : Point Rat) (n h : Nat) (acc : Rat)
    (ha : 0 ≤ acc) (ls : List (Level Rat)) (hL : c.weight64 = true ∨ h + ls.length ≤ 31) : 0 ≤ estFrom c K q n h acc ls := by
  induction ls generalizing h acc with
  | nil => exact ha
  | cons l r ih =>
    simp only [estFrom]
    simp only [List.length_cons] at hL
    apply ih
    · rw [estLevel_rat]
      refine add_nonneg ha (div_nonneg (mul_nonneg (estWeight_nonneg c h ?_) (kernelSum_nonneg K hK q l)) (Nat.cast_nonneg _))
      rcases hL with hL | hL
      · exact Or.inl hL
      · exact Or.inr (by omega)
    · rcases hL with hL | hL
      · exact Or.inl hL
      · exact Or.inr (by omega)

end DS.Density

/- The serialized image: `deserialize (serialize s)` gives back `s` for every non-empty valid sketch (free to change). -/
import DSProofs.Lemmas.CpcWire
import DSProofs.Lemmas.CpcTablesOK
namespace DS.Cpc

theorem leBytes_two (x : Nat) : leBytes 2 x = [x % 256, x / 256 % 256] := by
  simp [leBytes, List.range_succ]

theorem takeHip_append (hb : HipBits) (rest : List Nat) (hk : hb.kxp < 256^8) (hh : hb.hip < 256^8) :
    takeHip (leBytes 8 hb.kxp ++ (leBytes 8 hb.hip ++ rest)) = some (hb, rest) := by
  unfold takeHip
  rw [takeLe_leBytes 8 _ _ hk]
  simp only [Option.bind_eq_bind, Option.bind_some, Option.pure_def]
  rw [takeLe_leBytes 8 _ _ hh]
  simp

/-- reading back the variable part written by `serialize` -/
theorem readBody_written (hasHip hasTable hasWindow : Bool) (c ne : Nat) (hb : HipBits) (tw ww tail : List Nat)
    (hor : (hasTable || hasWindow) = true)
    (hc : c < 256^4) (hne : ne < 256^4) (hk : hb.kxp < 256^8) (hh : hb.hip < 256^8)
    (htl : tw.length < 256^4) (hwl : ww.length < 256^4)
    (htw : ∀ w ∈ tw, w < 256^4) (hww : ∀ w ∈ ww, w < 256^4)
    (ht0 : hasTable = false → tw = []) (hw0 : hasWindow = false → ww = []) :
    readBody hasHip hasTable hasWindow
      (leBytes 4 c
        ++ ((if hasTable && hasWindow then leBytes 4 ne ++ (if hasHip then leBytes 8 hb.kxp ++ leBytes 8 hb.hip else []) else [])
        ++ ((if hasTable then leBytes 4 tw.length else [])
        ++ ((if hasWindow then leBytes 4 ww.length else [])
        ++ ((if hasHip && !(hasTable && hasWindow) then leBytes 8 hb.kxp ++ leBytes 8 hb.hip else [])
        ++ (ww.flatMap (leBytes 4) ++ (tw.flatMap (leBytes 4) ++ tail)))))))
      = some (c, (if hasWindow then (if hasTable then ne else 0) else c), (if hasHip then hb else ⟨0, 0⟩), ww, tw, tail) := by
  unfold readBody
  rw [if_pos hor]
  simp only [Option.bind_eq_bind, Option.pure_def]
  rw [takeLe_leBytes 4 c _ hc]
  simp only [Option.bind_some]
  cases hasHip <;> cases hasTable <;> cases hasWindow <;> simp at hor ⊢
  all_goals first
    | (have := ht0 rfl; subst this)
    | skip
  all_goals first
    | (have := hw0 rfl; subst this)
    | skip
  all_goals
    simp only [List.append_assoc, List.flatMap_nil, List.nil_append, List.length_nil,
      takeLe_leBytes 4 _ _ hne, takeLe_leBytes 4 _ _ htl, takeLe_leBytes 4 _ _ hwl, takeHip_append hb _ hk hh,
      takeWords_flatMap _ _ htw, takeWords_flatMap _ _ hww, takeWords, Option.bind_some]

/-! ### what `compress` produces for a non-empty valid sketch -/

theorem encPairs_ne_nil (enc65 : Nat → Nat) (B pr pc : Nat) (l : List Nat) (h : l ≠ []) : encPairs enc65 B pr pc l ≠ [] := by
  cases l with
  | nil => exact absurd rfl h
  | cons a t =>
    simp only [encPairs]
    intro e
    have := congrArg List.length e
    simp [unaryBits] at this

theorem compressPairs_ne_nil (C : CompTables) (lgK : Nat) (l : List Nat) (h : l ≠ []) : compressPairs C lgK l ≠ [] := by
  unfold compressPairs
  apply packWords_ne_nil
  intro e
  exact encPairs_ne_nil _ _ _ _ l h (List.append_eq_nil_iff.1 e).1

theorem compressWindow_ne_nil (C : CompTables) (lgK c : Nat) (w : List Nat) : compressWindow C lgK c w ≠ [] := by
  unfold compressWindow
  apply packWords_ne_nil
  intro e
  have := congrArg List.length e
  simp at this

/-- the table of a sparse sketch has `C` entries -/
theorem sparse_table_length (s : Sketch) (xs : List Nat) (h : Inv s xs) (hv : ∀ x ∈ xs, x < 64 * 2^s.lgK) (hw : s.window = []) :
    s.table.length = s.numCoupons := by
  rw [h.count]
  exact length_eq_of_nodup_mem (nodup_of_sorted h.rep.sorted) (nodup_distinct xs)
    (fun a => by rw [mem_distinct]; exact sparse_table_mem s xs h hv hw a)

/-- the HYBRID pair list (table merged with the window bits) has `C` entries -/
theorem hybrid_all_length (s : Sketch) (xs : List Nat) (h : Inv s xs) (hv : ∀ x ∈ xs, x < 64 * 2^s.lgK) (hw : s.window ≠ [])
    (ho : s.offset = 0) : (mergeS s.table (pairsOfWindow s.window)).length = s.numCoupons := by
  have hne := isEmpty_false_of_ne hw
  have hlen := h.rep.win_len hw
  have hz : ∀ rc ∈ s.table, 8 ≤ rc % 64 := by
    intro rc hrc; have := h.rep.zone hw rc hrc; omega
  have hall : (mergeS s.table (pairsOfWindow s.window)).Pairwise (· < ·) :=
    sorted_mergeS _ _ h.rep.sorted (sorted_pairsOfWindow _)
      (by intro a ha hb; have := hz a ha; have := ((mem_pairsOfWindow _ a).1 hb).2.1; omega)
  have hbit : ∀ r c, s.bit r c = if c < 8 then (s.window.getD r 0).testBit c else decide (r * 64 + c ∈ s.table) := by
    intro r c; simp [Sketch.bit, hne, ho]
  rw [h.count]
  apply length_eq_of_nodup_mem (nodup_of_sorted hall) (nodup_distinct xs)
  intro a
  rw [mem_distinct, mem_mergeS, mem_pairsOfWindow, hlen]
  have ha : a / 64 * 64 + a % 64 = a := by omega
  have hc : a % 64 < 64 := Nat.mod_lt _ (by decide)
  constructor
  · rintro (hm | ⟨hlt, h8, hb⟩)
    · have hlt := h.rep.tbl_lt a hm
      have := (h.bits (a / 64) (a % 64) (by omega) hc).1 (by rw [hbit, if_neg (by have := hz a hm; omega), ha]; simpa using hm)
      rwa [ha] at this
    · have := (h.bits (a / 64) (a % 64) (by omega) hc).1 (by rw [hbit, if_pos h8]; exact hb)
      rwa [ha] at this
  · intro hx
    have hlt := hv a hx
    have := (h.bits (a / 64) (a % 64) (by omega) hc).2 (by rw [ha]; exact hx)
    rw [hbit] at this
    by_cases h8 : a % 64 < 8
    · rw [if_pos h8] at this; exact Or.inr ⟨hlt, h8, this⟩
    · rw [if_neg h8, ha] at this; exact Or.inl (by simpa using this)

/-- shape of the compressed state of a non-empty valid sketch -/
theorem compress_shape (C : CompTables) (s : Sketch) (xs : List Nat) (h : Inv s xs) (hv : ∀ x ∈ xs, x < 64 * 2^s.lgK)
    (hc0 : s.numCoupons ≠ 0) :
    ((compress C s).tableWords ≠ [] ∨ (compress C s).windowWords ≠ []) ∧
    ((compress C s).windowWords = [] → (compress C s).tableNumEntries = s.numCoupons) ∧
    ((compress C s).tableWords = [] → (compress C s).tableNumEntries = 0) ∧
    ((compress C s).tableNumEntries ≤ s.table.length ∨ (compress C s).windowWords = []) ∧
    (∀ w ∈ (compress C s).tableWords, w < 256^4) ∧ (∀ w ∈ (compress C s).windowWords, w < 256^4) := by
  have hk := Nat.two_pow_pos s.lgK
  unfold compress
  rcases flavor_cases s.lgK s.numCoupons with ⟨h0, hf⟩ | ⟨h0, h1, hf⟩ | ⟨h0, h1, h2, hf⟩ | ⟨h0, h1, h2, h3, hf⟩ | ⟨h0, h1, h2, h3, hf⟩
  · exact absurd h0 hc0
  · simp only [hf]
    have hw : s.window = [] := by
      apply Classical.byContradiction
      intro hw; have := h.winC hw; omega
    have hl := sparse_table_length s xs h hv hw
    have hne : s.table ≠ [] := by intro e; rw [e] at hl; simp at hl; omega
    refine ⟨Or.inl (compressPairs_ne_nil C _ _ hne), fun _ => hl, fun e => absurd e (compressPairs_ne_nil C _ _ hne),
      Or.inr trivial, fun w hw' => packWords_lt _ w hw', by simp⟩
  · simp only [hf]
    have hw : s.window ≠ [] := by intro e; have := h.sparseC e; omega
    have ho : s.offset = 0 := offset_zero_of_lt27 s xs h (by omega)
    have hl := hybrid_all_length s xs h hv hw ho
    have hne : mergeS s.table (pairsOfWindow s.window) ≠ [] := by intro e; rw [e] at hl; simp at hl; omega
    refine ⟨Or.inl (compressPairs_ne_nil C _ _ hne), fun _ => hl, fun e => absurd e (compressPairs_ne_nil C _ _ hne),
      Or.inr trivial, fun w hw' => packWords_lt _ w hw', by simp⟩
  · simp only [hf]
    split
    · exact ⟨Or.inr (compressWindow_ne_nil C _ _ _), fun e => absurd e (compressWindow_ne_nil C _ _ _), fun _ => rfl,
        Or.inl (Nat.zero_le _), by simp, fun w hw' => packWords_lt _ w hw'⟩
    · rename_i hne
      have hne' : s.table.map (fun rc => rc - 8) ≠ [] := by simpa using hne
      exact ⟨Or.inr (compressWindow_ne_nil C _ _ _), fun e => absurd e (compressWindow_ne_nil C _ _ _),
        fun e => absurd e (compressPairs_ne_nil C _ _ hne'), Or.inl (by simp),
        fun w hw' => packWords_lt _ w hw', fun w hw' => packWords_lt _ w hw'⟩
  · simp only [hf]
    split
    · exact ⟨Or.inr (compressWindow_ne_nil C _ _ _), fun e => absurd e (compressWindow_ne_nil C _ _ _), fun _ => rfl,
        Or.inl (Nat.zero_le _), by simp, fun w hw' => packWords_lt _ w hw'⟩
    · rename_i hne
      have hne' : sortPairs (s.table.map (slideCol C (pseudoPhase s.lgK s.numCoupons) s.offset)) ≠ [] := by
        intro e; have := congrArg List.length e; simp at this; exact hne this
      exact ⟨Or.inr (compressWindow_ne_nil C _ _ _), fun e => absurd e (compressWindow_ne_nil C _ _ _),
        fun e => absurd e (compressPairs_ne_nil C _ _ hne'), Or.inl (by simp),
        fun w hw' => packWords_lt _ w hw', fun w hw' => packWords_lt _ w hw'⟩

/-! ### the whole image -/

/-- the wire constants as generated from cpc_sketch.hpp, with the given shape of `deserialize` on an empty image -/
def wireOf (repaired : Bool) : WireConsts :=
  { serialVersion := DSGen.cpc_SERIAL_VERSION, family := DSGen.cpc_FAMILY, flagCompressed := DSGen.cpc_FLAG_IS_COMPRESSED,
    flagHip := DSGen.cpc_FLAG_HAS_HIP, flagTable := DSGen.cpc_FLAG_HAS_TABLE, flagWindow := DSGen.cpc_FLAG_HAS_WINDOW,
    emptyKxpIsK := repaired }

/-- the current source -/
def genWire : WireConsts := wireOf DSGen.cpc_DESER_EMPTY_KXP_IS_K
/-- the source before fix de90ce5 (kxp = 0 after deserializing an empty image) -/
def pinnedWire : WireConsts := wireOf false
/-- the repaired source (kxp = 2^lg_k) -/
def repairedWire : WireConsts := wireOf true

/-- the flag bits are distinct positions (an obligation on the generated constants) -/
theorem gen_flags_bits (r a b c : Bool) :
    (2^(wireOf r).flagCompressed + (if a then 2^(wireOf r).flagHip else 0) + (if b then 2^(wireOf r).flagTable else 0)
      + (if c then 2^(wireOf r).flagWindow else 0)).testBit (wireOf r).flagHip = a ∧
    (2^(wireOf r).flagCompressed + (if a then 2^(wireOf r).flagHip else 0) + (if b then 2^(wireOf r).flagTable else 0)
      + (if c then 2^(wireOf r).flagWindow else 0)).testBit (wireOf r).flagTable = b ∧
    (2^(wireOf r).flagCompressed + (if a then 2^(wireOf r).flagHip else 0) + (if b then 2^(wireOf r).flagTable else 0)
      + (if c then 2^(wireOf r).flagWindow else 0)).testBit (wireOf r).flagWindow = c := by
  cases r <;> cases a <;> cases b <;> cases c <;> decide

theorem preambleInts_le (c : Nat) (a b d : Bool) : preambleInts c a b d ≤ 10 := by
  unfold preambleInts
  split
  · omega
  · cases a <;> cases b <;> cases d <;> simp

/-- **the image of a non-empty valid sketch gives back the sketch** (table, window, offset, fic, merged flag, C, lg_k)
and the two HIP registers exactly as stored (none for a merged sketch) -/
theorem image_roundtrip (r : Bool) (C : CompTables) (hC : TablesOK C) (sh : Nat) (s : Sketch) (xs : List Nat) (hb : HipBits)
    (ofBits : Nat → Float) (hsh : sh < 65536) (h : Inv s xs) (hv : ∀ x ∈ xs, x < 64 * 2^s.lgK)
    (hoff : s.offset = determineCorrectOffset s.lgK s.numCoupons) (hc0 : s.numCoupons ≠ 0) (hc : s.numCoupons < 256^4)
    (hk : hb.kxp < 256^8) (hh : hb.hip < 256^8) (htl : s.table.length < 256^4)
    (hwl : (compress C s).tableWords.length < 256^4) (hwl' : (compress C s).windowWords.length < 256^4) :
    ∃ s', deserializeCore (wireOf r) C sh (serializeCore (wireOf r) C sh s hb) ofBits
        = some (s', if s.merged then ⟨0, 0⟩ else hb) ∧
      s'.lgK = s.lgK ∧ s'.numCoupons = s.numCoupons ∧ s'.table = s.table ∧ s'.window = s.window ∧
      s'.offset = s.offset ∧ s'.fic = s.fic ∧ s'.merged = s.merged := by
  obtain ⟨hor, hnw, hnt, hnl, htw, hww⟩ := compress_shape C s xs h hv hc0
  have hless := compress_lossless C hC s xs h hv hoff
  unfold serializeCore
  simp only [hc0, if_false]
  generalize compress C s = z at *
  -- the three flags
  generalize hhip : (!s.merged) = hasHip
  generalize htab : (!z.tableWords.isEmpty) = hasTable
  generalize hwin : (!z.windowWords.isEmpty) = hasWindow
  have ht0 : hasTable = false → z.tableWords = [] := by
    intro e; rw [e] at htab; cases hq : z.tableWords <;> simp_all
  have hw0 : hasWindow = false → z.windowWords = [] := by
    intro e; rw [e] at hwin; cases hq : z.windowWords <;> simp_all
  have ht1 : hasTable = true → z.tableWords ≠ [] := by
    intro e hq; rw [e, hq] at htab; simp at htab
  have hw1 : hasWindow = true → z.windowWords ≠ [] := by
    intro e hq; rw [e, hq] at hwin; simp at hwin
  have hor' : (hasTable || hasWindow) = true := by
    rcases hor with h1 | h1
    · cases hq : hasTable
      · exact absurd (ht0 hq) h1
      · simp
    · cases hq : hasWindow
      · exact absurd (hw0 hq) h1
      · simp
  have hne : z.tableNumEntries < 256^4 := by
    rcases hnl with h1 | h1
    · omega
    · rw [hnw h1]; exact hc
  obtain ⟨f1, f2, f3⟩ := gen_flags_bits r hasHip hasTable hasWindow
  have hbody := readBody_written hasHip hasTable hasWindow s.numCoupons z.tableNumEntries hb z.tableWords z.windowWords []
    hor' hc hne hk hh hwl hwl' htw hww ht0 hw0
  simp only [List.append_nil] at hbody
  unfold deserializeCore
  simp only [leBytes_two, List.cons_append, List.nil_append, List.append_assoc, f1, f2, f3]
  rw [hbody]
  -- the size check
  have hpre := preambleInts_le s.numCoupons hasHip hasTable hasWindow
  have hlen : ¬ (List.length (preambleInts s.numCoupons hasHip hasTable hasWindow :: (wireOf r).serialVersion :: (wireOf r).family :: s.lgK :: s.fic ::
      (2^(wireOf r).flagCompressed + (if hasHip = true then 2^(wireOf r).flagHip else 0) + (if hasTable = true then 2^(wireOf r).flagTable else 0)
        + (if hasWindow = true then 2^(wireOf r).flagWindow else 0)) :: sh % 256 :: sh / 256 % 256 ::
      (leBytes 4 s.numCoupons ++ ((if (hasTable && hasWindow) = true then leBytes 4 z.tableNumEntries ++ (if hasHip = true then leBytes 8 hb.kxp ++ leBytes 8 hb.hip else []) else []) ++
        ((if hasTable = true then leBytes 4 z.tableWords.length else []) ++ ((if hasWindow = true then leBytes 4 z.windowWords.length else []) ++
          ((if (hasHip && !(hasTable && hasWindow)) = true then leBytes 8 hb.kxp ++ leBytes 8 hb.hip else []) ++
            (z.windowWords.flatMap (leBytes 4) ++ z.tableWords.flatMap (leBytes 4))))))))
      < 4 * preambleInts s.numCoupons hasHip hasTable hasWindow) := by
    unfold preambleInts
    rw [if_neg hc0]
    cases hasHip <;> cases hasTable <;> cases hasWindow <;> simp at hor' ⊢ <;> omega
  rw [if_neg hlen]
  have hshe : sh % 256 + 256 * (sh / 256 % 256) = sh := by omega
  simp only [List.isEmpty_nil, Bool.not_true, Bool.false_eq_true, if_false, ne_eq, not_true_eq_false, hshe, hc0, false_and]
  -- the compressed state read back is the one written
  have hz : ({ tableWords := z.tableWords, tableNumEntries := (if hasWindow = true then (if hasTable = true then z.tableNumEntries else 0) else s.numCoupons),
               windowWords := z.windowWords } : Compressed) = z := by
    have : (if hasWindow = true then (if hasTable = true then z.tableNumEntries else 0) else s.numCoupons) = z.tableNumEntries := by
      cases hq : hasWindow
      · simp; exact (hnw (hw0 hq)).symm
      · cases hq2 : hasTable
        · simp; exact (hnt (ht0 hq2)).symm
        · simp
    rw [this]
  rw [hz, hless]
  refine ⟨{ lgK := s.lgK, numCoupons := s.numCoupons, table := s.table, window := s.window,
            offset := determineCorrectOffset s.lgK s.numCoupons, fic := s.fic,
            kxp := ofBits (if hasHip = true then hb else ⟨0, 0⟩).kxp, hip := ofBits (if hasHip = true then hb else ⟨0, 0⟩).hip,
            merged := !hasHip }, ?_, rfl, rfl, rfl, rfl, hoff.symm, rfl, ?_⟩
  · congr 2
    rw [← hhip]; cases s.merged <;> simp
  · show (!hasHip) = s.merged
    rw [← hhip]; simp

theorem compress_empty (C : CompTables) (s : Sketch) (h0 : s.numCoupons = 0) :
    compress C s = { tableWords := [], tableNumEntries := 0, windowWords := [] } := by
  unfold compress
  simp only [(flavor_empty_iff s.lgK s.numCoupons).2 h0]

/-- the image of an EMPTY valid sketch: everything comes back; the registers are those the source shape gives
(`kxp = 2^lg_k` for the repaired shape, 0 for the pinned one), `hip = 0` -/
theorem image_roundtrip_empty (r : Bool) (C : CompTables) (sh : Nat) (s : Sketch) (xs : List Nat) (hb : HipBits)
    (ofBits : Nat → Float) (hsh : sh < 65536) (h : Inv s xs) (hv : ∀ x ∈ xs, x < 64 * 2^s.lgK)
    (hoff : s.offset = determineCorrectOffset s.lgK s.numCoupons) (hc0 : s.numCoupons = 0) :
    ∃ s', deserializeCore (wireOf r) C sh (serializeCore (wireOf r) C sh s hb) ofBits
        = some (s', if r = true then ⟨pow2Bits s.lgK, 0⟩ else ⟨0, 0⟩) ∧
      s'.lgK = s.lgK ∧ s'.numCoupons = s.numCoupons ∧ s'.table = s.table ∧ s'.window = s.window ∧
      s'.offset = s.offset ∧ s'.fic = s.fic ∧ s'.merged = s.merged := by
  obtain ⟨ht, hw⟩ := table_nil_of_empty s xs h hv hc0
  obtain ⟨f1, f2, f3⟩ := gen_flags_bits r (!s.merged) false false
  unfold serializeCore
  simp only [compress_empty C s hc0, hc0, if_true, List.isEmpty_nil, Bool.not_true] at f1 f2 f3 ⊢
  unfold deserializeCore
  simp only [leBytes_two, List.cons_append, List.nil_append, f1, f2, f3]
  have hshe : sh % 256 + 256 * (sh / 256 % 256) = sh := by omega
  have hunc : uncompress C { tableWords := [], tableNumEntries := 0, windowWords := [] } s.lgK 0 = ([], []) := by
    unfold uncompress
    simp only [(flavor_empty_iff s.lgK 0).2 rfl]
  simp [readBody, preambleInts, hshe, hunc, wireOf]
  exact ⟨ht, hw, by rw [hoff, hc0]⟩

end DS.Cpc

/- State-level facts: what a set operation / query_and_update / commit does, for every world. -/
import DSProofs.Lemmas.BloomInv4
namespace DS.Bloom

/-- the filter record after `commit` -/
def committed (f : Filter) (x nbs : Nat) (d : Bool) : Filter :=
  match f.ref with
  | .owned _ => { f with ref := .owned x, nbs := nbs, dirty := d }
  | .mem _ => { f with nbs := nbs, dirty := d }

theorem commit_filter (P : Params) (w : World) (v : Nat) (f : Filter) (x nbs : Nat) (d : Bool) (hdr : Option Nat) :
    (commit P w v f x nbs d hdr).filters v = some (committed f x nbs d) := by
  unfold commit committed
  cases f.ref <;> simp

theorem committed_key (v : Nat) (f : Filter) (x nbs : Nat) (d : Bool) : keyOf v (committed f x nbs d) = keyOf v f := by
  unfold committed keyOf
  cases hr : f.ref <;> simp [hr]

theorem committed_fields (f : Filter) (x nbs : Nat) (d : Bool) :
    (committed f x nbs d).capBits = f.capBits ∧ (committed f x nbs d).numHashes = f.numHashes ∧ (committed f x nbs d).seed = f.seed ∧
    (committed f x nbs d).nbs = nbs ∧ (committed f x nbs d).dirty = d ∧ (committed f x nbs d).readOnly = f.readOnly := by
  unfold committed
  cases f.ref <;> simp

theorem committed_off (P : Params) (f : Filter) (x nbs : Nat) (d : Bool) : (committed f x nbs d).off P = f.off P := by
  unfold committed Filter.off
  cases hr : f.ref <;> simp [hr]

/-- bit `j` (any `j`) of the acting filter's array after `commit` is bit `j` of the committed content -/
theorem commit_bit (P : Params) (hP : P.Layout) (w : World) (v : Nat) (f : Filter) (x nbs : Nat) (d : Bool) (hdr : Option Nat) (j : Nat) :
    ((commit P w v f x nbs d hdr).val (committed f x nbs d)).testBit ((committed f x nbs d).off P + j) = x.testBit (f.off P + j) := by
  rw [val_eq_keyVal _ v _ (commit_filter P w v f x nbs d hdr), committed_key, committed_off, off_eq_keyOff P v f]
  exact keyVal_commit_bit P hP w v f x nbs d hdr j

/-- the stored count of a writable memory-backed filter after `update_num_bits_set(n)` -/
theorem commit_header (P : Params) (w : World) (v : Nat) (f : Filter) (m : Nat) (hr : f.ref = .mem m) (hro : f.readOnly = false)
    (x nbs : Nat) (d : Bool) (n : Nat) :
    getField ((commit P w v f x nbs d (some n)).blockVal m) (8 * P.nbsOff) 64 = n % 2 ^ 64 := by
  unfold commit
  simp only [hr, hro, Bool.false_eq_true, if_false]
  simp only [World.blockVal, World.setFilter, World.setBlock, if_true]
  exact getField_setField_same _ _ _ _

/-! ### set operations -/

theorem opSet_result (P : Params) (fx : Fix) (w : World) (op : SetOp) (v u : Nat) (f g' : Filter)
    (hv : w.filters v = some f) (hu : w.filters u = some g') (w' : World) (n : Nat) (hres : opSet P fx w op v u = (w', .nat n)) :
    (fx.roSetopsRefused && f.readOnly) = false ∧ (op = .invert ∨ compatible f g' = true) ∧
    n = popCount (setField (w.val f) (f.off P) f.capBits (combine op f.capBits (w.bitsOf P f) (w.bitsOf P g'))) (f.off P) f.capBits ∧
    w' = commit P w v f (setField (w.val f) (f.off P) f.capBits (combine op f.capBits (w.bitsOf P f) (w.bitsOf P g'))) n false (some n) := by
  simp only [opSet, hv, hu] at hres
  by_cases h1 : (fx.roSetopsRefused && f.readOnly) = true
  · simp [h1] at hres
  · by_cases h2 : (op != .invert && !compatible f g') = true
    · simp [h1, h2] at hres
    · simp only [h1, h2, Bool.false_eq_true, if_false, Prod.mk.injEq, Out.nat.injEq] at hres
      refine ⟨by simpa using h1, ?_, hres.2.symm, ?_⟩
      · cases op with
        | invert => exact Or.inl rfl
        | union => right; simpa using h2
        | inter => right; simpa using h2
      · rw [← hres.1, hres.2]

/-! ### query_and_update -/

theorem opQau_answer (P : Params) (fx : Fix) (w : World) (v : Nat) (f : Filter) (hv : w.filters v = some f) (hro : f.readOnly = false)
    (h : Nat × Nat) : (opQau P fx w v (some h)).2 = .bool (allSet (w.val f) (f.off P) (indices h.1 h.2 f.capBits f.numHashes)) := by
  simp only [opQau, hv, hro, Bool.false_eq_true, if_false]
  have ha := qauLoop_answer (f.off P) (indices h.1 h.2 f.capBits f.numHashes) (w.val f) f.nbs true
  generalize qauLoop (f.off P) (indices h.1 h.2 f.capBits f.numHashes) (w.val f, f.nbs, true) = q at ha
  obtain ⟨qx, qn, qa⟩ := q
  simp only [Bool.true_and] at ha
  subst ha
  by_cases hk : (f.numHashes == 0) = true
  · simp [hk]
  · by_cases hd : (fx.qauKeepsDirty && f.dirty) = true
    · simp [hk, hd]
    · simp [hk, hd]

theorem idx1_mem_indices (h0 h1 cap k : Nat) (hk : 0 < k) : idx h0 h1 cap 1 ∈ indices h0 h1 cap k := by
  simp only [indices, List.mem_map, List.mem_range]
  exact ⟨0, hk, rfl⟩

end DS.Bloom

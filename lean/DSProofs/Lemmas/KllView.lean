/- The sorted view of a KLL sketch: sortedness, total weight, rank = weight below (the bridge to C08's `wb`). -/
import DSProofs.Lemmas.KllReach
import DSProofs.Lemmas.KllMech
import DSProofs.Lemmas.SortedView2
namespace DS.Kll
open DS DS.SortedView

variable {α : Type}

theorem viewRaw_sorted {lt : α → α → Bool} (sw : StrictWeak lt) : ∀ (L : List (List α)) (h : Nat) (acc : List (α × Nat)),
    SortedE lt acc → (∀ l ∈ L, Sorted lt l) → SortedE lt (viewRaw lt L h acc)
  | [], _, acc, ha, _ => ha
  | l :: t, h, acc, ha, hl => by
    simp only [viewRaw]
    exact viewRaw_sorted sw t (h + 1) _ (add_sorted sw (2 ^ h) ha (hl l (by simp))) (fun l' hl' => hl l' (List.mem_cons_of_mem _ hl'))

theorem viewRaw_sumW (lt : α → α → Bool) : ∀ (L : List (List α)) (h : Nat) (acc : List (α × Nat)),
    sumW (viewRaw lt L h acc) = sumW acc + weightSum h L
  | [], _, acc => by simp [viewRaw, weightSum]
  | l :: t, h, acc => by simp only [viewRaw, viewRaw_sumW lt t (h + 1), sumW_add, weightSum]; omega

theorem viewRaw_weightBelow (lt : α → α → Bool) (x : α) (incl : Bool) : ∀ (L : List (List α)) (h : Nat) (acc : List (α × Nat)),
    weightBelow lt x incl (viewRaw lt L h acc) = weightBelow lt x incl acc + Mech.wb (isBelow lt x incl) h L
  | [], _, acc => by simp [viewRaw, Mech.wb]
  | l :: t, h, acc => by
    simp only [viewRaw, viewRaw_weightBelow lt x incl t (h + 1), Mech.wb, Mech.cnt]
    rw [weightBelow_perm lt x incl (add_perm lt acc l (2 ^ h)), weightBelow_append, weightBelow_map_const]; omega

/-- all levels of a sketch with level 0 sorted are sorted -/
theorem all_levels_sorted {P : Params} {lt : α → α → Bool} {s : Sketch α} (h : InvS P lt s) (h0 : s.sorted0 = true) :
    ∀ l ∈ s.levels, Sorted lt l := by
  intro l hl
  obtain ⟨i, hi, rfl⟩ := List.getElem_of_mem hl
  have e : s.levels[i] = s.levels.getD i [] := by
    rw [List.getD_eq_getElem?_getD, List.getElem?_eq_getElem hi]; rfl
  rw [e]
  cases i with
  | zero => exact h.sorted0 h0
  | succ j => exact h.sorted _ (by omega)

theorem sortLevelZero_sorted0 (c : Cmp α) (s : Sketch α) : (sortLevelZero c s).sorted0 = true := by
  unfold sortLevelZero; split
  · assumption
  · rfl

theorem sortLevelZero_n (c : Cmp α) (s : Sketch α) : (sortLevelZero c s).n = s.n := by
  unfold sortLevelZero; split <;> rfl

/-- weight below is unchanged by sorting level 0 -/
theorem sortLevelZero_wb {P : Params} {c : Cmp α} {s : Sketch α} (h : InvS P c.lt s) (p : α → Bool) :
    Mech.wb p 0 (sortLevelZero c s).levels = Mech.wb p 0 s.levels := by
  unfold sortLevelZero; split
  · rfl
  · rw [levels_eq_cons h]
    simp only [sortHead, Mech.wb, Mech.cnt, sortBy_filter]

/-- `get_sorted_view`: the view is sorted, its total weight is n, and the rank numerator of every point is the
weight of the retained items below it -/
theorem view_props {P : Params} {c : Cmp α} (sw : StrictWeak c.lt) {s : Sketch α} (h : InvS P c.lt s) :
    SortedE c.lt (viewRaw c.lt (sortLevelZero c s).levels 0 []) ∧
    (getSortedView c s).2.total = s.n ∧
    ∀ x incl, rankNum c.lt (getSortedView c s).2 x incl = Mech.wb (isBelow c.lt x incl) 0 s.levels := by
  have h' := sortLevelZero_inv sw h
  have hsrt : SortedE c.lt (viewRaw c.lt (sortLevelZero c s).levels 0 []) :=
    viewRaw_sorted sw _ 0 [] (by unfold SortedE Sorted; simp) (all_levels_sorted h' (sortLevelZero_sorted0 c s))
  refine ⟨hsrt, ?_, ?_⟩
  · simp only [getSortedView, viewOf, build, total_eq_sumW, viewRaw_sumW, sumW, Nat.zero_add]
    rw [h'.weight, sortLevelZero_n]
  · intro x incl
    simp only [getSortedView, viewOf]
    rw [rankNum_eq sw _ hsrt, viewRaw_weightBelow, sortLevelZero_wb h]
    simp [weightBelow]

/-- exact mode: the weight below is the number of accepted items below -/
theorem exact_wb {c : Cmp α} {s : Sketch α} {inp : List α} (ht : InvT c s inp) (h1 : s.levels.length = 1) (p : α → Bool) :
    Mech.wb p 0 s.levels = (inp.filter p).length := by
  have hp := ht.exact h1
  cases hs : s.levels with
  | nil => rw [hs] at h1; simp at h1
  | cons l0 t =>
    rw [hs] at h1 hp
    have : t = [] := List.eq_nil_of_length_eq_zero (by simpa using h1)
    subst this
    simp only [List.headD_cons] at hp
    simp only [Mech.wb, Mech.cnt, Nat.pow_zero, Nat.one_mul, Nat.add_zero]
    exact (hp.filter p).length_eq

end DS.Kll

/- C19 helper lemmas: contract shapes of the class methods and their effect on the world (one glue lemma per shape). -/
import DSProofs.Lemmas.LifeWorld
namespace DS.Life

/-- outcome of a world-level step: never a precondition failure; a normal outcome satisfies `Q` -/
def StepOK {α} (r : Except Err α) (Q : α → Prop) : Prop :=
  match r with
  | .ok a => Q a
  | .error (.pre _) => False
  | .error _ => True

theorem StepOK.bind {α β} {r : Except Err α} {f : α → Except Err β} {Q : α → Prop} {R : β → Prop}
    (h : StepOK r Q) (k : ∀ a, Q a → StepOK (f a) R) : StepOK (r >>= f) R := by
  cases r with
  | error e => cases e <;> exact h
  | ok a => exact k a h

theorem StepOK.of_safeX {α} {r : Except Err (α × Heap)} {Q' : α × Heap → Prop} (s : SafeX r (fun a h => Q' (a, h))) :
    StepOK r Q' := by
  cases r with
  | error e => cases e <;> simp_all [StepOK, SafeX]
  | ok p => exact s

/-! ### contract shapes (the footprint starts at `n0 = next`) -/

/-- a constructor -/
def NewC {α} (sp : ObjSpec) (m : M α) (res : α → Obj) : Prop :=
  ∀ n0 ids0, TripleS n0 (foot [] n0) (fun h => h.ids = ids0 ∧ h.next = n0 ∧ (∀ x, x ∈ ids0 → x < n0)) m
    (fun a h' => sp.Usable h' (res a) ∧ Owns h' ids0 [] (sp.owned (res a)) n0)

/-- a mutator of one usable object -/
def MutC {α} (sp : ObjSpec) (o : Obj) (m : M α) (res : α → Obj) : Prop :=
  ∀ n0 ids0, TripleS n0 (foot (sp.owned o) n0)
    (fun h => sp.Usable h o ∧ h.ids = ids0 ∧ h.next = n0 ∧ (∀ x, x ∈ ids0 → x < n0)) m
    (fun a h' => sp.Usable h' (res a) ∧ Owns h' ids0 (sp.owned o) (sp.owned (res a)) n0)

/-- a reader of one usable object (may use temporary blocks) -/
def ReadC {α} (sp : ObjSpec) (o : Obj) (m : M α) : Prop :=
  ∀ n0 ids0, TripleS n0 (foot [] n0)
    (fun h => sp.Usable h o ∧ h.ids = ids0 ∧ h.next = n0 ∧ (∀ x, x ∈ ids0 → x < n0) ∧ (∀ b, b ∈ sp.owned o → b < n0)) m
    (fun _ h' => ∀ x, x ∈ h'.ids ↔ x ∈ ids0)

/-- a new object made from a usable one that is only read (copy constructor, deserialize ∘ serialize) -/
def FromC {α} (sp : ObjSpec) (o : Obj) (m : M α) (res : α → Obj) : Prop :=
  ∀ n0 ids0, TripleS n0 (foot [] n0)
    (fun h => sp.Usable h o ∧ h.ids = ids0 ∧ h.next = n0 ∧ (∀ x, x ∈ ids0 → x < n0) ∧ (∀ b, b ∈ sp.owned o → b < n0)) m
    (fun a h' => sp.Usable h' (res a) ∧ Owns h' ids0 [] (sp.owned (res a)) n0)

/-- destructor -/
def DtorC (sp : ObjSpec) (o : Obj) (m : M Unit) : Prop :=
  ∀ n0 ids0, TripleS n0 (foot (sp.owned o) n0) (fun h => sp.Inv h o ∧ h.ids = ids0 ∧ h.next = n0 ∧ (∀ x, x ∈ ids0 → x < n0)) m
    (fun _ h' => Owns h' ids0 (sp.owned o) [] n0)

/-- move constructor: (new object, moved-from source) -/
def MoveC (sp : ObjSpec) (o : Obj) (m : M (Obj × Obj)) : Prop :=
  ∀ n0 ids0, TripleS n0 (foot (sp.owned o) n0) (fun h => sp.Usable h o ∧ h.ids = ids0 ∧ h.next = n0 ∧ (∀ x, x ∈ ids0 → x < n0)) m
    (fun r h' => sp.Usable h' r.1 ∧ sp.Inv h' r.2 ∧ (∀ b, b ∈ sp.owned r.1 → b ∉ sp.owned r.2) ∧
      Owns h' ids0 (sp.owned o) (sp.owned r.1 ++ sp.owned r.2) n0)

/-- copy assignment `t = o` (`t` may be moved-from, `o` is usable; they are the same object or own disjoint blocks) -/
def CAssignC (sp : ObjSpec) (t o : Obj) (m : M Obj) : Prop :=
  ∀ n0 ids0, TripleS n0 (foot (sp.owned t) n0)
    (fun h => sp.Inv h t ∧ sp.Usable h o ∧ (t = o ∨ ∀ b, b ∈ sp.owned t → b ∉ sp.owned o) ∧ h.ids = ids0 ∧ h.next = n0 ∧
      (∀ b, b ∈ sp.owned t → b < n0) ∧ (∀ b, b ∈ sp.owned o → b < n0) ∧ (∀ x, x ∈ ids0 → x < n0)) m
    (fun t' h' => sp.Usable h' t' ∧ Owns h' ids0 (sp.owned t) (sp.owned t') n0)

/-- move assignment between two different objects: (this, other) -/
def MAssignC (sp : ObjSpec) (t o : Obj) (m : M (Obj × Obj)) : Prop :=
  ∀ n0 ids0, TripleS n0 (foot (sp.owned t ++ sp.owned o) n0)
    (fun h => sp.Inv h t ∧ sp.Usable h o ∧ (∀ b, b ∈ sp.owned t → b ∉ sp.owned o) ∧ h.ids = ids0 ∧ h.next = n0 ∧
      (∀ x, x ∈ ids0 → x < n0)) m
    (fun r h' => sp.Usable h' r.1 ∧ sp.Inv h' r.2 ∧ (∀ b, b ∈ sp.owned r.1 → b ∉ sp.owned r.2) ∧
      Owns h' ids0 (sp.owned t ++ sp.owned o) (sp.owned r.1 ++ sp.owned r.2) n0)

/-- merge of `o` into `t` -/
def MergeC {α} (sp : ObjSpec) (t o : Obj) (byMove : Bool) (m : M α) (res : α → Obj) : Prop :=
  ∀ n0 ids0, TripleS n0 (foot (sp.owned t ++ sp.owned o) n0)
    (fun h => sp.Usable h t ∧ sp.Usable h o ∧ (∀ b, b ∈ sp.owned t → b ∉ sp.owned o) ∧ h.ids = ids0 ∧ h.next = n0 ∧
      (∀ b, b ∈ sp.owned t → b < n0) ∧ (∀ b, b ∈ sp.owned o → b < n0) ∧ (∀ x, x ∈ ids0 → x < n0)) m
    (fun a h' => sp.Usable h' (res a) ∧ sp.Inv h' o ∧ (byMove = false → sp.Usable h' o) ∧
      (∀ b, b ∈ sp.owned (res a) → b ∉ sp.owned o) ∧
      Owns h' ids0 (sp.owned t ++ sp.owned o) (sp.owned (res a) ++ sp.owned o) n0)

/-! ### glue: one lemma per shape -/

variable {sp : ObjSpec}

theorem own0_single {w : World} (hw : WorldInv sp w) {e : Entry} (he : e ∈ w.objs) :
    ∀ b, b ∈ sp.owned e.obj ↔ ∃ e', e' ∈ w.objs ∧ e'.id ∈ [e.id] ∧ b ∈ sp.owned e'.obj := by
  intro b
  constructor
  · intro hb; exact ⟨e, he, by simp, hb⟩
  · rintro ⟨e', he', hid, hb⟩
    have : e' = e := hw.unique he' he (by simpa using hid)
    subst this; exact hb

theorem own0_fresh {w : World} {id : Nat} (hf : ∀ e, e ∈ w.objs → e.id ≠ id) :
    ∀ b, b ∈ ([] : List Nat) ↔ ∃ e', e' ∈ w.objs ∧ e'.id ∈ [id] ∧ b ∈ sp.owned e'.obj := by
  intro b
  constructor
  · intro hb; cases hb
  · rintro ⟨e', he', hid, _⟩
    exact absurd (by simpa using hid) (hf e' he')

/-- constructor of a new object with a fresh id -/
theorem glue_new {α} {w : World} (hw : WorldInv sp w) {m : M α} {res : α → Obj} (c : NewC sp m res) (id : Nat)
    (hf : ∀ e, e ∈ w.objs → e.id ≠ id) :
    StepOK (m w.heap) (fun p => WorldInv sp { heap := p.2, objs := World.put w.objs { id := id, usable := true, obj := res p.1 } }) := by
  have s := c w.heap.next w.heap.ids w.heap (Nat.le_refl _) ⟨rfl, rfl, hw.wf.2⟩
  refine StepOK.of_safeX (SafeX.mono s ?_)
  intro a h' ⟨⟨u, ow⟩, fr⟩
  rw [put_eq]
  exact hw.replace sp [id] _ h' [] (own0_fresh hf) fr (by simp) (by simp)
    (by intro e he; simp at he; subst he; exact ⟨sp.usable_inv u, fun _ => u⟩)
    (by simpa using ow) (by intro e1 e2 h1 h2 hne; simp at h1 h2; subst h1; subst h2; exact absurd rfl hne)

/-- mutator of the usable object `e` -/
theorem glue_mut {α} {w : World} (hw : WorldInv sp w) {e : Entry} (he : e ∈ w.objs) (hu : e.usable = true)
    {m : M α} {res : α → Obj} (c : MutC sp e.obj m res) :
    StepOK (m w.heap) (fun p => WorldInv sp { heap := p.2, objs := World.put w.objs { e with obj := res p.1 } }) := by
  have s := c w.heap.next w.heap.ids w.heap (Nat.le_refl _) ⟨(hw.inv e he).2 hu, rfl, rfl, hw.wf.2⟩
  refine StepOK.of_safeX (SafeX.mono s ?_)
  intro a h' ⟨⟨u, ow⟩, fr⟩
  rw [put_eq]
  exact hw.replace sp [e.id] _ h' (sp.owned e.obj) (own0_single hw he) fr (by simp) (by simp)
    (by intro e' he'; simp at he'; subst he'; exact ⟨sp.usable_inv u, fun _ => u⟩)
    (by simpa using ow) (by intro e1 e2 h1 h2 hne; simp at h1 h2; subst h1; subst h2; exact absurd rfl hne)

/-- every existing block is below `next` -/
theorem WorldInv.ids_lt {w : World} (hw : WorldInv sp w) : ∀ x, x ∈ w.heap.ids → x < w.heap.next := hw.wf.2

theorem WorldInv.owned_lt {w : World} (hw : WorldInv sp w) {e : Entry} (he : e ∈ w.objs) :
    ∀ b, b ∈ sp.owned e.obj → b < w.heap.next := fun b hb => (sp.owned_ids (hw.inv e he).1 b hb).2

/-- reader: the world is unchanged up to temporary blocks that are gone again -/
theorem glue_read {α} {w : World} (hw : WorldInv sp w) {e : Entry} (he : e ∈ w.objs) (hu : e.usable = true)
    {m : M α} (c : ReadC sp e.obj m) :
    StepOK (m w.heap) (fun p => WorldInv sp { heap := p.2, objs := w.objs }) := by
  have s := c w.heap.next w.heap.ids w.heap (Nat.le_refl _) ⟨(hw.inv e he).2 hu, rfl, rfl, hw.ids_lt, hw.owned_lt he⟩
  refine StepOK.of_safeX (SafeX.mono s ?_)
  intro a h' ⟨hids, fr⟩
  have := hw.replace sp [] [] h' [] (by intro b; simp) fr (by simp) (by simp) (by simp)
    ⟨fun b => by simp [hids b], fun b hb => by simp at hb⟩ (by simp)
  have e : List.filter (fun _ : Entry => true) w.objs = w.objs := by
    rw [List.filter_eq_self]; intro a _; rfl
  simpa [e] using this

/-- a new object (fresh id) made from the usable object `e`, which is only read -/
theorem glue_from {α} {w : World} (hw : WorldInv sp w) {e : Entry} (he : e ∈ w.objs) (hu : e.usable = true)
    {m : M α} {res : α → Obj} (c : FromC sp e.obj m res) (id : Nat) (hf : ∀ e, e ∈ w.objs → e.id ≠ id) :
    StepOK (m w.heap) (fun p => WorldInv sp { heap := p.2, objs := World.put w.objs { id := id, usable := true, obj := res p.1 } }) := by
  have s := c w.heap.next w.heap.ids w.heap (Nat.le_refl _) ⟨(hw.inv e he).2 hu, rfl, rfl, hw.ids_lt, hw.owned_lt he⟩
  refine StepOK.of_safeX (SafeX.mono s ?_)
  intro a h' ⟨⟨u, ow⟩, fr⟩
  rw [put_eq]
  exact hw.replace sp [id] _ h' [] (own0_fresh hf) fr (by simp) (by simp)
    (by intro e' he'; simp at he'; subst he'; exact ⟨sp.usable_inv u, fun _ => u⟩)
    (by simpa using ow) (by intro e1 e2 h1 h2 hne; simp at h1 h2; subst h1; subst h2; exact absurd rfl hne)

/-- destructor of the object `e` -/
theorem glue_dtor {w : World} (hw : WorldInv sp w) {e : Entry} (he : e ∈ w.objs) {m : M Unit} (c : DtorC sp e.obj m) :
    StepOK (m w.heap) (fun p => WorldInv sp { heap := p.2, objs := w.remove e.id }) := by
  have s := c w.heap.next w.heap.ids w.heap (Nat.le_refl _) ⟨(hw.inv e he).1, rfl, rfl, hw.wf.2⟩
  refine StepOK.of_safeX (SafeX.mono s ?_)
  intro a h' ⟨ow, fr⟩
  rw [remove_eq]
  exact hw.replace sp [e.id] [] h' (sp.owned e.obj) (own0_single hw he) fr (by simp) (by simp) (by simp)
    (by simpa using ow) (by simp)


theorem own0_pair {w : World} (hw : WorldInv sp w) {e1 e2 : Entry} (h1 : e1 ∈ w.objs) (h2 : e2 ∈ w.objs) :
    ∀ b, b ∈ sp.owned e1.obj ++ sp.owned e2.obj ↔ ∃ e', e' ∈ w.objs ∧ e'.id ∈ [e1.id, e2.id] ∧ b ∈ sp.owned e'.obj := by
  intro b
  simp only [List.mem_append, List.mem_cons, List.not_mem_nil, or_false]
  constructor
  · rintro (hb | hb)
    · exact ⟨e1, h1, Or.inl rfl, hb⟩
    · exact ⟨e2, h2, Or.inr rfl, hb⟩
  · rintro ⟨e', he', hid | hid, hb⟩
    · have : e' = e1 := hw.unique he' h1 hid
      subst this; exact Or.inl hb
    · have : e' = e2 := hw.unique he' h2 hid
      subst this; exact Or.inr hb

theorem own0_fresh_and {w : World} (hw : WorldInv sp w) {e : Entry} (he : e ∈ w.objs) {id : Nat}
    (hf : ∀ e, e ∈ w.objs → e.id ≠ id) :
    ∀ b, b ∈ sp.owned e.obj ↔ ∃ e', e' ∈ w.objs ∧ e'.id ∈ [id, e.id] ∧ b ∈ sp.owned e'.obj := by
  intro b
  simp only [List.mem_cons, List.not_mem_nil, or_false]
  constructor
  · intro hb; exact ⟨e, he, Or.inr rfl, hb⟩
  · rintro ⟨e', he', hid | hid, hb⟩
    · exact absurd hid (hf e' he')
    · have : e' = e := hw.unique he' he hid
      subst this; exact hb

/-- move constructor: `dst` (fresh id) is move-constructed from the usable object `e` -/
theorem glue_move {w : World} (hw : WorldInv sp w) {e : Entry} (he : e ∈ w.objs) (hu : e.usable = true)
    {m : M (Obj × Obj)} (c : MoveC sp e.obj m) (dst : Nat) (hf : ∀ e, e ∈ w.objs → e.id ≠ dst) :
    StepOK (m w.heap) (fun p => WorldInv sp ⟨p.2,
      World.put (World.put w.objs { e with usable := false, obj := p.1.2 }) { id := dst, usable := true, obj := p.1.1 }⟩) := by
  have s := c w.heap.next w.heap.ids w.heap (Nat.le_refl _) ⟨(hw.inv e he).2 hu, rfl, rfl, hw.wf.2⟩
  refine StepOK.of_safeX (SafeX.mono s ?_)
  intro r h' ⟨⟨u, i, dj, ow⟩, fr⟩
  have hne : dst ≠ e.id := fun x => hf e he x.symm
  rw [put_put_eq _ _ _ (by simpa using hne)]
  refine hw.replace sp [dst, e.id] _ h' (sp.owned e.obj) (own0_fresh_and hw he hf) fr ?_ ?_ ?_ (by simpa using ow) ?_
  · intro e' he'; simp at he'; rcases he' with rfl | rfl <;> simp
  · simp; exact hne
  · intro e' he'
    simp at he'
    rcases he' with rfl | rfl
    · exact ⟨sp.usable_inv u, fun _ => u⟩
    · exact ⟨i, fun x => by simp at x⟩
  · intro e1 e2 h1 h2 hne' b hb
    simp at h1 h2
    rcases h1 with rfl | rfl <;> rcases h2 with rfl | rfl
    · exact absurd rfl hne'
    · exact dj b hb
    · intro hb2; exact dj b hb2 hb
    · exact absurd rfl hne'

/-- copy assignment `d = s` -/
theorem glue_cassign {w : World} (hw : WorldInv sp w) {d s : Entry} (hd : d ∈ w.objs) (hs : s ∈ w.objs) (hu : s.usable = true)
    {m : M Obj} (c : CAssignC sp d.obj s.obj m) :
    StepOK (m w.heap) (fun p => WorldInv sp { heap := p.2, objs := World.put w.objs { d with usable := true, obj := p.1 } }) := by
  have hrel : d.obj = s.obj ∨ ∀ b, b ∈ sp.owned d.obj → b ∉ sp.owned s.obj := by
    by_cases hid : d.id = s.id
    · left; rw [hw.unique hd hs hid]
    · right; exact hw.disj d s hd hs hid
  have s' := c w.heap.next w.heap.ids w.heap (Nat.le_refl _)
    ⟨(hw.inv d hd).1, (hw.inv s hs).2 hu, hrel, rfl, rfl, hw.owned_lt hd, hw.owned_lt hs, hw.wf.2⟩
  refine StepOK.of_safeX (SafeX.mono s' ?_)
  intro a h' ⟨⟨u, ow⟩, fr⟩
  rw [put_eq]
  exact hw.replace sp [d.id] _ h' (sp.owned d.obj) (own0_single hw hd) fr (by simp) (by simp)
    (by intro e' he'; simp at he'; subst he'; exact ⟨sp.usable_inv u, fun _ => u⟩)
    (by simpa using ow) (by intro e1 e2 h1 h2 hne; simp at h1 h2; subst h1; subst h2; exact absurd rfl hne)

/-- move assignment `d = std::move(s)` between two different objects -/
theorem glue_massign {w : World} (hw : WorldInv sp w) {d s : Entry} (hd : d ∈ w.objs) (hs : s ∈ w.objs) (hu : s.usable = true)
    (hne : d.id ≠ s.id) {m : M (Obj × Obj)} (c : MAssignC sp d.obj s.obj m) :
    StepOK (m w.heap) (fun p => WorldInv sp ⟨p.2,
      World.put (World.put w.objs { s with usable := false, obj := p.1.2 }) { d with usable := true, obj := p.1.1 }⟩) := by
  have s' := c w.heap.next w.heap.ids w.heap (Nat.le_refl _)
    ⟨(hw.inv d hd).1, (hw.inv s hs).2 hu, hw.disj d s hd hs hne, rfl, rfl, hw.wf.2⟩
  refine StepOK.of_safeX (SafeX.mono s' ?_)
  intro r h' ⟨⟨u, i, dj, ow⟩, fr⟩
  rw [put_put_eq _ _ _ (by simpa using hne)]
  refine hw.replace sp [d.id, s.id] _ h' (sp.owned d.obj ++ sp.owned s.obj) (own0_pair hw hd hs) fr ?_ ?_ ?_ (by simpa using ow) ?_
  · intro e' he'; simp at he'; rcases he' with rfl | rfl <;> simp
  · simp; exact hne
  · intro e' he'
    simp at he'
    rcases he' with rfl | rfl
    · exact ⟨sp.usable_inv u, fun _ => u⟩
    · exact ⟨i, fun x => by simp at x⟩
  · intro e1 e2 h1 h2 hne' b hb
    simp at h1 h2
    rcases h1 with rfl | rfl <;> rcases h2 with rfl | rfl
    · exact absurd rfl hne'
    · exact dj b hb
    · intro hb2; exact dj b hb2 hb
    · exact absurd rfl hne'

/-- merge of the usable object `s` into the usable object `d` -/
theorem glue_merge {α} {w : World} (hw : WorldInv sp w) {d s : Entry} (hd : d ∈ w.objs) (hs : s ∈ w.objs)
    (hud : d.usable = true) (hus : s.usable = true) (hne : d.id ≠ s.id) (byMove : Bool)
    {m : M α} {res : α → Obj} (c : MergeC sp d.obj s.obj byMove m res) :
    StepOK (m w.heap) (fun p => WorldInv sp ⟨p.2,
      World.put (World.put w.objs { s with usable := !byMove }) { d with obj := res p.1 }⟩) := by
  have s' := c w.heap.next w.heap.ids w.heap (Nat.le_refl _)
    ⟨(hw.inv d hd).2 hud, (hw.inv s hs).2 hus, hw.disj d s hd hs hne, rfl, rfl, hw.owned_lt hd, hw.owned_lt hs, hw.wf.2⟩
  refine StepOK.of_safeX (SafeX.mono s' ?_)
  intro a h' ⟨⟨u, i, ub, dj, ow⟩, fr⟩
  rw [put_put_eq _ _ _ (by simpa using hne)]
  refine hw.replace sp [d.id, s.id] _ h' (sp.owned d.obj ++ sp.owned s.obj) (own0_pair hw hd hs) fr ?_ ?_ ?_ (by simpa using ow) ?_
  · intro e' he'; simp at he'; rcases he' with rfl | rfl <;> simp
  · simp; exact hne
  · intro e' he'
    simp at he'
    rcases he' with rfl | rfl
    · exact ⟨sp.usable_inv u, fun _ => u⟩
    · exact ⟨i, fun x => ub (by simpa using x)⟩
  · intro e1 e2 h1 h2 hne' b hb
    simp at h1 h2
    rcases h1 with rfl | rfl <;> rcases h2 with rfl | rfl
    · exact absurd rfl hne'
    · exact dj b hb
    · intro hb2; exact dj b hb2 hb
    · exact absurd rfl hne'

end DS.Life

/-
From the kernel-evaluated obligation `bitpack_layouts_ok` (over the routines translated on this run) to statements
about the CONCRETE evaluation of every translated routine on all inputs (helper lemmas).
-/
import DSProofs.Gen.BitPack
import DSProofs.Lemmas.BitPackSoundUnpack
namespace DS.Wire.BitPack
open DSGen.BitPackIR

theorem mem_deviations_pack (packR : List (Nat × List PStmt)) (unpackR : List (Nat × List UStmt)) (n : Nat) (h1 : 1 ≤ n) (h63 : n ≤ 63)
    (hs : packStatus packR n ≠ 0) : (true, n, packStatus packR n) ∈ deviations packR unpackR := by
  unfold deviations
  apply List.mem_append_left
  rw [List.mem_filterMap]
  refine ⟨n - 1, by simp; omega, ?_⟩
  have e : n - 1 + 1 = n := by omega
  simp only [e, hs, ↓reduceIte]

theorem mem_deviations_unpack (packR : List (Nat × List PStmt)) (unpackR : List (Nat × List UStmt)) (n : Nat) (h1 : 1 ≤ n) (h63 : n ≤ 63)
    (hs : unpackStatus unpackR n ≠ 0) : (false, n, unpackStatus unpackR n) ∈ deviations packR unpackR := by
  unfold deviations
  apply List.mem_append_right
  rw [List.mem_filterMap]
  refine ⟨n - 1, by simp; omega, ?_⟩
  have e : n - 1 + 1 = n := by omega
  simp only [e, hs, ↓reduceIte]

/-- what `bitpack_layouts_ok` says about one width -/
theorem status_of_layouts_ok (n : Nat) (h1 : 1 ≤ n) (h63 : n ≤ 63) :
    (packStatus packRoutines n = 0 ∨ (n = 19 ∧ packStatus packRoutines n = 1)) ∧ unpackStatus unpackRoutines n = 0 := by
  have hd := bitpack_layouts_ok.1
  unfold currentDeviations at hd
  constructor
  · by_cases hs : packStatus packRoutines n = 0
    · exact Or.inl hs
    · have hm := mem_deviations_pack packRoutines unpackRoutines n h1 h63 hs
      rcases hd with hd | hd
      · rw [hd] at hm; simp at hm
      · rw [hd] at hm
        simp only [List.mem_singleton, Prod.mk.injEq, true_and] at hm
        exact Or.inr ⟨hm.1, hm.2⟩
  · by_cases hs : unpackStatus unpackRoutines n = 0
    · exact hs
    · have hm := mem_deviations_unpack packRoutines unpackRoutines n h1 h63 hs
      rcases hd with hd | hd
      · rw [hd] at hm; simp at hm
      · rw [hd] at hm
        simp at hm

theorem packStatus_zero (packR : List (Nat × List PStmt)) (n : Nat) (h : packStatus packR n = 0) :
    ∃ st, lookupNat n packR = some st ∧ symPack n st = some (specPackLayout n) := by
  unfold packStatus at h
  cases hl : lookupNat n packR with
  | none => simp [hl] at h
  | some st =>
    simp only [hl] at h
    refine ⟨st, rfl, ?_⟩
    by_cases hz : (symPack n st == some (specPackLayout n)) = true
    · exact eq_of_beq hz
    · simp only [hz, Bool.false_eq_true, ↓reduceIte] at h
      split at h <;> simp at h

theorem packStatus_one (packR : List (Nat × List PStmt)) (n : Nat) (h : packStatus packR n = 1) :
    ∃ st, lookupNat n packR = some st ∧ symPackInit .zero n st = some (specPackLayout n) := by
  unfold packStatus at h
  cases hl : lookupNat n packR with
  | none => simp [hl] at h
  | some st =>
    simp only [hl] at h
    refine ⟨st, rfl, ?_⟩
    by_cases hz : (symPack n st == some (specPackLayout n)) = true
    · simp [hz] at h
    · simp only [hz, Bool.false_eq_true, ↓reduceIte] at h
      by_cases hz1 : (symPackInit .zero n st == some (specPackLayout n)) = true
      · exact eq_of_beq hz1
      · simp [hz1] at h

theorem unpackStatus_zero (unpackR : List (Nat × List UStmt)) (n : Nat) (h : unpackStatus unpackR n = 0) :
    ∃ st, lookupNat n unpackR = some st ∧ symUnpack n st = some (specUnpackLayout n) := by
  unfold unpackStatus at h
  cases hl : lookupNat n unpackR with
  | none => simp [hl] at h
  | some st =>
    simp only [hl] at h
    refine ⟨st, rfl, ?_⟩
    by_cases hz : (symUnpack n st == some (specUnpackLayout n)) = true
    · exact eq_of_beq hz
    · simp [hz] at h

/-- every translated `pack_bits_n` (n = 1..63), run with C semantics on a zero-filled n-byte block, writes the documented
bytes for all 8 values below 2^n -/
theorem pack_eval_zero_filled (n : Nat) (h1 : 1 ≤ n) (h63 : n ≤ 63) (vals : List Nat) (hlen : vals.length = 8) (hv : ∀ v ∈ vals, v < 2 ^ n)
    (mem0 : List Nat) (hm : mem0.length = n) (hz : ∀ x ∈ mem0, x = 0) :
    ∃ pk, lookupNat n packRoutines = some pk ∧ evalPack pk vals mem0 = some (splitFields 8 n (joinFields n vals)) := by
  have hb : ∀ x ∈ mem0, x < 256 := fun x hx => by rw [hz x hx]; decide
  rcases (status_of_layouts_ok n h1 h63).1 with h0 | ⟨_, hs1⟩
  · obtain ⟨pk, hl, hsym⟩ := packStatus_zero packRoutines n h0
    exact ⟨pk, hl, pack_sound n pk .bad hsym vals hlen hv mem0 hm hb (Or.inl rfl)⟩
  · obtain ⟨pk, hl, hsym⟩ := packStatus_one packRoutines n hs1
    exact ⟨pk, hl, pack_sound n pk .zero hsym vals hlen hv mem0 hm hb (Or.inr ⟨rfl, hz⟩)⟩

/-- ... and on ANY previous content of the block, for every width whose routine has no recorded deviation -/
theorem pack_eval_any_block (n : Nat) (h0 : packStatus packRoutines n = 0) (vals : List Nat) (hlen : vals.length = 8) (hv : ∀ v ∈ vals, v < 2 ^ n)
    (mem0 : List Nat) (hm : mem0.length = n) (hb : ∀ x ∈ mem0, x < 256) :
    ∃ pk, lookupNat n packRoutines = some pk ∧ evalPack pk vals mem0 = some (splitFields 8 n (joinFields n vals)) := by
  obtain ⟨pk, hl, hsym⟩ := packStatus_zero packRoutines n h0
  exact ⟨pk, hl, pack_sound n pk .bad hsym vals hlen hv mem0 hm hb (Or.inl rfl)⟩

/-- every translated `unpack_bits_n` (n = 1..63) computes the 8 fields of any n-byte block -/
theorem unpack_eval (n : Nat) (h1 : 1 ≤ n) (h63 : n ≤ 63) (mem : List Nat) (hm : mem.length = n) (hb : ∀ x ∈ mem, x < 256)
    (vals0 : List Nat) (h0 : vals0.length = 8) (hv0 : ∀ v ∈ vals0, v < 2 ^ 64) :
    ∃ up, lookupNat n unpackRoutines = some up ∧ evalUnpack up mem vals0 = some (splitFields n 8 (joinFields 8 mem)) := by
  obtain ⟨up, hl, hsym⟩ := unpackStatus_zero unpackRoutines n (status_of_layouts_ok n h1 h63).2
  exact ⟨up, hl, unpack_sound n (by omega) up hsym mem hm hb vals0 h0 hv0⟩

/-- the dispatchers: `pack_bits_block8(values, ptr, n)` / `unpack_bits_block8` call routine n -/
theorem dispatch_eval (n : Nat) (h1 : 1 ≤ n) (h63 : n ≤ 63) : lookupNat n packDispatch = some n ∧ lookupNat n unpackDispatch = some n := by
  have hd := bitpack_layouts_ok.2
  simp only [dispatchOk, Bool.and_eq_true, List.all_eq_true, List.mem_range, beq_iff_eq] at hd
  have := hd.1.1 (n - 1) (by omega)
  have e : n - 1 + 1 = n := by omega
  rw [e] at this
  exact this

end DS.Wire.BitPack

/- Repaired model: the `write` ghost step in its four scenarios, and what a disciplined writer knows about its block. -/
import DSProofs.Lemmas.BloomFixed7
namespace DS.Bloom

variable {ι : Type} (P : Params) (hf : ι → Nat → Option (Nat × Nat))

theorem write_own (p : PGhost ι) (w : World) (v : Nat) (f : Filter) (i : VInfo ι) (b : Nat) (hr : f.ref = .owned b) :
    p.write w v f i = (p, i.promised) := by
  simp [PGhost.write, keyOf, hr]

theorem write_tainted (p : PGhost ι) (w : World) (v : Nat) (f : Filter) (i : VInfo ι) (m : Nat) (hr : f.ref = .mem m)
    (ht : (p.si (.mem m)).tainted = true) : p.write w v f i = (p, false) := by
  simp [PGhost.write, keyOf, hr, ht]

theorem write_stale (p : PGhost ι) (w : World) (v : Nat) (f : Filter) (i : VInfo ι) (m : Nat) (hr : f.ref = .mem m)
    (ht : (p.si (.mem m)).tainted = false) (hs : (i.sync != (p.si (.mem m)).ver || f.readOnly) = true) :
    p.write w v f i = (p.taint w (.mem m), false) := by
  simp only [PGhost.write, keyOf, hr, ht, Bool.false_eq_true, if_false, hs, if_true]

theorem write_ok (p : PGhost ι) (w : World) (v : Nat) (f : Filter) (i : VInfo ι) (m : Nat) (hr : f.ref = .mem m)
    (ht : (p.si (.mem m)).tainted = false) (hs : (i.sync != (p.si (.mem m)).ver || f.readOnly) = false) :
    p.write w v f i = ((p.setS (.mem m) { p.si (.mem m) with ver := (p.si (.mem m)).ver + 1 }).setV v
        { i with sync := (p.si (.mem m)).ver + 1 }, i.promised) := by
  simp only [PGhost.write, keyOf, hr, ht, Bool.false_eq_true, if_false, hs]

theorem taint_si_same (p : PGhost ι) (w : World) (k : Key) : (p.taint w k).si k = ⟨[], (p.si k).ver, true⟩ := by
  simp [PGhost.taint]

theorem taint_si_ne (p : PGhost ι) (w : World) {k k' : Key} (h : k' ≠ k) : (p.taint w k).si k' = p.si k' := by
  simp [PGhost.taint, setS_si_ne _ _ h]

theorem taint_vi_same (p : PGhost ι) (w : World) (k : Key) (u : Nat) (fu : Filter) (iu : VInfo ι)
    (hfu : w.filters u = some fu) (hiu : p.vi u = some iu) (hk : keyOf u fu = k) :
    (p.taint w k).vi u = some { iu with M := [] } := by
  unfold PGhost.taint
  rw [mapViewsOf_vi _ _ _ _ u fu iu hfu (by simpa using hiu)]
  simp [hk]

theorem taint_vi_ne (p : PGhost ι) (w : World) (k : Key) (u : Nat) (fu : Filter)
    (hfu : w.filters u = some fu) (hk : keyOf u fu ≠ k) : (p.taint w k).vi u = p.vi u := by
  unfold PGhost.taint
  cases hiu : p.vi u with
  | none => simp [PGhost.mapViewsOf, hiu]
  | some iu =>
    rw [mapViewsOf_vi _ _ _ _ u fu iu hfu (by simpa using hiu)]
    simp [hk]

/-- what a promised in-sync view knows about the block it is about to write -/
theorem block_of_writer (w : World) (p : PGhost ι) (hg : Good P hf w p) (v : Nat) (f : Filter) (i : VInfo ι) (m : Nat)
    (hv : w.filters v = some f) (hi : p.vi v = some i) (hr : f.ref = .mem m) (hp : i.promised = true)
    (hts : (p.si (.mem m)).tainted = false) (hsync : i.sync = (p.si (.mem m)).ver) :
    Covers hf (w.blockVal m) 256 f.cfg (p.si (.mem m)).S ∧ Hashed hf f.seed (p.si (.mem m)).S ∧
    (getField (w.blockVal m) 192 64 = P.dirty ∨ getField (w.blockVal m) 192 64 = popCount (w.blockVal m) 256 f.capBits) := by
  have hm : isMem f = true := by simp [isMem, hr]
  obtain ⟨b, hb⟩ := hg.memref v f m hv hr
  have hbv : w.blockVal m = b.val := by simp [World.blockVal, hb]
  have hin0 : insync (p.si (.mem m)) f i = true := (insync_mem_iff hm).mpr ⟨hts, hsync⟩
  obtain ⟨nbs0, nl, hparse⟩ := hg.memfull v f i m b hv hi hr hb hp hin0
  have hnbs := (parseImage_full hparse).2.2.2.2.2.2.1
  rcases hg.blk m b hb hts with ⟨nb, nh, seed, he, _⟩ | ⟨cap, nh, seed, nbs, nl', hfull, _, hcnt, hcov, hhs⟩
  · rw [hparse] at he; cases he
  · rw [hparse] at hfull
    injection hfull with h1 h2 h3 h4 h5
    subst h1 h2 h3 h4 h5
    rw [hbv, ← hnbs]
    exact ⟨hcov, hhs, hcnt⟩

end DS.Bloom

/- C19 / FI: generic helper lemmas on top of LifeHeap / LifeInv / LifeCount (monad laws, footprint weakening,
   locality of the views, derived primitives, counting). -/
import DSProofs.Lemmas.LifeInv
namespace DS.Life.Fi
open DS.Life

/-! ### monad laws of `M` (pointwise) -/

theorem bind_assoc_M {α β γ} (m : M α) (f : α → M β) (g : β → M γ) :
    ((m >>= f) >>= g) = (m >>= fun a => f a >>= g) := by
  funext h
  simp only [bind_eq]
  cases m h with
  | error e => rfl
  | ok r => rfl

theorem pure_bind_M {α β} (a : α) (f : α → M β) : ((pure a : M α) >>= f) = f a := by
  funext h
  rfl

theorem bind_pure_M {α} (m : M α) : (m >>= fun a => (pure a : M α)) = m := by
  funext h
  simp only [bind_eq]
  cases m h with
  | error e => rfl
  | ok r => rfl

/-! ### footprints can be enlarged -/

theorem Out_mono {S S' : Nat → Bool} (hsub : ∀ b, S b = true → S' b = true) {h h' : Heap}
    (ho : Out S h' = Out S h) : Out S' h' = Out S' h := by
  have key : ∀ l : List Block, l.filter (fun B => !S' B.id) = (l.filter (fun B => !S B.id)).filter (fun B => !S' B.id) := by
    intro l
    rw [List.filter_filter]
    apply List.filter_congr
    intro B _
    cases hs' : S' B.id with
    | true => simp
    | false =>
      cases hs : S B.id with
      | true => rw [hsub _ hs] at hs'; cases hs'
      | false => simp
  unfold Out at *
  rw [key h'.blocks, key h.blocks, ho]

theorem Frame.mono {S S' : Nat → Bool} (hsub : ∀ b, S b = true → S' b = true) {h h' : Heap}
    (fr : Frame S h h') : Frame S' h h' := ⟨Out_mono hsub fr.1, fr.2.1, fr.2.2⟩

theorem Frame.find? {S : Nat → Bool} {h h' : Heap} (fr : Frame S h h') {b : Nat} (hb : S b = false) :
    h'.find? b = h.find? b := find?_of_Out S h h' fr.1 b hb

theorem SafeF.weaken {α} {S S' : Nat → Bool} (hsub : ∀ b, S b = true → S' b = true) {h : Heap}
    {r : Except Err (α × Heap)} {Q : α → Heap → Prop} (s : SafeF S h r Q) : SafeF S' h r Q :=
  SafeX.mono s (fun _ _ ⟨q, f⟩ => ⟨q, Frame.mono hsub f⟩)

theorem TripleS.weaken {α} {n0 : Nat} {S S' : Nat → Bool} (hsub : ∀ b, S b = true → S' b = true)
    {P : Heap → Prop} {m : M α} {Q : α → Heap → Prop} (t : TripleS n0 S P m Q) : TripleS n0 S' P m Q :=
  fun h hn hp => SafeF.weaken hsub (t h hn hp)

/-- the frame of the run is part of the postcondition -/
theorem SafeF.withFrame {α} {S : Nat → Bool} {h : Heap} {r : Except Err (α × Heap)} {Q : α → Heap → Prop}
    (s : SafeF S h r Q) : SafeF S h r (fun a h' => Q a h' ∧ Frame S h h') :=
  SafeX.mono s (fun _ _ ⟨q, f⟩ => ⟨⟨q, f⟩, f⟩)

/-- call a sub-program whose triple was proved for a smaller footprint and a later allocation mark; the continuation
    gets the sub-program's own frame -/
theorem SafeF.bind_sub {α β} {n1 : Nat} {S0 S : Nat → Bool} {P : Heap → Prop} {m : M α} {Q1 : α → Heap → Prop} {h : Heap}
    {f : α → M β} {Q : β → Heap → Prop} (t : TripleS n1 S0 P m Q1) (hsub : ∀ b, S0 b = true → S b = true)
    (hn : n1 ≤ h.next) (hp : P h)
    (k : ∀ a h1, Q1 a h1 → Frame S0 h h1 → SafeF S h1 (f a h1) Q) : SafeF S h ((m >>= f) h) Q := by
  have h1 := t h hn hp
  rw [bind_eq]
  cases hm : m h with
  | error e =>
    rw [hm] at h1
    cases e <;> simp_all [SafeX, SafeF]
  | ok r =>
    obtain ⟨a, h'⟩ := r
    rw [hm] at h1
    obtain ⟨hq, hfr⟩ := h1
    exact (k a h' hq hfr).rebase (Frame.mono hsub hfr)

/-- the same for a sub-program that is the last statement -/
theorem SafeF.sub {α} {n1 : Nat} {S0 S : Nat → Bool} {P : Heap → Prop} {m : M α} {Q1 Q : α → Heap → Prop} {h : Heap}
    (t : TripleS n1 S0 P m Q1) (hsub : ∀ b, S0 b = true → S b = true)
    (hn : n1 ≤ h.next) (hp : P h) (k : ∀ a h1, Q1 a h1 → Frame S0 h h1 → Q a h1) : SafeF S h (m h) Q := by
  have h1 := t h hn hp
  exact SafeF.weaken hsub (SafeX.mono h1 (fun a h' ⟨q, f⟩ => ⟨k a h' q f, f⟩))

theorem SafeF.bind_exc {α β} {S} {h : Heap} (msg : String) {f : α → M β} {Q : β → Heap → Prop} :
    SafeF S h (((throwExc msg : M α) >>= f) h) Q := by
  simp [SafeF, bind_eq, throwExc, fail, SafeX]

/-! ### locality: the views of a block depend only on `find?` -/

theorem cell?_congr {h h' : Heap} {b : Nat} (e : h'.find? b = h.find? b) (i : Nat) : h'.cell? b i = h.cell? b i := by
  simp only [cell?_def, e]

theorem count?_congr {h h' : Heap} {b : Nat} (e : h'.find? b = h.find? b) : h'.count? b = h.count? b := by
  simp only [Heap.count?, e]

theorem wordAt_congr {h h' : Heap} {b : Nat} (e : h'.find? b = h.find? b) (i : Nat) : wordAt h' b i = wordAt h b i := by
  simp only [wordAt, cell?_congr e]

theorem stAt_congr {h h' : Heap} {b : Nat} (e : h'.find? b = h.find? b) (i : Nat) : stAt h' b i = stAt h b i := by
  simp only [stAt, cell?_congr e]

theorem HasCells_congr {h h' : Heap} {b n : Nat} (e : h'.find? b = h.find? b) (hc : HasCells h b n) : HasCells h' b n := by
  simpa only [HasCells, count?_congr e] using hc

theorem mem_ids_of_find? {h : Heap} {b : Nat} {B : Block} (e : h.find? b = some B) : b ∈ h.ids := by
  unfold Heap.find? at e
  have hm := List.mem_of_find?_eq_some e
  have hp := List.find?_some e
  have : B.id = b := by simpa using hp
  unfold Heap.ids
  exact List.mem_map.mpr ⟨B, hm, this⟩

theorem HasCells.mem_ids {h : Heap} {b n : Nat} (hc : HasCells h b n) : b ∈ h.ids := by
  obtain ⟨B, e, _⟩ := find?_of_count? hc
  exact mem_ids_of_find? e

theorem find?_setCell_ne (h : Heap) {b b' : Nat} (i : Nat) (c : Cell) (hb : b' ≠ b) :
    (h.setCell b i c).find? b' = h.find? b' := by
  rw [find?_setCell, if_neg hb]

theorem find?_afterAlloc_ne (h : Heap) (k : Kind) (n : Nat) {b : Nat} (hb : b ≠ h.next) :
    (h.afterAlloc k n).find? b = h.find? b := by
  rw [find?_afterAlloc, if_neg hb]

theorem find?_afterFree_ne (h : Heap) (b : Nat) (k : Kind) (n : Nat) {b' : Nat} (hb : b' ≠ b) :
    (h.afterFree b k n).find? b' = h.find? b' := by
  rw [find?_afterFree, if_neg hb]

/-! ### views at / away from an updated cell -/

theorem wordAt_setCell_eq {h : Heap} {b i : Nat} {c0 : Cell} (c : Cell) (hc : h.cell? b i = some c0) :
    wordAt (h.setCell b i c) b i = c.word := by
  rw [wordAt_setCell]; simp [hc]

theorem stAt_setCell_eq {h : Heap} {b i : Nat} {c0 : Cell} (c : Cell) (hc : h.cell? b i = some c0) :
    stAt (h.setCell b i c) b i = c.st := by
  rw [stAt_setCell]; simp [hc]

theorem wordAt_setCell_ne (h : Heap) (b i : Nat) (c : Cell) {b' j : Nat} (hne : ¬ (b' = b ∧ j = i)) :
    wordAt (h.setCell b i c) b' j = wordAt h b' j := by
  rw [wordAt_setCell, if_neg (fun x => hne ⟨x.1, x.2.1⟩)]

theorem stAt_setCell_ne (h : Heap) (b i : Nat) (c : Cell) {b' j : Nat} (hne : ¬ (b' = b ∧ j = i)) :
    stAt (h.setCell b i c) b' j = stAt h b' j := by
  rw [stAt_setCell, if_neg (fun x => hne ⟨x.1, x.2.1⟩)]

/-- changing only the word keeps the state -/
theorem stAt_setCell_word {h : Heap} {b i : Nat} {c : Cell} (w : Nat) (hc : h.cell? b i = some c) (b' j : Nat) :
    stAt (h.setCell b i { c with word := w }) b' j = stAt h b' j := by
  rw [stAt_setCell]
  split
  · rename_i hx
    obtain ⟨rfl, rfl, _⟩ := hx
    exact (stAt_of hc).symm
  · rfl

/-- changing only the state keeps the word -/
theorem wordAt_setCell_st {h : Heap} {b i : Nat} {c : Cell} (s : Slot) (hc : h.cell? b i = some c) (b' j : Nat) :
    wordAt (h.setCell b i { c with st := s }) b' j = wordAt h b' j := by
  rw [wordAt_setCell]
  split
  · rename_i hx
    obtain ⟨rfl, rfl, _⟩ := hx
    exact (wordAt_of hc).symm
  · rfl

theorem cell?_setCell_ne (h : Heap) (b i : Nat) (c : Cell) {b' j : Nat} (hne : ¬ (b' = b ∧ j = i)) :
    (h.setCell b i c).cell? b' j = h.cell? b' j := by
  rw [cell?_setCell, if_neg (fun x => hne ⟨x.1, x.2.1⟩)]

theorem cell?_setCell_eq {h : Heap} {b i : Nat} {c0 : Cell} (c : Cell) (hc : h.cell? b i = some c0) :
    (h.setCell b i c).cell? b i = some c := by
  rw [cell?_setCell]; simp [hc]

/-- a cell whose state is not the default exists -/
theorem cell_of_stAt_ne_raw {h : Heap} {b i : Nat} (hs : stAt h b i ≠ .raw) :
    ∃ c, h.cell? b i = some c ∧ c.st = stAt h b i ∧ c.word = wordAt h b i := by
  cases e : h.cell? b i with
  | none => simp [stAt, e] at hs
  | some c => exact ⟨c, rfl, (stAt_of e).symm, (wordAt_of e).symm⟩

/-! ### derived primitives -/

theorem copyConstruct_ok {h : Heap} {sb si db di : Nat} {c c' : Cell} {v : Nat} (hc : h.cell? sb si = some c)
    (hl : c.st = .live v) (hc' : h.cell? db di = some c') (hr : c'.st = .raw) :
    copyConstruct sb si db di h =
      .ok ((), (h.setCell db di { c' with st := .live v }).addLog (.ctor db ((h.kind? db).getD .item))) := by
  unfold copyConstruct
  rw [bind_eq, read_ok hc hl]
  exact construct_ok v hc' hr

theorem step_copyConstruct {β} {S} {h : Heap} {sb si db di : Nat} {c c' : Cell} {v : Nat} {f : Unit → M β}
    {Q : β → Heap → Prop} (hc : h.cell? sb si = some c) (hl : c.st = .live v) (hc' : h.cell? db di = some c')
    (hr : c'.st = .raw) (hS : S db = true)
    (s : ∀ e, SafeF S ((h.setCell db di { c' with st := .live v }).addLog e)
        (f () ((h.setCell db di { c' with st := .live v }).addLog e)) Q) :
    SafeF S h ((copyConstruct sb si db di >>= f) h) Q :=
  SafeF.bind_ok (copyConstruct_ok hc hl hc' hr) ((Frame_setCell S h db di _ hS).trans (Frame_addLog S _ _)) (s _)

theorem moveConstruct_ok {h : Heap} {sb si db di : Nat} {c c' : Cell} {v : Nat} (hc : h.cell? sb si = some c)
    (hl : c.st = .live v) (hc' : h.cell? db di = some c') (hr : c'.st = .raw) (hne : ¬ (db = sb ∧ di = si)) :
    moveConstruct sb si db di h =
      .ok ((), (((h.setCell sb si { c with st := .moved }).setCell db di { c' with st := .live v }).addLog
        (.ctor db ((h.kind? db).getD .item)))) := by
  unfold moveConstruct
  rw [bind_eq, moveFrom_ok hc hl]
  have e : (h.setCell sb si { c with st := .moved }).cell? db di = some c' := by
    rw [cell?_setCell_ne _ _ _ _ hne]; exact hc'
  have := construct_ok (h := h.setCell sb si { c with st := .moved }) v e hr
  simpa using this

theorem step_moveConstruct {β} {S} {h : Heap} {sb si db di : Nat} {c c' : Cell} {v : Nat} {f : Unit → M β}
    {Q : β → Heap → Prop} (hc : h.cell? sb si = some c) (hl : c.st = .live v) (hc' : h.cell? db di = some c')
    (hr : c'.st = .raw) (hne : ¬ (db = sb ∧ di = si)) (hS : S sb = true) (hS' : S db = true)
    (s : ∀ e, SafeF S (((h.setCell sb si { c with st := .moved }).setCell db di { c' with st := .live v }).addLog e)
        (f () (((h.setCell sb si { c with st := .moved }).setCell db di { c' with st := .live v }).addLog e)) Q) :
    SafeF S h ((moveConstruct sb si db di >>= f) h) Q :=
  SafeF.bind_ok (moveConstruct_ok hc hl hc' hr hne)
    (((Frame_setCell S h sb si _ hS).trans (Frame_setCell S _ db di _ hS')).trans (Frame_addLog S _ _)) (s _)

/-! ### counting -/

theorem cnt_eq_zero_imp {f : Nat → Bool} {n : Nat} (h : cnt f n = 0) : ∀ i, i < n → f i = false := by
  intro i hi
  exact cnt_eq_imp_false (m := 0) (by omega) (by simpa [cnt] using h) i (by omega) hi

/-- if all indices are true the count is `n` -/
theorem cnt_full {f : Nat → Bool} {n : Nat} (h : ∀ i, i < n → f i = true) : cnt f n = n := by
  have := cnt_all_true (f := f) (lo := 0) (hi := n) (by omega) (fun i _ hi => h i hi)
  simpa [cnt] using this

theorem cnt_succ (f : Nat → Bool) (n : Nat) : cnt f (n + 1) = cnt f n + (if f n then 1 else 0) := rfl

/-- `g` = `f` except at `k`, where both have the same truth value or `k` is out of range -/
theorem cnt_congr_except {f g : Nat → Bool} {n k : Nat} (hk : f k = g k) (h : ∀ i, i ≠ k → g i = f i) :
    cnt g n = cnt f n := by
  apply cnt_congr
  intro i _
  by_cases hi : i = k
  · subst hi; exact hk.symm
  · exact h i hi

/-! ### every block id is below `next` -/
def IdsLt (h : Heap) : Prop := ∀ b, b ∈ h.ids → b < h.next

theorem IdsLt_setCell {h : Heap} (b i : Nat) (c : Cell) (w : IdsLt h) : IdsLt (h.setCell b i c) := by
  intro x hx; simpa using w x (by simpa using hx)

theorem IdsLt_addLog {h : Heap} (e : Ev) (w : IdsLt h) : IdsLt (h.addLog e) := w

theorem IdsLt_afterAlloc {h : Heap} (k : Kind) (n : Nat) (w : IdsLt h) : IdsLt (h.afterAlloc k n) := by
  intro x hx
  simp only [ids_afterAlloc, List.mem_cons] at hx
  simp only [next_afterAlloc]
  rcases hx with rfl | hx
  · omega
  · have := w x hx; omega

theorem IdsLt_afterFree {h : Heap} (b : Nat) (k : Kind) (n : Nat) (w : IdsLt h) : IdsLt (h.afterFree b k n) := by
  intro x hx
  simp only [ids_afterFree, List.mem_filter] at hx
  simpa using w x hx.1

/-! ### sequencing after a program whose safety was shown for this very heap -/

theorem SafeF.bind_safe {α β} {S} {h : Heap} {m : M α} {Q1 : α → Heap → Prop} {f : α → M β} {Q : β → Heap → Prop}
    (s : SafeF S h (m h) Q1) (k : ∀ a h1, Q1 a h1 → Frame S h h1 → SafeF S h1 (f a h1) Q) :
    SafeF S h ((m >>= f) h) Q := by
  rw [bind_eq]
  cases hm : m h with
  | error e =>
    rw [hm] at s
    cases e <;> simp_all [SafeX, SafeF]
  | ok r =>
    obtain ⟨a, h'⟩ := r
    rw [hm] at s
    obtain ⟨hq, hfr⟩ := s
    exact (k a h' hq hfr).rebase hfr

theorem step_pure {α β} {S} {h : Heap} (a : α) {f : α → M β} {Q : β → Heap → Prop} (s : SafeF S h (f a h) Q) :
    SafeF S h (((pure a : M α) >>= f) h) Q := s

/-! ### relational single-cell updates: `h'` is `h` with cell `(b, i)` replaced by `c'` (and possibly a longer log) -/

structure Upd (h h' : Heap) (b i : Nat) (c' : Cell) : Prop where
  next : h'.next = h.next
  ids : h'.ids = h.ids
  out : ∀ b', b' ≠ b → h'.find? b' = h.find? b'
  cell : h'.cell? b i = some c'
  other : ∀ j, j ≠ i → h'.cell? b j = h.cell? b j
  count : h'.count? b = h.count? b

theorem Upd.of_setCell {h : Heap} {b i : Nat} {c : Cell} (hc : h.cell? b i = some c) (c' : Cell) :
    Upd h (h.setCell b i c') b i c' :=
  ⟨rfl, ids_setCell _ _ _ _, fun _ hb => find?_setCell_ne h i c' hb, cell?_setCell_eq c' hc,
    fun _ hj => cell?_setCell_ne _ _ _ _ (fun hh => hj hh.2), count?_setCell _ _ _ _ _⟩

theorem Upd.addLog {h h' : Heap} {b i : Nat} {c' : Cell} (u : Upd h h' b i c') (e : Ev) : Upd h (h'.addLog e) b i c' :=
  ⟨u.next, u.ids, u.out, u.cell, u.other, u.count⟩

theorem Upd.cell_ne {h h' : Heap} {b i : Nat} {c' : Cell} (u : Upd h h' b i c') {b' j : Nat} (hne : ¬ (b' = b ∧ j = i)) :
    h'.cell? b' j = h.cell? b' j := by
  by_cases hb : b' = b
  · subst hb; exact u.other j (fun e => hne ⟨rfl, e⟩)
  · exact cell?_congr (u.out b' hb) j

theorem Upd.wordAt_ne {h h' : Heap} {b i : Nat} {c' : Cell} (u : Upd h h' b i c') {b' j : Nat} (hne : ¬ (b' = b ∧ j = i)) :
    wordAt h' b' j = wordAt h b' j := by
  simp only [wordAt, u.cell_ne hne]

theorem Upd.stAt_ne {h h' : Heap} {b i : Nat} {c' : Cell} (u : Upd h h' b i c') {b' j : Nat} (hne : ¬ (b' = b ∧ j = i)) :
    stAt h' b' j = stAt h b' j := by
  simp only [stAt, u.cell_ne hne]

theorem Upd.wordAt_eq {h h' : Heap} {b i : Nat} {c' : Cell} (u : Upd h h' b i c') : wordAt h' b i = c'.word :=
  wordAt_of u.cell

theorem Upd.stAt_eq {h h' : Heap} {b i : Nat} {c' : Cell} (u : Upd h h' b i c') : stAt h' b i = c'.st :=
  stAt_of u.cell

/-- an update that keeps the word keeps all words -/
theorem Upd.wordAt_same {h h' : Heap} {b i : Nat} {c c' : Cell} (u : Upd h h' b i c') (hc : h.cell? b i = some c)
    (hw : c'.word = c.word) (b' j : Nat) : wordAt h' b' j = wordAt h b' j := by
  by_cases hne : b' = b ∧ j = i
  · obtain ⟨rfl, rfl⟩ := hne
    rw [u.wordAt_eq, wordAt_of hc, hw]
  · exact u.wordAt_ne hne

/-- an update that keeps the state keeps all states -/
theorem Upd.stAt_same {h h' : Heap} {b i : Nat} {c c' : Cell} (u : Upd h h' b i c') (hc : h.cell? b i = some c)
    (hw : c'.st = c.st) (b' j : Nat) : stAt h' b' j = stAt h b' j := by
  by_cases hne : b' = b ∧ j = i
  · obtain ⟨rfl, rfl⟩ := hne
    rw [u.stAt_eq, stAt_of hc, hw]
  · exact u.stAt_ne hne

theorem Upd.count_all {h h' : Heap} {b i : Nat} {c' : Cell} (u : Upd h h' b i c') (b' : Nat) :
    h'.count? b' = h.count? b' := by
  by_cases hb : b' = b
  · subst hb; exact u.count
  · exact count?_congr (u.out b' hb)

theorem Upd.hasCells {h h' : Heap} {b i : Nat} {c' : Cell} (u : Upd h h' b i c') {b' n : Nat} (hc : HasCells h b' n) :
    HasCells h' b' n := by
  simpa only [HasCells, u.count_all b'] using hc

theorem Upd.idsLt {h h' : Heap} {b i : Nat} {c' : Cell} (u : Upd h h' b i c') (w : IdsLt h) : IdsLt h' := by
  intro x hx; rw [u.next]; exact w x (u.ids ▸ hx)

theorem stepR_writeWord {β} {S} {h : Heap} {b i : Nat} {c : Cell} (w : Nat) {f : Unit → M β} {Q : β → Heap → Prop}
    (hc : h.cell? b i = some c) (hS : S b = true)
    (s : ∀ h', Upd h h' b i { c with word := w } → SafeF S h' (f () h') Q) :
    SafeF S h ((writeWord b i w >>= f) h) Q :=
  step_writeWord w hc hS (s _ (Upd.of_setCell hc _))

theorem stepR_construct {β} {S} {h : Heap} {b i : Nat} {c : Cell} (v : Nat) {f : Unit → M β} {Q : β → Heap → Prop}
    (hc : h.cell? b i = some c) (hr : c.st = .raw) (hS : S b = true)
    (s : ∀ h', Upd h h' b i { c with st := .live v } → SafeF S h' (f () h') Q) :
    SafeF S h ((construct b i v >>= f) h) Q :=
  step_construct v hc hr hS (fun e => s _ ((Upd.of_setCell hc _).addLog e))

theorem stepR_destroy {β} {S} {h : Heap} {b i : Nat} {c : Cell} {f : Unit → M β} {Q : β → Heap → Prop}
    (hc : h.cell? b i = some c) (hr : c.st ≠ .raw) (hS : S b = true)
    (s : ∀ h', Upd h h' b i { c with st := .raw } → SafeF S h' (f () h') Q) :
    SafeF S h ((destroy b i >>= f) h) Q :=
  step_destroy hc hr hS (fun e => s _ ((Upd.of_setCell hc _).addLog e))

theorem stepR_moveFrom {β} {S} {h : Heap} {b i : Nat} {c : Cell} {v : Nat} {f : Nat → M β} {Q : β → Heap → Prop}
    (hc : h.cell? b i = some c) (hl : c.st = .live v) (hS : S b = true)
    (s : ∀ h', Upd h h' b i { c with st := .moved } → SafeF S h' (f v h') Q) :
    SafeF S h ((moveFrom b i >>= f) h) Q :=
  step_moveFrom hc hl hS (s _ (Upd.of_setCell hc _))

theorem moveConstruct_bind {β} (sb si db di : Nat) (f : Unit → M β) :
    (moveConstruct sb si db di >>= f) = (moveFrom sb si >>= fun v => construct db di v >>= f) := by
  unfold moveConstruct; rw [bind_assoc_M]

theorem copyConstruct_bind {β} (sb si db di : Nat) (f : Unit → M β) :
    (copyConstruct sb si db di >>= f) = (read sb si >>= fun v => construct db di v >>= f) := by
  unfold copyConstruct; rw [bind_assoc_M]

end DS.Life.Fi

/- The H-region heap operations of the VarOpt model: every operation permutes the entries, and they keep the
   binary min-heap invariant on weights (so `peek_min` really is the minimum).  Rat instance. -/
import DSModel.VarOpt.Heap
import DSProofs.Lemmas.VarOptNum
namespace DS.VarOpt
open DS

abbrev E := Entry Rat

-- ------------------------------------------------------------------ swap

theorem swap_length (l : List E) (i j : Nat) : (swap l i j).length = l.length := by
  unfold swap; split <;> simp

theorem swap_perm (l : List E) (i j : Nat) : (swap l i j).Perm l := by
  unfold swap
  split
  · rename_i a b ha hb
    have hi : i < l.length := (List.getElem?_eq_some_iff.mp ha).1
    have hj : j < l.length := (List.getElem?_eq_some_iff.mp hb).1
    have ea : a = l[i] := ((List.getElem?_eq_some_iff.mp ha).2).symm
    have eb : b = l[j] := ((List.getElem?_eq_some_iff.mp hb).2).symm
    subst ea eb
    exact List.set_set_perm hi hj
  · exact List.Perm.refl _

theorem wtAt_of_lt {l : List E} {i : Nat} (h : i < l.length) : wtAt l i = l[i].wt := by
  simp [wtAt, List.getElem?_eq_getElem h]

theorem wtAt_swap {l : List E} {i j : Nat} (hi : i < l.length) (hj : j < l.length) (x : Nat) :
    wtAt (swap l i j) x = if x = j then wtAt l i else if x = i then wtAt l j else wtAt l x := by
  unfold swap
  rw [List.getElem?_eq_getElem hi, List.getElem?_eq_getElem hj]
  simp only [wtAt]
  by_cases hxj : x = j
  · subst hxj
    simp [hi, hj]
  · by_cases hxi : x = i
    · subst hxi
      have : ¬ j = x := fun h => hxj h.symm
      simp [hi, hj, hxj, this]
    · have h1 : ¬ j = x := fun h => hxj h.symm
      have h2 : ¬ i = x := fun h => hxi h.symm
      simp [hxj, hxi, h1, h2]

-- ------------------------------------------------------------------ heap predicates

/-- parent ≤ child for every edge whose parent index is at least `lo` -/
def HeapFrom (lo : Nat) (l : List E) : Prop :=
  ∀ i, 0 < i → i < l.length → lo ≤ (i - 1) / 2 → wtAt l ((i - 1) / 2) ≤ wtAt l i

def IsHeap (l : List E) : Prop := HeapFrom 0 l

/-- heap except for the edges out of slot `s`; children of `s` are already above the parent of `s` -/
def AlmostDown (lo s : Nat) (l : List E) : Prop :=
  (∀ i, 0 < i → i < l.length → lo ≤ (i - 1) / 2 → (i - 1) / 2 ≠ s → wtAt l ((i - 1) / 2) ≤ wtAt l i) ∧
  (∀ i, 0 < i → i < l.length → (i - 1) / 2 = s → 0 < s → lo ≤ (s - 1) / 2 → wtAt l ((s - 1) / 2) ≤ wtAt l i)

/-- anything preserved by `swap` is preserved by `siftDown` -/
theorem siftDown_pres (P : List E → Prop) (hsw : ∀ l i j, P l → P (swap l i j)) (fuel : Nat) (l : List E) (s : Nat)
    (hP : P l) : P (siftDown fuel l s) := by
  induction fuel generalizing l s with
  | zero => simpa [siftDown] using hP
  | succ f ih =>
    simp only [siftDown]
    by_cases hc : 2 * s + 1 < l.length
    · simp only [hc, if_true]
      generalize (if (2 * s + 1 + 1 < l.length && Num.lt (wtAt l (2 * s + 1 + 1)) (wtAt l (2 * s + 1))) then 2 * s + 1 + 1 else 2 * s + 1) = c
      split
      · exact hP
      · exact ih _ _ (hsw _ _ _ hP)
    · simpa only [hc, if_false] using hP

theorem siftDown_length (fuel : Nat) (l : List E) (s : Nat) : (siftDown fuel l s).length = l.length :=
  siftDown_pres (fun x => x.length = l.length) (fun x i j h => by rw [swap_length]; exact h) fuel l s rfl

theorem siftDown_perm (fuel : Nat) (l : List E) (s : Nat) : (siftDown fuel l s).Perm l :=
  siftDown_pres (fun x => x.Perm l) (fun x i j h => (swap_perm x i j).trans h) fuel l s (List.Perm.refl _)

theorem siftDown_heap (fuel : Nat) (l : List E) (lo s : Nat) (hlo : lo ≤ s) (hf : l.length ≤ fuel + s)
    (h : AlmostDown lo s l) : HeapFrom lo (siftDown fuel l s) := by
  induction fuel generalizing l s with
  | zero =>
    simp only [siftDown]
    intro i hi0 hil hpar
    apply h.1 i hi0 hil hpar
    omega
  | succ f ih =>
    simp only [siftDown]
    by_cases hc : 2 * s + 1 < l.length
    · simp only [hc, if_true]
      -- the smaller child
      generalize hcdef : (if (2 * s + 1 + 1 < l.length && Num.lt (wtAt l (2 * s + 1 + 1)) (wtAt l (2 * s + 1))) then 2 * s + 1 + 1 else 2 * s + 1) = c
      have hs : s < l.length := by omega
      have hcl : c < l.length ∧ (c = 2 * s + 1 ∨ c = 2 * s + 2) ∧
          wtAt l c ≤ wtAt l (2 * s + 1) ∧ (2 * s + 2 < l.length → wtAt l c ≤ wtAt l (2 * s + 2)) := by
        by_cases h2 : 2 * s + 1 + 1 < l.length
        · by_cases hlt : wtAt l (2 * s + 1 + 1) < wtAt l (2 * s + 1)
          · simp [h2, hlt] at hcdef
            subst hcdef
            exact ⟨h2, Or.inr rfl, le_of_lt hlt, fun _ => le_refl _⟩
          · simp [h2, hlt] at hcdef
            subst hcdef
            exact ⟨hc, Or.inl rfl, le_refl _, fun _ => not_lt.mp hlt⟩
        · simp [h2] at hcdef
          subst hcdef
          exact ⟨hc, Or.inl rfl, le_refl _, fun h => absurd h (by omega)⟩
      obtain ⟨hcl, hcc, hc1, hc2⟩ := hcl
      by_cases hle : wtAt l s ≤ wtAt l c
      · simp only [Num.le_rat, hle, decide_true, if_true]
        intro i hi0 hil hpar
        by_cases hps : (i - 1) / 2 = s
        · rw [hps]
          have : i = 2 * s + 1 ∨ i = 2 * s + 2 := by omega
          rcases this with rfl | rfl
          · exact le_trans hle hc1
          · exact le_trans hle (hc2 hil)
        · exact h.1 i hi0 hil hpar hps
      · simp only [Num.le_rat, hle, decide_false]
        have hlt : wtAt l c < wtAt l s := not_le.mp hle
        apply ih (swap l s c) c (by omega) (by rw [swap_length]; omega)
        constructor
        · intro i hi0 hil hpar hpc
          rw [swap_length] at hil
          rw [wtAt_swap hs hcl, wtAt_swap hs hcl]
          by_cases hps : (i - 1) / 2 = s
          · have hi : i = 2 * s + 1 ∨ i = 2 * s + 2 := by omega
            have hsc : s ≠ c := by omega
            rw [hps]
            simp only [hsc, if_false, if_true]
            by_cases hic : i = c
            · simp only [hic, if_true]; exact le_of_lt hlt
            · have his : i ≠ s := by omega
              simp only [hic, his, if_false]
              rcases hi with rfl | rfl
              · exact hc1
              · exact hc2 hil
          · have hpc' : (i - 1) / 2 ≠ c := hpc
            simp only [hpc', hps, if_false]
            by_cases hic : i = c
            · exfalso; omega
            · simp only [hic, if_false]
              by_cases his : i = s
              · subst his
                simp only [if_true]
                -- bridging: children of s are above the parent of s
                have := h.2 c (by omega) hcl (by omega) (by omega) hpar
                exact this
              · simp only [his, if_false]
                exact h.1 i hi0 hil hpar hps
        · intro i hi0 hil hpc hc0 hpar2
          rw [swap_length] at hil
          rw [wtAt_swap hs hcl, wtAt_swap hs hcl]
          have hpcs : (c - 1) / 2 = s := by omega
          have hsc : s ≠ c := by omega
          have hic : i ≠ c := by omega
          have his : i ≠ s := by omega
          rw [hpcs]
          simp only [hsc, hic, his, if_false, if_true]
          have := h.1 i hi0 hil (by omega) (by omega)
          rwa [hpc] at this
    · simp only [hc, if_false]
      intro i hi0 hil hpar
      apply h.1 i hi0 hil hpar
      omega

-- ------------------------------------------------------------------ siftUp

theorem parent_eq {s : Nat} (h : 0 < s) : parent s = (s - 1) / 2 := by unfold parent; omega

theorem siftUp_pres (P : List E → Prop) (hsw : ∀ l i j, P l → P (swap l i j)) (fuel : Nat) (l : List E) (s : Nat)
    (hP : P l) : P (siftUp fuel l s) := by
  induction fuel generalizing l s with
  | zero => simpa [siftUp] using hP
  | succ f ih =>
    simp only [siftUp]
    split
    · exact ih _ _ (hsw _ _ _ hP)
    · exact hP

theorem siftUp_length (fuel : Nat) (l : List E) (s : Nat) : (siftUp fuel l s).length = l.length :=
  siftUp_pres (fun x => x.length = l.length) (fun x i j h => by rw [swap_length]; exact h) fuel l s rfl

theorem siftUp_perm (fuel : Nat) (l : List E) (s : Nat) : (siftUp fuel l s).Perm l :=
  siftUp_pres (fun x => x.Perm l) (fun x i j h => (swap_perm x i j).trans h) fuel l s (List.Perm.refl _)

/-- heap except for the edge into slot `s`; children of `s` are already above the parent of `s` -/
def AlmostUp (s : Nat) (l : List E) : Prop :=
  (∀ i, 0 < i → i < l.length → i ≠ s → wtAt l ((i - 1) / 2) ≤ wtAt l i) ∧
  (∀ i, 0 < i → i < l.length → (i - 1) / 2 = s → 0 < s → wtAt l ((s - 1) / 2) ≤ wtAt l i)

theorem siftUp_heap (fuel : Nat) (l : List E) (s : Nat) (hs : s < l.length) (hf : s ≤ fuel)
    (h : AlmostUp s l) : IsHeap (siftUp fuel l s) := by
  induction fuel generalizing l s with
  | zero =>
    simp only [siftUp]
    intro i hi0 hil _
    exact h.1 i hi0 hil (by omega)
  | succ f ih =>
    simp only [siftUp]
    by_cases hcond : 0 < s ∧ wtAt l s < wtAt l (parent s)
    · obtain ⟨hs0, hlt⟩ := hcond
      have hpe := parent_eq hs0
      have hcond' : (decide (s > 0) && Num.lt (wtAt l s) (wtAt l (parent s))) = true := by simp [hs0, hlt]
      simp only [hcond', if_true]
      rw [hpe] at hlt ⊢
      have hp : (s - 1) / 2 < l.length := by omega
      have hps : (s - 1) / 2 ≠ s := by omega
      apply ih (swap l s ((s - 1) / 2)) ((s - 1) / 2) (by rw [swap_length]; exact hp) (by omega)
      constructor
      · intro i hi0 hil hip
        rw [swap_length] at hil
        rw [wtAt_swap hs hp, wtAt_swap hs hp]
        by_cases his : i = s
        · subst his
          simp only [if_true, hps.symm, if_false]
          exact le_of_lt hlt
        · simp only [hip, his, if_false]
          by_cases hpi : (i - 1) / 2 = s
          · -- child of s
            have h3 : s ≠ (s - 1) / 2 := hps.symm
            simp only [hpi, h3, if_false, if_true]
            exact h.2 i hi0 hil hpi hs0
          · by_cases hpp : (i - 1) / 2 = (s - 1) / 2
            · -- sibling of s
              simp only [hpp, if_true]
              have := h.1 i hi0 hil his
              rw [hpp] at this
              exact le_trans (le_of_lt hlt) this
            · simp only [hpp, hpi, if_false]
              exact h.1 i hi0 hil his
      · intro i hi0 hil hpi hp0
        rw [swap_length] at hil
        rw [wtAt_swap hs hp, wtAt_swap hs hp]
        have h1 : ((s - 1) / 2 - 1) / 2 ≠ (s - 1) / 2 := by omega
        have h2 : ((s - 1) / 2 - 1) / 2 ≠ s := by omega
        simp only [h1, h2, if_false]
        have hpar : wtAt l (((s - 1) / 2 - 1) / 2) ≤ wtAt l ((s - 1) / 2) := h.1 ((s - 1) / 2) hp0 hp hps
        by_cases his : i = s
        · subst his
          simp only [hps.symm, if_true, if_false]
          exact hpar
        · have hip : i ≠ (s - 1) / 2 := by omega
          simp only [hip, his, if_false]
          have := h.1 i hi0 hil his
          rw [hpi] at this
          exact le_trans hpar this
    · have hcond' : (decide (s > 0) && Num.lt (wtAt l s) (wtAt l (parent s))) = false := by
        by_cases hs0 : 0 < s
        · have : ¬ wtAt l s < wtAt l (parent s) := fun hh => hcond ⟨hs0, hh⟩
          simp [this]
        · simp [hs0]
      simp only [hcond', Bool.false_eq_true, if_false]
      intro i hi0 hil _
      by_cases his : i = s
      · subst his
        have : ¬ wtAt l i < wtAt l (parent i) := fun hh => hcond ⟨hi0, hh⟩
        rw [parent_eq hi0] at this
        exact not_lt.mp this
      · exact h.1 i hi0 hil his

-- ------------------------------------------------------------------ root is the minimum

theorem heap_root_le {l : List E} (h : IsHeap l) : ∀ i, i < l.length → wtAt l 0 ≤ wtAt l i := by
  intro i
  induction i using Nat.strong_induction_on with
  | _ i ih =>
    intro hil
    by_cases hi0 : i = 0
    · subst hi0; exact le_refl _
    · have hp : (i - 1) / 2 < i := by omega
      exact le_trans (ih _ hp (by omega)) (h i (by omega) hil (Nat.zero_le _))

theorem mem_iff_wtAt {l : List E} {e : E} (he : e ∈ l) : ∃ i, i < l.length ∧ wtAt l i = e.wt := by
  obtain ⟨i, hi, rfl⟩ := List.getElem_of_mem he
  exact ⟨i, hi, wtAt_of_lt hi⟩

theorem heap_root_min {l : List E} (h : IsHeap l) {e : E} (he : e ∈ l) : wtAt l 0 ≤ e.wt := by
  obtain ⟨i, hi, hw⟩ := mem_iff_wtAt he
  rw [← hw]; exact heap_root_le h i hi

-- ------------------------------------------------------------------ push / pop / heapify

theorem heapPush_perm (l : List E) (e : E) : (heapPush l e).Perm (e :: l) := by
  unfold heapPush
  exact (siftUp_perm _ _ _).trans (List.perm_append_comm)

theorem heapPush_length (l : List E) (e : E) : (heapPush l e).length = l.length + 1 := by
  unfold heapPush; rw [siftUp_length]; simp

theorem wtAt_append_left {l : List E} {e : E} {i : Nat} (h : i < l.length) : wtAt (l ++ [e]) i = wtAt l i := by
  simp [wtAt, List.getElem?_append_left h]

theorem heapPush_heap (l : List E) (e : E) (h : IsHeap l) : IsHeap (heapPush l e) := by
  unfold heapPush
  apply siftUp_heap _ _ _ (by simp) (by omega)
  constructor
  · intro i hi0 hil his
    have hil' : i < l.length := by simp at hil; omega
    rw [wtAt_append_left hil', wtAt_append_left (by omega)]
    exact h i hi0 hil' (Nat.zero_le _)
  · intro i hi0 hil hpi _
    simp at hil; omega

theorem wtAt_dropLast {l : List E} {i : Nat} (h : i < l.length - 1) : wtAt l.dropLast i = wtAt l i := by
  rw [wtAt_of_lt (by simp; omega), wtAt_of_lt (by omega)]
  simp [List.getElem_dropLast]

theorem heapFrom_dropLast {lo : Nat} {l : List E} (h : HeapFrom lo l) : HeapFrom lo l.dropLast := by
  intro i hi0 hil hpar
  simp at hil
  have e1 : wtAt l.dropLast i = wtAt l i := wtAt_dropLast hil
  have e2 : wtAt l.dropLast ((i - 1) / 2) = wtAt l ((i - 1) / 2) := wtAt_dropLast (by omega)
  rw [e1, e2]
  exact h i hi0 (by omega) hpar

theorem heapPopRest_length (l : List E) : (heapPopRest l).length = l.length - 1 := by
  unfold heapPopRest
  by_cases h : l.length ≤ 1
  · simp only [h, if_true, List.length_nil]; omega
  · simp only [h, if_false, siftDown_length, List.length_dropLast, swap_length]

theorem heapPopRest_perm (l : List E) (e : E) (t : List E) (hl : l = e :: t) : (e :: heapPopRest l).Perm l := by
  subst hl
  unfold heapPopRest
  by_cases h1 : (e :: t).length ≤ 1
  · have : t = [] := by cases t <;> simp_all
    subst this; simp
  · simp only [h1, if_false]
    have hlen : 1 ≤ t.length := by
      cases t with
      | nil => simp at h1
      | cons _ _ => simp
    -- after the swap the old root sits in the last slot
    have hsw := swap_perm (e :: t) 0 ((e :: t).length - 1)
    have hlast : (swap (e :: t) 0 ((e :: t).length - 1)).getLast? = some e := by
      unfold swap
      have h0 : (e :: t)[0]? = some e := rfl
      have hj : (e :: t).length - 1 < (e :: t).length := by simp
      rw [h0, List.getElem?_eq_getElem hj]
      simp only [List.getLast?_eq_getElem?, List.length_set]
      simp
    have hne : swap (e :: t) 0 ((e :: t).length - 1) ≠ [] := by
      intro h; rw [h] at hlast; simp at hlast
    have hsplit := List.dropLast_append_getLast hne
    have hgl : (swap (e :: t) 0 ((e :: t).length - 1)).getLast hne = e := by
      have := List.getLast?_eq_some_getLast hne
      rw [this] at hlast; exact Option.some.inj hlast
    rw [hgl] at hsplit
    refine List.Perm.trans ?_ hsw
    rw [← hsplit]
    refine List.Perm.trans ?_ List.perm_append_comm.symm
    simp only [List.singleton_append]
    exact List.Perm.cons _ (by rw [hsplit]; exact siftDown_perm _ _ _)

theorem heapifyFrom_perm (j : Nat) (l : List E) : (heapifyFrom j l).Perm l := by
  induction j generalizing l with
  | zero => exact siftDown_perm _ _ _
  | succ j ih => exact (ih _).trans (siftDown_perm _ _ _)

theorem heapifyFrom_heap (j : Nat) (l : List E) (h : HeapFrom (j + 1) l) : IsHeap (heapifyFrom j l) := by
  induction j generalizing l with
  | zero =>
    apply siftDown_heap _ _ 0 0 (le_refl _) (by omega)
    exact ⟨fun i hi0 hil _ hne => h i hi0 hil (by omega), fun i _ _ _ h0 _ => absurd h0 (by omega)⟩
  | succ j ih =>
    apply ih
    apply siftDown_heap _ _ (j + 1) (j + 1) (le_refl _) (by omega)
    exact ⟨fun i hi0 hil hlo hne => h i hi0 hil (by omega), fun i _ _ _ _ hlo => absurd hlo (by omega)⟩

theorem convertToHeap_perm (l : List E) : (convertToHeap l).Perm l := by
  unfold convertToHeap; split
  · exact List.Perm.refl _
  · exact heapifyFrom_perm _ _

theorem convertToHeap_heap (l : List E) : IsHeap (convertToHeap l) := by
  unfold convertToHeap; split
  · intro i hi0 hil _; omega
  · apply heapifyFrom_heap
    intro i hi0 hil hpar; omega

theorem heapPopRest_heap (l : List E) (h : IsHeap l) : IsHeap (heapPopRest l) := by
  unfold heapPopRest
  split
  · intro i _ hil _; simp at hil
  · rename_i h1
    have hlen : 2 ≤ l.length := by omega
    apply siftDown_heap _ _ 0 0 (le_refl _) (by omega)
    constructor
    · intro i hi0 hil _ hne
      simp [swap_length] at hil
      have h0 : 0 < l.length := by omega
      have hj : l.length - 1 < l.length := by omega
      have e1 : wtAt (swap l 0 (l.length - 1)).dropLast i = wtAt (swap l 0 (l.length - 1)) i :=
        wtAt_dropLast (by rw [swap_length]; exact hil)
      have e2 : wtAt (swap l 0 (l.length - 1)).dropLast ((i - 1) / 2) = wtAt (swap l 0 (l.length - 1)) ((i - 1) / 2) :=
        wtAt_dropLast (by rw [swap_length]; omega)
      rw [e1, e2, wtAt_swap h0 hj, wtAt_swap h0 hj]
      have a1 : i ≠ l.length - 1 := by omega
      have a2 : i ≠ 0 := by omega
      have a3 : (i - 1) / 2 ≠ l.length - 1 := by omega
      simp only [a1, a2, a3, hne, if_false]
      exact h i hi0 (by omega) (Nat.zero_le _)
    · intro i _ _ _ h0 _; omega

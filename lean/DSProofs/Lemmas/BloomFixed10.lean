/- Repaired model: update and query_and_update preserve the invariant. -/
import DSProofs.Lemmas.BloomFixed9
namespace DS.Bloom

variable {ι : Type} [DecidableEq ι] (P : Params) (hf : ι → Nat → Option (Nat × Nat))

theorem popCount_mono (x y off n : Nat) (h : ∀ j, j < n → x.testBit (off + j) = true → y.testBit (off + j) = true) :
    popCount x off n ≤ popCount y off n := by
  induction n with
  | zero => simp [popCount]
  | succ n ih =>
    simp only [popCount]
    have := ih (fun j hj => h j (by omega))
    by_cases hb : x.testBit (off + n) = true
    · simp [hb, h n (by omega) hb]; omega
    · simp [hb]; split <;> omega

/-- the count kept by the `query_and_update` loop: old count plus the number of newly set bits (mod 2^64) -/
theorem qauLoop_count (off n : Nat) (is : List Nat) (his : ∀ i, i ∈ is → i < n) (x c : Nat) (a : Bool) :
    (qauLoop off is (x, c, a)).2.1 = (c + (popCount (setBits x off is) off n - popCount x off n)) % 2 ^ 64 ∨ 2 ^ 64 ≤ c := by
  induction is generalizing x c a with
  | nil =>
    by_cases hc : c < 2 ^ 64
    · left; simp [qauLoop, setBits, Nat.mod_eq_of_lt hc]
    · right; omega
  | cons i t ih =>
    by_cases hc : c < 2 ^ 64
    · left
      simp only [qauLoop]
      have hi := his i List.mem_cons_self
      have hstep := popCount_setBit x off n i hi
      have hmono : popCount (x ||| 2 ^ (off + i)) off n ≤ popCount (setBits (x ||| 2 ^ (off + i)) off t) off n :=
        popCount_mono _ _ _ _ (fun j _ hb => testBit_setBits_mono _ _ _ _ hb)
      have hsb : setBits x off (i :: t) = setBits (x ||| 2 ^ (off + i)) off t := by simp [setBits]
      rcases ih (fun j hj => his j (List.mem_cons_of_mem _ hj)) (x ||| 2 ^ (off + i))
          ((c + if x.testBit (off + i) = true then 0 else 1) % 2 ^ 64) (a && x.testBit (off + i)) with h | h
      · rw [h, hsb, Nat.mod_add_mod]
        have : c + (if x.testBit (off + i) = true then 0 else 1) +
            (popCount (setBits (x ||| 2 ^ (off + i)) off t) off n - popCount (x ||| 2 ^ (off + i)) off n)
            = c + (popCount (setBits (x ||| 2 ^ (off + i)) off t) off n - popCount x off n) := by
          rw [hstep] at hmono ⊢
          split at hmono <;> simp_all <;> omega
        rw [this]
      · exfalso
        have := Nat.mod_lt (c + if x.testBit (off + i) = true then 0 else 1) (show 0 < 2 ^ 64 by decide)
        omega
    · right; omega

omit [DecidableEq ι] in
/-- `commit` with nothing changed is the identity -/
theorem commit_noop (w : World) (v : Nat) (f : Filter) (hv : w.filters v = some f)
    (hb : ∀ m, f.ref = .mem m → ∃ b, w.blocks m = some b) : commit P w v f (w.val f) f.nbs f.dirty none = w := by
  unfold commit
  cases hr : f.ref with
  | owned b =>
    simp only [World.val, hr]
    have : ({ f with ref := Ref.owned b, nbs := f.nbs, dirty := f.dirty } : Filter) = f := by
      cases f; simp_all
    rw [this]
    cases w with
    | mk fs bs =>
      simp only [World.setFilter, World.mk.injEq, and_true]
      funext u
      by_cases e : u = v
      · subst e; simpa using hv.symm
      · simp [e]
  | mem m =>
    obtain ⟨b, hbm⟩ := hb m hr
    simp only [World.val, hr]
    have : ({ f with nbs := f.nbs, dirty := f.dirty } : Filter) = f := by cases f; rfl
    rw [this]
    cases w with
    | mk fs bs =>
      simp only [World.setFilter, World.setBlock, World.blockLen, World.blockVal, World.mk.injEq] at hbm hv ⊢
      constructor
      · funext u
        by_cases e : u = v
        · subst e
          simp only [if_true]
          rw [hv]
          congr 1
          cases f; simp_all
        · simp [e]
      · funext u
        by_cases e : u = m
        · subst e; simp [hbm]
        · simp [e]

theorem pstep_ins_eq (p : PGhost ι) (w w' : World) (out : Out) (v : Nat) (f : Filter) (i : VInfo ι) (x : ι)
    (hv : w.filters v = some f) (hi : p.vi v = some i) (hro : f.readOnly = false) (hh : (hf x f.seed).isNone = false) :
    pstep hf p w w' out (.upd v x) = insGhost p w v f i x ∧ pstep hf p w w' out (.qau v x) = insGhost p w v f i x := by
  constructor <;>
  · simp only [pstep, hv, hi, hro, hh, Bool.or_self, Bool.false_eq_true, if_false, insGhost]
    cases hwr : p.write w v f i with
    | mk p1 keep => rfl

theorem good_upd (hP : P.Wire) (w : World) (p : PGhost ι) (hg : Good P hf w p) (v : Nat) (x : ι) :
    Good P hf (step P Fix.fixed hf w (.upd v x)).1
      (pstep hf p w (step P Fix.fixed hf w (.upd v x)).1 (step P Fix.fixed hf w (.upd v x)).2 (.upd v x)) := by
  cases hv : w.filters v with
  | none => simp only [step, opUpdate, hashFor, pstep, hv]; exact hg
  | some f =>
    obtain ⟨i, hi⟩ := hg.tracked v f hv
    cases hh : hf x f.seed with
    | none => simp only [step, opUpdate, hashFor, pstep, hv, hi, hh, Option.isNone_none, Bool.or_true, if_true]; exact hg
    | some h =>
      by_cases hro : f.readOnly = true
      · simp only [step, opUpdate, hashFor, pstep, hv, hi, hh, hro, Bool.true_or, if_true]; exact hg
      · have hro' : f.readOnly = false := by simpa using hro
        have hn : (hf x f.seed).isNone = false := by rw [hh]; rfl
        rw [(pstep_ins_eq hf p w _ _ v f i x hv hi hro' hn).1]
        simp only [step, opUpdate, hashFor, hv, hh, hro', Bool.false_eq_true, if_false, Fix.fixed, if_true]
        apply good_insert P hf hP w p hg v f i hv hi hro' x h hh
        · intro _ _; exact Or.inl rfl
        · intro m hr _ _
          refine ⟨fun _ => ?_, (fun hd => by cases hd)⟩
          rw [commitVal_count P hP.layout f m hr hro', hP.dirty]

theorem good_qau (hP : P.Wire) (w : World) (p : PGhost ι) (hg : Good P hf w p) (v : Nat) (x : ι) :
    Good P hf (step P Fix.fixed hf w (.qau v x)).1
      (pstep hf p w (step P Fix.fixed hf w (.qau v x)).1 (step P Fix.fixed hf w (.qau v x)).2 (.qau v x)) := by
  cases hv : w.filters v with
  | none => simp only [step, opQau, hashFor, pstep, hv]; exact hg
  | some f =>
    obtain ⟨i, hi⟩ := hg.tracked v f hv
    have hok := hg.view v f i hv hi
    have hw := hg.fwf v f hv
    cases hh : hf x f.seed with
    | none => simp only [step, opQau, hashFor, pstep, hv, hi, hh, Option.isNone_none, Bool.or_true, if_true]; exact hg
    | some h =>
      by_cases hro : f.readOnly = true
      · simp only [step, opQau, hashFor, pstep, hv, hi, hh, hro, Bool.true_or, if_true]; exact hg
      · have hro' : f.readOnly = false := by simpa using hro
        have hn : (hf x f.seed).isNone = false := by rw [hh]; rfl
        rw [(pstep_ins_eq hf p w _ _ v f i x hv hi hro' hn).2]
        simp only [step, opQau, hashFor, hv, hh, hro', Bool.false_eq_true, if_false]
        have hcont := qauLoop_content (f.off P) (indices h.1 h.2 f.capBits f.numHashes) (w.val f) f.nbs true
        have hcnt := qauLoop_count (f.off P) f.capBits (indices h.1 h.2 f.capBits f.numHashes)
          (fun j hj => mem_indices_lt _ _ _ _ _ hw.capPos hj) (w.val f) f.nbs true
        generalize qauLoop (f.off P) (indices h.1 h.2 f.capBits f.numHashes) (w.val f, f.nbs, true) = q at hcont hcnt
        obtain ⟨qx, qn, qa⟩ := q
        simp only at hcont hcnt
        subst hcont
        by_cases hk : (f.numHashes == 0) = true
        · -- no hash functions: nothing is written; only unpromised views can be here
          simp only [hk, if_true]
          have hk0 : f.numHashes = 0 := by simpa using hk
          have hnoop : commit P w v f (setBits (w.val f) (f.off P) (indices h.1 h.2 f.capBits f.numHashes)) f.nbs f.dirty none = w := by
            have : indices h.1 h.2 f.capBits f.numHashes = [] := by simp [indices, hk0]
            rw [this]
            simp only [setBits, List.foldl_nil]
            exact commit_noop P w v f hv (fun m hr => hg.memref v f m hv hr)
          rw [← hnoop]
          rw [hnoop]
          have hgood := good_insert P hf hP w p hg v f i hv hi hro' x h hh f.nbs f.dirty none
            (by intro hp _; have := (hok.k1 hp).1; omega) (by intro m _ hp _; have := (hok.k1 hp).1; omega)
          rw [hnoop] at hgood
          exact hgood
        · simp only [hk, Bool.false_eq_true, if_false, Fix.fixed, Bool.true_and]
          by_cases hd : f.dirty = true
          · simp only [hd, if_true]
            apply good_insert P hf hP w p hg v f i hv hi hro' x h hh
            · intro _ _; exact Or.inl rfl
            · intro m hr hp hin
              refine ⟨fun _ => ?_, (fun hd' => by cases hd')⟩
              have hm : isMem f = true := by simp [isMem, hr]
              have hoff : f.off P = 256 := off_mem P hP.layout hm
              have hX : w.val f = w.blockVal m := by simp [World.val, hr]
              rw [commitVal_count_none P f m hr (w.blockVal m) _ (by
                intro j hj; rw [hX, hoff]; exact testBit_setBits_low _ _ _ _ hj)]
              have := hok.dh hp hin hm hro' hd
              rw [← val_eq_keyVal w v f hv, hX] at this
              exact this
          · have hd' : f.dirty = false := by simpa using hd
            simp only [hd', Bool.false_eq_true, if_false]
            -- the loop's count is exact for a promised in-sync view
            have hexact : i.promised = true → insync (p.si (keyOf v f)) f i = true →
                qn = popCount (setBits (w.val f) (f.off P) (indices h.1 h.2 f.capBits f.numHashes)) (f.off P) f.capBits := by
              intro hp hin
              have hex := hok.ex hp hin hd'
              rw [← val_eq_keyVal w v f hv] at hex
              have hle : popCount (w.val f) (f.off P) f.capBits ≤
                  popCount (setBits (w.val f) (f.off P) (indices h.1 h.2 f.capBits f.numHashes)) (f.off P) f.capBits :=
                popCount_mono _ _ _ _ (fun j _ hb => testBit_setBits_mono _ _ _ _ hb)
              have hub := popCount_le (setBits (w.val f) (f.off P) (indices h.1 h.2 f.capBits f.numHashes)) (f.off P) f.capBits
              have hcl := hw.capLt
              rcases hcnt with hc | hc
              · rw [hc, hex]
                rw [Nat.mod_eq_of_lt (by omega)]
                omega
              · have := popCount_le (w.val f) (f.off P) f.capBits; omega
            apply good_insert P hf hP w p hg v f i hv hi hro' x h hh
            · intro hp hin; exact Or.inr (hexact hp hin)
            · intro m hr hp hin
              refine ⟨(fun hd'' => by cases hd''), fun _ => ?_⟩
              have hm : isMem f = true := by simp [isMem, hr]
              have hoff : f.off P = 256 := off_mem P hP.layout hm
              rw [commitVal_count P hP.layout f m hr hro', hexact hp hin, hoff]
              have hub := popCount_le (setBits (w.val f) 256 (indices h.1 h.2 f.capBits f.numHashes)) 256 f.capBits
              have hcl := hw.capLt
              exact Nat.mod_eq_of_lt (by omega)

end DS.Bloom

/- Two runs of whole histories side by side. (Helper lemmas for C08.) -/
import DSProofs.Lemmas.ReqRel3
namespace DS.Req

variable {ρ : Type}

theorem update_mono (T : Tun) (F : SecFns ρ) (s : Sketch ρ) (x : Int) (a : Acc) : AccMono a (s.update T F x a).2 := by
  simp only [Sketch.update]; split
  · exact compress_mono T F _ a
  · exact AccMono.refl a

theorem merge_mono (T : Tun) (F : SecFns ρ) (s o : Sketch ρ) (a : Acc) (res : Sketch ρ × Acc) (h : s.merge T F o a = some res) :
    AccMono a res.2 := by
  simp only [Sketch.merge] at h
  split at h
  · exact absurd h (by simp)
  · split at h
    · have : res = (s, a) := by simpa using h.symm
      subst this; exact AccMono.refl a
    · split at h
      · have : res = (s.mergePre T F o a).1.compress T F (s.mergePre T F o a).2 := by simpa using h.symm
        subst this; exact (mergePre_mono T F s o a).trans (compress_mono T F _ _)
      · have : res = s.mergePre T F o a := by simpa using h.symm
        subst this; exact mergePre_mono T F s o a

theorem stepOp_mono (T : Tun) (F : SecFns ρ) (st : Store ρ) (a : Acc) (op : Op) : AccMono a (stepOp T F st a op).2 := by
  cases op with
  | new id k hra => exact drawIf_mono a _ _
  | upd id x =>
    simp only [stepOp]; split
    · exact update_mono T F _ x a
    · exact AccMono.refl a
  | merge i j =>
    simp only [stepOp]; split
    · exact AccMono.refl a
    · split
      · split
        · rename_i hm; exact merge_mono T F _ _ a _ hm
        · exact AccMono.refl a
      · exact AccMono.refl a
  | copy i j => simp only [stepOp]; split <;> exact AccMono.refl a
  | rankq id => simp only [stepOp]; split <;> exact AccMono.refl a
  | viewq id => simp only [stepOp]; split <;> exact AccMono.refl a

theorem runOps_mono (T : Tun) (F : SecFns ρ) (ops : List Op) : ∀ (st : Store ρ) (a : Acc), AccMono a (runOps T F st a ops).2 := by
  induction ops with
  | nil => intro st a; exact AccMono.refl a
  | cons op ops ih => intro st a; simp only [runOps]; exact (stepOp_mono T F st a op).trans (ih _ _)

/-! ### one operation, two runs -/

/-- the pair relation used on stores: shapes / contents as in `SRel`, plus the two-run balance when a level is flipped -/
def SRelB (hh : Option Nat) (s s' : Sketch ρ) : Prop :=
  SRel hh s s' ∧ ∀ p h0, hh = some h0 → Bal p h0 s.compactors s'.compactors

abbrev StoreRel2 (hh : Option Nat) (st st' : Store ρ) : Prop := ALRel (SRelB hh) st st'

theorem get_both {T : Tun} {hh : Option Nat} {st st' : Store ρ} {m : List (Nat × SpecSk)} (hI : StoreRel T st m) (r : StoreRel2 hh st st') (id : Nat) :
    (st.get id = none ∧ st'.get id = none) ∨ (∃ s s', st.get id = some s ∧ st'.get id = some s' ∧ SInv T s ∧ SRelB hh s s') := by
  rcases ALRel_get r id with ⟨h1, h2⟩ | ⟨s, s', h1, h2, hr⟩
  · left; exact ⟨h1, h2⟩
  · right
    rcases ALRel_get hI id with ⟨g1, _⟩ | ⟨s0, sp, g1, _, hs⟩
    · rw [h1] at g1; exact absurd g1 (by simp)
    · rw [h1] at g1
      have : s = s0 := by simpa using g1
      subst this
      exact ⟨s, s', h1, h2, hs.1, hr⟩

theorem stepOp_rel2 {T : Tun} (hT : TunOK T) (F : SecFns ρ) (L : List Nat) (hh : Option Nat) (st st' : Store ρ) (m : List (Nat × SpecSk))
    (a a' : Acc) (op : Op) (hI : StoreRel T st m) (r : StoreRel2 hh st st') (ra : AccRel L hh a a')
    (hL : (stepOp T F st a op).2.lv <+: L) (hodd : ∀ h0, hh = some h0 → (stepOp T F st a op).2.oddConst = false) :
    StoreRel2 hh (stepOp T F st a op).1 (stepOp T F st' a' op).1 ∧ AccRel L hh (stepOp T F st a op).2 (stepOp T F st' a' op).2 := by
  cases op with
  | new id k hra =>
    simp only [stepOp] at hL ⊢
    have hLu : T.initCoinRandom = true → L[a.used]? = some 0 := by
      intro hf
      have : (a.drawIf T.initCoinRandom 0).lv = a.lv ++ [0] := (drawIf_acc a _ _).2.2.2.2.1 hf
      rw [← ra.lvlen]; exact prefix_get a.lv 0 L (by rw [← this]; exact hL)
    have hpeek' : a'.peek = a'.coins a.used := by simp [Acc.peek, ra.used]
    have nr := new_rel hh T F k hra a.peek a'.peek
      (by intro h0 e hl hf
          rw [hpeek', ra.coins h0 e, hLu hf]
          have : (some 0 == some h0) = false := by simp; omega
          simp [this, Acc.peek])
      (by intro h0 e hl hf
          rw [hpeek', ra.coins h0 e, hLu hf]
          have : (some 0 == some h0) = true := by simp; omega
          simp [this, Acc.peek])
    exact ⟨ALRel_set r id ⟨nr, fun p h0 _ => new_bal T F k hra a.peek a'.peek p h0⟩, drawIf_AccRel _ _ ra⟩
  | upd id x =>
    simp only [stepOp] at hL hodd ⊢
    rcases get_both hI r id with ⟨h1, h2⟩ | ⟨s, s', h1, h2, hs, hr⟩
    · simp only [h1, h2]; exact ⟨r, ra⟩
    · simp only [h1, h2] at hL hodd ⊢
      obtain ⟨u1, u2, u3⟩ := update_rel hT F L hh s s' x a a' hs hr.1 ra hL
      exact ⟨ALRel_set r id ⟨u1, fun p h0 e => u3 p h0 e (hodd h0 e) (hr.2 p h0 e)⟩, u2⟩
  | merge i j =>
    simp only [stepOp] at hL hodd ⊢
    split
    · exact ⟨r, ra⟩
    · rename_i hij
      rw [if_neg hij] at hL
      simp only [if_neg hij] at hodd
      rcases get_both hI r i with ⟨h1, h2⟩ | ⟨s, s', h1, h2, hs, hr⟩
      · simp only [h1, h2]; exact ⟨r, ra⟩
      · rcases get_both hI r j with ⟨g1, g2⟩ | ⟨o, o', g1, g2, ho, hro⟩
        · simp only [h1, h2, g1, g2]; exact ⟨r, ra⟩
        · simp only [h1, h2, g1, g2] at hL hodd ⊢
          obtain ⟨mn, ms⟩ := merge_rel hT F L hh s s' o o' a a' hs ho hr.1 hro.1 ra
          cases hm : s.merge T F o a with
          | none => simp only [hm, mn hm]; exact ⟨r, ra⟩
          | some res =>
            simp only [hm] at hL hodd
            obtain ⟨res', m2, q1, q2, q3⟩ := ms res hm hL
            simp only [hm, m2]
            exact ⟨ALRel_set r i ⟨q1, fun p h0 e => q3 p h0 e (hodd h0 e) (hr.2 p h0 e) (hro.2 p h0 e)⟩, q2⟩
  | copy i j =>
    simp only [stepOp]
    rcases get_both hI r i with ⟨h1, h2⟩ | ⟨s, s', h1, h2, _, hr⟩
    · simp only [h1, h2]; exact ⟨r, ra⟩
    · simp only [h1, h2]; exact ⟨ALRel_set r j hr, ra⟩
  | rankq id =>
    simp only [stepOp]
    rcases get_both hI r id with ⟨h1, h2⟩ | ⟨s, s', h1, h2, _, hr⟩
    · simp only [h1, h2]; exact ⟨r, ra⟩
    · simp only [h1, h2]; exact ⟨ALRel_set r id ⟨afterRank_rel s s' hr.1, fun p h0 e => afterRank_bal s s' hr.1 p h0 (hr.2 p h0 e)⟩, ra⟩
  | viewq id =>
    simp only [stepOp]
    rcases get_both hI r id with ⟨h1, h2⟩ | ⟨s, s', h1, h2, _, hr⟩
    · simp only [h1, h2]; exact ⟨r, ra⟩
    · simp only [h1, h2]; exact ⟨ALRel_set r id ⟨afterView_rel s s' hr.1, fun p h0 e => afterView_bal s s' hr.1 p h0 (hr.2 p h0 e)⟩, ra⟩

theorem runOps_rel2 {T : Tun} (hT : TunOK T) (F : SecFns ρ) (L : List Nat) (hh : Option Nat) (ops : List Op) :
    ∀ (st st' : Store ρ) (m : List (Nat × SpecSk)) (a a' : Acc), StoreRel T st m → StoreRel2 hh st st' → AccRel L hh a a' →
      (runOps T F st a ops).2.lv <+: L → (∀ h0, hh = some h0 → (runOps T F st a ops).2.oddConst = false) →
      StoreRel2 hh (runOps T F st a ops).1 (runOps T F st' a' ops).1 ∧ AccRel L hh (runOps T F st a ops).2 (runOps T F st' a' ops).2 := by
  induction ops with
  | nil => intro st st' m a a' _ r ra _ _; exact ⟨r, ra⟩
  | cons op ops ih =>
    intro st st' m a a' hI r ra hL hodd
    simp only [runOps] at hL hodd ⊢
    have hmono := runOps_mono T F ops (stepOp T F st a op).1 (stepOp T F st a op).2
    have s1 := stepOp_rel2 hT F L hh st st' m a a' op hI r ra (hmono.pre.trans hL) (fun h0 e => hmono.odd (hodd h0 e))
    have hI' := (stepOp_rel hT F st m a op hI).1
    exact ih _ _ _ _ _ hI' s1.1 s1.2 hL hodd

end DS.Req

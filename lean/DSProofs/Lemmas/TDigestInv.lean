/-
t-digest (C17), exact arithmetic: the state invariant `Inv` and its preservation by update / compress / merge,
hence by every history (`inv_eval`), and the link to the accepted values (`ext_eval`).
-/
import DSProofs.Lemmas.TDigestMerge
namespace DS.TDigest
open Num Conv

structure Inv (s : St Rat) : Prop where
  sorted : Sorted s.cs
  cw : s.cw = sumWeights s.cs
  pos : ∀ c ∈ s.cs, 1 ≤ c.weight
  headW : ∀ c, s.cs.head? = some c → c.weight = 1
  lastW : ∀ c, s.cs.getLast? = some c → c.weight = 1
  bufLo : ∀ v ∈ s.buf, s.min ≤ v
  bufHi : ∀ v ∈ s.buf, v ≤ s.max
  csLo : ∀ c ∈ s.cs, s.min ≤ c.mean
  csHi : ∀ c ∈ s.cs, c.mean ≤ s.max
  minAtt : s.isEmpty = false → s.min ∈ s.buf ∨ ∃ c, s.cs.head? = some c ∧ c.mean = s.min
  maxAtt : s.isEmpty = false → s.max ∈ s.buf ∨ ∃ c, s.cs.getLast? = some c ∧ c.mean = s.max

theorem inv_init (k : Nat) : Inv (init k : St Rat) := by
  constructor <;> simp [init, Sorted, St.isEmpty]

theorem isEmpty_false_iff (s : St Rat) : s.isEmpty = false ↔ s.cs ≠ [] ∨ s.buf ≠ [] := by
  unfold St.isEmpty
  cases s.cs <;> cases s.buf <;> simp

/-- the elements of `merge`'s working list that come from `s` itself -/
theorem single_mean (v : Rat) : (single v).mean = v := rfl
theorem single_weight (v : Rat) : (single v : C).weight = 1 := rfl

theorem headW1_singles (l : List Rat) : HeadW1 (l.map single) :=
  HeadW1.of_all (by intro c hc; simp at hc; obtain ⟨v, _, rfl⟩ := hc; rfl)
theorem lastW1_singles (l : List Rat) : LastW1 (l.map single) :=
  LastW1.of_all (by intro c hc; simp at hc; obtain ⟨v, _, rfl⟩ := hc; rfl)

/-- Everything the callers need to know about `merge(buffer, weight)` on a state satisfying `Inv`, when the
incoming list `tmp` contains the state's own buffer as singletons. -/
theorem mergeCore_inv (sc : Scale Rat) (hsc : ScaleOK sc) (tun : Tun) (s : St Rat) (tmp : List C) (weight : Nat)
    (hs : Inv s) (hne : tmp ≠ []) (hw : weight = sumWeights tmp)
    (hpos : ∀ c ∈ tmp, 1 ≤ c.weight) (hH : HeadW1 tmp) (hL : LastW1 tmp)
    (hbuf : ∀ v ∈ s.buf, single v ∈ tmp) :
    ∃ m0 M0 : C, firstMin (tmp ++ s.cs) = some m0 ∧ lastMax (tmp ++ s.cs) = some M0 ∧
      (mergeCore sc tun s tmp weight).min = m0.mean ∧ (mergeCore sc tun s tmp weight).max = M0.mean ∧
      (mergeCore sc tun s tmp weight).cs.head? = some m0 ∧ (mergeCore sc tun s tmp weight).cs.getLast? = some M0 ∧
      (mergeCore sc tun s tmp weight).buf = [] ∧
      Inv (mergeCore sc tun s tmp weight) := by
  have hLne : tmp ++ s.cs ≠ [] := by simp [hne]
  cases hseq : mergeSeq s tmp with
  | nil => rw [mergeSeq_eq_nil] at hseq; exact absurd hseq hLne
  | cons x xs =>
    have hposL : ∀ c ∈ tmp ++ s.cs, 1 ≤ c.weight := by
      intro c hc
      rcases List.mem_append.1 hc with h | h
      · exact hpos c h
      · exact hs.pos c h
    have hcwL : s.cw + weight = sumWeights (tmp ++ s.cs) := by
      rw [hs.cw, hw]; simp; omega
    obtain ⟨hsorted, hhead, hlast, hp, hlo, hhi⟩ := mergeOut_spec sc hsc tun s tmp weight hseq hposL hcwL
    obtain ⟨m0, hm0⟩ : ∃ m0, firstMin (tmp ++ s.cs) = some m0 := by
      cases h : firstMin (tmp ++ s.cs) with
      | none => exact absurd (firstMin_eq_none.1 h) hLne
      | some m => exact ⟨m, rfl⟩
    obtain ⟨M0, hM0⟩ : ∃ M0, lastMax (tmp ++ s.cs) = some M0 := by
      cases h : lastMax (tmp ++ s.cs) with
      | none => exact absurd (lastMax_eq_none.1 h) hLne
      | some m => exact ⟨m, rfl⟩
    have hHL : HeadW1 (tmp ++ s.cs) := hH.append (HeadW1.of_sorted hs.sorted hs.headW)
    have hLL : LastW1 (tmp ++ s.cs) := hL.append (LastW1.of_sorted hs.sorted hs.lastW)
    have hm0le := firstMin_le hm0
    have hM0ge := lastMax_ge hM0
    -- the old extremes are means of elements of the working list
    have hminle : s.isEmpty = false → m0.mean ≤ s.min := by
      intro he
      rcases hs.minAtt he with h | ⟨c, hc, hcm⟩
      · have := hm0le (single s.min) (List.mem_append_left _ (hbuf _ h))
        simpa [single_mean] using this
      · rw [← hcm]; exact hm0le c (List.mem_append_right _ (List.mem_of_head? hc))
    have hmaxge : s.isEmpty = false → s.max ≤ M0.mean := by
      intro he
      rcases hs.maxAtt he with h | ⟨c, hc, hcm⟩
      · have := hM0ge (single s.max) (List.mem_append_left _ (hbuf _ h))
        simpa [single_mean] using this
      · rw [← hcm]; exact hM0ge c (List.mem_append_right _ (List.mem_of_getLast? hc))
    rw [mergeCore_of_seq sc tun s tmp weight hseq]
    have hmin : (if s.isEmpty = true then headMean (mergeOut sc tun s weight x xs) s.min
        else stdMin s.min (headMean (mergeOut sc tun s weight x xs) s.min)) = m0.mean := by
      have : headMean (mergeOut sc tun s weight x xs) s.min = m0.mean := by
        unfold headMean; rw [hhead, hm0]
      rw [this]
      split
      · rfl
      · rename_i he
        rw [stdMin_eq]
        exact min_eq_right (hminle (by simpa using he))
    have hmax : (if s.isEmpty = true then lastMean (mergeOut sc tun s weight x xs) s.max
        else stdMax s.max (lastMean (mergeOut sc tun s weight x xs) s.max)) = M0.mean := by
      have : lastMean (mergeOut sc tun s weight x xs) s.max = M0.mean := by
        unfold lastMean; rw [hlast, hM0]
      rw [this]
      split
      · rfl
      · rename_i he
        rw [stdMax_eq]
        exact max_eq_right (hmaxge (by simpa using he))
    refine ⟨m0, M0, hm0, hM0, hmin, hmax, by rw [hhead, hm0], by rw [hlast, hM0], rfl, ?_⟩
    constructor
    · exact hsorted
    · show s.cw + weight = sumWeights (mergeOut sc tun s weight x xs)
      rw [sumWeights_mergeOut]
      have := sumWeights_mergeSeq s tmp
      rw [hseq] at this
      simp at this hcwL; omega
    · exact hp
    · intro c hc
      show c.weight = 1
      rw [hhead] at hc
      exact hHL c hc
    · intro c hc
      show c.weight = 1
      rw [hlast] at hc
      exact hLL c hc
    · intro v hv; simp at hv
    · intro v hv; simp at hv
    · intro c hc
      show _ ≤ c.mean
      rw [hmin]
      exact hlo m0.mean hm0le c hc
    · intro c hc
      show c.mean ≤ _
      rw [hmax]
      exact hhi M0.mean hM0ge c hc
    · intro _
      right
      exact ⟨m0, by rw [hhead, hm0], hmin.symm⟩
    · intro _
      right
      exact ⟨M0, by rw [hlast, hM0], hmax.symm⟩

/-! ### compress -/

theorem compress_cases (sc : Scale Rat) (tun : Tun) (s : St Rat) :
    (s.buf = [] ∧ compress sc tun s = s) ∨
    (s.buf ≠ [] ∧ compress sc tun s = mergeCore sc tun s (s.buf.map single) s.buf.length) := by
  unfold compress
  cases h : s.buf with
  | nil => left; exact ⟨rfl, rfl⟩
  | cons v t => right; exact ⟨by simp, rfl⟩

theorem compress_inv (sc : Scale Rat) (hsc : ScaleOK sc) (tun : Tun) (s : St Rat) (hs : Inv s) :
    Inv (compress sc tun s) ∧ (compress sc tun s).buf = [] ∧
    (compress sc tun s).isEmpty = s.isEmpty ∧
    (s.isEmpty = false → (compress sc tun s).min = s.min ∧ (compress sc tun s).max = s.max) := by
  rcases compress_cases sc tun s with ⟨hb, he⟩ | ⟨hb, he⟩
  · rw [he]; exact ⟨hs, hb, rfl, fun _ => ⟨rfl, rfl⟩⟩
  · rw [he]
    obtain ⟨m0, M0, hm0, hM0, hmin, hmax, hhead, hlast, hbuf, hinv⟩ :=
      mergeCore_inv sc hsc tun s (s.buf.map single) s.buf.length hs (by simpa using hb) (by simp)
        (by intro c hc; simp at hc; obtain ⟨v, _, rfl⟩ := hc; exact le_refl _)
        (headW1_singles _) (lastW1_singles _) (fun v hv => List.mem_map_of_mem hv)
    have hne : s.isEmpty = false := (isEmpty_false_iff s).2 (Or.inr hb)
    have hne' : (mergeCore sc tun s (s.buf.map single) s.buf.length).isEmpty = false := by
      rw [isEmpty_false_iff]; left
      intro h; rw [h] at hhead; simp at hhead
    refine ⟨hinv, hbuf, by rw [hne, hne'], fun _ => ?_⟩
    -- the extremes do not move: every element of the working list lies in [min, max] and min/max are among them
    have hLlo : ∀ c ∈ s.buf.map single ++ s.cs, s.min ≤ c.mean := by
      intro c hc
      rcases List.mem_append.1 hc with h | h
      · simp at h; obtain ⟨v, hv, rfl⟩ := h; exact hs.bufLo v hv
      · exact hs.csLo c h
    have hLhi : ∀ c ∈ s.buf.map single ++ s.cs, c.mean ≤ s.max := by
      intro c hc
      rcases List.mem_append.1 hc with h | h
      · simp at h; obtain ⟨v, hv, rfl⟩ := h; exact hs.bufHi v hv
      · exact hs.csHi c h
    constructor
    · rw [hmin]
      apply le_antisymm
      · rcases hs.minAtt hne with h | ⟨c, hc, hcm⟩
        · have := firstMin_le hm0 (single s.min) (List.mem_append_left _ (List.mem_map_of_mem h))
          simpa [single_mean] using this
        · rw [← hcm]; exact firstMin_le hm0 c (List.mem_append_right _ (List.mem_of_head? hc))
      · exact hLlo m0 (firstMin_mem hm0)
    · rw [hmax]
      apply le_antisymm
      · exact hLhi M0 (lastMax_mem hM0)
      · rcases hs.maxAtt hne with h | ⟨c, hc, hcm⟩
        · have := lastMax_ge hM0 (single s.max) (List.mem_append_left _ (List.mem_map_of_mem h))
          simpa [single_mean] using this
        · rw [← hcm]; exact lastMax_ge hM0 c (List.mem_append_right _ (List.mem_of_getLast? hc))

/-! ### update -/

theorem update_eq (sc : Scale Rat) (tun : Tun) (s : St Rat) (v : Rat) :
    ∃ s1 : St Rat, (s1 = s ∨ s1 = compress sc tun s) ∧
      update sc tun s v = { s1 with buf := s1.buf ++ [v],
                                    min := if s1.isEmpty then v else stdMin s1.min v,
                                    max := if s1.isEmpty then v else stdMax s1.max v } := by
  unfold update
  simp only [rat_isNaN, Bool.false_eq_true, if_false]
  split
  · exact ⟨_, Or.inr rfl, rfl⟩
  · exact ⟨_, Or.inl rfl, rfl⟩

theorem push_inv (s1 : St Rat) (v : Rat) (h1 : Inv s1) :
    Inv { s1 with buf := s1.buf ++ [v],
                  min := if s1.isEmpty then v else stdMin s1.min v,
                  max := if s1.isEmpty then v else stdMax s1.max v } := by
  by_cases he : s1.isEmpty = true
  · have hcs : s1.cs = [] := ((isEmpty_iff s1).1 he).1
    have hb : s1.buf = [] := ((isEmpty_iff s1).1 he).2
    constructor <;> simp [hcs, hb, Sorted, h1.cw, St.isEmpty]
  · have he' : s1.isEmpty = false := by simpa using he
    simp only [he, stdMin_eq, stdMax_eq]
    constructor
    · exact h1.sorted
    · exact h1.cw
    · exact h1.pos
    · exact h1.headW
    · exact h1.lastW
    · intro u hu
      show min s1.min v ≤ u
      rcases List.mem_append.1 hu with h | h
      · exact le_trans (min_le_left _ _) (h1.bufLo u h)
      · simp at h; subst h; exact min_le_right _ _
    · intro u hu
      show u ≤ max s1.max v
      rcases List.mem_append.1 hu with h | h
      · exact le_trans (h1.bufHi u h) (le_max_left _ _)
      · simp at h; subst h; exact le_max_right _ _
    · intro c hc; exact le_trans (min_le_left _ _) (h1.csLo c hc)
    · intro c hc; exact le_trans (h1.csHi c hc) (le_max_left _ _)
    · intro _
      show min s1.min v ∈ s1.buf ++ [v] ∨ ∃ c, s1.cs.head? = some c ∧ c.mean = min s1.min v
      rcases le_total s1.min v with h | h
      · rw [min_eq_left h]
        rcases h1.minAtt he' with h2 | h2
        · left; exact List.mem_append_left _ h2
        · right; exact h2
      · rw [min_eq_right h]; left; simp
    · intro _
      show max s1.max v ∈ s1.buf ++ [v] ∨ ∃ c, s1.cs.getLast? = some c ∧ c.mean = max s1.max v
      rcases le_total s1.max v with h | h
      · rw [max_eq_right h]; left; simp
      · rw [max_eq_left h]
        rcases h1.maxAtt he' with h2 | h2
        · left; exact List.mem_append_left _ h2
        · right; exact h2

theorem update_inv (sc : Scale Rat) (hsc : ScaleOK sc) (tun : Tun) (s : St Rat) (v : Rat) (hs : Inv s) :
    Inv (update sc tun s v) := by
  obtain ⟨s1, h1, he⟩ := update_eq sc tun s v
  rw [he]
  apply push_inv
  rcases h1 with rfl | rfl
  · exact hs
  · exact (compress_inv sc hsc tun s hs).1

/-! ### merge -/

theorem merge_cases (sc : Scale Rat) (tun : Tun) (s o : St Rat) :
    (o.isEmpty = true ∧ merge sc tun s o = s) ∨
    (o.isEmpty = false ∧ merge sc tun s o =
      mergeCore sc tun s (s.buf.map single ++ o.buf.map single ++ o.cs) (s.buf.length + o.totalWeight)) := by
  unfold merge
  cases h : o.isEmpty
  · right; exact ⟨rfl, by simp⟩
  · left; exact ⟨rfl, by simp⟩

/-- the working list of `merge(other)` -/
def mergeTmp (s o : St Rat) : List C := s.buf.map single ++ o.buf.map single ++ o.cs

theorem merge_core_inv (sc : Scale Rat) (hsc : ScaleOK sc) (tun : Tun) (s o : St Rat) (hs : Inv s) (ho : Inv o)
    (hoe : o.isEmpty = false) :
    ∃ m0 M0 : C, firstMin (mergeTmp s o ++ s.cs) = some m0 ∧ lastMax (mergeTmp s o ++ s.cs) = some M0 ∧
      (merge sc tun s o).min = m0.mean ∧ (merge sc tun s o).max = M0.mean ∧
      (merge sc tun s o).buf = [] ∧ (merge sc tun s o).cs ≠ [] ∧ Inv (merge sc tun s o) := by
  rcases merge_cases sc tun s o with ⟨h, _⟩ | ⟨_, he⟩
  · rw [h] at hoe; exact absurd hoe (by simp)
  · rw [he]
    have hne : mergeTmp s o ≠ [] := by
      unfold mergeTmp
      rcases (isEmpty_false_iff o).1 hoe with h | h
      · simp [h]
      · simp [h]
    obtain ⟨m0, M0, hm0, hM0, hmin, hmax, hhead, hlast, hbuf, hinv⟩ :=
      mergeCore_inv sc hsc tun s (mergeTmp s o) (s.buf.length + o.totalWeight) hs hne
        (by unfold mergeTmp St.totalWeight; rw [ho.cw]; simp; omega)
        (by
          intro c hc
          unfold mergeTmp at hc
          simp only [List.mem_append, List.mem_map] at hc
          rcases hc with (⟨v, _, rfl⟩ | ⟨v, _, rfl⟩) | h
          · exact le_refl _
          · exact le_refl _
          · exact ho.pos c h)
        ((headW1_singles _).append (headW1_singles _) |>.append (HeadW1.of_sorted ho.sorted ho.headW))
        ((lastW1_singles _).append (lastW1_singles _) |>.append (LastW1.of_sorted ho.sorted ho.lastW))
        (by intro v hv; unfold mergeTmp; simp; left; exact ⟨v, hv, rfl⟩)
    refine ⟨m0, M0, hm0, hM0, hmin, hmax, hbuf, ?_, hinv⟩
    intro h
    have h' : (mergeCore sc tun s (mergeTmp s o) (s.buf.length + o.totalWeight)).cs = [] := h
    rw [h'] at hhead; simp at hhead

theorem merge_inv (sc : Scale Rat) (hsc : ScaleOK sc) (tun : Tun) (s o : St Rat) (hs : Inv s) (ho : Inv o) :
    Inv (merge sc tun s o) := by
  cases hoe : o.isEmpty
  · obtain ⟨_, _, _, _, _, _, _, _, h⟩ := merge_core_inv sc hsc tun s o hs ho hoe
    exact h
  · rcases merge_cases sc tun s o with ⟨_, h⟩ | ⟨h, _⟩
    · rw [h]; exact hs
    · rw [h] at hoe; exact absurd hoe (by simp)

/-- the invariant holds after every history -/
theorem inv_eval (sc : Scale Rat) (hsc : ScaleOK sc) (tun : Tun) (h : Hist Rat) : Inv (h.eval sc tun) := by
  induction h with
  | new k => exact inv_init k
  | update h v ih => exact update_inv sc hsc tun _ v ih
  | compress h ih => exact (compress_inv sc hsc tun _ ih).1
  | merge h o ih1 ih2 => exact merge_inv sc hsc tun _ _ ih1 ih2

end DS.TDigest

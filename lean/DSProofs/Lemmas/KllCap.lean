/- Capacities of the KLL model: depth-indexed total capacity, growth by one level, the pigeonhole behind
`find_level_to_compact`. -/
import DSProofs.Lemmas.KllBasic
namespace DS.Kll
open DS

variable {α : Type}

/-- side conditions on the constants taken from the headers (decidable; discharged for `genParams`) -/
structure ParamsOk (P : Params) : Prop where
  m_ge : 2 ≤ P.m
  minK_ge : P.m ≤ P.minK
  pow3_zero : P.pow3.getD 0 1 = 1

theorem capAtDepth_ge (P : Params) (k d : Nat) : P.m ≤ capAtDepth P k d := Nat.le_max_left _ _

theorem levelCapacity_ge (P : Params) (k N h : Nat) : P.m ≤ levelCapacity P k N h := capAtDepth_ge P k _

/-- total capacity indexed by depth -/
def totalCapD (P : Params) (k : Nat) : Nat → Nat
  | 0 => 0
  | L + 1 => totalCapD P k L + capAtDepth P k L

theorem sumCaps_add_totalCapD (P : Params) (k N : Nat) : ∀ h, h ≤ N → sumCaps P k N h + totalCapD P k (N - h) = totalCapD P k N
  | 0, _ => by simp [sumCaps]
  | h + 1, hh => by
    have ih := sumCaps_add_totalCapD P k N h (by omega)
    have e : N - h = (N - (h + 1)) + 1 := by omega
    rw [e, totalCapD] at ih
    simp only [sumCaps, levelCapacity]
    have e2 : N - h - 1 = N - (h + 1) := by omega
    rw [e2]; omega

theorem computeTotalCapacity_eq (P : Params) (k N : Nat) : computeTotalCapacity P k N = totalCapD P k N := by
  have := sumCaps_add_totalCapD P k N N (Nat.le_refl _)
  simpa [computeTotalCapacity, totalCapD] using this

theorem levelCapacity_eq (P : Params) (k N h : Nat) : levelCapacity P k N h = capAtDepth P k (N - h - 1) := rfl

theorem computeTotalCapacity_succ (P : Params) (k N : Nat) :
    computeTotalCapacity P k (N + 1) = computeTotalCapacity P k N + levelCapacity P k (N + 1) 0 := by
  rw [computeTotalCapacity_eq, computeTotalCapacity_eq, totalCapD, levelCapacity_eq]
  simp

theorem intCapAux_zero (P : Params) (ok : ParamsOk P) (k : Nat) : intCapAux P k 0 = k := by
  simp only [intCapAux, Nat.zero_le, if_true, intCapAuxAux, ok.pow3_zero, Nat.pow_zero, Nat.mul_one, Nat.div_one]
  omega

theorem computeTotalCapacity_one (P : Params) (ok : ParamsOk P) (k : Nat) (hk : P.m ≤ k) :
    computeTotalCapacity P k 1 = k := by
  rw [computeTotalCapacity_eq]
  simp only [totalCapD, capAtDepth, intCapAux_zero P ok]
  omega

theorem totalCapD_mono (P : Params) (k : Nat) : ∀ a b, a ≤ b → totalCapD P k a ≤ totalCapD P k b := by
  intro a b h
  induction b with
  | zero => have : a = 0 := by omega
            subst this; exact Nat.le_refl _
  | succ n ih =>
    rcases Nat.lt_or_ge a (n + 1) with h1 | h1
    · have := ih (by omega); simp only [totalCapD]; omega
    · have : a = n + 1 := by omega
      subst this; exact Nat.le_refl _

/-- capacities of the levels `lvl, lvl+1, …` of a list -/
def capsFrom (P : Params) (k N : Nat) : Nat → List (List α) → Nat
  | _, [] => 0
  | lvl, _ :: t => levelCapacity P k N lvl + capsFrom P k N (lvl + 1) t

theorem sumCaps_add_capsFrom (P : Params) (k N : Nat) : ∀ (L : List (List α)) (lvl : Nat),
    sumCaps P k N (lvl + L.length) = sumCaps P k N lvl + capsFrom P k N lvl L
  | [], lvl => by simp [capsFrom]
  | _ :: t, lvl => by
    have := sumCaps_add_capsFrom P k N t (lvl + 1)
    simp only [List.length_cons, capsFrom]
    have e : lvl + (t.length + 1) = lvl + 1 + t.length := by omega
    rw [e, this]; simp only [sumCaps]; omega

theorem computeTotalCapacity_eq_capsFrom (P : Params) (k : Nat) (L : List (List α)) :
    computeTotalCapacity P k L.length = capsFrom P k L.length 0 L := by
  have := sumCaps_add_capsFrom P k L.length L 0
  simpa [computeTotalCapacity, sumCaps] using this

theorem findLevel_ge (P : Params) (k N : Nat) : ∀ (L : List (List α)) (lvl : Nat), lvl ≤ findLevel P k N L lvl
  | [], lvl => by simp [findLevel]
  | l :: t, lvl => by
    simp only [findLevel]; split
    · exact Nat.le_refl _
    · have := findLevel_ge P k N t (lvl + 1); omega

theorem findLevel_le (P : Params) (k N : Nat) : ∀ (L : List (List α)) (lvl : Nat), findLevel P k N L lvl ≤ lvl + L.length
  | [], lvl => by simp [findLevel]
  | l :: t, lvl => by
    simp only [findLevel, List.length_cons]; split
    · omega
    · have := findLevel_le P k N t (lvl + 1); omega

/-- the level found is at (or above) its capacity -/
theorem findLevel_spec (P : Params) (k N : Nat) : ∀ (L : List (List α)) (lvl : Nat),
    findLevel P k N L lvl < lvl + L.length →
    levelCapacity P k N (findLevel P k N L lvl) ≤ (L.getD (findLevel P k N L lvl - lvl) []).length
  | [], lvl, h => by simp [findLevel] at h
  | l :: t, lvl, h => by
    simp only [findLevel] at h ⊢
    split
    · rename_i hc; simpa using hc
    · rename_i hc
      rw [if_neg hc] at h
      have ih := findLevel_spec P k N t (lvl + 1) (by simp only [List.length_cons] at h; omega)
      have hge := findLevel_ge P k N t (lvl + 1)
      have e : findLevel P k N t (lvl + 1) - lvl = (findLevel P k N t (lvl + 1) - (lvl + 1)) + 1 := by omega
      rw [e, List.getD_cons_succ]; exact ih

/-- pigeonhole: if no level is at capacity the sketch is not full -/
theorem findLevel_none (P : Params) (k N : Nat) : ∀ (L : List (List α)) (lvl : Nat),
    findLevel P k N L lvl = lvl + L.length → L ≠ [] → sizeSum L < capsFrom P k N lvl L
  | [], _, _, h => absurd rfl h
  | l :: t, lvl, h, _ => by
    simp only [findLevel] at h
    split at h
    · simp only [List.length_cons] at h; omega
    · rename_i hc
      simp only [List.length_cons] at h
      simp only [sizeSum, capsFrom]
      cases t with
      | nil => simp only [sizeSum, capsFrom]; omega
      | cons l2 t2 =>
        have := findLevel_none P k N (l2 :: t2) (lvl + 1) (by simp only [List.length_cons] at h ⊢; omega) (by simp)
        omega

end DS.Kll

/-
t-digest (C17), exact arithmetic: min_/max_ are the exact extremes of the accepted values (`ext_eval`).
Note where the merge case gets its information from: `merge(other)` never reads `other.min_/max_`; the new
extremes are the means of the first / last centroid after the merge, which are input elements because the
extreme centroids are singletons (`Inv.headW/lastW`, i.e. `ScaleOK`).
-/
import DSProofs.Lemmas.TDigestInv
namespace DS.TDigest
open Num Conv

/-- `s.min/s.max` are the extremes of the list `A` (and `s` is empty only if `A` is). -/
def Ext (s : St Rat) (A : List Rat) : Prop :=
  (s.isEmpty = true → A = []) ∧
  (s.isEmpty = false → (s.min ∈ A ∧ ∀ v ∈ A, s.min ≤ v) ∧ (s.max ∈ A ∧ ∀ v ∈ A, v ≤ s.max))

theorem ext_compress (sc : Scale Rat) (hsc : ScaleOK sc) (tun : Tun) (s : St Rat) (A : List Rat)
    (hs : Inv s) (he : Ext s A) : Ext (compress sc tun s) A := by
  obtain ⟨_, _, hemp, hmm⟩ := compress_inv sc hsc tun s hs
  constructor
  · intro h; exact he.1 (by rw [← hemp]; exact h)
  · intro h
    have h' : s.isEmpty = false := by rw [← hemp]; exact h
    rw [(hmm h').1, (hmm h').2]
    exact he.2 h'

theorem ext_push (s1 : St Rat) (v : Rat) (A : List Rat) (he : Ext s1 A) :
    Ext { s1 with buf := s1.buf ++ [v],
                  min := if s1.isEmpty then v else stdMin s1.min v,
                  max := if s1.isEmpty then v else stdMax s1.max v } (A ++ [v]) := by
  constructor
  · intro h; simp [St.isEmpty] at h
  · intro _
    by_cases hemp : s1.isEmpty = true
    · have hA := he.1 hemp
      subst hA
      simp [hemp]
    · have hemp' : s1.isEmpty = false := by simpa using hemp
      obtain ⟨⟨h1, h2⟩, ⟨h3, h4⟩⟩ := he.2 hemp'
      simp only [hemp, stdMin_eq, stdMax_eq]
      refine ⟨⟨?_, ?_⟩, ⟨?_, ?_⟩⟩
      · show min s1.min v ∈ A ++ [v]
        rcases le_total s1.min v with h | h
        · rw [min_eq_left h]; exact List.mem_append_left _ h1
        · rw [min_eq_right h]; simp
      · intro u hu
        show min s1.min v ≤ u
        rcases List.mem_append.1 hu with h | h
        · exact le_trans (min_le_left _ _) (h2 u h)
        · simp at h; subst h; exact min_le_right _ _
      · show max s1.max v ∈ A ++ [v]
        rcases le_total s1.max v with h | h
        · rw [max_eq_right h]; simp
        · rw [max_eq_left h]; exact List.mem_append_left _ h3
      · intro u hu
        show u ≤ max s1.max v
        rcases List.mem_append.1 hu with h | h
        · exact le_trans (h4 u h) (le_max_left _ _)
        · simp at h; subst h; exact le_max_right _ _

theorem ext_update (sc : Scale Rat) (hsc : ScaleOK sc) (tun : Tun) (s : St Rat) (v : Rat) (A : List Rat)
    (hs : Inv s) (he : Ext s A) : Ext (update sc tun s v) (A ++ [v]) := by
  obtain ⟨s1, h1, heq⟩ := update_eq sc tun s v
  rw [heq]
  apply ext_push
  rcases h1 with rfl | rfl
  · exact he
  · exact ext_compress sc hsc tun s A hs he

theorem mem_L_sbuf {s o : St Rat} {v : Rat} (h : v ∈ s.buf) : single v ∈ mergeTmp s o ++ s.cs :=
  List.mem_append_left _ (List.mem_append_left _ (List.mem_append_left _ (List.mem_map_of_mem h)))
theorem mem_L_obuf {s o : St Rat} {v : Rat} (h : v ∈ o.buf) : single v ∈ mergeTmp s o ++ s.cs :=
  List.mem_append_left _ (List.mem_append_left _ (List.mem_append_right _ (List.mem_map_of_mem h)))
theorem mem_L_ocs {s o : St Rat} {c : C} (h : c ∈ o.cs) : c ∈ mergeTmp s o ++ s.cs :=
  List.mem_append_left _ (List.mem_append_right _ h)
theorem mem_L_scs {s o : St Rat} {c : C} (h : c ∈ s.cs) : c ∈ mergeTmp s o ++ s.cs :=
  List.mem_append_right _ h

theorem ext_merge (sc : Scale Rat) (hsc : ScaleOK sc) (tun : Tun) (s o : St Rat) (A Ao : List Rat)
    (hs : Inv s) (ho : Inv o) (he : Ext s A) (heo : Ext o Ao) : Ext (merge sc tun s o) (A ++ Ao) := by
  cases hoe : o.isEmpty
  · obtain ⟨m0, M0, hm0, hM0, hmin, hmax, _, hne, _⟩ := merge_core_inv sc hsc tun s o hs ho hoe
    have hnonempty : (merge sc tun s o).isEmpty = false := (isEmpty_false_iff _).2 (Or.inl hne)
    constructor
    · intro h; rw [hnonempty] at h; exact absurd h (by simp)
    · intro _
      obtain ⟨⟨ho1, ho2⟩, ⟨ho3, ho4⟩⟩ := heo.2 hoe
      have hm0le := firstMin_le hm0
      have hM0ge := lastMax_ge hM0
      have hm0mem := firstMin_mem hm0
      have hM0mem := lastMax_mem hM0
      -- the operands' extremes are means of elements of the working list
      have hOmin : m0.mean ≤ o.min := by
        rcases ho.minAtt hoe with h | ⟨c, hc, hcm⟩
        · have := hm0le (single o.min) (mem_L_obuf h)
          simpa [single_mean] using this
        · rw [← hcm]; exact hm0le c (mem_L_ocs (List.mem_of_head? hc))
      have hOmax : o.max ≤ M0.mean := by
        rcases ho.maxAtt hoe with h | ⟨c, hc, hcm⟩
        · have := hM0ge (single o.max) (mem_L_obuf h)
          simpa [single_mean] using this
        · rw [← hcm]; exact hM0ge c (mem_L_ocs (List.mem_of_getLast? hc))
      have hSmin : s.isEmpty = false → m0.mean ≤ s.min := by
        intro hse
        rcases hs.minAtt hse with h | ⟨c, hc, hcm⟩
        · have := hm0le (single s.min) (mem_L_sbuf h)
          simpa [single_mean] using this
        · rw [← hcm]; exact hm0le c (mem_L_scs (List.mem_of_head? hc))
      have hSmax : s.isEmpty = false → s.max ≤ M0.mean := by
        intro hse
        rcases hs.maxAtt hse with h | ⟨c, hc, hcm⟩
        · have := hM0ge (single s.max) (mem_L_sbuf h)
          simpa [single_mean] using this
        · rw [← hcm]; exact hM0ge c (mem_L_scs (List.mem_of_getLast? hc))
      -- an element of the working list comes from `s` (then s is non-empty and it lies in [s.min, s.max]) or from `o`
      have hsplit : ∀ c ∈ mergeTmp s o ++ s.cs,
          (s.isEmpty = false ∧ s.min ≤ c.mean ∧ c.mean ≤ s.max) ∨ (o.min ≤ c.mean ∧ c.mean ≤ o.max) := by
        intro c hc
        unfold mergeTmp at hc
        simp only [List.mem_append, List.mem_map] at hc
        rcases hc with ((⟨v, hv, rfl⟩ | ⟨v, hv, rfl⟩) | h) | h
        · left; exact ⟨(isEmpty_false_iff s).2 (Or.inr (List.ne_nil_of_mem hv)), hs.bufLo v hv, hs.bufHi v hv⟩
        · right; exact ⟨ho.bufLo v hv, ho.bufHi v hv⟩
        · right; exact ⟨ho.csLo c h, ho.csHi c h⟩
        · left; exact ⟨(isEmpty_false_iff s).2 (Or.inl (List.ne_nil_of_mem h)), hs.csLo c h, hs.csHi c h⟩
      rw [hmin, hmax]
      refine ⟨⟨?_, ?_⟩, ⟨?_, ?_⟩⟩
      · rcases hsplit m0 hm0mem with ⟨hse, h1, _⟩ | ⟨h1, _⟩
        · rw [le_antisymm (hSmin hse) h1]; exact List.mem_append_left _ ((he.2 hse).1.1)
        · rw [le_antisymm hOmin h1]; exact List.mem_append_right _ ho1
      · intro v hv
        rcases List.mem_append.1 hv with h | h
        · have hse : s.isEmpty = false := by
            cases hh : s.isEmpty
            · rfl
            · rw [he.1 hh] at h; simp at h
          exact le_trans (hSmin hse) ((he.2 hse).1.2 v h)
        · exact le_trans hOmin (ho2 v h)
      · rcases hsplit M0 hM0mem with ⟨hse, _, h1⟩ | ⟨_, h1⟩
        · rw [le_antisymm h1 (hSmax hse)]; exact List.mem_append_left _ ((he.2 hse).2.1)
        · rw [le_antisymm h1 hOmax]; exact List.mem_append_right _ ho3
      · intro v hv
        rcases List.mem_append.1 hv with h | h
        · have hse : s.isEmpty = false := by
            cases hh : s.isEmpty
            · rfl
            · rw [he.1 hh] at h; simp at h
          exact le_trans ((he.2 hse).2.2 v h) (hSmax hse)
        · exact le_trans (ho4 v h) hOmax
  · rcases merge_cases sc tun s o with ⟨_, h⟩ | ⟨h, _⟩
    · rw [h, heo.1 hoe]; simpa using he
    · rw [h] at hoe; exact absurd hoe (by simp)

theorem accepted_update (h : Hist Rat) (v : Rat) : (Hist.update h v).accepted = h.accepted ++ [v] := by
  simp [Hist.accepted]

/-- min_/max_ are the exact extremes of the accepted values, after every history -/
theorem ext_eval (sc : Scale Rat) (hsc : ScaleOK sc) (tun : Tun) (h : Hist Rat) : Ext (h.eval sc tun) h.accepted := by
  induction h with
  | new k => exact ⟨fun _ => rfl, fun h => by simp [Hist.eval, init, St.isEmpty] at h⟩
  | update h v ih => rw [accepted_update]; exact ext_update sc hsc tun _ v _ (inv_eval sc hsc tun h) ih
  | compress h ih => exact ext_compress sc hsc tun _ _ (inv_eval sc hsc tun h) ih
  | merge h o ih1 ih2 => exact ext_merge sc hsc tun _ _ _ _ (inv_eval sc hsc tun h) (inv_eval sc hsc tun o) ih1 ih2

end DS.TDigest

/- C19, KLL sketch part 14: `merge` – min/max update, the contract modulo `merge_higher_levels`, the level-1 case. -/
import DSProofs.Lemmas.LifeKllM
namespace DS.Life.Kll
open DS.Life

theorem vstep_fwdConstruct {β} {S} {h : Heap} {byMove : Bool} {sb si sn db di dn v : Nat} {f : Unit → M β}
    {Q : β → Heap → Prop}
    (hcs : HasCells h sb sn) (hsi : si < sn) (hl : stAt h sb si = .live v)
    (hcd : HasCells h db dn) (hdi : di < dn) (hr : stAt h db di = .raw) (hSs : S sb = true) (hSd : S db = true)
    (k : ∀ h', SameBut h h' (fun b' j => (b' = sb ∧ j = si) ∨ (b' = db ∧ j = di)) → stAt h' db di = .live v →
          stAt h' sb si ≠ .raw → (byMove = false → stAt h' sb si = stAt h sb si) → SafeF S h' (f () h') Q) :
    SafeF S h ((fwdConstruct byMove sb si db di >>= f) h) Q := by
  unfold fwdConstruct
  cases byMove with
  | false =>
    simp only [Bool.false_eq_true, if_false]
    apply vstep_copyConstruct hcs hsi hl hcd hdi hr hSd
    intro h1 sb1 hst
    have hne : ¬ (sb = db ∧ si = di) := by
      rintro ⟨rfl, rfl⟩; rw [hl] at hr; cases hr
    have e : stAt h1 sb si = stAt h sb si := sb1.st _ _ hne
    exact k h1 (sb1.mono (fun _ _ x => Or.inr x)) hst (by rw [e, hl]; simp) (fun _ => e)
  | true =>
    simp only [if_true]
    apply vstep_moveConstruct hcs hsi hl hcd hdi hr hSs hSd
    intro h1 sb1 hst hsm
    exact k h1 sb1 hst (by rw [hsm]; simp) (fun e => by cases e)

theorem vstep_fwdAssign {β} {S} {h : Heap} {byMove : Bool} {sb si sn db di dn v : Nat} {f : Unit → M β}
    {Q : β → Heap → Prop}
    (hcs : HasCells h sb sn) (hsi : si < sn) (hl : stAt h sb si = .live v)
    (hcd : HasCells h db dn) (hdi : di < dn) (hr : stAt h db di ≠ .raw) (hne : sb ≠ db) (hSs : S sb = true)
    (hSd : S db = true)
    (k : ∀ h', SameBut h h' (fun b' j => (b' = sb ∧ j = si) ∨ (b' = db ∧ j = di)) → stAt h' db di = .live v →
          stAt h' sb si ≠ .raw → (byMove = false → stAt h' sb si = stAt h sb si) → SafeF S h' (f () h') Q) :
    SafeF S h (((if byMove = true then moveAssignSlot sb si db di else copyAssignSlot sb si db di) >>= f) h) Q := by
  cases byMove with
  | false =>
    simp only [Bool.false_eq_true, if_false]
    apply vstep_copyAssignSlot hcs hsi hl hcd hdi hr hSd
    intro h1 sb1 hst
    have e : stAt h1 sb si = stAt h sb si := sb1.st _ _ (fun x => hne x.1)
    exact k h1 (sb1.mono (fun _ _ x => Or.inr x)) hst (by rw [e, hl]; simp) (fun _ => e)
  | true =>
    simp only [if_true]
    apply vstep_moveAssignSlot hcs hsi hl hcd hdi hr (fun x => hne x.1.symm) hSs hSd
    intro h1 sb1 hst hsm
    exact k h1 sb1 hst (by rw [hsm]; simp) (fun e => by cases e)

/-- `merge`, given a specification of `merge_higher_levels` -/
theorem merge_gen (P : Params) (hP : P.OK) (n0 : Nat) (s o : Sketch) (byMove : Bool) (coins : List Bool)
    (ids0 : List Nat)
    (hml : ∀ b h hA, MCtx P n0 ids0 s o b h → hA.next = n0 → o.numLevels ≥ 2 → MHLSpec P n0 s o b byMove hA)
    (h64 : o.numLevels ≥ 2 → s.n + o.n < 2 ^ 64) :
    TripleS n0 (foot (owned s ++ owned o) n0)
      (fun h => Usable P h s ∧ Usable P h o ∧ (∀ b, b ∈ owned s → b ∉ owned o) ∧ h.ids = ids0 ∧ h.next = n0 ∧
         (∀ b, b ∈ owned s → b < n0) ∧ (∀ b, b ∈ owned o → b < n0) ∧ (∀ x, x ∈ ids0 → x < n0))
      (merge s o byMove coins)
      (fun r h' => Usable P h' r.1 ∧ Inv P h' o ∧ (byMove = false → Usable P h' o) ∧ (∀ b, b ∈ owned r.1 → b ∉ owned o) ∧
         Owns h' ids0 (owned s ++ owned o) (owned r.1 ++ owned o) n0) := by
  intro h hn ⟨us, uo, dj, hid, hnx, _, _, hwf⟩
  obtain ⟨b, hb, _⟩ := us.items
  have ctx : MCtx P n0 ids0 s o b h := ⟨us, uo, dj, hid, hnx, hwf, hb⟩
  obtain ⟨hself_lt, hblt, hbself, hbi, hviewf, hof⟩ := ctx.static
  have invs := us.toInv
  have invo := uo.toInv
  have hoself : o.self ∈ owned o := mem_owned.2 (Or.inl rfl)
  have hos : o.self ≠ s.self := (hof _ hoself).2.1
  have hSs : foot (owned s ++ owned o) n0 s.self = true := foot_own (by simp [mem_owned])
  have hSo : foot (owned s ++ owned o) n0 o.self = true := foot_own (by simp [mem_owned])
  rw [merge_eq]
  by_cases hon : o.n = 0
  · rw [if_pos hon]
    apply SafeF.pure
    refine ⟨us, invo, fun _ => uo, dj, Owns.of_same hid (fun x hx => ?_) (fun _ => Iff.rfl)⟩
    rw [List.mem_append] at hx
    rcases hx with hx | hx
    · exact hid ▸ (invs.owned_ids x hx).1
    · exact hid ▸ (invo.owned_ids x hx).1
  rw [if_neg hon]
  by_cases hm : s.m ≠ o.m
  · rw [if_pos hm]; exact SafeF.exc _
  rw [if_neg hm]
  obtain ⟨⟨w0, hw0⟩, ⟨w1, hw1⟩⟩ := uo.mm1 hon
  have tail := fun hA (amm : AfterMM h hA s o byMove) => mergeTail_spec P hP n0 ids0 s o b h ctx byMove coins hon hA amm
    (hml b h hA ctx (by rw [amm.sb.next, hnx])) h64
  by_cases hsn : s.n = 0
  · rw [if_pos hsn]
    obtain ⟨r0, r1⟩ := us.mm0 hsn
    apply vstep_fwdConstruct invo.self_cells (by omega : 0 < 2) hw0 invs.self_cells (by omega : 0 < 2) r0 hSo hSs
    intro h1 sb1 hd1 hs1 hk1
    apply vstep_fwdConstruct (sb1.cells _ _ invo.self_cells) (by omega : 1 < 2)
      (by rw [sb1.st _ _ (fun x => by rcases x with x | x <;> omega)]; exact hw1)
      (sb1.cells _ _ invs.self_cells) (by omega : 1 < 2)
      (by rw [sb1.st _ _ (fun x => by rcases x with x | x <;> omega)]; exact r1) hSo hSs
    intro h2 sb2 hd2 hs2 hk2
    apply tail h2
    refine ⟨sb1.trans sb2 (fun _ _ x => by rcases x with x | x; exact Or.inr x.1; exact Or.inl x.1)
        (fun _ _ x => by rcases x with x | x; exact Or.inr x.1; exact Or.inl x.1),
      ⟨⟨w0, by rw [sb2.st _ _ (fun x => by rcases x with x | x <;> omega)]; exact hd1⟩, ⟨w1, hd2⟩⟩, fun e j => ?_⟩
    by_cases hj0 : j = 0
    · subst hj0
      rw [sb2.st _ _ (fun x => by rcases x with x | x <;> omega)]; exact hk1 e
    · by_cases hj1 : j = 1
      · subst hj1
        rw [hk2 e]; exact sb1.st _ _ (fun x => by rcases x with x | x <;> omega)
      · rw [sb2.st _ _ (fun x => by rcases x with x | x <;> omega),
          sb1.st _ _ (fun x => by rcases x with x | x <;> omega)]
  · rw [if_neg hsn]
    obtain ⟨⟨v0, hv0⟩, ⟨v1, hv1⟩⟩ := us.mm1 hsn
    apply vstep_read invo.self_cells (by omega : 0 < 2) hw0
    apply vstep_read invs.self_cells (by omega : 0 < 2) hv0
    -- after the minimum
    have jp : ∀ h1, SameBut h h1 (fun b' j => (b' = o.self ∧ j = 0) ∨ (b' = s.self ∧ j = 0)) →
        (∃ w, stAt h1 s.self 0 = .live w) → (byMove = false → stAt h1 o.self 0 = stAt h o.self 0) →
        SafeF (foot (owned s ++ owned o) n0) h1 (mergeMax s o byMove coins h1)
          (fun r h' => Usable P h' r.1 ∧ Inv P h' o ∧ (byMove = false → Usable P h' o) ∧
            (∀ b, b ∈ owned r.1 → b ∉ owned o) ∧ Owns h' ids0 (owned s ++ owned o) (owned r.1 ++ owned o) n0) := by
      intro h1 sb1 hl0 hk0
      have hv1' : stAt h1 s.self 1 = .live v1 := by
        rw [sb1.st _ _ (fun x => by rcases x with x | x <;> omega)]; exact hv1
      have hw1' : stAt h1 o.self 1 = .live w1 := by
        rw [sb1.st _ _ (fun x => by rcases x with x | x <;> omega)]; exact hw1
      unfold mergeMax
      apply vstep_read (sb1.cells _ _ invs.self_cells) (by omega : 1 < 2) hv1'
      apply vstep_read (sb1.cells _ _ invo.self_cells) (by omega : 1 < 2) hw1'
      by_cases hc : v1 < w1
      · rw [if_pos hc]
        apply vstep_fwdAssign (sb1.cells _ _ invo.self_cells) (by omega : 1 < 2) hw1' (sb1.cells _ _ invs.self_cells)
          (by omega : 1 < 2) (by rw [hv1']; simp) hos hSo hSs
        intro h2 sb2 hd2 hs2 hk2
        apply tail h2
        refine ⟨sb1.trans sb2 (fun _ _ x => by rcases x with x | x; exact Or.inr x.1; exact Or.inl x.1)
            (fun _ _ x => by rcases x with x | x; exact Or.inr x.1; exact Or.inl x.1), ⟨?_, ⟨w1, hd2⟩⟩, fun e j => ?_⟩
        · obtain ⟨w, hw⟩ := hl0
          exact ⟨w, by rw [sb2.st _ _ (fun x => by rcases x with x | x <;> omega)]; exact hw⟩
        · by_cases hj0 : j = 0
          · subst hj0
            rw [sb2.st _ _ (fun x => by rcases x with x | x <;> omega)]; exact hk0 e
          · by_cases hj1 : j = 1
            · subst hj1
              rw [hk2 e]; exact sb1.st _ _ (fun x => by rcases x with x | x <;> omega)
            · rw [sb2.st _ _ (fun x => by rcases x with x | x <;> omega),
                sb1.st _ _ (fun x => by rcases x with x | x <;> omega)]
      · rw [if_neg hc]
        apply tail h1
        refine ⟨sb1.mono (fun _ _ x => by rcases x with x | x; exact Or.inr x.1; exact Or.inl x.1),
          ⟨hl0, ⟨v1, hv1'⟩⟩, fun e j => ?_⟩
        by_cases hj0 : j = 0
        · subst hj0; exact hk0 e
        · exact sb1.st _ _ (fun x => by rcases x with x | x <;> omega)
    by_cases hc : w0 < v0
    · rw [if_pos hc]
      apply vstep_fwdAssign invo.self_cells (by omega : 0 < 2) hw0 invs.self_cells (by omega : 0 < 2)
        (by rw [hv0]; simp) hos hSo hSs
      intro h1 sb1 hd1 hs1 hk1
      exact jp h1 sb1 ⟨w0, hd1⟩ hk1
    · rw [if_neg hc]
      exact jp h (SameBut.refl _ _) ⟨v0, hv0⟩ (fun _ => rfl)


/-- `merge` when the other sketch has a single level, so that `merge_higher_levels` is not called
    (restricted version of `merge_contract`: the hypothesis `o.numLevels = 1` is what is missing). -/
theorem merge_contract_lvl1 (P : Params) (hP : P.OK) (n0 : Nat) (s o : Sketch) (byMove : Bool) (coins : List Bool)
    (ids0 : List Nat) (hlv : o.numLevels = 1) :
    TripleS n0 (foot (owned s ++ owned o) n0)
      (fun h => Usable P h s ∧ Usable P h o ∧ (∀ b, b ∈ owned s → b ∉ owned o) ∧ h.ids = ids0 ∧ h.next = n0 ∧
         (∀ b, b ∈ owned s → b < n0) ∧ (∀ b, b ∈ owned o → b < n0) ∧ (∀ x, x ∈ ids0 → x < n0))
      (merge s o byMove coins)
      (fun r h' => Usable P h' r.1 ∧ Inv P h' o ∧ (byMove = false → Usable P h' o) ∧ (∀ b, b ∈ owned r.1 → b ∉ owned o) ∧
         Owns h' ids0 (owned s ++ owned o) (owned r.1 ++ owned o) n0) :=
  merge_gen P hP n0 s o byMove coins ids0 (fun _ _ _ _ _ hge => by omega) (fun hge => by omega)

end DS.Life.Kll

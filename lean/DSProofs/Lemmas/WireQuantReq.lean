/-
REQ image: helper lemmas for the round trip, prefix safety and boundedness theorems (Props/C09_Req, C10_Req, C11_Req).
-/
import DSModel.Wire.Req
import DSProofs.Lemmas.WireQuant
namespace DS.Wire.Req
open Reader

/-- side conditions on the wire constants (decidable; `docCfg` satisfies them) -/
def CfgOK (c : Cfg) : Prop :=
  c.bitEmpty = 2 ∧ c.bitHra = 3 ∧ c.bitRaw = 4 ∧ c.bitLz = 5 ∧
  c.family < 256 ∧ c.ver < 256 ∧ c.preEst < 256 ∧ c.preExact < 256 ∧ c.preambleSize = 8

instance (c : Cfg) : Decidable (CfgOK c) := by unfold CfgOK; infer_instance

theorem flags_rt (c : Cfg) (hc : CfgOK c) (e h r l : Bool) :
    bit (mkFlags c e h r l) c.bitEmpty = e ∧ bit (mkFlags c e h r l) c.bitHra = h ∧
    bit (mkFlags c e h r l) c.bitRaw = r ∧ bit (mkFlags c e h r l) c.bitLz = l ∧ mkFlags c e h r l < 256 := by
  obtain ⟨h0, h1, h2, h3, _⟩ := hc
  simp only [mkFlags, bit, h0, h1, h2, h3]
  cases e <;> cases h <;> cases r <;> cases l <;> decide

theorem length_header (c : Cfg) (s : Image) : (header c s).length = 8 := by simp [header]

theorem decCompactor_enc (sd : Serde) (hs : sd.Lawful) (x : Compactor) (r : Bytes) (hw : compactorWF sd x = true) :
    decCompactor sd (encCompactor sd x ++ r) = some (x, r) := by
  simp only [compactorWF, Bool.and_eq_true, decide_eq_true_eq] at hw
  obtain ⟨⟨⟨⟨⟨h1, h2⟩, h3⟩, h4⟩, h5⟩, h6⟩ := hw
  simp only [decCompactor, encCompactor, List.append_assoc]
  rw [bind_step (u64_w64 x.state h1 _), bind_step (u32_w32 x.ssr h2 _), bind_step (u8_w8 x.lgWeight (by omega) _),
    bind_step (u8_w8 x.numSections (by omega) _), bind_step (u16_w16 0 (by omega) _), guard_true_step (by rfl),
    bind_step (u32_w32 x.items.length h5 _), bind_step (repeatN_items sd hs x.items r h6)]
  rfl

theorem decCompactor_PS (sd : Serde) (hs : sd.Lawful) : PS (decCompactor sd) :=
  PS_bind _ _ PS_u64 fun _ => PS_bind _ _ PS_u32 fun _ => PS_bind _ _ PS_u8 fun _ => PS_bind _ _ PS_u8 fun _ =>
  PS_bind _ _ PS_u16 fun _ => PS_bind _ _ (PS_guard _) fun _ => PS_bind _ _ PS_u32 fun _ =>
  PS_bind _ _ (PS_repeatN _ hs.ps _) fun _ => PS_pure _

theorem decCompactor_bound (sd : Serde) (hs : sd.Lawful) (b r : Bytes) (x : Compactor)
    (h : decCompactor sd b = some (x, r)) : x.items.length + r.length ≤ b.length := by
  simp only [decCompactor] at h
  obtain ⟨a1, r1, h1, h⟩ := bind_inv h
  obtain ⟨a2, r2, h2, h⟩ := bind_inv h
  obtain ⟨a3, r3, h3, h⟩ := bind_inv h
  obtain ⟨a4, r4, h4, h⟩ := bind_inv h
  obtain ⟨a5, r5, h5, h⟩ := bind_inv h
  obtain ⟨a6, r6, h6, h⟩ := bind_inv h
  obtain ⟨a7, r7, h7, h⟩ := bind_inv h
  obtain ⟨its, r8, h8, h⟩ := bind_inv h
  obtain ⟨hx, hr⟩ := pure_inv h
  subst hx
  have l1 := PS_len PS_u64 h1
  have l2 := PS_len PS_u32 h2
  have l3 := PS_len PS_u8 h3
  have l4 := PS_len PS_u8 h4
  have l5 := PS_len PS_u16 h5
  have l6 := congrArg List.length (guard_inv h6).2
  have l7 := PS_len PS_u32 h7
  obtain ⟨hl, hb⟩ := repeatN_bound sd.dec hs.progress _ _ _ _ h8
  have l9 := congrArg List.length hr
  simp only [hl]
  omega

theorem compactors_all_iff (sd : Serde) (cs : List Compactor) :
    cs.all (compactorWF sd) = true ↔ ∀ x ∈ cs, compactorWF sd x = true := by
  simp [List.all_eq_true]

theorem repeatN_compactors (sd : Serde) (hs : sd.Lawful) (cs : List Compactor) (r : Bytes)
    (h : ∀ x ∈ cs, compactorWF sd x = true) :
    repeatN (decCompactor sd) cs.length (encList (encCompactor sd) cs ++ r) = some (cs, r) :=
  repeatN_encList (decCompactor sd) (encCompactor sd) (fun x => compactorWF sd x = true)
    (fun x r hx => decCompactor_enc sd hs x r hx) cs r h

theorem decEst_enc (sd : Serde) (hs : sd.Lawful) (numLevels : Nat) (est : Option (Nat × Item × Item)) (r : Bytes)
    (hsome : est.isSome = decide (1 < numLevels)) (hw : estWF sd est = true) :
    decEst sd numLevels (encEst sd est ++ r) = some (est, r) := by
  cases est with
  | none =>
    have : ¬ 1 < numLevels := by simpa using hsome
    simp [decEst, encEst, this, Reader.pure]
  | some p =>
    obtain ⟨n, mn, mx⟩ := p
    have h1 : 1 < numLevels := by simpa using hsome.symm
    simp only [estWF, Bool.and_eq_true, decide_eq_true_eq] at hw
    obtain ⟨⟨hn, hmn⟩, hmx⟩ := hw
    simp only [decEst, encEst, h1, if_true, List.append_assoc]
    rw [bind_step (u64_w64 n hn _), bind_step (hs.rt mn _ hmn), bind_step (hs.rt mx _ hmx)]
    rfl

theorem decEst_PS (sd : Serde) (hs : sd.Lawful) (numLevels : Nat) : PS (decEst sd numLevels) := by
  unfold decEst
  split
  · exact PS_bind _ _ PS_u64 fun _ => PS_bind _ _ hs.ps fun _ => PS_bind _ _ hs.ps fun _ => PS_pure _
  · exact PS_pure _

theorem length_encCompactors (sd : Serde) (cs : List Compactor) :
    (encList (encCompactor sd) cs).length = (cs.map (fun x => 20 + sizeItems sd x.items)).sum := by
  induction cs with
  | nil => rfl
  | cons x t ih =>
    simp only [encList, List.length_append, ih, List.map_cons, List.sum_cons, encCompactor, length_w64, length_w32,
      length_w8, length_w16, sizeItems]
    omega

end DS.Wire.Req

/- The const_iterator of the REQ model walks exactly the retained pairs when no compactor is empty. (Helper lemmas.) -/
import DSProofs.Lemmas.ReqStore
namespace DS.Req

variable {ρ : Type}

def pairsOf (c : Compactor ρ) : List (Int × Nat) := c.items.map (fun x => (x, 2 ^ c.lgWeight))
def allPairs (cs : List (Compactor ρ)) : List (Int × Nat) := cs.flatMap pairsOf

@[simp] theorem allPairs_nil : allPairs ([] : List (Compactor ρ)) = [] := rfl
@[simp] theorem allPairs_cons (c : Compactor ρ) (t) : allPairs (c :: t) = pairsOf c ++ allPairs t := by simp [allPairs]

theorem length_allPairs (cs : List (Compactor ρ)) : (allPairs cs).length = sumItems cs := by
  induction cs with
  | nil => rfl
  | cons c t ih => simp [ih, pairsOf]

theorem sum_weights_allPairs (cs : List (Compactor ρ)) : ((allPairs cs).map (·.2)).sum = totalW cs := by
  induction cs with
  | nil => rfl
  | cons c t ih =>
    simp only [allPairs_cons, List.map_append, List.sum_append, ih, totalW_cons, pairsOf, List.map_map]
    congr 1
    generalize c.items = l
    induction l with
    | nil => simp
    | cons a b ihb => simp only [List.map_cons, List.sum_cons, List.length_cons, Function.comp] at *; rw [ihb, Nat.add_mul]; omega

theorem getElem?_mid (pre : List (Compactor ρ)) (c : Compactor ρ) (post) : (pre ++ c :: post)[pre.length]? = some c := by
  simp

theorem itWalk_suffix (cs : List (Compactor ρ)) :
    ∀ (n : Nat) (pre : List (Compactor ρ)) (c : Compactor ρ) (post : List (Compactor ρ)) (pos : Nat),
      cs = pre ++ c :: post → pos < c.items.length → (∀ c' ∈ post, c'.items ≠ []) →
      n = ((pairsOf c).drop pos).length + (allPairs post).length →
      itWalk cs n { lvl := pre.length, pos := pos } = ((((pairsOf c).drop pos) ++ allPairs post).map some, true) := by
  intro n
  induction n with
  | zero =>
    intro pre c post pos _ hpos _ hn
    have : ((pairsOf c).drop pos).length = c.items.length - pos := by simp [pairsOf]
    omega
  | succ n ih =>
    intro pre c post pos hcs hpos hne hn
    have hlen : cs.length = pre.length + 1 + post.length := by rw [hcs]; simp; omega
    have hget : cs[pre.length]? = some c := by rw [hcs]; exact getElem?_mid pre c post
    have hsize : sizeAt cs pre.length = c.items.length := by simp [sizeAt, hget]
    have hneq : itEq cs { lvl := pre.length, pos := pos } (itEnd cs) = false := by
      have hne' : pre.length ≠ cs.length := by omega
      simp [itEq, itEnd, hne']
    have hder : itDeref cs { lvl := pre.length, pos := pos } = some (c.items[pos], 2 ^ c.lgWeight) := by
      simp only [itDeref, hget]
      rw [List.getElem?_eq_getElem hpos]
    have hdrop : (pairsOf c).drop pos = (c.items[pos], 2 ^ c.lgWeight) :: (pairsOf c).drop (pos + 1) := by
      have hp : pos < (pairsOf c).length := by simp [pairsOf]; exact hpos
      rw [List.drop_eq_getElem_cons hp]; simp [pairsOf]
    simp only [itWalk, hneq, Bool.false_eq_true, if_false, hder]
    rw [hdrop]
    simp only [List.cons_append, List.map_cons]
    by_cases hlast : pos + 1 = c.items.length
    · -- move to the next level
      have hnext : itNext cs { lvl := pre.length, pos := pos } = { lvl := pre.length + 1, pos := 0 } := by
        simp only [itNext, hsize, hlast, if_true]
      have hd0 : (pairsOf c).drop (pos + 1) = [] := by
        apply List.drop_eq_nil_of_le; simp [pairsOf]; omega
      rw [hnext, hd0]
      rw [hdrop, hd0] at hn
      cases post with
      | nil =>
        simp at hn; subst hn
        simp [itWalk, itEq, itEnd, hlen]
      | cons c' post' =>
        have hc' : c'.items ≠ [] := hne c' (by simp)
        have hpos' : 0 < c'.items.length := by cases hc'i : c'.items with
          | nil => exact absurd hc'i hc'
          | cons a b => simp
        have := ih (pre ++ [c]) c' post' 0 (by rw [hcs]; simp) hpos' (fun x hx => hne x (by simp [hx]))
          (by simp at hn ⊢; omega)
        simp only [List.length_append, List.length_cons, List.length_nil, List.drop_zero] at this
        simp only [List.nil_append, allPairs_cons]
        rw [this]
    · have hnext : itNext cs { lvl := pre.length, pos := pos } = { lvl := pre.length, pos := pos + 1 } := by
        simp only [itNext, hsize, hlast, if_false]
      rw [hnext]
      have := ih pre c post (pos + 1) hcs (by omega) hne (by rw [hdrop] at hn; simp at hn ⊢; omega)
      rw [this]

/-- the iteration `begin() … end()` of a sketch whose compactors are all non-empty yields exactly the retained pairs -/
theorem iterate_of_AllNE (s : Sketch ρ) (hnn : s.compactors ≠ []) (hne : AllNE s.compactors) (hret : s.numRetained = sumItems s.compactors) :
    s.iterate = some (allPairs s.compactors) := by
  cases hcs : s.compactors with
  | nil => exact absurd hcs hnn
  | cons c t =>
    have hc : c.items ≠ [] := hne c (by rw [hcs]; simp)
    have hpos : 0 < c.items.length := by cases hci : c.items with
      | nil => exact absurd hci hc
      | cons a b => simp
    have := itWalk_suffix s.compactors s.numRetained [] c t 0 (by rw [hcs]; rfl) hpos
      (fun x hx => hne x (by rw [hcs]; simp [hx]))
      (by rw [hret, hcs, ← length_allPairs]; simp)
    simp only [List.length_nil, List.drop_zero] at this
    have e : pairsOf c ++ allPairs t = allPairs s.compactors := by rw [hcs]; simp
    rw [e] at this
    simp only [Sketch.iterate, itBegin, this]
    simp [List.filterMap_map]
    exact e.symm

end DS.Req

/- Helper lemmas for the CPC wire image (free to change; property statements live in Props/C09_Cpc .. C11_Cpc). -/
import DSProofs.Lemmas.Wire
import DSModel.Wire.Cpc
namespace DS.Wire.Cpc
open DS.Wire DS.Wire.Reader

theorem bind_some {α β : Type} {m : Reader α} {f : α → Reader β} {b : Bytes} {y : β} {r : Bytes}
    (h : Reader.bind m f b = some (y, r)) : ∃ a r1, m b = some (a, r1) ∧ f a r1 = some (y, r) := by
  simp only [Reader.bind] at h
  cases hm : m b with
  | none => simp [hm] at h
  | some p => obtain ⟨a, r1⟩ := p; simp only [hm] at h; exact ⟨a, r1, rfl, h⟩

theorem pure_some {α : Type} {a x : α} {b r : Bytes} (h : Reader.pure a b = some (x, r)) : x = a ∧ r = b := by
  simp only [Reader.pure, Option.some.injEq, Prod.mk.injEq] at h; exact ⟨h.1.symm, h.2.symm⟩

theorem guard_some {c : Bool} {b r : Bytes} {u : Unit} (h : guard c b = some (u, r)) : c = true ∧ r = b := by
  unfold guard at h
  split at h
  · rename_i hc; exact ⟨hc, (pure_some h).2⟩
  · simp [Reader.fail] at h

theorem guard_true (b : Bytes) : guard true b = some ((), b) := rfl

/-- a successful prefix-safe read leaves a suffix -/
theorem PS.rem_le {α : Type} {rd : Reader α} (h : PS rd) {b r : Bytes} {x : α} (e : rd b = some (x, r)) : r.length ≤ b.length := by
  obtain ⟨k, _, hr, _, _⟩ := h b x r e
  rw [hr]; simp

theorem leNat_len (n : Nat) (b r : Bytes) (x : Nat) (h : leNat n b = some (x, r)) : b.length = n + r.length := by
  induction n generalizing b x with
  | zero => have := pure_some h; rw [this.2]; simp
  | succ n ih =>
    simp only [leNat] at h
    obtain ⟨y, r1, h1, h⟩ := bind_some h
    obtain ⟨hi, r2, h2, h⟩ := bind_some h
    obtain ⟨_, hr⟩ := pure_some h
    subst hr
    cases b with
    | nil => simp [byte] at h1
    | cons z t =>
      simp only [byte, Option.some.injEq, Prod.mk.injEq] at h1
      have := ih t hi (by rw [h1.2]; exact h2)
      simp only [List.length_cons]; rw [this]; omega

theorem repeatN_u32_len (n : Nat) (b r : Bytes) (l : List Nat) (h : repeatN u32 n b = some (l, r)) :
    l.length = n ∧ b.length = 4 * n + r.length := by
  induction n generalizing b l with
  | zero => have := pure_some h; rw [this.1, this.2]; simp
  | succ n ih =>
    simp only [repeatN] at h
    obtain ⟨x, r1, h1, h⟩ := bind_some h
    obtain ⟨t, r2, h2, h⟩ := bind_some h
    obtain ⟨hl, hr⟩ := pure_some h
    subst hr; subst hl
    have l1 := leNat_len 4 b r1 x h1
    have l2 := ih r1 t h2
    simp only [List.length_cons]
    omega

theorem length_encWords (ws : List Nat) : (encWords ws).length = 4 * ws.length := by
  induction ws with
  | nil => rfl
  | cons a t ih => simp only [encWords, List.flatMap_cons, List.length_append, List.length_cons] at *; rw [ih]; simp [w32, length_wLe]; omega

theorem repeatN_u32_encWords (ws : List Nat) (h : ∀ w ∈ ws, w < 2 ^ 32) (r : Bytes) :
    repeatN u32 ws.length (encWords ws ++ r) = some (ws, r) := by
  induction ws with
  | nil => rfl
  | cons a t ih =>
    simp only [encWords, List.flatMap_cons, List.append_assoc, List.length_cons, repeatN, Reader.bind]
    rw [u32_w32 a (h a List.mem_cons_self)]
    simp only
    have := ih (fun w hw => h w (List.mem_cons_of_mem _ hw))
    simp only [encWords] at this
    rw [this]; rfl

theorem flags_rt (c : Consts) (hc : c.ok) (h t w : Bool) :
    flagsByte c h t w < 2 ^ 8 ∧ testFlag (flagsByte c h t w) c.flagHip = h ∧
    testFlag (flagsByte c h t w) c.flagTable = t ∧ testFlag (flagsByte c h t w) c.flagWindow = w := by
  have := hc.2.2.1
  simp only [Consts.flagsOk, List.all_cons, List.all_nil, Bool.and_true, Bool.and_eq_true, decide_eq_true_eq, beq_iff_eq] at this
  cases h <;> cases t <;> cases w <;> simp_all

theorem preInts_lt (c : Consts) (hc : c.ok) (n : Nat) (h t w : Bool) : preInts c n h t w < 2 ^ 8 := by
  have := hc.2.2.2
  unfold preInts
  split
  · omega
  · cases h <;> cases t <;> cases w <;> simp <;> omega

/-- the variable part reads back -/
theorem decBody_encBody (s : Image) (hs : WF s) (tail : Bytes) :
    decBody s.hasHip s.hasTable s.hasWindow (encBody s ++ tail)
      = some ((s.coupons, s.numEntries, s.kxp, s.hip, s.windowWords, s.tableWords), tail) := by
  obtain ⟨_, _, _, hc, hne, hk, hh, hwl, htl, hww, htw, ht0, hw0, hne0, hc0, _, hh0⟩ := hs
  have e1 := repeatN_u32_encWords s.windowWords hww
  have e2 := repeatN_u32_encWords s.tableWords htw
  unfold decBody encBody
  cases hH : s.hasHip <;> cases hT : s.hasTable <;> cases hW : s.hasWindow <;>
    simp only [hH, hT, hW, Bool.or_false, Bool.or_true, Bool.and_false, Bool.and_true, Bool.false_and, Bool.true_and,
      Bool.not_false, Bool.not_true, if_true, if_false, Bool.false_eq_true, List.nil_append, List.append_nil,
      Bool.or_self, Bool.and_self, decOpt32, decHip, encHip, List.append_assoc, Reader.bind, Reader.pure,
      u32_w32 _ hc, u32_w32 _ hne, u32_w32 _ htl, u32_w32 _ hwl, u64_w64 _ hk, u64_w64 _ hh,
      e1, e2, repeatN, Nat.add_zero, Nat.zero_add] <;>
    simp_all [repeatN, Reader.pure] <;> rfl

end DS.Wire.Cpc

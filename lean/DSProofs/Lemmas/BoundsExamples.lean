/- C06: definedness lemmas used by the non-vacuity examples of Props/C06.lean (the bound functions return a value,
   i.e. the C++ does not throw, on ordinary arguments). -/
import DSProofs.Lemmas.BoundsCpc
namespace DS.Bounds
set_option linter.unusedSectionVars false
set_option linter.unusedVariables false
set_option linter.unusedSimpArgs false

variable {K : Type} [Field K] [LinearOrder K] [IsStrictOrderedRing K] (F : MathFns K)

/-- more than 120 samples: the Gaussian branch, never throws -/
theorem gauss_defined (T : BinomTables) (n : Nat) (hn : 120 < n) (θ : K) (h0 : 0 < θ) (h1 : θ < 1) (k : Nat) (hk1 : 1 ≤ k) (hk3 : k ≤ 3) :
    ∃ lb ub, @getLowerBound K (fieldNum F) T n θ k = some lb ∧ @getUpperBound K (fieldNum F) T n θ k = some ub := by
  have ha : @argsOk K (fieldNum F) θ k = true := (argsOk_iff F θ k).mpr ⟨⟨le_of_lt h0, le_of_lt h1⟩, hk1, hk3⟩
  have e : (fieldNum F).eqb θ ((1 : Nat) : K) = false := by rw [eqb_eq]; exact decide_eq_false (by simpa using ne_of_lt h1)
  have c2 : ¬ n = 0 := by omega
  have c3 : ¬ n = 1 := by omega
  unfold getLowerBound getUpperBound approxLb approxUb
  simp only [ha, if_true, nat_eq, e, Bool.false_eq_true, if_false, c2, c3, gt_iff_lt, hn, Option.map_some]
  exact ⟨_, _, rfl, rfl⟩

/-- an in-order HLL-mode state with lgK in the table range: estimate = HIP accumulator, bounds defined -/
theorem hll_hip_defined (s : HllReg K) (hooo : s.ooo = false) (h4 : 4 ≤ s.lgK) (h12 : s.lgK ≤ 12) (sd : Nat) (h1 : 1 ≤ sd) (h3 : sd ≤ 3) :
    @hllEstimate K (fieldNum F) hllT s = some s.hip ∧
    ∃ lb ub, @hllLowerBound K (fieldNum F) hllT s sd = some lb ∧ @hllUpperBound K (fieldNum F) hllT s sd = some ub := by
  have hs : sdOk sd = true := (sdOk_iff sd).mpr ⟨h1, h3⟩
  have hmin : hllT.minLgK = 4 := rfl
  have hmax : hllT.maxLgK = 21 := rfl
  have hr : ¬ (s.lgK < hllT.minLgK ∨ s.lgK > hllT.maxLgK) := by rw [hmin, hmax]; omega
  have hb : ¬ s.lgK > 12 := by omega
  unfold hllLowerBound hllUpperBound hllEstimate hllRelErr
  simp only [hs, hooo, Bool.not_true, Bool.false_eq_true, if_false, hr, hb]
  exact ⟨trivial, _, _, rfl, rfl⟩

/-- a CPC sketch that was not merged, with coupons, lg_k ≥ 4: estimate = HIP accumulator, bounds defined -/
theorem cpc_hip_defined (s : CpcState K) (hm : s.merged = false) (hc : s.numCoupons ≠ 0) (h4 : 4 ≤ s.lgK) (k : Nat) (h1 : 1 ≤ k) (h3 : k ≤ 3) :
    @cpcEstimate K (fieldNum F) cpcT s = some s.hip ∧
    ∃ lb ub, @cpcLowerBound K (fieldNum F) cpcT s k = some lb ∧ @cpcUpperBound K (fieldNum F) cpcT s k = some ub := by
  have hk : kappaOk k = true := (kappaOk_iff k).mpr ⟨h1, h3⟩
  have h4' : ¬ s.lgK < 4 := by omega
  unfold cpcEstimate cpcLowerBound cpcUpperBound hipConfidenceLb hipConfidenceUb
  simp only [hk, hm, Bool.not_true, Bool.not_false, Bool.false_eq_true, if_false, if_true, hc, h4']
  exact ⟨trivial, _, _, rfl, rfl⟩

end DS.Bounds

/-
Generic toolkit for the KLL / REQ / classic-quantiles wire theorems: stepping a `Reader.bind` through a
known round trip, inverting a successful `bind`, prefix-safe readers only shrink the input, lawful item
serdes (round trip, prefix safety, progress) with the two instances used by the library
(raw fixed-size arithmetic items, u32-length-prefixed strings), repeated readers against `encList`.
Helper lemmas only (property statements live in Props/C09_*, C10_*, C11_*).
-/
import DSModel.Wire.Serde
import DSProofs.Lemmas.Wire
namespace DS.Wire
open Reader

variable {α β : Type}

theorem bind_step {m : Reader α} {f : α → Reader β} {b r : Bytes} {a : α} (h : m b = some (a, r)) :
    Reader.bind m f b = f a r := by
  simp [Reader.bind, h]

theorem bind_inv {m : Reader α} {f : α → Reader β} {b r : Bytes} {y : β} (h : Reader.bind m f b = some (y, r)) :
    ∃ a r1, m b = some (a, r1) ∧ f a r1 = some (y, r) := by
  simp only [Reader.bind] at h
  cases hm : m b with
  | none => simp [hm] at h
  | some p => obtain ⟨a, r1⟩ := p; simp only [hm] at h; exact ⟨a, r1, rfl, h⟩

theorem guard_true_step {c : Bool} {f : Unit → Reader β} {b : Bytes} (h : c = true) :
    Reader.bind (guard c) f b = f () b := by
  subst h; rfl

theorem guard_inv {c : Bool} {b r : Bytes} {u : Unit} (h : guard c b = some (u, r)) : c = true ∧ r = b := by
  cases c with
  | false => simp [guard, Reader.fail] at h
  | true => simp only [guard, Reader.pure, if_true, Option.some.injEq, Prod.mk.injEq] at h; exact ⟨rfl, h.2.symm⟩

theorem pure_inv {a x : α} {b r : Bytes} (h : Reader.pure a b = some (x, r)) : x = a ∧ r = b := by
  simp only [Reader.pure, Option.some.injEq, Prod.mk.injEq] at h; exact ⟨h.1.symm, h.2.symm⟩

/-- a prefix-safe reader returns a suffix of its input -/
theorem PS_len {rd : Reader α} (h : PS rd) {b r : Bytes} {x : α} (hd : rd b = some (x, r)) : r.length ≤ b.length := by
  obtain ⟨k, _, hr, _, _⟩ := h b x r hd
  subst hr; simp

theorem PS_u8 : PS u8 := PS_leNat 1
theorem PS_u16 : PS u16 := PS_leNat 2
theorem PS_u32 : PS u32 := PS_leNat 4
theorem PS_u64 : PS u64 := PS_leNat 8

/-! ### byte lengths of the writers -/

@[simp] theorem length_w8 (x : Nat) : (w8 x).length = 1 := length_wLe 1 x
@[simp] theorem length_w16 (x : Nat) : (w16 x).length = 2 := length_wLe 2 x
@[simp] theorem length_w32 (x : Nat) : (w32 x).length = 4 := length_wLe 4 x
@[simp] theorem length_w64 (x : Nat) : (w64 x).length = 8 := length_wLe 8 x

theorem length_encList_w32 (l : List Nat) : (encList w32 l).length = 4 * l.length := by
  induction l with
  | nil => rfl
  | cons x t ih => simp only [encList, List.length_append, length_w32, ih, List.length_cons]; omega

/-! ### repeated readers -/

theorem repeatN_encList (rd : Reader α) (e : α → Bytes) (P : α → Prop)
    (h : ∀ x r, P x → rd (e x ++ r) = some (x, r)) :
    ∀ (l : List α) (r : Bytes), (∀ x ∈ l, P x) → repeatN rd l.length (encList e l ++ r) = some (l, r) := by
  intro l
  induction l with
  | nil => intro r _; rfl
  | cons x t ih =>
    intro r hp
    have hx : P x := hp x (by simp)
    have ht : ∀ y ∈ t, P y := fun y hy => hp y (by simp [hy])
    simp only [List.length_cons, repeatN, encList, List.append_assoc]
    rw [bind_step (h x _ hx), bind_step (ih r ht)]
    rfl

/-- a successful `repeatN` of a reader that always consumes at least one byte read at most `|input|` elements -/
theorem repeatN_bound (rd : Reader α) (hp : ∀ b x r, rd b = some (x, r) → r.length < b.length) :
    ∀ (n : Nat) (b r : Bytes) (l : List α), repeatN rd n b = some (l, r) → l.length = n ∧ n + r.length ≤ b.length := by
  intro n
  induction n with
  | zero =>
    intro b r l h
    obtain ⟨h1, h2⟩ := pure_inv h
    subst h1; subst h2; simp
  | succ n ih =>
    intro b r l h
    simp only [repeatN] at h
    obtain ⟨x, r1, h1, h⟩ := bind_inv h
    obtain ⟨t, r2, h2, h⟩ := bind_inv h
    obtain ⟨h3, h4⟩ := pure_inv h
    subst h3; subst h4
    have := hp b x r1 h1
    obtain ⟨hl, hb⟩ := ih r1 r t h2
    refine ⟨by simp [hl], ?_⟩
    omega

theorem repeatN_length (rd : Reader α) :
    ∀ (n : Nat) (b r : Bytes) (l : List α), repeatN rd n b = some (l, r) → l.length = n := by
  intro n
  induction n with
  | zero => intro b r l h; obtain ⟨h1, _⟩ := pure_inv h; subst h1; rfl
  | succ n ih =>
    intro b r l h
    simp only [repeatN] at h
    obtain ⟨x, r1, _, h⟩ := bind_inv h
    obtain ⟨t, r2, h2, h⟩ := bind_inv h
    obtain ⟨h3, _⟩ := pure_inv h
    subst h3
    simp [ih r1 r2 t h2]

/-! ### lawful item serdes -/

structure Serde.Lawful (sd : Serde) : Prop where
  rt : ∀ x r, sd.wf x = true → sd.dec (sd.enc x ++ r) = some (x, r)
  ps : PS sd.dec
  progress : ∀ b x r, sd.dec b = some (x, r) → r.length < b.length

theorem bytesN_len : ∀ (n : Nat) (b r x : Bytes), bytesN n b = some (x, r) → x.length = n ∧ r.length + n = b.length := by
  intro n
  induction n with
  | zero => intro b r x h; obtain ⟨h1, h2⟩ := pure_inv h; subst h1; subst h2; simp
  | succ n ih =>
    intro b r x h
    simp only [bytesN] at h
    obtain ⟨y, r1, h1, h⟩ := bind_inv h
    obtain ⟨t, r2, h2, h⟩ := bind_inv h
    obtain ⟨h3, h4⟩ := pure_inv h
    subst h3; subst h4
    obtain ⟨hl, hb⟩ := ih r1 r t h2
    cases b with
    | nil => simp [byte] at h1
    | cons z s =>
      simp only [byte, Option.some.injEq, Prod.mk.injEq] at h1
      obtain ⟨_, hs⟩ := h1
      subst hs
      simp only [List.length_cons, hl, true_and]
      omega

theorem fixed_lawful (n : Nat) (hn : 0 < n) : (Serde.fixed n).Lawful where
  rt := by
    intro x r hw
    have hl : x.length = n := by simpa [Serde.fixed] using hw
    subst hl
    exact bytesN_append x r
  ps := PS_bytesN n
  progress := by
    intro b x r h
    obtain ⟨_, hb⟩ := bytesN_len n b r x h
    omega

theorem leNat_len : ∀ (n : Nat) (b r : Bytes) (x : Nat), leNat n b = some (x, r) → r.length + n = b.length := by
  intro n
  induction n with
  | zero => intro b r x h; obtain ⟨_, h2⟩ := pure_inv h; subst h2; simp
  | succ n ih =>
    intro b r x h
    simp only [leNat] at h
    obtain ⟨y, r1, h1, h⟩ := bind_inv h
    obtain ⟨t, r2, h2, h⟩ := bind_inv h
    obtain ⟨_, h4⟩ := pure_inv h
    subst h4
    have hb := ih r1 r t h2
    cases b with
    | nil => simp [byte] at h1
    | cons z s =>
      simp only [byte, Option.some.injEq, Prod.mk.injEq] at h1
      obtain ⟨_, hs⟩ := h1
      subst hs
      simp only [List.length_cons]
      omega

theorem lpString_lawful : Serde.lpString.Lawful where
  rt := by
    intro x r hw
    have hl : x.length < 2 ^ 32 := by simpa [Serde.lpString] using hw
    simp only [Serde.lpString, List.append_assoc]
    rw [bind_step (u32_w32 x.length hl (x ++ r))]
    exact bytesN_append x r
  ps := PS_bind _ _ PS_u32 (fun n => PS_bytesN n)
  progress := by
    intro b x r h
    simp only [Serde.lpString] at h
    obtain ⟨n, r1, h1, h2⟩ := bind_inv h
    have := leNat_len 4 b r1 n h1
    obtain ⟨_, hb⟩ := bytesN_len n r1 r x h2
    omega

theorem ItemType.serde_lawful (ty : ItemType) : ty.serde.Lawful := by
  cases ty
  · exact fixed_lawful 4 (by decide)
  · exact fixed_lawful 8 (by decide)
  · exact fixed_lawful 8 (by decide)
  · exact lpString_lawful

theorem allWf_iff (sd : Serde) (l : List Item) : allWf sd l = true ↔ ∀ x ∈ l, sd.wf x = true := by
  simp [allWf, List.all_eq_true]

theorem repeatN_items (sd : Serde) (h : sd.Lawful) (l : List Item) (r : Bytes) (hw : allWf sd l = true) :
    repeatN sd.dec l.length (encItems sd l ++ r) = some (l, r) :=
  repeatN_encList sd.dec sd.enc (fun x => sd.wf x = true) h.rt l r ((allWf_iff sd l).1 hw)

theorem repeatN_u32s (l : List Nat) (r : Bytes) (hw : ∀ x ∈ l, x < 2 ^ 32) :
    repeatN u32 l.length (encList w32 l ++ r) = some (l, r) :=
  repeatN_encList u32 w32 (fun x => x < 2 ^ 32) (fun x r h => u32_w32 x h r) l r hw

end DS.Wire

namespace DS.Wire
open Reader

/-- if every successful read of `rd` accounts for `size x` consumed bytes, `m` repetitions account for the sum -/
theorem repeatN_sum_bound {α : Type} (rd : Reader α) (size : α → Nat)
    (hp : ∀ b x r, rd b = some (x, r) → size x + r.length ≤ b.length) :
    ∀ (m : Nat) (b r : Bytes) (l : List α), repeatN rd m b = some (l, r) → (l.map size).sum + r.length ≤ b.length := by
  intro m
  induction m with
  | zero =>
    intro b r l h
    obtain ⟨h1, h2⟩ := pure_inv h
    subst h1; subst h2; simp
  | succ m ih =>
    intro b r l h
    simp only [repeatN] at h
    obtain ⟨x, r1, h1, h⟩ := bind_inv h
    obtain ⟨t, r2, h2, h⟩ := bind_inv h
    obtain ⟨h3, h4⟩ := pure_inv h
    subst h3; subst h4
    have := hp b x r1 h1
    have := ih r1 r t h2
    simp only [List.map_cons, List.sum_cons]
    omega

end DS.Wire

/- Union: state between updates, the result characterisation and its uniqueness. -/
import DSProofs.Lemmas.ThetaUnion
namespace DS.Theta

variable {σ : Type}

/-- well-formed operand (what every sketch produced by the API satisfies) -/
structure WFop (sk : Compact σ) : Prop where
  lt_theta : ∀ x, x ∈ keys sk.ents → x < sk.theta
  ord_sorted : sk.ordered = true → (keys sk.ents).Pairwise (· < ·)
  nodup : (keys sk.ents).Nodup
  empty_nil : sk.isEmpty = true → sk.ents = []
  theta_le : sk.theta ≤ MAX_THETA

/-- keys offered by the non-empty inputs, in presentation order -/
def offered : List (Compact σ) → List Nat
  | [] => []
  | sk :: r => (if sk.isEmpty then [] else keys sk.ents) ++ offered r

/-- `θ*`: the starting theta lowered by the theta of every non-empty input -/
def thetaStar (t0 : Nat) : List (Compact σ) → Nat
  | [] => t0
  | sk :: r => thetaStar (if sk.isEmpty then t0 else min t0 sk.theta) r

def allEmpty : List (Compact σ) → Bool
  | [] => true
  | sk :: r => sk.isEmpty && allEmpty r

structure UState (c : Cfg) (S : List Nat) (θs : Nat) (u : Union σ) : Prop where
  inv : UInv c S u
  uth : u.unionTheta = min θs u.tbl.theta
  ths : θs ≤ c.theta0

theorem tinv_mono_U (c : Cfg) (S : List Nat) (U U' : Nat) (s : St σ) (hU : U' ≤ U) (h : TInv c S U s) : TInv c S U' s :=
  ⟨h.sorted, h.sub, fun x hS hx hT => h.low x hS (Nat.lt_of_lt_of_le hx hU) hT, h.t_le, h.t_mem, h.klen⟩

theorem ustate_init (c : Cfg) : UState c [] c.theta0 (unionInit c : Union σ) := by
  refine ⟨⟨?_, ?_, ?_, ?_, ?_, ?_⟩, ?_, Nat.le_refl _⟩ <;> simp [unionInit, init]

def uStart (u : Union σ) (sk : Compact σ) : Union σ :=
  { tbl := { u.tbl with isEmpty := false }, unionTheta := min u.unionTheta sk.theta }
def uFinish (u2 : Union σ) : Union σ := { u2 with unionTheta := min u2.unionTheta u2.tbl.theta }

theorem unionUpdate_nonempty (c : Cfg) (pol : σ → σ → σ) (sh : Nat) (u : Union σ) (sk : Compact σ)
    (he : sk.isEmpty = false) (hs : sk.seedHash = sh) :
    unionUpdate c pol sh u sk = some (uFinish (unionLoop c pol sk.ordered sk.ents (uStart u sk))) := by
  simp [unionUpdate, he, hs, uStart, uFinish]

theorem unionUpdate_empty (c : Cfg) (pol : σ → σ → σ) (sh : Nat) (u : Union σ) (sk : Compact σ)
    (he : sk.isEmpty = true) : unionUpdate c pol sh u sk = some u := by
  simp [unionUpdate, he]

theorem unionUpdate_mismatch (c : Cfg) (pol : σ → σ → σ) (sh : Nat) (u : Union σ) (sk : Compact σ)
    (he : sk.isEmpty = false) (hs : sk.seedHash ≠ sh) : unionUpdate c pol sh u sk = none := by
  simp [unionUpdate, he, hs]

theorem ustate_update (c : Cfg) (pol : σ → σ → σ) (sh : Nat) (S : List Nat) (θs : Nat) (u u' : Union σ) (sk : Compact σ)
    (h : UState c S θs u) (hw : WFop sk) (hu : unionUpdate c pol sh u sk = some u') :
    UState c (S ++ (if sk.isEmpty then [] else keys sk.ents)) (if sk.isEmpty then θs else min θs sk.theta) u' ∧
    u'.tbl.isEmpty = (u.tbl.isEmpty && sk.isEmpty) := by
  by_cases he : sk.isEmpty = true
  · rw [unionUpdate_empty c pol sh u sk he, Option.some.injEq] at hu
    subst hu
    simp [he, h]
  · have he' : sk.isEmpty = false := by simpa using he
    by_cases hs : sk.seedHash = sh
    · rw [unionUpdate_nonempty c pol sh u sk he' hs, Option.some.injEq] at hu
      have h1 : UInv c S (uStart u sk) := by
        have := tinv_mono_U c S u.unionTheta (min u.unionTheta sk.theta) u.tbl (Nat.min_le_left _ _) h.inv
        exact ⟨this.sorted, this.sub, this.low, this.t_le, this.t_mem, this.klen⟩
      obtain ⟨hl1, hl2, hl3, hl4⟩ := uinv_loop c pol sk.ordered sk.ents S (uStart u sk) h1 hw.ord_sorted
      generalize unionLoop c pol sk.ordered sk.ents (uStart u sk) = u2 at hu hl1 hl2 hl3 hl4
      have hsU : (uStart u sk).unionTheta = min u.unionTheta sk.theta := rfl
      have hsT : (uStart u sk).tbl.theta = u.tbl.theta := rfl
      have hsE : (uStart u sk).tbl.isEmpty = false := rfl
      rw [hsU] at hl2
      rw [hsT] at hl3
      rw [hsE] at hl4
      subst hu
      simp only [he', Bool.false_eq_true, if_false, Bool.and_false]
      refine ⟨⟨?_, ?_, ?_⟩, ?_⟩
      · exact tinv_mono_U c _ u2.unionTheta (min u2.unionTheta u2.tbl.theta) u2.tbl (Nat.min_le_left _ _) hl1
      · show min u2.unionTheta u2.tbl.theta = min (min θs sk.theta) u2.tbl.theta
        have huth := h.uth
        omega
      · have := h.ths; omega
      · exact hl4
    · rw [unionUpdate_mismatch c pol sh u sk he' hs] at hu
      cases hu

theorem ustate_fold (c : Cfg) (pol : σ → σ → σ) (sh : Nat) (sks : List (Compact σ)) :
    ∀ (S : List Nat) (θs : Nat) (u u' : Union σ), UState c S θs u → (∀ sk, sk ∈ sks → WFop sk) →
      unionFold c pol sh u sks = some u' →
      UState c (S ++ offered sks) (thetaStar θs sks) u' ∧ u'.tbl.isEmpty = (u.tbl.isEmpty && allEmpty sks) := by
  induction sks with
  | nil =>
    intro S θs u u' h _ hf
    simp only [unionFold, Option.some.injEq] at hf
    subst hf
    simp [offered, thetaStar, allEmpty, h]
  | cons sk rest ih =>
    intro S θs u u' h hw hf
    simp only [unionFold] at hf
    cases hup : unionUpdate c pol sh u sk with
    | none => simp [hup] at hf
    | some u1 =>
      simp only [hup] at hf
      have h1 := ustate_update c pol sh S θs u u1 sk h (hw sk (by simp)) hup
      have h2 := ih _ _ u1 u' h1.1 (fun s hs => hw s (by simp [hs])) hf
      refine ⟨?_, ?_⟩
      · simpa [offered, thetaStar, List.append_assoc] using h2.1
      · rw [h2.2, h1.2]; simp [allEmpty, Bool.and_assoc]

/-- what `get_result` returns, characterised; `k = 2^lgNom` -/
structure ResultSpec (S : List Nat) (θs k : Nat) (theta : Nat) (ks : List Nat) : Prop where
  sorted : ks.Pairwise (· < ·)
  mem    : ∀ x, x ∈ ks ↔ (x ∈ S ∧ x < theta)
  len_le : ks.length ≤ k
  th_le  : theta ≤ θs
  th_lt  : theta < θs → ks.length = k ∧ theta ∈ S

theorem keys_filter_mem (l : List (Nat × σ)) (p : Nat → Bool) (x : Nat) :
    x ∈ keys (l.filter (fun e => p e.1)) ↔ x ∈ keys l ∧ p x = true := by
  induction l with
  | nil => simp
  | cons a t ih =>
    simp only [List.filter_cons]
    split
    · rename_i hp
      simp only [keys_cons, List.mem_cons, ih]
      constructor
      · rintro (rfl | ⟨h1, h2⟩)
        · exact ⟨Or.inl rfl, hp⟩
        · exact ⟨Or.inr h1, h2⟩
      · rintro ⟨rfl | h1, h2⟩
        · exact Or.inl rfl
        · exact Or.inr ⟨h1, h2⟩
    · rename_i hp
      simp only [keys_cons, List.mem_cons, ih]
      constructor
      · rintro ⟨h1, h2⟩; exact ⟨Or.inr h1, h2⟩
      · rintro ⟨rfl | h1, h2⟩
        · exact absurd h2 hp
        · exact ⟨h1, h2⟩

theorem keys_filter_sorted (l : List (Nat × σ)) (p : Nat × σ → Bool) (h : (keys l).Pairwise (· < ·)) :
    (keys (l.filter p)).Pairwise (· < ·) := by
  unfold keys at *
  exact h.sublist (List.Sublist.map _ List.filter_sublist)

theorem union_result_char (c : Cfg) (S : List Nat) (θs : Nat) (u : Union σ) (ord : Bool) (sh : Nat)
    (h : UState c S θs u) (hne : u.tbl.isEmpty = false) :
    ResultSpec S θs (2^c.lgNom) (unionResult c u ord sh).theta (keys (unionResult c u ord sh).ents) ∧
    (unionResult c u ord sh).isEmpty = false := by
  have hi := h.inv
  have huth := h.uth
  have hths := h.ths
  have hs0 : (keys (unionEnts u)).Pairwise (· < ·) := by
    unfold unionEnts
    split
    · exact hi.sorted
    · exact keys_filter_sorted _ _ hi.sorted
  have hm0 : ∀ x, x ∈ keys (unionEnts u) ↔ (x ∈ S ∧ x < min u.unionTheta u.tbl.theta) := by
    intro x
    unfold unionEnts
    split
    · rename_i hle
      constructor
      · intro hx; have := hi.sub x hx; exact ⟨this.1, by omega⟩
      · rintro ⟨h1, h2⟩; exact hi.low x h1 (by omega) (by omega)
    · rename_i hle
      rw [keys_filter_mem u.tbl.ents (fun k => decide (k < min u.unionTheta u.tbl.theta)) x]
      simp only [decide_eq_true_eq]
      constructor
      · rintro ⟨hx, hlt⟩; exact ⟨(hi.sub x hx).1, hlt⟩
      · rintro ⟨h1, h2⟩; exact ⟨hi.low x h1 (by omega) (by omega), h2⟩
  unfold unionResult
  simp only [hne, Bool.false_eq_true, if_false]
  split
  · rename_i t ht
    have htm : t ∈ keys (unionEnts u) := List.mem_of_getElem? ht
    have ht' := (hm0 t).1 htm
    have hklt : 2^c.lgNom < (keys (unionEnts u)).length := (List.getElem?_eq_some_iff.1 ht).1
    refine ⟨⟨?_, ?_, ?_, ?_, ?_⟩, rfl⟩
    · dsimp only; simp only [keys_take]; exact pairwise_take _ _ hs0
    · intro x
      dsimp only
      simp only [keys_take]
      rw [mem_take_sorted _ hs0 _ t ht, hm0]
      constructor
      · rintro ⟨⟨h1, _⟩, h3⟩; exact ⟨h1, h3⟩
      · rintro ⟨h1, h3⟩; exact ⟨⟨h1, by omega⟩, h3⟩
    · dsimp only; simp only [keys_take, List.length_take]; omega
    · dsimp only; omega
    · intro _
      dsimp only
      refine ⟨?_, ht'.1⟩
      simp only [keys_take, List.length_take]; omega
  · rename_i hnone
    have hlen : (keys (unionEnts u)).length ≤ 2^c.lgNom := List.getElem?_eq_none_iff.1 hnone
    refine ⟨⟨hs0, hm0, hlen, ?_, ?_⟩, rfl⟩
    · dsimp only; omega
    · dsimp only
      intro hlt
      -- then M = T < θs: all table entries are below M, and klen gives at least k of them
      have hT : u.tbl.theta < θs := by omega
      have hTM : min u.unionTheta u.tbl.theta = u.tbl.theta := by omega
      have hklen := hi.klen (Nat.lt_of_lt_of_le hT hths)
      have hall : unionEnts u = u.tbl.ents := by
        unfold unionEnts
        have : u.tbl.theta ≤ u.unionTheta := by omega
        simp [this]
      refine ⟨?_, ?_⟩
      · rw [hall, keys_length] at hlen
        rw [hall, keys_length]; omega
      · rw [hTM]
        rcases hi.t_mem with h1 | h1
        · omega
        · exact h1

/-- two strictly sorted lists with the same members are equal -/
theorem sorted_ext : ∀ (l1 l2 : List Nat), l1.Pairwise (· < ·) → l2.Pairwise (· < ·) → (∀ x, x ∈ l1 ↔ x ∈ l2) → l1 = l2
  | [], [], _, _, _ => rfl
  | [], b :: _, _, _, h => by have := (h b).2 (by simp); simp at this
  | a :: _, [], _, _, h => by have := (h a).1 (by simp); simp at this
  | a :: t1, b :: t2, h1, h2, h => by
    simp only [List.pairwise_cons] at h1 h2
    have hab : a = b := by
      have ha := (h a).1 (by simp)
      have hb := (h b).2 (by simp)
      simp only [List.mem_cons] at ha hb
      rcases ha with ha | ha
      · exact ha
      · rcases hb with hb | hb
        · exact hb.symm
        · have := h2.1 a ha; have := h1.1 b hb; omega
    subst hab
    congr 1
    apply sorted_ext t1 t2 h1.2 h2.2
    intro x
    constructor
    · intro hx
      have := (h x).1 (by simp [hx])
      simp only [List.mem_cons] at this
      rcases this with rfl | h3
      · have := h1.1 x hx; omega
      · exact h3
    · intro hx
      have := (h x).2 (by simp [hx])
      simp only [List.mem_cons] at this
      rcases this with rfl | h3
      · have := h2.1 x hx; omega
      · exact h3

theorem nodup_of_sorted (l : List Nat) (h : l.Pairwise (· < ·)) : l.Nodup :=
  h.imp (fun hab => Nat.ne_of_lt hab)

end DS.Theta

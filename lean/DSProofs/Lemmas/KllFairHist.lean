/- C08 for whole histories: shapes/flip counts are coin independent; the weight below any point, summed over all coin
outcomes, is (number of outcomes) × (true count). -/
import DSProofs.Lemmas.KllFair
import DSProofs.Lemmas.KllView
namespace DS.Kll
open DS DS.SortedView DS.Mech

variable {α : Type}

/-! ### shapes of whole states -/

def SSL (st st' : List (Sketch α)) : Prop :=
  st.length = st'.length ∧ ∀ (i : Nat) (s s' : Sketch α), st[i]? = some s → st'[i]? = some s' → SS s s'

theorem SSL.refl (st : List (Sketch α)) : SSL st st :=
  ⟨rfl, fun i s s' h h' => by rw [h] at h'; simp only [Option.some.injEq] at h'; subst h'; exact SS.refl s⟩

theorem SSL.set {st st' : List (Sketch α)} (h : SSL st st') (i : Nat) {s s' : Sketch α} (hs : SS s s') :
    SSL (st.set i s) (st'.set i s') := by
  refine ⟨by simp [h.1], ?_⟩
  intro j a a' ha ha'
  by_cases hij : i = j
  · subst hij
    by_cases hlt : i < st.length
    · rw [List.getElem?_set_self hlt] at ha
      rw [List.getElem?_set_self (by rw [← h.1]; exact hlt)] at ha'
      simp only [Option.some.injEq] at ha ha'; subst ha; subst ha'; exact hs
    · rw [List.getElem?_eq_none (by simp only [List.length_set]; omega)] at ha
      exact absurd ha (by simp)
  · rw [List.getElem?_set_ne hij] at ha ha'
    exact h.2 j a a' ha ha'

theorem SSL.append {st st' : List (Sketch α)} (h : SSL st st') {s s' : Sketch α} (hs : SS s s') :
    SSL (st ++ [s]) (st' ++ [s']) := by
  refine ⟨by simp [h.1], ?_⟩
  intro j a a' ha ha'
  by_cases hj : j < st.length
  · rw [List.getElem?_append_left hj] at ha
    rw [List.getElem?_append_left (by rw [← h.1]; exact hj)] at ha'
    exact h.2 j a a' ha ha'
  · rw [List.getElem?_append_right (by omega)] at ha
    rw [List.getElem?_append_right (by rw [← h.1]; omega)] at ha'
    rw [← h.1] at ha'
    cases hk : j - st.length with
    | zero => rw [hk] at ha ha'; simp only [List.getElem?_cons_zero, Option.some.injEq] at ha ha'; subst ha; subst ha'; exact hs
    | succ k => rw [hk] at ha; simp at ha

theorem SSL.get_none {st st' : List (Sketch α)} (h : SSL st st') {i : Nat} (hn : st[i]? = none) : st'[i]? = none := by
  rw [List.getElem?_eq_none_iff] at hn ⊢; rw [← h.1]; exact hn

theorem SSL.get_some {st st' : List (Sketch α)} (h : SSL st st') {i : Nat} {s : Sketch α} (hs : st[i]? = some s) :
    ∃ s', st'[i]? = some s' ∧ SS s s' := by
  have hlt : i < st'.length := by rw [← h.1]; exact (List.getElem?_eq_some_iff.mp hs).1
  exact ⟨st'[i], List.getElem?_eq_getElem hlt, h.2 i s _ hs (List.getElem?_eq_getElem hlt)⟩

theorem sortLevelZero_SS (c : Cmp α) (s : Sketch α) : SS (sortLevelZero c s) s := by
  unfold sortLevelZero
  split
  · exact SS.refl s
  · refine ⟨rfl, rfl, rfl, ?_⟩
    cases hs : s.levels with
    | nil => simp [sortHead]
    | cons a b => simp [sortHead, sortBy_length]

/-- `flips_shape_only` for one operation: same shapes in ⇒ same tree structure and same shapes out -/
theorem stepT_SSL (P : Params) (c : Cmp α) {st st' : List (Sketch α)} (h : SSL st st') (op : Op α) :
    CT.Rel SSL (stepT P c st op) (stepT P c st' op) := by
  cases op with
  | new k =>
    simp only [stepT]
    split
    · exact h.append (SS.refl _)
    · exact h
  | upd i x =>
    simp only [stepT]
    cases hs : st[i]? with
    | none => rw [h.get_none hs]; exact h
    | some s =>
      obtain ⟨s', hs', hss⟩ := h.get_some hs
      rw [hs']
      exact CT.Rel_map (updateT_SS P c hss x) (fun a b hab => h.set i hab)
  | merge i j =>
    simp only [stepT]
    split
    · exact h
    · cases hsi : st[i]? with
      | none => rw [h.get_none hsi]; exact h
      | some a =>
        obtain ⟨a', ha', hsa⟩ := h.get_some hsi
        rw [ha']
        cases hsj : st[j]? with
        | none => rw [h.get_none hsj]; exact h
        | some b =>
          obtain ⟨b', hb', hsb⟩ := h.get_some hsj
          rw [hb']
          exact CT.Rel_map (mergeT_SS P c hsa hsb) (fun x y hxy => h.set i hxy)
  | copy i =>
    simp only [stepT]
    cases hs : st[i]? with
    | none => rw [h.get_none hs]; exact h
    | some s =>
      obtain ⟨s', hs', hss⟩ := h.get_some hs
      rw [hs']
      exact h.append hss
  | view i =>
    simp only [stepT]
    cases hs : st[i]? with
    | none => rw [h.get_none hs]; exact h
    | some s =>
      obtain ⟨s', hs', hss⟩ := h.get_some hs
      rw [hs']
      exact h.set i (((sortLevelZero_SS c s).trans hss).trans (sortLevelZero_SS c s').symm)

theorem runT_SSL (P : Params) (c : Cmp α) : ∀ (ops : List (Op α)) {st st' : List (Sketch α)}, SSL st st' →
    CT.Rel SSL (runT P c ops st) (runT P c ops st')
  | [], _, _, h => h
  | op :: ops, _, _, h => CT.Rel_bind (stepT_SSL P c h op) (fun _ _ hab => runT_SSL P c ops hab)

theorem runT_snoc (P : Params) (c : Cmp α) (op : Op α) : ∀ (ops : List (Op α)) (st : List (Sketch α)),
    runT P c (ops ++ [op]) st = CT.bind (runT P c ops st) (fun st' => stepT P c st' op)
  | [], st => by simp only [List.nil_append, runT, CT.bind_ret]; exact CT.bind_ret_right _
  | o :: ops, st => by
    simp only [List.cons_append, runT]
    rw [CT.bind_assoc]
    congr 1
    funext s1
    exact runT_snoc P c op ops s1

theorem truth_snoc (P : Params) (c : Cmp α) (op : Op α) : ∀ (ops : List (Op α)) (tr : List (List α)),
    truth P c (ops ++ [op]) tr = truthStep P c (truth P c ops tr) op
  | [], _ => rfl
  | o :: ops, tr => by simp only [List.cons_append, truth]; exact truth_snoc P c op ops _

/-! ### the value observed: weight below in sketch i -/

def valAt (p : α → Bool) (i : Nat) (st : List (Sketch α)) : Nat :=
  match st[i]? with
  | some s => W p s
  | none => 0

/-- true count below in sketch i -/
def cntAt (p : α → Bool) (i : Nat) (tr : List (List α)) : Nat :=
  match tr[i]? with
  | some l => cnt p l
  | none => 0

theorem valAt_set (p : α → Bool) (st : List (Sketch α)) (i j : Nat) (s : Sketch α) :
    valAt p j (st.set i s) = if i = j ∧ i < st.length then W p s else valAt p j st := by
  unfold valAt
  by_cases hij : i = j
  · subst hij
    by_cases hlt : i < st.length
    · rw [List.getElem?_set_self hlt]; simp [hlt]
    · rw [List.getElem?_eq_none (by simp only [List.length_set]; omega), List.getElem?_eq_none (by omega)]; simp [hlt]
  · rw [List.getElem?_set_ne hij]; simp [hij]

theorem valAt_append (p : α → Bool) (st : List (Sketch α)) (j : Nat) (s : Sketch α) :
    valAt p j (st ++ [s]) = if j = st.length then W p s else valAt p j st := by
  unfold valAt
  by_cases hj : j < st.length
  · rw [List.getElem?_append_left hj]; simp [Nat.ne_of_lt hj]
  · rw [List.getElem?_append_right (by omega)]
    by_cases he : j = st.length
    · subst he; simp
    · have : j - st.length = (j - st.length - 1) + 1 := by omega
      rw [this]; simp [he, List.getElem?_eq_none (show st.length ≤ j by omega)]

theorem cntAt_set (p : α → Bool) (tr : List (List α)) (i j : Nat) (l : List α) :
    cntAt p j (tr.set i l) = if i = j ∧ i < tr.length then cnt p l else cntAt p j tr := by
  unfold cntAt
  by_cases hij : i = j
  · subst hij
    by_cases hlt : i < tr.length
    · rw [List.getElem?_set_self hlt]; simp [hlt]
    · rw [List.getElem?_eq_none (by simp only [List.length_set]; omega), List.getElem?_eq_none (by omega)]; simp [hlt]
  · rw [List.getElem?_set_ne hij]; simp [hij]

theorem cntAt_append (p : α → Bool) (tr : List (List α)) (j : Nat) (l : List α) :
    cntAt p j (tr ++ [l]) = if j = tr.length then cnt p l else cntAt p j tr := by
  unfold cntAt
  by_cases hj : j < tr.length
  · rw [List.getElem?_append_left hj]; simp [Nat.ne_of_lt hj]
  · rw [List.getElem?_append_right (by omega)]
    by_cases he : j = tr.length
    · subst he; simp
    · have : j - tr.length = (j - tr.length - 1) + 1 := by omega
      rw [this]; simp [he, List.getElem?_eq_none (show tr.length ≤ j by omega)]

/-- the linear form (index a, optional index b, constant) giving the expected value at index `i` after `op`
in a state of `n` sketches -/
def lin (P : Params) (c : Cmp α) (p : α → Bool) (n : Nat) (i : Nat) : Op α → Nat × Option Nat × Nat
  | .new _ => (i, none, 0)
  | .upd j x => if i = j ∧ j < n then (i, none, if c.isNaN x then 0 else if p x then 1 else 0) else (i, none, 0)
  | .merge a b => if i = a ∧ a ≠ b ∧ a < n ∧ b < n then (a, some b, 0) else (i, none, 0)
  | .copy j => if i = n ∧ j < n then (j, none, 0) else (i, none, 0)
  | .view _ => (i, none, 0)

def linVal (f : Nat → Nat) (l : Nat × Option Nat × Nat) : Nat :=
  f l.1 + (match l.2.1 with | some b => f b | none => 0) + l.2.2

theorem W_init (p : α → Bool) (k : Nat) : W p (init k : Sketch α) = 0 := by simp [W, init, wb, cnt]

theorem valAt_of_ge (p : α → Bool) {st : List (Sketch α)} {i : Nat} (h : st.length ≤ i) : valAt p i st = 0 := by
  unfold valAt; rw [List.getElem?_eq_none h]

theorem valAt_of_get (p : α → Bool) {st : List (Sketch α)} {i : Nat} {s : Sketch α} (h : st[i]? = some s) :
    valAt p i st = W p s := by unfold valAt; rw [h]

theorem cntAt_of_ge (p : α → Bool) {tr : List (List α)} {i : Nat} (h : tr.length ≤ i) : cntAt p i tr = 0 := by
  unfold cntAt; rw [List.getElem?_eq_none h]

theorem cntAt_of_get (p : α → Bool) {tr : List (List α)} {i : Nat} {l : List α} (h : tr[i]? = some l) :
    cntAt p i tr = cnt p l := by unfold cntAt; rw [h]

/-- one operation, summed over its coin outcomes -/
theorem stepT_fair {P : Params} (ok : ParamsOk P) {c : Cmp α} (sw : StrictWeak c.lt) (p : α → Bool) {st : List (Sketch α)}
    (hi : ∀ s ∈ st, InvS P c.lt s) (op : Op α) (i : Nat) :
    (stepT P c st op).sum (valAt p i) =
      CT.leaves (stepT P c st op) * linVal (fun j => valAt p j st) (lin P c p st.length i op) := by
  cases op with
  | new k =>
    simp only [stepT, CT.sum_ret, CT.leaves_ret, lin, linVal, Nat.add_zero, Nat.one_mul]
    split
    · rw [valAt_append, W_init]
      split
      · rename_i h; subst h; rw [valAt_of_ge p (Nat.le_refl _)]
      · rfl
    · rfl
  | upd j x =>
    simp only [stepT]
    cases hs : st[j]? with
    | none =>
      have hge : st.length ≤ j := List.getElem?_eq_none_iff.mp hs
      simp only [CT.sum_ret, CT.leaves_ret, Nat.one_mul, lin, linVal]
      rw [if_neg (by omega)]; simp
    | some s =>
      have hlt : j < st.length := (List.getElem?_eq_some_iff.mp hs).1
      simp only
      rw [CT.sum_map, CT.leaves_map]
      by_cases hij : i = j
      · subst hij
        have e : (fun s' => valAt p i (st.set i s')) = W p := by
          funext s'; rw [valAt_set]; simp [hlt]
        rw [e, updateT_fair]
        simp only [lin, hlt, and_self, if_true, linVal, valAt_of_get p hs, Nat.add_zero]
      · have e : (fun s' => valAt p i (st.set j s')) = fun _ => valAt p i st := by
          funext s'; rw [valAt_set]; simp [Ne.symm hij]
        rw [e, CT.sum_const]
        simp only [lin, hij, false_and, if_false, linVal, Nat.add_zero]
  | merge a b =>
    simp only [stepT]
    by_cases hab : a = b
    · subst hab
      simp only [BEq.rfl, if_true, CT.sum_ret, CT.leaves_ret, Nat.one_mul, lin, linVal, ne_eq, not_true_eq_false,
        false_and, and_false, if_false, Nat.add_zero]
    · have hab' : (a == b) = false := by simpa using hab
      simp only [hab', Bool.false_eq_true, if_false]
      cases hsa : st[a]? with
      | none =>
        have hge : st.length ≤ a := List.getElem?_eq_none_iff.mp hsa
        simp only [CT.sum_ret, CT.leaves_ret, Nat.one_mul, lin, linVal]
        rw [if_neg (by omega)]; simp
      | some sa =>
        have hlta : a < st.length := (List.getElem?_eq_some_iff.mp hsa).1
        cases hsb : st[b]? with
        | none =>
          have hge : st.length ≤ b := List.getElem?_eq_none_iff.mp hsb
          simp only [CT.sum_ret, CT.leaves_ret, Nat.one_mul, lin, linVal]
          rw [if_neg (by omega)]; simp
        | some sb =>
          have hltb : b < st.length := (List.getElem?_eq_some_iff.mp hsb).1
          simp only
          rw [CT.sum_map, CT.leaves_map]
          by_cases hia : i = a
          · subst hia
            have e : (fun s' => valAt p i (st.set i s')) = W p := by
              funext s'; rw [valAt_set]; simp [hlta]
            rw [e, mergeT_fair ok sw p (hi sa (List.mem_of_getElem? hsa)) (hi sb (List.mem_of_getElem? hsb))]
            simp only [lin, hab, hlta, hltb, ne_eq, not_false_eq_true, and_self, if_true, linVal,
              valAt_of_get p hsa, valAt_of_get p hsb, Nat.add_zero]
          · have e : (fun s' => valAt p i (st.set a s')) = fun _ => valAt p i st := by
              funext s'; rw [valAt_set]; simp [Ne.symm hia]
            rw [e, CT.sum_const]
            simp only [lin, hia, false_and, if_false, linVal, Nat.add_zero]
  | copy j =>
    simp only [stepT]
    cases hs : st[j]? with
    | none =>
      have hge : st.length ≤ j := List.getElem?_eq_none_iff.mp hs
      simp only [CT.sum_ret, CT.leaves_ret, Nat.one_mul, lin, linVal]
      rw [if_neg (by omega)]; simp
    | some s =>
      have hlt : j < st.length := (List.getElem?_eq_some_iff.mp hs).1
      simp only [CT.sum_ret, CT.leaves_ret, Nat.one_mul, lin, linVal]
      rw [valAt_append]
      by_cases he : i = st.length
      · simp only [he, hlt, and_self, if_true, valAt_of_get p hs, Nat.add_zero]
      · simp only [he, false_and, if_false, Nat.add_zero]
  | view j =>
    simp only [stepT]
    cases hs : st[j]? with
    | none => simp only [CT.sum_ret, CT.leaves_ret, Nat.one_mul, lin, linVal, Nat.add_zero]
    | some s =>
      have hlt : j < st.length := (List.getElem?_eq_some_iff.mp hs).1
      simp only [CT.sum_ret, CT.leaves_ret, Nat.one_mul, lin, linVal, Nat.add_zero]
      rw [valAt_set]
      split
      · rename_i h
        obtain ⟨rfl, _⟩ := h
        rw [valAt_of_get p hs]
        unfold W; exact sortLevelZero_wb (hi s (List.mem_of_getElem? hs)) p
      · rfl

/-- the ground truth follows the same linear form -/
theorem truthStep_lin (P : Params) (c : Cmp α) (p : α → Bool) (tr : List (List α)) (op : Op α) (i : Nat) :
    cntAt p i (truthStep P c tr op) = linVal (fun j => cntAt p j tr) (lin P c p tr.length i op) := by
  cases op with
  | new k =>
    simp only [truthStep, lin, linVal, Nat.add_zero]
    split
    · rw [cntAt_append]
      split
      · rename_i h; subst h; rw [cntAt_of_ge p (Nat.le_refl _)]; rfl
      · rfl
    · rfl
  | upd j x =>
    simp only [truthStep]
    cases hs : tr[j]? with
    | none =>
      have hge : tr.length ≤ j := List.getElem?_eq_none_iff.mp hs
      simp only [lin, linVal]
      rw [if_neg (by omega)]; simp
    | some l =>
      have hlt : j < tr.length := (List.getElem?_eq_some_iff.mp hs).1
      simp only
      by_cases hx : c.isNaN x = true
      · simp only [hx, if_true, lin, linVal]
        split <;> simp
      · have hx' : c.isNaN x = false := by simpa using hx
        simp only [hx', Bool.false_eq_true, if_false, lin, linVal]
        rw [cntAt_set]
        by_cases hij : i = j
        · subst hij
          simp only [hlt, and_self, if_true, cnt_cons, cntAt_of_get p hs, Nat.add_zero]; omega
        · simp only [Ne.symm hij, hij, false_and, if_false, Nat.add_zero]
  | merge a b =>
    simp only [truthStep]
    by_cases hab : a = b
    · subst hab
      simp only [BEq.rfl, if_true, lin, linVal, ne_eq, not_true_eq_false, false_and, and_false, if_false, Nat.add_zero]
    · have hab' : (a == b) = false := by simpa using hab
      simp only [hab', Bool.false_eq_true, if_false]
      cases hsa : tr[a]? with
      | none =>
        have hge : tr.length ≤ a := List.getElem?_eq_none_iff.mp hsa
        simp only [lin, linVal]
        rw [if_neg (by omega)]; simp
      | some la =>
        have hlta : a < tr.length := (List.getElem?_eq_some_iff.mp hsa).1
        cases hsb : tr[b]? with
        | none =>
          have hge : tr.length ≤ b := List.getElem?_eq_none_iff.mp hsb
          simp only [lin, linVal]
          rw [if_neg (by omega)]; simp
        | some lb =>
          have hltb : b < tr.length := (List.getElem?_eq_some_iff.mp hsb).1
          simp only
          rw [cntAt_set]
          by_cases hia : i = a
          · subst hia
            simp only [hlta, and_self, if_true, cnt_append, lin, hab, hltb, ne_eq, not_false_eq_true, linVal,
              cntAt_of_get p hsa, cntAt_of_get p hsb, Nat.add_zero]; omega
          · simp only [Ne.symm hia, hia, false_and, if_false, lin, linVal, Nat.add_zero]
  | copy j =>
    simp only [truthStep]
    cases hs : tr[j]? with
    | none =>
      have hge : tr.length ≤ j := List.getElem?_eq_none_iff.mp hs
      simp only [lin, linVal]
      rw [if_neg (by omega)]; simp
    | some l =>
      have hlt : j < tr.length := (List.getElem?_eq_some_iff.mp hs).1
      simp only [lin, linVal]
      rw [cntAt_append]
      by_cases he : i = tr.length
      · simp only [he, hlt, and_self, if_true, cntAt_of_get p hs, Nat.add_zero]
      · simp only [he, false_and, if_false, Nat.add_zero]
  | view j => simp only [truthStep, lin, linVal, Nat.add_zero]

theorem snoc_induction {β : Type} {motive : List β → Prop} (nil : motive [])
    (snoc : ∀ (l : List β) (a : β), motive l → motive (l ++ [a])) : ∀ l, motive l := by
  intro l
  rw [← List.reverse_reverse l]
  induction l.reverse with
  | nil => exact nil
  | cons a t ih => rw [List.reverse_cons]; exact snoc _ _ ih

/-- MAIN: for every history from the empty state, every sketch index and every predicate: the weight satisfying
the predicate, summed over all coin outcomes, is (number of outcomes) × (true count) -/
theorem runT_fair {P : Params} (ok : ParamsOk P) {c : Cmp α} (sw : StrictWeak c.lt) (p : α → Bool) (ops : List (Op α)) :
    ∀ i, (runT P c ops []).sum (valAt p i) = CT.leaves (runT P c ops []) * cntAt p i (truth P c ops []) := by
  induction ops using snoc_induction with
  | nil => intro i; simp [runT, truth, valAt, cntAt]
  | snoc ops op ih =>
    intro i
    rw [runT_snoc, truth_snoc, truthStep_lin]
    have hinv := runT_coupled ok sw ops (st := []) (tr := []) (by simp) ⟨rfl, by simp⟩
    have hrel := runT_SSL P c ops (SSL.refl ([] : List (Sketch α)))
    -- the number of sketches is the same at every leaf (and equals the ground truth's)
    have hlen : CT.All (fun st => st.length = (truth P c ops []).length) (runT P c ops []) :=
      CT.All.imp (fun st h => h.2.1) hinv
    have hL := CT.leaves_const_of_rel (g := fun st' => stepT P c st' op) hrel (fun a b hab => stepT_SSL P c hab op)
    rw [CT.sum_bind, CT.leaves_bind]
    rw [CT.sum_congr hL (fun r hr => hr), CT.sum_const]
    have hstep : CT.All (fun st => (stepT P c st op).sum (valAt p i) =
        CT.leaves (stepT P c (CT.leftLeaf (runT P c ops [])) op) *
          linVal (fun j => valAt p j st) (lin P c p (truth P c ops []).length i op)) (runT P c ops []) := by
      refine CT.All.imp ?_ (CT.All.and (CT.All.and hinv hlen) hL)
      intro st ⟨⟨⟨hi, _⟩, hl⟩, hlv⟩
      rw [stepT_fair ok sw p hi op i, hl, hlv]
    rw [CT.sum_congr hstep (fun r hr => hr), CT.sum_mul_left]
    generalize CT.leaves (stepT P c (CT.leftLeaf (runT P c ops [])) op) = L₂
    generalize lin P c p (truth P c ops []).length i op = l
    obtain ⟨a, b, k⟩ := l
    have hsum : (runT P c ops []).sum (fun st => linVal (fun j => valAt p j st) (a, b, k)) =
        CT.leaves (runT P c ops []) * linVal (fun j => cntAt p j (truth P c ops [])) (a, b, k) := by
      cases b with
      | none =>
        simp only [linVal, Nat.add_zero]
        rw [CT.sum_add, CT.sum_const, ih a, Nat.mul_add]
      | some b =>
        simp only [linVal]
        rw [CT.sum_add, CT.sum_add, CT.sum_const, ih a, ih b, Nat.mul_add, Nat.mul_add]
    rw [hsum, Nat.mul_comm (CT.leaves (runT P c ops [])) L₂, Nat.mul_assoc]

end DS.Kll

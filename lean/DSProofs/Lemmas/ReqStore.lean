/- Histories: every object of the store satisfies the sketch invariant and refines the specification store. (Helper lemmas.) -/
import DSProofs.Lemmas.ReqMerge
namespace DS.Req

variable {ρ : Type}

/-! ### association lists in lock-step -/

def ALRel {α β : Type} (R : α → β → Prop) : List (Nat × α) → List (Nat × β) → Prop
  | [], [] => True
  | (i, a) :: s, (j, b) :: t => i = j ∧ R a b ∧ ALRel R s t
  | _, _ => False

theorem ALRel_get {α β : Type} {R : α → β → Prop} {s : List (Nat × α)} {t : List (Nat × β)} (h : ALRel R s t) (id : Nat) :
    (AL.get s id = none ∧ AL.get t id = none) ∨ (∃ a b, AL.get s id = some a ∧ AL.get t id = some b ∧ R a b) := by
  induction s generalizing t with
  | nil => cases t with
    | nil => left; exact ⟨rfl, rfl⟩
    | cons y t => exact absurd h (by simp [ALRel])
  | cons x s ih => cases t with
    | nil => exact absurd h (by simp [ALRel])
    | cons y t =>
      obtain ⟨i, a⟩ := x; obtain ⟨j, b⟩ := y
      obtain ⟨rfl, hab, hst⟩ := h
      simp only [AL.get]
      split
      · right; exact ⟨a, b, rfl, rfl, hab⟩
      · exact ih hst

theorem ALRel_set {α β : Type} {R : α → β → Prop} {s : List (Nat × α)} {t : List (Nat × β)} (h : ALRel R s t) (id : Nat)
    {a : α} {b : β} (hab : R a b) : ALRel R (AL.set s id a) (AL.set t id b) := by
  induction s generalizing t with
  | nil => cases t with
    | nil => exact ⟨rfl, hab, trivial⟩
    | cons y t => exact absurd h (by simp [ALRel])
  | cons x s ih => cases t with
    | nil => exact absurd h (by simp [ALRel])
    | cons y t =>
      obtain ⟨i, a0⟩ := x; obtain ⟨j, b0⟩ := y
      obtain ⟨rfl, hab0, hst⟩ := h
      simp only [AL.set]
      split
      · exact ⟨rfl, hab, hst⟩
      · exact ⟨rfl, hab0, ih hst⟩

theorem AL_set_get_self {α : Type} (m : List (Nat × α)) (id : Nat) (b : α) (h : AL.get m id = some b) : AL.set m id b = m := by
  induction m with
  | nil => simp [AL.get] at h
  | cons x t ih =>
    obtain ⟨i, a⟩ := x
    simp only [AL.get] at h
    simp only [AL.set]
    split
    · rename_i hi; rw [if_pos hi] at h; simp at h; rw [h]
    · rename_i hi; rw [if_neg hi] at h; rw [ih h]

/-! ### queries keep the invariant -/

theorem sortAll_spec {T : Tun} {hra : Bool} : ∀ (h : Nat) (cs : List (Compactor ρ)), CsInv T hra h cs →
    CsInv T hra h (sortAll cs) ∧ sumItems (sortAll cs) = sumItems cs ∧ sumCap T (sortAll cs) = sumCap T cs ∧
    totalW (sortAll cs) = totalW cs ∧ (AllNE cs → AllNE (sortAll cs)) ∧ (sortAll cs).length = cs.length ∧
    entered0L (sortAll cs) = entered0L cs ∧ (∀ p, weightP p (sortAll cs) = weightP p cs) := by
  intro h cs
  induction cs generalizing h with
  | nil => intro _; exact ⟨trivial, rfl, rfl, rfl, fun x => x, rfl, rfl, fun _ => rfl⟩
  | cons c t ih =>
    intro hinv
    obtain ⟨a1, a2, a3, a4, a5, a6, _, a8⟩ := ih (h + 1) hinv.2
    simp only [sortAll, List.map_cons] at *
    refine ⟨⟨sort_CInv hinv.1, a1⟩, ?_, ?_, ?_, ?_, by simp [a6], ?_, ?_⟩
    · simp only [sumItems_cons, sort_length, a2]
    · simp only [sumCap_cons, sort_nomCap, a3]
    · simp only [totalW_cons, sort_length, (sort_fields c).1, a4]
    · intro hne; obtain ⟨x, y⟩ := AllNE_cons.1 hne; exact AllNE_cons.2 ⟨sort_ne x, a5 y⟩
    · simp [entered0L, (sort_fields c).2.2.2.2.2.2.1]
    · intro p; simp only [weightP_cons, sort_cntP, (sort_fields c).1, a8 p]

theorem sortLevel0_spec {T : Tun} {hra : Bool} (cs : List (Compactor ρ)) (hinv : CsInv T hra 0 cs) :
    CsInv T hra 0 (sortLevel0 cs) ∧ sumItems (sortLevel0 cs) = sumItems cs ∧ sumCap T (sortLevel0 cs) = sumCap T cs ∧
    totalW (sortLevel0 cs) = totalW cs ∧ (AllNE cs → AllNE (sortLevel0 cs)) ∧ (sortLevel0 cs).length = cs.length ∧
    entered0L (sortLevel0 cs) = entered0L cs ∧ (∀ p, weightP p (sortLevel0 cs) = weightP p cs) := by
  cases cs with
  | nil => exact ⟨trivial, rfl, rfl, rfl, fun x => x, rfl, rfl, fun _ => rfl⟩
  | cons c t =>
    simp only [sortLevel0]
    refine ⟨⟨sort_CInv hinv.1, hinv.2⟩, ?_, ?_, ?_, ?_, rfl, ?_, ?_⟩
    · simp only [sumItems_cons, sort_length]
    · simp only [sumCap_cons, sort_nomCap]
    · simp only [totalW_cons, sort_length, (sort_fields c).1]
    · intro hne; obtain ⟨x, y⟩ := AllNE_cons.1 hne; exact AllNE_cons.2 ⟨sort_ne x, y⟩
    · simp [entered0L, (sort_fields c).2.2.2.2.2.2.1]
    · intro p; simp only [weightP_cons, sort_cntP, (sort_fields c).1]

theorem afterRank_SInv {T : Tun} (s : Sketch ρ) (h : SInv T s) : SInv T s.afterRank ∧ entered0 s.afterRank = entered0 s := by
  obtain ⟨a1, a2, a3, a4, a5, a6, a7, _⟩ := sortAll_spec 0 s.compactors h.cs
  have hent : entered0 s.afterRank = entered0 s := a7
  refine ⟨⟨h.k2, a1, ?_, ?_, ?_, ?_, ?_, ?_, ?_, ?_, ?_, ?_⟩, hent⟩
  · intro e; have := a6; simp only [Sketch.afterRank] at e; rw [e] at this
    exact h.nonnil (List.length_eq_zero_iff.1 this.symm)
  · show s.numRetained = sumItems (sortAll s.compactors); rw [a2]; exact h.ret
  · show s.maxNomSize = sumCap T (sortAll s.compactors); rw [a3]; exact h.cap
  · show s.n = totalW (sortAll s.compactors); rw [a4]; exact h.tw
  · intro hn; exact a5 (h.ne hn)
  · intro hn; show (sortAll s.compactors).length = 1; rw [a6]; exact h.one hn
  · rw [hent]; exact h.ent
  · rw [hent]; exact h.mn
  · rw [hent]; exact h.mx
  · intro c hc p
    obtain ⟨c0, hc0⟩ := List.length_eq_one_iff.1 (by rw [← a6]; show (sortAll s.compactors).length = 1; rw [show sortAll s.compactors = [c] from hc]; rfl : s.compactors.length = 1)
    have : c = c0.sort := by
      have : sortAll s.compactors = [c] := hc
      rw [hc0] at this; simpa [sortAll] using this.symm
    subst this
    rw [sort_cntP, (sort_fields c0).2.2.2.2.2.2.1]; exact h.ex c0 hc0 p

theorem afterView_SInv {T : Tun} (s : Sketch ρ) (h : SInv T s) : SInv T s.afterView ∧ entered0 s.afterView = entered0 s := by
  obtain ⟨a1, a2, a3, a4, a5, a6, a7, _⟩ := sortLevel0_spec s.compactors h.cs
  have hent : entered0 s.afterView = entered0 s := a7
  refine ⟨⟨h.k2, a1, ?_, ?_, ?_, ?_, ?_, ?_, ?_, ?_, ?_, ?_⟩, hent⟩
  · intro e; have := a6; simp only [Sketch.afterView] at e; rw [e] at this
    exact h.nonnil (List.length_eq_zero_iff.1 this.symm)
  · show s.numRetained = sumItems (sortLevel0 s.compactors); rw [a2]; exact h.ret
  · show s.maxNomSize = sumCap T (sortLevel0 s.compactors); rw [a3]; exact h.cap
  · show s.n = totalW (sortLevel0 s.compactors); rw [a4]; exact h.tw
  · intro hn; exact a5 (h.ne hn)
  · intro hn; show (sortLevel0 s.compactors).length = 1; rw [a6]; exact h.one hn
  · rw [hent]; exact h.ent
  · rw [hent]; exact h.mn
  · rw [hent]; exact h.mx
  · intro c hc p
    obtain ⟨c0, hc0⟩ := List.length_eq_one_iff.1 (by rw [← a6]; show (sortLevel0 s.compactors).length = 1; rw [show sortLevel0 s.compactors = [c] from hc]; rfl : s.compactors.length = 1)
    have : c = c0.sort := by
      have : sortLevel0 s.compactors = [c] := hc
      rw [hc0] at this; simpa [sortLevel0] using this.symm
    subst this
    rw [sort_cntP, (sort_fields c0).2.2.2.2.2.2.1]; exact h.ex c0 hc0 p

/-! ### the store refines the specification store -/

/-- a model sketch and its specification: invariant, same mode, `entered` of level 0 is exactly the list of items fed -/
def SkRel (T : Tun) (s : Sketch ρ) (sp : SpecSk) : Prop := SInv T s ∧ s.hra = sp.hra ∧ entered0 s = sp.items

abbrev StoreRel (T : Tun) (st : Store ρ) (m : List (Nat × SpecSk)) : Prop := ALRel (SkRel T) st m

theorem stepOp_rel {T : Tun} (hT : TunOK T) (F : SecFns ρ) (st : Store ρ) (m : List (Nat × SpecSk)) (acc : Acc) (op : Op)
    (h : StoreRel T st m) :
    StoreRel T (stepOp T F st acc op).1 (specStep m op) ∧ (stepOp T F st acc op).2.throws = acc.throws := by
  cases op with
  | new id k hra =>
    simp only [stepOp, specStep]
    exact ⟨ALRel_set h id ⟨new_SInv hT F k hra acc.peek, (new_compactors T F k hra acc.peek).2.2.2.2.1, by simp [entered0, entered0L, (new_compactors T F k hra acc.peek).1, (mkC_fields T F hra 0 (effectiveK T k) acc.peek).2.1]⟩, drawIf_throws acc _ _⟩
  | upd id x =>
    simp only [stepOp, specStep]
    rcases ALRel_get h id with ⟨h1, h2⟩ | ⟨a, b, h1, h2, hab⟩
    · simp only [Store.get, h1, h2]; exact ⟨h, by first | rfl | trivial⟩
    · simp only [Store.get, h1, h2]
      obtain ⟨u1, u2, u3, u4, _⟩ := update_SInv hT F a x acc hab.1
      exact ⟨ALRel_set h id ⟨u1, by rw [u4]; exact hab.2.1, by rw [u3, hab.2.2]⟩, u2⟩
  | merge i j =>
    simp only [stepOp, specStep]
    split
    · exact ⟨h, by first | rfl | trivial⟩
    · rcases ALRel_get h i with ⟨h1, h2⟩ | ⟨a, b, h1, h2, hab⟩
      · simp only [Store.get, h1, h2]; exact ⟨h, by first | rfl | trivial⟩
      · rcases ALRel_get h j with ⟨g1, g2⟩ | ⟨a', b', g1, g2, hab'⟩
        · simp only [Store.get, h1, h2, g1, g2]; exact ⟨h, by first | rfl | trivial⟩
        · simp only [Store.get, h1, h2, g1, g2]
          cases hm : a.merge T F a' acc with
          | none =>
            simp only
            have : (a.hra != a'.hra) = true := by
              simp only [Sketch.merge] at hm
              split at hm
              · assumption
              · split at hm
                · simp at hm
                · split at hm <;> simp at hm
            rw [hab.2.1, hab'.2.1] at this
            simp only [this, if_true]; exact ⟨h, by first | rfl | trivial⟩
          | some r =>
            obtain ⟨m1, m2, m3, m4, _, m6⟩ := merge_SInv hT F a a' acc hab.1 hab'.1 r hm
            have : (b.hra != b'.hra) = false := by rw [← hab.2.1, ← hab'.2.1, m6]; simp
            simp only [this, Bool.false_eq_true, if_false]
            exact ⟨ALRel_set h i ⟨m1, by rw [m4]; exact hab.2.1, by rw [m3, hab.2.2, hab'.2.2]⟩, m2⟩
  | copy i j =>
    simp only [stepOp, specStep]
    rcases ALRel_get h i with ⟨h1, h2⟩ | ⟨a, b, h1, h2, hab⟩
    · simp only [Store.get, h1, h2]; exact ⟨h, by first | rfl | trivial⟩
    · simp only [Store.get, h1, h2]; exact ⟨ALRel_set h j hab, by first | rfl | trivial⟩
  | rankq id =>
    simp only [stepOp, specStep]
    rcases ALRel_get h id with ⟨h1, h2⟩ | ⟨a, b, h1, h2, hab⟩
    · simp only [Store.get, h1]; exact ⟨h, by first | rfl | trivial⟩
    · simp only [Store.get, h1]
      have := afterRank_SInv a hab.1
      refine ⟨?_, by first | rfl | trivial⟩
      have hs := ALRel_set h id (a := a.afterRank) (b := b) ⟨this.1, hab.2.1, by rw [this.2]; exact hab.2.2⟩
      rwa [AL_set_get_self m id b h2] at hs
  | viewq id =>
    simp only [stepOp, specStep]
    rcases ALRel_get h id with ⟨h1, h2⟩ | ⟨a, b, h1, h2, hab⟩
    · simp only [Store.get, h1]; exact ⟨h, by first | rfl | trivial⟩
    · simp only [Store.get, h1]
      have := afterView_SInv a hab.1
      refine ⟨?_, by first | rfl | trivial⟩
      have hs := ALRel_set h id (a := a.afterView) (b := b) ⟨this.1, hab.2.1, by rw [this.2]; exact hab.2.2⟩
      rwa [AL_set_get_self m id b h2] at hs

theorem runOps_rel {T : Tun} (hT : TunOK T) (F : SecFns ρ) (ops : List Op) : ∀ (st : Store ρ) (m : List (Nat × SpecSk)) (acc : Acc),
    StoreRel T st m → StoreRel T (runOps T F st acc ops).1 (specRun m ops) ∧ (runOps T F st acc ops).2.throws = acc.throws := by
  induction ops with
  | nil => intro st m acc h; exact ⟨h, rfl⟩
  | cons op ops ih =>
    intro st m acc h
    simp only [runOps, specRun]
    have s1 := stepOp_rel hT F st m acc op h
    have s2 := ih _ _ (stepOp T F st acc op).2 s1.1
    exact ⟨s2.1, by rw [s2.2, s1.2]⟩

/-- every object of every history: invariant + refinement of the specification -/
theorem run_rel {T : Tun} (hT : TunOK T) (F : SecFns ρ) (ops : List Op) (coins : List Bool) (id : Nat) (s : Sketch ρ)
    (h : (run T F ops coins).1.get id = some s) :
    ∃ sp, AL.get (specRun [] ops) id = some sp ∧ SkRel T s sp := by
  have r := (runOps_rel hT F ops ([] : Store ρ) [] (Acc.init coins) trivial).1
  rcases ALRel_get r id with ⟨h1, _⟩ | ⟨a, b, h1, h2, hab⟩
  · simp only [run, Store.get] at h; rw [h1] at h; exact absurd h (by simp)
  · simp only [run, Store.get] at h; rw [h1] at h
    have : a = s := by simpa using h
    subst this; exact ⟨b, h2, hab⟩

end DS.Req

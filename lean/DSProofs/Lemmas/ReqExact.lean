/- Exact mode: a single-level REQ sketch exposes exactly the sorted input with unit weights. (Helper lemmas.) -/
import DSProofs.Lemmas.ReqView
namespace DS.Req

variable {ρ : Type}

theorem cntP_lt_head_zero (x : Int) (l : List Int) (h : Sorted (x :: l)) : cntP (fun z => decide (z < x)) (x :: l) = 0 := by
  simp only [Sorted, List.pairwise_cons] at h
  unfold cntP; rw [List.length_eq_zero_iff, List.filter_eq_nil_iff]
  intro z hz
  rcases List.mem_cons.1 hz with rfl | hz
  · simp
  · have := h.1 z hz; simp; omega

/-- two ascending lists with the same counts for every predicate are equal -/
theorem sorted_unique : ∀ (a b : List Int), Sorted a → Sorted b → (∀ p, cntP p a = cntP p b) → a = b := by
  intro a
  induction a with
  | nil =>
    intro b _ _ h
    have := h (fun _ => true); simp only [cntP_true, List.length_nil] at this
    exact (List.length_eq_zero_iff.1 this.symm).symm
  | cons x a' ih =>
    intro b ha hb h
    cases b with
    | nil => have := h (fun _ => true); simp [cntP_true] at this
    | cons y b' =>
      have h1 := h (fun z => decide (z < x)); rw [cntP_lt_head_zero x a' ha] at h1
      have h2 := h (fun z => decide (z < y)); rw [cntP_lt_head_zero y b' hb] at h2
      have hxy : x = y := by
        simp only [cntP_cons] at h1 h2
        by_cases c1 : y < x
        · simp [c1] at h1 <;> omega
        · by_cases c2 : x < y
          · simp [c2] at h2 <;> omega
          · omega
      subst hxy
      congr 1
      simp only [Sorted, List.pairwise_cons] at ha hb
      apply ih b' ha.2 hb.2
      intro p; have := h p; simp only [cntP_cons] at this; omega

/-- in exact mode (one level) the raw sorted view is the ascending input with unit weights -/
theorem exact_view {T : Tun} (s : Sketch ρ) (h : SInv T s) (h1 : s.compactors.length = 1) :
    viewRaw s.afterView.compactors = (sortInts (entered0 s)).map (fun x => (x, 1)) := by
  obtain ⟨c, hc⟩ := List.length_eq_one_iff.1 h1
  have hinv := h.cs; rw [hc] at hinv
  have hex := h.ex c hc
  have hlg : c.lgWeight = 0 := hinv.1.lg
  have : s.afterView.compactors = [c.sort] := by simp [Sketch.afterView, hc, sortLevel0]
  rw [this]
  simp only [viewRaw, List.foldl_cons, List.foldl_nil, SortedView.add, List.isEmpty_nil, if_true, (sort_fields c).1, hlg, Nat.pow_zero]
  congr 1
  apply sorted_unique _ _ (sort_sorted hinv.1) (sorted_sortInts _)
  intro p
  rw [sort_cntP, cntP_sortInts, hex p]
  simp [entered0, entered0L, hc]

end DS.Req

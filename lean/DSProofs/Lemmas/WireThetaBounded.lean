/-
No count field of a theta image can make the specification reader return more entries than 8 per input byte
(helper lemmas for `decode_bounded`).
-/
import DSProofs.Lemmas.WireThetaV4
namespace DS.Wire.Theta
open DS.Wire Reader DS.Wire.BitPack

def nEntries (s : Image) : Nat := s.entries.length

theorem length_undelta (p : Nat) (ds : List Nat) : (undelta p ds).length = ds.length := by
  induction ds generalizing p with
  | nil => rfl
  | cons d t ih => simp [undelta, ih]


theorem tail_entries (n : Nat) (g : List Nat → Image) (hg : ∀ l, (g l).entries = l) :
    BoundedBy nEntries 8 (Reader.bind (repeatN u64 n) fun es => Reader.pure (g es)) :=
  boundedBy_repeatN u64 8 c8_u64 (by decide) n g (fun l => by simp [nEntries, hg])

theorem bounded_decodeV3 (c : Consts) (exp pre : Nat) : BoundedBy nEntries 8 (decodeV3 c exp pre) :=
  boundedBy_bind _ _ (c0_skip 2) fun _ =>
  boundedBy_bind _ _ c0_u8 fun _ =>
  boundedBy_bind _ _ c0_u16 fun _ =>
  boundedBy_ite _ _ _ (boundedBy_pure _ rfl) <|
    boundedBy_bind _ _ (consumes_guard _) fun _ =>
    boundedBy_ite _ _ _
      (by
        intro b x r h
        simp only [Reader.bind] at h
        cases h1 : u64 b with
        | none => simp [h1] at h
        | some p =>
          obtain ⟨e, r1⟩ := p
          simp only [h1, Reader.pure, Option.some.injEq, Prod.mk.injEq] at h
          have := c8_u64 b e r1 h1
          rw [← h.1, ← h.2]; simp [nEntries]; omega) <|
      boundedBy_bind _ _ c0_u32 fun n =>
      boundedBy_bind _ _ (c0_skip 4) fun _ =>
      boundedBy_bind _ _ (consumes_ite _ _ _ 0 c0_u64 (consumes_pure _)) fun _ =>
      tail_entries n _ (fun _ => rfl)

theorem bounded_decodeV1 (exp : Nat) : BoundedBy nEntries 8 (decodeV1 exp) :=
  boundedBy_bind _ _ (c0_skip 5) fun _ =>
  boundedBy_bind _ _ c0_u32 fun n =>
  boundedBy_bind _ _ (c0_skip 4) fun _ =>
  boundedBy_bind _ _ c0_u64 fun _ =>
  boundedBy_ite _ _ _ (boundedBy_pure _ rfl) (tail_entries n _ (fun _ => rfl))

theorem bounded_decodeV2 (exp pre : Nat) : BoundedBy nEntries 8 (decodeV2 exp pre) :=
  boundedBy_bind _ _ (c0_skip 3) fun _ =>
  boundedBy_bind _ _ c0_u16 fun _ =>
  boundedBy_bind _ _ (consumes_guard _) fun _ =>
  boundedBy_ite _ _ _ (boundedBy_pure _ rfl) <|
  boundedBy_ite _ _ _
    (boundedBy_bind _ _ c0_u32 fun n =>
     boundedBy_bind _ _ (c0_skip 4) fun _ =>
     boundedBy_ite _ _ _ (boundedBy_pure _ rfl) (tail_entries n _ (fun _ => rfl))) <|
  boundedBy_ite _ _ _
    (boundedBy_bind _ _ c0_u32 fun n =>
     boundedBy_bind _ _ (c0_skip 4) fun _ =>
     boundedBy_bind _ _ c0_u64 fun _ =>
     boundedBy_ite _ _ _ (boundedBy_pure _ rfl) (tail_entries n _ (fun _ => rfl)))
    boundedBy_fail

theorem bounded_decodeV4 (exp pre : Nat) : BoundedBy nEntries 8 (decodeV4 exp pre) := by
  unfold decodeV4
  refine boundedBy_bind _ _ c0_u8 fun eb => boundedBy_bind _ _ c0_u8 fun neb => boundedBy_bind _ _ c0_u8 fun _ =>
    boundedBy_bind _ _ c0_u16 fun sh => ?_
  by_cases hg : (sh == exp && decide (neb ≤ 4) && decide (1 ≤ eb ∧ eb ≤ 63)) = true
  · have heb : 1 ≤ eb := by
      simp only [Bool.and_eq_true, decide_eq_true_eq] at hg
      exact hg.2.1
    rw [hg]
    refine boundedBy_bind _ _ (consumes_guard _) fun _ =>
      boundedBy_bind _ _ (consumes_ite _ _ _ 0 c0_u64 (consumes_pure _)) fun th =>
      boundedBy_bind _ _ (consumes_zero_of _ _ (consumes_leNat neb)) fun n => ?_
    intro b x r h
    simp only [Reader.bind] at h
    cases h1 : bytesN (bytesForBits (eb * n)) b with
    | none => simp [h1] at h
    | some p =>
      obtain ⟨bs, r1⟩ := p
      simp only [h1, Reader.pure, Option.some.injEq, Prod.mk.injEq] at h
      have hc := consumes_bytesN _ b bs r1 h1
      rw [← h.1, ← h.2]
      simp only [nEntries, length_undelta, unpackFields, length_splitFields]
      have h8 := eight_bytesForBits (eb * n)
      have hn : n ≤ eb * n := Nat.le_mul_of_pos_left n heb
      omega
  · have : (sh == exp && decide (neb ≤ 4) && decide (1 ≤ eb ∧ eb ≤ 63)) = false := by simpa using hg
    rw [this]
    intro b x r h
    simp [Reader.bind, guard, Reader.fail] at h

theorem bounded_decode (c : Consts) (exp : Nat) : BoundedBy nEntries 8 (decode c exp) :=
  boundedBy_bind _ _ c0_u8 fun pre =>
  boundedBy_bind _ _ c0_u8 fun _ =>
  boundedBy_bind _ _ c0_u8 fun _ =>
  boundedBy_bind _ _ (consumes_guard _) fun _ =>
  boundedBy_ite _ _ _ (bounded_decodeV4 exp pre) <|
  boundedBy_ite _ _ _ (bounded_decodeV3 c exp pre) <|
  boundedBy_ite _ _ _ (bounded_decodeV1 exp) <|
  boundedBy_ite _ _ _ (bounded_decodeV2 exp pre) boundedBy_fail

end DS.Wire.Theta

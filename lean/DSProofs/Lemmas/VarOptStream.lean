/- Whole streams: `feed` (a list of updates) from a state satisfying the invariant; the empty sketch. -/
import DSModel.VarOpt.Union
import DSProofs.Lemmas.VarOptUpdate
namespace DS.VarOpt
open DS

/-- tau (= totalWtR / r) of `s'` is at least that of `s` (cross-multiplied; vacuous while `s` is in warm-up) -/
def TauLe (s s' : Sk Rat) : Prop :=
  s.R ≠ [] → s'.R ≠ [] ∧ s.totalWtR * (s'.R.length : Rat) ≤ s'.totalWtR * (s.R.length : Rat)

theorem TauLe.refl (s : Sk Rat) : TauLe s s := fun h => ⟨h, le_refl _⟩

theorem TauLe.trans {a b c : Sk Rat} (h1 : TauLe a b) (h2 : TauLe b c) : TauLe a c := by
  intro ha
  obtain ⟨hb, h1'⟩ := h1 ha
  obtain ⟨hc, h2'⟩ := h2 hb
  refine ⟨hc, ?_⟩
  have hb0 : (0 : Rat) < (b.R.length : Rat) := by exact_mod_cast length_pos_of_ne_nil hb
  have ha0 : (0 : Rat) ≤ (a.R.length : Rat) := by positivity
  have hc0 : (0 : Rat) ≤ (c.R.length : Rat) := by positivity
  have e1 : a.totalWtR * c.R.length * b.R.length ≤ b.totalWtR * a.R.length * c.R.length := by nlinarith
  have e2 : b.totalWtR * a.R.length * c.R.length ≤ c.totalWtR * a.R.length * b.R.length := by nlinarith
  exact le_of_mul_le_mul_right (le_trans e1 e2) hb0

/-- the ghost entries of a list of updates, newest first -/
def entriesOf (g mark : Bool) (items : List (Int × Rat)) : List E :=
  (items.map (fun p => ({ item := p.1, wt := p.2, mark := g && mark } : E))).reverse

theorem feed_spec (T : Tunables) (mark : Bool) (items : List (Int × Rat)) : ∀ (s : Sk Rat) (ins L : List E) (ds : Draws Rat),
    Inv s ins L → (∀ p ∈ items, 0 < p.2) → (mark = true → s.gadget = true) →
    ∃ s' ds' L', feed T mark items s ds = some (s', ds') ∧ Inv s' (entriesOf s.gadget mark items ++ ins) L' ∧
      s'.k = s.k ∧ s'.gadget = s.gadget ∧ s'.rf = s.rf ∧ TauLe s s' := by
  induction items with
  | nil =>
    intro s ins L ds hinv _ _
    exact ⟨s, ds, L, rfl, by simpa [entriesOf] using hinv, rfl, rfl, rfl, TauLe.refl s⟩
  | cons p t ih =>
    intro s ins L ds hinv hpos hmg
    obtain ⟨x, w⟩ := p
    obtain ⟨s1, ds1, L1, hu, hinv1, hk1, hg1, hrf1, htau1⟩ :=
      update_spec T s ins L hinv x w mark ds (hpos (x, w) (by simp)) hmg
    obtain ⟨s2, ds2, L2, hf, hinv2, hk2, hg2, hrf2, htau2⟩ :=
      ih s1 _ L1 ds1 hinv1 (fun q hq => hpos q (by simp [hq])) (by rw [hg1]; exact hmg)
    refine ⟨s2, ds2, L2, ?_, ?_, by rw [hk2, hk1], by rw [hg2, hg1], by rw [hrf2, hrf1], TauLe.trans htau1 htau2⟩
    · simp only [feed, hu, hf]
    · have : entriesOf s.gadget mark ((x, w) :: t) ++ ins = entriesOf s1.gadget mark t ++ (mkEntry s x w mark :: ins) := by
        simp [entriesOf, mkEntry, storedMark, hg1]
      rw [this]; exact hinv2

/-- the empty sketch satisfies the invariant -/
theorem new_inv (T : Tunables) (k rf : Nat) (g : Bool) (s0 : Sk Rat) (h : Sk.new T k rf g = some s0) :
    Inv s0 [] [] ∧ s0.k = k ∧ s0.gadget = g ∧ s0.n = 0 := by
  unfold Sk.new at h
  split at h
  · exact absurd h (by simp)
  · rename_i hk
    have hk1 : 1 ≤ k := by
      simp at hk; omega
    injection h with h
    subst h
    refine ⟨?_, rfl, rfl, rfl⟩
    exact { kpos := hk1, mnil := rfl, fresh := rfl, n_eq := rfl, perm := List.Perm.refl _, pos := by simp,
            marks := ⟨rfl, by simp⟩, warm := fun _ => ⟨rfl, Nat.zero_le _, by simp⟩, est := fun h => absurd rfl h }

end DS.VarOpt

/- C19, KLL sketch part 6: serialize/deserialize round trip. -/
import DSProofs.Lemmas.LifeKllE
namespace DS.Life.Kll
open DS.Life

/-- `for (i = start; i < start + cnt; ++i) ls[i] = src[i]` -/
theorem copyLevels_ok (src : List Nat) : ∀ (cnt start : Nat) (ls : List Nat), start + cnt ≤ ls.length →
    start + cnt ≤ src.length →
    ∃ ls', foldUp (fun i (ls : List Nat) => do let x ← lv src i; setLv ls i x) cnt start ls = (Pure.pure ls' : M (List Nat)) ∧
      ls'.length = ls.length ∧
      ∀ j, ls'.getD j 0 = if start ≤ j ∧ j < start + cnt then src.getD j 0 else ls.getD j 0 := by
  intro cnt
  induction cnt with
  | zero =>
    intro start ls _ _
    refine ⟨ls, rfl, rfl, fun j => ?_⟩
    rw [if_neg (by omega)]
  | succ c ih =>
    intro start ls hle hsrc
    have hs : start < ls.length := by omega
    obtain ⟨ls', e, hl, hg⟩ := ih (start + 1) (ls.set start (src.getD start 0)) (by simp; omega) (by omega)
    refine ⟨ls', ?_, by simpa using hl, fun j => ?_⟩
    · rw [foldUp_succ, lv_ok (by omega : start < src.length)]
      show (setLv ls start (src.getD start 0) >>= fun a' => foldUp _ c (start + 1) a') = _
      rw [setLv_ok _ hs]
      exact e
    · rw [hg j, getD_set]
      by_cases hj : j = start
      · subst hj
        rw [if_neg (by omega), if_pos ⟨rfl, hs⟩, if_pos ⟨Nat.le_refl _, by omega⟩]
      · by_cases hr : start + 1 ≤ j ∧ j < start + 1 + c
        · rw [if_pos hr, if_pos ⟨by omega, by omega⟩]
        · rw [if_neg hr, if_neg (fun x => hj x.1), if_neg (by omega)]

theorem computeTotalCapacity_one_ge (k m : Nat) : m ≤ computeTotalCapacity k m 1 := by
  rw [computeTotalCapacity_succ]
  have := levelCapacity_ge k (0 + 1) 0 m
  omega

theorem roundTrip_contract (P : Params) (hP : P.OK) (n0 : Nat) (s : Sketch) (ids0 : List Nat) :
    TripleS n0 (foot [] n0)
      (fun h => Usable P h s ∧ h.ids = ids0 ∧ h.next = n0 ∧ (∀ b, b ∈ owned s → b < n0)) (roundTrip P s)
      (fun d h' => Usable P h' d ∧ Owns h' ids0 [] (owned d) n0) := by
  intro h hn ⟨u, hid, hnx, _⟩
  have inv := u.toInv
  obtain ⟨b, hb, hl⟩ := u.items
  obtain ⟨lok, iat, hblt, hbself, hbview⟩ := inv.items_ok b hb
  have hl0 : s.levels.getD 0 0 ≤ s.itemsSize := lok.le_top 0 (Nat.zero_le _)
  have hSn : ∀ x, n0 ≤ x → foot [] n0 x = true := fun x hx => foot_new hx
  have hslt := inv.self_lt
  -- ownership of the result: two new blocks
  have owns : ∀ (h' : Heap) (d : Sketch), h'.ids = (h.next + 1) :: h.next :: h.ids → d.self = h.next →
      d.items = some (h.next + 1) → d.view = none → Owns h' ids0 [] (owned d) n0 := by
    intro h' d hid' e1 e2 e3
    refine Owns.of_delta (fun _ => False) (fun x => x = n0 ∨ x = n0 + 1) (fun x => ?_) (fun x hx => by simp at hx)
      (fun _ d => d.elim) (fun x e => by omega) (fun x => ?_)
    · rw [hid', hid, hnx]; simp only [List.mem_cons, not_false_eq_true, and_true]
      constructor
      · rintro (e | e | e)
        · exact Or.inr (Or.inr e)
        · exact Or.inr (Or.inl e)
        · exact Or.inl e
      · rintro (e | e | e)
        · exact Or.inr (Or.inr e)
        · exact Or.inr (Or.inl e)
        · exact Or.inl e
    · rw [mem_owned, e1, e2, e3, hnx]
      simp only [Option.some.injEq, reduceCtorEq, or_false, List.not_mem_nil, false_and, false_or]
      constructor
      · rintro (e | e)
        · exact Or.inl e
        · exact Or.inr e.symm
      · rintro (e | e)
        · exact Or.inl e
        · exact Or.inr e.symm
  unfold roundTrip
  by_cases hn0 : s.n = 0
  · rw [if_pos hn0]
    exact ctor_contract P hP n0 s.k ids0 h hn ⟨hid, hnx⟩
  rw [if_neg hn0]
  dsimp only
  apply step_deref_eq hb
  by_cases hs : s.n = 1
  · simp only [hs, if_true, decide_true, Bool.not_true, Bool.false_eq_true, if_false]
    have hc2 : 2 ≤ computeTotalCapacity s.k s.m 1 := by
      have := computeTotalCapacity_one_ge s.k s.m
      have := inv.m_eq; have := hP.1; omega
    generalize hcap : computeTotalCapacity s.k s.m 1 = c at hc2 ⊢
    apply step_setLv _ (by simp)
    apply step_setLv _ (by simp)
    apply step_lv (by have := lok.len; omega)
    have hL : ((List.replicate (1 + 1) 0).set 0 (c - 1)).set 1 c = [c - 1, c] := by simp [List.replicate]
    rw [hL]
    apply vstep_alloc' _ _ (hSn _ hn)
    intro h1 hc1 hr1 so1 hid1 hnx1
    apply vstep_alloc' _ _ (hSn _ (by omega))
    intro h2 hcb2 hrb2 so2 hid2 hnx2
    rw [hnx1] at hcb2 hrb2 so2 hid2 hnx2 ⊢
    apply step_lv (by simp)
    have hg0 : [c - 1, c].getD 0 0 = c - 1 := by simp
    rw [hg0]
    have e1 : c - (c - 1) = 1 := by omega
    rw [e1]
    have sob : SameOn h h2 b := (so1 b (by omega)).trans (so2 b (by omega))
    have hret := u.ret hn0
    apply vstep_copyRange (fun i => s.levels.getD 0 0 + (i - (c - 1))) (sob.cells _ iat.cells) hcb2 (by omega) (by omega)
      (fun j h1' h2' => ⟨by omega, by
        have : s.levels.getD 0 0 + (j - (c - 1)) = s.levels.getD 0 0 := by omega
        rw [this, sob.st]; exact hl _ (Nat.le_refl _) hret⟩)
      (fun j h1' h2' => hrb2 j (by omega)) (hSn _ (by omega))
    intro h3 sb3 hl3
    obtain ⟨v, hv⟩ := hl3 (c - 1) (Nat.le_refl _) (by omega)
    have hself3 : HasCells h3 h.next 2 := sb3.cells _ _ ((so2 _ (by omega)).cells _ hc1)
    have hraw3 : ∀ i, i < 2 → stAt h3 h.next i = .raw := fun i hi => by
      rw [sb3.st _ _ (fun x => by omega), (so2 _ (by omega)).st]; exact hr1 i hi
    apply vstep_copyConstruct (sb3.cells _ _ hcb2) (by omega : c - 1 < c) hv hself3 (by omega : 0 < 2) (hraw3 0 (by omega))
      (hSn _ hn)
    intro h4 sb4 hst4
    apply vstep_copyConstruct (sb4.cells _ _ (sb3.cells _ _ hcb2)) (by omega : c - 1 < c)
      (by rw [sb4.st _ _ (fun x => by omega)]; exact hv) (sb4.cells _ _ hself3) (by omega : 1 < 2)
      (by rw [sb4.st _ _ (fun x => by omega)]; exact hraw3 1 (by omega)) (hSn _ hn)
    intro h5 sb5 hst5
    apply SafeF.pure
    have hnx5 : h5.next = h.next + 2 := by rw [sb5.next, sb4.next, sb3.next, hnx2]
    have sb35 : SameOn h3 h5 (h.next + 1) := (sb4.sameOn (fun j x => by omega)).trans (sb5.sameOn (fun j x => by omega))
    refine ⟨?_, owns _ _ (by rw [sb5.ids, sb4.ids, sb3.ids, hid2, hid1]) rfl rfl rfl⟩
    apply Usable.build (b := h.next + 1) rfl (sb5.cells _ _ (sb4.cells _ _ hself3)) (by simp only; omega)
      (fun v hv => by cases hv) rfl
    · refine ⟨Nat.le_refl _, by simp, fun i hi => ?_, by simp, ?_⟩
      · simp only at hi
        have : i = 0 := by omega
        subst this; simp
      · simp only; rw [← hcap, inv.m_eq]
    · simp only [hg0]
      refine ⟨sb35.cells _ (sb3.cells _ _ hcb2), fun i hi => ?_, fun i h1' h2' => ?_⟩
      · rw [sb35.st, sb3.st _ _ (fun x => by omega)]; exact hrb2 i (by omega)
      · rw [sb35.st]; exact hl3 i h1' (by omega)
    · omega
    · simp only; omega
    · simp
    · intro e; cases e
    · intro _
      exact ⟨⟨v, by simp only; rw [sb5.st _ _ (fun x => by omega)]; exact hst4⟩, ⟨v, hst5⟩⟩
    · intro _; simp only [hg0]; omega
    · have hg1 : [c - 1, c].getD 1 0 = c := by simp
      simp only [sumSampleWeights_eq, wsum, pop, hg0, hg1]
      omega
    · exact Or.inl rfl
  · simp only [hs, if_true, decide_false, Bool.not_false, if_false]
    rw [← lok.cap]
    obtain ⟨L1, eL1, hlen1, hg1⟩ := copyLevels_ok s.levels s.numLevels 0 (List.replicate (s.numLevels + 1) 0)
      (by simp) (by have := lok.len; omega)
    rw [eL1, pure_bind_apply]
    apply step_setLv _ (by rw [hlen1]; simp)
    apply step_lv (by have := lok.len; omega)
    generalize hL : L1.set s.numLevels s.itemsSize = L
    have hlenL : L.length = s.numLevels + 1 := by rw [← hL]; simp [hlen1]
    have hgL : ∀ j, j ≤ s.numLevels → L.getD j 0 = s.levels.getD j 0 := by
      intro j hj
      rw [← hL, getD_set]
      by_cases e : j = s.numLevels
      · subst e; rw [if_pos ⟨rfl, by rw [hlen1]; simp⟩, lok.top]
      · rw [if_neg (fun x => e x.1), hg1 j, if_pos ⟨Nat.zero_le _, by omega⟩]
    apply vstep_alloc' _ _ (hSn _ hn)
    intro h1 hc1 hr1 so1 hid1 hnx1
    obtain ⟨⟨v0, hv0⟩, ⟨v1, hv1⟩⟩ := u.mm1 hn0
    have ss1 := so1 s.self (by omega)
    apply vstep_copyConstruct (ss1.cells _ inv.self_cells) (by omega : 0 < 2) (by rw [ss1.st]; exact hv0) hc1
      (by omega : 0 < 2) (hr1 0 (by omega)) (hSn _ hn)
    intro h2 sb2 hst2
    have ss2 : SameOn h h2 s.self := ss1.trans (sb2.sameOn (fun j x => by omega))
    apply vstep_copyConstruct (ss2.cells _ inv.self_cells) (by omega : 1 < 2) (by rw [ss2.st]; exact hv1)
      (sb2.cells _ _ hc1) (by omega : 1 < 2) (by rw [sb2.st _ _ (fun x => by omega)]; exact hr1 1 (by omega)) (hSn _ hn)
    intro h3 sb3 hst3
    have hnx3 : h3.next = h.next + 1 := by rw [sb3.next, sb2.next, hnx1]
    apply vstep_alloc' _ _ (hSn _ (by omega))
    intro h4 hcb4 hrb4 so4 hid4 hnx4
    rw [hnx3] at hcb4 hrb4 so4 hid4 hnx4 ⊢
    apply step_lv (by omega)
    rw [hgL 0 (Nat.zero_le _)]
    have sob : SameOn h h4 b :=
      (((so1 b (by omega)).trans (sb2.sameOn (fun j x => by omega))).trans (sb3.sameOn (fun j x => by omega))).trans
        (so4 b (by omega))
    apply vstep_copyRange (fun i => s.levels.getD 0 0 + (i - s.levels.getD 0 0)) (sob.cells _ iat.cells) hcb4
      (by omega) (by omega)
      (fun j h1' h2' => ⟨by omega, by
        have : s.levels.getD 0 0 + (j - s.levels.getD 0 0) = j := by omega
        rw [this, sob.st]; exact hl j h1' (by omega)⟩)
      (fun j h1' h2' => hrb4 j (by omega)) (hSn _ (by omega))
    intro h5 sb5 hl5
    apply SafeF.pure
    have snew : SameOn h3 h5 h.next := (so4 _ (by omega)).trans (sb5.sameOn (fun j x => by omega))
    refine ⟨?_, owns _ _ (by rw [sb5.ids, hid4, sb3.ids, sb2.ids, hid1]) rfl rfl rfl⟩
    apply Usable.build (b := h.next + 1) rfl (snew.cells _ (sb3.cells _ _ (sb2.cells _ _ hc1)))
      (by rw [sb5.next, hnx4]; simp only; omega) (fun v hv => by cases hv) rfl
    · refine ⟨lok.nl, by simp only; omega, fun i hi => ?_, ?_, ?_⟩
      · simp only at hi ⊢; rw [hgL i (by omega), hgL (i + 1) (by omega)]; exact lok.mono i hi
      · simp only; rw [hgL _ (Nat.le_refl _)]; exact lok.top
      · simp only; rw [← inv.m_eq]; exact lok.cap
    · simp only; rw [hgL 0 (Nat.zero_le _)]
      refine ⟨sb5.cells _ _ hcb4, fun i hi => ?_, fun i h1' h2' => hl5 i h1' (by omega)⟩
      rw [sb5.st _ _ (fun x => by omega)]; exact hrb4 i (by omega)
    · rw [sb5.next, hnx4]; omega
    · simp only; omega
    · simp
    · intro e; exact absurd e hn0
    · intro _
      simp only
      refine ⟨⟨v0, ?_⟩, ⟨v1, ?_⟩⟩
      · rw [snew.st, sb3.st _ _ (fun x => by omega)]; exact hst2
      · rw [snew.st]; exact hst3
    · intro _; simp only; rw [hgL 0 (Nat.zero_le _)]; exact u.ret hn0
    · simp only; rw [sumSampleWeights_congr hgL]; exact u.wt
    · exact u.pw

end DS.Life.Kll

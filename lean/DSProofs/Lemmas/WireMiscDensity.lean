/- Density sketch image: round trip, size, prefix safety, consumption (helper lemmas for Props/C09_Density, C11_Density). -/
import DSProofs.Lemmas.WireMisc
import DSModel.Wire.Density
namespace DS.Wire.Density
open DS.Wire

/-! ### points and levels -/

theorem point_roundtrip (tsz dim : Nat) (p : Point) (hl : p.length = dim) (hv : ∀ v ∈ p, v < 256 ^ tsz) (t : Bytes) :
    point tsz dim (encodePoint tsz p ++ t) = some (p, t) := by
  subst hl
  exact repeatN_flatMap (leNat tsz) (wLe tsz) p (fun x hx t => leNat_wLe tsz x (hv x hx) t) t

theorem lastNonEmpty_pos : ∀ (ls : List Level), lastNonEmpty ls = true → 0 < totalPoints ls
  | [], h => by simp [lastNonEmpty] at h
  | [l], h => by
    cases l with
    | nil => simp [lastNonEmpty] at h
    | cons p t => simp [totalPoints]
  | l :: m :: t, h => by
    have := lastNonEmpty_pos (m :: t) (by simpa [lastNonEmpty] using h)
    simp only [totalPoints] at this ⊢
    omega

theorem lastNonEmpty_tail (l : Level) (rest : List Level) (h : lastNonEmpty (l :: rest) = true) :
    rest = [] ∨ lastNonEmpty rest = true := by
  cases rest with
  | nil => exact Or.inl rfl
  | cons m t => exact Or.inr (by simpa [lastNonEmpty] using h)

theorem levelsLoop_zero (tsz dim fuel : Nat) : levelsLoop tsz dim fuel 0 = Reader.pure [] := by
  cases fuel <;> rfl

theorem levelsLoop_succ (tsz dim fuel rem : Nat) :
    levelsLoop tsz dim (fuel + 1) (rem + 1) =
      Reader.bind u32 fun sz => Reader.bind (guard (decide (sz ≤ rem + 1))) fun _ =>
      Reader.bind (repeatN (point tsz dim) sz) fun pts =>
      Reader.bind (levelsLoop tsz dim fuel (rem + 1 - sz)) fun rest => Reader.pure (pts :: rest) := rfl

theorem levels_roundtrip (tsz dim : Nat) : ∀ (ls : List Level) (fuel : Nat), ls.length ≤ fuel →
    (ls = [] ∨ lastNonEmpty ls = true) → totalPoints ls < 2^32 →
    (∀ l ∈ ls, ∀ p ∈ l, p.length = dim ∧ ∀ v ∈ p, v < 256 ^ tsz) → ∀ t : Bytes,
    levelsLoop tsz dim fuel (totalPoints ls) (encodeLevels tsz ls ++ t) = some (ls, t)
  | [], fuel, _, _, _, _, t => by simp [totalPoints, levelsLoop_zero, encodeLevels, Reader.pure]
  | l :: rest, fuel, hf, hl, ht, hp, t => by
    have hne : lastNonEmpty (l :: rest) = true := by
      rcases hl with h | h
      · exact absurd h (by simp)
      · exact h
    have hpos := lastNonEmpty_pos _ hne
    obtain ⟨f, rfl⟩ : ∃ f, fuel = f + 1 := ⟨fuel - 1, by simp at hf; omega⟩
    obtain ⟨r, hr⟩ : ∃ r, totalPoints (l :: rest) = r + 1 := ⟨totalPoints (l :: rest) - 1, by omega⟩
    have htot : totalPoints (l :: rest) = l.length + totalPoints rest := rfl
    rw [hr, levelsLoop_succ]
    simp only [encodeLevels, encodeLevel, List.append_assoc]
    rw [bind_u32 _ (by omega), bind_guard_true _ (by simp; omega)]
    rw [bind_repeatN (point tsz dim) (encodePoint tsz) l l.length rfl
      (fun p hpm t => point_roundtrip tsz dim p (hp l (by simp) p hpm).1 (hp l (by simp) p hpm).2 t)]
    have hrem : r + 1 - l.length = totalPoints rest := by omega
    have ih := levels_roundtrip tsz dim rest f (by simp at hf; omega) (lastNonEmpty_tail l rest hne) (by omega)
      (fun l' hl' => hp l' (by simp [hl'])) t
    simp only [Reader.bind, hrem, ih, Reader.pure]

theorem isEmptyFlag_pow (c : Consts) : isEmptyFlag c (2 ^ c.emptyBit) = true := by
  have : 0 < 2 ^ c.emptyBit := Nat.two_pow_pos _
  simp [isEmptyFlag, Nat.div_self this]

theorem isEmptyFlag_zero (c : Consts) : isEmptyFlag c 0 = false := by
  simp [isEmptyFlag]

theorem pow_emptyBit_lt (c : Consts) (h : c.emptyBit < 8) : 2 ^ c.emptyBit < 256 := by
  have : 2 ^ c.emptyBit < 2 ^ 8 := Nat.pow_lt_pow_right (by decide) h
  simpa using this

theorem decode_encode_lem (c : Consts) (hc : c.Valid) (tsz : Nat) (s : Img) (hs : WF tsz s) (tail : Bytes) :
    decode c tsz (encode c tsz s ++ tail) = some (s, tail) := by
  obtain ⟨h1, h2, h3, h4, h5⟩ := hc
  obtain ⟨g1, g2, g3⟩ := hs
  obtain ⟨k, dim, body⟩ := s
  cases body with
  | none =>
    simp only [encode, decode, Option.isNone_none, if_true, List.append_assoc, encodeBody, List.nil_append]
    rw [bind_u8 _ h1, bind_u8 _ h3, bind_u8 _ h4, bind_u8 _ (pow_emptyBit_lt c h5),
      bind_guard_true _ (by simp), bind_guard_true _ (by simp),
      bind_guard_true _ (by simp [isEmptyFlag_pow]),
      bind_u16 _ g1, bind_skip_zeros, bind_u32 _ g2]
    simp [decodeBody, isEmptyFlag_pow, Reader.pure]
  | some b =>
    obtain ⟨nr, n, levels⟩ := b
    obtain ⟨b1, b2, b3, b4, b5, b6, b7⟩ := g3
    simp only at b1 b2 b3 b4 b5 b6 b7
    simp only [encode, decode, Option.isNone_some, Bool.false_eq_true, if_false, List.append_assoc, encodeBody]
    rw [bind_u8 _ h2, bind_u8 _ h3, bind_u8 _ h4, bind_u8 _ (by omega),
      bind_guard_true _ (by simp), bind_guard_true _ (by simp),
      bind_guard_true _ (by simp [isEmptyFlag_zero]),
      bind_u16 _ g1, bind_skip_zeros, bind_u32 _ g2]
    simp only [decodeBody, isEmptyFlag_zero, Bool.false_eq_true, if_false]
    rw [bind_u32 _ b1, bind_guard_true _ (by simp; omega), bind_u64 _ b2]
    have := levels_roundtrip tsz dim levels maxLevels b6 (Or.inr b5) (by omega) b7 tail
    rw [b4] at this
    simp only [Reader.bind, this, Reader.pure]

/-! ### sizes -/

theorem length_encodePoint (tsz : Nat) (p : Point) : (encodePoint tsz p).length = p.length * tsz := by
  induction p with
  | nil => simp [encodePoint]
  | cons v t ih =>
    simp only [encodePoint, List.flatMap_cons, List.length_append, length_wLe, List.length_cons] at ih ⊢
    rw [ih, Nat.succ_mul]; omega

theorem length_level_points (tsz dim : Nat) (l : Level) (h : ∀ p ∈ l, p.length = dim) :
    (l.flatMap (encodePoint tsz)).length = l.length * (dim * tsz) := by
  induction l with
  | nil => simp
  | cons p t ih =>
    have hp := h p (by simp)
    have iht := ih (fun q hq => h q (by simp [hq]))
    simp only [List.flatMap_cons, List.length_append, length_encodePoint, hp, iht, List.length_cons, Nat.succ_mul]
    omega

theorem length_encodeLevels (tsz dim : Nat) (ls : List Level) (h : ∀ l ∈ ls, ∀ p ∈ l, p.length = dim) :
    (encodeLevels tsz ls).length = levelsSize tsz dim ls := by
  induction ls with
  | nil => rfl
  | cons l t ih =>
    have h1 := length_level_points tsz dim l (h l (by simp))
    have h2 := ih (fun l' hl' => h l' (by simp [hl']))
    simp only [encodeLevels, encodeLevel, List.length_append, w32, length_wLe, h1, h2, levelsSize]

theorem size_eq_lem (c : Consts) (tsz : Nat) (s : Img) (hs : WF tsz s) :
    (encode c tsz s).length = serializedSize tsz s := by
  obtain ⟨_, _, g3⟩ := hs
  obtain ⟨k, dim, body⟩ := s
  cases body with
  | none => simp [encode, serializedSize, encodeBody, w8, w16, w32, length_wLe, length_wZeros]
  | some b =>
    obtain ⟨_, _, _, _, _, _, b7⟩ := g3
    have := length_encodeLevels tsz dim b.levels (fun l hl p hp => (b7 l hl p hp).1)
    simp only [encode, serializedSize, encodeBody, w8, w16, w32, w64, length_wLe, length_wZeros,
      List.length_append, this]
    omega

/-! ### prefix safety -/

theorem point_PS (tsz dim : Nat) : PS (point tsz dim) := PS_repeatN _ (PS_leNat tsz) dim

theorem levelsLoop_PS (tsz dim : Nat) : ∀ fuel rem, PS (levelsLoop tsz dim fuel rem)
  | fuel, 0 => by rw [levelsLoop_zero]; exact PS_pure _
  | 0, rem + 1 => PS_fail
  | fuel + 1, rem + 1 => by
    rw [levelsLoop_succ]
    exact PS_bind _ _ (PS_leNat 4) fun _ => PS_bind _ _ (PS_guard _) fun _ =>
      PS_bind _ _ (PS_repeatN _ (point_PS tsz dim) _) fun _ =>
      PS_bind _ _ (levelsLoop_PS tsz dim fuel _) fun _ => PS_pure _

theorem decodeBody_PS (tsz k dim : Nat) (e : Bool) : PS (decodeBody tsz k dim e) := by
  unfold decodeBody
  exact PS_ite _ _ _ (PS_pure _)
    (PS_bind _ _ (PS_leNat 4) fun _ => PS_bind _ _ (PS_guard _) fun _ => PS_bind _ _ (PS_leNat 8) fun _ =>
     PS_bind _ _ (levelsLoop_PS tsz dim _ _) fun _ => PS_pure _)

theorem decode_PS_lem (c : Consts) (tsz : Nat) : PS (decode c tsz) :=
  PS_bind _ _ (PS_leNat 1) fun _ => PS_bind _ _ (PS_leNat 1) fun _ => PS_bind _ _ (PS_leNat 1) fun _ =>
  PS_bind _ _ (PS_leNat 1) fun _ => PS_bind _ _ (PS_guard _) fun _ => PS_bind _ _ (PS_guard _) fun _ =>
  PS_bind _ _ (PS_guard _) fun _ => PS_bind _ _ (PS_leNat 2) fun _ => PS_bind _ _ (PS_skip 2) fun _ =>
  PS_bind _ _ (PS_leNat 4) fun _ => decodeBody_PS _ _ _ _

/-! ### consumption -/

theorem point_inv (tsz dim : Nat) (b r : Bytes) (p : Point) (h : point tsz dim b = some (p, r)) :
    b.length = dim * tsz + r.length ∧ (p.length = dim ∧ ∀ v ∈ p, v < 256 ^ tsz) := by
  obtain ⟨h1, h2, h3⟩ := repeatN_inv (leNat tsz) tsz (fun v => v < 256 ^ tsz)
    (fun b x r hh => leNat_inv tsz hh) dim h
  exact ⟨h2, h1, h3⟩

theorem levelsLoop_inv (tsz dim : Nat) : ∀ (fuel rem : Nat) (b r : Bytes) (lv : List Level),
    levelsLoop tsz dim fuel rem b = some (lv, r) →
    b.length = levelsSize tsz dim lv + r.length ∧ totalPoints lv = rem ∧ lv.length ≤ fuel ∧
    (0 < rem → lastNonEmpty lv = true) ∧ (∀ l ∈ lv, ∀ p ∈ l, p.length = dim ∧ ∀ v ∈ p, v < 256 ^ tsz)
  | fuel, 0, b, r, lv, h => by
    rw [levelsLoop_zero] at h
    obtain ⟨h1, h2⟩ := pure_eq_some h
    subst h1; subst h2
    simp [levelsSize, totalPoints]
  | 0, rem + 1, b, r, lv, h => by simp [levelsLoop, Reader.fail] at h
  | fuel + 1, rem + 1, b, r, lv, h => by
    rw [levelsLoop_succ] at h
    obtain ⟨sz, r1, e1, k1⟩ := bind_eq_some h
    obtain ⟨_, r2, e2, k2⟩ := bind_eq_some k1
    obtain ⟨pts, r3, e3, k3⟩ := bind_eq_some k2
    obtain ⟨rest, r4, e4, k4⟩ := bind_eq_some k3
    obtain ⟨hv, hr⟩ := pure_eq_some k4
    have ⟨l1, _⟩ := leNat_inv 4 e1
    obtain ⟨g1, g2⟩ := guard_eq_some e2
    have g1' : sz ≤ rem + 1 := of_decide_eq_true g1
    obtain ⟨p1, p2, p3⟩ := repeatN_inv (point tsz dim) (dim * tsz) (fun p => p.length = dim ∧ ∀ v ∈ p, v < 256 ^ tsz)
      (fun b x r hh => point_inv tsz dim b r x hh) sz e3
    obtain ⟨i1, i2, i3, i4, i5⟩ := levelsLoop_inv tsz dim fuel (rem + 1 - sz) r3 r4 rest e4
    subst hv; subst hr
    rw [g2] at p2
    refine ⟨?_, ?_, ?_, ?_, ?_⟩
    · simp only [levelsSize, p1]; omega
    · simp only [totalPoints, p1, i2]; omega
    · simp only [List.length_cons]; omega
    · intro _
      by_cases hz : rem + 1 - sz = 0
      · rw [hz, levelsLoop_zero] at e4
        have := (pure_eq_some e4).1
        subst this
        cases pts with
        | nil => simp at p1; omega
        | cons q t => simp [lastNonEmpty]
      · have hl := i4 (by omega)
        cases rest with
        | nil => simp [lastNonEmpty] at hl
        | cons m t => simpa [lastNonEmpty] using hl
    · intro l hl
      simp only [List.mem_cons] at hl
      rcases hl with rfl | hl
      · exact p3
      · exact i5 l hl

theorem decode_consumes_lem (c : Consts) (tsz : Nat) (b r : Bytes) (s : Img) (h : decode c tsz b = some (s, r)) :
    b.length = serializedSize tsz s + r.length ∧ WF tsz s := by
  simp only [decode] at h
  obtain ⟨pre, r1, e1, k1⟩ := bind_eq_some h
  obtain ⟨ver, r2, e2, k2⟩ := bind_eq_some k1
  obtain ⟨fam, r3, e3, k3⟩ := bind_eq_some k2
  obtain ⟨flags, r4, e4, k4⟩ := bind_eq_some k3
  obtain ⟨_, r5, e5, k5⟩ := bind_eq_some k4
  obtain ⟨_, r6, e6, k6⟩ := bind_eq_some k5
  obtain ⟨_, r7, e7, k7⟩ := bind_eq_some k6
  obtain ⟨k, r8, e8, k8⟩ := bind_eq_some k7
  obtain ⟨_, r9, e9, k9⟩ := bind_eq_some k8
  obtain ⟨dim, r10, e10, k10⟩ := bind_eq_some k9
  have l1 := (leNat_inv 1 e1).1
  have l2 := (leNat_inv 1 e2).1
  have l3 := (leNat_inv 1 e3).1
  have l4 := (leNat_inv 1 e4).1
  have l5 := (guard_eq_some e5).2
  have l6 := (guard_eq_some e6).2
  have l7 := (guard_eq_some e7).2
  have ⟨l8, b8⟩ := leNat_inv 2 e8
  have l9 := skip_inv e9
  have ⟨l10, b10⟩ := leNat_inv 4 e10
  rw [l5] at l6; rw [l6] at l7; rw [l7] at l8
  unfold decodeBody at k10
  split at k10
  · obtain ⟨hs, hr⟩ := pure_eq_some k10
    subst hs; subst hr
    refine ⟨by simp only [serializedSize]; omega, ?_⟩
    exact ⟨by omega, by omega, trivial⟩
  · obtain ⟨nr, r11, e11, k11⟩ := bind_eq_some k10
    obtain ⟨_, r12, e12, k12⟩ := bind_eq_some k11
    obtain ⟨n, r13, e13, k13⟩ := bind_eq_some k12
    obtain ⟨lv, r14, e14, k14⟩ := bind_eq_some k13
    obtain ⟨hs, hr⟩ := pure_eq_some k14
    have ⟨l11, b11⟩ := leNat_inv 4 e11
    obtain ⟨g1, g2⟩ := guard_eq_some e12
    have g1' : 0 < nr := of_decide_eq_true g1
    have ⟨l13, b13⟩ := leNat_inv 8 e13
    obtain ⟨i1, i2, i3, i4, i5⟩ := levelsLoop_inv tsz dim maxLevels nr r13 r14 lv e14
    subst hs; subst hr
    rw [g2] at l13
    refine ⟨by simp only [serializedSize]; omega, ?_⟩
    exact ⟨by omega, by omega, by omega, by omega, g1', i2, i4 g1', i3, i5⟩

/-- with at least one byte per point, the number of points is at most the number of level-data bytes -/
theorem totalPoints_le_size (tsz dim : Nat) (hd : 0 < dim) (ht : 0 < tsz) : ∀ ls : List Level,
    totalPoints ls ≤ levelsSize tsz dim ls
  | [] => by simp [totalPoints]
  | l :: t => by
    have ih := totalPoints_le_size tsz dim hd ht t
    have : l.length ≤ l.length * (dim * tsz) := Nat.le_mul_of_pos_right _ (Nat.mul_pos hd ht)
    simp only [totalPoints, levelsSize]; omega

end DS.Wire.Density

/- C06: from the kernel-decided facts about the generated tables (DSProofs/Gen/BoundsTables.lean, stated on exact
   numerators/denominators) to inequalities in an arbitrary ordered field, in the shape the theorems consume. -/
import DSProofs.Lemmas.BoundsBinomialMono
import DSProofs.Gen.BoundsTables
import DSModel.Bounds.GenTables
namespace DS.Bounds
set_option linter.unusedSectionVars false
open DS.Bounds.Gen

variable {K : Type} [Field K] [LinearOrder K] [IsStrictOrderedRing K]

theorem denPos_cast {t : Lit} (h : denPos t = true) : (0 : K) < ((t.2.2 : Nat) : K) := by
  unfold denPos at h
  exact_mod_cast (of_decide_eq_true h)

theorem litK_lt_of_qlt {a b : Lit} (h : qlt a b = true) : (litK a : K) < litK b := by
  unfold qlt at h
  simp only [Bool.and_eq_true, decide_eq_true_eq] at h
  obtain ⟨⟨ha, hb⟩, hc⟩ := h
  unfold litK
  rw [div_lt_div_iff₀ (denPos_cast ha) (denPos_cast hb)]
  unfold Gen.num Gen.den at hc
  exact_mod_cast hc

theorem litK_le_of_qle {a b : Lit} (h : qle a b = true) : (litK a : K) ≤ litK b := by
  unfold qle at h
  simp only [Bool.and_eq_true, decide_eq_true_eq] at h
  obtain ⟨⟨ha, hb⟩, hc⟩ := h
  unfold litK
  rw [div_le_div_iff₀ (denPos_cast ha) (denPos_cast hb)]
  unfold Gen.num Gen.den at hc
  exact_mod_cast hc

theorem litK_pos_of_qpos {a : Lit} (h : qpos a = true) : (0 : K) < litK a := by
  unfold qpos at h
  simp only [Bool.and_eq_true, decide_eq_true_eq] at h
  obtain ⟨ha, hc⟩ := h
  unfold litK
  apply div_pos _ (denPos_cast ha)
  unfold Gen.num at hc
  exact_mod_cast hc

theorem litK_neg_of_qneg {a : Lit} (h : qneg a = true) : (litK a : K) < 0 := by
  unfold qneg at h
  simp only [Bool.and_eq_true, decide_eq_true_eq] at h
  obtain ⟨ha, hc⟩ := h
  unfold litK
  apply div_neg_of_neg_of_pos _ (denPos_cast ha)
  unfold Gen.num at hc
  exact_mod_cast hc

theorem litK_m1 : (litK Gen.m1 : K) = -1 := by simp [litK, Gen.m1]

/-- the generated tables of binomial_bounds.hpp satisfy what the monotonicity theorem needs -/
theorem binomT_ok : BinomTablesOK K binomT where
  delta_pos := by
    intro k h1 h3
    have := Gen.delta_indexed k (by omega) h1
    simp only [Bool.and_eq_true] at this
    obtain ⟨⟨p, q⟩, _⟩ := this
    have q' := litK_lt_of_qlt (K := K) q
    rw [show (litK c1 : K) = 1 by simp [litK, c1]] at q'
    exact ⟨litK_pos_of_qpos p, q'⟩
  delta_dec := by
    intro k h1 h3
    have := Gen.delta_indexed k (by omega) h1
    simp only [Bool.and_eq_true, Bool.or_eq_true, decide_eq_true_eq] at this
    obtain ⟨_, r⟩ := this
    rcases r with r | r
    · omega
    · exact litK_lt_of_qlt r
  lb_row := by
    intro n k hn1 hn2 hk1 hk3
    have := Gen.lbEquiv_rows.2 n (by omega) hn1
    simp only [Bool.and_eq_true] at this
    obtain ⟨⟨p, q⟩, r⟩ := this
    have p' := litK_pos_of_qpos (K := K) p
    have q' := litK_lt_of_qlt (K := K) q
    have r' := litK_lt_of_qlt (K := K) r
    have hk : k = 1 ∨ k = 2 := by omega
    rcases hk with rfl | rfl
    · exact ⟨le_of_lt p', le_of_lt q'⟩
    · exact ⟨le_of_lt (lt_trans p' q'), le_of_lt r'⟩
  ub_row := by
    intro n k hn1 hn2 hk1 hk3
    have := Gen.ubEquiv_rows.2 n (by omega) hn1
    simp only [Bool.and_eq_true] at this
    obtain ⟨⟨p, q⟩, r⟩ := this
    have p' := litK_pos_of_qpos (K := K) p
    have q' := litK_lt_of_qlt (K := K) q
    have r' := litK_lt_of_qlt (K := K) r
    have hk : k = 1 ∨ k = 2 := by omega
    rcases hk with rfl | rfl
    · exact ⟨le_of_lt p', le_of_lt q'⟩
    · exact ⟨le_of_lt (lt_trans p' q'), le_of_lt r'⟩

end DS.Bounds

/- Sorted view: quantile scan (membership, monotonicity, duality with rank) and CDF/PMF in exact arithmetic. -/
import DSProofs.Lemmas.SortedView
import Mathlib.Data.Rat.Floor
import Mathlib.Algebra.Order.Field.Rat
namespace DS.SortedView

variable {α : Type}

/-! ### quantile scan -/

/-- the stop test of `quantGo` -/
def qhit (weight : Nat) (incl : Bool) (c : Nat) : Bool := if incl then !(decide (c < weight)) else decide (weight < c)

theorem quantGo_cons (weight : Nat) (incl : Bool) (x : α) (c : Nat) (t : List (α × Nat)) (last : Option α) :
    quantGo weight incl ((x, c) :: t) last = if qhit weight incl c then some x else quantGo weight incl t (some x) := by
  simp only [quantGo, qhit]; cases incl <;> simp

theorem quantGo_mem (weight : Nat) (incl : Bool) : ∀ (ents : List (α × Nat)) (l : α),
    ∃ q, quantGo weight incl ents (some l) = some q ∧ (q = l ∨ q ∈ ents.map Prod.fst)
  | [], l => ⟨l, rfl, Or.inl rfl⟩
  | (x, c) :: t, l => by
    rw [quantGo_cons]
    split
    · exact ⟨x, rfl, Or.inr (by simp)⟩
    · obtain ⟨q, hq, hm⟩ := quantGo_mem weight incl t x
      refine ⟨q, hq, Or.inr ?_⟩
      rcases hm with rfl | hm
      · simp
      · simp only [List.map_cons, List.mem_cons]; exact Or.inr hm

theorem quantGo_ne_nil (weight : Nat) (incl : Bool) (ents : List (α × Nat)) (last : Option α) (h : ents ≠ []) :
    ∃ q, quantGo weight incl ents last = some q ∧ q ∈ ents.map Prod.fst := by
  cases ents with
  | nil => exact absurd rfl h
  | cons e t =>
    obtain ⟨x, c⟩ := e
    rw [quantGo_cons]
    split
    · exact ⟨x, rfl, by simp⟩
    · obtain ⟨q, hq, hm⟩ := quantGo_mem weight incl t x
      refine ⟨q, hq, ?_⟩
      rcases hm with rfl | hm
      · simp
      · simp only [List.map_cons, List.mem_cons]; exact Or.inr hm

theorem qhit_mono {w1 w2 : Nat} (h : w1 ≤ w2) (incl : Bool) (c : Nat) (h2 : qhit w2 incl c = true) : qhit w1 incl c = true := by
  unfold qhit at h2 ⊢
  cases incl <;> simp at h2 ⊢ <;> omega

/-- a larger weight threshold never yields a smaller item -/
theorem quantGo_mono {lt : α → α → Bool} (sw : StrictWeak lt) {w1 w2 : Nat} (hw : w1 ≤ w2) (incl : Bool) :
    ∀ (ents : List (α × Nat)) (l : α), Sorted lt (l :: ents.map Prod.fst) →
    ∀ q1 q2, quantGo w1 incl ents (some l) = some q1 → quantGo w2 incl ents (some l) = some q2 → lt q2 q1 = false
  | [], l, _, q1, q2, h1, h2 => by
    simp only [quantGo, Option.some.injEq] at h1 h2; subst h1; subst h2; exact sw_irrefl sw _
  | (x, c) :: t, l, hs, q1, q2, h1, h2 => by
    rw [quantGo_cons] at h1 h2
    have hs' : Sorted lt (x :: t.map Prod.fst) := (List.pairwise_cons.mp hs).2
    cases hh2 : qhit w2 incl c
    · rw [hh2] at h2
      simp only [Bool.false_eq_true, if_false] at h2
      cases hh1 : qhit w1 incl c
      · rw [hh1] at h1
        simp only [Bool.false_eq_true, if_false] at h1
        exact quantGo_mono sw hw incl t x hs' q1 q2 h1 h2
      · rw [hh1] at h1
        simp only [if_true, Option.some.injEq] at h1; subst h1
        obtain ⟨q, hq, hm⟩ := quantGo_mem w2 incl t x
        rw [hq] at h2; simp only [Option.some.injEq] at h2; subst h2
        rcases hm with rfl | hm
        · exact sw_irrefl sw _
        · exact (List.pairwise_cons.mp hs').1 q hm
    · rw [hh2] at h2
      rw [qhit_mono hw incl c hh2] at h1
      simp only [if_true, Option.some.injEq] at h1 h2; subst h1; subst h2; exact sw_irrefl sw _

theorem weightBelow_self_excl_zero {lt : α → α → Bool} (a : α) :
    ∀ t : List (α × Nat), (∀ b ∈ t.map Prod.fst, lt b a = false) → weightBelow lt a false t = 0
  | [], _ => rfl
  | e :: t, h => by
    have he : lt e.1 a = false := h e.1 (by simp)
    simp only [weightBelow, isBelow, Bool.false_eq_true, if_false, he, Nat.zero_add]
    exact weightBelow_self_excl_zero a t (fun b hb => h b (by simp only [List.map_cons, List.mem_cons]; exact Or.inr hb))

/-- duality of the inclusive quantile with the two ranks (generalised over the running total `acc`) -/
theorem quantGo_dual_incl {lt : α → α → Bool} (sw : StrictWeak lt) (w : Nat) :
    ∀ (raw : List (α × Nat)) (acc : Nat) (last : Option α) (q : α), SortedE lt raw → acc < w → w ≤ acc + sumW raw →
    quantGo w true (cumulate acc raw) last = some q →
    w ≤ acc + weightBelow lt q true raw ∧ acc + weightBelow lt q false raw < w
  | [], acc, _, _, _, h1, h2, _ => by simp only [sumW] at h2; omega
  | (a, wa) :: t, acc, last, q, hs, h1, h2, hq => by
    unfold SortedE Sorted at hs
    simp only [List.map_cons] at hs
    have hs' := List.pairwise_cons.mp hs
    simp only [cumulate] at hq
    rw [quantGo_cons] at hq
    simp only [sumW] at h2
    by_cases hh : qhit w true (acc + wa) = true
    · rw [hh] at hq
      simp only [if_true, Option.some.injEq] at hq; subst hq
      have hw : w ≤ acc + wa := by simpa [qhit] using hh
      refine ⟨?_, ?_⟩
      · simp only [weightBelow, isBelow, if_true, sw_irrefl sw a, Bool.not_false]; omega
      · have := weightBelow_self_excl_zero (lt := lt) a t hs'.1
        simp only [weightBelow, isBelow, Bool.false_eq_true, if_false, sw_irrefl sw a, this]; omega
    · have hh' : qhit w true (acc + wa) = false := by simpa using hh
      rw [hh'] at hq
      simp only [Bool.false_eq_true, if_false] at hq
      have hlt : acc + wa < w := by simpa [qhit] using hh'
      have ih := quantGo_dual_incl sw w t (acc + wa) (some a) q hs'.2 hlt (by omega) hq
      have hqm : q ∈ t.map Prod.fst := by
        cases t with
        | nil => simp only [sumW] at h2; omega
        | cons e t' =>
          obtain ⟨q', hq', hm⟩ := quantGo_ne_nil w true (cumulate (acc + wa) (e :: t')) (some a) (by obtain ⟨e1, e2⟩ := e; simp [cumulate])
          rw [hq'] at hq; simp only [Option.some.injEq] at hq; subst hq
          rw [cumulate_fst] at hm; exact hm
      have haq : lt q a = false := hs'.1 q hqm
      refine ⟨?_, ?_⟩
      · simp only [weightBelow, isBelow, if_true, haq, Bool.not_false]; omega
      · simp only [weightBelow, isBelow, Bool.false_eq_true, if_false]
        split <;> omega

theorem quantGo_dual_excl {lt : α → α → Bool} (sw : StrictWeak lt) (w : Nat) :
    ∀ (raw : List (α × Nat)) (acc : Nat) (last : Option α) (q : α), SortedE lt raw → acc ≤ w → w < acc + sumW raw →
    quantGo w false (cumulate acc raw) last = some q →
    w < acc + weightBelow lt q true raw ∧ acc + weightBelow lt q false raw ≤ w
  | [], acc, _, _, _, h1, h2, _ => by simp only [sumW] at h2; omega
  | (a, wa) :: t, acc, last, q, hs, h1, h2, hq => by
    unfold SortedE Sorted at hs
    simp only [List.map_cons] at hs
    have hs' := List.pairwise_cons.mp hs
    simp only [cumulate] at hq
    rw [quantGo_cons] at hq
    simp only [sumW] at h2
    by_cases hh : qhit w false (acc + wa) = true
    · rw [hh] at hq
      simp only [if_true, Option.some.injEq] at hq; subst hq
      have hw : w < acc + wa := by simpa [qhit] using hh
      refine ⟨?_, ?_⟩
      · simp only [weightBelow, isBelow, if_true, sw_irrefl sw a, Bool.not_false]; omega
      · have := weightBelow_self_excl_zero (lt := lt) a t hs'.1
        simp only [weightBelow, isBelow, Bool.false_eq_true, if_false, sw_irrefl sw a, this]; omega
    · have hh' : qhit w false (acc + wa) = false := by simpa using hh
      rw [hh'] at hq
      simp only [Bool.false_eq_true, if_false] at hq
      have hlt : acc + wa ≤ w := by simpa [qhit] using hh'
      have ih := quantGo_dual_excl sw w t (acc + wa) (some a) q hs'.2 hlt (by omega) hq
      have hqm : q ∈ t.map Prod.fst := by
        cases t with
        | nil => simp only [sumW] at h2; omega
        | cons e t' =>
          obtain ⟨q', hq', hm⟩ := quantGo_ne_nil w false (cumulate (acc + wa) (e :: t')) (some a) (by obtain ⟨e1, e2⟩ := e; simp [cumulate])
          rw [hq'] at hq; simp only [Option.some.injEq] at hq; subst hq
          rw [cumulate_fst] at hm; exact hm
      have haq : lt q a = false := hs'.1 q hqm
      refine ⟨?_, ?_⟩
      · simp only [weightBelow, isBelow, if_true, haq, Bool.not_false]; omega
      · simp only [weightBelow, isBelow, Bool.false_eq_true, if_false]
        split <;> omega

/-! ### weight threshold in exact arithmetic -/

/-- `⌈r·N⌉` (inclusive) resp. `⌊r·N⌋` (exclusive) as the code intends it -/
def quantileWeightQ (total : Nat) (r : Rat) (incl : Bool) : Nat :=
  if incl then (Int.ceil (r * total)).toNat else (Int.floor (r * total)).toNat

theorem quantileWeightQ_mono (total : Nat) {r1 r2 : Rat} (h : r1 ≤ r2) (incl : Bool) :
    quantileWeightQ total r1 incl ≤ quantileWeightQ total r2 incl := by
  have hm : r1 * total ≤ r2 * total := mul_le_mul_of_nonneg_right h (by exact_mod_cast Nat.zero_le total)
  unfold quantileWeightQ
  cases incl
  · simp only [Bool.false_eq_true, if_false]; exact Int.toNat_le_toNat (Int.floor_le_floor hm)
  · simp only [if_true]; exact Int.toNat_le_toNat (Int.ceil_le_ceil hm)

theorem quantileWeightQ_le_total (total : Nat) {r : Rat} (h1 : r ≤ 1) (incl : Bool) :
    quantileWeightQ total r incl ≤ total := by
  have hm : r * total ≤ (total : Rat) := by
    have := mul_le_mul_of_nonneg_right h1 (show (0 : Rat) ≤ total by exact_mod_cast Nat.zero_le total)
    simpa using this
  unfold quantileWeightQ
  cases incl
  · simp only [Bool.false_eq_true, if_false]
    have : Int.floor (r * total) ≤ total := by
      exact le_trans (Int.floor_le_floor hm) (by simp)
    omega
  · simp only [if_true]
    have : Int.ceil (r * total) ≤ total := Int.ceil_le.mpr (by exact_mod_cast hm)
    omega

/-! ### CDF / PMF over `Rat` -/

theorem ratio_mono {a b t : Nat} (h : a ≤ b) : ratOps.ratio a t ≤ ratOps.ratio b t := by
  show (a : Rat) / (t : Rat) ≤ (b : Rat) / (t : Rat)
  exact div_le_div_of_nonneg_right (by exact_mod_cast h) (by exact_mod_cast Nat.zero_le t)

theorem ratio_le_one {a t : Nat} (h : a ≤ t) : ratOps.ratio a t ≤ 1 := by
  show (a : Rat) / (t : Rat) ≤ 1
  rcases Nat.eq_zero_or_pos t with rfl | ht
  · simp
  · rw [div_le_one (by exact_mod_cast ht)]; exact_mod_cast h

theorem ratio_nonneg (a t : Nat) : 0 ≤ ratOps.ratio a t := by
  show (0 : Rat) ≤ (a : Rat) / (t : Rat)
  exact div_nonneg (by exact_mod_cast Nat.zero_le a) (by exact_mod_cast Nat.zero_le t)

/-- telescoping: the differences sum to last − first -/
theorem diffs_sum : ∀ (p : Rat) (l : List Rat), (diffs ratOps p l).sum = (l.getLast?.getD p) - p
  | p, [] => by simp [diffs]
  | p, [x] => by simp [diffs, ratOps]
  | p, x :: y :: t => by
    have := diffs_sum x (y :: t)
    simp only [diffs] at this ⊢
    rw [List.sum_cons, this, List.getLast?_cons_cons]
    simp only [ratOps]
    have e : ((y :: t).getLast?.getD x) = ((y :: t).getLast?.getD p) := by
      cases h : (y :: t).getLast? with
      | none => simp at h
      | some v => rfl
    rw [e]; ring

theorem diffs_nonneg : ∀ (p : Rat) (l : List Rat), (p :: l).Pairwise (· ≤ ·) → ∀ d ∈ diffs ratOps p l, 0 ≤ d
  | _, [], _, d, hd => by simp [diffs] at hd
  | p, x :: t, h, d, hd => by
    have h' := List.pairwise_cons.mp h
    simp only [diffs, List.mem_cons] at hd
    rcases hd with rfl | hd
    · have : p ≤ x := h'.1 x (by simp)
      show 0 ≤ x - p
      linarith
    · exact diffs_nonneg x t h'.2 d hd

end DS.SortedView

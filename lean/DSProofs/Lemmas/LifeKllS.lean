/- C19, KLL sketch part 19: `merge_higher_levels`. -/
import DSProofs.Lemmas.LifeKllR
namespace DS.Life.Kll
open DS.Life

/-- the end of `merge_higher_levels`: items back into `items_`, new `levels_`, the work buffer goes -/
def mhlFin (s : Sketch) (result : CompressResult) (outlevels : List Nat) (coins : List Bool)
    (workbuf tmpNumItems : Nat) (x : Nat × Nat) : M (Sketch × List Bool) :=
  match x with
  | (items, itemsSize) => do
    let freeSpaceAtBottom := result.finalCapacity - result.finalNumItems
    let o0 ← lv outlevels 0
    moveConstructRange workbuf o0 (o0 + result.finalNumItems) items freeSpaceAtBottom
    let levels := growLevels s.levels (result.finalNumLevels + 1)
    let offset := freeSpaceAtBottom - o0
    let levels ← foldUp (fun lvl (ls : List Nat) => do let x ← lv outlevels lvl; setLv ls lvl (x + offset)) levels.length 0 levels
    dealloc workbuf tmpNumItems
    pure ({ s with items := some items, itemsSize, levels, numLevels := result.finalNumLevels }, coins)

/-- `merge_higher_levels` once the sizes are known -/
def mhlMid (s o : Sketch) (finalN : Nat) (coins : List Bool) (nr oAbove : Nat) : M (Sketch × List Bool) := do
  let tmpNumItems := nr + oAbove
  let workbuf ← alloc .item tmpNumItems
  let ub := ubOnNumLevels finalN
  let workLevelsSize := ub + 2
  let worklevels := List.replicate workLevelsSize 0
  let outlevels := List.replicate workLevelsSize 0
  let provisional := max s.numLevels o.numLevels
  let worklevels ← populateWorkArrays s o false workbuf worklevels provisional
  let (result, outlevels, coins) ← generalCompress s.k s.m provisional workbuf worklevels outlevels s.lvl0Sorted coins
  if result.finalNumLevels > ub then throwExc "merge error" else
  let items ← deref s.items
  if result.finalCapacity ≠ s.itemsSize then do
    dealloc items s.itemsSize
    let nb ← alloc .item result.finalCapacity
    mhlFin s result outlevels coins workbuf tmpNumItems (nb, result.finalCapacity)
  else mhlFin s result outlevels coins workbuf tmpNumItems (items, s.itemsSize)

theorem mhl_eq (s o : Sketch) (finalN : Nat) (coins : List Bool) :
    mergeHigherLevels s o false finalN coins = (do
      let nr ← numRetained s
      if o.numLevels = 1 then mhlMid s o finalN coins nr 0
      else do
        let a ← lv o.levels 1
        let b ← lv o.levels o.numLevels
        mhlMid s o finalN coins nr (b - a)) := rfl


/-- `for (lvl = start; lvl < start + cnt; ++lvl) ls[lvl] = OL[lvl] + off` -/
theorem offsetLevels_ok (OL : List Nat) (off : Nat) : ∀ (cnt start : Nat) (ls : List Nat), start + cnt ≤ ls.length →
    start + cnt ≤ OL.length →
    ∃ ls', foldUp (fun lvl (ls : List Nat) => do let x ← lv OL lvl; setLv ls lvl (x + off)) cnt start ls =
        (Pure.pure ls' : M (List Nat)) ∧
      ls'.length = ls.length ∧
      ∀ j, ls'.getD j 0 = if start ≤ j ∧ j < start + cnt then OL.getD j 0 + off else ls.getD j 0 := by
  intro cnt
  induction cnt with
  | zero =>
    intro start ls _ _
    refine ⟨ls, rfl, rfl, fun j => ?_⟩
    rw [if_neg (by omega)]
  | succ c ih =>
    intro start ls hle hsrc
    have hs : start < ls.length := by omega
    obtain ⟨ls', e, hl, hg⟩ := ih (start + 1) (ls.set start (OL.getD start 0 + off)) (by simp; omega) (by omega)
    refine ⟨ls', ?_, by simpa using hl, fun j => ?_⟩
    · rw [foldUp_succ, lv_ok (by omega : start < OL.length)]
      show (setLv ls start (OL.getD start 0 + off) >>= fun a' => foldUp _ c (start + 1) a') = _
      rw [setLv_ok _ hs]
      exact e
    · rw [hg j, getD_set]
      by_cases hj : j = start
      · subst hj
        rw [if_neg (by omega), if_pos ⟨rfl, hs⟩, if_pos ⟨Nat.le_refl _, by omega⟩]
      · by_cases hr : start + 1 ≤ j ∧ j < start + 1 + c
        · rw [if_pos hr, if_pos ⟨by omega, by omega⟩]
        · rw [if_neg hr, if_neg (fun x => hj x.1), if_neg (by omega)]

theorem mhlFin_spec {S : Nat → Bool} (sa : Sketch) (res : CompressResult) (OL : List Nat) (coins : List Bool)
    (wb tmp it ub : Nat) (h : Heap) (hSw : S wb = true) (hSi : S it = true) (hne : wb ≠ it)
    (hlen : sa.levels.length = sa.numLevels + 1) (hOL : OL.length = ub + 2)
    (hfl : sa.numLevels ≤ res.finalNumLevels) (hfu : res.finalNumLevels ≤ ub) (hf1 : 1 ≤ res.finalNumLevels)
    (hO0 : OL.getD 0 0 = 0) (hOm : ∀ l, l < res.finalNumLevels → OL.getD l 0 ≤ OL.getD (l + 1) 0)
    (hOt : OL.getD res.finalNumLevels 0 = res.finalNumItems) (hcg : res.finalNumItems ≤ res.finalCapacity)
    (hce : res.finalCapacity = computeTotalCapacity sa.k sa.m res.finalNumLevels) (hnt : res.finalNumItems ≤ tmp)
    (hcw : HasCells h wb tmp) (hlw : LiveOn h wb 0 res.finalNumItems)
    (hrw : ∀ j, res.finalNumItems ≤ j → j < tmp → stAt h wb j = .raw)
    (hci : HasCells h it res.finalCapacity) (hri : ∀ j, j < res.finalCapacity → stAt h it j = .raw) :
    SafeF S h (mhlFin sa res OL coins wb tmp (it, res.finalCapacity) h)
      (fun r h' => ∃ L, r = ({ sa with items := some it, itemsSize := res.finalCapacity, levels := L, numLevels := res.finalNumLevels }, coins) ∧
        LevelsOK sa.k sa.m res.finalNumLevels L res.finalCapacity ∧
        ItemsLive h' it (L.getD 0 0) res.finalCapacity ∧ (∀ x, x ≠ wb → x ≠ it → SameOn h h' x) ∧
        h'.ids = h.ids.filter (fun x => x != wb) ∧ h'.next = h.next) := by
  unfold mhlFin
  simp only
  apply step_lv (by omega)
  rw [hO0]
  have e0 : 0 + res.finalNumItems = res.finalNumItems := by omega
  rw [e0]
  apply vstep_moveConstructRange hcw hci hne (Nat.zero_le _) hnt (by omega) (fun j h1 h2 => hlw j h1 h2)
    (fun j h1 h2 => hri j (by omega)) hSw hSi
  intro h1 sb1 hr1 hl1
  have hG := growLevels_length_eq sa.levels (res.finalNumLevels + 1) (by omega)
  obtain ⟨L, eL, hlenL, hgL⟩ := offsetLevels_ok OL (res.finalCapacity - res.finalNumItems - 0)
    (growLevels sa.levels (res.finalNumLevels + 1)).length 0 (growLevels sa.levels (res.finalNumLevels + 1))
    (by omega) (by omega)
  rw [eL, pure_bind_apply]
  apply vstep_dealloc' (sb1.cells _ _ hcw) ?_ hSw
  · intro h2 so2 hid2 hnx2
    apply SafeF.pure
    have hLj : ∀ j, j ≤ res.finalNumLevels → L.getD j 0 = OL.getD j 0 + (res.finalCapacity - res.finalNumItems) := by
      intro j hj
      rw [hgL j, if_pos ⟨Nat.zero_le _, by omega⟩]; omega
    refine ⟨L, rfl, ⟨hf1, by rw [hlenL, hG], fun i hi => ?_, ?_, hce⟩, ?_, fun x h1' h2' => ?_, ?_, ?_⟩
    · rw [hLj i (by omega), hLj (i + 1) (by omega)]
      have := hOm i hi; omega
    · rw [hLj _ (Nat.le_refl _), hOt]; omega
    · rw [hLj 0 (Nat.zero_le _), hO0]
      have sit := so2 it (fun e => hne e.symm)
      refine ⟨sit.cells _ (sb1.cells _ _ hci), fun j hj => ?_, fun j h1' h2' => ?_⟩
      · rw [sit.st, sb1.st _ _ (fun x => by rcases x with x | x; exact hne x.1.symm; omega)]
        exact hri j (by omega)
      · rw [sit.st]
        exact hl1 j (by omega) (by omega)
    · exact (sb1.sameOn (fun j x => by rcases x with x | x; exact h1' x.1; exact h2' x.1)).trans (so2 x h1')
    · rw [hid2, sb1.ids]
    · rw [hnx2, sb1.next]
  · intro i hi
    by_cases e : i < res.finalNumItems
    · exact hr1 i (Nat.zero_le _) e
    · rw [sb1.st _ _ (fun x => by rcases x with x | x; omega; exact hne x.1)]
      exact hrw i (by omega) hi


theorem pop0_le_W (s : Sketch) (h : 1 ≤ s.numLevels) : pop s.levels 0 ≤ W s := by
  unfold W
  rw [sumSampleWeights_eq]
  have e : s.numLevels = (s.numLevels - 1) + 1 := by omega
  rw [e]
  generalize s.numLevels - 1 = n
  induction n with
  | zero => simp [wsum]
  | succ n ih => simp only [wsum] at ih ⊢; omega

/-- `merge_higher_levels` delivers what `merge` needs -/
theorem mhl_spec (P : Params) (hP : P.OK) (n0 : Nat) (ids0 : List Nat) (s o : Sketch) (b : Nat) (h : Heap)
    (ctx : MCtx P n0 ids0 s o b h) (byMove : Bool) (hA : Heap) (hAnx : hA.next = n0) (honl : o.numLevels ≥ 2) :
    MHLSpec P n0 s o b byMove hA := by
  intro sa ca ba h1 finalN ss io uo hlo hWsa hfin hpw h64
  obtain ⟨hself_lt, hblt, hbself, hbi, hviewf, hof⟩ := ctx.static
  obtain ⟨⟨hba, lok, il⟩, sm, re, selfc, mm, view, hSba⟩ := ss
  obtain ⟨ob, hob, _⟩ := ctx.uo.items
  have hobo : ob ∈ owned o := mem_owned.2 (Or.inr (Or.inl hob))
  obtain ⟨loko, iato, hoblt, _, _⟩ := io.items_ok ob hob
  have hlo' := hlo ob hob
  have hn1 : n0 ≤ h1.next := by have := re.next; omega
  have hbab : ba = b ∨ n0 ≤ ba := by
    rcases re.fresh with e | e
    · exact Or.inl e
    · right; omega
  have hbalt : ba < h1.next := by
    rcases re.fresh with e | e
    · omega
    · exact e.2
  have hoba : ∀ x, x ∈ owned o → x ≠ ba := fun x hx => by
    rcases hbab with e | e
    · rw [e]; exact (hof x hx).2.2.1
    · have := (hof x hx).1; omega
  have hselfba : s.self ≠ ba := by rcases hbab with e | e; rw [e]; exact fun e' => hbself e'.symm; omega
  have hviewba : ∀ w, s.view = some w → w ≠ ba := fun w hw => by
    rcases hbab with e | e
    · rw [e]; exact (hviewf w hw).2.1
    · have := (hviewf w hw).1; omega
  have hm2 : 2 ≤ sa.m := by rw [sm.m, ctx.us.toInv.m_eq]; exact hP.1
  have hSn : ∀ x, n0 ≤ x → foot (owned s ++ owned o) n0 x = true := fun x hx => foot_new hx
  have hlens := lok.len
  have hleno := loko.len
  have hl0 : sa.levels.getD 0 0 ≤ sa.itemsSize := lok.le_top 0 (Nat.zero_le _)
  -- the bound on the number of levels
  have hWo : W o = o.n := ctx.uo.wt
  have hp0 : pop o.levels 0 ≤ o.n := by rw [← hWo]; exact pop0_le_W o (by omega)
  have hprov : max sa.numLevels o.numLevels ≤ ubOnNumLevels finalN := by
    have h1' : sa.numLevels ≤ ubOnNumLevels finalN := by
      rcases hpw with e | e
      · rw [e]; exact ub_pos _
      · exact ub_ge h64 (by omega)
    have h2' : o.numLevels ≤ ubOnNumLevels finalN := by
      rcases ctx.uo.pw with e | e
      · omega
      · exact ub_ge h64 (by omega)
    omega
  rw [mhl_eq]
  unfold numRetained
  simp only [M.bind_assoc]
  apply step_lv (by omega)
  apply step_lv (by omega)
  rw [pure_bind_apply, if_neg (by omega)]
  apply step_lv (by omega)
  apply step_lv (by omega)
  rw [lok.top, loko.top]
  unfold mhlMid
  simp only
  generalize htmp : sa.itemsSize - sa.levels.getD 0 0 + (o.itemsSize - o.levels.getD 1 0) = tmp
  apply vstep_alloc' _ _ (hSn _ hn1)
  intro h2 hcw2 hrw2 so2 hid2 hnx2
  have hSw : foot (owned s ++ owned o) n0 h1.next = true := hSn _ hn1
  have pctx : PCtx h2 sa o ba ob h1.next tmp (ubOnNumLevels finalN) :=
    ⟨hba, hob, lok, loko, honl, (so2 ob (by omega)).cells _ iato.cells,
      fun j h1' h2' => by rw [(so2 ob (by omega)).st]; exact hlo' j h1' h2', htmp.symm,
      fun e => hoba ob hobo e.symm, by omega, by omega, hprov⟩
  apply SafeF.bind' (populate_spec (S := foot (owned s ++ owned o) n0) pctx hSba hSw
    (il.transfer (so2 ba (by omega))) hcw2 hrw2)
  intro WL h3 ⟨hlenWL, hWL, sb3, hraw3, hlive3⟩ _
  have hwlw := wlf_weight pctx hWL
  have hWL0 : WL.getD 0 0 = 0 := by
    rw [hWL 0 (Nat.zero_le _)]
    unfold wlf
    rw [psOf_lt (by omega), psOf_lt (by omega : max 0 1 ≤ o.numLevels)]
    simp
  have hWLtop : WL.getD (max sa.numLevels o.numLevels) 0 = tmp := by
    rw [hWL _ (Nat.le_refl _)]
    unfold wlf
    rw [psOf_top lok (by omega), psOf_top loko (by omega), ← htmp]
  have hcw3 : HasCells h3 h1.next tmp := sb3.cells _ _ hcw2
  apply SafeF.bind' (generalCompress_spec (S := foot (owned s ++ owned o) n0) (k := sa.k) (m := sa.m)
    (tmp := tmp) (ub := ubOnNumLevels finalN) (finalN := finalN) (prov := max sa.numLevels o.numLevels)
    (srt := sa.lvl0Sorted) (coins := ca) hm2 h64 rfl hSw hlenWL (by omega) hprov hWL0
    (fun l hl => by rw [hWL l (by omega), hWL (l + 1) (by omega)]; exact wlf_mono pctx (by omega)) hWLtop
    (by omega) hcw3 hlive3)
  intro r h4 ⟨hOLlen, hprovle, hfu, hO0, hOm, hOt, hcg, hce, hnt, sb4, hcw4, hlw4, hrw4⟩ _
  obtain ⟨res, OL, coins'⟩ := r
  simp only at hOLlen hprovle hfu hO0 hOm hOt hcg hce hnt hlw4 hrw4 ⊢
  rw [if_neg (by omega)]
  apply step_deref_eq hba
  -- blocks other than `ba` and the work buffer, up to `h4`
  have oth4 : ∀ x, x ≠ ba → x ≠ h1.next → SameOn h1 h4 x := fun x h1' h2' =>
    ((so2 x h2').trans (sb3.sameOn (fun j e => by rcases e with e | e; exact h1' e; exact h2' e))).trans
      (sb4.sameOn (fun j e => h2' e))
  have hnx4 : h4.next = h1.next + 1 := by rw [sb4.next, sb3.next, hnx2]
  have hid4 : h4.ids = h1.next :: h1.ids := by rw [sb4.ids, sb3.ids, hid2]
  have hca4 : HasCells h4 ba sa.itemsSize :=
    (sb4.sameOn (fun j e => by omega)).cells _ (sb3.cells _ _ ((so2 ba (by omega)).cells _ il.cells))
  have hra4 : ∀ j, j < sa.itemsSize → stAt h4 ba j = .raw := fun j hj => by
    rw [(sb4.sameOn (fun j e => by omega : ∀ j, ¬ (fun b' (_ : Nat) => b' = h1.next) ba j)).st]; exact hraw3 j hj
  have hwf1 : ∀ x, x ∈ h1.ids → x < h1.next := re.wf (by omega)
  have hbaid : ba ∈ h1.ids := mem_ids_of_HasCells il.cells
  have hpwres : res.finalNumLevels = 1 ∨ 2 ^ (res.finalNumLevels - 1) ≤ finalN := by
    rcases ub_le hfu with e | e
    · left; omega
    · exact Or.inr e
  -- the common end
  have fin : ∀ (it : Nat) (h5 : Heap), foot (owned s ++ owned o) n0 it = true → h1.next ≠ it →
      HasCells h5 it res.finalCapacity → (∀ j, j < res.finalCapacity → stAt h5 it j = .raw) →
      HasCells h5 h1.next tmp → LiveOn h5 h1.next 0 res.finalNumItems →
      (∀ j, res.finalNumItems ≤ j → j < tmp → stAt h5 h1.next j = .raw) →
      (∀ x, x ≠ ba → x ≠ h1.next → x ≠ it → SameOn h1 h5 x) → h1.next ≤ h5.next →
      (it = ba ∨ (h1.next ≤ it ∧ it < h5.next)) →
      (∀ h', h'.ids = h5.ids.filter (fun x => x != h1.next) → h'.next = h5.next → ReallocIds h1 h' ba it) →
      (∀ x, x ∈ owned o → x ≠ it) → s.self ≠ it → (∀ w, s.view = some w → w ≠ it) →
      SafeF (foot (owned s ++ owned o) n0) h5 (mhlFin sa res OL coins' h1.next tmp (it, res.finalCapacity) h5)
        (fun r h' => (∃ ba', SSide (foot (owned s ++ owned o) n0) hA h' s r.1 b ba') ∧ Inv P h' o ∧
          (byMove = false → Usable P h' o) ∧ (r.1.numLevels = 1 ∨ 2 ^ (r.1.numLevels - 1) ≤ finalN)) := by
    intro it h5 hSit hneit hci hri hcw5 hlw5 hrw5 oth5 hnx5 hitf hre hoit hsit hvit
    have r := mhlFin_spec (S := foot (owned s ++ owned o) n0) sa res OL coins' h1.next tmp it (ubOnNumLevels finalN) h5
      hSw hSit hneit hlens hOLlen (by omega) hfu (by omega) hO0 hOm hOt hcg hce hnt hcw5 hlw5 hrw5 hci hri
    refine r.mono ?_
    intro r' h' ⟨L, er, lokL, ilL, oth', hid', hnx'⟩
    subst er
    have oth : ∀ x, x ≠ ba → x ≠ h1.next → x ≠ it → SameOn h1 h' x := fun x a1 a2 a3 =>
      (oth5 x a1 a2 a3).trans (oth' x a2 a3)
    have hno : ∀ x, x ∈ owned o → SameOn h1 h' x := fun x hx =>
      oth x (hoba x hx) (by have := (hof x hx).1; omega) (hoit x hx)
    have hnle : h1.next ≤ h'.next := by omega
    have sself : SameOn h1 h' s.self := oth _ hselfba (by omega) hsit
    refine ⟨⟨it, ⟨rfl, lokL, ilL⟩, ⟨sm.self, sm.k, sm.m, sm.view⟩, re.trans (hre h' hid' hnx') (by omega),
      sself.cells _ selfc, by rw [sself.st, sself.st]; exact mm, fun w hw => ?_, hSit⟩,
      io.transfer hno hnle, fun e => (uo e).transfer hno hnle, hpwres⟩
    have sw := oth w (hviewba w hw) (by have := (hviewf w hw).1; omega) (hvit w hw)
    exact ⟨sw.cells _ (view w hw).1, by rw [sw.st]; exact (view w hw).2⟩
  by_cases hcap : res.finalCapacity ≠ sa.itemsSize
  · rw [if_pos hcap]
    apply vstep_dealloc' hca4 hra4 hSba
    intro h5 so5 hid5 hnx5
    apply vstep_alloc' _ _ (hSn _ (by omega))
    intro h6 hc6 hr6 so6 hid6 hnx6
    rw [hnx5, hnx4] at hc6 hr6 so6 hid6 hnx6 ⊢
    have w56 : SameOn h4 h6 h1.next := (so5 _ (by omega)).trans (so6 _ (by omega))
    apply fin (h1.next + 1) h6 (hSn _ (by omega)) (by omega) hc6 hr6 (w56.cells _ hcw4)
      (fun j h1' h2' => by rw [w56.st]; exact hlw4 j h1' h2')
      (fun j h1' h2' => by rw [w56.st]; exact hrw4 j h1' h2')
      (fun x a1 a2 a3 => ((oth4 x a1 a2).trans (so5 x a1)).trans (so6 x a3)) (by omega)
      (Or.inr ⟨by omega, by omega⟩)
    · intro h' hid' hnx'
      have hmem : ∀ x, x ∈ h'.ids ↔ (x = h1.next + 1 ∨ (x ∈ h1.ids ∧ x ≠ ba)) := by
        intro x
        rw [hid', hid6, hid5, hid4]
        simp only [List.mem_filter, List.mem_cons, bne_iff_ne, ne_eq]
        constructor
        · rintro ⟨e | ⟨e | e, e2⟩, e3⟩
          · exact Or.inl e
          · exact absurd e e3
          · exact Or.inr ⟨e, e2⟩
        · rintro (e | ⟨e, e2⟩)
          · exact ⟨Or.inl e, by omega⟩
          · exact ⟨Or.inr ⟨Or.inr e, e2⟩, by have := hwf1 x e; omega⟩
      refine ⟨by omega, Or.inr ⟨by omega, by omega⟩, fun x hx hxb => ?_, fun x hx => ?_, ?_⟩
      · rw [hmem x]
        constructor
        · rintro (e | ⟨e, _⟩); omega; exact e
        · intro e; exact Or.inr ⟨e, hxb⟩
      · rw [hmem x]
        constructor
        · rintro (e | ⟨e, _⟩); exact e; have := hwf1 x e; omega
        · intro e; exact Or.inl e
      · rw [hmem ba]
        constructor
        · rintro (e | ⟨_, e⟩); omega; exact absurd rfl e
        · intro e; omega
    · intro x hx; have := (hof x hx).1; omega
    · omega
    · intro w hw; have := (hviewf w hw).1; omega
  · rw [if_neg hcap]
    have ecap : sa.itemsSize = res.finalCapacity := by omega
    rw [ecap]
    rw [ecap] at hca4 hra4
    apply fin ba h4 hSba (by omega) hca4 hra4 hcw4 hlw4 hrw4 (fun x a1 a2 _ => oth4 x a1 a2) (by omega) (Or.inl rfl)
    · intro h' hid' hnx'
      have hmem : ∀ x, x ∈ h'.ids ↔ x ∈ h1.ids := by
        intro x
        rw [hid', hid4]
        simp only [List.mem_filter, List.mem_cons, bne_iff_ne, ne_eq]
        constructor
        · rintro ⟨e | e, e3⟩
          · exact absurd e e3
          · exact e
        · intro e; exact ⟨Or.inr e, by have := hwf1 x e; omega⟩
      refine ⟨by omega, Or.inl rfl, fun x _ _ => hmem x, fun x hx => ?_, ?_⟩
      · rw [hmem x]
        constructor
        · intro e; have := hwf1 x e; omega
        · intro e; omega
      · rw [hmem ba]; simp [hbaid]
    · exact hoba
    · exact hselfba
    · exact hviewba


/-- `merge(other)`.  Extra hypotheses beyond the generic contract shape: heap well-formedness (`ids0` below `n0`),
    and – only when `merge_higher_levels` runs – that the total weight fits into the 64 bits of `n_`
    (`ub_on_num_levels` is computed with a 64-step loop, and the work level arrays are sized by it). -/
theorem merge_contract (P : Params) (hP : P.OK) (n0 : Nat) (s o : Sketch) (byMove : Bool) (coins : List Bool)
    (ids0 : List Nat) (h64 : o.numLevels ≥ 2 → s.n + o.n < 2 ^ 64) :
    TripleS n0 (foot (owned s ++ owned o) n0)
      (fun h => Usable P h s ∧ Usable P h o ∧ (∀ b, b ∈ owned s → b ∉ owned o) ∧ h.ids = ids0 ∧ h.next = n0 ∧
         (∀ b, b ∈ owned s → b < n0) ∧ (∀ b, b ∈ owned o → b < n0) ∧ (∀ x, x ∈ ids0 → x < n0))
      (merge s o byMove coins)
      (fun r h' => Usable P h' r.1 ∧ Inv P h' o ∧ (byMove = false → Usable P h' o) ∧ (∀ b, b ∈ owned r.1 → b ∉ owned o) ∧
         Owns h' ids0 (owned s ++ owned o) (owned r.1 ++ owned o) n0) :=
  merge_gen P hP n0 s o byMove coins ids0
    (fun b h hA ctx hAnx hge => mhl_spec P hP n0 ids0 s o b h ctx byMove hA hAnx hge) h64

end DS.Life.Kll

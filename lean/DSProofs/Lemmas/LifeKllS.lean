/- C19, KLL sketch part 19: `merge_higher_levels`. -/
import DSProofs.Lemmas.LifeKllR
namespace DS.Life.Kll
open DS.Life

/-- the end of `merge_higher_levels`: items back into `items_`, new `levels_`, the work buffer goes -/
def mhlFin (s : Sketch) (result : CompressResult) (outlevels : List Nat) (coins : List Bool)
    (workbuf tmpNumItems : Nat) (x : Nat × Nat) : M (Sketch × List Bool) :=
  match x with
  | (items, itemsSize) => do
    let freeSpaceAtBottom := result.finalCapacity - result.finalNumItems
    let o0 ← lv outlevels 0
    moveConstructRange workbuf o0 (o0 + result.finalNumItems) items freeSpaceAtBottom
    let levels := growLevels s.levels (result.finalNumLevels + 1)
    let offset := freeSpaceAtBottom - o0
    let levels ← foldUp (fun lvl (ls : List Nat) => do let x ← lv outlevels lvl; setLv ls lvl (x + offset)) levels.length 0 levels
    dealloc workbuf tmpNumItems
    pure ({ s with items := some items, itemsSize, levels, numLevels := result.finalNumLevels }, coins)

/-- `merge_higher_levels` once the sizes are known -/
def mhlMid (s o : Sketch) (finalN : Nat) (coins : List Bool) (nr oAbove : Nat) : M (Sketch × List Bool) := do
  let tmpNumItems := nr + oAbove
  let workbuf ← alloc .item tmpNumItems
  let ub := ubOnNumLevels finalN
  let workLevelsSize := ub + 2
  let worklevels := List.replicate workLevelsSize 0
  let outlevels := List.replicate workLevelsSize 0
  let provisional := max s.numLevels o.numLevels
  let worklevels ← populateWorkArrays s o false workbuf worklevels provisional
  let (result, outlevels, coins) ← generalCompress s.k s.m provisional workbuf worklevels outlevels s.lvl0Sorted coins
  if result.finalNumLevels > ub then throwExc "merge error" else
  let items ← deref s.items
  if result.finalCapacity ≠ s.itemsSize then do
    dealloc items s.itemsSize
    let nb ← alloc .item result.finalCapacity
    mhlFin s result outlevels coins workbuf tmpNumItems (nb, result.finalCapacity)
  else mhlFin s result outlevels coins workbuf tmpNumItems (items, s.itemsSize)

theorem mhl_eq (s o : Sketch) (finalN : Nat) (coins : List Bool) :
    mergeHigherLevels s o false finalN coins = (do
      let nr ← numRetained s
      if o.numLevels = 1 then mhlMid s o finalN coins nr 0
      else do
        let a ← lv o.levels 1
        let b ← lv o.levels o.numLevels
        mhlMid s o finalN coins nr (b - a)) := rfl


/-- `for (lvl = start; lvl < start + cnt; ++lvl) ls[lvl] = OL[lvl] + off` -/
theorem offsetLevels_ok (OL : List Nat) (off : Nat) : ∀ (cnt start : Nat) (ls : List Nat), start + cnt ≤ ls.length →
    start + cnt ≤ OL.length →
    ∃ ls', foldUp (fun lvl (ls : List Nat) => do let x ← lv OL lvl; setLv ls lvl (x + off)) cnt start ls =
        (Pure.pure ls' : M (List Nat)) ∧
      ls'.length = ls.length ∧
      ∀ j, ls'.getD j 0 = if start ≤ j ∧ j < start + cnt then OL.getD j 0 + off else ls.getD j 0 := by
  intro cnt
  induction cnt with
  | zero =>
    intro start ls _ _
    refine ⟨ls, rfl, rfl, fun j => ?_⟩
    rw [if_neg (by omega)]
  | succ c ih =>
    intro start ls hle hsrc
    have hs : start < ls.length := by omega
    obtain ⟨ls', e, hl, hg⟩ := ih (start + 1) (ls.set start (OL.getD start 0 + off)) (by simp; omega) (by omega)
    refine ⟨ls', ?_, by simpa using hl, fun j => ?_⟩
    · rw [foldUp_succ, lv_ok (by omega : start < OL.length)]
      show (setLv ls start (OL.getD start 0 + off) >>= fun a' => foldUp _ c (start + 1) a') = _
      rw [setLv_ok _ hs]
      exact e
    · rw [hg j, getD_set]
      by_cases hj : j = start
      · subst hj
        rw [if_neg (by omega), if_pos ⟨rfl, hs⟩, if_pos ⟨Nat.le_refl _, by omega⟩]
      · by_cases hr : start + 1 ≤ j ∧ j < start + 1 + c
        · rw [if_pos hr, if_pos ⟨by omega, by omega⟩]
        · rw [if_neg hr, if_neg (fun x => hj x.1), if_neg (by omega)]

theorem mhlFin_spec {S : Nat → Bool} (sa : Sketch) (res : CompressResult) (OL : List Nat) (coins : List Bool)
    (wb tmp it ub : Nat) (h : Heap) (hSw : S wb = true) (hSi : S it = true) (hne : wb ≠ it)
    (hlen : sa.levels.length = sa.numLevels + 1) (hOL : OL.length = ub + 2)
    (hfl : sa.numLevels ≤ res.finalNumLevels) (hfu : res.finalNumLevels ≤ ub) (hf1 : 1 ≤ res.finalNumLevels)
    (hO0 : OL.getD 0 0 = 0) (hOm : ∀ l, l < res.finalNumLevels → OL.getD l 0 ≤ OL.getD (l + 1) 0)
    (hOt : OL.getD res.finalNumLevels 0 = res.finalNumItems) (hcg : res.finalNumItems ≤ res.finalCapacity)
    (hce : res.finalCapacity = computeTotalCapacity sa.k sa.m res.finalNumLevels) (hnt : res.finalNumItems ≤ tmp)
    (hcw : HasCells h wb tmp) (hlw : LiveOn h wb 0 res.finalNumItems)
    (hrw : ∀ j, res.finalNumItems ≤ j → j < tmp → stAt h wb j = .raw)
    (hci : HasCells h it res.finalCapacity) (hri : ∀ j, j < res.finalCapacity → stAt h it j = .raw) :
    SafeF S h (mhlFin sa res OL coins wb tmp (it, res.finalCapacity) h)
      (fun r h' => ∃ L, r = ({ sa with items := some it, itemsSize := res.finalCapacity, levels := L, numLevels := res.finalNumLevels }, coins) ∧
        LevelsOK sa.k sa.m res.finalNumLevels L res.finalCapacity ∧
        ItemsLive h' it (L.getD 0 0) res.finalCapacity ∧ (∀ x, x ≠ wb → x ≠ it → SameOn h h' x) ∧
        h'.ids = h.ids.filter (fun x => x != wb) ∧ h'.next = h.next) := by
  unfold mhlFin
  simp only
  apply step_lv (by omega)
  rw [hO0]
  have e0 : 0 + res.finalNumItems = res.finalNumItems := by omega
  rw [e0]
  apply vstep_moveConstructRange hcw hci hne (Nat.zero_le _) hnt (by omega) (fun j h1 h2 => hlw j h1 h2)
    (fun j h1 h2 => hri j (by omega)) hSw hSi
  intro h1 sb1 hr1 hl1
  have hG := growLevels_length_eq sa.levels (res.finalNumLevels + 1) (by omega)
  obtain ⟨L, eL, hlenL, hgL⟩ := offsetLevels_ok OL (res.finalCapacity - res.finalNumItems - 0)
    (growLevels sa.levels (res.finalNumLevels + 1)).length 0 (growLevels sa.levels (res.finalNumLevels + 1))
    (by omega) (by omega)
  rw [eL, pure_bind_apply]
  apply vstep_dealloc' (sb1.cells _ _ hcw) ?_ hSw
  · intro h2 so2 hid2 hnx2
    apply SafeF.pure
    have hLj : ∀ j, j ≤ res.finalNumLevels → L.getD j 0 = OL.getD j 0 + (res.finalCapacity - res.finalNumItems) := by
      intro j hj
      rw [hgL j, if_pos ⟨Nat.zero_le _, by omega⟩]; omega
    refine ⟨L, rfl, ⟨hf1, by rw [hlenL, hG], fun i hi => ?_, ?_, hce⟩, ?_, fun x h1' h2' => ?_, ?_, ?_⟩
    · rw [hLj i (by omega), hLj (i + 1) (by omega)]
      have := hOm i hi; omega
    · rw [hLj _ (Nat.le_refl _), hOt]; omega
    · rw [hLj 0 (Nat.zero_le _), hO0]
      have sit := so2 it (fun e => hne e.symm)
      refine ⟨sit.cells _ (sb1.cells _ _ hci), fun j hj => ?_, fun j h1' h2' => ?_⟩
      · rw [sit.st, sb1.st _ _ (fun x => by rcases x with x | x; exact hne x.1.symm; omega)]
        exact hri j (by omega)
      · rw [sit.st]
        exact hl1 j (by omega) (by omega)
    · exact (sb1.sameOn (fun j x => by rcases x with x | x; exact h1' x.1; exact h2' x.1)).trans (so2 x h1')
    · rw [hid2, sb1.ids]
    · rw [hnx2, sb1.next]
  · intro i hi
    by_cases e : i < res.finalNumItems
    · exact hr1 i (Nat.zero_le _) e
    · rw [sb1.st _ _ (fun x => by rcases x with x | x; omega; exact hne x.1)]
      exact hrw i (by omega) hi

end DS.Life.Kll

/- Repaired model: insertion of an item (shared by update and query_and_update). -/
import DSProofs.Lemmas.BloomFixed8
namespace DS.Bloom

variable {ι : Type} (P : Params) (hf : ι → Nat → Option (Nat × Nat))

/-- the ghost step of `upd` / `qau` once the filter and its info are known and the call is not refused / ignored -/
def insGhost (p : PGhost ι) (w : World) (v : Nat) (f : Filter) (i : VInfo ι) (x0 : ι) : PGhost ι :=
  let r := p.write w v f i
  if r.2 then
    let k := keyOf v f
    let p2 := r.1.setS k { r.1.si k with S := x0 :: (r.1.si k).S }
    match p2.vi v with
    | some i2 => p2.setV v { i2 with M := x0 :: i2.M }
    | none => p2
  else r.1

theorem testBit_setBits_low (is : List Nat) (x off j : Nat) (hj : j < off) : (setBits x off is).testBit j = x.testBit j := by
  rw [testBit_setBits]
  have : is.any (fun i => off + i == j) = false := by
    rw [List.any_eq_false]; intro i _; simp; omega
  simp [this]

theorem hashed_cons {seed : Nat} {l : List ι} {x0 : ι} {h : Nat × Nat} (hh : hf x0 seed = some h) (hl : Hashed hf seed l) :
    Hashed hf seed (x0 :: l) := by
  intro y hy
  rcases List.mem_cons.mp hy with rfl | hy
  · rw [hh]; rfl
  · exact hl y hy

theorem good_insert (hP : P.Wire) (w : World) (p : PGhost ι) (hg : Good P hf w p) (v : Nat) (f : Filter) (i : VInfo ι)
    (hv : w.filters v = some f) (hi : p.vi v = some i) (hro : f.readOnly = false)
    (x0 : ι) (h : Nat × Nat) (hh : hf x0 f.seed = some h) (nbs' : Nat) (d' : Bool) (hdr : Option Nat)
    (hd : i.promised = true → insync (p.si (keyOf v f)) f i = true →
        d' = true ∨ nbs' = popCount (setBits (w.val f) (f.off P) (indices h.1 h.2 f.capBits f.numHashes)) (f.off P) f.capBits)
    (hc : ∀ m, f.ref = .mem m → i.promised = true → insync (p.si (keyOf v f)) f i = true →
        (d' = true → getField (commitVal P f (setBits (w.val f) (f.off P) (indices h.1 h.2 f.capBits f.numHashes)) hdr) 192 64 = P.dirty) ∧
        (d' = false → getField (commitVal P f (setBits (w.val f) (f.off P) (indices h.1 h.2 f.capBits f.numHashes)) hdr) 192 64
            = popCount (setBits (w.val f) (f.off P) (indices h.1 h.2 f.capBits f.numHashes)) 256 f.capBits)) :
    Good P hf (commit P w v f (setBits (w.val f) (f.off P) (indices h.1 h.2 f.capBits f.numHashes)) nbs' d' hdr)
      (insGhost p w v f i x0) := by
  have hok := hg.view v f i hv hi
  have hw := hg.fwf v f hv
  have hcapc : 0 < f.cfg.cap := hw.capPos
  -- the new item's bits, and a set bit inside the window when k ≥ 1
  have hnewpos : 1 ≤ f.numHashes → ∀ off X, 0 < popCount (setBits X off (indices h.1 h.2 f.capBits f.numHashes)) off f.capBits := by
    intro hk off X
    have ha := (allSet_iff _ _ _).mp (allSet_setBits X off (indices h.1 h.2 f.capBits f.numHashes)) _
      (idx1_mem_indices h.1 h.2 f.capBits f.numHashes hk)
    exact popCount_pos _ off f.capBits _ (idx_lt _ _ _ _ hw.capPos) ha
  cases hr : f.ref with
  | owned b =>
    have hm : isMem f = false := by simp [isMem, hr]
    have hkey : keyOf v f = .own v := by simp [keyOf, hr]
    have hX : w.val f = b := by simp [World.val, hr]
    have hoff : f.off P = 0 := by simp [Filter.off, hr]
    have hXk : keyVal w (keyOf v f) = b := by rw [← val_eq_keyVal w v f hv, hX]
    rw [hXk, hkey] at hok
    have hin : insync (p.si (keyOf v f)) f i = true := by simp [insync, hr]
    simp only [insGhost, write_own p w v f i b hr, hkey, hX, hoff]
    by_cases hp : i.promised = true
    · simp only [hp, if_true]
      have hvi0 : ((p.setS (Key.own v) { p.si (Key.own v) with S := x0 :: (p.si (Key.own v)).S }).vi v) = some i := by simpa using hi
      simp only [hvi0]
      apply good_write_own P hf w p _ hg v f i b hv hi hr _ nbs' d' hdr { p.si (Key.own v) with S := x0 :: (p.si (Key.own v)).S } (x0 :: i.M)
      · simp
      · intro k hk; simp [setS_si_ne _ _ hk]
      · simp
      · intro u hu; simp [setV_vi_ne _ _ hu]
      · intro hpf; rw [hp] at hpf; cases hpf
      · exact hashed_cons hf hh hok.hs
      · have := Covers.cons_setBits (x := x0) (h := h) hok.cov hcapc hh
        rw [hoff] at this; exact this
      · exact hashed_cons hf hh (hok.os hm).2.1
      · exact Covers.cons_setBits (x := x0) (h := h) (hok.os hm).1 hcapc hh
      · intro _
        rcases hd hp hin with h1 | h1
        · exact Or.inl h1
        · right; rw [h1, hX, hoff]
          have := hnewpos (hok.k1 hp).1 0 b
          omega
      · intro _ hdf
        rcases hd hp hin with h1 | h1
        · rw [h1] at hdf; cases hdf
        · rw [h1, hX, hoff]
    · have hp' : i.promised = false := by simpa using hp
      simp only [hp', Bool.false_eq_true, if_false]
      apply good_write_own P hf w p p hg v f i b hv hi hr _ nbs' d' hdr (p.si (Key.own v)) i.M rfl (fun _ _ => rfl) hi (fun _ _ => rfl)
      · intro _; exact ⟨hok.up hp', (hok.os hm).2.2 hp'⟩
      · rw [hok.up hp']; intro y hy; cases hy
      · rw [hok.up hp']; exact Covers.nil _ _ _ _
      · rw [(hok.os hm).2.2 hp']; intro y hy; cases hy
      · rw [(hok.os hm).2.2 hp']; exact Covers.nil _ _ _ _
      · intro hne; exact absurd (hok.up hp') hne
      · intro hpt; rw [hp'] at hpt; cases hpt
  | mem m =>
    have hm : isMem f = true := by simp [isMem, hr]
    have hkey : keyOf v f = .mem m := by simp [keyOf, hr]
    have hX : w.val f = w.blockVal m := by simp [World.val, hr]
    have hoff : f.off P = 256 := off_mem P hP.layout hm
    have hXk : keyVal w (keyOf v f) = w.blockVal m := by rw [← val_eq_keyVal w v f hv, hX]
    rw [hXk, hkey] at hok
    rw [hkey] at hd hc
    by_cases ht : (p.si (.mem m)).tainted = true
    · -- already tainted: ghost unchanged
      simp only [insGhost, write_tainted p w v f i m hr ht, Bool.false_eq_true, if_false]
      apply good_write_mem_taint P hf w p p hg v f m hv hr _ nbs' d' hdr (p.si (.mem m)) rfl (fun _ _ => rfl) ht (hg.taintS m ht) (Nat.le_refl _)
      · intro u fu iu hfu hiu hk
        have hoku := hg.view u fu iu hfu hiu
        rw [hk] at hoku
        exact ⟨iu, hiu, hoku.tm (keyOf_mem_of_eq hk).2 ht, rfl, rfl⟩
      · intro u fu _ _; rfl
    · have ht' : (p.si (.mem m)).tainted = false := by simpa using ht
      by_cases hs : (i.sync != (p.si (.mem m)).ver || f.readOnly) = true
      · -- stale writer: the block is tainted
        simp only [insGhost, write_stale p w v f i m hr ht' hs, Bool.false_eq_true, if_false]
        apply good_write_mem_taint P hf w p _ hg v f m hv hr _ nbs' d' hdr ⟨[], (p.si (.mem m)).ver, true⟩ (taint_si_same p w _)
          (fun k hk => taint_si_ne p w hk) rfl rfl (Nat.le_refl _)
        · intro u fu iu hfu hiu hk
          exact ⟨_, taint_vi_same p w _ u fu iu hfu hiu hk, rfl, rfl, rfl⟩
        · intro u fu hfu hk; exact taint_vi_ne p w _ u fu hfu hk
      · -- disciplined write
        have hs' : (i.sync != (p.si (.mem m)).ver || f.readOnly) = false := by simpa using hs
        have hsync : i.sync = (p.si (.mem m)).ver := by
          simp only [Bool.or_eq_false_iff, bne_eq_false_iff_eq] at hs'; exact hs'.1
        have hp : i.promised = true := by
          cases hpp : i.promised with
          | true => rfl
          | false => have := hok.us hpp hm ht'; omega
        have hin : insync (p.si (.mem m)) f i = true := (insync_mem_iff hm).mpr ⟨ht', hsync⟩
        obtain ⟨hcovS, hhsS, _⟩ := block_of_writer P hf w p hg v f i m hv hi hr hp ht' hsync
        simp only [insGhost, write_ok p w v f i m hr ht' hs', hp, if_true, hkey, hX, hoff]
        simp only [setS_vi, setV_vi_same]
        apply good_write_mem_ok P hf hP.layout w p _ hg v f i m hv hi hr hro hp ht' hsync _ nbs' d' hdr
          ⟨x0 :: (p.si (.mem m)).S, (p.si (.mem m)).ver + 1, false⟩ (x0 :: i.M)
        · intro j hj; exact testBit_setBits_low _ _ _ _ hj
        · simp [ht']
        · intro k hk; simp [setS_si_ne _ _ hk]
        · simp [hsync]
        · rfl
        · simp [hsync, hp]
        · intro u fu iu hu hfu hiu hk
          refine ⟨iu.M, ?_, Or.inr ⟨rfl, fun j _ hb => testBit_setBits_mono _ _ _ _ hb⟩⟩
          simp [setV_vi_ne _ _ hu, hiu]
        · intro u fu hfu hk
          have hu : u ≠ v := by intro e; subst e; rw [hv] at hfu; injection hfu with hfu; subst hfu; exact hk hkey
          simp [setV_vi_ne _ _ hu]
        · exact hashed_cons hf hh hok.hs
        · have := Covers.cons_setBits (x := x0) (h := h) hok.cov hcapc hh
          rw [hoff] at this; exact this
        · exact hashed_cons hf hh hhsS
        · exact Covers.cons_setBits (x := x0) (h := h) hcovS hcapc hh
        · intro _
          rcases hd hp hin with h1 | h1
          · exact Or.inl h1
          · right; rw [h1, hX, hoff]
            have := hnewpos (hok.k1 hp).1 256 (w.blockVal m)
            omega
        · intro hdf
          rcases hd hp hin with h1 | h1
          · rw [h1] at hdf; cases hdf
          · rw [h1, hX, hoff]
        · have := hc m hr hp hin
          rw [hX, hoff] at this
          cases d' with
          | true => exact Or.inl (this.1 rfl)
          | false => exact Or.inr (this.2 rfl)
        · intro hdt
          have := hc m hr hp hin
          rw [hX, hoff] at this
          exact this.1 hdt

end DS.Bloom

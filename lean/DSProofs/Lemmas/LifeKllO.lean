/- C19, KLL sketch part 15 (merge_higher_levels, preparation): `ub_on_num_levels`, `std::move` to the left inside a
   block, the three-buffer `merge_sorted_arrays`. -/
import DSProofs.Lemmas.LifeKllN
namespace DS.Life.Kll
open DS.Life

/-! ### `ub_on_num_levels` -/

theorem floorLog2Loop_spec (n : Nat) : ∀ fuel c, 2 ^ c ≤ n →
    c ≤ floorLog2Loop n fuel (2 ^ c) c ∧ 2 ^ (floorLog2Loop n fuel (2 ^ c) c) ≤ n ∧
    (n < 2 ^ (c + fuel) → n < 2 ^ (floorLog2Loop n fuel (2 ^ c) c + 1)) := by
  intro fuel
  induction fuel with
  | zero =>
    intro c hc
    refine ⟨Nat.le_refl _, hc, fun hlt => ?_⟩
    simp only [Nat.add_zero] at hlt
    omega
  | succ f ih =>
    intro c hc
    unfold floorLog2Loop
    have e : 2 * 2 ^ c = 2 ^ (c + 1) := by rw [Nat.pow_succ]; omega
    by_cases h : 2 * 2 ^ c > n
    · rw [if_pos h]
      exact ⟨Nat.le_refl _, hc, fun _ => by rw [← e]; exact h⟩
    · rw [if_neg h, e]
      obtain ⟨a, b, d⟩ := ih (c + 1) (by rw [← e]; omega)
      refine ⟨by omega, b, fun hlt => d ?_⟩
      have : c + 1 + f = c + (f + 1) := by omega
      rw [this]; exact hlt

theorem ub_pos (n : Nat) : 1 ≤ ubOnNumLevels n := by
  unfold ubOnNumLevels
  split <;> omega

/-- a number of levels below the bound is consistent with the weight `n` -/
theorem ub_le {n N : Nat} (h : N ≤ ubOnNumLevels n) : N ≤ 1 ∨ 2 ^ (N - 1) ≤ n := by
  unfold ubOnNumLevels at h
  by_cases hn : n = 0
  · rw [if_pos hn] at h; exact Or.inl h
  · rw [if_neg hn, if_neg (by omega)] at h
    obtain ⟨_, b, _⟩ := floorLog2Loop_spec n 64 0 (by simp; omega)
    simp only [Nat.pow_zero] at b h
    right
    exact Nat.le_trans (Nat.pow_le_pow_right (by omega) (by omega)) b

/-- conversely (for `n` below 2^64, the width of `n_`) -/
theorem ub_ge {n N : Nat} (h64 : n < 2 ^ 64) (hp : 2 ^ (N - 1) ≤ n) : N ≤ ubOnNumLevels n := by
  have hn : n ≠ 0 := by
    have := Nat.pow_pos (a := 2) (n := N - 1) (by omega); omega
  unfold ubOnNumLevels
  rw [if_neg hn, if_neg (by omega)]
  obtain ⟨_, _, d⟩ := floorLog2Loop_spec n 64 0 (by simp; omega)
  simp only [Nat.pow_zero, Nat.zero_add] at d
  have hlt := d h64
  generalize floorLog2Loop n 64 1 0 = r at hlt ⊢
  apply Classical.byContradiction
  intro hc
  have : 2 ^ (r + 1) ≤ 2 ^ (N - 1) := Nat.pow_le_pow_right (by omega) (by omega)
  omega

/-! ### `std::move(first, last, d_first)` to the left inside one block -/
theorem vstep_shiftDown {β} {S} {h : Heap} {b n src dst cnt : Nat} {f : Unit → M β} {Q : β → Heap → Prop}
    (hc : HasCells h b n) (hle : src + cnt ≤ n) (hd : dst < src) (hl : LiveOn h b src (src + cnt))
    (nr : NonRawOn h b dst src) (hS : S b = true)
    (s : ∀ h', SameBut h h' (fun b' j => b' = b ∧ dst ≤ j ∧ j < src + cnt) →
          LiveOn h' b dst (dst + cnt) → NonRawOn h' b (dst + cnt) (src + cnt) → SafeF S h' (f () h') Q) :
    SafeF S h ((loopUp (fun i => moveAssignSlot b i b (dst + (i - src))) cnt src >>= f) h) Q := by
  have loop := TripleS.loopUp (n0 := 0) (S := S)
    (fun i h' => SameBut h h' (fun b' j => b' = b ∧ dst ≤ j ∧ j < src + cnt) ∧
      LiveOn h' b dst (dst + (i - src)) ∧ LiveOn h' b i (src + cnt) ∧ NonRawOn h' b dst (src + cnt))
    (fun i => moveAssignSlot b i b (dst + (i - src))) cnt src ?_
  · apply SafeF.bind_triple loop (Nat.zero_le _)
      ⟨SameBut.refl _ _, fun j h1 h2 => by omega, hl, fun j h1 h2 => by
        by_cases e : j < src
        · exact nr j h1 e
        · exact hl.nonRaw j (by omega) h2⟩
    intro _ h1 ⟨sb, a, _, c⟩ _
    have e : src + cnt - src = cnt := by omega
    rw [e] at a
    exact s h1 sb a (fun j h1' h2' => c j (by omega) h2')
  · intro i hi1 hi2 h' _ ⟨sb, a, l, nr'⟩
    apply SafeF.last
    obtain ⟨v, hv⟩ := l i (Nat.le_refl _) hi2
    apply vstep_moveAssignSlot (sb.cells _ _ hc) (by omega) hv (sb.cells _ _ hc) (by omega : dst + (i - src) < n)
      (nr' _ (by omega) (by omega)) (fun x => by omega) hS hS
    intro h2 sb2 hdst hsrc
    apply SafeF.pure
    refine ⟨sb.trans sb2 (fun _ _ x => x) (fun _ _ x => by rcases x with x | x <;> exact ⟨x.1, by omega, by omega⟩),
      ?_, ?_, ?_⟩
    · intro j h1 h2'
      by_cases e : j = dst + (i - src)
      · subst e; exact ⟨v, hdst⟩
      · rw [sb2.st b j (fun x => by rcases x with x | x <;> omega)]; exact a j h1 (by omega)
    · intro j h1 h2'
      rw [sb2.st b j (fun x => by rcases x with x | x <;> omega)]; exact l j (by omega) h2'
    · intro j h1 h2'
      by_cases e : j = dst + (i - src)
      · subst e; rw [hdst]; simp
      · by_cases e2 : j = i
        · subst e2; rw [hsrc]; simp
        · rw [sb2.st b j (fun x => by rcases x with x | x <;> omega)]; exact nr' j h1 h2'


/-! ### the three-buffer `merge_sorted_arrays` (items of `a` are transferred and destroyed, items of `b` copied) -/
theorem mergeIntoLoop_spec {S : Nat → Bool} {ba na bb nb bc nc limA limB endC : Nat} (hSa : S ba = true)
    (hSc : S bc = true) (hab : ba ≠ bb) (hac : ba ≠ bc) (hbc : bb ≠ bc) (hla : limA ≤ na) (hlb : limB ≤ nb)
    (hlc : endC ≤ nc) :
    ∀ fuel a b c h, HasCells h ba na → HasCells h bb nb → HasCells h bc nc → a ≤ limA → b ≤ limB →
      fuel = (limA - a) + (limB - b) → c + fuel = endC →
      LiveOn h ba a limA → LiveOn h bb b limB → (∀ j, c ≤ j → j < endC → stAt h bc j = .raw) →
      SafeF S h (mergeIntoLoop ba limA bb limB bc fuel a b c h)
        (fun r h' => r = (limA, limB) ∧
          SameBut h h' (fun b' j => (b' = ba ∧ a ≤ j ∧ j < limA) ∨ (b' = bc ∧ c ≤ j ∧ j < endC)) ∧
          (∀ j, a ≤ j → j < limA → stAt h' ba j = .raw) ∧ LiveOn h' bc c endC) := by
  intro fuel
  induction fuel with
  | zero =>
    intro a b c h hca hcb hcc ha hb hf hce la lb rc
    unfold mergeIntoLoop
    apply SafeF.pure
    have e1 : a = limA := by omega
    have e2 : b = limB := by omega
    subst e1 e2
    exact ⟨rfl, SameBut.refl _ _, fun j h1 h2 => by omega, fun j h1 h2 => by omega⟩
  | succ f ih =>
    intro a b c h hca hcb hcc ha hb hf hce la lb rc
    unfold mergeIntoLoop
    have hclt : c < endC := by omega
    -- copy `b[b]` to `c[c]`
    have fromB : b < limB →
        SafeF S h ((copyConstruct bb b bc c >>= fun _ => mergeIntoLoop ba limA bb limB bc f a (b + 1) (c + 1)) h)
          (fun r h' => r = (limA, limB) ∧
            SameBut h h' (fun b' j => (b' = ba ∧ a ≤ j ∧ j < limA) ∨ (b' = bc ∧ c ≤ j ∧ j < endC)) ∧
            (∀ j, a ≤ j → j < limA → stAt h' ba j = .raw) ∧ LiveOn h' bc c endC) := by
      intro hbl
      obtain ⟨v, hv⟩ := lb b (Nat.le_refl _) hbl
      apply vstep_copyConstruct hcb (by omega) hv hcc (by omega) (rc c (Nat.le_refl _) hclt) hSc
      intro h1 sb1 hst
      have r := ih a (b + 1) (c + 1) h1 (sb1.cells _ _ hca) (sb1.cells _ _ hcb) (sb1.cells _ _ hcc) ha (by omega)
        (by omega) (by omega)
        (fun j h1' h2' => by rw [sb1.st _ _ (fun x => hac x.1)]; exact la j h1' h2')
        (fun j h1' h2' => by rw [sb1.st _ _ (fun x => hbc x.1)]; exact lb j (by omega) h2')
        (fun j h1' h2' => by rw [sb1.st _ _ (fun x => by omega)]; exact rc j (by omega) h2')
      refine r.mono ?_
      intro r' h' ⟨e, sb', ra, lc⟩
      refine ⟨e, sb1.trans sb' (fun _ _ x => Or.inr ⟨x.1, by omega, by omega⟩)
        (fun _ _ x => by rcases x with x | x; exact Or.inl x; exact Or.inr ⟨x.1, by omega, x.2.2⟩), ra, ?_⟩
      intro j h1' h2'
      by_cases e' : j = c
      · subst e'
        exact ⟨v, by rw [sb'.st _ _ (fun x => by rcases x with x | x; exact hac x.1.symm; omega)]; exact hst⟩
      · exact lc j (by omega) h2'
    -- transfer `a[a]` to `c[c]`
    have fromA : a < limA →
        SafeF S h ((copyConstruct ba a bc c >>= fun _ => destroy ba a >>= fun _ =>
            mergeIntoLoop ba limA bb limB bc f (a + 1) b (c + 1)) h)
          (fun r h' => r = (limA, limB) ∧
            SameBut h h' (fun b' j => (b' = ba ∧ a ≤ j ∧ j < limA) ∨ (b' = bc ∧ c ≤ j ∧ j < endC)) ∧
            (∀ j, a ≤ j → j < limA → stAt h' ba j = .raw) ∧ LiveOn h' bc c endC) := by
      intro hal
      obtain ⟨v, hv⟩ := la a (Nat.le_refl _) hal
      apply vstep_copyConstruct hca (by omega) hv hcc (by omega) (rc c (Nat.le_refl _) hclt) hSc
      intro h1 sb1 hst
      have hv1 : stAt h1 ba a = .live v := by rw [sb1.st _ _ (fun x => hac x.1)]; exact hv
      apply vstep_destroy (sb1.cells _ _ hca) (by omega : a < na) (by rw [hv1]; simp) hSa
      intro h2 sb2 _ hr2
      have sb12 : SameBut h h2 (fun b' j => (b' = ba ∧ j = a) ∨ (b' = bc ∧ j = c)) :=
        sb1.trans sb2 (fun _ _ x => Or.inr x) (fun _ _ x => Or.inl x)
      have r := ih (a + 1) b (c + 1) h2 (sb12.cells _ _ hca) (sb12.cells _ _ hcb) (sb12.cells _ _ hcc) (by omega) hb
        (by omega) (by omega)
        (fun j h1' h2' => by
          rw [sb12.st _ _ (fun x => by rcases x with x | x; omega; exact hac x.1)]; exact la j (by omega) h2')
        (fun j h1' h2' => by
          rw [sb12.st _ _ (fun x => by rcases x with x | x; exact hab x.1.symm; exact hbc x.1)]; exact lb j h1' h2')
        (fun j h1' h2' => by
          rw [sb12.st _ _ (fun x => by rcases x with x | x; exact hac x.1.symm; omega)]; exact rc j (by omega) h2')
      refine r.mono ?_
      intro r' h' ⟨e, sb', ra, lc⟩
      refine ⟨e, sb12.trans sb' (fun _ _ x => by
          rcases x with x | x
          · exact Or.inl ⟨x.1, by omega, by omega⟩
          · exact Or.inr ⟨x.1, by omega, by omega⟩)
        (fun _ _ x => by
          rcases x with x | x
          · exact Or.inl ⟨x.1, by omega, x.2.2⟩
          · exact Or.inr ⟨x.1, by omega, x.2.2⟩), ?_, ?_⟩
      · intro j h1' h2'
        by_cases e' : j = a
        · subst e'
          rw [sb'.st _ _ (fun x => by rcases x with x | x; omega; exact hac x.1)]; exact hr2
        · exact ra j (by omega) h2'
      · intro j h1' h2'
        by_cases e' : j = c
        · subst e'
          refine ⟨v, ?_⟩
          rw [sb'.st _ _ (fun x => by rcases x with x | x; exact hac x.1.symm; omega),
            sb2.st _ _ (fun x => hac x.1.symm)]
          exact hst
        · exact lc j (by omega) h2'
    by_cases hA : a = limA
    · rw [if_pos hA]
      exact fromB (by omega)
    · rw [if_neg hA]
      by_cases hB : b = limB
      · rw [if_pos hB]
        exact fromA (by omega)
      · rw [if_neg hB]
        obtain ⟨va, hva⟩ := la a (Nat.le_refl _) (by omega)
        obtain ⟨vb, hvb⟩ := lb b (Nat.le_refl _) (by omega)
        apply vstep_read hca (by omega : a < na) hva
        apply vstep_read hcb (by omega : b < nb) hvb
        by_cases hlt : va < vb
        · rw [if_pos hlt]
          exact fromA (by omega)
        · rw [if_neg hlt]
          exact fromB (by omega)

theorem vstep_mergeInto {β} {S} {h : Heap} {ba na bb nb bc nc startA lenA startB lenB startC : Nat} {f : Unit → M β}
    {Q : β → Heap → Prop}
    (hca : HasCells h ba na) (hcb : HasCells h bb nb) (hcc : HasCells h bc nc) (hab : ba ≠ bb) (hac : ba ≠ bc)
    (hbc : bb ≠ bc) (hla : startA + lenA ≤ na) (hlb : startB + lenB ≤ nb) (hlc : startC + (lenA + lenB) ≤ nc)
    (la : LiveOn h ba startA (startA + lenA)) (lb : LiveOn h bb startB (startB + lenB))
    (rc : ∀ j, startC ≤ j → j < startC + (lenA + lenB) → stAt h bc j = .raw) (hSa : S ba = true) (hSc : S bc = true)
    (s : ∀ h', SameBut h h' (fun b' j => (b' = ba ∧ startA ≤ j ∧ j < startA + lenA) ∨
                                        (b' = bc ∧ startC ≤ j ∧ j < startC + (lenA + lenB))) →
          (∀ j, startA ≤ j → j < startA + lenA → stAt h' ba j = .raw) →
          LiveOn h' bc startC (startC + (lenA + lenB)) → SafeF S h' (f () h') Q) :
    SafeF S h ((mergeInto ba startA lenA bb startB lenB bc startC >>= f) h) Q := by
  unfold mergeInto
  simp only [M.bind_assoc]
  have r := mergeIntoLoop_spec (S := S) (endC := startC + (lenA + lenB)) hSa hSc hab hac hbc hla hlb hlc (lenA + lenB)
    startA startB startC h hca hcb hcc (by omega) (by omega) (by omega) rfl la lb rc
  apply SafeF.bind' r
  intro r' h1 ⟨e, sb, ra, lc⟩ _
  subst e
  simp only
  rw [if_neg (by simp)]
  exact s h1 sb ra lc

end DS.Life.Kll

/- The KLL model against the ground truth of a history: n, extremes, provenance of retained items, exact mode. -/
import DSProofs.Lemmas.KllHist
namespace DS.Kll
open DS DS.SortedView

variable {α : Type}

theorem _root_.DS.SortedView.StrictWeak.irrefl {lt : α → α → Bool} (sw : StrictWeak lt) (a : α) : lt a a = false := by
  cases h : lt a a with
  | false => rfl
  | true => have := sw.asymm a a h; rw [h] at this; exact this

theorem _root_.DS.SortedView.StrictWeak.trans {lt : α → α → Bool} (sw : StrictWeak lt) {a b c : α} (h1 : lt a b = true) (h2 : lt b c = true) :
    lt a c = true := by
  cases h : lt a c with
  | true => rfl
  | false =>
    have h3 := sw.asymm b c h2
    have := sw.negTrans a c b h h3
    rw [h1] at this; exact absurd this (by simp)

def IsMin (lt : α → α → Bool) (m : Option α) (inp : List α) : Prop :=
  match m with
  | none => inp = []
  | some a => a ∈ inp ∧ ∀ x ∈ inp, lt x a = false

def IsMax (lt : α → α → Bool) (m : Option α) (inp : List α) : Prop :=
  match m with
  | none => inp = []
  | some a => a ∈ inp ∧ ∀ x ∈ inp, lt a x = false

structure InvT (c : Cmp α) (s : Sketch α) (inp : List α) : Prop where
  n_eq : s.n = inp.length
  mem : ∀ x ∈ s.levels.flatten, x ∈ inp
  min_ok : IsMin c.lt s.minItem inp
  max_ok : IsMax c.lt s.maxItem inp
  exact : s.levels.length = 1 → (s.levels.headD []).Perm inp

theorem init_invT (c : Cmp α) (k : Nat) : InvT c (init k : Sketch α) [] :=
  ⟨rfl, by simp [init], rfl, rfl, by simp [init]⟩

/-! ### provenance: compaction never invents items -/

theorem mem_flatten_iff_getD {L : List (List α)} {y : α} : y ∈ L.flatten ↔ ∃ i, y ∈ L.getD i [] := by
  constructor
  · intro h
    obtain ⟨l, hl, hy⟩ := List.mem_flatten.mp h
    obtain ⟨i, hi, rfl⟩ := List.getElem_of_mem hl
    exact ⟨i, by rw [List.getD_eq_getElem?_getD, List.getElem?_eq_getElem hi]; exact hy⟩
  · rintro ⟨i, hy⟩
    rw [List.getD_eq_getElem?_getD] at hy
    cases h : L[i]? with
    | none => rw [h] at hy; simp at hy
    | some l =>
      rw [h] at hy
      exact List.mem_flatten.mpr ⟨l, List.mem_of_getElem? h, hy⟩

theorem mem_newAbove {lt : α → α → Bool} {srt c : Bool} {cur above : List α} {y : α}
    (h : y ∈ newAbove lt srt c cur above) : y ∈ cur ∨ y ∈ above := by
  unfold newAbove at h
  rcases mem_mergeUp.mp h with h1 | h1
  · left
    have := (halfOf_sublist _ above c).subset h1
    exact (mem_leftoverOf_or_adjOf (lt := lt) (srt := srt)).mpr (Or.inr this)
  · exact Or.inr h1

theorem mem_compactAt {lt : α → α → Bool} {srt c : Bool} {lvl : Nat} {L : List (List α)} (hl : lvl + 1 < L.length)
    {y : α} (h : y ∈ (compactAt lt srt c lvl L).flatten) : y ∈ L.flatten := by
  obtain ⟨i, hi⟩ := mem_flatten_iff_getD.mp h
  by_cases h1 : i = lvl
  · subst h1; rw [compactAt_getD_self _ _ _ _ _ hl] at hi
    exact mem_flatten_iff_getD.mpr ⟨i, (leftoverOf_sublist _).subset hi⟩
  · by_cases h2 : i = lvl + 1
    · subst h2; rw [compactAt_getD_above _ _ _ _ _ hl] at hi
      rcases mem_newAbove hi with h3 | h3
      · exact mem_flatten_iff_getD.mpr ⟨lvl, h3⟩
      · exact mem_flatten_iff_getD.mpr ⟨lvl + 1, h3⟩
    · rw [compactAt_getD_other _ _ _ _ _ _ h1 h2] at hi
      exact mem_flatten_iff_getD.mpr ⟨i, hi⟩

/-- `compress` in closed form -/
theorem compress_eq (P : Params) (c : Cmp α) (s : Sketch α) (coin : Bool) :
    let lvl := findLevel P s.k s.levels.length s.levels 0
    compress P c s coin =
      if lvl ≥ s.levels.length then s
      else if lvl + 1 = s.levels.length then
        { s with levels := compactAt c.lt (lvl == 0 && !s.sorted0) coin lvl (s.levels ++ [[]]),
                 itemsSize := s.itemsSize + levelCapacity P s.k (s.levels.length + 1) 0 }
      else { s with levels := compactAt c.lt (lvl == 0 && !s.sorted0) coin lvl s.levels } := by
  intro lvl
  unfold compress
  simp only [Sketch.numLevels]
  by_cases h1 : findLevel P s.k s.levels.length s.levels 0 ≥ s.levels.length
  · simp only [h1, if_true, lvl]
  · by_cases h2 : findLevel P s.k s.levels.length s.levels 0 + 1 = s.levels.length
    · simp only [h1, if_false, h2, BEq.rfl, if_true, addTop, Sketch.numLevels, lvl]
    · have h2' : (findLevel P s.k s.levels.length s.levels 0 + 1 == s.levels.length) = false := by simpa using h2
      simp only [h1, if_false, h2, h2', Bool.false_eq_true, lvl]

theorem mem_compress {P : Params} {c : Cmp α} {s : Sketch α} {coin : Bool} {y : α}
    (h : y ∈ (compress P c s coin).levels.flatten) : y ∈ s.levels.flatten := by
  rw [compress_eq] at h
  split at h
  · exact h
  · rename_i h1
    split at h
    · rename_i h2
      have := mem_compactAt (by simp only [List.length_append, List.length_singleton]; omega) h
      simpa using this
    · exact mem_compactAt (by omega) h

theorem compress_length_ge (P : Params) (c : Cmp α) (s : Sketch α) (coin : Bool) :
    s.levels.length ≤ (compress P c s coin).levels.length := by
  rw [compress_eq]
  split
  · exact Nat.le_refl _
  · split
    · simp [compactAt_length]
    · simp [compactAt_length]

theorem compress_minmax (P : Params) (c : Cmp α) (s : Sketch α) (coin : Bool) :
    (compress P c s coin).minItem = s.minItem ∧ (compress P c s coin).maxItem = s.maxItem := by
  rw [compress_eq]
  split
  · exact ⟨rfl, rfl⟩
  · split <;> exact ⟨rfl, rfl⟩

theorem mem_push {s : Sketch α} {x y : α} (hne : s.levels ≠ []) (h : y ∈ (push s x).levels.flatten) :
    y = x ∨ y ∈ s.levels.flatten := by
  cases hs : s.levels with
  | nil => exact absurd hs hne
  | cons a b =>
    simp only [push, hs, List.headD_cons, List.tail_cons, List.flatten_cons, List.mem_append, List.mem_cons] at h ⊢
    rcases h with (h | h) | h
    · exact Or.inl h
    · exact Or.inr (Or.inl h)
    · exact Or.inr (Or.inr h)

/-- what one `internal_update` does to provenance and to the exact (single level) state -/
theorem internalUpdateT_prov {P : Params} (ok : ParamsOk P) {c : Cmp α} (sw : StrictWeak c.lt) {s : Sketch α}
    (h : InvS P c.lt s) (x : α) :
    CT.All (fun s' => (∀ y ∈ s'.levels.flatten, y = x ∨ y ∈ s.levels.flatten) ∧ s.levels.length ≤ s'.levels.length ∧
              (s'.levels.length = 1 → s'.levels.headD [] = x :: s.levels.headD []) ∧
              s'.minItem = s.minItem ∧ s'.maxItem = s.maxItem) (internalUpdateT P c s x) := by
  unfold internalUpdateT
  by_cases hf : s.full = true
  · simp only [hf, if_true, CT.All_flip, CT.All_ret]
    intro coin
    have hfull : sizeSum s.levels = s.itemsSize := by simpa [Sketch.full, Sketch.retained] using hf
    obtain ⟨hi, _, _, _, h2⟩ := compress_inv ok sw h hfull coin
    refine ⟨?_, ?_, ?_, ?_, ?_⟩
    · intro y hy
      rcases mem_push hi.ne hy with h1 | h1
      · exact Or.inl h1
      · exact Or.inr (mem_compress h1)
    · have := compress_length_ge P c s coin
      simp only [push, List.length_cons, List.length_tail]
      omega
    · intro h1
      simp only [push, List.length_cons, List.length_tail] at h1
      omega
    · simp only [push]; exact (compress_minmax P c s coin).1
    · simp only [push]; exact (compress_minmax P c s coin).2
  · simp only [hf, Bool.false_eq_true, if_false, CT.All_ret]
    refine ⟨fun y hy => mem_push h.ne hy, ?_, fun _ => by simp [push], rfl, rfl⟩
    simp only [push, List.length_cons, List.length_tail]
    have := List.length_pos_iff.mpr h.ne; omega

/-! ### extremes -/

theorem updMin_isMin {lt : α → α → Bool} (sw : StrictWeak lt) {m : Option α} {inp : List α} (x : α)
    (h : IsMin lt m inp) : IsMin lt (updMin ⟨lt, fun _ => false⟩ m x) (x :: inp) := by
  cases m with
  | none => simp only [IsMin] at h; subst h; simp [updMin, IsMin, sw.irrefl]
  | some a =>
    obtain ⟨ha, hall⟩ := h
    simp only [updMin]
    by_cases hx : lt x a = true
    · rw [if_pos hx]
      simp only [IsMin, List.mem_cons, true_or, true_and]
      intro y hy
      rcases hy with rfl | hy
      · exact sw.irrefl _
      · cases hyx : lt y x with
        | false => rfl
        | true => have := sw.trans hyx hx; rw [hall y hy] at this; exact absurd this (by simp)
    · rw [if_neg hx]
      simp only [IsMin, List.mem_cons]
      refine ⟨Or.inr ha, ?_⟩
      intro y hy
      rcases hy with rfl | hy
      · simpa using hx
      · exact hall y hy

theorem updMax_isMax {lt : α → α → Bool} (sw : StrictWeak lt) {m : Option α} {inp : List α} (x : α)
    (h : IsMax lt m inp) : IsMax lt (updMax ⟨lt, fun _ => false⟩ m x) (x :: inp) := by
  cases m with
  | none => simp only [IsMax] at h; subst h; simp [updMax, IsMax, sw.irrefl]
  | some a =>
    obtain ⟨ha, hall⟩ := h
    simp only [updMax]
    by_cases hx : lt a x = true
    · rw [if_pos hx]
      simp only [IsMax, List.mem_cons, true_or, true_and]
      intro y hy
      rcases hy with rfl | hy
      · exact sw.irrefl _
      · cases hyx : lt x y with
        | false => rfl
        | true => have := sw.trans hx hyx; rw [hall y hy] at this; exact absurd this (by simp)
    · rw [if_neg hx]
      simp only [IsMax, List.mem_cons]
      refine ⟨Or.inr ha, ?_⟩
      intro y hy
      rcases hy with rfl | hy
      · simpa using hx
      · exact hall y hy

theorem updMin_cmp (c : Cmp α) (m : Option α) (x : α) : updMin c m x = updMin ⟨c.lt, fun _ => false⟩ m x := by
  cases m <;> rfl
theorem updMax_cmp (c : Cmp α) (m : Option α) (x : α) : updMax c m x = updMax ⟨c.lt, fun _ => false⟩ m x := by
  cases m <;> rfl

/-- the minimum of a concatenation from the minima of the parts -/
theorem isMin_append {lt : α → α → Bool} (sw : StrictWeak lt) {a : α} {m : Option α} {ia ib : List α}
    (ha : IsMin lt (some a) ia) (hb : IsMin lt m ib) : IsMin lt (updMin ⟨lt, fun _ => false⟩ m a) (ia ++ ib) := by
  obtain ⟨hai, haall⟩ := ha
  cases m with
  | none =>
    simp only [IsMin] at hb; subst hb
    simp only [updMin, IsMin, List.append_nil]; exact ⟨hai, haall⟩
  | some b =>
    obtain ⟨hbi, hball⟩ := hb
    simp only [updMin]
    by_cases hx : lt a b = true
    · rw [if_pos hx]
      simp only [IsMin, List.mem_append]
      refine ⟨Or.inl hai, ?_⟩
      intro y hy
      rcases hy with hy | hy
      · exact haall y hy
      · cases hyx : lt y a with
        | false => rfl
        | true => have := sw.trans hyx hx; rw [hball y hy] at this; exact absurd this (by simp)
    · rw [if_neg hx]
      simp only [IsMin, List.mem_append]
      refine ⟨Or.inr hbi, ?_⟩
      intro y hy
      rcases hy with hy | hy
      · exact sw.negTrans y a b (haall y hy) (by simpa using hx)
      · exact hball y hy

theorem isMax_append {lt : α → α → Bool} (sw : StrictWeak lt) {a : α} {m : Option α} {ia ib : List α}
    (ha : IsMax lt (some a) ia) (hb : IsMax lt m ib) : IsMax lt (updMax ⟨lt, fun _ => false⟩ m a) (ia ++ ib) := by
  obtain ⟨hai, haall⟩ := ha
  cases m with
  | none =>
    simp only [IsMax] at hb; subst hb
    simp only [updMax, IsMax, List.append_nil]; exact ⟨hai, haall⟩
  | some b =>
    obtain ⟨hbi, hball⟩ := hb
    simp only [updMax]
    by_cases hx : lt b a = true
    · rw [if_pos hx]
      simp only [IsMax, List.mem_append]
      refine ⟨Or.inl hai, ?_⟩
      intro y hy
      rcases hy with hy | hy
      · exact haall y hy
      · cases hyx : lt a y with
        | false => rfl
        | true => have := sw.trans hx hyx; rw [hball y hy] at this; exact absurd this (by simp)
    · rw [if_neg hx]
      simp only [IsMax, List.mem_append]
      refine ⟨Or.inr hbi, ?_⟩
      intro y hy
      rcases hy with hy | hy
      · exact sw.negTrans b a y (by simpa using hx) (haall y hy)
      · exact hball y hy

end DS.Kll

/- One-step PPS identities (C18): the expected inclusion of every item over the unit draw of `mergeSample`
(region lengths of the draw) equals the sum of the inclusions in the two merged samples. -/
import DSProofs.Lemmas.EbppsHist
namespace DS.Ebpps

variable {P : Nat → Prop}

/-- Probability that `get_result()` returns (an occurrence of) `x`, given the sample: 1 for every full item, `frac c` for
the partial item (the length of the region `{u : u < frac c}` of the draw in `get_sample`). -/
def incl (s : Sample Rat) (x : Nat) : Rat :=
  (s.data.count x : Rat) + (if s.part = some x then s.c - ((s.c.floor : Int) : Rat) else 0)

theorem count_pushOpt_some (l : List Nat) (p x : Nat) :
    ((pushOpt l (some p)).count x : Rat) = (l.count x : Rat) + (if some p = some x then 1 else 0) := by
  unfold pushOpt
  simp only [Option.toList_some, List.count_append, List.count_singleton, Option.some.injEq, Nat.cast_add]
  by_cases h : p = x
  · simp [h]
  · simp [h]

/-- `mergeSample`: there is a threshold `t ∈ [0,1]` such that every draw below `t` yields the sample `A`, every draw above
`t` yields `B` (the two regions have lengths `t` and `1 - t`), and for every item the expected inclusion
`t·incl A + (1-t)·incl B` is the sum of its inclusions in the two inputs.  For `o = replaceContent item theta` this says:
the new item enters with probability `theta` and no resident item's inclusion changes in the merge. -/
theorem merge_pps {ge : Bool} {s o : Sample Rat} (hs : SInv P s) (ho : SInv P o) :
    ∃ (t : Rat) (A B : Sample Rat), 0 ≤ t ∧ t ≤ 1 ∧
      (∀ d : Draws Rat, d.unit.1 < t → (mergeSample ge s o d).1 = A) ∧
      (∀ d : Draws Rat, t < d.unit.1 → (mergeSample ge s o d).1 = B) ∧
      ∀ x, t * incl A x + (1 - t) * incl B x = incl s x + incl o x := by
  obtain ⟨hc, hl, hp, -, -⟩ := hs
  obtain ⟨oc, ol, op, -, -⟩ := ho
  have a1 := fl_le s.c
  have a2 := lt_fl_add_one s.c
  have b1 := fl_le o.c
  have b2 := lt_fl_add_one o.c
  have hcnt : ∀ x, (((s.data ++ o.data).count x : Nat) : Rat) = (s.data.count x : Rat) + (o.data.count x : Rat) := by
    intro x; simp [List.count_append]
  by_cases h1 : s.c - ↑s.c.floor = 0 ∧ o.c - ↑o.c.floor = 0
  · -- both integral: no draw, no partial item
    have hsn : s.part = none := by
      cases hh : s.part with
      | none => rfl
      | some p => have := hp.1 (by rw [hh]; rfl); linarith [h1.1]
    have hon : o.part = none := by
      cases hh : o.part with
      | none => rfl
      | some p => have := op.1 (by rw [hh]; rfl); linarith [h1.2]
    have e : ∀ d : Draws Rat, (mergeSample ge s o d).1 = ⟨s.c + o.c, s.data ++ o.data, none⟩ := by
      intro d; rw [mergeSample_eq]
      simp only [rat_eq, rat_zero, rat_floor, Bool.and_eq_true, decide_eq_true_eq, h1, and_self, if_true]
    refine ⟨0, _, _, le_refl _, zero_le_one, fun d _ => e d, fun d _ => e d, ?_⟩
    intro x
    simp only [incl, hsn, hon, hcnt]
    simp
  · have hnz : 0 < (s.c - ↑s.c.floor) + (o.c - ↑o.c.floor) := by
      rcases lt_or_eq_of_le (by linarith : 0 ≤ s.c - ↑s.c.floor) with h | h
      · linarith
      · rcases lt_or_eq_of_le (by linarith : 0 ≤ o.c - ↑o.c.floor) with h' | h'
        · linarith
        · exact absurd ⟨h.symm, h'.symm⟩ h1
    by_cases h2 : s.c - ↑s.c.floor + (o.c - ↑o.c.floor) = 1 ∨ s.c + o.c = ↑(s.c + o.c).floor
    · have hsum : s.c - ↑s.c.floor + (o.c - ↑o.c.floor) = 1 := by
        rcases h2 with h | h
        · exact h
        · have e1 : ((s.c + o.c).floor : Rat) - s.c.floor - o.c.floor = (s.c - ↑s.c.floor) + (o.c - ↑o.c.floor) := by
            rw [← h]; ring
          have e2 : (((s.c + o.c).floor - s.c.floor - o.c.floor : Int) : Rat) = (s.c - ↑s.c.floor) + (o.c - ↑o.c.floor) := by
            push_cast; exact e1
          have lo : (0 : Rat) < (((s.c + o.c).floor - s.c.floor - o.c.floor : Int) : Rat) := by rw [e2]; exact hnz
          have hi : (((s.c + o.c).floor - s.c.floor - o.c.floor : Int) : Rat) < 2 := by rw [e2]; linarith
          have lo' : (0 : Int) < (s.c + o.c).floor - s.c.floor - o.c.floor := by exact_mod_cast lo
          have hi' : (s.c + o.c).floor - s.c.floor - o.c.floor < (2 : Int) := by exact_mod_cast hi
          have : (s.c + o.c).floor - s.c.floor - o.c.floor = 1 := by omega
          rw [← e2, this]; norm_num
      have hfl : (s.c + o.c).floor = s.c.floor + o.c.floor + 1 :=
        floor_eq_iff'.2 ⟨by push_cast; linarith, by push_cast; linarith⟩
      obtain ⟨p, hsp⟩ : ∃ p, s.part = some p := Option.isSome_iff_exists.1 (hp.2 (by linarith))
      obtain ⟨q, hoq⟩ : ∃ q, o.part = some q := Option.isSome_iff_exists.1 (op.2 (by linarith))
      refine ⟨s.c - ↑s.c.floor, ⟨s.c + o.c, pushOpt (s.data ++ o.data) s.part, none⟩,
        ⟨s.c + o.c, pushOpt (s.data ++ o.data) o.part, none⟩, by linarith, by linarith, ?_, ?_, ?_⟩
      · intro d hd
        rw [mergeSample_eq]
        simp only [rat_eq, rat_zero, rat_one, rat_floor, rat_le, Bool.and_eq_true, Bool.or_eq_true, decide_eq_true_eq,
          h1, if_false, h2, if_true, le_of_lt hd]
      · intro d hd
        rw [mergeSample_eq]
        simp only [rat_eq, rat_zero, rat_one, rat_floor, rat_le, Bool.and_eq_true, Bool.or_eq_true, decide_eq_true_eq,
          h1, if_false, h2, if_true, not_le.2 hd]
      · intro x
        simp only [incl, hsp, hoq, count_pushOpt_some, hcnt]
        simp only [reduceCtorEq, if_false, add_zero]
        by_cases hpx : p = x <;> by_cases hqx : q = x <;> simp [hpx, hqx] <;> linarith
    · rw [not_or] at h2
      by_cases h3 : s.c - ↑s.c.floor + (o.c - ↑o.c.floor) < 1
      · have hfl : (s.c + o.c).floor = s.c.floor + o.c.floor :=
          floor_eq_iff'.2 ⟨by push_cast; linarith, by push_cast; linarith⟩
        have hsum_ne : s.c - ↑s.c.floor + (o.c - ↑o.c.floor) ≠ 0 := ne_of_gt hnz
        refine ⟨(s.c - ↑s.c.floor) / (s.c - ↑s.c.floor + (o.c - ↑o.c.floor)), ⟨s.c + o.c, s.data ++ o.data, s.part⟩,
          ⟨s.c + o.c, s.data ++ o.data, o.part⟩, div_nonneg (by linarith) (le_of_lt hnz),
          (div_le_one hnz).2 (by linarith), ?_, ?_, ?_⟩
        · intro d hd
          rw [mergeSample_eq]
          have hna : drawAbove ge d.unit.1 ((s.c - ↑s.c.floor) / (s.c - ↑s.c.floor + (o.c - ↑o.c.floor))) = false := by
            unfold drawAbove; cases ge <;> simp <;> linarith
          simp only [rat_eq, rat_zero, rat_one, rat_floor, rat_lt, Bool.and_eq_true, Bool.or_eq_true, decide_eq_true_eq,
            h1, if_false, h2.1, h2.2, or_self, h3, if_true, hna, Bool.false_eq_true]
        · intro d hd
          rw [mergeSample_eq]
          have hab : drawAbove ge d.unit.1 ((s.c - ↑s.c.floor) / (s.c - ↑s.c.floor + (o.c - ↑o.c.floor))) = true := by
            unfold drawAbove; cases ge <;> simp <;> linarith
          simp only [rat_eq, rat_zero, rat_one, rat_floor, rat_lt, Bool.and_eq_true, Bool.or_eq_true, decide_eq_true_eq,
            h1, if_false, h2.1, h2.2, or_self, h3, if_true, hab]
        · intro x
          simp only [incl, hcnt, hfl]
          have hfr : s.c + o.c - ((s.c.floor + o.c.floor : Int) : Rat) = (s.c - ↑s.c.floor) + (o.c - ↑o.c.floor) := by
            push_cast; ring
          rw [hfr]
          -- a missing partial item has fraction 0
          have hs0 : s.part = none → s.c - ↑s.c.floor = 0 := by
            intro hn
            by_contra hne
            have : s.part.isSome := hp.2 (by
              rcases lt_or_eq_of_le (by linarith : 0 ≤ s.c - ↑s.c.floor) with h | h
              · linarith
              · exact absurd h.symm hne)
            rw [hn] at this; simp at this
          have ho0 : o.part = none → o.c - ↑o.c.floor = 0 := by
            intro hn
            by_contra hne
            have : o.part.isSome := op.2 (by
              rcases lt_or_eq_of_le (by linarith : 0 ≤ o.c - ↑o.c.floor) with h | h
              · linarith
              · exact absurd h.symm hne)
            rw [hn] at this; simp at this
          set cf := s.c - ↑s.c.floor with hcf
          set cg := o.c - ↑o.c.floor with hcg
          have key1 : cf / (cf + cg) * (cf + cg) = cf := div_mul_cancel₀ _ hsum_ne
          have key2 : (1 - cf / (cf + cg)) * (cf + cg) = cg := by
            have : (1 - cf / (cf + cg)) * (cf + cg) = (cf + cg) - cf / (cf + cg) * (cf + cg) := by ring
            rw [this, key1]; ring
          by_cases hsx : s.part = some x <;> by_cases hox : o.part = some x
          · simp only [hsx, hox, if_true]
            have : cf / (cf + cg) * (↑(List.count x s.data) + ↑(List.count x o.data) + (cf + cg)) +
                (1 - cf / (cf + cg)) * (↑(List.count x s.data) + ↑(List.count x o.data) + (cf + cg)) =
                ↑(List.count x s.data) + ↑(List.count x o.data) + (cf + cg) := by ring
            rw [this]; ring
          · simp only [hsx, hox, if_true, if_false, add_zero]
            have : cf / (cf + cg) * (↑(List.count x s.data) + ↑(List.count x o.data) + (cf + cg)) +
                (1 - cf / (cf + cg)) * (↑(List.count x s.data) + ↑(List.count x o.data)) =
                ↑(List.count x s.data) + ↑(List.count x o.data) + cf / (cf + cg) * (cf + cg) := by ring
            rw [this, key1]; ring
          · simp only [hsx, hox, if_true, if_false, add_zero]
            have : cf / (cf + cg) * (↑(List.count x s.data) + ↑(List.count x o.data)) +
                (1 - cf / (cf + cg)) * (↑(List.count x s.data) + ↑(List.count x o.data) + (cf + cg)) =
                ↑(List.count x s.data) + ↑(List.count x o.data) + (1 - cf / (cf + cg)) * (cf + cg) := by ring
            rw [this, key2]; ring
          · simp only [hsx, hox, if_false, add_zero]; ring
      · have hgt : 1 < s.c - ↑s.c.floor + (o.c - ↑o.c.floor) := by
          rcases lt_or_eq_of_le (not_lt.1 h3) with h | h
          · exact h
          · exact absurd h.symm h2.1
        have hfl : (s.c + o.c).floor = s.c.floor + o.c.floor + 1 :=
          floor_eq_iff'.2 ⟨by push_cast; linarith, by push_cast; linarith⟩
        obtain ⟨p, hsp⟩ : ∃ p, s.part = some p := Option.isSome_iff_exists.1 (hp.2 (by linarith))
        obtain ⟨q, hoq⟩ : ∃ q, o.part = some q := Option.isSome_iff_exists.1 (op.2 (by linarith))
        set cf := s.c - ↑s.c.floor with hcf
        set cg := o.c - ↑o.c.floor with hcg
        have hden : 0 < (1 - cf) + (1 - cg) := by linarith
        refine ⟨(1 - cf) / ((1 - cf) + (1 - cg)), ⟨s.c + o.c, pushOpt (s.data ++ o.data) o.part, s.part⟩,
          ⟨s.c + o.c, pushOpt (s.data ++ o.data) s.part, o.part⟩, div_nonneg (by linarith) (le_of_lt hden),
          (div_le_one hden).2 (by linarith), ?_, ?_, ?_⟩
        · intro d hd
          rw [mergeSample_eq]
          simp only [rat_eq, rat_zero, rat_one, rat_floor, rat_lt, rat_le, Bool.and_eq_true, Bool.or_eq_true, decide_eq_true_eq,
            ← hcf, ← hcg, h1, if_false, h2.1, h2.2, or_self, h3, le_of_lt hd, if_true]
        · intro d hd
          rw [mergeSample_eq]
          simp only [rat_eq, rat_zero, rat_one, rat_floor, rat_lt, rat_le, Bool.and_eq_true, Bool.or_eq_true, decide_eq_true_eq,
            ← hcf, ← hcg, h1, if_false, h2.1, h2.2, or_self, h3, not_le.2 hd]
        · intro x
          simp only [incl, hsp, hoq, count_pushOpt_some, hcnt, hfl]
          have hfr : s.c + o.c - ((s.c.floor + o.c.floor + 1 : Int) : Rat) = cf + cg - 1 := by
            rw [hcf, hcg]; push_cast; ring
          rw [hfr]
          have key1 : (1 - cf) / ((1 - cf) + (1 - cg)) * ((1 - cf) + (1 - cg)) = 1 - cf := div_mul_cancel₀ _ (ne_of_gt hden)
          set t := (1 - cf) / ((1 - cf) + (1 - cg)) with ht
          have kt : t * (2 - cf - cg) = 1 - cf := by rw [← key1]; ring
          by_cases hpx : p = x <;> by_cases hqx : q = x
          · subst hpx; subst hqx; simp only [if_true]; nlinarith [kt]
          · subst hpx
            have hq' : ¬ (some q = some p) := by simpa using hqx
            simp only [hq', if_true, if_false, add_zero]; nlinarith [kt]
          · subst hqx
            have hp' : ¬ (some p = some q) := by simpa using hpx
            simp only [hp', if_true, if_false, add_zero]; nlinarith [kt]
          · have hp' : ¬ (some p = some x) := by simpa using hpx
            have hq' : ¬ (some q = some x) := by simpa using hqx
            simp only [hp', hq', if_false, add_zero]; ring

/-- inclusion in a one-item sample: the new item with probability `theta`, nothing else -/
theorem incl_replaceContent (item : Nat) {theta : Rat} (h0 : 0 < theta) (h1 : theta ≤ 1) (x : Nat) :
    incl (replaceContent item theta) x = if x = item then theta else 0 := by
  unfold replaceContent incl
  simp only [rat_eq, rat_one, decide_eq_true_eq]
  by_cases h : theta = 1
  · rw [if_pos h]
    by_cases hx : x = item
    · subst hx; simp [h]
    · have : ¬ (item = x) := fun e => hx e.symm
      simp [hx, this]
  · rw [if_neg h]
    have hlt : theta < 1 := lt_of_le_of_ne h1 h
    have hf : (theta).floor = 0 := floor_eq_iff'.2 ⟨by simpa using le_of_lt h0, by simpa using hlt⟩
    by_cases hx : x = item
    · subst hx; simp [hf]
    · have : ¬ (item = x) := fun e => hx e.symm
      simp [hx, this]

end DS.Ebpps

/- L2 HLL_6 array: 6-bit fields over byte pairs; get/put lemmas (helper lemmas for Props/C03.lean `hll6_refines`). -/
import DSModel.Hll.Array6
import DSProofs.Lemmas.HllArrays
namespace DS.Hll

/-- `get6` / `put6` on a byte FUNCTION (index -> byte), to keep array bounds out of the arithmetic -/
def get6f (f : Nat → Nat) (slot : Nat) : Nat :=
  ((f (slot * 6 / 8 + 1) * 256 + f (slot * 6 / 8)) / 2^(slot * 6 % 8)) % 64

def put6f (f : Nat → Nat) (slot v : Nat) : Nat → Nat :=
  fun j =>
    if j = slot * 6 / 8 + 1 then
      (((f (slot * 6 / 8 + 1) * 256 + f (slot * 6 / 8)) -
        (((f (slot * 6 / 8 + 1) * 256 + f (slot * 6 / 8)) / 2^(slot * 6 % 8)) % 64) * 2^(slot * 6 % 8) + (v % 64) * 2^(slot * 6 % 8)) / 256) % 256
    else if j = slot * 6 / 8 then
      ((f (slot * 6 / 8 + 1) * 256 + f (slot * 6 / 8)) -
        (((f (slot * 6 / 8 + 1) * 256 + f (slot * 6 / 8)) / 2^(slot * 6 % 8)) % 64) * 2^(slot * 6 % 8) + (v % 64) * 2^(slot * 6 % 8)) % 256
    else f j

theorem idx4a (q : Nat) : (4 * q + 4) * 6 / 8 = 3 * q + 3 := by omega
theorem idx4b (q : Nat) : (4 * q + 4) * 6 % 8 = 0 := by omega
theorem idx5a (q : Nat) : (4 * q + 5) * 6 / 8 = 3 * q + 3 := by omega
theorem idx5b (q : Nat) : (4 * q + 5) * 6 % 8 = 6 := by omega
theorem idx6a (q : Nat) : (4 * q + 6) * 6 / 8 = 3 * q + 4 := by omega
theorem idx6b (q : Nat) : (4 * q + 6) * 6 % 8 = 4 := by omega
theorem idx7a (q : Nat) : (4 * q + 7) * 6 / 8 = 3 * q + 5 := by omega
theorem idx7b (q : Nat) : (4 * q + 7) * 6 % 8 = 2 := by omega
theorem idx0a' (q : Nat) : 4 * q * 6 / 8 = 3 * q := by omega
theorem idx0b' (q : Nat) : 4 * q * 6 % 8 = 0 := by omega
theorem idx0a (q : Nat) : (4 * q + 0) * 6 / 8 = 3 * q + 0 := by omega
theorem idx0b (q : Nat) : (4 * q + 0) * 6 % 8 = 0 := by omega
theorem idx1a (q : Nat) : (4 * q + 1) * 6 / 8 = 3 * q + 0 := by omega
theorem idx1b (q : Nat) : (4 * q + 1) * 6 % 8 = 6 := by omega
theorem idx2a (q : Nat) : (4 * q + 2) * 6 / 8 = 3 * q + 1 := by omega
theorem idx2b (q : Nat) : (4 * q + 2) * 6 % 8 = 4 := by omega
theorem idx3a (q : Nat) : (4 * q + 3) * 6 / 8 = 3 * q + 2 := by omega
theorem idx3b (q : Nat) : (4 * q + 3) * 6 % 8 = 2 := by omega

theorem g6_00 (f : Nat → Nat) (hf : ∀ j, f j < 256) (q q' v : Nat) :
    get6f (put6f f (4 * q + 0) v) (4 * q' + 0) = if 4 * q' + 0 = 4 * q + 0 then v % 64 else get6f f (4 * q' + 0) := by
  have hz := hf (3 * q); have hz' := hf (3 * q')
  have := hf (3 * q + 0)
  have := hf (3 * q + 1)
  have := hf (3 * q + 2)
  have := hf (3 * q + 3)
  have := hf (3 * q + 4)
  have := hf (3 * q + 5)
  have := hf (3 * q + 6)
  have := hf (3 * q + 7)
  have := hf (3 * q' + 0)
  have := hf (3 * q' + 1)
  have := hf (3 * q' + 2)
  have := hf (3 * q' + 3)
  have := hf (3 * q' + 4)
  have := hf (3 * q' + 5)
  have := hf (3 * q' + 6)
  have := hf (3 * q' + 7)
  by_cases e1 : q' = q
  · subst e1
    simp only [get6f, put6f, idx0a', idx0b', idx0a, idx0b, idx1a, idx1b, idx2a, idx2b, idx3a, idx3b, idx4a, idx4b, idx5a, idx5b, idx6a, idx6b, idx7a, idx7b, Nat.mul_add, Nat.add_assoc, Nat.reduceAdd, Nat.reduceMul, Nat.reducePow, Nat.add_zero]
    repeat' split
    all_goals omega
  · by_cases e2 : q' = q + 1
    · subst e2
      simp only [get6f, put6f, idx0a', idx0b', idx0a, idx0b, idx1a, idx1b, idx2a, idx2b, idx3a, idx3b, idx4a, idx4b, idx5a, idx5b, idx6a, idx6b, idx7a, idx7b, Nat.mul_add, Nat.add_assoc, Nat.reduceAdd, Nat.reduceMul, Nat.reducePow, Nat.add_zero]
      repeat' split
      all_goals omega
    · by_cases e3 : q = q' + 1
      · subst e3
        simp only [get6f, put6f, idx0a', idx0b', idx0a, idx0b, idx1a, idx1b, idx2a, idx2b, idx3a, idx3b, idx4a, idx4b, idx5a, idx5b, idx6a, idx6b, idx7a, idx7b, Nat.mul_add, Nat.add_assoc, Nat.reduceAdd, Nat.reduceMul, Nat.reducePow, Nat.add_zero]
        repeat' split
        all_goals omega
      · simp only [get6f, put6f, idx0a', idx0b', idx0a, idx0b, idx1a, idx1b, idx2a, idx2b, idx3a, idx3b, idx4a, idx4b, idx5a, idx5b, idx6a, idx6b, idx7a, idx7b, Nat.mul_add, Nat.add_assoc, Nat.reduceAdd, Nat.reduceMul, Nat.reducePow, Nat.add_zero]
        repeat' split
        all_goals omega

theorem g6_01 (f : Nat → Nat) (hf : ∀ j, f j < 256) (q q' v : Nat) :
    get6f (put6f f (4 * q + 0) v) (4 * q' + 1) = if 4 * q' + 1 = 4 * q + 0 then v % 64 else get6f f (4 * q' + 1) := by
  have hz := hf (3 * q); have hz' := hf (3 * q')
  have := hf (3 * q + 0)
  have := hf (3 * q + 1)
  have := hf (3 * q + 2)
  have := hf (3 * q + 3)
  have := hf (3 * q + 4)
  have := hf (3 * q + 5)
  have := hf (3 * q + 6)
  have := hf (3 * q + 7)
  have := hf (3 * q' + 0)
  have := hf (3 * q' + 1)
  have := hf (3 * q' + 2)
  have := hf (3 * q' + 3)
  have := hf (3 * q' + 4)
  have := hf (3 * q' + 5)
  have := hf (3 * q' + 6)
  have := hf (3 * q' + 7)
  by_cases e1 : q' = q
  · subst e1
    simp only [get6f, put6f, idx0a', idx0b', idx0a, idx0b, idx1a, idx1b, idx2a, idx2b, idx3a, idx3b, idx4a, idx4b, idx5a, idx5b, idx6a, idx6b, idx7a, idx7b, Nat.mul_add, Nat.add_assoc, Nat.reduceAdd, Nat.reduceMul, Nat.reducePow, Nat.add_zero]
    repeat' split
    all_goals omega
  · by_cases e2 : q' = q + 1
    · subst e2
      simp only [get6f, put6f, idx0a', idx0b', idx0a, idx0b, idx1a, idx1b, idx2a, idx2b, idx3a, idx3b, idx4a, idx4b, idx5a, idx5b, idx6a, idx6b, idx7a, idx7b, Nat.mul_add, Nat.add_assoc, Nat.reduceAdd, Nat.reduceMul, Nat.reducePow, Nat.add_zero]
      repeat' split
      all_goals omega
    · by_cases e3 : q = q' + 1
      · subst e3
        simp only [get6f, put6f, idx0a', idx0b', idx0a, idx0b, idx1a, idx1b, idx2a, idx2b, idx3a, idx3b, idx4a, idx4b, idx5a, idx5b, idx6a, idx6b, idx7a, idx7b, Nat.mul_add, Nat.add_assoc, Nat.reduceAdd, Nat.reduceMul, Nat.reducePow, Nat.add_zero]
        repeat' split
        all_goals omega
      · simp only [get6f, put6f, idx0a', idx0b', idx0a, idx0b, idx1a, idx1b, idx2a, idx2b, idx3a, idx3b, idx4a, idx4b, idx5a, idx5b, idx6a, idx6b, idx7a, idx7b, Nat.mul_add, Nat.add_assoc, Nat.reduceAdd, Nat.reduceMul, Nat.reducePow, Nat.add_zero]
        repeat' split
        all_goals omega

theorem g6_02 (f : Nat → Nat) (hf : ∀ j, f j < 256) (q q' v : Nat) :
    get6f (put6f f (4 * q + 0) v) (4 * q' + 2) = if 4 * q' + 2 = 4 * q + 0 then v % 64 else get6f f (4 * q' + 2) := by
  have hz := hf (3 * q); have hz' := hf (3 * q')
  have := hf (3 * q + 0)
  have := hf (3 * q + 1)
  have := hf (3 * q + 2)
  have := hf (3 * q + 3)
  have := hf (3 * q + 4)
  have := hf (3 * q + 5)
  have := hf (3 * q + 6)
  have := hf (3 * q + 7)
  have := hf (3 * q' + 0)
  have := hf (3 * q' + 1)
  have := hf (3 * q' + 2)
  have := hf (3 * q' + 3)
  have := hf (3 * q' + 4)
  have := hf (3 * q' + 5)
  have := hf (3 * q' + 6)
  have := hf (3 * q' + 7)
  by_cases e1 : q' = q
  · subst e1
    simp only [get6f, put6f, idx0a', idx0b', idx0a, idx0b, idx1a, idx1b, idx2a, idx2b, idx3a, idx3b, idx4a, idx4b, idx5a, idx5b, idx6a, idx6b, idx7a, idx7b, Nat.mul_add, Nat.add_assoc, Nat.reduceAdd, Nat.reduceMul, Nat.reducePow, Nat.add_zero]
    repeat' split
    all_goals omega
  · by_cases e2 : q' = q + 1
    · subst e2
      simp only [get6f, put6f, idx0a', idx0b', idx0a, idx0b, idx1a, idx1b, idx2a, idx2b, idx3a, idx3b, idx4a, idx4b, idx5a, idx5b, idx6a, idx6b, idx7a, idx7b, Nat.mul_add, Nat.add_assoc, Nat.reduceAdd, Nat.reduceMul, Nat.reducePow, Nat.add_zero]
      repeat' split
      all_goals omega
    · by_cases e3 : q = q' + 1
      · subst e3
        simp only [get6f, put6f, idx0a', idx0b', idx0a, idx0b, idx1a, idx1b, idx2a, idx2b, idx3a, idx3b, idx4a, idx4b, idx5a, idx5b, idx6a, idx6b, idx7a, idx7b, Nat.mul_add, Nat.add_assoc, Nat.reduceAdd, Nat.reduceMul, Nat.reducePow, Nat.add_zero]
        repeat' split
        all_goals omega
      · simp only [get6f, put6f, idx0a', idx0b', idx0a, idx0b, idx1a, idx1b, idx2a, idx2b, idx3a, idx3b, idx4a, idx4b, idx5a, idx5b, idx6a, idx6b, idx7a, idx7b, Nat.mul_add, Nat.add_assoc, Nat.reduceAdd, Nat.reduceMul, Nat.reducePow, Nat.add_zero]
        repeat' split
        all_goals omega

theorem g6_03 (f : Nat → Nat) (hf : ∀ j, f j < 256) (q q' v : Nat) :
    get6f (put6f f (4 * q + 0) v) (4 * q' + 3) = if 4 * q' + 3 = 4 * q + 0 then v % 64 else get6f f (4 * q' + 3) := by
  have hz := hf (3 * q); have hz' := hf (3 * q')
  have := hf (3 * q + 0)
  have := hf (3 * q + 1)
  have := hf (3 * q + 2)
  have := hf (3 * q + 3)
  have := hf (3 * q + 4)
  have := hf (3 * q + 5)
  have := hf (3 * q + 6)
  have := hf (3 * q + 7)
  have := hf (3 * q' + 0)
  have := hf (3 * q' + 1)
  have := hf (3 * q' + 2)
  have := hf (3 * q' + 3)
  have := hf (3 * q' + 4)
  have := hf (3 * q' + 5)
  have := hf (3 * q' + 6)
  have := hf (3 * q' + 7)
  by_cases e1 : q' = q
  · subst e1
    simp only [get6f, put6f, idx0a', idx0b', idx0a, idx0b, idx1a, idx1b, idx2a, idx2b, idx3a, idx3b, idx4a, idx4b, idx5a, idx5b, idx6a, idx6b, idx7a, idx7b, Nat.mul_add, Nat.add_assoc, Nat.reduceAdd, Nat.reduceMul, Nat.reducePow, Nat.add_zero]
    repeat' split
    all_goals omega
  · by_cases e2 : q' = q + 1
    · subst e2
      simp only [get6f, put6f, idx0a', idx0b', idx0a, idx0b, idx1a, idx1b, idx2a, idx2b, idx3a, idx3b, idx4a, idx4b, idx5a, idx5b, idx6a, idx6b, idx7a, idx7b, Nat.mul_add, Nat.add_assoc, Nat.reduceAdd, Nat.reduceMul, Nat.reducePow, Nat.add_zero]
      repeat' split
      all_goals omega
    · by_cases e3 : q = q' + 1
      · subst e3
        simp only [get6f, put6f, idx0a', idx0b', idx0a, idx0b, idx1a, idx1b, idx2a, idx2b, idx3a, idx3b, idx4a, idx4b, idx5a, idx5b, idx6a, idx6b, idx7a, idx7b, Nat.mul_add, Nat.add_assoc, Nat.reduceAdd, Nat.reduceMul, Nat.reducePow, Nat.add_zero]
        repeat' split
        all_goals omega
      · simp only [get6f, put6f, idx0a', idx0b', idx0a, idx0b, idx1a, idx1b, idx2a, idx2b, idx3a, idx3b, idx4a, idx4b, idx5a, idx5b, idx6a, idx6b, idx7a, idx7b, Nat.mul_add, Nat.add_assoc, Nat.reduceAdd, Nat.reduceMul, Nat.reducePow, Nat.add_zero]
        repeat' split
        all_goals omega

theorem g6_10 (f : Nat → Nat) (hf : ∀ j, f j < 256) (q q' v : Nat) :
    get6f (put6f f (4 * q + 1) v) (4 * q' + 0) = if 4 * q' + 0 = 4 * q + 1 then v % 64 else get6f f (4 * q' + 0) := by
  have hz := hf (3 * q); have hz' := hf (3 * q')
  have := hf (3 * q + 0)
  have := hf (3 * q + 1)
  have := hf (3 * q + 2)
  have := hf (3 * q + 3)
  have := hf (3 * q + 4)
  have := hf (3 * q + 5)
  have := hf (3 * q + 6)
  have := hf (3 * q + 7)
  have := hf (3 * q' + 0)
  have := hf (3 * q' + 1)
  have := hf (3 * q' + 2)
  have := hf (3 * q' + 3)
  have := hf (3 * q' + 4)
  have := hf (3 * q' + 5)
  have := hf (3 * q' + 6)
  have := hf (3 * q' + 7)
  by_cases e1 : q' = q
  · subst e1
    simp only [get6f, put6f, idx0a', idx0b', idx0a, idx0b, idx1a, idx1b, idx2a, idx2b, idx3a, idx3b, idx4a, idx4b, idx5a, idx5b, idx6a, idx6b, idx7a, idx7b, Nat.mul_add, Nat.add_assoc, Nat.reduceAdd, Nat.reduceMul, Nat.reducePow, Nat.add_zero]
    repeat' split
    all_goals omega
  · by_cases e2 : q' = q + 1
    · subst e2
      simp only [get6f, put6f, idx0a', idx0b', idx0a, idx0b, idx1a, idx1b, idx2a, idx2b, idx3a, idx3b, idx4a, idx4b, idx5a, idx5b, idx6a, idx6b, idx7a, idx7b, Nat.mul_add, Nat.add_assoc, Nat.reduceAdd, Nat.reduceMul, Nat.reducePow, Nat.add_zero]
      repeat' split
      all_goals omega
    · by_cases e3 : q = q' + 1
      · subst e3
        simp only [get6f, put6f, idx0a', idx0b', idx0a, idx0b, idx1a, idx1b, idx2a, idx2b, idx3a, idx3b, idx4a, idx4b, idx5a, idx5b, idx6a, idx6b, idx7a, idx7b, Nat.mul_add, Nat.add_assoc, Nat.reduceAdd, Nat.reduceMul, Nat.reducePow, Nat.add_zero]
        repeat' split
        all_goals omega
      · simp only [get6f, put6f, idx0a', idx0b', idx0a, idx0b, idx1a, idx1b, idx2a, idx2b, idx3a, idx3b, idx4a, idx4b, idx5a, idx5b, idx6a, idx6b, idx7a, idx7b, Nat.mul_add, Nat.add_assoc, Nat.reduceAdd, Nat.reduceMul, Nat.reducePow, Nat.add_zero]
        repeat' split
        all_goals omega

theorem g6_11 (f : Nat → Nat) (hf : ∀ j, f j < 256) (q q' v : Nat) :
    get6f (put6f f (4 * q + 1) v) (4 * q' + 1) = if 4 * q' + 1 = 4 * q + 1 then v % 64 else get6f f (4 * q' + 1) := by
  have hz := hf (3 * q); have hz' := hf (3 * q')
  have := hf (3 * q + 0)
  have := hf (3 * q + 1)
  have := hf (3 * q + 2)
  have := hf (3 * q + 3)
  have := hf (3 * q + 4)
  have := hf (3 * q + 5)
  have := hf (3 * q + 6)
  have := hf (3 * q + 7)
  have := hf (3 * q' + 0)
  have := hf (3 * q' + 1)
  have := hf (3 * q' + 2)
  have := hf (3 * q' + 3)
  have := hf (3 * q' + 4)
  have := hf (3 * q' + 5)
  have := hf (3 * q' + 6)
  have := hf (3 * q' + 7)
  by_cases e1 : q' = q
  · subst e1
    simp only [get6f, put6f, idx0a', idx0b', idx0a, idx0b, idx1a, idx1b, idx2a, idx2b, idx3a, idx3b, idx4a, idx4b, idx5a, idx5b, idx6a, idx6b, idx7a, idx7b, Nat.mul_add, Nat.add_assoc, Nat.reduceAdd, Nat.reduceMul, Nat.reducePow, Nat.add_zero]
    repeat' split
    all_goals omega
  · by_cases e2 : q' = q + 1
    · subst e2
      simp only [get6f, put6f, idx0a', idx0b', idx0a, idx0b, idx1a, idx1b, idx2a, idx2b, idx3a, idx3b, idx4a, idx4b, idx5a, idx5b, idx6a, idx6b, idx7a, idx7b, Nat.mul_add, Nat.add_assoc, Nat.reduceAdd, Nat.reduceMul, Nat.reducePow, Nat.add_zero]
      repeat' split
      all_goals omega
    · by_cases e3 : q = q' + 1
      · subst e3
        simp only [get6f, put6f, idx0a', idx0b', idx0a, idx0b, idx1a, idx1b, idx2a, idx2b, idx3a, idx3b, idx4a, idx4b, idx5a, idx5b, idx6a, idx6b, idx7a, idx7b, Nat.mul_add, Nat.add_assoc, Nat.reduceAdd, Nat.reduceMul, Nat.reducePow, Nat.add_zero]
        repeat' split
        all_goals omega
      · simp only [get6f, put6f, idx0a', idx0b', idx0a, idx0b, idx1a, idx1b, idx2a, idx2b, idx3a, idx3b, idx4a, idx4b, idx5a, idx5b, idx6a, idx6b, idx7a, idx7b, Nat.mul_add, Nat.add_assoc, Nat.reduceAdd, Nat.reduceMul, Nat.reducePow, Nat.add_zero]
        repeat' split
        all_goals omega

theorem g6_12 (f : Nat → Nat) (hf : ∀ j, f j < 256) (q q' v : Nat) :
    get6f (put6f f (4 * q + 1) v) (4 * q' + 2) = if 4 * q' + 2 = 4 * q + 1 then v % 64 else get6f f (4 * q' + 2) := by
  have hz := hf (3 * q); have hz' := hf (3 * q')
  have := hf (3 * q + 0)
  have := hf (3 * q + 1)
  have := hf (3 * q + 2)
  have := hf (3 * q + 3)
  have := hf (3 * q + 4)
  have := hf (3 * q + 5)
  have := hf (3 * q + 6)
  have := hf (3 * q + 7)
  have := hf (3 * q' + 0)
  have := hf (3 * q' + 1)
  have := hf (3 * q' + 2)
  have := hf (3 * q' + 3)
  have := hf (3 * q' + 4)
  have := hf (3 * q' + 5)
  have := hf (3 * q' + 6)
  have := hf (3 * q' + 7)
  by_cases e1 : q' = q
  · subst e1
    simp only [get6f, put6f, idx0a', idx0b', idx0a, idx0b, idx1a, idx1b, idx2a, idx2b, idx3a, idx3b, idx4a, idx4b, idx5a, idx5b, idx6a, idx6b, idx7a, idx7b, Nat.mul_add, Nat.add_assoc, Nat.reduceAdd, Nat.reduceMul, Nat.reducePow, Nat.add_zero]
    repeat' split
    all_goals omega
  · by_cases e2 : q' = q + 1
    · subst e2
      simp only [get6f, put6f, idx0a', idx0b', idx0a, idx0b, idx1a, idx1b, idx2a, idx2b, idx3a, idx3b, idx4a, idx4b, idx5a, idx5b, idx6a, idx6b, idx7a, idx7b, Nat.mul_add, Nat.add_assoc, Nat.reduceAdd, Nat.reduceMul, Nat.reducePow, Nat.add_zero]
      repeat' split
      all_goals omega
    · by_cases e3 : q = q' + 1
      · subst e3
        simp only [get6f, put6f, idx0a', idx0b', idx0a, idx0b, idx1a, idx1b, idx2a, idx2b, idx3a, idx3b, idx4a, idx4b, idx5a, idx5b, idx6a, idx6b, idx7a, idx7b, Nat.mul_add, Nat.add_assoc, Nat.reduceAdd, Nat.reduceMul, Nat.reducePow, Nat.add_zero]
        repeat' split
        all_goals omega
      · simp only [get6f, put6f, idx0a', idx0b', idx0a, idx0b, idx1a, idx1b, idx2a, idx2b, idx3a, idx3b, idx4a, idx4b, idx5a, idx5b, idx6a, idx6b, idx7a, idx7b, Nat.mul_add, Nat.add_assoc, Nat.reduceAdd, Nat.reduceMul, Nat.reducePow, Nat.add_zero]
        repeat' split
        all_goals omega

theorem g6_13 (f : Nat → Nat) (hf : ∀ j, f j < 256) (q q' v : Nat) :
    get6f (put6f f (4 * q + 1) v) (4 * q' + 3) = if 4 * q' + 3 = 4 * q + 1 then v % 64 else get6f f (4 * q' + 3) := by
  have hz := hf (3 * q); have hz' := hf (3 * q')
  have := hf (3 * q + 0)
  have := hf (3 * q + 1)
  have := hf (3 * q + 2)
  have := hf (3 * q + 3)
  have := hf (3 * q + 4)
  have := hf (3 * q + 5)
  have := hf (3 * q + 6)
  have := hf (3 * q + 7)
  have := hf (3 * q' + 0)
  have := hf (3 * q' + 1)
  have := hf (3 * q' + 2)
  have := hf (3 * q' + 3)
  have := hf (3 * q' + 4)
  have := hf (3 * q' + 5)
  have := hf (3 * q' + 6)
  have := hf (3 * q' + 7)
  by_cases e1 : q' = q
  · subst e1
    simp only [get6f, put6f, idx0a', idx0b', idx0a, idx0b, idx1a, idx1b, idx2a, idx2b, idx3a, idx3b, idx4a, idx4b, idx5a, idx5b, idx6a, idx6b, idx7a, idx7b, Nat.mul_add, Nat.add_assoc, Nat.reduceAdd, Nat.reduceMul, Nat.reducePow, Nat.add_zero]
    repeat' split
    all_goals omega
  · by_cases e2 : q' = q + 1
    · subst e2
      simp only [get6f, put6f, idx0a', idx0b', idx0a, idx0b, idx1a, idx1b, idx2a, idx2b, idx3a, idx3b, idx4a, idx4b, idx5a, idx5b, idx6a, idx6b, idx7a, idx7b, Nat.mul_add, Nat.add_assoc, Nat.reduceAdd, Nat.reduceMul, Nat.reducePow, Nat.add_zero]
      repeat' split
      all_goals omega
    · by_cases e3 : q = q' + 1
      · subst e3
        simp only [get6f, put6f, idx0a', idx0b', idx0a, idx0b, idx1a, idx1b, idx2a, idx2b, idx3a, idx3b, idx4a, idx4b, idx5a, idx5b, idx6a, idx6b, idx7a, idx7b, Nat.mul_add, Nat.add_assoc, Nat.reduceAdd, Nat.reduceMul, Nat.reducePow, Nat.add_zero]
        repeat' split
        all_goals omega
      · simp only [get6f, put6f, idx0a', idx0b', idx0a, idx0b, idx1a, idx1b, idx2a, idx2b, idx3a, idx3b, idx4a, idx4b, idx5a, idx5b, idx6a, idx6b, idx7a, idx7b, Nat.mul_add, Nat.add_assoc, Nat.reduceAdd, Nat.reduceMul, Nat.reducePow, Nat.add_zero]
        repeat' split
        all_goals omega

theorem g6_20 (f : Nat → Nat) (hf : ∀ j, f j < 256) (q q' v : Nat) :
    get6f (put6f f (4 * q + 2) v) (4 * q' + 0) = if 4 * q' + 0 = 4 * q + 2 then v % 64 else get6f f (4 * q' + 0) := by
  have hz := hf (3 * q); have hz' := hf (3 * q')
  have := hf (3 * q + 0)
  have := hf (3 * q + 1)
  have := hf (3 * q + 2)
  have := hf (3 * q + 3)
  have := hf (3 * q + 4)
  have := hf (3 * q + 5)
  have := hf (3 * q + 6)
  have := hf (3 * q + 7)
  have := hf (3 * q' + 0)
  have := hf (3 * q' + 1)
  have := hf (3 * q' + 2)
  have := hf (3 * q' + 3)
  have := hf (3 * q' + 4)
  have := hf (3 * q' + 5)
  have := hf (3 * q' + 6)
  have := hf (3 * q' + 7)
  by_cases e1 : q' = q
  · subst e1
    simp only [get6f, put6f, idx0a', idx0b', idx0a, idx0b, idx1a, idx1b, idx2a, idx2b, idx3a, idx3b, idx4a, idx4b, idx5a, idx5b, idx6a, idx6b, idx7a, idx7b, Nat.mul_add, Nat.add_assoc, Nat.reduceAdd, Nat.reduceMul, Nat.reducePow, Nat.add_zero]
    repeat' split
    all_goals omega
  · by_cases e2 : q' = q + 1
    · subst e2
      simp only [get6f, put6f, idx0a', idx0b', idx0a, idx0b, idx1a, idx1b, idx2a, idx2b, idx3a, idx3b, idx4a, idx4b, idx5a, idx5b, idx6a, idx6b, idx7a, idx7b, Nat.mul_add, Nat.add_assoc, Nat.reduceAdd, Nat.reduceMul, Nat.reducePow, Nat.add_zero]
      repeat' split
      all_goals omega
    · by_cases e3 : q = q' + 1
      · subst e3
        simp only [get6f, put6f, idx0a', idx0b', idx0a, idx0b, idx1a, idx1b, idx2a, idx2b, idx3a, idx3b, idx4a, idx4b, idx5a, idx5b, idx6a, idx6b, idx7a, idx7b, Nat.mul_add, Nat.add_assoc, Nat.reduceAdd, Nat.reduceMul, Nat.reducePow, Nat.add_zero]
        repeat' split
        all_goals omega
      · simp only [get6f, put6f, idx0a', idx0b', idx0a, idx0b, idx1a, idx1b, idx2a, idx2b, idx3a, idx3b, idx4a, idx4b, idx5a, idx5b, idx6a, idx6b, idx7a, idx7b, Nat.mul_add, Nat.add_assoc, Nat.reduceAdd, Nat.reduceMul, Nat.reducePow, Nat.add_zero]
        repeat' split
        all_goals omega

theorem g6_21 (f : Nat → Nat) (hf : ∀ j, f j < 256) (q q' v : Nat) :
    get6f (put6f f (4 * q + 2) v) (4 * q' + 1) = if 4 * q' + 1 = 4 * q + 2 then v % 64 else get6f f (4 * q' + 1) := by
  have hz := hf (3 * q); have hz' := hf (3 * q')
  have := hf (3 * q + 0)
  have := hf (3 * q + 1)
  have := hf (3 * q + 2)
  have := hf (3 * q + 3)
  have := hf (3 * q + 4)
  have := hf (3 * q + 5)
  have := hf (3 * q + 6)
  have := hf (3 * q + 7)
  have := hf (3 * q' + 0)
  have := hf (3 * q' + 1)
  have := hf (3 * q' + 2)
  have := hf (3 * q' + 3)
  have := hf (3 * q' + 4)
  have := hf (3 * q' + 5)
  have := hf (3 * q' + 6)
  have := hf (3 * q' + 7)
  by_cases e1 : q' = q
  · subst e1
    simp only [get6f, put6f, idx0a', idx0b', idx0a, idx0b, idx1a, idx1b, idx2a, idx2b, idx3a, idx3b, idx4a, idx4b, idx5a, idx5b, idx6a, idx6b, idx7a, idx7b, Nat.mul_add, Nat.add_assoc, Nat.reduceAdd, Nat.reduceMul, Nat.reducePow, Nat.add_zero]
    repeat' split
    all_goals omega
  · by_cases e2 : q' = q + 1
    · subst e2
      simp only [get6f, put6f, idx0a', idx0b', idx0a, idx0b, idx1a, idx1b, idx2a, idx2b, idx3a, idx3b, idx4a, idx4b, idx5a, idx5b, idx6a, idx6b, idx7a, idx7b, Nat.mul_add, Nat.add_assoc, Nat.reduceAdd, Nat.reduceMul, Nat.reducePow, Nat.add_zero]
      repeat' split
      all_goals omega
    · by_cases e3 : q = q' + 1
      · subst e3
        simp only [get6f, put6f, idx0a', idx0b', idx0a, idx0b, idx1a, idx1b, idx2a, idx2b, idx3a, idx3b, idx4a, idx4b, idx5a, idx5b, idx6a, idx6b, idx7a, idx7b, Nat.mul_add, Nat.add_assoc, Nat.reduceAdd, Nat.reduceMul, Nat.reducePow, Nat.add_zero]
        repeat' split
        all_goals omega
      · simp only [get6f, put6f, idx0a', idx0b', idx0a, idx0b, idx1a, idx1b, idx2a, idx2b, idx3a, idx3b, idx4a, idx4b, idx5a, idx5b, idx6a, idx6b, idx7a, idx7b, Nat.mul_add, Nat.add_assoc, Nat.reduceAdd, Nat.reduceMul, Nat.reducePow, Nat.add_zero]
        repeat' split
        all_goals omega

theorem g6_22 (f : Nat → Nat) (hf : ∀ j, f j < 256) (q q' v : Nat) :
    get6f (put6f f (4 * q + 2) v) (4 * q' + 2) = if 4 * q' + 2 = 4 * q + 2 then v % 64 else get6f f (4 * q' + 2) := by
  have hz := hf (3 * q); have hz' := hf (3 * q')
  have := hf (3 * q + 0)
  have := hf (3 * q + 1)
  have := hf (3 * q + 2)
  have := hf (3 * q + 3)
  have := hf (3 * q + 4)
  have := hf (3 * q + 5)
  have := hf (3 * q + 6)
  have := hf (3 * q + 7)
  have := hf (3 * q' + 0)
  have := hf (3 * q' + 1)
  have := hf (3 * q' + 2)
  have := hf (3 * q' + 3)
  have := hf (3 * q' + 4)
  have := hf (3 * q' + 5)
  have := hf (3 * q' + 6)
  have := hf (3 * q' + 7)
  by_cases e1 : q' = q
  · subst e1
    simp only [get6f, put6f, idx0a', idx0b', idx0a, idx0b, idx1a, idx1b, idx2a, idx2b, idx3a, idx3b, idx4a, idx4b, idx5a, idx5b, idx6a, idx6b, idx7a, idx7b, Nat.mul_add, Nat.add_assoc, Nat.reduceAdd, Nat.reduceMul, Nat.reducePow, Nat.add_zero]
    repeat' split
    all_goals omega
  · by_cases e2 : q' = q + 1
    · subst e2
      simp only [get6f, put6f, idx0a', idx0b', idx0a, idx0b, idx1a, idx1b, idx2a, idx2b, idx3a, idx3b, idx4a, idx4b, idx5a, idx5b, idx6a, idx6b, idx7a, idx7b, Nat.mul_add, Nat.add_assoc, Nat.reduceAdd, Nat.reduceMul, Nat.reducePow, Nat.add_zero]
      repeat' split
      all_goals omega
    · by_cases e3 : q = q' + 1
      · subst e3
        simp only [get6f, put6f, idx0a', idx0b', idx0a, idx0b, idx1a, idx1b, idx2a, idx2b, idx3a, idx3b, idx4a, idx4b, idx5a, idx5b, idx6a, idx6b, idx7a, idx7b, Nat.mul_add, Nat.add_assoc, Nat.reduceAdd, Nat.reduceMul, Nat.reducePow, Nat.add_zero]
        repeat' split
        all_goals omega
      · simp only [get6f, put6f, idx0a', idx0b', idx0a, idx0b, idx1a, idx1b, idx2a, idx2b, idx3a, idx3b, idx4a, idx4b, idx5a, idx5b, idx6a, idx6b, idx7a, idx7b, Nat.mul_add, Nat.add_assoc, Nat.reduceAdd, Nat.reduceMul, Nat.reducePow, Nat.add_zero]
        repeat' split
        all_goals omega

theorem g6_23 (f : Nat → Nat) (hf : ∀ j, f j < 256) (q q' v : Nat) :
    get6f (put6f f (4 * q + 2) v) (4 * q' + 3) = if 4 * q' + 3 = 4 * q + 2 then v % 64 else get6f f (4 * q' + 3) := by
  have hz := hf (3 * q); have hz' := hf (3 * q')
  have := hf (3 * q + 0)
  have := hf (3 * q + 1)
  have := hf (3 * q + 2)
  have := hf (3 * q + 3)
  have := hf (3 * q + 4)
  have := hf (3 * q + 5)
  have := hf (3 * q + 6)
  have := hf (3 * q + 7)
  have := hf (3 * q' + 0)
  have := hf (3 * q' + 1)
  have := hf (3 * q' + 2)
  have := hf (3 * q' + 3)
  have := hf (3 * q' + 4)
  have := hf (3 * q' + 5)
  have := hf (3 * q' + 6)
  have := hf (3 * q' + 7)
  by_cases e1 : q' = q
  · subst e1
    simp only [get6f, put6f, idx0a', idx0b', idx0a, idx0b, idx1a, idx1b, idx2a, idx2b, idx3a, idx3b, idx4a, idx4b, idx5a, idx5b, idx6a, idx6b, idx7a, idx7b, Nat.mul_add, Nat.add_assoc, Nat.reduceAdd, Nat.reduceMul, Nat.reducePow, Nat.add_zero]
    repeat' split
    all_goals omega
  · by_cases e2 : q' = q + 1
    · subst e2
      simp only [get6f, put6f, idx0a', idx0b', idx0a, idx0b, idx1a, idx1b, idx2a, idx2b, idx3a, idx3b, idx4a, idx4b, idx5a, idx5b, idx6a, idx6b, idx7a, idx7b, Nat.mul_add, Nat.add_assoc, Nat.reduceAdd, Nat.reduceMul, Nat.reducePow, Nat.add_zero]
      repeat' split
      all_goals omega
    · by_cases e3 : q = q' + 1
      · subst e3
        simp only [get6f, put6f, idx0a', idx0b', idx0a, idx0b, idx1a, idx1b, idx2a, idx2b, idx3a, idx3b, idx4a, idx4b, idx5a, idx5b, idx6a, idx6b, idx7a, idx7b, Nat.mul_add, Nat.add_assoc, Nat.reduceAdd, Nat.reduceMul, Nat.reducePow, Nat.add_zero]
        repeat' split
        all_goals omega
      · simp only [get6f, put6f, idx0a', idx0b', idx0a, idx0b, idx1a, idx1b, idx2a, idx2b, idx3a, idx3b, idx4a, idx4b, idx5a, idx5b, idx6a, idx6b, idx7a, idx7b, Nat.mul_add, Nat.add_assoc, Nat.reduceAdd, Nat.reduceMul, Nat.reducePow, Nat.add_zero]
        repeat' split
        all_goals omega

theorem g6_30 (f : Nat → Nat) (hf : ∀ j, f j < 256) (q q' v : Nat) :
    get6f (put6f f (4 * q + 3) v) (4 * q' + 0) = if 4 * q' + 0 = 4 * q + 3 then v % 64 else get6f f (4 * q' + 0) := by
  have hz := hf (3 * q); have hz' := hf (3 * q')
  have := hf (3 * q + 0)
  have := hf (3 * q + 1)
  have := hf (3 * q + 2)
  have := hf (3 * q + 3)
  have := hf (3 * q + 4)
  have := hf (3 * q + 5)
  have := hf (3 * q + 6)
  have := hf (3 * q + 7)
  have := hf (3 * q' + 0)
  have := hf (3 * q' + 1)
  have := hf (3 * q' + 2)
  have := hf (3 * q' + 3)
  have := hf (3 * q' + 4)
  have := hf (3 * q' + 5)
  have := hf (3 * q' + 6)
  have := hf (3 * q' + 7)
  by_cases e1 : q' = q
  · subst e1
    simp only [get6f, put6f, idx0a', idx0b', idx0a, idx0b, idx1a, idx1b, idx2a, idx2b, idx3a, idx3b, idx4a, idx4b, idx5a, idx5b, idx6a, idx6b, idx7a, idx7b, Nat.mul_add, Nat.add_assoc, Nat.reduceAdd, Nat.reduceMul, Nat.reducePow, Nat.add_zero]
    repeat' split
    all_goals omega
  · by_cases e2 : q' = q + 1
    · subst e2
      simp only [get6f, put6f, idx0a', idx0b', idx0a, idx0b, idx1a, idx1b, idx2a, idx2b, idx3a, idx3b, idx4a, idx4b, idx5a, idx5b, idx6a, idx6b, idx7a, idx7b, Nat.mul_add, Nat.add_assoc, Nat.reduceAdd, Nat.reduceMul, Nat.reducePow, Nat.add_zero]
      repeat' split
      all_goals omega
    · by_cases e3 : q = q' + 1
      · subst e3
        simp only [get6f, put6f, idx0a', idx0b', idx0a, idx0b, idx1a, idx1b, idx2a, idx2b, idx3a, idx3b, idx4a, idx4b, idx5a, idx5b, idx6a, idx6b, idx7a, idx7b, Nat.mul_add, Nat.add_assoc, Nat.reduceAdd, Nat.reduceMul, Nat.reducePow, Nat.add_zero]
        repeat' split
        all_goals omega
      · simp only [get6f, put6f, idx0a', idx0b', idx0a, idx0b, idx1a, idx1b, idx2a, idx2b, idx3a, idx3b, idx4a, idx4b, idx5a, idx5b, idx6a, idx6b, idx7a, idx7b, Nat.mul_add, Nat.add_assoc, Nat.reduceAdd, Nat.reduceMul, Nat.reducePow, Nat.add_zero]
        repeat' split
        all_goals omega

theorem g6_31 (f : Nat → Nat) (hf : ∀ j, f j < 256) (q q' v : Nat) :
    get6f (put6f f (4 * q + 3) v) (4 * q' + 1) = if 4 * q' + 1 = 4 * q + 3 then v % 64 else get6f f (4 * q' + 1) := by
  have hz := hf (3 * q); have hz' := hf (3 * q')
  have := hf (3 * q + 0)
  have := hf (3 * q + 1)
  have := hf (3 * q + 2)
  have := hf (3 * q + 3)
  have := hf (3 * q + 4)
  have := hf (3 * q + 5)
  have := hf (3 * q + 6)
  have := hf (3 * q + 7)
  have := hf (3 * q' + 0)
  have := hf (3 * q' + 1)
  have := hf (3 * q' + 2)
  have := hf (3 * q' + 3)
  have := hf (3 * q' + 4)
  have := hf (3 * q' + 5)
  have := hf (3 * q' + 6)
  have := hf (3 * q' + 7)
  by_cases e1 : q' = q
  · subst e1
    simp only [get6f, put6f, idx0a', idx0b', idx0a, idx0b, idx1a, idx1b, idx2a, idx2b, idx3a, idx3b, idx4a, idx4b, idx5a, idx5b, idx6a, idx6b, idx7a, idx7b, Nat.mul_add, Nat.add_assoc, Nat.reduceAdd, Nat.reduceMul, Nat.reducePow, Nat.add_zero]
    repeat' split
    all_goals omega
  · by_cases e2 : q' = q + 1
    · subst e2
      simp only [get6f, put6f, idx0a', idx0b', idx0a, idx0b, idx1a, idx1b, idx2a, idx2b, idx3a, idx3b, idx4a, idx4b, idx5a, idx5b, idx6a, idx6b, idx7a, idx7b, Nat.mul_add, Nat.add_assoc, Nat.reduceAdd, Nat.reduceMul, Nat.reducePow, Nat.add_zero]
      repeat' split
      all_goals omega
    · by_cases e3 : q = q' + 1
      · subst e3
        simp only [get6f, put6f, idx0a', idx0b', idx0a, idx0b, idx1a, idx1b, idx2a, idx2b, idx3a, idx3b, idx4a, idx4b, idx5a, idx5b, idx6a, idx6b, idx7a, idx7b, Nat.mul_add, Nat.add_assoc, Nat.reduceAdd, Nat.reduceMul, Nat.reducePow, Nat.add_zero]
        repeat' split
        all_goals omega
      · simp only [get6f, put6f, idx0a', idx0b', idx0a, idx0b, idx1a, idx1b, idx2a, idx2b, idx3a, idx3b, idx4a, idx4b, idx5a, idx5b, idx6a, idx6b, idx7a, idx7b, Nat.mul_add, Nat.add_assoc, Nat.reduceAdd, Nat.reduceMul, Nat.reducePow, Nat.add_zero]
        repeat' split
        all_goals omega

theorem g6_32 (f : Nat → Nat) (hf : ∀ j, f j < 256) (q q' v : Nat) :
    get6f (put6f f (4 * q + 3) v) (4 * q' + 2) = if 4 * q' + 2 = 4 * q + 3 then v % 64 else get6f f (4 * q' + 2) := by
  have hz := hf (3 * q); have hz' := hf (3 * q')
  have := hf (3 * q + 0)
  have := hf (3 * q + 1)
  have := hf (3 * q + 2)
  have := hf (3 * q + 3)
  have := hf (3 * q + 4)
  have := hf (3 * q + 5)
  have := hf (3 * q + 6)
  have := hf (3 * q + 7)
  have := hf (3 * q' + 0)
  have := hf (3 * q' + 1)
  have := hf (3 * q' + 2)
  have := hf (3 * q' + 3)
  have := hf (3 * q' + 4)
  have := hf (3 * q' + 5)
  have := hf (3 * q' + 6)
  have := hf (3 * q' + 7)
  by_cases e1 : q' = q
  · subst e1
    simp only [get6f, put6f, idx0a', idx0b', idx0a, idx0b, idx1a, idx1b, idx2a, idx2b, idx3a, idx3b, idx4a, idx4b, idx5a, idx5b, idx6a, idx6b, idx7a, idx7b, Nat.mul_add, Nat.add_assoc, Nat.reduceAdd, Nat.reduceMul, Nat.reducePow, Nat.add_zero]
    repeat' split
    all_goals omega
  · by_cases e2 : q' = q + 1
    · subst e2
      simp only [get6f, put6f, idx0a', idx0b', idx0a, idx0b, idx1a, idx1b, idx2a, idx2b, idx3a, idx3b, idx4a, idx4b, idx5a, idx5b, idx6a, idx6b, idx7a, idx7b, Nat.mul_add, Nat.add_assoc, Nat.reduceAdd, Nat.reduceMul, Nat.reducePow, Nat.add_zero]
      repeat' split
      all_goals omega
    · by_cases e3 : q = q' + 1
      · subst e3
        simp only [get6f, put6f, idx0a', idx0b', idx0a, idx0b, idx1a, idx1b, idx2a, idx2b, idx3a, idx3b, idx4a, idx4b, idx5a, idx5b, idx6a, idx6b, idx7a, idx7b, Nat.mul_add, Nat.add_assoc, Nat.reduceAdd, Nat.reduceMul, Nat.reducePow, Nat.add_zero]
        repeat' split
        all_goals omega
      · simp only [get6f, put6f, idx0a', idx0b', idx0a, idx0b, idx1a, idx1b, idx2a, idx2b, idx3a, idx3b, idx4a, idx4b, idx5a, idx5b, idx6a, idx6b, idx7a, idx7b, Nat.mul_add, Nat.add_assoc, Nat.reduceAdd, Nat.reduceMul, Nat.reducePow, Nat.add_zero]
        repeat' split
        all_goals omega

theorem g6_33 (f : Nat → Nat) (hf : ∀ j, f j < 256) (q q' v : Nat) :
    get6f (put6f f (4 * q + 3) v) (4 * q' + 3) = if 4 * q' + 3 = 4 * q + 3 then v % 64 else get6f f (4 * q' + 3) := by
  have hz := hf (3 * q); have hz' := hf (3 * q')
  have := hf (3 * q + 0)
  have := hf (3 * q + 1)
  have := hf (3 * q + 2)
  have := hf (3 * q + 3)
  have := hf (3 * q + 4)
  have := hf (3 * q + 5)
  have := hf (3 * q + 6)
  have := hf (3 * q + 7)
  have := hf (3 * q' + 0)
  have := hf (3 * q' + 1)
  have := hf (3 * q' + 2)
  have := hf (3 * q' + 3)
  have := hf (3 * q' + 4)
  have := hf (3 * q' + 5)
  have := hf (3 * q' + 6)
  have := hf (3 * q' + 7)
  by_cases e1 : q' = q
  · subst e1
    simp only [get6f, put6f, idx0a', idx0b', idx0a, idx0b, idx1a, idx1b, idx2a, idx2b, idx3a, idx3b, idx4a, idx4b, idx5a, idx5b, idx6a, idx6b, idx7a, idx7b, Nat.mul_add, Nat.add_assoc, Nat.reduceAdd, Nat.reduceMul, Nat.reducePow, Nat.add_zero]
    repeat' split
    all_goals omega
  · by_cases e2 : q' = q + 1
    · subst e2
      simp only [get6f, put6f, idx0a', idx0b', idx0a, idx0b, idx1a, idx1b, idx2a, idx2b, idx3a, idx3b, idx4a, idx4b, idx5a, idx5b, idx6a, idx6b, idx7a, idx7b, Nat.mul_add, Nat.add_assoc, Nat.reduceAdd, Nat.reduceMul, Nat.reducePow, Nat.add_zero]
      repeat' split
      all_goals omega
    · by_cases e3 : q = q' + 1
      · subst e3
        simp only [get6f, put6f, idx0a', idx0b', idx0a, idx0b, idx1a, idx1b, idx2a, idx2b, idx3a, idx3b, idx4a, idx4b, idx5a, idx5b, idx6a, idx6b, idx7a, idx7b, Nat.mul_add, Nat.add_assoc, Nat.reduceAdd, Nat.reduceMul, Nat.reducePow, Nat.add_zero]
        repeat' split
        all_goals omega
      · simp only [get6f, put6f, idx0a', idx0b', idx0a, idx0b, idx1a, idx1b, idx2a, idx2b, idx3a, idx3b, idx4a, idx4b, idx5a, idx5b, idx6a, idx6b, idx7a, idx7b, Nat.mul_add, Nat.add_assoc, Nat.reduceAdd, Nat.reduceMul, Nat.reducePow, Nat.add_zero]
        repeat' split
        all_goals omega


/-- writing slot `s` changes exactly the 6-bit field of `s` -/
theorem get6f_put6f (f : Nat → Nat) (hf : ∀ j, f j < 256) (s s' v : Nat) :
    get6f (put6f f s v) s' = if s' = s then v % 64 else get6f f s' := by
  have hr : s % 4 = 0 ∨ s % 4 = 1 ∨ s % 4 = 2 ∨ s % 4 = 3 := by omega
  have hr' : s' % 4 = 0 ∨ s' % 4 = 1 ∨ s' % 4 = 2 ∨ s' % 4 = 3 := by omega
  rcases hr with h | h | h | h <;> rcases hr' with h' | h' | h' | h'
  · have := g6_00 f hf (s / 4) (s' / 4) v
    rw [show 4 * (s' / 4) + 0 = s' by omega, show 4 * (s / 4) + 0 = s by omega] at this
    exact this
  · have := g6_01 f hf (s / 4) (s' / 4) v
    rw [show 4 * (s' / 4) + 1 = s' by omega, show 4 * (s / 4) + 0 = s by omega] at this
    exact this
  · have := g6_02 f hf (s / 4) (s' / 4) v
    rw [show 4 * (s' / 4) + 2 = s' by omega, show 4 * (s / 4) + 0 = s by omega] at this
    exact this
  · have := g6_03 f hf (s / 4) (s' / 4) v
    rw [show 4 * (s' / 4) + 3 = s' by omega, show 4 * (s / 4) + 0 = s by omega] at this
    exact this
  · have := g6_10 f hf (s / 4) (s' / 4) v
    rw [show 4 * (s' / 4) + 0 = s' by omega, show 4 * (s / 4) + 1 = s by omega] at this
    exact this
  · have := g6_11 f hf (s / 4) (s' / 4) v
    rw [show 4 * (s' / 4) + 1 = s' by omega, show 4 * (s / 4) + 1 = s by omega] at this
    exact this
  · have := g6_12 f hf (s / 4) (s' / 4) v
    rw [show 4 * (s' / 4) + 2 = s' by omega, show 4 * (s / 4) + 1 = s by omega] at this
    exact this
  · have := g6_13 f hf (s / 4) (s' / 4) v
    rw [show 4 * (s' / 4) + 3 = s' by omega, show 4 * (s / 4) + 1 = s by omega] at this
    exact this
  · have := g6_20 f hf (s / 4) (s' / 4) v
    rw [show 4 * (s' / 4) + 0 = s' by omega, show 4 * (s / 4) + 2 = s by omega] at this
    exact this
  · have := g6_21 f hf (s / 4) (s' / 4) v
    rw [show 4 * (s' / 4) + 1 = s' by omega, show 4 * (s / 4) + 2 = s by omega] at this
    exact this
  · have := g6_22 f hf (s / 4) (s' / 4) v
    rw [show 4 * (s' / 4) + 2 = s' by omega, show 4 * (s / 4) + 2 = s by omega] at this
    exact this
  · have := g6_23 f hf (s / 4) (s' / 4) v
    rw [show 4 * (s' / 4) + 3 = s' by omega, show 4 * (s / 4) + 2 = s by omega] at this
    exact this
  · have := g6_30 f hf (s / 4) (s' / 4) v
    rw [show 4 * (s' / 4) + 0 = s' by omega, show 4 * (s / 4) + 3 = s by omega] at this
    exact this
  · have := g6_31 f hf (s / 4) (s' / 4) v
    rw [show 4 * (s' / 4) + 1 = s' by omega, show 4 * (s / 4) + 3 = s by omega] at this
    exact this
  · have := g6_32 f hf (s / 4) (s' / 4) v
    rw [show 4 * (s' / 4) + 2 = s' by omega, show 4 * (s / 4) + 3 = s by omega] at this
    exact this
  · have := g6_33 f hf (s / 4) (s' / 4) v
    rw [show 4 * (s' / 4) + 3 = s' by omega, show 4 * (s / 4) + 3 = s by omega] at this
    exact this

end DS.Hll

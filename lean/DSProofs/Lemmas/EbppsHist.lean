/- Merge trees (C18): what a history says about n, cumulative weight, k, maximum weight; the repaired merge keeps every
sketch well-formed, so all invariants hold for every history. -/
import DSProofs.Lemmas.EbppsMerge
namespace DS.Ebpps

variable {P : Nat → Prop}

/-- number of items offered since the last reset -/
def Hist.cnt : Hist Rat → Nat
  | .fresh _ => 0
  | .upd h _ => h.cnt + 1
  | .merge a b _ => a.cnt + b.cnt
  | .reset _ => 0
  | .serde h => h.cnt

/-- total weight offered since the last reset -/
def Hist.wt : Hist Rat → Rat
  | .fresh _ => 0
  | .upd h u => h.wt + u.w
  | .merge a b _ => a.wt + b.wt
  | .reset _ => 0
  | .serde h => h.wt

/-- maximum weight offered since the last reset (0 if none) -/
def Hist.wmax : Hist Rat → Rat
  | .fresh _ => 0
  | .upd h u => max h.wmax u.w
  | .merge a b _ => max a.wmax b.wmax
  | .reset _ => 0
  | .serde h => h.wmax

/-- the smallest `k` of all sketches merged into this one -/
def Hist.kmin : Hist Rat → Nat
  | .fresh k => k
  | .upd h _ => h.kmin
  | .merge a b _ => min a.kmin b.kmin
  | .reset h => h.kmin
  | .serde h => h.kmin

/-- every item ever offered in the history -/
def Hist.items : Hist Rat → List Nat
  | .fresh _ => []
  | .upd h u => u.item :: h.items
  | .merge a b _ => a.items ++ b.items
  | .reset h => h.items
  | .serde h => h.items

/-- a valid history: sizes ≥ 1, positive weights, admissible draws -/
def Hist.OK (v : Variant) : Hist Rat → Prop
  | .fresh k => 1 ≤ k
  | .upd h u => h.OK v ∧ 0 < u.w ∧ UnitOK v.geDraw u.d
  | .merge a b d => a.OK v ∧ b.OK v ∧ UnitOK v.geDraw d
  | .reset h => h.OK v
  | .serde h => h.OK v

/-! ### shrink_to_k (part of the proposed repair) and serialize→deserialize -/

theorem shrinkToK_live {v : Variant} {s : Sketch Rat} {k0 : Nat} {d : Draws Rat}
    (h : Core P s s.wtMax s.k) (hk : 1 ≤ s.k) (hk0 : 1 ≤ k0) (hd : UnitOK v.geDraw d) :
    Core P (shrinkToK v s k0 d).1 s.wtMax (min s.k k0) ∧ (shrinkToK v s k0 d).1.k = min s.k k0 ∧
    (shrinkToK v s k0 d).1.cumWt = s.cumWt ∧ (shrinkToK v s k0 d).1.n = s.n ∧ (shrinkToK v s k0 d).1.wtMax = s.wtMax := by
  have hw := h.wpos
  have hm := h.mpos
  have hrp := h.rho_pos
  have hkm : 1 ≤ min s.k k0 := le_min hk hk0
  have hkq : (0 : Rat) < (min s.k k0 : Nat) := by exact_mod_cast hkm
  have hkle : ((min s.k k0 : Nat) : Rat) ≤ s.k := by exact_mod_cast (min_le_left s.k k0)
  set nr := min (1 / s.wtMax) (((min s.k k0 : Nat) : Rat) / s.cumWt) with hnr
  have hnrp : 0 < nr := lt_min (div_pos one_pos hm) (div_pos hkq hw)
  have hle : nr ≤ s.rho := by
    rw [h.rho]
    exact le_min (min_le_left _ _) (le_trans (min_le_right _ _) (div_le_div_of_nonneg_right hkle (le_of_lt hw)))
  have hcpos : 0 < s.sample.c := by rw [h.c]; exact mul_pos hrp hw
  obtain ⟨d1, d2, d3⟩ := downsample_spec (ge := v.geDraw) (theta := nr / s.rho) h.sinv hcpos (div_pos hnrp hrp) hd
  rw [min_eq_left ((div_le_one hrp).2 hle)] at d2
  have hcond : (Num.lt (zero : Rat) s.cumWt) = true := by simp [hw]
  have e : shrinkToK v s k0 d = ({ s with k := min s.k k0, rho := nr, sample := (downsample v.geDraw s.sample (nr / s.rho) d).1 },
      (downsample v.geDraw s.sample (nr / s.rho) d).2) := by
    unfold shrinkToK
    simp only [hcond, if_true, rat_newRho, ← hnr]
  rw [e]
  refine ⟨⟨d1, hw, hm, hkm, rfl, ?_⟩, rfl, rfl, rfl, rfl⟩
  simp only
  rw [d2, h.c]
  have hne : s.rho ≠ 0 := ne_of_gt hrp
  calc nr / s.rho * (s.rho * s.cumWt) = nr * s.cumWt * (s.rho / s.rho) := by ring
    _ = nr * s.cumWt := by rw [div_self hne, mul_one]

theorem serde_live {s : Sketch Rat} (hs : SInv P s.sample) (hn : 1 ≤ s.n) : serde s = some s := by
  obtain ⟨hc, hl, hp, -, -⟩ := hs
  have a1 := fl_le s.sample.c
  have hn0 : (s.n == 0) = false := by simp; omega
  have hlen : s.sample.c.floor.toNat = s.sample.data.length := by omega
  unfold serde
  simp only [hn0, rat_toNat, rat_floor, floor_intCast', rat_lt, rat_eq, rat_zero, frac, hlen]
  have hneg : ¬ s.sample.c < 0 := not_lt.2 hc
  cases hpart : s.sample.part with
  | none =>
    have hfr : ¬ ((s.sample.c.floor : Int) : Rat) < s.sample.c := by
      intro hlt; have := hp.2 hlt; rw [hpart] at this; simp at this
    have hz : s.sample.c - ((s.sample.c.floor : Int) : Rat) = 0 := by linarith
    simp [hz, hneg]
    cases s with | mk k n cw wm rho smp => cases smp with | mk c dd pp => simp_all
  | some p =>
    have hfr : ((s.sample.c.floor : Int) : Rat) < s.sample.c := hp.1 (by rw [hpart]; rfl)
    have hz : ¬ s.sample.c - ((s.sample.c.floor : Int) : Rat) = 0 := by intro h; linarith
    simp [hz, hneg]
    cases s with | mk k n cw wm rho smp => cases smp with | mk c dd pp => simp_all

/-! ### the repaired merge keeps sketches well-formed -/

/-- what a well-formed state and its history agree on -/
structure Agrees (P : Nat → Prop) (s : Sketch Rat) (n : Nat) (W M : Rat) (k : Nat) : Prop where
  wf : WF P s
  n : s.n = n
  w : s.cumWt = W
  m : s.wtMax = M
  k : s.k = k

theorem WF.fresh_or_live {s : Sketch Rat} (h : WF P s) :
    (s.cumWt = 0 ∧ s.n = 0 ∧ s.wtMax = 0 ∧ s.sample.c = 0) ∨ (Core P s s.wtMax s.k ∧ s.wtMax ≤ s.cumWt ∧ 1 ≤ s.n) := by
  cases h with
  | fresh _ hw hn hm hc _ => exact Or.inl ⟨hw, hn, hm, hc⟩
  | live _ hc hmw hn => exact Or.inr ⟨hc, hmw, hn⟩

/-- `a.merge(b)` with the repaired merge (`wt_max_` stored, empty operands handled), for ANY two well-formed sketches. -/
theorem mergeSk_wf {v : Variant} (hv1 : v.mergeSetsWtMax = true) (hv2 : v.mergeEmptyShrinks = true)
    {a b : Sketch Rat} {d : Draws Rat} (ha : WF P a) (hb : WF P b) (hd : UnitOK v.geDraw d) :
    WF P (mergeSk v a b d).1 ∧ (mergeSk v a b d).1.n = a.n + b.n ∧ (mergeSk v a b d).1.cumWt = a.cumWt + b.cumWt ∧
    (mergeSk v a b d).1.wtMax = max a.wtMax b.wtMax ∧ (mergeSk v a b d).1.k = min a.k b.k := by
  have hak := ha.kpos
  have hbk := hb.kpos
  rcases hb.fresh_or_live with ⟨bw, bn, bm, -⟩ | ⟨bc, bmw, bn⟩
  · -- b is empty: only k can change
    have e0 : Num.eq b.cumWt (zero : Rat) = true := by simp [bw]
    have e : mergeSk v a b d = shrinkToK v a b.k d := by unfold mergeSk; simp only [e0, hv2, if_true]
    rw [e]
    rcases ha.fresh_or_live with ⟨aw, an, am, ac⟩ | ⟨ac, amw, an⟩
    · have hcond : (Num.lt (zero : Rat) a.cumWt) = false := by simp [aw]
      have e2 : shrinkToK v a b.k d = ({ a with k := min a.k b.k }, d) := by unfold shrinkToK; simp only [hcond]; rfl
      rw [e2]
      refine ⟨WF.fresh (le_min hak hbk) aw an am ac ha.sinv, by simp [an, bn], by simp [aw, bw], by simp [am, bm], rfl⟩
    · obtain ⟨s1, s2, s3, s4, s5⟩ := shrinkToK_live (v := v) (k0 := b.k) ac hak hbk hd
      refine ⟨WF.live (by rw [s2]; exact le_min hak hbk) (by rw [s5, s2]; exact s1) (by rw [s5, s3]; exact amw) (by rw [s4]; exact an),
        by rw [s4, bn, Nat.add_zero], by rw [s3, bw, add_zero], ?_, s2⟩
      rw [s5, bm]; exact (max_eq_left (le_of_lt ac.mpos)).symm
  · have e0 : Num.eq b.cumWt (zero : Rat) = false := by simp [ne_of_gt bc.wpos]
    rcases ha.fresh_or_live with ⟨aw, an, am, -⟩ | ⟨ac, amw, an⟩
    · -- a is empty: the result is b with k lowered
      have e1 : Num.lt a.cumWt b.cumWt = true := by simp [aw, bc.wpos]
      have e2 : Num.eq a.cumWt (zero : Rat) = true := by simp [aw]
      have e : mergeSk v a b d = shrinkToK v b a.k d := by
        unfold mergeSk; simp only [e0, e1, e2, hv2, Bool.and_self, if_true]; rfl
      rw [e]
      obtain ⟨s1, s2, s3, s4, s5⟩ := shrinkToK_live (v := v) (k0 := a.k) bc hbk hak hd
      refine ⟨WF.live (by rw [s2]; exact le_min hbk hak) (by rw [s5, s2]; exact s1) (by rw [s5, s3]; exact bmw) (by rw [s4]; exact bn),
        by rw [s4, an, Nat.zero_add], by rw [s3, aw, zero_add], ?_, by rw [s2, min_comm]⟩
      rw [s5, am]; exact (max_eq_right (le_of_lt bc.mpos)).symm
    · obtain ⟨m1, m2, m3, m4, m5, -⟩ := mergeSk_live (v := v) (d := d) ac hak bc hbk hd
      have m5' := m5 hv1
      refine ⟨WF.live (by rw [m4]; exact le_min hak hbk) (by rw [m5', m4]; exact m1) ?_ (by rw [m3]; omega), m3, m2, m5', m4⟩
      rw [m5', m2]
      exact max_le (by linarith [bc.wpos]) (by linarith [ac.wpos])

theorem serde_wf {s : Sketch Rat} (h : WF P s) :
    ∃ s', serde s = some s' ∧ WF P s' ∧ s'.n = s.n ∧ s'.cumWt = s.cumWt ∧ s'.wtMax = s.wtMax ∧ s'.k = s.k := by
  cases h with
  | fresh hk hw hn hm hc hs =>
    refine ⟨Sketch.fresh s.k, by unfold serde; simp [hn], wf_fresh hk, by simp [Sketch.fresh, hn], by simp [Sketch.fresh, hw],
      by simp [Sketch.fresh, hm], rfl⟩
  | live hk hcore hmw hn =>
    exact ⟨s, serde_live hcore.sinv hn, WF.live hk hcore hmw hn, rfl, rfl, rfl, rfl⟩

/-- With the repaired merge every history (any tree of updates, merges in any direction, resets, serialization points)
yields a well-formed sketch whose counters are what the history says. -/
theorem hist_agrees {v : Variant} (hv1 : v.mergeSetsWtMax = true) (hv2 : v.mergeEmptyShrinks = true) :
    ∀ h : Hist Rat, h.OK v → Agrees (· ∈ h.items) (h.eval v) h.cnt h.wt h.wmax h.kmin := by
  intro h
  induction h with
  | fresh k =>
    intro hk
    exact ⟨wf_fresh hk, rfl, by simp [Hist.eval, Sketch.fresh, Hist.wt], by simp [Hist.eval, Sketch.fresh, Hist.wmax], rfl⟩
  | upd h u ih =>
    intro hok
    obtain ⟨h1, hw, hd⟩ := hok
    have a := ih h1
    have awf : WF (· ∈ (Hist.upd h u).items) (h.eval v) := a.wf.mono (fun x hx => by simp [Hist.items, hx])
    obtain ⟨u1, -, u3, u4, u5, u6⟩ := updateOr_wf (v := v) (u := u) awf hw (by simp [Hist.items]) hd
    exact ⟨u1, by simp only [Hist.eval, Hist.cnt]; rw [u3, a.n], by simp only [Hist.eval, Hist.wt]; rw [u4, a.w],
      by simp only [Hist.eval, Hist.wmax]; rw [u5, a.m], by simp only [Hist.eval, Hist.kmin]; rw [u6, a.k]⟩
  | merge x y d ihx ihy =>
    intro hok
    obtain ⟨hx, hy, hd⟩ := hok
    have ax := ihx hx
    have ay := ihy hy
    have wx : WF (· ∈ (Hist.merge x y d).items) (x.eval v) := ax.wf.mono (fun z hz => by simp [Hist.items, hz])
    have wy : WF (· ∈ (Hist.merge x y d).items) (y.eval v) := ay.wf.mono (fun z hz => by simp [Hist.items, hz])
    obtain ⟨m1, m2, m3, m4, m5⟩ := mergeSk_wf hv1 hv2 wx wy hd
    exact ⟨m1, by simp only [Hist.eval, Hist.cnt]; rw [m2, ax.n, ay.n], by simp only [Hist.eval, Hist.wt]; rw [m3, ax.w, ay.w],
      by simp only [Hist.eval, Hist.wmax]; rw [m4, ax.m, ay.m], by simp only [Hist.eval, Hist.kmin]; rw [m5, ax.k, ay.k]⟩
  | reset h ih =>
    intro hok
    have a := ih hok
    refine ⟨?_, rfl, by simp [Hist.eval, Sketch.reset, Sketch.fresh, Hist.wt], by simp [Hist.eval, Sketch.reset, Sketch.fresh, Hist.wmax], ?_⟩
    · simp only [Hist.eval, Sketch.reset]; exact wf_fresh a.wf.kpos
    · simp only [Hist.eval, Sketch.reset, Sketch.fresh, Hist.kmin]; exact a.k
  | serde h ih =>
    intro hok
    have a := ih hok
    obtain ⟨s', e, w, e1, e2, e3, e4⟩ := serde_wf a.wf
    simp only [Hist.eval, e]
    exact ⟨w, by rw [e1]; exact a.n, by rw [e2]; exact a.w, by rw [e3]; exact a.m, by rw [e4]; exact a.k⟩

end DS.Ebpps

import DSGen.Consts

import DSModel.Util
import DSModel.Murmur3
import DSModel.Canon
import DSModel.Theta.Update
import DSModel.Theta.Driver

#!/usr/bin/env python3
"""Render the per-property 'as built' table (block ASBUILT of DESIGN.md) from the specs, the Lean sources and the evidence files."""
import json, os, re, sys, glob
ROOT = os.path.dirname(os.path.dirname(os.path.abspath(__file__)))
sys.path.insert(0, ROOT)
from vlib import claims, core
import importlib

rows = ["| Property | Parts (harness → model executable) | Property theorem files | Obligations (last run) | Translated families | Quick wall (s) |",
        "|---|---|---|---|---|---|"]
for pid in claims.ALL:
    try:
        mod = importlib.import_module("vlib.props." + pid.lower())
    except Exception as e:
        rows.append("| %s | (spec missing: %s) | | | | |" % (pid, e))
        continue
    sp = mod.SPEC
    parts = []
    for p in sp.parts():
        parts.append("%s%s (%s → %s)" % (p.name, "*" if getattr(p, "advisory", False) else "", getattr(p, "harness", "?"), getattr(p, "model_exe", "?")))
    props = [m.replace("DSProofs.", "") for m in sp.props_modules]
    ev = {}
    try:
        ev = json.load(open(os.path.join(ROOT, "evidence", pid + ".json")))
    except Exception:
        pass
    cov = ev.get("coverage", {})
    rows.append("| %s | %s | %s | %s/%s | %s | %s |" % (
        pid, "; ".join(parts), ", ".join(props), cov.get("discharged", "?"), cov.get("obligations", "?"),
        ", ".join(sp.tfamilies), ev.get("wall_s", "?") if ev.get("tier") == "quick" else "(%s: %s)" % (ev.get("tier"), ev.get("wall_s"))))
flags = []
for f in sorted(glob.glob(os.path.join(ROOT, "lean", "DSGen", "*.lean"))):
    for m in re.finditer(r"def (\w+) : Bool := (true|false)", open(f).read()):
        flags.append("`%s` = %s" % (m.group(1), m.group(2)))
nl = sum(1 for _ in glob.glob(os.path.join(ROOT, "lean", "**", "*.lean"), recursive=True))
loc = 0
for f in glob.glob(os.path.join(ROOT, "lean", "**", "*.lean"), recursive=True):
    if "/.lake/" in f:
        continue
    loc += sum(1 for _ in open(f, errors="replace"))
block = ("<!-- ASBUILT:BEGIN -->\n" + "\n".join(rows) + "\n\n(* = advisory part: its tie is reported in the evidence, not an alarm.)  Lean sources: %d lines in %d files "
         "(models, lemmas, property theorems, generated constants).\n\nSource-shape flags read from /repo's headers by the translator on the last run "
         "(a model definition follows each flag; `true` is the repaired shape for every flag except `req_LAZY_COMPRESSION` and "
         "`tdigest_QUANTILE_WEIGHTS_AS_W1_W2`, which name the shape literally): %s.\n<!-- ASBUILT:END -->" % (loc, nl, ", ".join(flags)))
p = os.path.join(ROOT, "DESIGN.md")
s = open(p).read()
pat = re.compile(r"<!-- ASBUILT:BEGIN -->.*?<!-- ASBUILT:END -->", re.S)
if pat.search(s):
    s = pat.sub(lambda m: block, s)
else:
    s += "\n" + block + "\n"
open(p, "w").write(s)
print("DESIGN.md: as-built table, %d properties, %d flags, %d Lean lines" % (len(claims.ALL), len(flags), loc))

#!/usr/bin/env python3
"""Render known_findings.json and seeded/*/meta.json into the marked blocks of DESIGN.md (Appendix D and E)."""
import json, os, re, glob
ROOT = os.path.dirname(os.path.dirname(os.path.abspath(__file__)))
k = json.load(open(os.path.join(ROOT, "known_findings.json")))
rows = ["| Property | Key | Status | Commit in /repo | What failed |", "|---|---|---|---|---|"]
for e in sorted(k, key=lambda e: (e["property"], e["status"], e["key"])):
    rows.append("| %s | `%s` | %s | %s | %s |" % (e["property"], e["key"], e["status"], e.get("commit", "–"),
                                                  " ".join(e["what"].split())[:330].replace("|", "\\|")))
nfix = sum(1 for e in k if e["status"] == "fixed")
nopen = sum(1 for e in k if e["status"] == "open")
blockD = ("<!-- FINDINGS:BEGIN -->\n%d entries: %d fixed (each by its own unguarded `fix:` commit in /repo; a fixed entry suppresses nothing), %d open "
          "(printed as `KNOWN-FINDING:` by the check, exit 0).\n\n" % (len(k), nfix, nopen)) + "\n".join(rows) + "\n<!-- FINDINGS:END -->"
rows = ["| Seeded change | Property | What it needs to manifest | Confirmed | Caught by |", "|---|---|---|---|---|"]
for d in sorted(glob.glob(os.path.join(ROOT, "seeded", "*"))):
    mf = os.path.join(d, "meta.json")
    if not os.path.exists(mf):
        continue
    m = json.load(open(mf))
    ci = m.get("confirmed_by_integrator", {})
    rows.append("| `%s` | %s | %s | %s | %s |" % (os.path.basename(d), m.get("property"), " ".join(str(m.get("needs", "")).split())[:300].replace("|", "\\|"),
                                                 " ".join((ci.get("tests_rerun", "") + "; demo: " + ci.get("demo", "")).split())[:200].replace("|", "\\|"),
                                                 " ".join(str(ci.get("check_result", "")).split())[:160].replace("|", "\\|")))
blockE = "<!-- SEEDED:BEGIN -->\n" + "\n".join(rows) + "\n<!-- SEEDED:END -->"
p = os.path.join(ROOT, "DESIGN.md")
s = open(p).read()
for tag, block in (("FINDINGS", blockD), ("SEEDED", blockE)):
    pat = re.compile(r"<!-- %s:BEGIN -->.*?<!-- %s:END -->" % (tag, tag), re.S)
    if pat.search(s):
        s = pat.sub(lambda m: block, s)
    else:
        s += "\n" + block + "\n"
open(p, "w").write(s)
print("DESIGN.md: %d findings, %d seeded changes" % (len(k), len(rows) - 2))

#!/usr/bin/env python3
"""Merge a builder branch into main, resolving the standard conflicts:
evidence/*.json -> ours; lean/DSGen/_status.json -> removed (generated); known_findings.json -> union of entries."""
import json, subprocess, sys, os
ROOT = os.path.dirname(os.path.dirname(os.path.abspath(__file__)))


def sh(*a, check=False):
    return subprocess.run(a, cwd=ROOT, stdout=subprocess.PIPE, stderr=subprocess.STDOUT, text=True)


br = sys.argv[1]
ours_kf = json.loads(sh("git", "show", "HEAD:known_findings.json").stdout or "[]")
theirs = sh("git", "show", br + ":known_findings.json")
theirs_kf = json.loads(theirs.stdout) if theirs.returncode == 0 else []
r = sh("git", "merge", "--no-edit", "--no-commit", br)
print(r.stdout[-1500:])
st = sh("git", "status", "--porcelain").stdout.splitlines()
for l in st:
    code, path = l[:2], l[3:]
    if code in ("UU", "AA", "DU", "UD", "AU", "UA"):
        if path.startswith("evidence/"):
            sh("git", "checkout", "--ours", path); sh("git", "add", path)
        elif path.endswith("_status.json"):
            sh("git", "rm", "-q", "--cached", path)
            try:
                os.remove(os.path.join(ROOT, path))
            except OSError:
                pass
        elif path == "known_findings.json":
            pass
        elif path == "MANIFEST.json":
            sh("git", "checkout", "--ours", path); sh("git", "add", path)
        else:
            print("UNRESOLVED", code, path)
# union of known findings (ours wins on same (property,key))
seen = {(e["property"], e["key"]) for e in ours_kf}
merged = list(ours_kf) + [e for e in theirs_kf if (e["property"], e["key"]) not in seen]
json.dump(merged, open(os.path.join(ROOT, "known_findings.json"), "w"), indent=1)
sh("git", "add", "known_findings.json")
left = [l for l in sh("git", "status", "--porcelain").stdout.splitlines() if l[:2] in ("UU", "AA", "DU", "UD", "AU", "UA")]
if left:
    print("still conflicted:", left)
    sys.exit(1)
print(sh("git", "commit", "-qm", "Merge %s" % br).stdout)
print("merged", br, "known findings:", len(merged))

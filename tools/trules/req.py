"""REQ family: constants of req_common.hpp / req_sketch.hpp / req_sketch_impl.hpp used as parameters of the Lean model."""
import re

RULES = [
    ("req_MIN_K", "req/include/req_common.hpp", "MIN_K", "nat"),
    ("req_INIT_NUM_SECTIONS", "req/include/req_common.hpp", "INIT_NUM_SECTIONS", "nat"),
    ("req_MULTIPLIER", "req/include/req_common.hpp", "MULTIPLIER", "nat"),
    ("req_FIXED_RSE_FACTOR", "req/include/req_sketch.hpp", "FIXED_RSE_FACTOR", "rat"),
]


def generate(repo, T):
    body = T.gen_consts(repo, RULES)
    extra = []
    hdr = T.strip_comments(T.read(repo, "req/include/req_sketch.hpp"))
    m = re.search(r"\bLAZY_COMPRESSION\s*=\s*(true|false)\s*;", hdr)
    if not m:
        T.fail("LAZY_COMPRESSION = true|false not found in req/include/req_sketch.hpp")
    else:
        extra.append("def req_LAZY_COMPRESSION : Bool := %s" % m.group(1))
    impl = T.strip_comments(T.read(repo, "req/include/req_sketch_impl.hpp"))
    m = re.search(r"relative_rse_factor\(\)\s*\{\s*return\s+sqrt\(\s*([0-9.eE+-]+)\s*/\s*req_constants::INIT_NUM_SECTIONS\s*\)\s*;", impl)
    if not m:
        T.fail("relative_rse_factor(): `return sqrt(<literal> / req_constants::INIT_NUM_SECTIONS);` not found in req_sketch_impl.hpp")
    else:
        v = T.parse_num_expr(m.group(1))
        extra.append("def req_REL_RSE_num : Nat := %d" % v.numerator)
        extra.append("def req_REL_RSE_den : Nat := %d" % v.denominator)
    # the coin rule and the section schedule are code, not data: they are tied by the correspondence check;
    # here we only pin the two literals the model relies on structurally
    comp = T.strip_comments(T.read(repo, "req/include/req_compactor_impl.hpp"))
    if not re.search(r"section_size_raw_\s*/\s*sqrtf\(\s*2\s*\)", comp):
        T.fail("ensure_enough_sections: `section_size_raw_ / sqrtf(2)` not found in req_compactor_impl.hpp")
    return {"Req.lean": body.replace("\nend DSGen", "\n".join(extra) + "\n\nend DSGen")}

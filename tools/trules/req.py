"""REQ family: constants of req_common.hpp / req_sketch.hpp / req_sketch_impl.hpp used as parameters of the Lean model."""
import re

RULES = [
    ("req_MIN_K", "req/include/req_common.hpp", "MIN_K", "nat"),
    ("req_INIT_NUM_SECTIONS", "req/include/req_common.hpp", "INIT_NUM_SECTIONS", "nat"),
    ("req_MULTIPLIER", "req/include/req_common.hpp", "MULTIPLIER", "nat"),
    ("req_FIXED_RSE_FACTOR", "req/include/req_sketch.hpp", "FIXED_RSE_FACTOR", "rat"),
]


def generate(repo, T):
    body = T.gen_consts(repo, RULES)
    extra = []
    hdr = T.strip_comments(T.read(repo, "req/include/req_sketch.hpp"))
    m = re.search(r"\bLAZY_COMPRESSION\s*=\s*(true|false)\s*;", hdr)
    if not m:
        T.fail("LAZY_COMPRESSION = true|false not found in req/include/req_sketch.hpp")
    else:
        extra.append("def req_LAZY_COMPRESSION : Bool := %s" % m.group(1))
    impl = T.strip_comments(T.read(repo, "req/include/req_sketch_impl.hpp"))
    m = re.search(r"relative_rse_factor\(\)\s*\{\s*return\s+sqrt\(\s*([0-9.eE+-]+)\s*/\s*req_constants::INIT_NUM_SECTIONS\s*\)\s*;", impl)
    if not m:
        T.fail("relative_rse_factor(): `return sqrt(<literal> / req_constants::INIT_NUM_SECTIONS);` not found in req_sketch_impl.hpp")
    else:
        v = T.parse_num_expr(m.group(1))
        extra.append("def req_REL_RSE_num : Nat := %d" % v.numerator)
        extra.append("def req_REL_RSE_den : Nat := %d" % v.denominator)
    # the coin rule and the section schedule are code, not data: they are tied by the correspondence check;
    # here we only pin the two literals the model relies on structurally
    comp = T.strip_comments(T.read(repo, "req/include/req_compactor_impl.hpp"))
    if not re.search(r"section_size_raw_\s*/\s*sqrtf\(\s*2\s*\)", comp):
        T.fail("ensure_enough_sections: `section_size_raw_ / sqrtf(2)` not found in req_compactor_impl.hpp")
    # ---- source shapes of the two repaired defects (pinned shape = flag false, repaired shape = flag true, anything else = failure)
    def norm(x):
        return "".join(x.split())
    # (a) const_iterator: does it skip empty compactors (constructor AND operator++)?
    mc = re.search(r"const_iterator::const_iterator\(LevelsIterator begin, LevelsIterator end\):(.*?)\n\}?\s*\n\s*template", impl, flags=re.S)
    mi = re.search(r"const_iterator::operator\+\+\(\)\s*->\s*const_iterator&\s*\{(.*?)return \*this;", impl, flags=re.S)
    SKIP = "while(levels_it_!=levels_end_&&(*levels_it_).begin()==(*levels_it_).end())++levels_it_;"
    CT_PINNED = "levels_it_(begin),levels_end_(end),compactor_it_(begin==end?nullptr:(*levels_it_).begin()){"
    CT_REPAIRED = "levels_it_(begin),levels_end_(end),compactor_it_(nullptr){" + SKIP + "if(levels_it_!=levels_end_)compactor_it_=(*levels_it_).begin();"
    INC_PINNED = "++compactor_it_;if(compactor_it_==(*levels_it_).end()){++levels_it_;if(levels_it_!=levels_end_)compactor_it_=(*levels_it_).begin();}"
    INC_REPAIRED = "++compactor_it_;if(compactor_it_==(*levels_it_).end()){++levels_it_;" + SKIP + "if(levels_it_!=levels_end_)compactor_it_=(*levels_it_).begin();}"
    flag_iter = "false"
    if not mc or not mi:
        T.fail("req_sketch::const_iterator constructor / operator++ not found in req_sketch_impl.hpp")
    else:
        ct, inc = norm(mc.group(1)).rstrip("}"), norm(mi.group(1))
        if ct == CT_PINNED.rstrip("}") + "" and inc == INC_PINNED:
            flag_iter = "false"
        elif ct == CT_REPAIRED and inc == INC_REPAIRED:
            flag_iter = "true"
        else:
            T.fail("req_sketch::const_iterator has an unknown shape (constructor %r, operator++ %r)" % (ct[:200], inc[:200]))
    extra.append("/-- the const_iterator skips empty compactors in its constructor and in operator++ (true) or starts inside compactor 0 (false) -/")
    extra.append("def req_ITER_SKIPS_EMPTY : Bool := %s" % flag_iter)
    # (b) get_quantile: range check of the rank
    mq = re.search(r"::get_quantile\(double rank, bool inclusive\) const -> quantile_return_type \{.*?if \(([^;{}]*)\) \{\s*throw std::invalid_argument\(\"Normalized rank", impl, flags=re.S)
    flag_nan = "false"
    if not mq:
        T.fail("req_sketch::get_quantile range check not found in req_sketch_impl.hpp")
    else:
        g = norm(mq.group(1))
        if g == "(rank<0.0)||(rank>1.0)":
            flag_nan = "false"
        elif g == "!(rank>=0.0&&rank<=1.0)":
            flag_nan = "true"
        else:
            T.fail("req_sketch::get_quantile range check has an unknown shape: %r" % mq.group(1))
    # (c) regular req_compactor constructor: initial coin constant (pinned) or drawn (repaired, through the verification hook)
    mk = re.search(r"req_compactor<T, C, A>::req_compactor\(bool hra, uint8_t lg_weight, uint32_t section_size,.*?hra_\(hra\),(.*?)sorted_\(sorted\),", comp, flags=re.S)
    flag_coin = "false"
    if not mk:
        T.fail("regular req_compactor constructor (initialiser of coin_) not found in req_compactor_impl.hpp")
    else:
        g = norm(mk.group(1))
        if g == "coin_(false),":
            flag_coin = "false"
        elif g == "#ifdefDATASKETCHES_VERIFcoin_(random_utils::verif_random_bit()),#elsecoin_(random_utils::random_bit()),#endif":
            flag_coin = "true"
        elif g == "coin_(random_utils::random_bit()),":
            T.fail("req_compactor constructor draws its initial coin but not through the DATASKETCHES_VERIF hook (H3 missing): the harness cannot supply it")
        else:
            T.fail("req_compactor constructor initialises coin_ in an unknown shape: %r" % mk.group(1))
    extra.append("/-- the regular req_compactor constructor draws its initial coin (true) or starts with the constant `coin_(false)` (false) -/")
    extra.append("def req_INITIAL_COIN_RANDOM : Bool := %s" % flag_coin)
    extra.append("/-- get_quantile rejects a rank unless `rank >= 0 && rank <= 1` (true: NaN rejected) or only if `rank < 0 || rank > 1` (false: NaN passes) -/")
    extra.append("def req_NAN_RANK_REJECTED : Bool := %s" % flag_nan)
    return {"Req.lean": body.replace("\nend DSGen", "\n".join(extra) + "\n\nend DSGen")}

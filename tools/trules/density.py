"""Density family: the constants the Lean model takes from the CURRENT headers.

* density_MIN_K        smallest k accepted by check_k (`if (k < 2) throw`) -- model parameter; the theorems need 1 <= MIN_K
* wire constants (preamble sizes, family id, serial version): used only to read the level sizes out of a serialized image in the harness
  (pinned by C10, not by this property)
Everything else the model transcribes (loop guard, level selection, is_empty, dimension checks) is algorithmic and is tied by the
correspondence check, not here: a behaviour-preserving restructuring of those statements must stay silent.
"""
import re

RULES = [
    ("density_PREAMBLE_INTS_SHORT", "density/include/density_sketch.hpp", "PREAMBLE_INTS_SHORT", "nat"),
    ("density_PREAMBLE_INTS_LONG", "density/include/density_sketch.hpp", "PREAMBLE_INTS_LONG", "nat"),
    ("density_FAMILY_ID", "density/include/density_sketch.hpp", "FAMILY_ID", "nat"),
    ("density_SERIAL_VERSION", "density/include/density_sketch.hpp", "SERIAL_VERSION", "nat"),
]


def generate(repo, T):
    base = T.gen_consts(repo, RULES)
    impl = T.strip_comments(T.read(repo, "density/include/density_sketch_impl.hpp"))
    extra = []
    m = re.search(r"check_k\s*\(\s*uint16_t\s+k\s*\)\s*\{\s*if\s*\(\s*k\s*<\s*(\d+)\s*\)", impl)
    if not m:
        T.fail("density: cannot find `if (k < N)` in check_k")
    else:
        extra.append("def density_MIN_K : Nat := %d" % int(m.group(1)))
    return {"Density.lean": base.replace("\nend DSGen", "\n".join(extra) + "\n\nend DSGen")}

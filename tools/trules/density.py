"""Density family: the constants the Lean model takes from the CURRENT headers.

* density_MIN_K        smallest k accepted by check_k (`if (k < 2) throw`) -- model parameter; the theorems need 1 <= MIN_K
* density_WEIGHT_BASE  base of the level weight reported by the iterator and used by get_estimate (`1ULL << height_`, `1 << height`)
* wire constants (preamble sizes, family id, serial version): used only to read the level sizes out of a serialized image in the harness
  (pinned by C10, not by this property)
The three statement shapes the model transcribes (loop guards of update/merge, is_empty, the dimension checks) are also matched here, so an edit
that changes their shape is a translation failure (= broken tie), never silently ignored.
"""
import re

RULES = [
    ("density_PREAMBLE_INTS_SHORT", "density/include/density_sketch.hpp", "PREAMBLE_INTS_SHORT", "nat"),
    ("density_PREAMBLE_INTS_LONG", "density/include/density_sketch.hpp", "PREAMBLE_INTS_LONG", "nat"),
    ("density_FAMILY_ID", "density/include/density_sketch.hpp", "FAMILY_ID", "nat"),
    ("density_SERIAL_VERSION", "density/include/density_sketch.hpp", "SERIAL_VERSION", "nat"),
]


def generate(repo, T):
    base = T.gen_consts(repo, RULES)
    impl = T.strip_comments(T.read(repo, "density/include/density_sketch_impl.hpp"))
    extra = []
    m = re.search(r"check_k\s*\(\s*uint16_t\s+k\s*\)\s*\{\s*if\s*\(\s*k\s*<\s*(\d+)\s*\)", impl)
    if not m:
        T.fail("density: cannot find `if (k < N)` in check_k")
    else:
        extra.append("def density_MIN_K : Nat := %d" % int(m.group(1)))
    sh = re.findall(r"\b1(?:ULL)?\s*<<\s*height_?\b", impl)
    if len(sh) != 2:
        T.fail("density: expected exactly two `1 << height` weight expressions (iterator, get_estimate), found %d" % len(sh))
    else:
        extra.append("def density_WEIGHT_BASE : Nat := 2")
    guards = re.findall(r"while\s*\(\s*num_retained_\s*>=\s*k_\s*\*\s*levels_\.size\(\)\s*\)\s*compact\(\)\s*;", impl)
    if len(guards) != 2:
        T.fail("density: expected the guard `while (num_retained_ >= k_ * levels_.size()) compact();` in update and merge, found %d" % len(guards))
    if not re.search(r"is_empty\(\)\s*const\s*\{\s*return\s+num_retained_\s*==\s*0\s*;", impl):
        T.fail("density: is_empty() is no longer `num_retained_ == 0`")
    if not re.search(r"if\s*\(\s*levels_\[height\]\.size\(\)\s*>=\s*k_\s*\)", impl):
        T.fail("density: compact() no longer selects the first level with size >= k_")
    return {"Density.lean": base.replace("\nend DSGen", "\n".join(extra) + "\n\nend DSGen")}

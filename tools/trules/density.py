"""Density family: the constants the Lean model takes from the CURRENT headers.

* density_MIN_K        smallest k accepted by check_k (`if (k < 2) throw`) -- model parameter; the theorems need 1 <= MIN_K
* density_MERGE_SKIPS_ON_N / density_QUERY_CHECKS_DIM / density_EST_WEIGHT_64   the three statements in which this property's open
                       findings live (early return of merge; dimension check of get_estimate; integer type of the level weight in
                       get_estimate).  They are model parameters so that the model follows the code before and after the proposed fixes
                       (the theorems are proved for both values; Props/C20.lean selects by these constants)
* density_COMPACT_POPS_EMPTY_TOP   compact() drops empty levels from the top after compact_level (repair of the C09 finding
                       `density/trailing-empty-level-not-restored`); pinned shape: never shrinks; any third shape is a translation failure
* wire constants (preamble sizes, family id, serial version): used only to read the level sizes out of a serialized image in the harness
  (pinned by C10, not by this property)
Everything else the model transcribes (loop guard, level selection, is_empty, dimension checks) is algorithmic and is tied by the
correspondence check, not here: a behaviour-preserving restructuring of those statements must stay silent.
"""
import re

RULES = [
    ("density_PREAMBLE_INTS_SHORT", "density/include/density_sketch.hpp", "PREAMBLE_INTS_SHORT", "nat"),
    ("density_PREAMBLE_INTS_LONG", "density/include/density_sketch.hpp", "PREAMBLE_INTS_LONG", "nat"),
    ("density_FAMILY_ID", "density/include/density_sketch.hpp", "FAMILY_ID", "nat"),
    ("density_SERIAL_VERSION", "density/include/density_sketch.hpp", "SERIAL_VERSION", "nat"),
]


def generate(repo, T):
    base = T.gen_consts(repo, RULES)
    impl = T.strip_comments(T.read(repo, "density/include/density_sketch_impl.hpp"))
    extra = []
    m = re.search(r"check_k\s*\(\s*uint16_t\s+k\s*\)\s*\{\s*if\s*\(\s*k\s*<\s*(\d+)\s*\)", impl)
    if not m:
        T.fail("density: cannot find `if (k < N)` in check_k")
    else:
        extra.append("def density_MIN_K : Nat := %d" % int(m.group(1)))
    def body(name):
        m2 = re.search(r"density_sketch<T, K, A>::%s\s*\([^)]*\)\s*(?:const\s*)?\{" % name, impl)
        if not m2:
            T.fail("density: cannot find the definition of %s" % name)
            return ""
        depth, i = 1, m2.end()
        while i < len(impl) and depth:
            depth += {"{": 1, "}": -1}.get(impl[i], 0)
            i += 1
        return impl[m2.end():i]
    mb = body("merge")
    m = re.search(r"if\s*\(([^;{]*?)\)\s*return\s*;", mb)
    if not m:
        T.fail("density: merge has no early `if (...) return;`")
    else:
        cond = m.group(1)
        if re.search(r"\bn_\s*==\s*0|get_n\(\)\s*==\s*0", cond):
            extra.append("def density_MERGE_SKIPS_ON_N : Bool := true")
        elif re.search(r"is_empty\(\)|num_retained_\s*==\s*0|get_num_retained\(\)\s*==\s*0", cond):
            extra.append("def density_MERGE_SKIPS_ON_N : Bool := false")
        else:
            T.fail("density: early return of merge tests neither emptiness nor n: %r" % cond)
    eb = body("get_estimate")
    extra.append("def density_QUERY_CHECKS_DIM : Bool := %s" % ("true" if re.search(r"size\(\)\s*!=\s*dim_|dim_\s*!=\s*\w+\.size\(\)", eb) else "false"))
    if re.search(r"1ULL\s*<<\s*height|uint64_t\s*[>(]?\s*\(?1\)?\s*\)?\s*<<\s*height", eb):
        extra.append("def density_EST_WEIGHT_64 : Bool := true")
    elif re.search(r"\b1\s*<<\s*height", eb):
        extra.append("def density_EST_WEIGHT_64 : Bool := false")
    else:
        T.fail("density: get_estimate no longer weights a level by `1 << height` / `1ULL << height`")
    cb = body("compact")
    pops = re.findall(r"while\s*\(\s*levels_\.size\(\)\s*>\s*1\s*&&\s*levels_\.back\(\)\.empty\(\)\s*\)\s*levels_\.pop_back\(\)\s*;", cb)
    shrink = re.findall(r"pop_back|erase|resize|clear\s*\(", cb)
    if len(pops) == 1 and len(shrink) == 1 and re.search(r"compact_level\(height\);\s*while", cb):
        extra.append("def density_COMPACT_POPS_EMPTY_TOP : Bool := true")
    elif not shrink:
        extra.append("def density_COMPACT_POPS_EMPTY_TOP : Bool := false")
    else:
        T.fail("density: compact() shrinks the level vector in a shape that is neither the pinned one (never) nor "
               "`compact_level(height); while (levels_.size() > 1 && levels_.back().empty()) levels_.pop_back();`: %r" % shrink)
    return {"Density.lean": base.replace("\nend DSGen", "\n".join(extra) + "\n\nend DSGen")}

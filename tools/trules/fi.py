"""Frequent-items family: load factor, purge sample size, epsilon factor, minimum map size, iterator stride constant.
All of them are parameters of the Lean models (DSModel/Fi/*) and the theorems are parametric in them under
decidable side conditions that are discharged on the generated values (DSProofs/Props/C12.lean)."""
RULES = [
    ("fi_LOAD_FACTOR", "fi/include/reverse_purge_hash_map.hpp", "LOAD_FACTOR", "rat"),
    ("fi_DRIFT_LIMIT", "fi/include/reverse_purge_hash_map.hpp", "DRIFT_LIMIT", "nat"),
    ("fi_MAX_SAMPLE_SIZE", "fi/include/reverse_purge_hash_map.hpp", "MAX_SAMPLE_SIZE", "nat"),
    ("fi_GOLDEN_RATIO_RECIPROCAL", "fi/include/reverse_purge_hash_map.hpp", "GOLDEN_RATIO_RECIPROCAL", "rat"),
    ("fi_LG_MIN_MAP_SIZE", "fi/include/frequent_items_sketch.hpp", "LG_MIN_MAP_SIZE", "nat"),
    ("fi_EPSILON_FACTOR", "fi/include/frequent_items_sketch.hpp", "EPSILON_FACTOR", "rat"),
]


def generate(repo, T):
    return {"Fi.lean": T.gen_consts(repo, RULES)}

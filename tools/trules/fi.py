"""Frequent-items family: load factor, purge sample size, epsilon factor, minimum map size, iterator stride constant.
All of them are parameters of the Lean models (DSModel/Fi/*) and the theorems are parametric in them under
decidable side conditions that are discharged on the generated values (DSProofs/Props/C12.lean)."""
RULES = [
    ("fi_LOAD_FACTOR", "fi/include/reverse_purge_hash_map.hpp", "LOAD_FACTOR", "rat"),
    ("fi_DRIFT_LIMIT", "fi/include/reverse_purge_hash_map.hpp", "DRIFT_LIMIT", "nat"),
    ("fi_MAX_SAMPLE_SIZE", "fi/include/reverse_purge_hash_map.hpp", "MAX_SAMPLE_SIZE", "nat"),
    ("fi_GOLDEN_RATIO_RECIPROCAL", "fi/include/reverse_purge_hash_map.hpp", "GOLDEN_RATIO_RECIPROCAL", "rat"),
    ("fi_LG_MIN_MAP_SIZE", "fi/include/frequent_items_sketch.hpp", "LG_MIN_MAP_SIZE", "nat"),
    ("fi_EPSILON_FACTOR", "fi/include/frequent_items_sketch.hpp", "EPSILON_FACTOR", "rat"),
]


def generate(repo, T):
    import re
    txt = T.gen_consts(repo, RULES)
    # source shape of is_empty(): `map.get_num_active() == 0` (pinned) or `total_weight == 0` (repaired)
    src = T.strip_comments(T.read(repo, "fi/include/frequent_items_sketch_impl.hpp"))
    m = re.search(r"::is_empty\(\)\s*const\s*\{\s*return\s*([^;]+);", src)
    if not m:
        T.fail("frequent_items_sketch::is_empty() body not recognised")
        flag = "false"
    else:
        body = "".join(m.group(1).split())
        if body == "map.get_num_active()==0":
            flag = "false"
        elif body == "total_weight==0":
            flag = "true"
        else:
            T.fail("frequent_items_sketch::is_empty() has an unknown shape: %r" % m.group(1))
            flag = "false"
    txt = txt.replace("end DSGen", "/-- is_empty() is `total_weight == 0` (true) or `map.get_num_active() == 0` (false) -/\ndef fi_EMPTY_BY_TOTAL : Bool := %s\n\nend DSGen" % flag)
    return {"Fi.lean": txt}

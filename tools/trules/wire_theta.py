"""Wire group `theta` (Theta / Tuple / array-of-doubles images, C09-C11):

  DSGen/WireTheta.lean  every wire constant of the three families as the CURRENT headers define it
                        (serial versions, family / type ids, flag bit positions, parser byte offsets,
                        the preamble-longs literals of the writers)
  DSGen/BitPackIR.lean  bit_packing.hpp: pack_bits_1..63 / unpack_bits_1..63 as lists of IR statements and
                        the two switch dispatchers as (case, routine) tables.

Any line of bit_packing.hpp outside the two hand-modelled scalar routines (`pack_bits`, `unpack_bits`; tied
differentially through the harness) that is not one of the recognised statement shapes is a translation failure.
"""
import re

TH = "theta/include/theta_sketch.hpp"
PA = "theta/include/compact_theta_sketch_parser.hpp"
TI = "theta/include/theta_sketch_impl.hpp"
TU = "tuple/include/tuple_sketch.hpp"
TUI = "tuple/include/tuple_sketch_impl.hpp"
AO = "tuple/include/array_tuple_sketch.hpp"
AOI = "tuple/include/array_tuple_sketch_impl.hpp"
BP = "theta/include/bit_packing.hpp"

CONST_RULES = [
    ("wth_UNCOMPRESSED_SERIAL_VERSION", TH, "UNCOMPRESSED_SERIAL_VERSION", "nat"),
    ("wth_COMPRESSED_SERIAL_VERSION", TH, "COMPRESSED_SERIAL_VERSION", "nat"),
    ("wth_SKETCH_TYPE", TH, "SKETCH_TYPE", "nat"),
    ("wth_MAX_THETA", "theta/include/theta_constants.hpp", "MAX_THETA", "nat"),
    # parser (bytes / wrap path) has its own copies
    ("wthp_PRE_LONGS_BYTE", PA, "COMPACT_SKETCH_PRE_LONGS_BYTE", "nat"),
    ("wthp_SERIAL_VERSION_BYTE", PA, "COMPACT_SKETCH_SERIAL_VERSION_BYTE", "nat"),
    ("wthp_TYPE_BYTE", PA, "COMPACT_SKETCH_TYPE_BYTE", "nat"),
    ("wthp_FLAGS_BYTE", PA, "COMPACT_SKETCH_FLAGS_BYTE", "nat"),
    ("wthp_SEED_HASH_U16", PA, "COMPACT_SKETCH_SEED_HASH_U16", "nat"),
    ("wthp_SINGLE_ENTRY_U64", PA, "COMPACT_SKETCH_SINGLE_ENTRY_U64", "nat"),
    ("wthp_NUM_ENTRIES_U32", PA, "COMPACT_SKETCH_NUM_ENTRIES_U32", "nat"),
    ("wthp_ENTRIES_EXACT_U64", PA, "COMPACT_SKETCH_ENTRIES_EXACT_U64", "nat"),
    ("wthp_ENTRIES_ESTIMATION_U64", PA, "COMPACT_SKETCH_ENTRIES_ESTIMATION_U64", "nat"),
    ("wthp_THETA_U64", PA, "COMPACT_SKETCH_THETA_U64", "nat"),
    ("wthp_V4_ENTRY_BITS_BYTE", PA, "COMPACT_SKETCH_V4_ENTRY_BITS_BYTE", "nat"),
    ("wthp_V4_NUM_ENTRIES_BYTES_BYTE", PA, "COMPACT_SKETCH_V4_NUM_ENTRIES_BYTES_BYTE", "nat"),
    ("wthp_V4_THETA_U64", PA, "COMPACT_SKETCH_V4_THETA_U64", "nat"),
    ("wthp_V4_PACKED_DATA_EXACT_BYTE", PA, "COMPACT_SKETCH_V4_PACKED_DATA_EXACT_BYTE", "nat"),
    ("wthp_V4_PACKED_DATA_ESTIMATION_BYTE", PA, "COMPACT_SKETCH_V4_PACKED_DATA_ESTIMATION_BYTE", "nat"),
    ("wthp_IS_EMPTY_FLAG", PA, "COMPACT_SKETCH_IS_EMPTY_FLAG", "nat"),
    ("wthp_IS_ORDERED_FLAG", PA, "COMPACT_SKETCH_IS_ORDERED_FLAG", "nat"),
    ("wthp_TYPE", PA, "COMPACT_SKETCH_TYPE", "nat"),
    ("wtu_SERIAL_VERSION_LEGACY", TU, "SERIAL_VERSION_LEGACY", "nat"),
    ("wtu_SERIAL_VERSION", TU, "SERIAL_VERSION", "nat"),
    ("wtu_SKETCH_FAMILY", TU, "SKETCH_FAMILY", "nat"),
    ("wtu_SKETCH_TYPE", TU, "SKETCH_TYPE", "nat"),
    ("wtu_SKETCH_TYPE_LEGACY", TU, "SKETCH_TYPE_LEGACY", "nat"),
    ("wao_SERIAL_VERSION", AO, "SERIAL_VERSION", "nat"),
    ("wao_SKETCH_FAMILY", AO, "SKETCH_FAMILY", "nat"),
    ("wao_SKETCH_TYPE", AO, "SKETCH_TYPE", "nat"),
]

ENUM_RULES = [
    # (prefix, file, class-name regex that must precede the enum, expected enumerators are whatever the header lists)
    ("wth_flag", TH, r"class\s+compact_theta_sketch_alloc\b"),
    ("wtu_flag", TU, r"class\s+compact_tuple_sketch\b"),
    ("wao_flag", AO, r"class\s+compact_array_tuple_sketch\b"),
]

# writers' preamble-longs literals:  cond ? A : cond ? B : C   (three literals each)
PRE_RULES = [
    ("wth_pre_stream", TI, r"void\s+compact_theta_sketch_alloc<A>::serialize\(std::ostream& os\) const \{\s*const uint8_t preamble_longs = this->is_estimation_mode\(\) \? (\d+) : this->is_empty\(\) \|\| entries_\.size\(\) == 1 \? (\d+) : (\d+);"),
    ("wth_pre_bytes", TI, r"get_preamble_longs\(bool compressed\) const \{\s*if \(compressed\) \{\s*return this->is_estimation_mode\(\) \? (\d+) : (\d+);\s*\}\s*return this->is_estimation_mode\(\) \? (\d+) : this->is_empty\(\) \|\| entries_\.size\(\) == 1 \? (\d+) : (\d+);"),
    ("wth_pre_v4_stream", TI, r"serialize_version_4\(std::ostream& os\) const \{\s*const uint8_t preamble_longs = this->is_estimation_mode\(\) \? (\d+) : (\d+);"),
    ("wtu_pre_stream", TUI, r"::serialize\(std::ostream& os, const SerDe& sd\) const \{\s*const uint8_t preamble_longs = this->is_estimation_mode\(\) \? (\d+) : this->is_empty\(\) \|\| entries_\.size\(\) == 1 \? (\d+) : (\d+);"),
    ("wtu_pre_bytes", TUI, r"::serialize\(unsigned header_size_bytes, const SerDe& sd\) const -> vector_bytes \{\s*const uint8_t preamble_longs = this->is_estimation_mode\(\) \? (\d+) : this->is_empty\(\) \|\| entries_\.size\(\) == 1 \? (\d+) : (\d+);"),
    ("wao_pre_stream", AOI, r"::serialize\(std::ostream& os\) const \{\s*const uint8_t preamble_longs = (\d+);"),
    ("wao_pre_bytes", AOI, r"::serialize\(unsigned header_size_bytes\) const -> vector_bytes \{\s*const uint8_t preamble_longs = (\d+);"),
]


def gen_enums_and_pre(repo, T):
    out = []
    cache = {}

    def src(rel):
        if rel not in cache:
            cache[rel] = T.strip_comments(T.read(repo, rel))
        return cache[rel]

    for prefix, rel, cls in ENUM_RULES:
        s = src(rel)
        m = re.search(cls, s)
        if not m:
            T.fail("class matching %r not found in %s" % (cls, rel)); continue
        e = re.search(r"enum\s+flags\s*\{([^}]*)\}", s[m.end():])
        if not e:
            T.fail("enum flags not found after %r in %s" % (cls, rel)); continue
        val = 0
        for item in e.group(1).split(","):
            item = item.strip()
            if not item:
                continue
            if "=" in item:
                name, ex = [x.strip() for x in item.split("=", 1)]
                try:
                    val = int(T.parse_num_expr(ex))
                except ValueError as ex2:
                    T.fail("enumerator %s in %s: %s" % (name, rel, ex2)); continue
            else:
                name = item
            if not re.match(r"^[A-Za-z_]\w*$", name):
                T.fail("unexpected enumerator %r in %s" % (item, rel)); continue
            out.append("def %s_%s : Nat := %d" % (prefix, name, val))
            val += 1
    for name, rel, rx in PRE_RULES:
        s = src(rel)
        ms = re.findall(rx, s)
        if len(ms) != 1:
            T.fail("preamble-longs expression for %s: expected exactly one match in %s, found %d" % (name, rel, len(ms))); continue
        g = ms[0] if isinstance(ms[0], tuple) else (ms[0],)
        out.append("def %s : List Nat := [%s]" % (name, ", ".join(g)))
    return out


# ------------------------------------------------------------------ bit_packing.hpp -> IR

P_RE = re.compile(r"^\*ptr(\+\+)? (\|?=) static_cast<uint8_t>\(values\[(\d)\](?: (<<|>>) (\d+))?\);$")
U1_RE = re.compile(r"^values\[(\d)\] (\|?=) (static_cast<uint64_t>\()?(\()?\*ptr(\+\+)?(?: & (0x[0-9a-fA-F]+|\d+))?(\))?(\))?(?: (<<|>>) (\d+))?;$")
U2_RE = re.compile(r"^values\[(\d)\] (\|?=) \(\*ptr(\+\+)? >> (\d+)\) & (0x[0-9a-fA-F]+|\d+);$")
PACK_HDR = re.compile(r"^static inline void pack_bits_(\d+)\(const uint64_t\* values, uint8_t\* ptr\) \{$")
UNPACK_HDR = re.compile(r"^static inline void unpack_bits_(\d+)\(uint64_t\* values, const uint8_t\* ptr\) \{$")
PACK_DISP = re.compile(r"^static inline void pack_bits_block8\(const uint64_t\* values, uint8_t\* ptr, uint8_t bits\) \{$")
UNPACK_DISP = re.compile(r"^static inline void unpack_bits_block8\(uint64_t\* values, const uint8_t\* ptr, uint8_t bits\) \{$")
SCALAR_HDR = re.compile(r"^static inline uint8_t (pack_bits|unpack_bits)\(uint64_t&? value, uint8_t bits, (?:const )?uint8_t\*& ptr, uint8_t offset\) \{$")
CASE_RE = re.compile(r"^case (\d+): (pack|unpack)_bits_(\d+)\(values, ptr\); break;$")
DEFAULT_RE = re.compile(r"^default: throw std::logic_error\(.*\);$")
BOILER = re.compile(r"^(#ifndef \w+|#define \w+|#include <\w+>|#endif|namespace datasketches \{|\})$")


def b(x):
    return "true" if x else "false"


def sh(op, k):
    if op is None:
        return ".none"
    return ".shl %d" % int(k) if op == "<<" else ".shr %d" % int(k)


def parse_bitpack(repo, T):
    src = T.strip_comments(T.read(repo, BP))
    packs, unpacks, pdisp, udisp = {}, {}, [], []
    cur = None       # ("pack", n) | ("unpack", n) | ("pdisp",) | ("udisp",) | ("scalar", depth)
    body = None
    depth_scalar = 0
    in_switch = False
    for ln, raw in enumerate(src.splitlines(), 1):
        s = raw.strip()
        if not s:
            continue
        if cur is None:
            m = PACK_HDR.match(s)
            if m:
                cur, body = ("pack", int(m.group(1))), []; continue
            m = UNPACK_HDR.match(s)
            if m:
                cur, body = ("unpack", int(m.group(1))), []; continue
            if PACK_DISP.match(s):
                cur, in_switch = ("pdisp",), False; continue
            if UNPACK_DISP.match(s):
                cur, in_switch = ("udisp",), False; continue
            if SCALAR_HDR.match(s):
                cur, depth_scalar = ("scalar",), 1; continue
            if BOILER.match(s):
                continue
            T.fail("bit_packing.hpp:%d: unrecognised top-level line: %s" % (ln, s[:100])); continue
        if cur[0] == "scalar":
            depth_scalar += s.count("{") - s.count("}")
            if depth_scalar == 0:
                cur = None
            continue
        if cur[0] in ("pdisp", "udisp"):
            if s == "switch (bits) {":
                in_switch = True; continue
            if s == "}":
                if in_switch:
                    in_switch = False
                else:
                    cur = None
                continue
            m = CASE_RE.match(s)
            if m and in_switch:
                kind = "pack" if cur[0] == "pdisp" else "unpack"
                if m.group(2) != kind:
                    T.fail("bit_packing.hpp:%d: %s dispatcher calls a %s routine" % (ln, kind, m.group(2)))
                (pdisp if cur[0] == "pdisp" else udisp).append((int(m.group(1)), int(m.group(3))))
                continue
            if DEFAULT_RE.match(s) and in_switch:
                continue
            T.fail("bit_packing.hpp:%d: unrecognised dispatcher line: %s" % (ln, s[:100])); continue
        # inside pack_bits_N / unpack_bits_N
        if s == "}":
            (packs if cur[0] == "pack" else unpacks)[cur[1]] = body
            cur, body = None, None
            continue
        if cur[0] == "pack":
            m = P_RE.match(s)
            if not m:
                T.fail("bit_packing.hpp:%d: pack_bits_%d: unparsed statement: %s" % (ln, cur[1], s[:100])); continue
            inc, op, vi, so, k = m.groups()
            body.append("⟨%s,%s,%s,%s⟩" % (b(inc), b(op == "|="), vi, sh(so, k)))
            continue
        m = U2_RE.match(s)
        if m:
            vi, op, inc, pre, mask = m.groups()
            body.append("⟨%s,%s,%s,%d,%d,false,.none⟩" % (b(op == "|="), vi, b(inc), int(pre), int(mask, 0)))
            continue
        m = U1_RE.match(s)
        if m:
            vi, op, cast, lp, inc, mask, rp1, rp2, so, k = m.groups()
            # parentheses must balance: the cast opens one, an explicit "(" another
            opened = (1 if cast else 0) + (1 if lp else 0)
            closed = (1 if rp1 else 0) + (1 if rp2 else 0)
            if opened != closed:
                T.fail("bit_packing.hpp:%d: unpack_bits_%d: unbalanced parentheses: %s" % (ln, cur[1], s[:100])); continue
            if mask is not None and so is not None and opened == 0:
                # `*ptr & m << k` would parse as `*ptr & (m << k)` in C -- not a shape the file uses
                T.fail("bit_packing.hpp:%d: unpack_bits_%d: mask and shift without parentheses: %s" % (ln, cur[1], s[:100])); continue
            body.append("⟨%s,%s,%s,0,%d,%s,%s⟩" % (b(op == "|="), vi, b(inc), int(mask, 0) if mask else 255, b(cast), sh(so, k)))
            continue
        T.fail("bit_packing.hpp:%d: unpack_bits_%d: unparsed statement: %s" % (ln, cur[1], s[:100]))
    if cur is not None:
        T.fail("bit_packing.hpp: unterminated function at end of file")
    return packs, unpacks, pdisp, udisp


def gen_bitpack(repo, T):
    packs, unpacks, pdisp, udisp = parse_bitpack(repo, T)
    out = ["/- GENERATED by tools/translate.py (tools/trules/wire_theta.py) from theta/include/bit_packing.hpp on every run. Do not edit. -/",
           "import DSModel.Wire.BitPack", "namespace DSGen.BitPackIR", "open DS.Wire.BitPack", ""]
    for n in sorted(packs):
        out.append("def pack_bits_%d : List PStmt := [%s]" % (n, ", ".join(packs[n])))
    out.append("")
    for n in sorted(unpacks):
        out.append("def unpack_bits_%d : List UStmt := [%s]" % (n, ", ".join(unpacks[n])))
    out.append("")
    out.append("/-- routine name index -> body, for every `pack_bits_N` defined in the header -/")
    out.append("def packRoutines : List (Nat × List PStmt) := [%s]" % ", ".join("(%d, pack_bits_%d)" % (n, n) for n in sorted(packs)))
    out.append("def unpackRoutines : List (Nat × List UStmt) := [%s]" % ", ".join("(%d, unpack_bits_%d)" % (n, n) for n in sorted(unpacks)))
    out.append("/-- `switch (bits)` of pack_bits_block8 / unpack_bits_block8: (case label, routine called); everything else throws -/")
    out.append("def packDispatch : List (Nat × Nat) := [%s]" % ", ".join("(%d, %d)" % p for p in pdisp))
    out.append("def unpackDispatch : List (Nat × Nat) := [%s]" % ", ".join("(%d, %d)" % p for p in udisp))
    out += ["", "end DSGen.BitPackIR", ""]
    return "\n".join(out)


def generate(repo, T):
    consts = T.gen_consts(repo, CONST_RULES)
    extra = gen_enums_and_pre(repo, T)
    consts = consts.replace("\nend DSGen\n", "\n".join(extra) + "\n\nend DSGen\n")
    return {"WireTheta.lean": consts, "BitPackIR.lean": gen_bitpack(repo, T)}

"""HLL family: constants, thresholds and numeric tables used as parameters of the Lean model (C03, C04, C06).

Everything is re-read from the CURRENT headers on every run.  Doubles are emitted as their IEEE-754 bit patterns
(correctly rounded decimal -> binary64 conversion = Python float(); constant expressions such as `11.0 / 6.0` or
`COUPON_RSE_FACTOR / (1 << 13)` are evaluated with C++ double semantics).  `extract(repo, T)` returns the raw values
(also used by the C03 check to compare against what g++ compiled: harness `hll_h tables`).
"""
import ast, re, struct

U = "hll/include/HllUtil.hpp"
NAT_RULES = [
    ("hll_KEY_BITS_26", U, "KEY_BITS_26", "nat"),
    ("hll_VAL_BITS_6", U, "VAL_BITS_6", "nat"),
    ("hll_KEY_MASK_26", U, "KEY_MASK_26", "nat"),
    ("hll_VAL_MASK_6", U, "VAL_MASK_6", "nat"),
    ("hll_EMPTY", U, "EMPTY", "nat"),
    ("hll_MIN_LOG_K", U, "MIN_LOG_K", "nat"),
    ("hll_MAX_LOG_K", U, "MAX_LOG_K", "nat"),
    ("hll_LG_INIT_LIST_SIZE", U, "LG_INIT_LIST_SIZE", "nat"),
    ("hll_LG_INIT_SET_SIZE", U, "LG_INIT_SET_SIZE", "nat"),
    ("hll_RESIZE_NUMER", U, "RESIZE_NUMER", "nat"),
    ("hll_RESIZE_DENOM", U, "RESIZE_DENOM", "nat"),
    ("hll_AUX_TOKEN", U, "AUX_TOKEN", "nat"),
    ("hll_loNibbleMask", U, "loNibbleMask", "nat"),
    ("hll_hiNibbleMask", U, "hiNibbleMask", "nat"),
]


def f64bits(x):
    return struct.unpack("<Q", struct.pack("<d", float(x)))[0]


def eval_double(expr, env):
    """Evaluate a C++ constant expression of type double (literals, names, + - * /, <<, parentheses)."""
    src = re.sub(r"(?<=[0-9.])[fFlL]\b", "", expr.strip())
    src = re.sub(r"\b([A-Za-z_]\w*::)+", "", src)
    node = ast.parse(src, mode="eval").body

    def ev(n):
        if isinstance(n, ast.Constant) and isinstance(n.value, (int, float)):
            return n.value
        if isinstance(n, ast.Name):
            if n.id in env:
                return env[n.id]
            raise ValueError("unknown identifier %s" % n.id)
        if isinstance(n, ast.UnaryOp) and isinstance(n.op, (ast.USub, ast.UAdd)):
            v = ev(n.operand)
            return -v if isinstance(n.op, ast.USub) else v
        if isinstance(n, ast.BinOp):
            a, b = ev(n.left), ev(n.right)
            if isinstance(n.op, ast.Add):
                return a + b
            if isinstance(n.op, ast.Sub):
                return a - b
            if isinstance(n.op, ast.Mult):
                return a * b
            if isinstance(n.op, ast.Div):
                if isinstance(a, int) and isinstance(b, int):
                    raise ValueError("integer division in a double expression")
                return float(a) / float(b)
            if isinstance(n.op, ast.LShift) and isinstance(a, int) and isinstance(b, int):
                return a << b
        raise ValueError("unsupported expression %r" % expr)
    return ev(node)


def split_top(body):
    """split an initializer list at top-level commas"""
    out, depth, cur = [], 0, ""
    for ch in body:
        if ch in "({":
            depth += 1
        elif ch in ")}":
            depth -= 1
        if ch == "," and depth == 0:
            out.append(cur); cur = ""
        else:
            cur += ch
    if cur.strip():
        out.append(cur)
    return [x.strip() for x in out if x.strip()]


def find_array(src, name):
    """initializer text of `... name[...]... = { ... };` (balanced braces)"""
    m = re.search(r"\b%s\s*(\[[^\]]*\]\s*)+=\s*\{" % re.escape(name), src)
    if not m:
        return None
    i = m.end() - 1
    depth = 0
    for j in range(i, len(src)):
        if src[j] == "{":
            depth += 1
        elif src[j] == "}":
            depth -= 1
            if depth == 0:
                return src[i + 1:j]
    return None


def extract(repo, T):
    """-> dict name -> value | list (ints for nat tables, IEEE bit patterns for doubles). Failures via T.fail."""
    R = {}
    src = {}

    def S(rel):
        if rel not in src:
            src[rel] = T.strip_comments(T.read(repo, rel))
        return src[rel]

    env = {}

    def dconst(name, rel, ident):
        e = T.find_const(S(rel), ident)
        if e is None:
            T.fail("constant %s not found in %s" % (ident, rel)); return
        try:
            v = eval_double(e, env)
        except Exception as ex:
            T.fail("%s in %s: %s" % (ident, rel, ex)); return
        env[ident] = v
        R[name] = f64bits(v)

    def dtable(name, rel, ident, n=None, rows=None):
        body = find_array(S(rel), ident)
        if body is None:
            T.fail("table %s not found in %s" % (ident, rel)); return
        try:
            if rows is None:
                vals = [f64bits(eval_double(x, env)) for x in split_top(body)]
                if n is not None and len(vals) != n:
                    raise ValueError("expected %d entries, found %d" % (n, len(vals)))
            else:
                vals = []
                for r in split_top(body):
                    r = r.strip()
                    if not (r.startswith("{") and r.endswith("}")):
                        raise ValueError("row shape")
                    row = [f64bits(eval_double(x, env)) for x in split_top(r[1:-1])]
                    if len(row) != n:
                        raise ValueError("row of %d entries, expected %d" % (len(row), n))
                    vals.append(row)
                if len(vals) != rows:
                    raise ValueError("expected %d rows, found %d" % (rows, len(vals)))
        except Exception as ex:
            T.fail("%s in %s: %s" % (ident, rel, ex)); return
        R[name] = vals

    def ntable(name, rel, ident, n=None):
        body = find_array(S(rel), ident)
        if body is None:
            T.fail("table %s not found in %s" % (ident, rel)); return
        try:
            vals = [int(T.parse_num_expr(x)) for x in split_top(body)]
            if n is not None and len(vals) != n:
                raise ValueError("expected %d entries, found %d" % (n, len(vals)))
        except Exception as ex:
            T.fail("%s in %s: %s" % (ident, rel, ex)); return
        R[name] = vals

    dconst("hll_HLL_HIP_RSE_FACTOR", U, "HLL_HIP_RSE_FACTOR")
    dconst("hll_HLL_NON_HIP_RSE_FACTOR", U, "HLL_NON_HIP_RSE_FACTOR")
    dconst("hll_COUPON_RSE_FACTOR", U, "COUPON_RSE_FACTOR")
    dconst("hll_COUPON_RSE", U, "COUPON_RSE")
    dconst("hll_EULER", "hll/include/HarmonicNumbers-internal.hpp", "EULER_MASCHERONI_CONSTANT")
    ntable("hll_LG_AUX_ARR_INTS", U, "LG_AUX_ARR_INTS", 27)
    ntable("hll_yStrides", "hll/include/CompositeInterpolationXTable-internal.hpp", "yStrides", 18)
    dtable("hll_couponX", "hll/include/CubicInterpolation-internal.hpp", "xArrComputed", 40)
    dtable("hll_couponY", "hll/include/CubicInterpolation-internal.hpp", "yArrComputed", 40)
    dtable("hll_harmonic", "hll/include/HarmonicNumbers-internal.hpp", "tableOfExactHarmonicNumbers", 25)
    for nm in ("HIP_LB", "HIP_UB", "NON_HIP_LB", "NON_HIP_UB"):
        dtable("hll_" + nm, "hll/include/RelativeErrorTables-internal.hpp", nm, 27)
    dtable("hll_compX", "hll/include/CompositeInterpolationXTable-internal.hpp", "xArray", 257, rows=18)
    dtable("hll_invPow2", "common/include/inv_pow2_table.hpp", "INVERSE_POWERS_OF_2", 256)
    if "hll_invPow2" in R:
        R["hll_invPow2"] = R["hll_invPow2"][:64]

    # literals inside the estimator bodies (HllArray-internal.hpp)
    A = S("hll/include/HllArray-internal.hpp")
    m = re.search(r"getHllRawEstimate\(\)\s*const\s*\{(.*?)\n\}", A, flags=re.S)
    if not m:
        T.fail("getHllRawEstimate body not found")
    else:
        b = m.group(1)
        cf = re.findall(r"lgConfigK_\s*==\s*(\d+)\)\s*\{\s*correctionFactor\s*=\s*([0-9.eE+-]+)\s*;", b)
        el = re.search(r"else\s*\{\s*correctionFactor\s*=\s*([0-9.eE+-]+)\s*/\s*\(\s*1\.0\s*\+\s*\(\s*([0-9.eE+-]+)\s*/\s*configK\s*\)\s*\)\s*;", b)
        if [int(x) for x, _ in cf] != [4, 5, 6] or not el:
            T.fail("getHllRawEstimate: correction-factor shape not recognised")
        else:
            R["hll_rawCorr456"] = [f64bits(float(v)) for _, v in cf]
            R["hll_rawCorrNum"] = f64bits(float(el.group(1)))
            R["hll_rawCorrDen"] = f64bits(float(el.group(2)))
    m = re.search(r"getCompositeEstimate\(\)\s*const\s*\{(.*?)\n\}", A, flags=re.S)
    if not m:
        T.fail("getCompositeEstimate body not found")
    else:
        b = m.group(1)
        c0 = re.search(r"double\s+crossOver\s*=\s*([0-9.eE+-]+)\s*;", b)
        cs = re.findall(r"lgConfigK_\s*==\s*(\d+)\)\s*\{\s*crossOver\s*=\s*([0-9.eE+-]+)\s*;", b)
        t3 = re.search(r"adjEst\s*>\s*\(\s*(\d+)\s*<<\s*this->lgConfigK_\s*\)", b)
        if not c0 or [int(x) for x, _ in cs] != [4, 5] or not t3:
            T.fail("getCompositeEstimate: crossover shape not recognised")
        else:
            R["hll_crossOver45"] = [f64bits(float(v)) for _, v in cs]
            R["hll_crossOverDefault"] = f64bits(float(c0.group(1)))
            R["hll_linCountFactor"] = int(t3.group(1))
    # list -> set / HLL promotion threshold `lgConfigK_ < 8` and set maximum `lgConfigK_ - 3`
    C = S("hll/include/CouponList-internal.hpp")
    m = re.search(r"if\s*\(\s*this->lgConfigK_\s*<\s*(\d+)\s*\)\s*\{\s*return\s+promoteHeapListOrSetToHll", C)
    if not m:
        T.fail("CouponList::couponUpdate: promotion threshold shape not recognised")
    else:
        R["hll_LIST_TO_HLL_BELOW_LGK"] = int(m.group(1))
    H = S("hll/include/CouponHashSet-internal.hpp")
    m = re.search(r"lgCouponArrInts\s*==\s*\(\s*this->lgConfigK_\s*-\s*(\d+)\s*\)", H)
    if not m:
        T.fail("CouponHashSet::checkGrowOrPromote: maximum size shape not recognised")
    else:
        R["hll_SET_MAX_LG_BELOW_LGK"] = int(m.group(1))
    # source shapes of the two places of hll_union that were repaired (defects found by ./check C04): an unknown shape is a failure
    Usrc = S("hll/include/HllUnion-internal.hpp")
    m = re.search(r"tgtHllArr->mergeHll\(\*src\);(.*?)tgtHllArr->putHipAccum\(src->getHipAccum\(\)\);", Usrc, flags=re.S)
    if not m:
        T.fail("hll_union::copy_or_downsample: down-sampling tail not recognised")
    else:
        mid = "".join(m.group(1).split())
        if mid == "":
            R["hll_unionDownsampleRebuilds"] = False
        elif mid == "tgtHllArr->check_rebuild_kxq_cur_min();":
            R["hll_unionDownsampleRebuilds"] = True
        else:
            T.fail("hll_union::copy_or_downsample has an unknown shape after mergeHll: %r" % m.group(1).strip()[:120])
    m = re.search(r"void\s+hll_union_alloc<A>::reset\(\)\s*\{(.*?)\n\}", Usrc, flags=re.S)
    if not m:
        T.fail("hll_union::reset() body not found")
    else:
        body = "".join(m.group(1).split())
        if body == "gadget_.reset();":
            R["hll_unionResetToMaxK"] = False
        elif body == "gadget_=hll_sketch_alloc<A>(lg_max_k_,target_hll_type::HLL_8,false,gadget_.sketch_impl->getAllocator());":
            R["hll_unionResetToMaxK"] = True
        else:
            T.fail("hll_union::reset() has an unknown shape: %r" % m.group(1).strip()[:160])
    cs = []
    cenv = {}
    for name, rel, ident, kind in NAT_RULES:
        e = T.find_const(S(rel), ident)
        try:
            v = T.parse_num_expr(e, cenv) if e is not None else None
        except Exception:
            v = None
        if v is None:
            T.fail("constant %s not evaluated in %s" % (ident, rel)); continue
        cenv[ident] = v
        cs.append(int(v))
    R["hll_consts"] = cs
    return R


def lean_source(consts_src, R):
    out = [consts_src.rstrip().rsplit("end DSGen", 1)[0].rstrip(), ""]

    def arr(vals, hexw=None):
        items = [("0x%016x" % v) if hexw else str(v) for v in vals]
        lines = []
        for i in range(0, len(items), 8):
            lines.append("  " + ", ".join(items[i:i + 8]))
        return "#[\n" + ",\n".join(lines) + "]"

    for k in sorted(R):
        v = R[k]
        if k == "hll_consts":
            continue
        if isinstance(v, bool):
            out.append("def %s : Bool := %s" % (k, "true" if v else "false"))
            continue
        if isinstance(v, int) and (k.startswith("hll_LIST") or k.startswith("hll_SET") or k == "hll_linCountFactor"):
            out.append("def %s : Nat := %d" % (k, v))
        elif isinstance(v, int):
            out.append("def %s : UInt64 := 0x%016x" % (k, v))
        elif k in ("hll_LG_AUX_ARR_INTS", "hll_yStrides"):
            out.append("def %s : Array Nat := %s" % (k, arr(v)))
        elif k == "hll_compX":
            for i, row in enumerate(v):
                out.append("def hll_compX_%d : Array UInt64 := %s" % (i, arr(row, True)))
            out.append("def hll_compX : Array (Array UInt64) := #[%s]" % ", ".join("hll_compX_%d" % i for i in range(len(v))))
        else:
            out.append("def %s : Array UInt64 := %s" % (k, arr(v, True)))
    out += ["", "end DSGen", ""]
    return "\n".join(out)


def generate(repo, T):
    consts = T.gen_consts(repo, NAT_RULES)
    R = extract(repo, T)
    return {"Hll.lean": lean_source(consts, R)}

"""Bounds family (C06): every numeric table / named constant used by the distinct-count estimator and
confidence-bound functions, regenerated from the CURRENT headers.

Each floating-point element becomes a triple `(bits, num, den)`:
  num/den = exact rational value of the source literal (or literal expression such as `11.0 / 6.0`),
  bits    = IEEE binary64 pattern of the correctly rounded value (what g++ compiles the literal to).
The Lean side re-derives `bits` from `num/den` in the kernel (`rn64`, DSProofs/Gen/BoundsBits.lean) and the
check compares `bits` with a dump of the compiled tables (harness/bounds_h.cpp `dump`).
A table / constant that cannot be parsed is a translation failure.
"""
import re, struct
from fractions import Fraction

HLLI = "hll/include/"
CPCI = "cpc/include/"
COMI = "common/include/"

# (lean name, file, C++ identifier, kind, expected shape or None)
#   kind: "f64" double table, "nat" non-negative integer table, "f64x2" 2-dimensional double table
TABLES = [
    ("deltaOfNumStdDevs", COMI + "binomial_bounds.hpp", "delta_of_num_std_devs", "f64"),
    ("lbEquivTable", COMI + "binomial_bounds.hpp", "lb_equiv_table", "f64"),
    ("ubEquivTable", COMI + "binomial_bounds.hpp", "ub_equiv_table", "f64"),
    ("cubicXArr", HLLI + "CubicInterpolation-internal.hpp", "xArrComputed", "f64"),
    ("cubicYArr", HLLI + "CubicInterpolation-internal.hpp", "yArrComputed", "f64"),
    ("harmonicTable", HLLI + "HarmonicNumbers-internal.hpp", "tableOfExactHarmonicNumbers", "f64"),
    ("relErrHipLb", HLLI + "RelativeErrorTables-internal.hpp", "HIP_LB", "f64"),
    ("relErrHipUb", HLLI + "RelativeErrorTables-internal.hpp", "HIP_UB", "f64"),
    ("relErrNonHipLb", HLLI + "RelativeErrorTables-internal.hpp", "NON_HIP_LB", "f64"),
    ("relErrNonHipUb", HLLI + "RelativeErrorTables-internal.hpp", "NON_HIP_UB", "f64"),
    ("compositeYStrides", HLLI + "CompositeInterpolationXTable-internal.hpp", "yStrides", "nat"),
    ("compositeXArr", HLLI + "CompositeInterpolationXTable-internal.hpp", "xArray", "f64x2"),
    ("iconCoefficients", CPCI + "icon_estimator.hpp", "ICON_POLYNOMIAL_COEFFICIENTS", "f64"),
    ("iconLowSide", CPCI + "cpc_confidence.hpp", "ICON_LOW_SIDE_DATA", "nat"),
    ("iconHighSide", CPCI + "cpc_confidence.hpp", "ICON_HIGH_SIDE_DATA", "nat"),
    ("hipLowSide", CPCI + "cpc_confidence.hpp", "HIP_LOW_SIDE_DATA", "nat"),
    ("hipHighSide", CPCI + "cpc_confidence.hpp", "HIP_HIGH_SIDE_DATA", "nat"),
    ("invPow2", COMI + "inv_pow2_table.hpp", "INVERSE_POWERS_OF_2", "f64"),
    ("kxpByteTable", CPCI + "kxp_byte_lookup.hpp", "KXP_BYTE_TABLE", "f64"),
]

# named scalar constants: (lean name, file, identifier, kind f64|nat)
CONSTS = [
    ("cubicNumEntries", HLLI + "CubicInterpolation-internal.hpp", "numEntries", "nat"),
    ("compositeNumXArrValues", HLLI + "CompositeInterpolationXTable-internal.hpp", "numXArrValues", "nat"),
    ("numExactHarmonic", HLLI + "HarmonicNumbers-internal.hpp", "NUM_EXACT_HARMONIC_NUMBERS", "nat"),
    ("eulerMascheroni", HLLI + "HarmonicNumbers-internal.hpp", "EULER_MASCHERONI_CONSTANT", "f64"),
    ("hllMinLgK", HLLI + "HllUtil.hpp", "MIN_LOG_K", "nat"),
    ("hllMaxLgK", HLLI + "HllUtil.hpp", "MAX_LOG_K", "nat"),
    ("hllHipRseFactor", HLLI + "HllUtil.hpp", "HLL_HIP_RSE_FACTOR", "f64"),
    ("hllNonHipRseFactor", HLLI + "HllUtil.hpp", "HLL_NON_HIP_RSE_FACTOR", "f64"),
    ("couponRseFactor", HLLI + "HllUtil.hpp", "COUPON_RSE_FACTOR", "f64"),
    ("couponRse", HLLI + "HllUtil.hpp", "COUPON_RSE", "f64"),
    ("iconMinLgK", CPCI + "icon_estimator.hpp", "ICON_MIN_LOG_K", "nat"),
    ("iconMaxLgK", CPCI + "icon_estimator.hpp", "ICON_MAX_LOG_K", "nat"),
    ("iconPolyDegree", CPCI + "icon_estimator.hpp", "ICON_POLYNOMIAL_DEGREE", "nat"),
    ("iconErrorConstant", CPCI + "cpc_confidence.hpp", "ICON_ERROR_CONSTANT", "f64"),
    ("hipErrorConstant", CPCI + "cpc_confidence.hpp", "HIP_ERROR_CONSTANT", "f64"),
    ("thetaMaxTheta", "theta/include/theta_constants.hpp", "MAX_THETA", "nat"),
]

# where each table / constant lands
FILES = {
    "Bounds.lean": ["deltaOfNumStdDevs", "lbEquivTable", "ubEquivTable", "thetaMaxTheta"],
    "BoundsHll.lean": ["cubicNumEntries", "cubicXArr", "cubicYArr", "numExactHarmonic", "eulerMascheroni", "harmonicTable",
                       "relErrHipLb", "relErrHipUb", "relErrNonHipLb", "relErrNonHipUb",
                       "hllMinLgK", "hllMaxLgK", "hllHipRseFactor", "hllNonHipRseFactor", "couponRseFactor", "couponRse",
                       "invPow2"],
    "BoundsHllComposite.lean": ["compositeNumXArrValues", "compositeYStrides", "compositeXArr"],
    "BoundsCpc.lean": ["iconMinLgK", "iconMaxLgK", "iconPolyDegree", "iconCoefficients", "iconErrorConstant", "hipErrorConstant",
                       "iconLowSide", "iconHighSide", "hipLowSide", "hipHighSide", "kxpByteTable"],
}

DEFINED = {"DATASKETCHES_VERIF"}


class ParseError(Exception):
    pass


def preprocess(src, rel):
    """comments out; #ifdef/#ifndef/#else/#endif resolved against DEFINED (include guards are undefined names);
    any other conditional directive is a parse error."""
    src = re.sub(r"/\*.*?\*/", lambda m: re.sub(r"[^\n]", " ", m.group(0)), src, flags=re.S)
    src = re.sub(r"//[^\n]*", "", src)
    out, stack = [], []          # stack of (active_before, taken)
    active = True
    for line in src.split("\n"):
        s = line.strip()
        if s.startswith("#"):
            d = re.match(r"#\s*(\w+)\s*(.*)", s)
            kw, rest = (d.group(1), d.group(2).strip()) if d else ("", "")
            if kw in ("ifdef", "ifndef"):
                cond = (rest.split()[0] in DEFINED) if rest else False
                if kw == "ifndef":
                    cond = not cond
                stack.append((active, cond))
                active = active and cond
            elif kw == "else":
                if not stack:
                    raise ParseError("%s: #else without #if" % rel)
                prev, cond = stack[-1]
                stack[-1] = (prev, not cond)
                active = prev and (not cond)
            elif kw == "endif":
                if not stack:
                    raise ParseError("%s: #endif without #if" % rel)
                prev, _ = stack.pop()
                active = prev
            elif kw in ("if", "elif"):
                raise ParseError("%s: unsupported preprocessor conditional %r" % (rel, s))
            out.append("")
            continue
        out.append(line if active else "")
    if stack:
        raise ParseError("%s: unterminated #if" % rel)
    return "\n".join(out)


LIT_F = re.compile(r"^[-+]?(?:\d+\.\d*(?:[eE][-+]?\d+)?|\.\d+(?:[eE][-+]?\d+)?|\d+[eE][-+]?\d+|\d+)$")


def f64_bits(x):
    return struct.unpack("<Q", struct.pack("<d", x))[0]


def eval_f64(expr, env, what):
    """-> (Fraction exact, float as compiled).  Supported: a literal, a named constant, `a / b`, `a * b`, `a / (1 << n)`.
    The compiled value must be the correctly rounded exact value (true for one correctly rounded operation on
    exactly representable operands and for power-of-two scalings), otherwise: translation failure."""
    e = expr.strip()
    while e.startswith("(") and e.endswith(")") and balanced(e[1:-1]):
        e = e[1:-1].strip()
    if LIT_F.match(re.sub(r"[fFlL]$", "", e)):
        e = re.sub(r"[fFlL]$", "", e)
    if LIT_F.match(e):
        return Fraction(e), float(e)
    if re.match(r"^[A-Za-z_]\w*(::\w+)*$", e):
        k = e.split("::")[-1]
        if k in env:
            return env[k]
        raise ParseError("%s: unknown identifier %r" % (what, e))
    m = re.match(r"^1\s*<<\s*(\d+)$", e)
    if m:
        v = 1 << int(m.group(1))
        return Fraction(v), float(v)
    # binary / or * at top level (right-most, left associative)
    depth = 0
    for i in range(len(e) - 1, 0, -1):
        c = e[i]
        if c == ")":
            depth += 1
        elif c == "(":
            depth -= 1
        elif depth == 0 and c in "/*":
            lq, lf = eval_f64(e[:i], env, what)
            rq, rf = eval_f64(e[i + 1:], env, what)
            if c == "/":
                if rq == 0:
                    raise ParseError("%s: division by zero in %r" % (what, e))
                q, f = lq / rq, lf / rf
            else:
                q, f = lq * rq, lf * rf
            if float(q) != f:
                raise ParseError("%s: %r is not the correctly rounded value of its exact quotient/product" % (what, e))
            return q, f
    if e.startswith("-"):
        q, f = eval_f64(e[1:], env, what)
        return -q, -f
    raise ParseError("%s: cannot parse element %r" % (what, expr.strip()))


def balanced(s):
    d = 0
    for c in s:
        if c == "(":
            d += 1
        elif c == ")":
            d -= 1
            if d < 0:
                return False
    return d == 0


def split_top(body):
    """split a brace-initialiser body at top-level commas; returns list of strings (nested braces kept)."""
    parts, depth, cur = [], 0, []
    for c in body:
        if c in "{(":
            depth += 1
        elif c in "})":
            depth -= 1
        if c == "," and depth == 0:
            parts.append("".join(cur)); cur = []
        else:
            cur.append(c)
    parts.append("".join(cur))
    parts = [p.strip() for p in parts]
    if parts and parts[-1] == "":      # trailing comma
        parts.pop()
    if any(p == "" for p in parts):
        raise ParseError("empty element in initialiser")
    return parts


def find_array(src, ident, rel):
    """-> (declared dims as list of expression strings, initialiser body)"""
    m = re.search(r"\b%s\s*((?:\[[^\]]*\]\s*)+)=\s*\{" % re.escape(ident), src)
    if not m:
        raise ParseError("%s: array %s not found" % (rel, ident))
    dims = re.findall(r"\[([^\]]*)\]", m.group(1))
    i = m.end()
    depth, j = 1, i
    while j < len(src) and depth:
        if src[j] == "{":
            depth += 1
        elif src[j] == "}":
            depth -= 1
        j += 1
    if depth:
        raise ParseError("%s: unterminated initialiser of %s" % (rel, ident))
    rest = src[j:j + 5].strip()
    if not rest.startswith(";"):
        raise ParseError("%s: initialiser of %s not followed by ';'" % (rel, ident))
    return dims, src[i:j - 1]


def find_scalar(src, ident, rel):
    m = re.search(r"\b(?:static\s+)?(?:constexpr\s+|const\s+)+[\w:]+\s+%s\s*=\s*([^;{]+);" % re.escape(ident), src)
    if not m:
        m = re.search(r"\b[\w:]+\s+(?:const\s+)?%s\s*=\s*([^;{]+);" % re.escape(ident), src)
    if not m:
        raise ParseError("%s: constant %s not found" % (rel, ident))
    return m.group(1).strip()


def int_value(expr, ienv, T, what):
    try:
        v = T.parse_num_expr(expr, ienv)
    except ValueError as ex:
        raise ParseError("%s: %s" % (what, ex))
    if v.denominator != 1 or v < 0:
        raise ParseError("%s: expected a natural number, got %s" % (what, v))
    return int(v)


def extract(repo, T):
    """-> dict name -> ("f64", [(bits,num,den)...]) | ("nat", [ints]) | ("f64x2", [[...]...]) | ("f64c", triple) | ("natc", int)
    Raises ParseError on anything unrecognised."""
    cache, res = {}, {}
    ienv = {}       # integer constants per file (for declared dimensions)
    fenv = {}       # double constants (name -> (Fraction, float))

    def src_of(rel):
        if rel not in cache:
            raw = T.read(repo, rel)
            if not raw:
                raise ParseError("cannot read %s" % rel)
            cache[rel] = preprocess(raw, rel)
        return cache[rel]

    def trip(q, f):
        if f != f or f in (float("inf"), float("-inf")):
            raise ParseError("non-finite value")
        return (f64_bits(f), q.numerator, q.denominator)

    for name, rel, ident, kind in CONSTS:
        src = src_of(rel)
        expr = find_scalar(src, ident, rel)
        what = "%s:%s" % (rel, ident)
        if kind == "nat":
            v = int_value(expr, ienv, T, what)
            ienv[ident] = Fraction(v)
            res[name] = ("natc", v)
        else:
            q, f = eval_f64(expr, fenv, what)
            fenv[ident] = (q, f)
            res[name] = ("f64c", trip(q, f))

    # integer constants that only size arrays (same files)
    for rel, ident in [(CPCI + "icon_estimator.hpp", "ICON_POLYNOMIAL_NUM_COEFFICIENTS"), (CPCI + "icon_estimator.hpp", "ICON_TABLE_SIZE")]:
        ienv[ident] = Fraction(int_value(find_scalar(src_of(rel), ident, rel), ienv, T, "%s:%s" % (rel, ident)))

    for name, rel, ident, kind in TABLES:
        src = src_of(rel)
        dims, body = find_array(src, ident, rel)
        what = "%s:%s" % (rel, ident)
        decl = [int_value(d, ienv, T, what + " dimension") if d.strip() else None for d in dims]
        if kind == "f64x2":
            if len(decl) != 2:
                raise ParseError("%s: expected a 2-dimensional array" % what)
            rows = []
            for r in split_top(body):
                if not (r.startswith("{") and r.endswith("}")):
                    raise ParseError("%s: row is not a brace initialiser" % what)
                els = [trip(*eval_f64(e, fenv, what)) for e in split_top(r[1:-1])]
                if decl[1] is not None and len(els) != decl[1]:
                    raise ParseError("%s: row has %d elements, declared %d" % (what, len(els), decl[1]))
                rows.append(els)
            if decl[0] is not None and len(rows) != decl[0]:
                raise ParseError("%s: %d rows, declared %d" % (what, len(rows), decl[0]))
            res[name] = ("f64x2", rows)
            continue
        if len(decl) != 1:
            raise ParseError("%s: expected a 1-dimensional array" % what)
        parts = split_top(body)
        if any(p.startswith("{") for p in parts):
            raise ParseError("%s: nested initialiser in a 1-dimensional table" % what)
        if decl[0] is not None and len(parts) != decl[0]:
            raise ParseError("%s: %d elements, declared %d (the rest would be zero-filled)" % (what, len(parts), decl[0]))
        if kind == "nat":
            res[name] = ("nat", [int_value(p, ienv, T, what) for p in parts])
        else:
            res[name] = ("f64", [trip(*eval_f64(p, fenv, what)) for p in parts])
    return res


# ------------------------------------------------------------------------------------------ Lean emission

def lean_triple(t):
    return "(0x%016x, %d, %d)" % t


def emit_list(name, items, per_line, ty):
    out = ["def %s : List %s := [" % (name, ty)]
    for i in range(0, len(items), per_line):
        out.append("  " + ", ".join(items[i:i + per_line]) + ("," if i + per_line < len(items) else ""))
    out.append("]")
    return "\n".join(out)


HEADER = ("/- GENERATED by tools/translate.py (tools/trules/bounds.py) from /repo's headers on every run. Do not edit.\n"
          "   A floating-point element is `(bits, num, den)`: exact source value num/den, `bits` = its correctly\n"
          "   rounded IEEE binary64 pattern (re-derived in the kernel by DSProofs/Gen/BoundsBits.lean). -/\n")


def emit(name, val):
    kind, v = val
    T3 = "(Nat × Int × Nat)"
    if kind == "natc":
        return "def %s : Nat := %d" % (name, v)
    if kind == "f64c":
        return "def %s : %s := %s" % (name, T3, lean_triple(v))
    if kind == "nat":
        return emit_list(name, ["%d" % x for x in v], 16, "Nat")
    if kind == "f64":
        return emit_list(name, [lean_triple(t) for t in v], 3, T3)
    if kind == "f64x2":
        out = []
        for i, row in enumerate(v):
            out.append(emit_list("%s_%d" % (name, i), [lean_triple(t) for t in row], 3, T3))
        out.append("def %s : List (List %s) := [%s]" % (name, T3, ", ".join("%s_%d" % (name, i) for i in range(len(v)))))
        return "\n\n".join(out)
    raise ValueError(kind)


def generate(repo, T):
    try:
        res = extract(repo, T)
    except ParseError as ex:
        T.fail("bounds: %s" % ex)
        return {}
    files = {}
    for fn, names in FILES.items():
        body = [HEADER, "namespace DSGen.Bounds", ""]
        for n in names:
            body.append(emit(n, res[n]))
            body.append("")
        body += ["end DSGen.Bounds", ""]
        files[fn] = "\n".join(body)
    placed = set(n for ns in FILES.values() for n in ns)
    missing = set(res) - placed
    if missing:
        T.fail("bounds: internal: tables not placed in a file: %s" % sorted(missing))
    return files


def flat_values(res):
    """name -> flat list of ints (bits for doubles, the value for integers); used by the dump cross-check."""
    out = {}
    for n, (kind, v) in res.items():
        if kind == "natc":
            out[n] = [v]
        elif kind == "f64c":
            out[n] = [v[0]]
        elif kind == "nat":
            out[n] = list(v)
        elif kind == "f64":
            out[n] = [t[0] for t in v]
        else:
            out[n] = [t[0] for row in v for t in row]
    return out

"""Theta family: thresholds and limits used as parameters of the Lean model."""
RULES = [
    ("theta_RESIZE_THRESHOLD", "theta/include/theta_update_sketch_base.hpp", "RESIZE_THRESHOLD", "rat"),
    ("theta_REBUILD_THRESHOLD", "theta/include/theta_update_sketch_base.hpp", "REBUILD_THRESHOLD", "rat"),
    ("theta_STRIDE_HASH_BITS", "theta/include/theta_update_sketch_base.hpp", "STRIDE_HASH_BITS", "nat"),
    ("theta_MIN_LG_K", "theta/include/theta_constants.hpp", "MIN_LG_K", "nat"),
    ("theta_MAX_LG_K", "theta/include/theta_constants.hpp", "MAX_LG_K", "nat"),
    ("theta_DEFAULT_LG_K", "theta/include/theta_constants.hpp", "DEFAULT_LG_K", "nat"),
    ("theta_MAX_THETA", "theta/include/theta_constants.hpp", "MAX_THETA", "nat"),
    ("DEFAULT_SEED", "common/include/common_defs.hpp", "DEFAULT_SEED", "nat"),
]


def generate(repo, T):
    import re
    txt = T.gen_consts(repo, RULES)
    # shape of starting_theta_from_p: plain truncation (pinned code; theta 0 for p < 2^-63) or floored at 1 (repaired)
    src = T.strip_comments(T.read(repo, "theta/include/theta_helpers.hpp"))
    m = re.search(r"starting_theta_from_p\(float p\)\s*\{\s*if \(p < 1\) return ([^;]+);", src)
    if not m:
        T.fail("starting_theta_from_p body not recognised")
        floor = 0
    else:
        body = "".join(m.group(1).split())
        if body == "static_cast<uint64_t>(static_cast<double>(theta_constants::MAX_THETA)*p)":
            floor = 0
        elif body == "std::max<uint64_t>(1,static_cast<uint64_t>(static_cast<double>(theta_constants::MAX_THETA)*p))":
            floor = 1
        else:
            T.fail("starting_theta_from_p has an unknown shape: %r" % m.group(1))
            floor = 0
    txt = txt.replace("end DSGen", "/-- smallest starting theta `starting_theta_from_p` can return for p < 1 -/\ndef theta_STARTING_THETA_FLOOR : Nat := %d\n\nend DSGen" % floor)
    return {"Theta.lean": txt}

"""Theta family: thresholds and limits used as parameters of the Lean model."""
RULES = [
    ("theta_RESIZE_THRESHOLD", "theta/include/theta_update_sketch_base.hpp", "RESIZE_THRESHOLD", "rat"),
    ("theta_REBUILD_THRESHOLD", "theta/include/theta_update_sketch_base.hpp", "REBUILD_THRESHOLD", "rat"),
    ("theta_STRIDE_HASH_BITS", "theta/include/theta_update_sketch_base.hpp", "STRIDE_HASH_BITS", "nat"),
    ("theta_MIN_LG_K", "theta/include/theta_constants.hpp", "MIN_LG_K", "nat"),
    ("theta_MAX_LG_K", "theta/include/theta_constants.hpp", "MAX_LG_K", "nat"),
    ("theta_DEFAULT_LG_K", "theta/include/theta_constants.hpp", "DEFAULT_LG_K", "nat"),
    ("theta_MAX_THETA", "theta/include/theta_constants.hpp", "MAX_THETA", "nat"),
    ("DEFAULT_SEED", "common/include/common_defs.hpp", "DEFAULT_SEED", "nat"),
]


def generate(repo, T):
    return {"Theta.lean": T.gen_consts(repo, RULES)}

"""Classic quantiles family: limits on k and the literals of get_normalized_rank_error, read from the CURRENT headers."""
import re

RULES = [
    ("quantiles_MIN_K", "quantiles/include/quantiles_sketch.hpp", "MIN_K", "nat"),
    ("quantiles_MAX_K", "quantiles/include/quantiles_sketch.hpp", "MAX_K", "nat"),
    ("quantiles_DEFAULT_K", "quantiles/include/quantiles_sketch.hpp", "DEFAULT_K", "nat"),
]

FLT = r"([0-9]+\.[0-9]+(?:[eE][-+]?[0-9]+)?)"


def rank_error_literals(repo, T):
    """`return is_pmf ? A / std::pow(k, B) : C / std::pow(k, D);` in get_normalized_rank_error(uint16_t k, bool is_pmf)."""
    src = T.strip_comments(T.read(repo, "quantiles/include/quantiles_sketch_impl.hpp"))
    m = re.search(r"get_normalized_rank_error\s*\(\s*uint16_t\s+k\s*,\s*bool\s+is_pmf\s*\)\s*\{(.*?)\}", src, flags=re.S)
    if not m:
        T.fail("get_normalized_rank_error(uint16_t k, bool is_pmf) not found in quantiles_sketch_impl.hpp")
        return None
    body = " ".join(m.group(1).split())
    m2 = re.match(r"^return is_pmf \? %s / std::pow\(k, %s\) : %s / std::pow\(k, %s\);$" % (FLT, FLT, FLT, FLT), body)
    if not m2:
        T.fail("get_normalized_rank_error: body has an unrecognised shape: %r" % body)
        return None
    return m2.groups()


def generate(repo, T):
    consts = T.gen_consts(repo, RULES)
    lits = rank_error_literals(repo, T)
    if lits is None:
        return {}
    extra = ["namespace DSGen", "",
             "def quantiles_RANK_ERR_PMF_NUM : Float := %s" % lits[0],
             "def quantiles_RANK_ERR_PMF_POW : Float := %s" % lits[1],
             "def quantiles_RANK_ERR_CDF_NUM : Float := %s" % lits[2],
             "def quantiles_RANK_ERR_CDF_POW : Float := %s" % lits[3],
             "", "end DSGen", ""]
    return {"Quantiles.lean": consts + "\n".join(extra)}

"""CPC family: constants, estimator tables and compression tables used as parameters of the Lean model.

Everything numeric that DSModel/Cpc/* uses comes from the CURRENT headers:
  cpc_common.hpp (lg_k limits), cpc_sketch.hpp (wire constants, flag bits), u32_table.hpp,
  icon_estimator.hpp (polynomial table + the literals of compute_icon_estimate),
  cpc_confidence.hpp (four empirical tables, two constants), kxp_byte_lookup.hpp, inv_pow2_table.hpp,
  compression_data.hpp (22 Huffman byte tables, the 65-symbol length-limited unary table, 16 column permutations).
Doubles are emitted as their IEEE-754 bit patterns (correctly rounded decimal->binary64, as the compiler does).
Anything not found / not parsable is a translation failure (never skipped).
`tables(repo, T)` is also used by vlib/props/c05.py to compare with the values dumped from the compiled headers.
"""
import re, struct

CONSTS = [
    ("cpc_MIN_LG_K", "cpc/include/cpc_common.hpp", "MIN_LG_K", "nat"),
    ("cpc_MAX_LG_K", "cpc/include/cpc_common.hpp", "MAX_LG_K", "nat"),
    ("cpc_DEFAULT_LG_K", "cpc/include/cpc_common.hpp", "DEFAULT_LG_K", "nat"),
    ("cpc_SERIAL_VERSION", "cpc/include/cpc_sketch.hpp", "SERIAL_VERSION", "nat"),
    ("cpc_FAMILY", "cpc/include/cpc_sketch.hpp", "FAMILY", "nat"),
    ("cpc_U32_TABLE_UPSIZE_NUMER", "cpc/include/u32_table.hpp", "U32_TABLE_UPSIZE_NUMER", "nat"),
    ("cpc_U32_TABLE_UPSIZE_DENOM", "cpc/include/u32_table.hpp", "U32_TABLE_UPSIZE_DENOM", "nat"),
    ("cpc_U32_TABLE_DOWNSIZE_NUMER", "cpc/include/u32_table.hpp", "U32_TABLE_DOWNSIZE_NUMER", "nat"),
    ("cpc_U32_TABLE_DOWNSIZE_DENOM", "cpc/include/u32_table.hpp", "U32_TABLE_DOWNSIZE_DENOM", "nat"),
    ("cpc_ICON_MIN_LOG_K", "cpc/include/icon_estimator.hpp", "ICON_MIN_LOG_K", "nat"),
    ("cpc_ICON_MAX_LOG_K", "cpc/include/icon_estimator.hpp", "ICON_MAX_LOG_K", "nat"),
    ("cpc_ICON_POLYNOMIAL_DEGREE", "cpc/include/icon_estimator.hpp", "ICON_POLYNOMIAL_DEGREE", "nat"),
    ("cpc_ICON_POLYNOMIAL_NUM_COEFFICIENTS", "cpc/include/icon_estimator.hpp", "ICON_POLYNOMIAL_NUM_COEFFICIENTS", "nat"),
]

NUM = r"[-+]?(?:0[xX][0-9a-fA-F]+|\d+\.\d*(?:[eE][-+]?\d+)?|\.\d+(?:[eE][-+]?\d+)?|\d+[eE][-+]?\d+|\d+)"


def f64bits(lit):
    return struct.unpack("<Q", struct.pack("<d", float(lit)))[0]


def strip_ifdef(src, undefined=("LARGER_K_VALUES",)):
    """drop `#ifdef X ... #endif` blocks for macros that are never defined by the library"""
    for m in undefined:
        src = re.sub(r"#ifdef\s+%s\b.*?#endif" % m, "", src, flags=re.S)
    return src


def parse_braces(txt):
    """'{a, b, {c, d}}' -> nested python lists of literal strings"""
    pos = [0]

    def skip():
        while pos[0] < len(txt) and txt[pos[0]] in " \t\r\n,":
            pos[0] += 1

    def item():
        skip()
        if txt[pos[0]] == "{":
            pos[0] += 1
            out = []
            while True:
                skip()
                if txt[pos[0]] == "}":
                    pos[0] += 1
                    return out
                out.append(item())
        m = re.compile(NUM + r"[uUlLfF]*").match(txt, pos[0])
        if not m:
            raise ValueError("unparsable table element at %r" % txt[pos[0]:pos[0] + 30])
        pos[0] = m.end()
        return re.sub(r"[uUlL]+$", "", m.group(0))
    r = item()
    skip()
    if pos[0] != len(txt):
        raise ValueError("trailing text after table")
    return r


def find_table(T, src, rel, name):
    m = re.search(r"\b%s\s*((?:\[[^\]]*\]\s*)+)=\s*(\{.*?\})\s*;" % name, src, flags=re.S)
    if not m:
        T.fail("table %s not found in %s" % (name, rel))
        return None, None
    try:
        return m.group(1), parse_braces(m.group(2))
    except (ValueError, IndexError) as ex:
        T.fail("table %s in %s: %s" % (name, rel, ex))
        return None, None


def find_literal(T, src, rel, what, pattern):
    m = re.search(pattern, src, flags=re.S)
    if not m:
        T.fail("%s: pattern for %s not found" % (rel, what))
        return "0"
    return m.group(1)


def tables(repo, T):
    """-> dict name -> (kind, value).  kind: 'f64' (list of literal strings), 'nat' (list of ints), 'nat2' (list of lists),
    'f64s' (single literal), 'nats' (single int)"""
    out = {}
    src = {}

    def S(rel):
        if rel not in src:
            src[rel] = strip_ifdef(T.strip_comments(T.read(repo, rel)))
        return src[rel]

    def ints(xs):
        return [int(x, 0) for x in xs]

    # --- doubles
    for lean, rel, name, n in [("cpc_ICON_COEFFS", "cpc/include/icon_estimator.hpp", "ICON_POLYNOMIAL_COEFFICIENTS", None),
                               ("cpc_KXP_BYTE", "cpc/include/kxp_byte_lookup.hpp", "KXP_BYTE_TABLE", 256),
                               ("cpc_INV_POW2", "common/include/inv_pow2_table.hpp", "INVERSE_POWERS_OF_2", 256)]:
        dims, v = find_table(T, S(rel), rel, name)
        if v is None:
            continue
        if any(isinstance(x, list) for x in v) or (n is not None and len(v) != n):
            T.fail("table %s in %s: unexpected shape (len %d)" % (name, rel, len(v)))
            continue
        out[lean] = ("f64", v)
    # --- small integer tables (confidence)
    for lean, name in [("cpc_ICON_LOW_SIDE", "ICON_LOW_SIDE_DATA"), ("cpc_ICON_HIGH_SIDE", "ICON_HIGH_SIDE_DATA"),
                       ("cpc_HIP_LOW_SIDE", "HIP_LOW_SIDE_DATA"), ("cpc_HIP_HIGH_SIDE", "HIP_HIGH_SIDE_DATA")]:
        rel = "cpc/include/cpc_confidence.hpp"
        dims, v = find_table(T, S(rel), rel, name)
        if v is None:
            continue
        try:
            iv = ints(v)
        except (ValueError, TypeError):
            T.fail("table %s: non-integer entry" % name); continue
        if len(iv) != 33 or min(iv) < 0:
            T.fail("table %s: expected 33 non-negative entries" % name); continue
        out[lean] = ("nat", iv)
    # --- compression tables
    rel = "cpc/include/compression_data.hpp"
    dims, v = find_table(T, S(rel), rel, "encoding_tables_for_high_entropy_byte")
    if v is not None:
        try:
            vv = [ints(r) for r in v]
            if len(vv) != 22 or any(len(r) != 256 for r in vv) or any(not (0 <= x < 65536) for r in vv for x in r):
                raise ValueError("shape")
            out["cpc_ENC_TABLES"] = ("nat2", vv)
        except (ValueError, TypeError) as ex:
            T.fail("encoding_tables_for_high_entropy_byte: expected 22 x 256 uint16 (%s)" % ex)
    dims, v = find_table(T, S(rel), rel, "length_limited_unary_encoding_table65")
    if v is not None:
        try:
            iv = ints(v)
            if len(iv) != 65 or any(not (0 <= x < 65536) for x in iv):
                raise ValueError("shape")
            out["cpc_UNARY65"] = ("nat", iv)
        except (ValueError, TypeError) as ex:
            T.fail("length_limited_unary_encoding_table65: expected 65 uint16 (%s)" % ex)
    dims, v = find_table(T, S(rel), rel, "column_permutations_for_encoding")
    if v is not None:
        try:
            vv = [ints(r) for r in v]
            if len(vv) != 16 or any(len(r) != 56 for r in vv) or any(not (0 <= x < 256) for r in vv for x in r):
                raise ValueError("shape")
            out["cpc_COL_PERMS"] = ("nat2", vv)
        except (ValueError, TypeError) as ex:
            T.fail("column_permutations_for_encoding: expected 16 x 56 uint8 (%s)" % ex)
    # --- literals inside functions
    rel = "cpc/include/icon_estimator.hpp"
    s = S(rel)
    out["cpc_ICON_EXP_FACTOR"] = ("f64s", find_literal(T, s, rel, "icon_exponential_approximation factor",
                                                       r"icon_exponential_approximation\s*\([^)]*\)\s*\{\s*return\s*\(?\s*(%s)\s*\*\s*k\s*\*\s*pow\s*\(\s*2\.0\s*,\s*c\s*/\s*k\s*\)" % NUM))
    m = re.search(r"threshold_factor\s*=\s*\(?\s*\(\s*lg_k\s*<\s*(\d+)\s*\)\s*\?\s*(%s)\s*:\s*(%s)\s*\)?\s*;" % (NUM, NUM), s)
    if not m:
        T.fail("%s: threshold_factor expression not found" % rel)
    else:
        out["cpc_ICON_THRESH_LGK"] = ("nats", int(m.group(1)))
        out["cpc_ICON_THRESH_LO"] = ("f64s", m.group(2))
        out["cpc_ICON_THRESH_HI"] = ("f64s", m.group(3))
    out["cpc_ICON_TERM_DIV"] = ("f64s", find_literal(T, s, rel, "term divisor", r"ratio\s*\*\s*ratio\s*\*\s*ratio\s*/\s*(%s)\s*\)" % NUM))
    out["cpc_ICON_X_SCALE"] = ("f64s", find_literal(T, s, rel, "polynomial argument scale", r"double_c\s*/\s*\(\s*(%s)\s*\*\s*double_k\s*\)" % NUM))
    rel = "cpc/include/cpc_confidence.hpp"
    s = S(rel)
    out["cpc_ICON_ERROR_CONSTANT"] = ("f64s", find_literal(T, s, rel, "ICON_ERROR_CONSTANT", r"ICON_ERROR_CONSTANT\s*=\s*(%s)\s*;" % NUM))
    out["cpc_HIP_ERROR_CONSTANT"] = ("f64s", find_literal(T, s, rel, "HIP_ERROR_CONSTANT", r"HIP_ERROR_CONSTANT\s*=\s*(%s)\s*;" % NUM))
    out["cpc_CONF_DIV"] = ("f64s", find_literal(T, s, rel, "confidence divisor", r"\(kappa\s*-\s*1\)\s*\]\s*\)\s*/\s*(%s)\s*;" % NUM))
    # the confidence tables cover lg_k <= 14 in all four functions
    lims = re.findall(r"if\s*\(\s*lg_k\s*<=\s*(\d+)\s*\)\s*x\s*=", s)
    if len(lims) != 4 or len(set(lims)) != 1:
        T.fail("%s: expected four identical `if (lg_k <= N) x = ...` guards, found %r" % (rel, lims))
    else:
        out["cpc_CONF_MAX_LGK"] = ("nats", int(lims[0]))
    # flags enum
    rel = "cpc/include/cpc_sketch.hpp"
    m = re.search(r"enum\s+flags\s*\{([^}]*)\}", S(rel))
    if not m:
        T.fail("%s: enum flags not found" % rel)
    else:
        names = [x.strip() for x in m.group(1).split(",") if x.strip()]
        if any("=" in n for n in names):
            T.fail("%s: enum flags with explicit values is not handled" % rel)
        for want in ["IS_BIG_ENDIAN", "IS_COMPRESSED", "HAS_HIP", "HAS_TABLE", "HAS_WINDOW"]:
            if want not in names:
                T.fail("%s: flag %s missing" % (rel, want))
            else:
                out["cpc_FLAG_" + want] = ("nats", names.index(want))
    return out


def deser_empty_kxp_shape(repo, T):
    """How do the two `deserialize` overloads initialise the HIP register kxp of an EMPTY image (which stores no registers)?
    -> True:  `if (num_coupons == 0) kxp = 2^lg_k` in both (the state of a new sketch; repaired shape)
       False: kxp stays at its declaration value 0 in both (pinned shape: estimate +inf after further updates)
    anything else (one overload only, another guard, another value) is a translation failure."""
    rel = "cpc/include/cpc_sketch_impl.hpp"
    src = T.strip_comments(T.read(repo, rel))
    bodies = []
    for m in re.finditer(r"cpc_sketch_alloc<A>::deserialize\s*\(([^)]*)\)\s*\{", src):
        depth, i = 1, m.end()
        while i < len(src) and depth:
            depth += {"{": 1, "}": -1}.get(src[i], 0)
            i += 1
        bodies.append(src[m.end():i])
    if len(bodies) != 2:
        T.fail("%s: expected two definitions of cpc_sketch_alloc<A>::deserialize, found %d" % (rel, len(bodies)))
        return None
    pow2 = r"(?:std::)?ldexp\s*\(\s*1(?:\.0*)?\s*,\s*lg_k\s*\)|(?:static_cast<double>\s*\(\s*)?\(?\s*1(?:ULL|UL|U|LL|L)?\s*<<\s*lg_k\s*\)?\s*\)?|(?:std::)?pow\s*\(\s*2(?:\.0*)?\s*,\s*lg_k\s*\)"
    shapes = []
    for b in bodies:
        if not re.search(r"double\s+kxp\s*=\s*0\s*;", b):
            T.fail("%s: deserialize no longer declares `double kxp = 0;`" % rel)
            return None
        # every assignment to kxp that is not the declaration or a read from the image
        assigns = [a for a in re.findall(r"(?:if\s*\(([^;{}]*?)\)\s*)?\bkxp\s*=\s*([^;]*);", b)
                   if not re.match(r"\s*read\s*<", a[1]) and not (a[0] == "" and a[1].strip() == "0")]
        if not assigns:
            shapes.append(False)
        elif len(assigns) == 1 and re.fullmatch(r"\s*(?:num_coupons\s*==\s*0|0\s*==\s*num_coupons|!\s*num_coupons)\s*", assigns[0][0] or "") \
                and re.fullmatch(r"\s*(?:%s)\s*" % pow2, assigns[0][1]):
            shapes.append(True)
        else:
            T.fail("%s: unrecognised initialisation of kxp in deserialize: %r" % (rel, assigns))
            return None
    if shapes[0] != shapes[1]:
        T.fail("%s: the two deserialize overloads initialise kxp of an empty image differently (%r)" % (rel, shapes))
        return None
    return shapes[0]


def lean_list(xs, per=16):
    lines = []
    for i in range(0, len(xs), per):
        lines.append("  " + ", ".join(str(x) for x in xs[i:i + per]))
    return "[\n" + ",\n".join(lines) + "]"


def generate(repo, T):
    head = T.gen_consts(repo, CONSTS)
    tb = tables(repo, T)
    out = [head.rstrip().rsplit("end DSGen", 1)[0].rstrip(), ""]
    for name in sorted(tb):
        kind, v = tb[name]
        if kind == "f64":
            try:
                bits = [f64bits(x) for x in v]
            except ValueError as ex:
                T.fail("%s: %s" % (name, ex)); continue
            out.append("/-- IEEE-754 binary64 bit patterns of the %d source literals -/" % len(bits))
            out.append("def %s_bits : List Nat := %s" % (name, lean_list(["0x%016x" % b for b in bits], 6)))
            out.append("def %s : Array Float := (%s_bits.map (fun b => Float.ofBits (UInt64.ofNat b))).toArray" % (name, name))
        elif kind == "f64s":
            try:
                b = f64bits(v)
            except ValueError as ex:
                T.fail("%s: %s" % (name, ex)); continue
            out.append("def %s_bits : Nat := 0x%016x  -- %s" % (name, b, v))
            out.append("def %s : Float := Float.ofBits (UInt64.ofNat %s_bits)" % (name, name))
        elif kind == "nat":
            out.append("def %s : List Nat := %s" % (name, lean_list(v)))
        elif kind == "nat2":
            out.append("def %s : List (List Nat) := [" % name)
            out.append(",\n".join(" " + lean_list(r).replace("\n", "\n ") for r in v))
            out.append("]")
        elif kind == "nats":
            out.append("def %s : Nat := %d" % (name, v))
        out.append("")
    shape = deser_empty_kxp_shape(repo, T)
    if shape is not None:
        out.append("/-- deserialize of an EMPTY image starts with kxp = 2^lg_k (true: repaired shape) or with kxp = 0 (false: pinned shape) -/")
        out.append("def cpc_DESER_EMPTY_KXP_IS_K : Bool := %s" % ("true" if shape else "false"))
        out.append("")
    out += ["end DSGen", ""]
    return {"Cpc.lean": "\n".join(out)}

"""t-digest family: every tunable the Lean model DSModel/TDigest/Model.lean takes as a parameter, read from the CURRENT headers.

Named constants go through T.gen_consts; the unnamed literals (capacity fudge, minimum k, k2 scale
function coefficients, compression multiplier) and the argument order of the quantile interpolation are
extracted by statement-shape regexes.  A shape that is no longer recognised is a translation failure.
"""
import re

HPP = "tdigest/include/tdigest.hpp"
IMPL = "tdigest/include/tdigest_impl.hpp"

RULES = [
    ("tdigest_BUFFER_MULTIPLIER", HPP, "BUFFER_MULTIPLIER", "nat"),
    ("tdigest_DEFAULT_K", HPP, "DEFAULT_K", "nat"),
]

SHAPES = [
    # (lean names, file, regex, what)
    (("tdigest_MIN_K",), IMPL, r"if\s*\(\s*k\s*<\s*(\d+)\s*\)\s*throw\s+std::invalid_argument\(\s*\"k must be at least",
     "constructor minimum k"),
    (("tdigest_FUDGE_THRESHOLD", "tdigest_FUDGE_SMALL_K", "tdigest_FUDGE_LARGE_K"), IMPL,
     r"const\s+size_t\s+fudge\s*=\s*k\s*<\s*(\d+)\s*\?\s*(\d+)\s*:\s*(\d+)\s*;", "capacity fudge"),
    (("tdigest_CAPACITY_K_MULT",), IMPL, r"centroids_capacity_\s*=\s*(\d+)\s*\*\s*k_\s*\+\s*fudge\s*;", "centroid capacity"),
    (("tdigest_COMPRESSION_K_MULT",), IMPL, r"scale_function\(\)\.normalizer\(\s*(\d+)\s*\*\s*k_\s*,\s*centroids_weight_\s*\)",
     "compression passed to the scale function"),
    (("tdigest_SCALE_Z_MULT", "tdigest_SCALE_Z_ADD"), HPP,
     r"double\s+z\s*\(\s*double\s+compression\s*,\s*double\s+n\s*\)\s*const\s*\{\s*return\s+(\d+)\s*\*\s*std::log\(\s*n\s*/\s*compression\s*\)\s*\+\s*(\d+)\s*;\s*\}",
     "k2 scale function z()"),
]

# shapes that must be present unchanged (the model hard-codes their structure)
PINNED = [
    (HPP, r"double\s+max\s*\(\s*double\s+q\s*,\s*double\s+normalizer\s*\)\s*const\s*\{\s*return\s+q\s*\*\s*\(\s*1\s*-\s*q\s*\)\s*/\s*normalizer\s*;\s*\}",
     "k2 scale function max() = q*(1-q)/normalizer"),
    (HPP, r"double\s+normalizer\s*\(\s*double\s+compression\s*,\s*double\s+n\s*\)\s*const\s*\{\s*return\s+compression\s*/\s*z\(\s*compression\s*,\s*n\s*\)\s*;\s*\}",
     "k2 scale function normalizer() = compression / z(compression, n)"),
    (IMPL, r"buffer_\.size\(\)\s*==\s*centroids_capacity_\s*\*\s*BUFFER_MULTIPLIER", "update(): compress when the buffer holds capacity*BUFFER_MULTIPLIER values"),
]

# centroid::add: the pinned shape, or the overflow-safe shape (delta; isfinite test; weight-ratio blend)
CADD_OLD = (r"void\s+add\s*\(\s*const\s+centroid&\s+other\s*\)\s*\{\s*weight_\s*\+=\s*other\.weight_\s*;\s*"
            r"mean_\s*\+=\s*\(\s*other\.mean_\s*-\s*mean_\s*\)\s*\*\s*other\.weight_\s*/\s*weight_\s*;\s*\}")
CADD_SAFE = (r"void\s+add\s*\(\s*const\s+centroid&\s+other\s*\)\s*\{\s*weight_\s*\+=\s*other\.weight_\s*;\s*"
             r"const\s+T\s+delta\s*=\s*\(\s*other\.mean_\s*-\s*mean_\s*\)\s*\*\s*other\.weight_\s*/\s*weight_\s*;\s*"
             r"if\s*\(\s*std::isfinite\(\s*delta\s*\)\s*\)\s*\{\s*mean_\s*\+=\s*delta\s*;\s*\}\s*else\s*\{\s*"
             r"const\s+T\s+ratio\s*=\s*static_cast<T>\(\s*other\.weight_\s*\)\s*/\s*static_cast<T>\(\s*weight_\s*\)\s*;\s*"
             r"mean_\s*=\s*mean_\s*\*\s*\(\s*1\s*-\s*ratio\s*\)\s*\+\s*other\.mean_\s*\*\s*ratio\s*;\s*\}\s*\}")

WAVG = r"return\s+weighted_average\(\s*centroids_\[i\]\.get_mean\(\)\s*,\s*(w1|w2)\s*,\s*centroids_\[i\s*\+\s*1\]\.get_mean\(\)\s*,\s*(w1|w2)\s*\)\s*;"


def generate(repo, T):
    base = T.gen_consts(repo, RULES)
    extra = []
    cache = {}

    def src(rel):
        if rel not in cache:
            cache[rel] = T.strip_comments(T.read(repo, rel))
        return cache[rel]

    for names, rel, rx, what in SHAPES:
        ms = re.findall(rx, src(rel))
        if len(ms) != 1:
            T.fail("%s: statement shape for %s found %d times (expected once)" % (rel, what, len(ms)))
            continue
        vals = ms[0] if isinstance(ms[0], tuple) else (ms[0],)
        for n, v in zip(names, vals):
            extra.append("def %s : Nat := %d" % (n, int(v)))
    for rel, rx, what in PINNED:
        if len(re.findall(rx, src(rel))) < 1:
            T.fail("%s: pinned statement shape not found: %s" % (rel, what))
    ms = re.findall(WAVG, src(IMPL))
    if len(ms) != 1 or set(ms[0]) != {"w1", "w2"}:
        T.fail("%s: get_quantile interpolation call weighted_average(mean[i], wA, mean[i+1], wB) not recognised" % IMPL)
    else:
        # w1 = distance of the target from centroid i, w2 = distance to centroid i+1.
        # (mean[i], w1, mean[i+1], w2) weights each mean by the distance to ITSELF (reversed interpolation);
        # (mean[i], w2, mean[i+1], w1) is the reference implementation's order.
        extra.append("/-- true: `weighted_average(mean[i], w1, mean[i+1], w2)` (as found in the header); false: `(mean[i], w2, mean[i+1], w1)` -/")
        extra.append("def tdigest_QUANTILE_WEIGHTS_AS_W1_W2 : Bool := %s" % ("true" if ms[0] == ("w1", "w2") else "false"))
    n_old, n_safe = len(re.findall(CADD_OLD, src(HPP))), len(re.findall(CADD_SAFE, src(HPP)))
    if n_old + n_safe != 1:
        T.fail("%s: centroid::add is neither the plain `mean_ += (other.mean_ - mean_) * other.weight_ / weight_` nor the "
               "overflow-safe shape (delta / std::isfinite / weight-ratio blend)" % HPP)
    else:
        extra.append("/-- true: `centroid::add` falls back to `mean_ * (1 - ratio) + other.mean_ * ratio` when the delta is not finite; "
                     "false: plain `mean_ += delta` -/")
        extra.append("def tdigest_CENTROID_ADD_OVERFLOW_SAFE : Bool := %s" % ("true" if n_safe else "false"))
    return {"TDigest.lean": base.replace("\nend DSGen", "\n".join(extra) + "\n\nend DSGen")}

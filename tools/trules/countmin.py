"""Count-min family: the constructor's argument checks and the wire constants used by the Lean model.

The constructor guards are not named constants, so they are read from the statement shapes of the CURRENT
header (anything unrecognised is a translation failure, never skipped):
  if (num_buckets < N) throw ...                              -> countmin_MIN_BUCKETS
  if (<product> >= 1 << K) throw ...                          -> countmin_MAX_CELLS
  _sketch_array((<product> < 1<<K) ? <product> : 0, ...)      -> must agree with MAX_CELLS
  width of <product>: `num_buckets * num_hashes` on (uint32_t, uint8_t) operands is 32-bit unsigned
  arithmetic; a cast of an operand to a 64-bit type (uint64_t / size_t / unsigned long long) makes it 64-bit
                                                              -> countmin_SIZE_ARITH_BITS
"""
import re

RULES = [
    ("countmin_FAMILY_ID", "count/include/count_min.hpp", "FAMILY_ID", "nat"),
    ("countmin_SERIAL_VERSION_1", "count/include/count_min.hpp", "SERIAL_VERSION_1", "nat"),
    ("countmin_PREAMBLE_LONGS_SHORT", "count/include/count_min.hpp", "PREAMBLE_LONGS_SHORT", "nat"),
]

WIDE = re.compile(r"uint64_t|size_t|unsigned\s+long\s+long|std::uint64_t")


def _width(expr, T, what):
    """arithmetic width of a product expression over num_hashes (uint8_t) and num_buckets (uint32_t)"""
    e = expr.strip()
    if not re.search(r"\bnum_hashes\b", e) or not re.search(r"\bnum_buckets\b", e) or "*" not in e:
        T.fail("countmin: %s is not a product of num_hashes and num_buckets: %r" % (what, e))
        return None
    return 64 if WIDE.search(e) else 32


def generate(repo, T):
    src = T.strip_comments(T.read(repo, "count/include/count_min_impl.hpp"))
    m = re.search(r"count_min_sketch<W,\s*A>::count_min_sketch\s*\((.*?)\)\s*:(.*?)\{(.*?)\n\}", src, flags=re.S)
    extra = []
    if not m:
        T.fail("countmin: constructor definition not found in count_min_impl.hpp")
        return {}
    params, inits, body = m.group(1), m.group(2), m.group(3)
    if not re.search(r"uint8_t\s+num_hashes", params) or not re.search(r"uint32_t\s+num_buckets", params):
        T.fail("countmin: constructor parameter types changed: %r" % params)
    mb = re.search(r"if\s*\(\s*num_buckets\s*<\s*(\d+)\s*\)\s*throw", body)
    if not mb:
        T.fail("countmin: `if (num_buckets < N) throw` not found in the constructor")
    mc = re.search(r"if\s*\(\s*(.+?)\s*>=\s*([^){]+?)\s*\)\s*\{?\s*throw", body, flags=re.S)
    if not mc:
        T.fail("countmin: `if (<product> >= LIMIT) throw` not found in the constructor")
    ma = re.search(r"_sketch_array\s*\(\s*\(\s*(.+?)\s*<\s*([^)]+?)\s*\)\s*\?\s*(.+?)\s*:\s*0\s*,", inits, flags=re.S)
    if not ma:
        T.fail("countmin: `_sketch_array((<product> < LIMIT) ? <product> : 0, ...)` not found")
    if T.FAIL:
        return {}
    try:
        lim_throw = T.parse_num_expr(mc.group(2))
        lim_arr = T.parse_num_expr(ma.group(2))
    except ValueError as ex:
        T.fail("countmin: size limit: %s" % ex)
        return {}
    if lim_throw != lim_arr:
        T.fail("countmin: array-size guard (%s) and throw guard (%s) use different limits" % (lim_arr, lim_throw))
    w1 = _width(mc.group(1), T, "throw-guard product")
    w2 = _width(ma.group(1), T, "array-size guard product")
    w3 = _width(ma.group(3), T, "array size product")
    if T.FAIL:
        return {}
    bits = min(w1, w2, w3)
    if not (w1 == w2 == w3):
        T.fail("countmin: the three size products use different arithmetic widths (%s, %s, %s)" % (w1, w2, w3))
        return {}
    base = T.gen_consts(repo, RULES)
    if T.FAIL:
        return {}
    extra = ["def countmin_MIN_BUCKETS : Nat := %d" % int(mb.group(1)),
             "def countmin_MAX_CELLS : Nat := %d" % int(lim_throw),
             "def countmin_SIZE_ARITH_BITS : Nat := %d" % bits, ""]
    return {"CountMin.lean": base.replace("\nend DSGen", "\n".join(extra) + "\nend DSGen")}

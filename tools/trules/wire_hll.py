"""HLL wire constants (C09/C10/C11): every constant of hll_constants that defines the serialized layout, read from the
CURRENT headers.  Value constants become the `Consts` parameter of the Lean wire model (DSModel/Wire/Hll.lean); all of
them (incl. the byte offsets) are pinned to the documented contract by Props/C10_Hll.lean `wire_consts_documented`."""
import re

F = "hll/include/HllUtil.hpp"
NAMES = [
    "SER_VER", "FAMILY_ID",
    "EMPTY_FLAG_MASK", "COMPACT_FLAG_MASK", "OUT_OF_ORDER_FLAG_MASK", "FULL_SIZE_FLAG_MASK",
    "PREAMBLE_INTS_BYTE", "SER_VER_BYTE", "FAMILY_BYTE", "LG_K_BYTE", "LG_ARR_BYTE", "FLAGS_BYTE",
    "LIST_COUNT_BYTE", "HLL_CUR_MIN_BYTE", "MODE_BYTE",
    "LIST_INT_ARR_START", "LIST_PREINTS",
    "HASH_SET_COUNT_INT", "HASH_SET_INT_ARR_START", "HASH_SET_PREINTS",
    "HLL_PREINTS", "HLL_BYTE_ARR_START", "HIP_ACCUM_DOUBLE", "KXQ0_DOUBLE", "KXQ1_DOUBLE",
    "CUR_MIN_COUNT_INT", "AUX_COUNT_INT", "EMPTY_SKETCH_SIZE_BYTES",
    "KEY_BITS_26", "VAL_BITS_6", "MIN_LOG_K", "MAX_LOG_K",
    "LG_INIT_LIST_SIZE", "LG_INIT_SET_SIZE", "RESIZE_NUMER", "RESIZE_DENOM", "AUX_TOKEN",
]
RULES = [("whll_" + n, F, n, "nat") for n in NAMES]


def parse_table(T, repo, rel, ident):
    src = T.strip_comments(T.read(repo, rel))
    m = re.search(r"\b%s\s*\[\s*\]\s*=\s*\{([^}]*)\}" % ident, src)
    if not m:
        T.fail("table %s not found in %s" % (ident, rel))
        return []
    vals = []
    for tok in m.group(1).split(","):
        tok = tok.strip()
        if not tok:
            continue
        try:
            vals.append(int(T.parse_num_expr(tok)))
        except ValueError as ex:
            T.fail("%s in %s: %s" % (ident, rel, ex))
    return vals


def mode_byte_layout(T, repo):
    """The mode byte encoding lives in code (HllSketchImpl-internal.hpp), not in constants: extract the literals of
    makeModeByte / extractCurMode / extractTgtHllType so that a consistent change is seen by C10."""
    rel = "hll/include/HllSketchImpl-internal.hpp"
    src = T.strip_comments(T.read(repo, rel))
    out = {}
    m = re.search(r"extractTgtHllType\s*\(uint8_t modeByte\)\s*\{\s*switch\s*\(\(modeByte\s*>>\s*(\d+)\)\s*&\s*(0x[0-9a-fA-F]+|\d+)\)", src)
    if not m:
        T.fail("extractTgtHllType switch not recognised in %s" % rel)
    else:
        out["whll_TGT_SHIFT"] = int(m.group(1))
        out["whll_TGT_MASK"] = int(m.group(2), 0)
    m = re.search(r"extractCurMode\s*\(uint8_t modeByte\)\s*\{\s*switch\s*\(modeByte\s*&\s*(0x[0-9a-fA-F]+|\d+)\)", src)
    if not m:
        T.fail("extractCurMode switch not recognised in %s" % rel)
    else:
        out["whll_CUR_MODE_MASK"] = int(m.group(1), 0)
    body = re.search(r"makeModeByte\(\) const\s*\{(.*?)return byte;", src, flags=re.S)
    if not body:
        T.fail("makeModeByte not recognised in %s" % rel)
    else:
        b = body.group(1)
        for mode in ("LIST", "SET", "HLL"):
            mm = re.search(r"case %s:\s*byte\s*=\s*(\d+);" % mode, b)
            if not mm:
                T.fail("makeModeByte: case %s not recognised" % mode)
            else:
                out["whll_MODE_%s" % mode] = int(mm.group(1))
        for ty in ("HLL_4", "HLL_6", "HLL_8"):
            mm = re.search(r"case %s:\s*byte\s*\|=\s*\((\d+)\s*<<\s*(\d+)\);" % ty, b)
            if not mm:
                T.fail("makeModeByte: case %s not recognised" % ty)
            else:
                out["whll_TGT_%s" % ty] = int(mm.group(1))
                out["whll_TGT_%s_SHIFT" % ty] = int(mm.group(2))
    # enum values used by the switches
    util = T.strip_comments(T.read(repo, F))
    m = re.search(r"enum\s+hll_mode\s*\{\s*LIST\s*=\s*(\d+)\s*,\s*SET\s*,\s*HLL\s*\}", util)
    if not m or m.group(1) != "0":
        T.fail("enum hll_mode { LIST = 0, SET, HLL } not recognised in %s" % F)
    hll = T.strip_comments(T.read(repo, "hll/include/hll.hpp"))
    m = re.search(r"enum\s+target_hll_type\s*\{(.*?)\}", hll, flags=re.S)
    if not m:
        T.fail("enum target_hll_type not found")
    else:
        names = [x.strip().split("=")[0].strip() for x in m.group(1).split(",") if x.strip()]
        if names != ["HLL_4", "HLL_6", "HLL_8"] or "=" in m.group(1):
            T.fail("enum target_hll_type changed: %s" % m.group(1).strip())
    return out


def arr_bytes_formulas(T, repo):
    """hll4ArrBytes / hll6ArrBytes / hll8ArrBytes are one-line formulas: recognise them literally (anything else is a
    translation failure, never skipped) and emit their shape parameters."""
    rel = "hll/include/HllArray-internal.hpp"
    src = T.strip_comments(T.read(repo, rel))
    out = {}
    m = re.search(r"hll4ArrBytes\(uint8_t lgConfigK\)\s*\{\s*return 1 << \(lgConfigK - (\d+)\);", src)
    if m:
        out["whll_ARR4_SHIFT_SUB"] = int(m.group(1))
    else:
        T.fail("hll4ArrBytes formula not recognised in %s" % rel)
    m = re.search(r"hll6ArrBytes\(uint8_t lgConfigK\)\s*\{\s*const uint32_t numSlots = 1 << lgConfigK;\s*return \(\(numSlots \* (\d+)\) >> (\d+)\) \+ (\d+);", src)
    if m:
        out["whll_ARR6_MUL"] = int(m.group(1)); out["whll_ARR6_SHR"] = int(m.group(2)); out["whll_ARR6_ADD"] = int(m.group(3))
    else:
        T.fail("hll6ArrBytes formula not recognised in %s" % rel)
    m = re.search(r"hll8ArrBytes\(uint8_t lgConfigK\)\s*\{\s*return 1 << lgConfigK;", src)
    if m:
        out["whll_ARR8_SHIFT_SUB"] = 0
    else:
        T.fail("hll8ArrBytes formula not recognised in %s" % rel)
    return out


def generate(repo, T):
    base = T.gen_consts(repo, RULES)
    tab = parse_table(T, repo, F, "LG_AUX_ARR_INTS")
    extra = dict(mode_byte_layout(T, repo))
    extra.update(arr_bytes_formulas(T, repo))
    lines = ["namespace DSGen", "", "def whll_LG_AUX_ARR_INTS : List Nat := [%s]" % ", ".join(str(x) for x in tab), ""]
    for k in sorted(extra):
        lines.append("def %s : Nat := %d" % (k, extra[k]))
    lines += ["", "end DSGen", ""]
    return {"WireHll.lean": base + "\n".join(lines)}

"""Wire constants of the CPC sketch image, read from the CURRENT headers on every run -> lean/DSGen/WireCpc.lean.
They are the parameters of the Lean encoder/decoder (lean/DSModel/Wire/Cpc.lean, via CpcGen.lean) and are pinned to the
documented values by `wire_consts_documented` (lean/DSProofs/Props/C10_Cpc.lean).

Extracted:
  named   FAMILY, SERIAL_VERSION (cpc_sketch.hpp)
  enum    flags { IS_BIG_ENDIAN, IS_COMPRESSED, HAS_HIP, HAS_TABLE, HAS_WINDOW } -> bit positions
  shape   get_preamble_ints: the starting value and the five increments, in the recognised nesting
  order   the sequence of fields written by serialize(ostream) / serialize(bytes) and read by deserialize(istream) /
          deserialize(bytes), as field codes (0 preamble_ints .. 13 table data); widths of the fixed header fields
          (from the read<T> calls of the stream reader)
A statement that no longer has the recognised shape is a translation failure (broken tie), never a silent default.
"""
import re

HPP = "cpc/include/cpc_sketch.hpp"
IMPL = "cpc/include/cpc_sketch_impl.hpp"

NAMED = [("wirecpc_FAMILY", HPP, "FAMILY", "nat"), ("wirecpc_SERIAL_VERSION", HPP, "SERIAL_VERSION", "nat")]

FIELD = {"preamble_ints": 0, "serial_version": 1, "family": 2, "family_id": 2, "lg_k": 3, "first_interesting_column": 4,
         "flags_byte": 5, "seed_hash": 6, "num_coupons": 7, "compressed.table_num_entries": 8, "kxp": 9, "HIP": 9,
         "compressed.table_data_words": 10, "compressed.window_data_words": 11,
         "compressed.window_data.data()": 12, "compressed.table_data.data()": 13}
WIDTH = {"uint8_t": 1, "uint16_t": 2, "uint32_t": 4, "uint64_t": 8, "double": 8}


def bodies(T, src, pattern, what, n):
    out = []
    for m in re.finditer(pattern, src):
        depth, i = 1, m.end()
        while i < len(src) and depth:
            depth += {"{": 1, "}": -1}.get(src[i], 0)
            i += 1
        out.append(src[m.end():i])
    if len(out) != n:
        T.fail("%s: expected %d definition(s) of %s, found %d" % (IMPL, n, what, len(out)))
        return None
    return out


def order(T, body, pats, what):
    """fields in textual order; `hip_est_accum` directly after kxp belongs to the same field"""
    seq = []
    for m in re.finditer("|".join(pats), body):
        name = next(g for g in m.groups() if g is not None).strip()
        if name.endswith(".data("):
            name += ")"
        if name == "hip_est_accum":
            continue
        if name not in FIELD:
            T.fail("%s: %s touches an unknown field %r" % (IMPL, what, name))
            return None
        seq.append(FIELD[name])
    return seq


def generate(repo, T):
    base = T.gen_consts(repo, NAMED)
    hpp = T.strip_comments(T.read(repo, HPP))
    impl = T.strip_comments(T.read(repo, IMPL))
    extra = []
    m = re.search(r"enum\s+flags\s*\{([^}]*)\}", hpp)
    if not m:
        T.fail("%s: enum flags not found" % HPP)
    else:
        names = [x.strip() for x in m.group(1).split(",") if x.strip()]
        if any("=" in n for n in names):
            T.fail("%s: enum flags with explicit values is not handled" % HPP)
        for want in ["IS_BIG_ENDIAN", "IS_COMPRESSED", "HAS_HIP", "HAS_TABLE", "HAS_WINDOW"]:
            if want not in names:
                T.fail("%s: flag %s missing" % (HPP, want))
            else:
                extra.append("def wirecpc_FLAG_%s : Nat := %d" % (want, names.index(want)))
    # get_preamble_ints
    b = bodies(T, impl, r"cpc_sketch_alloc<A>::get_preamble_ints\s*\([^)]*\)\s*\{", "get_preamble_ints", 1)
    if b:
        flat = re.sub(r"\s+", "", b[0])
        m = re.fullmatch(r"uint8_tpreamble_ints=(\d+);if\(num_coupons>0\)\{preamble_ints\+=(\d+);if\(has_hip\)\{preamble_ints\+=(\d+);\}"
                         r"if\(has_table\)\{preamble_ints\+=(\d+);if\(has_window\)\{preamble_ints\+=(\d+);\}\}"
                         r"if\(has_window\)\{preamble_ints\+=(\d+);\}\}returnpreamble_ints;\}", flat)
        if not m:
            T.fail("%s: get_preamble_ints no longer has the recognised shape: %s" % (IMPL, flat[:200]))
        else:
            for nm, v in zip(["BASE", "COUPONS", "HIP", "TABLE", "BOTH", "WINDOW"], m.groups()):
                extra.append("def wirecpc_PRE_%s : Nat := %s" % (nm, v))
    # field order of the two writers and the two readers
    ser = bodies(T, impl, r"cpc_sketch_alloc<A>::serialize\s*\(([^)]*)\)\s*const(?:\s*->\s*\w+)?\s*\{", "serialize", 2)
    des = bodies(T, impl, r"cpc_sketch_alloc<A>::deserialize\s*\(([^)]*)\)\s*\{", "deserialize", 2)
    seqs = {}
    if ser:
        for bdy in ser:
            if "copy_to_mem" in bdy:
                bdy = bdy.replace("copy_hip_to_mem(ptr)", "copy_to_mem(HIP, ptr)")
                seqs["SER_BYTES"] = order(T, bdy, [r"copy_to_mem\(\s*([\w\.\(\)]+?)\s*,"], "serialize(bytes)")
            else:
                bdy = bdy.replace("write_hip(os)", "write(os, HIP)")
                seqs["SER_STREAM"] = order(T, bdy, [r"write\(os,\s*([\w\.\(\)]+?)\s*[,\)]"], "serialize(ostream)")
    if des:
        for bdy in des:
            if "copy_from_mem" in bdy:
                seqs["DES_BYTES"] = order(T, bdy, [r"copy_from_mem\(ptr,\s*([\w\.\(\)]+?)\s*[,\)]"], "deserialize(bytes)")
            else:
                seqs["DES_STREAM"] = order(T, bdy, [r"(?:const\s+auto\s+|\b)([\w\.]+)\s*=\s*read<\w+>\(is\)", r"read\(is,\s*([\w\.\(\)]+?)\s*,"],
                                           "deserialize(istream)")
                widths = []
                for mm in re.finditer(r"(?:const\s+auto\s+)(\w+)\s*=\s*read<(\w+)>\(is\)", bdy):
                    if mm.group(2) not in WIDTH:
                        T.fail("%s: deserialize(istream) reads an unknown type %s" % (IMPL, mm.group(2)))
                    else:
                        widths.append(WIDTH[mm.group(2)])
                extra.append("def wirecpc_HEADER_WIDTHS : List Nat := [%s]" % ", ".join(map(str, widths)))
    for k in ["SER_STREAM", "SER_BYTES", "DES_STREAM", "DES_BYTES"]:
        if seqs.get(k) is None:
            T.fail("%s: field order of %s not extracted" % (IMPL, k))
        else:
            extra.append("def wirecpc_ORDER_%s : List Nat := [%s]" % (k, ", ".join(map(str, seqs[k]))))
    return {"WireCpc.lean": base.replace("\nend DSGen", "\n".join(extra) + "\n\nend DSGen")}

"""C19 (life): thresholds and limits of the hand-managed classes used as parameters of the heap programs."""
import re
RULES = [
    ("life_theta_RESIZE_THRESHOLD", "theta/include/theta_update_sketch_base.hpp", "RESIZE_THRESHOLD", "rat"),
    ("life_theta_REBUILD_THRESHOLD", "theta/include/theta_update_sketch_base.hpp", "REBUILD_THRESHOLD", "rat"),
    ("life_theta_STRIDE_HASH_BITS", "theta/include/theta_update_sketch_base.hpp", "STRIDE_HASH_BITS", "nat"),
    ("life_theta_MIN_LG_K", "theta/include/theta_constants.hpp", "MIN_LG_K", "nat"),
    ("life_theta_MAX_LG_K", "theta/include/theta_constants.hpp", "MAX_LG_K", "nat"),
    ("life_kll_DEFAULT_M", "kll/include/kll_sketch.hpp", "DEFAULT_M", "nat"),
    ("life_kll_MIN_K", "kll/include/kll_sketch.hpp", "MIN_K", "nat"),
    ("life_kll_MAX_K", "kll/include/kll_sketch.hpp", "MAX_K", "nat"),
    ("life_fi_LOAD_FACTOR", "fi/include/reverse_purge_hash_map.hpp", "LOAD_FACTOR", "rat"),
    ("life_fi_DRIFT_LIMIT", "fi/include/reverse_purge_hash_map.hpp", "DRIFT_LIMIT", "nat"),
    ("life_fi_MAX_SAMPLE_SIZE", "fi/include/reverse_purge_hash_map.hpp", "MAX_SAMPLE_SIZE", "nat"),
    ("life_fi_LG_MIN_MAP_SIZE", "fi/include/frequent_items_sketch.hpp", "LG_MIN_MAP_SIZE", "nat"),
]


def kll_move_assign_shape(repo, T):
    """Where `kll_sketch::operator=(kll_sketch&&)` releases cached sorted views.  Recognised statement shapes:
         0  pinned:       swaps ...; reset_sorted_view();                               (own view, after the swaps)
         1  intermediate: reset_sorted_view(); swaps ...                                (own view, before the swaps)
         2  repaired:     reset_sorted_view(); other.reset_sorted_view(); swaps ...     (own view and the source's view)
       anything else is a translation failure."""
    rel = "kll/include/kll_sketch_impl.hpp"
    src = T.strip_comments(T.read(repo, rel))
    m = re.search(r"operator=\(kll_sketch&&\s+other\)\s*\{(.*?)\n\}", src, flags=re.S)
    if not m:
        T.fail("kll move assignment not found in %s" % rel)
        return 0
    stmts = [x.strip() for x in m.group(1).split(";") if x.strip()]
    swaps = [x for x in stmts if re.fullmatch(r"std::swap\((\w+),\s*other\.\1\)", x)]
    rest = [x for x in stmts if x not in swaps]
    members = sorted(re.fullmatch(r"std::swap\((\w+),.*", x).group(1) for x in swaps)
    expect = sorted(["comparator_", "allocator_", "k_", "m_", "min_k_", "num_levels_", "is_level_zero_sorted_", "n_", "levels_",
                     "items_", "items_size_", "min_item_", "max_item_"])
    if members != expect:
        T.fail("kll move assignment swaps %s, expected %s" % (members, expect))
        return 0
    first_swap = min(stmts.index(x) for x in swaps)
    last_swap = max(stmts.index(x) for x in swaps)
    if rest == ["reset_sorted_view()", "return *this"] and stmts.index("reset_sorted_view()") > last_swap:
        return 0
    if rest == ["reset_sorted_view()", "return *this"] and stmts.index("reset_sorted_view()") < first_swap:
        return 1
    if rest == ["reset_sorted_view()", "other.reset_sorted_view()", "return *this"] and stmts.index("other.reset_sorted_view()") < first_swap:
        return 2
    T.fail("kll move assignment has an unrecognised shape: %s" % rest)
    return 0


def generate(repo, T):
    body = T.gen_consts(repo, RULES)
    shape = kll_move_assign_shape(repo, T)
    extra = ("/-- statement shape of `kll_sketch::operator=(kll_sketch&&)` (0 pinned, 1 own view released first, 2 own and the\n"
             "    source's view released first), read from the current header -/\n"
             "def life_kll_MOVE_ASSIGN_SHAPE : Nat := %d\n\nend DSGen" % shape)
    return {"Life.lean": body.replace("end DSGen", extra)}

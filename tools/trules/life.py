"""C19 (life): thresholds and limits of the hand-managed classes used as parameters of the heap programs."""
RULES = [
    ("life_theta_RESIZE_THRESHOLD", "theta/include/theta_update_sketch_base.hpp", "RESIZE_THRESHOLD", "rat"),
    ("life_theta_REBUILD_THRESHOLD", "theta/include/theta_update_sketch_base.hpp", "REBUILD_THRESHOLD", "rat"),
    ("life_theta_STRIDE_HASH_BITS", "theta/include/theta_update_sketch_base.hpp", "STRIDE_HASH_BITS", "nat"),
    ("life_theta_MIN_LG_K", "theta/include/theta_constants.hpp", "MIN_LG_K", "nat"),
    ("life_theta_MAX_LG_K", "theta/include/theta_constants.hpp", "MAX_LG_K", "nat"),
    ("life_kll_DEFAULT_M", "kll/include/kll_sketch.hpp", "DEFAULT_M", "nat"),
    ("life_kll_MIN_K", "kll/include/kll_sketch.hpp", "MIN_K", "nat"),
    ("life_kll_MAX_K", "kll/include/kll_sketch.hpp", "MAX_K", "nat"),
    ("life_fi_LOAD_FACTOR", "fi/include/reverse_purge_hash_map.hpp", "LOAD_FACTOR", "rat"),
    ("life_fi_DRIFT_LIMIT", "fi/include/reverse_purge_hash_map.hpp", "DRIFT_LIMIT", "nat"),
    ("life_fi_MAX_SAMPLE_SIZE", "fi/include/reverse_purge_hash_map.hpp", "MAX_SAMPLE_SIZE", "nat"),
    ("life_fi_LG_MIN_MAP_SIZE", "fi/include/frequent_items_sketch.hpp", "LG_MIN_MAP_SIZE", "nat"),
]


def generate(repo, T):
    return {"Life.lean": T.gen_consts(repo, RULES)}

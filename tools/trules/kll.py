"""KLL family: constants, the powers-of-three table and the published-error constants used as
parameters of the Lean model (lean/DSGen/Kll.lean).  Anything not found/parsable is a translation failure."""
import re, struct

RULES = [
    ("kll_DEFAULT_K", "kll/include/kll_sketch.hpp", "DEFAULT_K", "nat"),
    ("kll_DEFAULT_M", "kll/include/kll_sketch.hpp", "DEFAULT_M", "nat"),
    ("kll_MIN_K", "kll/include/kll_sketch.hpp", "MIN_K", "nat"),
    ("kll_MAX_K", "kll/include/kll_sketch.hpp", "MAX_K", "nat"),
]


def f64bits(lit):
    return struct.unpack("<Q", struct.pack("<d", float(lit)))[0]


def generate(repo, T):
    body = T.gen_consts(repo, RULES)
    extra = []
    # powers_of_three[] table
    src = T.strip_comments(T.read(repo, "kll/include/kll_helper.hpp"))
    m = re.search(r"powers_of_three\s*\[\s*\]\s*=\s*\{([^}]*)\}", src)
    if not m:
        T.fail("powers_of_three[] not found in kll/include/kll_helper.hpp")
    else:
        try:
            vals = [int(T.parse_num_expr(x)) for x in m.group(1).split(",") if x.strip()]
            extra.append("def kll_powers_of_three : List Nat := [%s]" % ", ".join(str(v) for v in vals))
        except ValueError as ex:
            T.fail("powers_of_three[]: %s" % ex)
    # int_cap_aux: the table is used up to depth 30 and the split threshold is 30 / limit 60
    hsrc = T.strip_comments(T.read(repo, "kll/include/kll_helper_impl.hpp"))
    m = re.search(r"if\s*\(\s*depth\s*<=\s*(\d+)\s*\)\s*return\s+int_cap_aux_aux\s*\(\s*k\s*,\s*depth\s*\)", hsrc)
    if not m:
        T.fail("int_cap_aux: `if (depth <= N) return int_cap_aux_aux(k, depth)` not found")
    else:
        extra.append("def kll_INT_CAP_SPLIT_DEPTH : Nat := %s" % m.group(1))
    # get_normalized_rank_error: pmf ? A / pow(k, B) : C / pow(k, D)
    isrc = T.strip_comments(T.read(repo, "kll/include/kll_sketch_impl.hpp"))
    m = re.search(r"return\s+pmf\s*\?\s*([0-9.eE+-]+)\s*/\s*pow\s*\(\s*k\s*,\s*([0-9.eE+-]+)\s*\)\s*:\s*([0-9.eE+-]+)\s*/\s*pow\s*\(\s*k\s*,\s*([0-9.eE+-]+)\s*\)\s*;", isrc)
    if not m:
        T.fail("get_normalized_rank_error: `return pmf ? A / pow(k, B) : C / pow(k, D);` not found in kll_sketch_impl.hpp")
    else:
        for nm, lit in zip(("PMF_A", "PMF_B", "CDF_A", "CDF_B"), m.groups()):
            extra.append("/-- source literal %s -/\ndef kll_ERR_%s_bits : UInt64 := 0x%016x" % (lit, nm, f64bits(lit)))
    # source shapes that two fixes change (pinned shape -> false, repaired shape -> true, anything else = failure)
    def norm(x):
        return re.sub(r"\s+", "", x)
    # (a) const_iterator constructor body
    mc = re.search(r"::const_iterator::const_iterator\(const T\* items, const uint32_t\* levels, const uint8_t num_levels\):\s*"
                   r"([^{]*)\{(.*?)\}\s*template<typename T, typename C, typename A>\s*typename kll_sketch<T, C, A>::const_iterator& "
                   r"kll_sketch<T, C, A>::const_iterator::operator\+\+\(\)", isrc, flags=re.S)
    INIT = "items(items),levels(levels),num_levels(num_levels),index(items==nullptr?levels[num_levels]:levels[0]),level(items==nullptr?num_levels:0),weight(1)"
    SKIP = "if(items!=nullptr){while(level<num_levels&&levels[level]==levels[level+1]){++level;weight*=2;}}"
    flag_iter = "false"
    if not mc:
        T.fail("kll_sketch::const_iterator constructor not found in kll_sketch_impl.hpp")
    elif norm(mc.group(1)) != INIT:
        T.fail("kll_sketch::const_iterator constructor has an unknown initializer list: %r" % mc.group(1)[:200])
    elif norm(mc.group(2)) == "":
        flag_iter = "false"
    elif norm(mc.group(2)) == SKIP:
        flag_iter = "true"
    else:
        T.fail("kll_sketch::const_iterator constructor has an unknown body: %r" % mc.group(2)[:200])
    extra.append("/-- the const_iterator constructor skips empty levels, doubling the weight (true), or starts at level 0 with weight 1 (false) -/")
    extra.append("def kll_ITER_SKIPS_EMPTY_LEVELS : Bool := %s" % flag_iter)
    # (b) get_quantile: range check of the rank
    mq = re.search(r"::get_quantile\(double rank, bool inclusive\) const -> quantile_return_type \{.*?if \(([^;{}]*)\) \{\s*throw std::invalid_argument\(\"normalized rank",
                   isrc, flags=re.S)
    flag_nan = "false"
    if not mq:
        T.fail("kll_sketch::get_quantile range check not found in kll_sketch_impl.hpp")
    else:
        g = norm(mq.group(1))
        if g == "(rank<0.0)||(rank>1.0)":
            flag_nan = "false"
        elif g == "!(rank>=0.0&&rank<=1.0)":
            flag_nan = "true"
        else:
            T.fail("kll_sketch::get_quantile range check has an unknown shape: %r" % mq.group(1))
    extra.append("/-- get_quantile rejects a rank unless `rank >= 0 && rank <= 1` (true: NaN rejected) or only if `rank < 0 || rank > 1` (false: NaN passes) -/")
    extra.append("def kll_NAN_RANK_REJECTED : Bool := %s" % flag_nan)
    return {"Kll.lean": body.replace("\nend DSGen\n", "\n".join(extra) + "\n\nend DSGen\n")}

"""Wire constants of group `count` (count-min, frequent items, VarOpt sketch, VarOpt union, EBPPS), read from the
CURRENT headers on every run -> lean/DSGen/WireCount.lean.  They are the parameters of the Lean encoders/decoders
(lean/DSModel/Wire/{CountMin,Fi,VarOpt,Ebpps}.lean) and are pinned to the documented values by
`wire_consts_documented` (lean/DSProofs/Props/C10_*.lean).

Three kinds of facts are extracted:
  named   `static const ... NAME = expr;`                                (T.parse_num_expr)
  enum    `enum flags { A = 0, B = 2 }` / implicit numbering             (bit positions)
  shape   literals that only occur inside expressions of the writer/reader (e.g. `(preLongs & 0x3F) | (rf << 6)`,
          `val |= 0x1 << (i & 0x7)`): a regex with named groups; if the statement no longer has the recognised
          shape this is a translation failure (broken tie), never a silent default.
"""
import re

CM_H = "count/include/count_min.hpp"
CM_I = "count/include/count_min_impl.hpp"
FI_H = "fi/include/frequent_items_sketch.hpp"
FI_I = "fi/include/frequent_items_sketch_impl.hpp"
VO_H = "sampling/include/var_opt_sketch.hpp"
VO_I = "sampling/include/var_opt_sketch_impl.hpp"
VU_H = "sampling/include/var_opt_union.hpp"
EB_H = "sampling/include/ebpps_sketch.hpp"

NAMED = [
    # lean name, file, identifier, kind
    ("wc_cm_FAMILY_ID", CM_H, "FAMILY_ID", "nat"),
    ("wc_cm_SERIAL_VERSION_1", CM_H, "SERIAL_VERSION_1", "nat"),
    ("wc_cm_PREAMBLE_LONGS_SHORT", CM_H, "PREAMBLE_LONGS_SHORT", "nat"),
    ("wc_fi_FAMILY_ID", FI_H, "FAMILY_ID", "nat"),
    ("wc_fi_SERIAL_VERSION", FI_H, "SERIAL_VERSION", "nat"),
    ("wc_fi_PREAMBLE_LONGS_EMPTY", FI_H, "PREAMBLE_LONGS_EMPTY", "nat"),
    ("wc_fi_PREAMBLE_LONGS_NONEMPTY", FI_H, "PREAMBLE_LONGS_NONEMPTY", "nat"),
    ("wc_fi_LG_MIN_MAP_SIZE", FI_H, "LG_MIN_MAP_SIZE", "nat"),
    ("wc_fi_EPSILON_FACTOR", FI_H, "EPSILON_FACTOR", "rat"),
    ("wc_vo_FAMILY_ID", VO_H, "FAMILY_ID", "nat"),
    ("wc_vo_SER_VER", VO_H, "SER_VER", "nat"),
    ("wc_vo_PREAMBLE_LONGS_EMPTY", VO_H, "PREAMBLE_LONGS_EMPTY", "nat"),
    ("wc_vo_PREAMBLE_LONGS_WARMUP", VO_H, "PREAMBLE_LONGS_WARMUP", "nat"),
    ("wc_vo_PREAMBLE_LONGS_FULL", VO_H, "PREAMBLE_LONGS_FULL", "nat"),
    ("wc_vo_EMPTY_FLAG_MASK", VO_H, "EMPTY_FLAG_MASK", "nat"),
    ("wc_vo_GADGET_FLAG_MASK", VO_H, "GADGET_FLAG_MASK", "nat"),
    ("wc_vo_MAX_K", VO_H, "MAX_K", "nat"),
    ("wc_vu_FAMILY_ID", VU_H, "FAMILY_ID", "nat"),
    ("wc_vu_SER_VER", VU_H, "SER_VER", "nat"),
    ("wc_vu_PREAMBLE_LONGS_EMPTY", VU_H, "PREAMBLE_LONGS_EMPTY", "nat"),
    ("wc_vu_PREAMBLE_LONGS_NON_EMPTY", VU_H, "PREAMBLE_LONGS_NON_EMPTY", "nat"),
    ("wc_vu_EMPTY_FLAG_MASK", VU_H, "EMPTY_FLAG_MASK", "nat"),
    ("wc_eb_FAMILY_ID", EB_H, "FAMILY_ID", "nat"),
    ("wc_eb_SER_VER", EB_H, "SER_VER", "nat"),
    ("wc_eb_PREAMBLE_LONGS_EMPTY", EB_H, "PREAMBLE_LONGS_EMPTY", "nat"),
    ("wc_eb_PREAMBLE_LONGS_FULL", EB_H, "PREAMBLE_LONGS_FULL", "nat"),
    ("wc_eb_EMPTY_FLAG_MASK", EB_H, "EMPTY_FLAG_MASK", "nat"),
    ("wc_eb_HAS_PARTIAL_ITEM_MASK", EB_H, "HAS_PARTIAL_ITEM_MASK", "nat"),
    ("wc_eb_MAX_K", EB_H, "MAX_K", "nat"),
]

ENUMS = [
    # lean prefix, file, enum name, expected members (order irrelevant)
    ("wc_cm_flag_", CM_H, "flags", ["IS_EMPTY"]),
    ("wc_fi_flag_", FI_H, "flags", ["IS_EMPTY_1", "IS_EMPTY_2"]),
]

# every occurrence of the statement must match (writer bytes path + writer stream path + readers)
SHAPES = [
    # (file, regex finding candidate statements, regex the candidate must match with named groups -> lean defs, min count)
    ("count-min min buckets", CM_I, r"if\s*\(\s*num_buckets\s*<[^)]*\)\s*throw",
     r"if\s*\(\s*num_buckets\s*<\s*(?P<wc_cm_MIN_BUCKETS>\d+)\s*\)\s*throw", 1),
    # accepted forms: `num_buckets * num_hashes >= 1 << 30` and the 64-bit form `static_cast<uint64_t>(num_buckets) * num_hashes >= (1ULL << 30)`
    ("count-min max cells", CM_I, r"if\s*\(\s*(?:static_cast<uint64_t>\(num_buckets\)|num_buckets)\s*\*\s*num_hashes\s*[<>=]+[^{;]*\{",
     r"if\s*\(\s*(?:static_cast<uint64_t>\(num_buckets\)|num_buckets)\s*\*\s*num_hashes\s*>=\s*\(?\s*1(?:ULL)?\s*<<\s*(?P<wc_cm_LG_MAX_CELLS>\d+)\s*\)?\s*\)\s*\{", 1),
    ("varopt first byte (writer)", VO_I, r"first_byte\s*=\s*\(preLongs[^;]*;",
     r"first_byte\s*=\s*\(preLongs\s*&\s*(?P<wc_vo_PRELONGS_MASK>0x[0-9a-fA-F]+)\)\s*\|\s*\(\(static_cast<uint8_t>\(rf_\)\)\s*<<\s*(?P<wc_vo_RF_SHIFT>\d+)\)\s*;", 2),
    ("varopt first byte (reader, preamble longs)", VO_I, r"preamble_longs\s*=\s*first_byte[^;]*;",
     r"preamble_longs\s*=\s*first_byte\s*&\s*(?P<wc_vo_PRELONGS_MASK_R>0x[0-9a-fA-F]+)\s*;", 2),
    ("varopt first byte (reader, resize factor)", VO_I, r"rf\s*=\s*static_cast<resize_factor>\(\(first_byte[^;]*;",
     r"rf\s*=\s*static_cast<resize_factor>\(\(first_byte\s*>>\s*(?P<wc_vo_RF_SHIFT_R>\d+)\)\s*&\s*(?P<wc_vo_RF_MASK_R>0x[0-9a-fA-F]+)\)\s*;", 2),
    ("varopt marks packing (writer)", VO_I, r"val\s*\|=[^;]*;",
     r"val\s*\|=\s*0x1\s*<<\s*\(i\s*&\s*(?P<wc_vo_MARK_IDX_MASK>0x[0-9a-fA-F]+)\)\s*;", 2),
    ("varopt marks packing (reader)", VO_I, r"marks\.get\(\)\[i\]\s*=\s*\(\([^;]*;",
     r"marks\.get\(\)\[i\]\s*=\s*\(\(val\s*>>\s*\(i\s*&\s*(?P<wc_vo_MARK_IDX_MASK_R>0x[0-9a-fA-F]+)\)\)\s*&\s*0x1\)\s*==\s*1\s*;", 2),
]


def parse_enum(T, src, rel, ename, members):
    m = re.search(r"\benum\s+%s\s*\{([^}]*)\}" % ename, src)
    if not m:
        T.fail("enum %s not found in %s" % (ename, rel))
        return {}
    vals, nxt = {}, 0
    for part in m.group(1).split(","):
        part = part.strip()
        if not part:
            continue
        if "=" in part:
            name, expr = [x.strip() for x in part.split("=", 1)]
            try:
                nxt = int(T.parse_num_expr(expr, vals_env(vals)))
            except ValueError as ex:
                T.fail("enum %s::%s in %s: %s" % (ename, name, rel, ex))
                return {}
        else:
            name = part
        vals[name] = nxt
        nxt += 1
    if sorted(vals) != sorted(members):
        T.fail("enum %s in %s: members %s, expected %s" % (ename, rel, sorted(vals), sorted(members)))
        return {}
    return vals


def vals_env(vals):
    from fractions import Fraction
    return {k: Fraction(v) for k, v in vals.items()}


def generate(repo, T):
    out = ["/- GENERATED by tools/translate.py (tools/trules/wire_count.py) from /repo's headers on every run. Do not edit. -/",
           "", "namespace DSGen", ""]
    cache = {}

    def src(rel):
        if rel not in cache:
            cache[rel] = T.strip_comments(T.read(repo, rel))
        return cache[rel]

    for name, rel, ident, kind in NAMED:
        expr = T.find_const(src(rel), ident)
        if expr is None:
            T.fail("constant %s not found in %s" % (ident, rel))
            continue
        expr = re.sub(r"\(\s*u?int\d+_t\s*\)", "", expr)      # C-style casts `(uint32_t) 1`
        try:
            v = T.parse_num_expr(expr, {})
        except ValueError as ex:
            T.fail("%s in %s: %s" % (ident, rel, ex))
            continue
        if kind == "nat":
            if v.denominator != 1 or v < 0:
                T.fail("%s in %s: expected a natural number, got %s" % (ident, rel, v))
                continue
            out.append("def %s : Nat := %d" % (name, v.numerator))
        else:
            out.append("def %s_num : Nat := %d" % (name, v.numerator))
            out.append("def %s_den : Nat := %d" % (name, v.denominator))
    for prefix, rel, ename, members in ENUMS:
        vals = parse_enum(T, src(rel), rel, ename, members)
        for k in members:
            if k in vals:
                out.append("def %s%s : Nat := %d" % (prefix, k, vals[k]))
    for what, rel, cand, shape, mincount in SHAPES:
        cands = re.findall(cand, src(rel))
        if len(cands) < mincount:
            T.fail("%s: expected >= %d statements of the recognised form in %s, found %d" % (what, mincount, rel, len(cands)))
            continue
        got = None
        for c in cands:
            m = re.fullmatch(shape, c.strip()) or re.search(shape, c)
            if not m:
                T.fail("%s: statement `%s` in %s does not have the recognised shape" % (what, " ".join(c.split())[:160], rel))
                got = None
                break
            d = {k: int(v, 0) for k, v in m.groupdict().items()}
            if got is not None and d != got:
                T.fail("%s: occurrences in %s disagree: %s vs %s" % (what, rel, got, d))
                got = None
                break
            got = d
        if got:
            for k, v in got.items():
                out.append("def %s : Nat := %d" % (k, v))
    out += ["", "end DSGen", ""]
    return {"WireCount.lean": "\n".join(out)}

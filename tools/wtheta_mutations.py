#!/usr/bin/env python3
"""Self-test of the wire group `theta` checks: property-breaking and property-preserving edits of the anchored C++.

usage: tools/wtheta_mutations.py <framework dir to run in> <scratch repo worktree> [names...]
Every mutation: reset the scratch repo, apply the edit, run the named check with VERIF_REPO=<scratch>, print the verdict
lines; for a VIOLATION with a replay file, re-run the replay on the clean tree (must pass).  Never touches /repo."""
import os, re, subprocess, sys, time

M = []


def mut(name, check, breaking, edits, note=""):
    M.append(dict(name=name, check=check, breaking=breaking, edits=edits, note=note))


TI = "theta/include/theta_sketch_impl.hpp"
TH = "theta/include/theta_sketch.hpp"
PA = "theta/include/compact_theta_sketch_parser.hpp"
PAI = "theta/include/compact_theta_sketch_parser_impl.hpp"
BP = "theta/include/bit_packing.hpp"
TUI = "tuple/include/tuple_sketch_impl.hpp"
TU = "tuple/include/tuple_sketch.hpp"
AOI = "tuple/include/array_tuple_sketch_impl.hpp"

# ---- C09
mut("c09-entry-bits-minus-one", "c09_theta", True,
    [(TI, "  return 64 - count_leading_zeros_in_u64(ored);", "  return 63 - count_leading_zeros_in_u64(ored);")],
    "compute_entry_bits one bit too few: the top bit of the widest delta is lost")
mut("c09-entry-bits-plus-one", "c09_theta", True,
    [(TI, "  return 64 - count_leading_zeros_in_u64(ored);", "  return std::min(63, 65 - count_leading_zeros_in_u64(ored));")],
    "one bit too many: C++ round trips still pass, image differs from the documented minimal width")
mut("c09-pack1-unpack1-swapped-bits", "c09_theta", True,
    [(BP, "  *ptr |= static_cast<uint8_t>(values[6] << 1);\n  *ptr |= static_cast<uint8_t>(values[7]);\n}\n\nstatic inline void pack_bits_2",
          "  *ptr |= static_cast<uint8_t>(values[6]);\n  *ptr |= static_cast<uint8_t>(values[7] << 1);\n}\n\nstatic inline void pack_bits_2"),
     (BP, "  values[6] = (*ptr >> 1) & 1;\n  values[7] = *ptr & 1;", "  values[6] = *ptr & 1;\n  values[7] = (*ptr >> 1) & 1;")],
    "one shifted constant in pack_bits_1 and its twin in unpack_bits_1: round trip passes, layout differs")
mut("c09-compressed-size-plus-one", "c09_theta", True,
    [(TI, "  return sizeof(uint64_t) * get_preamble_longs(true) + num_entries_bytes + whole_bytes_to_hold_bits(compressed_bits);",
          "  return sizeof(uint64_t) * get_preamble_longs(true) + num_entries_bytes + whole_bytes_to_hold_bits(compressed_bits + 1);")],
    "size accounting off by one bit: a trailing zero byte in the byte-vector form whenever the packed area ends on a byte boundary")
mut("c09-tuple-bytes-writer-skips-unused", "c09_theta", True,
    [(TUI, "    ptr += copy_to_mem(num_entries, ptr);\n    ptr += sizeof(uint32_t); // unused\n  }\n  if (this->is_estimation_mode()) {\n    ptr += copy_to_mem(theta_, ptr);",
           "    ptr += copy_to_mem(num_entries, ptr);\n  }\n  if (this->is_estimation_mode()) {\n    ptr += sizeof(uint32_t); // unused\n    ptr += copy_to_mem(theta_, ptr);")],
    "tuple byte-vector writer: the unused word moved into the estimation branch (exact-mode images 4 bytes off)")
mut("c09-aod-ordered-flag-dropped-in-stream-writer", "c09_theta", True,
    [(AOI, "    (this->get_num_retained() > 0 ? 1 << flags::HAS_ENTRIES : 0) |\n    (this->is_ordered() ? 1 << flags::IS_ORDERED : 0)\n  );\n  write(os, flags_byte);",
           "    (this->get_num_retained() > 0 ? 1 << flags::HAS_ENTRIES : 0) |\n    (this->is_ordered() && this->get_num_retained() > 1 ? 1 << flags::IS_ORDERED : 0)\n  );\n  write(os, flags_byte);")],
    "array-of-doubles stream writer drops the ordered flag for 0/1 entries (rare path: stream form differs from bytes form)")
# ---- C10
mut("c10-ordered-flag-moved", "c10_theta", True,
    [(TH, "  enum flags { IS_BIG_ENDIAN, IS_READ_ONLY, IS_EMPTY, IS_COMPACT, IS_ORDERED };\n\n  bool is_empty_;",
          "  enum flags { IS_BIG_ENDIAN, IS_READ_ONLY, IS_EMPTY, IS_COMPACT, UNUSED4, IS_ORDERED };\n\n  bool is_empty_;"),
     (PA, "COMPACT_SKETCH_IS_ORDERED_FLAG = 4;", "COMPACT_SKETCH_IS_ORDERED_FLAG = 5;")],
    "IS_ORDERED moved to bit 5 consistently in writer, stream reader and parser")
mut("c10-ordered-flag-moved-c09-silent", "c09_theta", False,
    [(TH, "  enum flags { IS_BIG_ENDIAN, IS_READ_ONLY, IS_EMPTY, IS_COMPACT, IS_ORDERED };\n\n  bool is_empty_;",
          "  enum flags { IS_BIG_ENDIAN, IS_READ_ONLY, IS_EMPTY, IS_COMPACT, UNUSED4, IS_ORDERED };\n\n  bool is_empty_;"),
     (PA, "COMPACT_SKETCH_IS_ORDERED_FLAG = 4;", "COMPACT_SKETCH_IS_ORDERED_FLAG = 5;")],
    "same consistent change seen from C09: every round trip still passes (C09 must stay silent; C10 owns it)")
mut("c10-tuple-legacy-version-not-accepted", "c10_theta", True,
    [(TU, "static const uint8_t SERIAL_VERSION_LEGACY = 1;", "static const uint8_t SERIAL_VERSION_LEGACY = 2;")],
    "tuple reader no longer accepts legacy serial version 1")
mut("c10-theta-v2-exact-offset", "c10_theta", True,
    [(PAI, "              const uint64_t* entries = reinterpret_cast<const uint64_t*>(ptr) + COMPACT_SKETCH_ENTRIES_EXACT_U64;\n              return {false, true, seed_hash, num_entries, theta_constants::MAX_THETA, entries, 64};",
           "              const uint64_t* entries = reinterpret_cast<const uint64_t*>(ptr) + COMPACT_SKETCH_ENTRIES_ESTIMATION_U64;\n              return {false, true, seed_hash, num_entries, theta_constants::MAX_THETA, entries, 64};")],
    "legacy v2 exact-mode images: the parser starts the entries one long too late (wrong operand in a rare path)")
mut("c10-seed-hash-width", "c10_theta", True,
    [("common/include/MurmurHash3.h", "__SEEDHASH__", None)],
    "compute_seed_hash takes other bits of the hash: every stored image of a non-empty sketch is rejected (seed hash mismatch)")
# ---- C11
mut("c11-aod-minimum-memory-deleted", "c11_theta", True,
    [(AOI, "  ensure_minimum_memory(size, 16);\n  const char* ptr = static_cast<const char*>(bytes);", "  const char* ptr = static_cast<const char*>(bytes);")],
    "array-of-doubles bytes reader: the first ensure_minimum_memory deleted")
mut("c11-parser-size-check-off-by-one", "c11_theta", True,
    [(PAI, "  if (actual_bytes < expected_bytes) throw std::out_of_range(", "  if (actual_bytes + 1 < expected_bytes) throw std::out_of_range(")],
    "check_memory_size accepts buffers one byte short")
mut("c11-aod-stream-good-check-deleted", "c11_theta", True,
    [(AOI, "  if (!is.good()) throw std::runtime_error(\"error reading from std::istream\");\n  const bool is_empty = flags_byte & (1 << flags::IS_EMPTY);", "  const bool is_empty = flags_byte & (1 << flags::IS_EMPTY);")],
    "array-of-doubles stream reader: the final is.good() test deleted (truncated streams accepted with garbage)")
mut("c11-v4-expected-size-in-bits", "c11_theta", True,
    [(PAI, "    const size_t expected_size_bytes = data_offset_bytes + whole_bytes_to_hold_bits(expected_bits);", "    const size_t expected_size_bytes = data_offset_bytes + (expected_bits >> 3);")],
    "compressed image: the expected size rounds the packed area down (tail bits unchecked)")
mut("c11-tuple-scratch-leak-on-throw", "c11_theta", True,
    [(TUI, "  const size_t keys_size_bytes = sizeof(uint64_t) * num_entries;\n  ensure_minimum_memory(size, ptr - base + keys_size_bytes);",
           "  const size_t keys_size_bytes = sizeof(uint64_t) * num_entries;\n  uint64_t* scratch = new uint64_t[8];\n  ensure_minimum_memory(size, ptr - base + keys_size_bytes);\n  delete[] scratch;")],
    "tuple bytes reader: a scratch buffer allocated before the size check is not released when the check throws")
# ---- preserving
mut("keep-explicit-zero-for-unused", "c09_theta", False,
    [(TI, "  *ptr++ = SKETCH_TYPE;\n  ptr += sizeof(uint16_t); // unused\n  const uint8_t flags_byte(\n    (1 << flags::IS_COMPACT) |\n    (1 << flags::IS_READ_ONLY) |\n    (this->is_empty() ? 1 << flags::IS_EMPTY : 0) |",
          "  *ptr++ = SKETCH_TYPE;\n  *ptr++ = 0; *ptr++ = 0; // unused, written explicitly\n  const uint8_t flags_byte(\n    (1 << flags::IS_COMPACT) |\n    (1 << flags::IS_READ_ONLY) |\n    (this->is_empty() ? 1 << flags::IS_EMPTY : 0) |")],
    "refactoring: unused bytes written explicitly")
mut("keep-pack-statements-reordered", "c09_theta", False,
    [(BP, "  *ptr = static_cast<uint8_t>(values[0] << 6);\n  *ptr |= static_cast<uint8_t>(values[1] << 4);\n  *ptr |= static_cast<uint8_t>(values[2] << 2);\n  *ptr++ |= static_cast<uint8_t>(values[3]);\n\n  *ptr = static_cast<uint8_t>(values[4] << 6);",
          "  *ptr = static_cast<uint8_t>(values[0] << 6);\n  *ptr |= static_cast<uint8_t>(values[2] << 2);\n  *ptr |= static_cast<uint8_t>(values[1] << 4);\n  *ptr++ |= static_cast<uint8_t>(values[3]);\n\n  *ptr = static_cast<uint8_t>(values[4] << 6);")],
    "refactoring inside pack_bits_2: two independent OR statements swapped (the translated IR changes, the layout does not)")
mut("keep-c11-error-type-and-text", "c11_theta", False,
    [(PAI, "  if (actual_bytes < expected_bytes) throw std::out_of_range(\"at least \"", "  if (actual_bytes < expected_bytes) throw std::invalid_argument(\"need at least \""),
     ("common/include/memory_operations.hpp", "    throw std::out_of_range(\"Insufficient buffer size detected: bytes available \"", "    throw std::length_error(\"buffer too small: bytes available \"")],
    "exception type and message of the size checks changed")
mut("keep-c10-parser-reads-via-memcpy", "c10_theta", False,
    [(PAI, "      const uint32_t num_entries = reinterpret_cast<const uint32_t*>(ptr)[COMPACT_SKETCH_NUM_ENTRIES_U32];\n      const size_t entries_start_u64 = has_theta",
           "      uint32_t num_entries_tmp; memcpy(&num_entries_tmp, reinterpret_cast<const uint8_t*>(ptr) + COMPACT_SKETCH_NUM_ENTRIES_U32 * sizeof(uint32_t), sizeof(uint32_t));\n      const uint32_t num_entries = num_entries_tmp;\n      const size_t entries_start_u64 = has_theta")],
    "refactoring: the v3 count is read with memcpy instead of a cast")

# the seed-hash mutation needs the actual text
for m in M:
    if m["name"] == "c10-seed-hash-width":
        m["edits"] = [("common/include/MurmurHash3.h", "__SEEDHASH__", None)]


def apply(repo, edits):
    for rel, a, b in edits:
        p = os.path.join(repo, rel)
        s = open(p).read()
        if a == "__SEEDHASH__":
            m = re.search(r"return static_cast<uint16_t>\(hashes\.h1 & 0xffff\);", s)
            if not m:
                return "seed hash expression not found"
            s = s.replace(m.group(0), "return static_cast<uint16_t>((hashes.h1 >> 1) & 0xffff);")
        else:
            if s.count(a) != 1:
                return "edit anchor found %d times in %s: %r" % (s.count(a), rel, a[:60])
            s = s.replace(a, b)
        open(p, "w").write(s)
    return None


def main():
    fw, repo = sys.argv[1], sys.argv[2]
    names = sys.argv[3:]
    for m in M:
        if names and m["name"] not in names:
            continue
        subprocess.run(["git", "-C", repo, "checkout", "-q", "."], check=True)
        err = apply(repo, m["edits"])
        if err:
            print("== %s: CANNOT APPLY: %s" % (m["name"], err), flush=True)
            continue
        t0 = time.time()
        env = dict(os.environ, VERIF_REPO=repo, VERIF_JOBS=os.environ.get("VERIF_JOBS", "4"))
        p = subprocess.run(["./check", m["check"], "--tier", "quick"], cwd=fw, env=env, stdout=subprocess.PIPE, stderr=subprocess.DEVNULL, text=True)
        lines = [l for l in p.stdout.splitlines() if l.startswith("VIOLATION")]
        known = sum(1 for l in p.stdout.splitlines() if l.startswith("KNOWN-FINDING"))
        print("== %s [%s, %s] exit=%d known=%d %.0fs  (%s)" % (m["name"], m["check"], "breaking" if m["breaking"] else "preserving", p.returncode, known, time.time() - t0, m["note"]), flush=True)
        for l in lines:
            print("   " + l, flush=True)
            mm = re.search(r"replay=(\S+)", l)
            if mm:
                rp = os.path.join(fw, mm.group(1))
                hdr = [x.rstrip() for x in open(rp) if x.startswith("# ")]
                info = {k: v for k, v in (h[2:].split("=", 1) for h in hdr if "=" in h)}
                print("      kind=%s key=%s part=%s theorem=%s" % (info.get("kind"), info.get("key"), info.get("part"), info.get("theorem")), flush=True)
                print("      what=%s" % info.get("what", "")[:200], flush=True)
        if m["breaking"] == (p.returncode == 0):
            print("   !!! UNEXPECTED: %s edit, exit code %d" % ("breaking" if m["breaking"] else "preserving", p.returncode), flush=True)
        # keep replays for the clean-tree re-run
        keep = os.path.join(fw, "replays-mut", m["name"])
        os.makedirs(keep, exist_ok=True)
        for l in lines:
            mm = re.search(r"replay=(\S+)", l)
            if mm:
                subprocess.run(["cp", os.path.join(fw, mm.group(1)), keep])
    subprocess.run(["git", "-C", repo, "checkout", "-q", "."], check=True)
    # replays on the clean tree
    env = dict(os.environ, VERIF_REPO=repo, VERIF_JOBS="4")
    for m in M:
        if names and m["name"] not in names:
            continue
        keep = os.path.join(fw, "replays-mut", m["name"])
        if not os.path.isdir(keep):
            continue
        for f in sorted(os.listdir(keep)):
            p = subprocess.run(["./check", m["check"], "--replay", os.path.join(keep, f)], cwd=fw, env=env, stdout=subprocess.PIPE, stderr=subprocess.DEVNULL, text=True)
            tail = [l for l in p.stdout.splitlines() if l.startswith(("replay:", "VIOLATION", "still-broken"))]
            print("== clean-tree replay %s/%s exit=%d %s" % (m["name"], f, p.returncode, " | ".join(tail)[:300]), flush=True)


if __name__ == "__main__":
    main()

#!/usr/bin/env python3
import json, os, sys
ROOT = os.path.dirname(os.path.dirname(os.path.abspath(__file__)))
sys.path.insert(0, ROOT)
from vlib import claims
CL = claims.collect()
checks = []
for pid in claims.ALL:
    c = CL.get(pid)
    if not c:
        continue
    checks.append(dict(property_id=pid, quick_cmd="./check %s --tier quick" % pid, thorough_cmd="./check %s --tier thorough" % pid,
                       evidence_file="evidence/%s.json" % pid, replay_cmd_template="./check %s --replay {path}" % pid,
                       engine="lean4+correspondence",
                       level_claimed=dict(category=c.get("category", "proof"), text=c["text"], design_ref=c["design"]),
                       level_note=c["note"], technique=c["technique"]))
na = [dict(property_id=p, reason=claims.NA.get(p, claims.PENDING_REASON)) for p in claims.ALL if p not in CL]
hooks_commits = getattr(claims, "HOOK_COMMITS", [])
m = dict(version=1, setup_cmd="./check setup",
         hooks=dict(guard="DATASKETCHES_VERIF", enable="-DDATASKETCHES_VERIF on every harness compile (vlib/core.py harness_flags)",
                    baseline_off_cmd="./check baseline-off", source_commits=hooks_commits, add_only=True),
         engines=[dict(name="lean4+correspondence", path="check", serves_properties=[c["property_id"] for c in checks],
                       kind_free_text="Lean 4 theorems about executable models (lean/), translator tools/translate.py, C++ correspondence harnesses (harness/), Python driver (vlib/)")],
         checks=checks, not_applicable=na,
         notes="Every check: translate.py -> lake build (Props + dsmodel) -> audit + #print axioms -> g++ harness from /repo working tree (hooks on) -> correspondence + property oracle -> verdict. See DESIGN.md.")
json.dump(m, open(os.path.join(ROOT, "MANIFEST.json"), "w"), indent=1)
print("MANIFEST.json: %d checks, %d not_applicable" % (len(checks), len(na)))

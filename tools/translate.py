#!/usr/bin/env python3
"""Translator: regenerates lean/DSGen/*.lean from /repo's CURRENT headers (constants, thresholds,
numeric tables, and the straight-line bit-packing routines).  Anything it cannot parse is a
translation failure (exit 1, message on stdout) -- never skipped.

Files are rewritten only when their content changes, so lake does not rebuild needlessly.
"""
import argparse, os, re, sys
from fractions import Fraction

FAIL = []


def fail(msg):
    FAIL.append(msg)


def read(repo, rel):
    p = os.path.join(repo, rel)
    try:
        return open(p).read()
    except OSError as e:
        fail("cannot read %s: %s" % (rel, e))
        return ""


def strip_comments(src):
    src = re.sub(r"/\*.*?\*/", "", src, flags=re.S)
    return re.sub(r"//[^\n]*", "", src)


def write_if_changed(path, content):
    old = None
    if os.path.exists(path):
        old = open(path).read()
    if old != content:
        os.makedirs(os.path.dirname(path), exist_ok=True)
        with open(path, "w") as f:
            f.write(content)
        return True
    return False


# ---------------------------------------------------------------- constant expressions

TOK = re.compile(r"\s*(?:(0[xX][0-9a-fA-F]+)[uUlL]*|(\d+\.\d*(?:[eE][-+]?\d+)?|\.\d+(?:[eE][-+]?\d+)?|\d+[eE][-+]?\d+)[fFlL]?|(\d+)[uUlL]*|([A-Za-z_][\w:]*)|(<<|>>|[-+*/()|&<>,]))")


def tokenize(expr):
    pos, toks = 0, []
    expr = expr.strip()
    while pos < len(expr):
        m = TOK.match(expr, pos)
        if not m:
            raise ValueError("cannot tokenize %r at %d" % (expr, pos))
        pos = m.end()
        if m.group(1):
            toks.append(("int", Fraction(int(m.group(1), 16))))
        elif m.group(2):
            toks.append(("flt", Fraction(m.group(2))))
        elif m.group(3):
            toks.append(("int", Fraction(int(m.group(3)))))
        elif m.group(4):
            toks.append(("id", m.group(4)))
        else:
            toks.append(("op", m.group(5)))
    return toks


def parse_num_expr(expr, env=None):
    """Evaluate a small C++ constant expression exactly (Fraction): literals, names from env, + - * / << >> | &,
    parentheses, static_cast<T>(e) and T(e) casts.  Integer / integer is C integer division."""
    env = dict(env or {})
    env.setdefault("LLONG_MAX", Fraction(2**63 - 1))
    env.setdefault("UINT64_MAX", Fraction(2**64 - 1))
    env.setdefault("UINT32_MAX", Fraction(2**32 - 1))
    toks = tokenize(expr)
    pos = [0]

    def peek():
        return toks[pos[0]] if pos[0] < len(toks) else (None, None)

    def take():
        t = peek(); pos[0] += 1; return t

    def expect(op):
        t = take()
        if t != ("op", op):
            raise ValueError("expected %r in %r" % (op, expr))

    # value = (Fraction, is_float)
    def primary():
        k, v = take()
        if k == "int":
            return (v, False)
        if k == "flt":
            return (v, True)
        if k == "op" and v == "(":
            r = bitor(); expect(")"); return r
        if k == "op" and v == "-":
            r = primary(); return (-r[0], r[1])
        if k == "op" and v == "+":
            return primary()
        if k == "id":
            if v == "static_cast":
                expect("<")
                ty = []
                while peek() != ("op", ">"):
                    ty.append(take()[1])
                expect(">"); expect("("); r = bitor(); expect(")")
                isf = any(t in ("double", "float") for t in ty)
                return (r[0] if isf else Fraction(int(r[0])), isf)
            if peek() == ("op", "(") and re.match(r"^(u?int\d+_t|size_t|double|float|unsigned|int)$", v):
                take(); r = bitor(); expect(")")
                isf = v in ("double", "float")
                return (r[0] if isf else Fraction(int(r[0])), isf)
            base = v.split("::")[-1]
            if base in env:
                x = env[base]
                return (x, x.denominator != 1)
            raise ValueError("unknown identifier %r in %r" % (v, expr))
        raise ValueError("unexpected token %r in %r" % (v, expr))

    def mul():
        l = primary()
        while peek() in (("op", "*"), ("op", "/")):
            op = take()[1]; r = primary()
            if op == "*":
                l = (l[0] * r[0], l[1] or r[1])
            else:
                if l[1] or r[1]:
                    l = (l[0] / r[0], True)
                else:
                    q = abs(int(l[0])) // abs(int(r[0]))
                    l = (Fraction(q if (l[0] < 0) == (r[0] < 0) else -q), False)
        return l

    def add():
        l = mul()
        while peek() in (("op", "+"), ("op", "-")):
            op = take()[1]; r = mul()
            l = (l[0] + r[0] if op == "+" else l[0] - r[0], l[1] or r[1])
        return l

    def shift():
        l = add()
        while peek() in (("op", "<<"), ("op", ">>")):
            op = take()[1]; r = add()
            l = (Fraction(int(l[0]) << int(r[0])) if op == "<<" else Fraction(int(l[0]) >> int(r[0])), False)
        return l

    def bitand():
        l = shift()
        while peek() == ("op", "&"):
            take(); r = shift(); l = (Fraction(int(l[0]) & int(r[0])), False)
        return l

    def bitor():
        l = bitand()
        while peek() == ("op", "|"):
            take(); r = bitand(); l = (Fraction(int(l[0]) | int(r[0])), False)
        return l

    v = bitor()
    if pos[0] != len(toks):
        raise ValueError("trailing tokens in %r" % expr)
    return v[0]


def find_const(src, ident):
    """value expression of `... IDENT = expr;` (first declaration)."""
    m = re.search(r"\b%s\s*=\s*([^;]+);" % ident, src)
    return m.group(1).strip() if m else None


def gen_consts(repo, rules, header=""):
    """rules: (lean name, file, C++ identifier, kind in nat|rat|int) -> Lean source of a `namespace DSGen` block."""
    out = ["/- GENERATED by tools/translate.py from /repo's headers on every run. Do not edit. -/", header, "namespace DSGen", ""]
    cache = {}
    env = {}
    for name, rel, ident, kind in rules:
        if rel not in cache:
            cache[rel] = strip_comments(read(repo, rel))
        expr = find_const(cache[rel], ident)
        if expr is None:
            fail("constant %s not found in %s" % (ident, rel))
            continue
        try:
            v = parse_num_expr(expr, env)
        except ValueError as ex:
            fail("%s in %s: %s" % (ident, rel, ex))
            continue
        env[ident] = v
        if kind == "nat":
            if v.denominator != 1 or v < 0:
                fail("%s in %s: expected a natural number, got %s" % (ident, rel, v))
                continue
            out.append("def %s : Nat := %d" % (name, v.numerator))
        elif kind == "rat":
            out.append("def %s_num : Nat := %d" % (name, v.numerator))
            out.append("def %s_den : Nat := %d" % (name, v.denominator))
        elif kind == "int":
            out.append("def %s : Int := %d" % (name, v.numerator))
    out += ["", "end DSGen", ""]
    return "\n".join(out)


def main():
    """Each tools/trules/<family>.py defines `generate(repo, T) -> {filename: content}` (T = this module).
    A family whose generation fails gets no files rewritten and is listed in DSGen/_status.json, so only
    the checks depending on that family see the broken tie."""
    import importlib.util, json, glob
    ap = argparse.ArgumentParser()
    ap.add_argument("--repo", default="/repo")
    ap.add_argument("--out", required=True)
    ap.add_argument("--family", default=None)
    a = ap.parse_args()
    me = sys.modules[__name__]
    status = {}
    rc = 0
    nfiles = nchanged = 0
    for rf in sorted(glob.glob(os.path.join(os.path.dirname(os.path.abspath(__file__)), "trules", "*.py"))):
        fam = os.path.basename(rf)[:-3]
        if fam.startswith("_") or (a.family and fam != a.family):
            continue
        del FAIL[:]
        try:
            spec = importlib.util.spec_from_file_location("trules_" + fam, rf)
            mod = importlib.util.module_from_spec(spec)
            spec.loader.exec_module(mod)
            files = mod.generate(a.repo, me)
        except Exception as ex:
            fail("translator exception in family %s: %r" % (fam, ex))
            files = {}
        if FAIL:
            status[fam] = dict(ok=False, errors=list(FAIL))
            print("TRANSLATION FAILURE family=%s" % fam)
            for f in FAIL:
                print("  " + f)
            rc = 1
            continue
        status[fam] = dict(ok=True, files=sorted(files))
        for n, c in files.items():
            nfiles += 1
            if write_if_changed(os.path.join(a.out, n), c):
                nchanged += 1
    if not a.family:
        write_if_changed(os.path.join(a.out, "_status.json"), json.dumps(status, indent=1, sort_keys=True))
    print("translate: %d files, %d changed" % (nfiles, nchanged))
    return rc


if __name__ == "__main__":
    sys.exit(main())

#!/bin/bash
# usage: tools/sweep.sh <tier> <seed>...   — runs every registered check once per seed on the current tree, prints exit codes and alarm lines
tier=$1; shift
cd "$(dirname "$0")/.."
for s in "$@"; do
  for i in ${SWEEP_IDS:-$(seq -w 1 20)}; do
    c=C$i
    t0=$(date +%s)
    VERIF_SEED=$s ./check $c --tier $tier > /var/tmp/sweep_${c}_${s}.log 2>&1; rc=$?
    echo "$c seed=$s tier=$tier exit=$rc $(( $(date +%s) - t0 ))s known=$(grep -c '^KNOWN-FINDING' /var/tmp/sweep_${c}_${s}.log) $(grep '^VIOLATION' /var/tmp/sweep_${c}_${s}.log | head -3 | tr '\n' ' ')"
  done
done

#!/bin/bash
# usage: tools/adopt_round.sh <round-tag> <worktree-prefix> <pid>...   (run from the checkout that should execute the selftests)
# names each change <pid>-<tag>-<first touched file stem>; test targets from the touched modules
tag=$1; pre=$2; shift 2
ROOT="$(cd "$(dirname "$0")/.." && pwd)"
for pid in "$@"; do
  wt=$pre$pid
  [ -f $wt/OUT/meta.json ] || { echo "$pid: no deliverable"; continue; }
  read name targets < <(python3 - "$wt" "$pid" "$tag" <<'PY'
import json,sys,os,re
wt,pid,tag=sys.argv[1:4]
m=json.load(open(wt+'/OUT/meta.json'))
files=m.get('files_touched') or []
if isinstance(files,str): files=[files]
stem=re.sub(r'[^a-z0-9]+','-',os.path.basename(files[0]).replace('_impl','').replace('-internal','').replace('.hpp','').lower()).strip('-') if files else 'x'
mods=set(f.split('/')[0] if not f.startswith('/') else f.split('/')[3] for f in files)
T={'theta':['theta_test','tuple_test'],'tuple':['tuple_test'],'hll':['hll_test'],'cpc':['cpc_test'],'kll':['kll_test'],'req':['req_test'],'quantiles':['quantiles_test'],'fi':['fi_test'],'count':['count_min_test'],'sampling':['var_opt_sampling_test','ebpps_sampling_test'],'tdigest':['tdigest_test'],'filters':['bloom_filter_test'],'density':['density_test'],'common':['common_test','theta_test','kll_test']}
ts=[]
for x in mods:
    for t in T.get(x,[]):
        if t not in ts: ts.append(t)
print('%s-%s-%s'%(pid,tag,stem), ' '.join(ts or ['common_test']))
PY
)
  res=$($ROOT/tools/adopt_seeded.sh $pid $wt $name $targets 2>&1 | tail -3 | tr '\n' ' ')
  echo "$name [$targets]: $res"
done

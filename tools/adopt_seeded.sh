#!/bin/bash
# usage: tools/adopt_seeded.sh <pid> <mutation-worktree> <name> <test-target>...
# confirms tests + demo in the mutation worktree, stores OUT/ under seeded/<name>/, runs ./check selftest <name>
set -u
pid=$1; wt=$2; name=$3; shift 3
ROOT="$(cd "$(dirname "$0")/.." && pwd)"   # the framework checkout this script lives in (selftests may run from a second worktree)
d=$ROOT/seeded/$name
mkdir -p $d
cp $wt/OUT/patch.diff $wt/OUT/demo.cpp $wt/OUT/build_and_run.sh $wt/OUT/meta.json $d/ 2>/dev/null
echo "--- tests on changed tree"
tests_ok=1
for t in "$@"; do
  cmake --build $wt/_build --target $t -j6 2>&1 | tail -1
  exe=$(find $wt/_build -name $t -type f | head -1)
  out=$($exe 2>&1 | tail -2 | tr '\n' ' '); echo "$t: $out"
  echo "$out" | grep -q "All tests passed" || tests_ok=0
done
echo "--- demo on changed tree"; bash $d/build_and_run.sh $wt > /tmp/demo_changed.log 2>&1; rc1=$?; tail -2 /tmp/demo_changed.log
echo "--- demo on /repo"; bash $d/build_and_run.sh /repo > /tmp/demo_unchanged.log 2>&1; rc2=$?; tail -2 /tmp/demo_unchanged.log
echo "demo rc changed=$rc1 unchanged=$rc2 tests_ok=$tests_ok"
cd $ROOT && ./check selftest $name 2>&1 | tail -2 | tee /tmp/selftest_$name.log
python3 - "$d" "$rc1" "$rc2" "$tests_ok" "$*" "$name" <<'PY'
import json,sys
d,rc1,rc2,tok,tests,name=sys.argv[1:7]
m=json.load(open(d+'/meta.json'))
st=open('/tmp/selftest_%s.log'%name).read().strip().splitlines()[-1]
m['confirmed_by_integrator']=dict(tests_rerun='%s rebuilt and run on the changed tree: %s'%(tests,'all passed' if tok=='1' else 'NOT all passed'),
  demo='exit %s on the changed tree, exit %s on /repo'%(rc1,rc2), check_result=st)
json.dump(m,open(d+'/meta.json','w'),indent=1)
PY
